import Amshan.Lemmas.DecOwn
import Amshan.Lemmas.KamstrupRT
import Amshan.Lemmas.P1ParseRTDecode
/-
  Lemmas for Props/C12OwnBody: which of the seven concrete decoders reject a BARE notification body
  (no LLC/APDU header) given to a fresh AutoDecoder.

  * the three frame decoders parse an LLC/APDU header first: three LLC octets, the APDU tag, four
    invoke-id octets and then a date-time that is a null octet (0), a tagged date-time (9, 12, …) or an
    untagged one (12, …).  `noApduStart p` says that octets 9… of `p` are not such a date-time followed
    by something a frame decoder would take for a notification body;
  * the P1 text decoder rejects everything with an octet below 0x20 other than CR and LF - in
    particular everything that starts with the array tag 1 or the structure tag 2, i.e. every
    notification body (`p1_reject_control`, `p1_reject_tag`).  It also rejects everything that is not
    7-bit ASCII, and every text without '(' or without ')' (`p1Safe p`, `p1_reject`).
-/
namespace Amshan.DecOwnBody
open Amshan.Gen Amshan.Cosem Amshan.Dec Amshan.Auto Amshan.ListSpec Amshan.DecTotal Amshan.DecOwn

/-! ### the loop on a fresh AutoDecoder, general form -/

variable {α β : Type}

theorem tryLoop_first (decs : List (Decoder α β)) (caught : PyExc → Bool)
    (p : α) (i : Nat) (d : Decoder α β) (v : β) (hi : decs[i]? = some d) (hv : d p = .ok v)
    (hrej : ∀ j, j < i → ∀ d', decs[j]? = some d' → ∃ e, d' p = .error e ∧ caught e = true) :
    ∀ k j, j ≤ i → i < j + k → j + k ≤ decs.length →
      tryLoop decs caught 0 p k j = .ok (some (i, v)) := by
  intro k
  induction k with
  | zero => intro j h1 h2 _; omega
  | succ k ih =>
    intro j h1 h2 h3
    have hjl : j < decs.length := by omega
    rw [tryLoop_succ, Nat.add_zero, Nat.mod_eq_of_lt hjl]
    by_cases hji : j = i
    · subst hji
      rw [hi]
      simp only [hv]
    · rw [List.getElem?_eq_getElem hjl]
      obtain ⟨e, he, hc⟩ := hrej j (by omega) _ (List.getElem?_eq_getElem hjl)
      simp only [he, hc, if_true]
      exact ih (j + 1) (by omega) (by omega) (by omega)

/-- **the general principle**, for any decoder table and any `except` clause: with nothing
    remembered, if decoders `0 … k-1` raise exceptions the clause catches and decoder `k` returns
    `v`, the result is `v` and decoder `k` is remembered -/
theorem step_fresh_k (decs : List (Decoder α β)) (caught : PyExc → Bool)
    (p : α) (k : Nat) (d : Decoder α β) (v : β) (hk : decs[k]? = some d) (hv : d p = .ok v)
    (hrej : ∀ j, j < k → ∀ d', decs[j]? = some d' → ∃ e, d' p = .error e ∧ caught e = true) :
    step decs caught none p = .ok (some k, some v) := by
  have hlt : k < decs.length := (List.getElem?_eq_some_iff.1 hk).1
  rw [step_eq]
  have hs : startOf none = 0 := rfl
  rw [hs, tryLoop_first decs caught p k d v hk hv hrej decs.length 0 (Nat.zero_le _) (by omega) (by omega)]

/-! ### rejection -/

/-- the decoder raises (any exception class; AutoDecoder catches them all, `caught_all`) -/
def Rej (o : Out) : Prop := ∃ e, ofOut o = .error e

theorem rej_construct : Rej .construct := ⟨_, rfl⟩
theorem rej_exc (e : PyExc) : Rej (.exc e) := ⟨e, rfl⟩

theorem rej_toOut_soft : Rej (Res.toOut (.soft : Res Dict)) := rej_construct

/-- decoders `0 … k-1` of the concrete table, by index -/
theorem decoders_lt (p : List Nat) (k : Nat) (hk : k ≤ 6)
    (h0 : 0 < k → Rej (Aidon.decodeFrame p)) (h1 : 1 < k → Rej (Kaifa.decodeFrame p))
    (h2 : 2 < k → Rej (Kamstrup.decodeFrame p)) (h3 : 3 < k → ∃ e, P1Parse.decodeContent p = .error e)
    (h4 : 4 < k → Rej (Aidon.decodeBody p)) (h5 : 5 < k → Rej (Kaifa.decodeBody p)) :
    ∀ j, j < k → ∀ d', decoders[j]? = some d' → ∃ e, d' p = .error e ∧ caught e = true := by
  intro j hj d' hd'
  rw [decoders_eq] at hd'
  match j, hj with
  | 0, hj =>
    simp only [List.getElem?_cons_zero, Option.some.injEq] at hd'
    subst hd'
    obtain ⟨e, he⟩ := h0 hj
    exact ⟨e, he, caught_all e⟩
  | 1, hj =>
    simp only [List.getElem?_cons_succ, List.getElem?_cons_zero, Option.some.injEq] at hd'
    subst hd'
    obtain ⟨e, he⟩ := h1 hj
    exact ⟨e, he, caught_all e⟩
  | 2, hj =>
    simp only [List.getElem?_cons_succ, List.getElem?_cons_zero, Option.some.injEq] at hd'
    subst hd'
    obtain ⟨e, he⟩ := h2 hj
    exact ⟨e, he, caught_all e⟩
  | 3, hj =>
    simp only [List.getElem?_cons_succ, List.getElem?_cons_zero, Option.some.injEq] at hd'
    subst hd'
    obtain ⟨e, he⟩ := h3 hj
    exact ⟨e, he, caught_all e⟩
  | 4, hj =>
    simp only [List.getElem?_cons_succ, List.getElem?_cons_zero, Option.some.injEq] at hd'
    subst hd'
    obtain ⟨e, he⟩ := h4 hj
    exact ⟨e, he, caught_all e⟩
  | 5, hj =>
    simp only [List.getElem?_cons_succ, List.getElem?_cons_zero, Option.some.injEq] at hd'
    subst hd'
    obtain ⟨e, he⟩ := h5 hj
    exact ⟨e, he, caught_all e⟩
  | j + 6, hj => omega

theorem fresh4 (p : List Nat) (v : Dict) (h0 : Rej (Aidon.decodeFrame p)) (h1 : Rej (Kaifa.decodeFrame p))
    (h2 : Rej (Kamstrup.decodeFrame p)) (h3 : ∃ e, P1Parse.decodeContent p = .error e)
    (h4 : Aidon.decodeBody p = .dict v) : stepPayload none p = .ok (some 4, some v) := by
  refine step_fresh_k decoders caught p 4 _ v (by rw [decoders_eq]; rfl) ?_
    (decoders_lt p 4 (by omega) (fun _ => h0) (fun _ => h1) (fun _ => h2) (fun _ => h3)
      (fun h => absurd h (by omega)) (fun h => absurd h (by omega)))
  simp only [h4, ofOut_dict]

theorem fresh5 (p : List Nat) (v : Dict) (h0 : Rej (Aidon.decodeFrame p)) (h1 : Rej (Kaifa.decodeFrame p))
    (h2 : Rej (Kamstrup.decodeFrame p)) (h3 : ∃ e, P1Parse.decodeContent p = .error e)
    (h4 : Rej (Aidon.decodeBody p))
    (h5 : Kaifa.decodeBody p = .dict v) : stepPayload none p = .ok (some 5, some v) := by
  refine step_fresh_k decoders caught p 5 _ v (by rw [decoders_eq]; rfl) ?_
    (decoders_lt p 5 (by omega) (fun _ => h0) (fun _ => h1) (fun _ => h2) (fun _ => h3)
      (fun _ => h4) (fun h => absurd h (by omega)))
  simp only [h5, ofOut_dict]

theorem fresh6 (p : List Nat) (v : Dict) (h0 : Rej (Aidon.decodeFrame p)) (h1 : Rej (Kaifa.decodeFrame p))
    (h2 : Rej (Kamstrup.decodeFrame p)) (h3 : ∃ e, P1Parse.decodeContent p = .error e)
    (h4 : Rej (Aidon.decodeBody p)) (h5 : Rej (Kaifa.decodeBody p))
    (h6 : Kamstrup.decodeBody p = .dict v) : stepPayload none p = .ok (some 6, some v) := by
  refine step_fresh_k decoders caught p 6 _ v (by rw [decoders_eq]; rfl) ?_
    (decoders_lt p 6 (by omega) (fun _ => h0) (fun _ => h1) (fun _ => h2) (fun _ => h3)
      (fun _ => h4) (fun _ => h5))
  simp only [h6, ofOut_dict]

/-! ### the LLC/APDU header parse, by the ninth octet -/

/-- the optional date-time of `_get_apdu_struct` (what `apdu` does after the invoke-id) -/
def clockRes (r : List Nat) : Res ApduDT :=
  match r with
  | b :: _ =>
    if b = tNull then (u8 r).bind fun v r' => .ok (.byte v) r'
    else if b = tOctet then (dateTimeField r).bind fun d r' => .ok (.dt d) r'
    else (dateTime r).bind fun d r' => .ok (.dt d) r'
  | [] => (dateTime r).bind fun d r' => .ok (.dt d) r'

theorem llc_eq {γ : Type} (body : List Nat → Res γ) (s : List Nat) :
    llc body s = (clockRes (s.drop 8)).bind fun d r => (body r).bind fun b r' => .ok (d, b) r' := by
  rcases s with _ | ⟨a, _ | ⟨b, _ | ⟨c, _ | ⟨t, _ | ⟨i1, _ | ⟨i2, _ | ⟨i3, _ | ⟨i4, r⟩⟩⟩⟩⟩⟩⟩⟩
  all_goals first
    | rfl
    | simp [llc, apdu, takeN, u8, Res.bind, clockRes, dateTime_nil]

/-- acceptable continuation after a null date-time: not an Aidon array the Aidon grammar can start
    on, not a structure the Kaifa OBIS grammar can start on -/
def nullBodyOk (r : List Nat) : Bool :=
  match r with
  | t :: n :: r' =>
    if t = 1 then n != 0 && r'.head? != some 2
    else if t = 2 then n != 0 && r'.head? != some 9
    else true
  | _ => true

/-- twelve date-time octets that `datetime()` refuses whatever the rest: too few of them, or a month
    octet outside 1..12 -/
def badDate (r : List Nat) : Bool := decide (r.length < 12) || r.getD 2 0 == 0 || decide (13 ≤ r.getD 2 0)

/-- octets 9… of the payload are not an APDU date-time followed by the start of a notification body:
    * fewer than nine octets; or
    * the ninth octet is none of 0 (null date-time), 9 (tagged), 12 (untagged); or
    * 9 not followed by the length 12, or 9 12 / 12 followed by fewer than twelve octets or by a month
      octet outside 1..12; or
    * 0 followed by something that is neither array(1) nor structure(2), or by array/structure
      with a non-zero count whose first element does not start with 2 (Aidon) / 9 (Kaifa OBIS). -/
def noApduStart (p : List Nat) : Bool :=
  match p.drop 8 with
  | [] => true
  | b :: r =>
    if b = 0 then nullBodyOk r
    else if b = 9 then (match r with | l :: r' => if l = 12 then badDate r' else true | [] => true)
    else if b = 12 then badDate r
    else true

theorem noApduStart_short (p : List Nat) (h : p.length ≤ 8) : noApduStart p = true := by
  unfold noApduStart
  rw [List.drop_eq_nil_of_le h]

theorem mkDatetime_bad_month (y mo d : Nat) (h mi s hs : Option Nat) (dev : Option Int)
    (hm : mo = 0 ∨ 13 ≤ mo) : ∃ e, mkDatetime y mo d h mi s hs dev = .error e := by
  unfold mkDatetime
  split
  · exact ⟨_, rfl⟩
  · split
    · rw [if_neg (by omega)]
      exact ⟨_, rfl⟩
    · exact ⟨_, rfl⟩

theorem dateTime_bad_month (r : List Nat) (h' : badDate r = true) :
    dateTime (12 :: r) = .soft ∨ ∃ e, dateTime (12 :: r) = .py e := by
  have h : r.length < 12 ∨ r.getD 2 0 = 0 ∨ 13 ≤ r.getD 2 0 := by
    unfold badDate at h'
    simp only [Bool.or_eq_true, decide_eq_true_eq, beq_iff_eq] at h'
    omega
  unfold dateTime
  split
  · rename_i yh yl mo d dow hh mi s hs dh dl st rest heq
    simp only [List.cons.injEq, true_and] at heq
    subst heq
    have hm : mo = 0 ∨ 13 ≤ mo := by
      rcases h with h | h | h
      · simp only [List.length_cons] at h; omega
      · left; simpa using h
      · right; simpa using h
    obtain ⟨e, he⟩ := mkDatetime_bad_month (yh * 256 + yl) mo d (optByte hh) (optByte mi) (optByte s)
      (optByte hs) (if (if dh * 256 + dl ≥ 32768 then ((dh * 256 + dl : Nat) : Int) - 65536 else ((dh * 256 + dl : Nat) : Int)) = -32768 then none
        else some (if dh * 256 + dl ≥ 32768 then ((dh * 256 + dl : Nat) : Int) - 65536 else ((dh * 256 + dl : Nat) : Int))) hm
    right
    exact ⟨e, by simp only [he]⟩
  · left; rfl

/-- with `noApduStart`, the date-time parse fails (softly or with a Python exception) or it is the
    null octet and the rest is an acceptable continuation -/
theorem clock_cases (p : List Nat) (h : noApduStart p = true) :
    clockRes (p.drop 8) = .soft ∨ (∃ e, clockRes (p.drop 8) = .py e) ∨
      ∃ r, nullBodyOk r = true ∧ clockRes (p.drop 8) = .ok (.byte 0) r := by
  unfold noApduStart at h
  generalize p.drop 8 = q at h
  rcases q with _ | ⟨b, r⟩
  · left; simp [clockRes, dateTime_nil, Res.bind]
  · simp only at h
    by_cases h0 : b = 0
    · subst h0
      rw [if_pos rfl] at h
      right; right
      exact ⟨r, h, by simp [clockRes, u8, Res.bind]⟩
    · rw [if_neg h0] at h
      by_cases h9 : b = 9
      · subst h9
        rw [if_pos rfl] at h
        rcases r with _ | ⟨l, r'⟩
        · left; simp [clockRes, dateTimeField, constByte, u8, Res.bind, dateTime_nil]
        · have hc : clockRes (9 :: l :: r') = (dateTime (l :: r')).bind fun d r' => .ok (.dt d) r' := by
            simp [clockRes, dateTimeField, constByte, u8, Res.bind]
          rw [hc]
          by_cases hl : l = 12
          · subst hl
            simp only [if_true] at h
            rcases dateTime_bad_month r' h with hd | ⟨e, hd⟩
            · left; rw [hd]; rfl
            · right; left; exact ⟨e, by rw [hd]; rfl⟩
          · left; rw [dateTime_soft_of_ne l r' hl]; rfl
      · rw [if_neg h9] at h
        by_cases h12 : b = 12
        · subst h12
          rw [if_pos rfl] at h
          have hc : clockRes (12 :: r) = (dateTime (12 :: r)).bind fun d r' => .ok (.dt d) r' := by
            simp [clockRes]
          rw [hc]
          rcases dateTime_bad_month r h with hd | ⟨e, hd⟩
          · left; rw [hd]; rfl
          · right; left; exact ⟨e, by rw [hd]; rfl⟩
        · left
          have hc : clockRes (b :: r) = (dateTime (b :: r)).bind fun d r' => .ok (.dt d) r' := by
            simp [clockRes, h0, h9]
          rw [hc, dateTime_soft_of_ne b r h12]
          rfl

/-! ### the three frame decoders reject a payload with `noApduStart` -/

theorem aidon_nb_soft (r : List Nat) (h : nullBodyOk r = true) : Aidon.notificationBody r = .soft := by
  rcases r with _ | ⟨t, _ | ⟨n, r'⟩⟩
  · rfl
  · by_cases ht : t = 1
    · subst ht; simp [Aidon.notificationBody, constByte, u8, Res.bind]
    · simp [Aidon.notificationBody, constByte, u8, Res.bind, ht]
  · by_cases ht : t = 1
    · subst ht
      simp [nullBodyOk] at h
      obtain ⟨m, rfl⟩ : ∃ m, n = m + 1 := ⟨n - 1, by omega⟩
      have he : Aidon.element r' = .soft := by
        rcases r' with _ | ⟨f, r''⟩
        · simp [Aidon.element, constByte, u8, Res.bind]
        · have hf : f ≠ 2 := by simpa using h.2
          simp [Aidon.element, constByte, u8, Res.bind, hf]
      simp [Aidon.notificationBody, constByte, u8, Res.bind, Aidon.elements, he]
    · simp [Aidon.notificationBody, constByte, u8, Res.bind, ht]

theorem aidon_frame_rej (p : List Nat) (h : noApduStart p = true) : Rej (Aidon.decodeFrame p) := by
  unfold Aidon.decodeFrame
  rw [llc_eq]
  rcases clock_cases p h with hc | ⟨e, hc⟩ | ⟨r, hr, hc⟩
  · rw [hc]; exact rej_construct
  · rw [hc]; exact rej_exc e
  · rw [hc]
    simp only [Res.bind, aidon_nb_soft r hr]
    exact rej_construct

theorem kaifa_obisBody_soft (r : List Nat) (h : nullBodyOk r = true) : Kaifa.obisBody r = .soft := by
  rcases r with _ | ⟨t, _ | ⟨n, r'⟩⟩
  · rfl
  · by_cases ht : t = 2
    · subst ht; simp [Kaifa.obisBody, constByte, u8, Res.bind]
    · simp [Kaifa.obisBody, constByte, u8, Res.bind, ht]
  · by_cases ht : t = 2
    · subst ht
      simp [nullBodyOk] at h
      have he : Kaifa.obisElement r' = .soft := by
        rcases r' with _ | ⟨f, r''⟩
        · simp [Kaifa.obisElement, obisField, constByte, u8, Res.bind]
        · have hf : f ≠ 9 := by simpa using h.2
          simp [Kaifa.obisElement, obisField, constByte, u8, Res.bind, hf]
      have hg : Kaifa.greedyObis (r'.length + 1) r' = .ok [] r' := by
        rw [kaifa_greedy_succ, he]
      have hn : ¬ n = 0 := by simpa using h.1
      simp [Kaifa.obisBody, constByte, u8, Res.bind, hg, hn]
    · simp [Kaifa.obisBody, constByte, u8, Res.bind, ht]

theorem kaifa_valueBody_values (s : List Nat) (b : Kaifa.Body) (r : List Nat)
    (h : Kaifa.valueBody s = .ok b r) : ∃ vs, b = .values vs := by
  unfold Kaifa.valueBody at h
  cases hc : constByte tStructure s with
  | ok u s1 =>
    rw [hc] at h
    cases hu : u8 s1 with
    | ok n s2 =>
      simp only [Res.bind, hu] at h
      cases hf : Kaifa.fields n s2 with
      | ok vs r2 => rw [hf] at h; simp only [Res.ok.injEq] at h; exact ⟨vs, h.1.symm⟩
      | soft => rw [hf] at h; cases h
      | explicit => rw [hf] at h; cases h
      | py e => rw [hf] at h; cases h
    | soft => simp only [Res.bind, hu] at h; cases h
    | explicit => simp only [Res.bind, hu] at h; cases h
    | py e => simp only [Res.bind, hu] at h; cases h
  | soft => rw [hc] at h; cases h
  | explicit => rw [hc] at h; cases h
  | py e => rw [hc] at h; cases h

theorem normValues_byte (b : Nat) (vs : List FieldVal) :
    Kaifa.normValues (some (.byte b)) vs = .error .attributeError := rfl

theorem kaifa_frame_rej (p : List Nat) (h : noApduStart p = true) : Rej (Kaifa.decodeFrame p) := by
  unfold Kaifa.decodeFrame Kaifa.llcPdu Kaifa.select
  rw [llc_eq, llc_eq]
  rcases clock_cases p h with hc | ⟨e, hc⟩ | ⟨r, hr, hc⟩
  · rw [hc]; exact rej_construct
  · rw [hc]; exact rej_construct
  · rw [hc]
    simp only [Res.bind, kaifa_obisBody_soft r hr]
    cases hv : Kaifa.valueBody r with
    | ok b r2 =>
      obtain ⟨vs, rfl⟩ := kaifa_valueBody_values r b r2 hv
      simp only [normValues_byte]
      exact rej_exc _
    | soft => exact rej_construct
    | explicit => exact rej_construct
    | py e => exact rej_construct

theorem kamstrup_frame_rej (p : List Nat) (h : noApduStart p = true) : Rej (Kamstrup.decodeFrame p) := by
  unfold Kamstrup.decodeFrame
  rw [llc_eq]
  rcases clock_cases p h with hc | ⟨e, hc⟩ | ⟨r, _, hc⟩
  · rw [hc]; exact rej_construct
  · rw [hc]; exact rej_exc e
  · rw [hc]
    simp only [Res.bind]
    cases hv : Kamstrup.notificationBody r with
    | ok items r2 =>
      simp only
      cases hn : Kamstrup.normalize items with
      | ok d => exact rej_exc _
      | error e => exact rej_exc e
    | soft => exact rej_construct
    | explicit => exact rej_construct
    | py e => exact rej_exc e

/-! ### the P1 text decoder rejects non-ASCII octets and text without '(' or without ')' -/

open Amshan.Py Amshan.P1Parse in
/-- an octet ≥ 0x80 (UnicodeDecodeError / "Readout must be ascii"), or no '(' at all, or no ')' at all
    (no data set can be parsed: "Content contains no readout data" or a missing-')' ValueError) -/
def p1Safe (p : List Nat) : Bool := p.any (fun b => decide (128 ≤ b)) || !p.contains 40 || !p.contains 41

section P1
open Amshan.Py Amshan.P1Parse

theorem takeWhile_ne_self (c : Nat) : ∀ xs : List Nat, c ∉ xs → xs.takeWhile (· != c) = xs := by
  intro xs
  induction xs with
  | nil => intro _; rfl
  | cons x t ih =>
    intro h
    have hx : (x != c) = true := by
      simp only [bne_iff_ne, ne_eq]
      intro hxc; subst hxc; exact h List.mem_cons_self
    rw [List.takeWhile_cons, if_pos hx, ih (fun hm => h (List.mem_cons_of_mem _ hm))]

theorem find_none (xs : List Nat) (c : Nat) (h : c ∉ xs) : find xs c = none := by
  unfold find
  simp only [takeWhile_ne_self c xs h, Nat.lt_irrefl, if_false]

theorem findFrom_none (line : List Nat) (c : Nat) (start : Nat) (h : c ∉ line) : findFrom line c start = none := by
  unfold findFrom
  rw [find_none _ c (fun hm => h (List.mem_of_mem_drop hm))]
  rfl

theorem valuesLoop_no_close (line : List Nat) (h : 41 ∉ line) (fuel fromPos : Nat) (vals : List DataSetValue)
    (it : Nat) : ∃ e, valuesLoop line fuel fromPos vals it = .error e := by
  cases fuel with
  | zero => exact ⟨_, rfl⟩
  | succ f =>
    unfold valuesLoop
    split
    · exact ⟨_, rfl⟩
    · rw [findFrom_none line 41 fromPos h]
      exact ⟨_, rfl⟩

/-- a line from which `parse_data_block` gets no data set: it raises, or adds nothing -/
def LineNoItems (line : List Nat) : Prop :=
  (∃ e, lineLoop line (line.length + 1) 0 [] 0 = .error e) ∨ ∃ n, lineLoop line (line.length + 1) 0 [] 0 = .ok ([], n)

theorem gav_no_open (line : List Nat) (h : 40 ∉ line) :
    getAddressAndValues line 0 = .ok (none, none, [], 0) := by
  unfold getAddressAndValues
  rw [findFrom_none line 40 0 h]
  rfl

theorem gav_no_close (line : List Nat) (h : 41 ∉ line) :
    (∃ e, getAddressAndValues line 0 = .error e) ∨ ∃ a, getAddressAndValues line 0 = .ok (none, a, [], 0) := by
  unfold getAddressAndValues
  cases hf : findFrom line 40 0 with
  | none => right; exact ⟨none, rfl⟩
  | some ae =>
    by_cases hae : ae > 0
    · left
      simp only [hae, if_true]
      obtain ⟨e, he⟩ := valuesLoop_no_close line h (line.length + 1) ae [] 0
      rw [he]
      exact ⟨e, rfl⟩
    · right
      simp only [hae, if_false]
      exact ⟨none, rfl⟩

theorem lineNoItems_of_gav (line : List Nat)
    (h : (∃ e, getAddressAndValues line 0 = .error e) ∨ ∃ a, getAddressAndValues line 0 = .ok (none, a, [], 0)) :
    LineNoItems line := by
  unfold LineNoItems lineLoop
  rcases h with ⟨e, he⟩ | ⟨a, ha⟩
  · left; rw [he]; exact ⟨e, rfl⟩
  · right; rw [ha]; exact ⟨_, rfl⟩

theorem splitLinesGo_mem : ∀ (s cur : List Nat) (pc : Bool), ∀ line ∈ splitLinesGo s cur pc, ∀ c ∈ line,
    c ∈ cur ∨ c ∈ s := by
  intro s
  induction s with
  | nil =>
    intro cur pc line hl c hc
    unfold splitLinesGo at hl
    split at hl
    · cases hl
    · simp only [List.mem_singleton] at hl
      subst hl
      left; exact List.mem_reverse.1 hc
  | cons c0 cs ih =>
    intro cur pc line hl c hc
    unfold splitLinesGo at hl
    split at hl
    · rcases ih cur false line hl c hc with h | h
      · left; exact h
      · right; exact List.mem_cons_of_mem _ h
    · split at hl
      · rcases List.mem_cons.1 hl with rfl | hl
        · left; exact List.mem_reverse.1 hc
        · rcases ih [] true line hl c hc with h | h
          · cases h
          · right; exact List.mem_cons_of_mem _ h
      · split at hl
        · rcases List.mem_cons.1 hl with rfl | hl
          · left; exact List.mem_reverse.1 hc
          · rcases ih [] false line hl c hc with h | h
            · cases h
            · right; exact List.mem_cons_of_mem _ h
        · rcases ih (c0 :: cur) false line hl c hc with h | h
          · rcases List.mem_cons.1 h with rfl | h
            · right; exact List.mem_cons_self
            · left; exact h
          · right; exact List.mem_cons_of_mem _ h

theorem splitLines_mem (s line : List Nat) (hl : line ∈ splitLines s) (c : Nat) (hc : c ∈ line) : c ∈ s := by
  rcases splitLinesGo_mem s [] false line hl c hc with h | h
  · cases h
  · exact h

def blockStep (acc : Except PyExc (List DataSet × Nat)) (line : List Nat) : Except PyExc (List DataSet × Nat) :=
  match acc with
  | .error e => .error e
  | .ok (items, iters) =>
    match lineLoop line (line.length + 1) 0 [] 0 with
    | .error e => .error e
    | .ok (its, n) => .ok (items ++ its, iters + n)

theorem parseDataBlock_eq (data : List Nat) :
    parseDataBlock data =
      ((splitLines data).filter (fun l => !(strip l).isEmpty)).foldl blockStep (.ok ([], 0)) := rfl

theorem foldl_noItems : ∀ (lines : List (List Nat)), (∀ l ∈ lines, LineNoItems l) →
    ∀ acc : Except PyExc (List DataSet × Nat), ((∃ e, acc = .error e) ∨ ∃ n, acc = .ok ([], n)) →
    (∃ e, lines.foldl blockStep acc = .error e) ∨ ∃ n, lines.foldl blockStep acc = .ok ([], n) := by
  intro lines
  induction lines with
  | nil => intro _ acc h; exact h
  | cons l ls ih =>
    intro hl acc h
    rw [List.foldl_cons]
    refine ih (fun x hx => hl x (List.mem_cons_of_mem _ hx)) _ ?_
    rcases h with ⟨e, rfl⟩ | ⟨n, rfl⟩
    · left; exact ⟨e, rfl⟩
    · rcases hl l List.mem_cons_self with ⟨e, he⟩ | ⟨m, hm⟩
      · left; exact ⟨e, by simp only [blockStep, he]⟩
      · right; exact ⟨n + m, by simp only [blockStep, hm, List.append_nil]⟩

theorem p1_reject (p : List Nat) (h : p1Safe p = true) : ∃ e, decodeContent p = .error e := by
  unfold decodeContent
  split
  · exact ⟨_, rfl⟩
  unfold decodeParsedContent parseContent
  by_cases ha : isAscii p = true
  · have hlines : ∀ l ∈ (splitLines p).filter (fun l => !(strip l).isEmpty), LineNoItems l := by
      intro l hl
      have hl' := (List.mem_filter.1 hl).1
      unfold p1Safe at h
      simp only [Bool.or_eq_true, Bool.not_eq_true', List.any_eq_true, decide_eq_true_eq] at h
      rcases h with (⟨b, hb, hb128⟩ | h40) | h41
      · exfalso
        unfold isAscii at ha
        rw [List.all_eq_true] at ha
        have := ha b hb
        simp only [decide_eq_true_eq] at this
        omega
      · refine lineNoItems_of_gav l (Or.inr ⟨none, gav_no_open l ?_⟩)
        intro hm
        have := splitLines_mem p l hl' 40 hm
        rw [List.contains_eq_mem] at h40
        simp only [decide_eq_false_iff_not] at h40
        exact h40 this
      · refine lineNoItems_of_gav l (gav_no_close l ?_)
        intro hm
        have := splitLines_mem p l hl' 41 hm
        rw [List.contains_eq_mem] at h41
        simp only [decide_eq_false_iff_not] at h41
        exact h41 this
    simp only [ha, Bool.not_true, Bool.false_eq_true, if_false]
    rw [parseDataBlock_eq]
    rcases foldl_noItems _ hlines (.ok ([], 0)) (Or.inr ⟨0, rfl⟩) with ⟨e, he⟩ | ⟨n, hn⟩
    · rw [he]; exact ⟨e, rfl⟩
    · rw [hn]; exact ⟨_, rfl⟩
  · simp only [ha, Bool.not_false, if_true]
    exact ⟨_, rfl⟩

/-- **the guard of `decode_p1_readout_content`**: an octet below 0x20 other than CR and LF, anywhere in
    the payload, and the P1 decoder raises - whatever the parser would have made of the text -/
theorem p1_reject_control (p : List Nat) (h : ∃ c ∈ p, c < 32 ∧ c ≠ 13 ∧ c ≠ 10) :
    ∃ e, decodeContent p = .error e :=
  ⟨_, P1ParseRT.decodeContent_control p h⟩

/-- a payload that starts with the array tag (1) or the structure tag (2) -/
theorem p1_reject_tag (t : Nat) (rest : List Nat) (ht : t = 1 ∨ t = 2) :
    ∃ e, decodeContent (t :: rest) = .error e :=
  p1_reject_control _ ⟨t, List.mem_cons_self, by omega, by omega, by omega⟩

end P1

/-! ### the first octet of a notification body -/

theorem encAidonBody_head (es : List AidonElem) : ∃ rest, encAidonBody es = 1 :: rest := ⟨_, rfl⟩
theorem encKaifaValues_head (vs : List KVal) : ∃ rest, encKaifaValues vs = 2 :: rest := ⟨_, rfl⟩
theorem encKaifaObis_head (es : List (List Nat × KVal)) : ∃ rest, encKaifaObis es = 2 :: rest := ⟨_, rfl⟩
theorem encKamList_head (l : KamList) : ∃ rest, encKamList l = 2 :: rest := ⟨_, KamstrupRT.encKamList_eq l⟩

/-- whatever Aidon_notification_body accepts starts with the array tag -/
theorem aidon_body_dict_head (p : List Nat) (d : Dict) (h : Aidon.decodeBody p = .dict d) :
    ∃ rest, p = 1 :: rest := by
  rcases p with _ | ⟨t, r⟩
  · exact nomatch h
  · by_cases ht : t = 1
    · exact ⟨r, by rw [ht]⟩
    · have hb : Aidon.notificationBody (t :: r) = .soft := by
        simp [Aidon.notificationBody, constByte, u8, Res.bind, ht]
      unfold Aidon.decodeBody at h
      rw [hb] at h
      exact nomatch h

/-! ### the body decoders that come before a meter's own one -/

/-- Aidon_notification_body rejects every body that starts with the structure tag (Kaifa, Kamstrup) -/
theorem aidon_body_rej_structure (rest : List Nat) : Rej (Aidon.decodeBody (2 :: rest)) := by
  have hb : Aidon.notificationBody (2 :: rest) = .soft := by
    simp [Aidon.notificationBody, constByte, u8, Res.bind]
  unfold Aidon.decodeBody
  rw [hb]
  exact rej_construct

theorem normValues_two (a b : FieldVal) : Kaifa.normValues none [a, b] = .error .indexError := by
  have hn : (kaifaFieldLists.find? (fun l => l.length == 2)).getD [] = [] := by decide
  have hl : [a, b].length = 2 := rfl
  unfold Kaifa.normValues
  simp only [hl, hn]
  rfl

/-- the Kaifa positional grammar on a Kamstrup list whose version string is followed by null-data
    padding: the padding is one more field, then the OBIS octet string with an octet ≥ 0x80 fails -/
theorem kaifa_valueBody_kam_pad (n : Nat) (hn : 2 ≤ n) (ver : List Nat) (k : Nat) (o tail : List Nat)
    (hver : printable ver) (ho : o.length = 6) (hb : ∃ b ∈ o, 128 ≤ b) :
    Kaifa.valueBody ([2, n] ++ ([10, ver.length] ++ ver ++ (List.replicate (k + 1) 0 ++ ([9, 6] ++ o ++ tail)))) = .soft ∨
    ∃ r, Kaifa.valueBody ([2, n] ++ ([10, ver.length] ++ ver ++ (List.replicate (k + 1) 0 ++ ([9, 6] ++ o ++ tail)))) =
      .ok (.values [.str ver, .null]) r := by
  obtain ⟨m, rfl⟩ : ∃ m, n = m + 2 := ⟨n - 2, by omega⟩
  have hX : KamstrupRT.NoNull ([9, 6] ++ o ++ tail) := by
    intro b t h
    simp only [List.cons_append, List.nil_append, List.cons.injEq] at h
    omega
  have hnull : field (List.replicate (k + 1) 0 ++ ([9, 6] ++ o ++ tail)) = .ok .null ([9, 6] ++ o ++ tail) := by
    have := KamstrupRT.nullData_replicate k _ hX
    have hf : field (0 :: (List.replicate k 0 ++ ([9, 6] ++ o ++ tail))) =
        .ok .null (nullData (List.replicate k 0 ++ ([9, 6] ++ o ++ tail))) := by
      simp only [field, u8, Res.bind, tNull_eq, if_true]
    rw [List.replicate_succ, List.cons_append, hf, this]
  have hf : Kaifa.fields (m + 2) ([10, ver.length] ++ ver ++ (List.replicate (k + 1) 0 ++ ([9, 6] ++ o ++ tail))) =
      (Kaifa.fields m ([9, 6] ++ o ++ tail)).bind fun vs r' => .ok (.str ver :: .null :: vs) r' := by
    rw [Kaifa.fields, field_visible ver _ hver]
    simp only [Res.bind]
    rw [Kaifa.fields, hnull]
    simp only [Res.bind]
    cases Kaifa.fields m ([9, 6] ++ o ++ tail) <;> rfl
  have hv : Kaifa.valueBody ([2, m + 2] ++ ([10, ver.length] ++ ver ++ (List.replicate (k + 1) 0 ++ ([9, 6] ++ o ++ tail)))) =
      (Kaifa.fields (m + 2) ([10, ver.length] ++ ver ++ (List.replicate (k + 1) 0 ++ ([9, 6] ++ o ++ tail)))).bind
        fun vs r => .ok (.values vs) r := by
    simp [Kaifa.valueBody, constByte, u8, Res.bind]
  rw [hv, hf]
  cases m with
  | zero => right; exact ⟨_, rfl⟩
  | succ m' =>
    left
    rw [Kaifa.fields, field_obis_soft o tail ho hb]
    rfl

/-- Kaifa_notification_body rejects a Kamstrup list (length octet ≥ 2, first OBIS code with an octet
    ≥ 0x80), whatever the padding after the version string -/
theorem kaifa_body_rej_kam (l : KamList) (h : l.WF) (hlen : 2 ≤ l.lenOctet)
    (hfirst : ∃ e rest, l.elems = e :: rest ∧ ∃ b ∈ e.obis, 128 ≤ b) : Rej (Kaifa.decodeBody (encKamList l)) := by
  obtain ⟨e, rest, hel, hb⟩ := hfirst
  obtain ⟨_, hver, _, hwf⟩ := h
  have ho : e.obis.length = 6 := (hwf e (by rw [hel]; exact List.mem_cons_self)).1.1
  have hshape : encKamList l = [2, l.lenOctet] ++ ([10, l.version.length] ++ l.version ++
      (List.replicate l.versionPad 0 ++ ([9, 6] ++ e.obis ++
      (encKamVal e.value ++ List.replicate e.pad 0 ++
        rest.flatMap (fun e => encObis e.obis ++ encKamVal e.value ++ List.replicate e.pad 0))))) := by
    simp [encKamList, hel, encObis, List.append_assoc]
  rw [hshape]
  generalize (encKamVal e.value ++ List.replicate e.pad 0 ++
        rest.flatMap (fun e => encObis e.obis ++ encKamVal e.value ++ List.replicate e.pad 0)) = tail
  have h1 : Kaifa.obisBody ([2, l.lenOctet] ++ ([10, l.version.length] ++ l.version ++
      (List.replicate l.versionPad 0 ++ ([9, 6] ++ e.obis ++ tail)))) = .soft := by
    have := kaifa_obisBody_kam l.lenOctet hlen ([l.version.length] ++ l.version ++
      (List.replicate l.versionPad 0 ++ ([9, 6] ++ e.obis ++ tail)))
    simpa only [List.cons_append, List.nil_append, List.append_assoc] using this
  unfold Kaifa.decodeBody Kaifa.notificationBody Kaifa.select
  rw [h1]
  cases hp : l.versionPad with
  | zero =>
    have h2 := kaifa_valueBody_kam l.lenOctet hlen l.version e.obis tail hver ho hb
    simp only [List.replicate_zero, List.nil_append]
    rw [h2]
    exact rej_construct
  | succ k =>
    rcases kaifa_valueBody_kam_pad l.lenOctet hlen l.version k e.obis tail hver ho hb with h2 | ⟨r, h2⟩
    · rw [h2]; exact rej_construct
    · rw [h2]
      simp only [normValues_two]
      exact rej_exc _

/-! ### `noApduStart` from the first element of a genuine list -/

theorem noApduStart_of_ninth (p : List Nat) (x : Nat) (r : List Nat) (h : p.drop 8 = x :: r)
    (h0 : x ≠ 0) (h9 : x ≠ 9) (h12 : x ≠ 12) : noApduStart p = true := by
  unfold noApduStart
  rw [h]
  simp only [h0, h9, h12, if_false]

def aidonObis : AidonElem → List Nat
  | .text o _ => o
  | .clock o _ => o
  | .reg o _ _ _ _ => o

theorem encAidonBody_cons (e : AidonElem) (rest : List AidonElem) :
    ∃ k tail, encAidonBody (e :: rest) = [1, (e :: rest).length, 2, k, 9, 6] ++ aidonObis e ++ tail := by
  cases e with
  | text o s => exact ⟨2, _, by simp [encAidonBody, encAidonElem, encObis, aidonObis, List.append_assoc]; rfl⟩
  | clock o d => exact ⟨2, _, by simp [encAidonBody, encAidonElem, encObis, aidonObis, List.append_assoc]; rfl⟩
  | reg o ty v sc u => exact ⟨3, _, by simp [encAidonBody, encAidonElem, encObis, aidonObis, List.append_assoc]; rfl⟩

/-- Aidon: the ninth octet of a bare body is group C of the first OBIS code -/
theorem aidon_noApduStart (e : AidonElem) (rest : List AidonElem) (a b c d g f : Nat)
    (ho : aidonObis e = [a, b, c, d, g, f]) (h9 : c = 9 → d ≠ 12) (h12 : c = 12 → f = 0 ∨ 13 ≤ f)
    (h0 : c = 0 → (d ≠ 1 ∧ d ≠ 2) ∨ (g ≠ 0 ∧ f ≠ 2 ∧ f ≠ 9)) :
    noApduStart (encAidonBody (e :: rest)) = true := by
  obtain ⟨k, tail, hs⟩ := encAidonBody_cons e rest
  rw [hs, ho]
  unfold noApduStart
  simp only [List.cons_append, List.nil_append, List.drop_succ_cons, List.drop_zero]
  by_cases hc0 : c = 0
  · subst hc0
    simp only [if_true, nullBodyOk]
    rcases h0 rfl with ⟨h1, h2⟩ | ⟨hg, hf2, hf9⟩
    · simp only [h1, h2, if_false]
    · by_cases hd1 : d = 1
      · simp [hd1, hg, hf2]
      · by_cases hd2 : d = 2
        · simp [hd2, hg, hf9]
        · simp only [hd1, hd2, if_false]
  · by_cases hc9 : c = 9
    · subst hc9
      have := h9 rfl
      simp [this]
    · by_cases hc12 : c = 12
      · subst hc12
        rcases h12 rfl with hf | hf
        · simp [badDate, hf]
        · simp [badDate, hf]
      · simp only [hc0, hc9, hc12, if_false]

/-- Kaifa positional list: the ninth octet is the fifth character of the list-version text -/
theorem kaifa_values_noApduStart (s : List Nat) (rest : List KVal) (hs : printable s) (hl : 5 ≤ s.length) :
    noApduStart (encKaifaValues (.text s :: rest)) = true := by
  rcases s with _ | ⟨s0, _ | ⟨s1, _ | ⟨s2, _ | ⟨s3, _ | ⟨s4, s'⟩⟩⟩⟩⟩
  any_goals (simp only [List.length_cons, List.length_nil] at hl; omega)
  have h4 := hs s4 (by simp)
  refine noApduStart_of_ninth _ s4 (s' ++ rest.flatMap encKVal) ?_ (by omega) (by omega) (by omega)
  simp [encKaifaValues, encKVal]

/-- Kaifa OBIS-tagged list: the ninth octet is group E of the first OBIS code -/
theorem kaifa_obis_noApduStart (a b c d g f : Nat) (v : KVal) (rest : List (List Nat × KVal))
    (h12 : g ≠ 12) (h9 : g = 9 → f ≠ 12) (h0 : g = 0 → f ≠ 1 ∧ f ≠ 2) :
    noApduStart (encKaifaObis (([a, b, c, d, g, f], v) :: rest)) = true := by
  unfold noApduStart
  have hd : (encKaifaObis (([a, b, c, d, g, f], v) :: rest)).drop 8 =
      g :: f :: (encKVal v ++ rest.flatMap (fun p => encObis p.1 ++ encKVal p.2)) := by
    simp [encKaifaObis, encObis]
  rw [hd]
  by_cases hg0 : g = 0
  · subst hg0
    obtain ⟨h1, h2⟩ := h0 rfl
    simp only [if_true, nullBodyOk]
    cases v <;> simp [encKVal, h1, h2]
  · by_cases hg9 : g = 9
    · subst hg9
      have := h9 rfl
      simp [this]
    · simp only [hg0, hg9, h12, if_false]

/-- Kamstrup: the ninth octet is the fifth character of the list-version string -/
theorem kamstrup_noApduStart (l : KamList) (hs : printable l.version) (hl : 5 ≤ l.version.length) :
    noApduStart (encKamList l) = true := by
  obtain ⟨n, ver, pad, elems⟩ := l
  simp only at hs hl
  rcases ver with _ | ⟨s0, _ | ⟨s1, _ | ⟨s2, _ | ⟨s3, _ | ⟨s4, s'⟩⟩⟩⟩⟩
  any_goals (simp only [List.length_cons, List.length_nil] at hl; omega)
  have h4 := hs s4 (by simp)
  refine noApduStart_of_ninth _ s4 (s' ++ List.replicate pad 0 ++
    elems.flatMap (fun e => encObis e.obis ++ encKamVal e.value ++ List.replicate e.pad 0)) ?_
    (by omega) (by omega) (by omega)
  simp [encKamList]

/-! ### every well-formed Kaifa positional list has `noApduStart` -/

/-- the test `noApduStart` makes on the ninth octet `b` and what follows -/
def apduAt (b : Nat) (r : List Nat) : Bool :=
  if b = 0 then nullBodyOk r
  else if b = 9 then (match r with | l :: r' => if l = 12 then badDate r' else true | [] => true)
  else if b = 12 then badDate r
  else true

theorem noApduStart_of_drop (p : List Nat) (b : Nat) (r : List Nat) (h : p.drop 8 = b :: r)
    (ha : apduAt b r = true) : noApduStart p = true := by
  unfold noApduStart
  rw [h]
  exact ha

theorem apduAt_printable (c : Nat) (r : List Nat) (h : 32 ≤ c ∧ c ≤ 126) : apduAt c r = true := by
  unfold apduAt
  rw [if_neg (by omega), if_neg (by omega), if_neg (by omega)]

theorem badDate_printable (s r : List Nat) (hs : printable s) (hl : 3 ≤ s.length) : badDate (s ++ r) = true := by
  rcases s with _ | ⟨c0, _ | ⟨c1, _ | ⟨c2, s'⟩⟩⟩
  any_goals (simp only [List.length_cons, List.length_nil] at hl; omega)
  have h2 := hs c2 (by simp)
  have : 13 ≤ c2 := by omega
  simp [badDate, this]

/-- tag 9, then a text with its length octet -/
theorem apduAt_tag_text (s X : List Nat) (hs : printable s) : apduAt 9 (s.length :: (s ++ X)) = true := by
  unfold apduAt
  simp only [if_neg (by omega : ¬ (9 = 0)), if_true]
  by_cases h12 : s.length = 12
  · rw [if_pos h12]
    exact badDate_printable s X hs (by omega)
  · rw [if_neg h12]

/-- the length octet of a text, then the text -/
theorem apduAt_len_text (s X : List Nat) (hs : printable s) (hX : nullBodyOk X = true) :
    apduAt s.length (s ++ X) = true := by
  unfold apduAt
  by_cases h0 : s.length = 0
  · rw [if_pos h0]
    have : s = [] := List.eq_nil_of_length_eq_zero h0
    subst this
    exact hX
  · rw [if_neg h0]
    by_cases h9 : s.length = 9
    · rw [if_pos h9]
      rcases s with _ | ⟨c, s'⟩
      · simp at h9
      · have := hs c (by simp)
        have hc : ¬ c = 12 := by omega
        simp only [List.cons_append, hc, if_false]
    · rw [if_neg h9]
      by_cases h12 : s.length = 12
      · rw [if_pos h12]
        exact badDate_printable s X hs (by omega)
      · rw [if_neg h12]

theorem nullBodyOk_tag9 (l : Nat) (r : List Nat) : nullBodyOk (9 :: l :: r) = true := by
  simp [nullBodyOk]

theorem nullBodyOk_tag6 (r : List Nat) : nullBodyOk (6 :: r) = true := by
  cases r <;> simp [nullBodyOk]

/-- three texts and a register: wherever the ninth octet falls, it is no APDU date-time start -/
theorem text3_noApduStart (n : Nat) (s0 s1 s2 tail : List Nat) (h0 : printable s0) (h1 : printable s1)
    (h2 : printable s2) :
    noApduStart ([2, n, 9, s0.length] ++ s0 ++ ([9, s1.length] ++ s1 ++ ([9, s2.length] ++ s2 ++ 6 :: tail))) = true := by
  have p0 : ∀ c ∈ s0, 32 ≤ c ∧ c ≤ 126 := h0
  have p1 : ∀ c ∈ s1, 32 ≤ c ∧ c ≤ 126 := h1
  have p2 : ∀ c ∈ s2, 32 ≤ c ∧ c ≤ 126 := h2
  rcases s0 with _ | ⟨a0, _ | ⟨a1, _ | ⟨a2, _ | ⟨a3, _ | ⟨a4, s0'⟩⟩⟩⟩⟩
  · -- s0 = [] : the ninth octet is the third octet after "09 L1"
    rcases s1 with _ | ⟨b0, _ | ⟨b1, _ | ⟨b2, s1'⟩⟩⟩
    · rcases s2 with _ | ⟨c0, s2'⟩
      · exact noApduStart_of_drop _ 6 tail rfl rfl
      · exact noApduStart_of_drop _ c0 (s2' ++ 6 :: tail) rfl (apduAt_printable _ _ (p2 c0 (by simp)))
    · exact noApduStart_of_drop _ s2.length (s2 ++ 6 :: tail) rfl (apduAt_len_text s2 _ h2 (nullBodyOk_tag6 tail))
    · exact noApduStart_of_drop _ 9 (s2.length :: (s2 ++ 6 :: tail)) rfl (apduAt_tag_text s2 _ h2)
    · exact noApduStart_of_drop _ b2 (s1' ++ ([9, s2.length] ++ s2 ++ 6 :: tail)) rfl
        (apduAt_printable _ _ (p1 b2 (by simp)))
  · rcases s1 with _ | ⟨b0, _ | ⟨b1, s1'⟩⟩
    · exact noApduStart_of_drop _ s2.length (s2 ++ 6 :: tail) rfl (apduAt_len_text s2 _ h2 (nullBodyOk_tag6 tail))
    · exact noApduStart_of_drop _ 9 (s2.length :: (s2 ++ 6 :: tail)) rfl (apduAt_tag_text s2 _ h2)
    · exact noApduStart_of_drop _ b1 (s1' ++ ([9, s2.length] ++ s2 ++ 6 :: tail)) rfl
        (apduAt_printable _ _ (p1 b1 (by simp)))
  · rcases s1 with _ | ⟨b0, s1'⟩
    · exact noApduStart_of_drop _ 9 (s2.length :: (s2 ++ 6 :: tail)) rfl (apduAt_tag_text s2 _ h2)
    · exact noApduStart_of_drop _ b0 (s1' ++ ([9, s2.length] ++ s2 ++ 6 :: tail)) rfl
        (apduAt_printable _ _ (p1 b0 (by simp)))
  · exact noApduStart_of_drop _ s1.length (s1 ++ ([9, s2.length] ++ s2 ++ 6 :: tail)) rfl
      (apduAt_len_text s1 _ h1 (nullBodyOk_tag9 _ _))
  · exact noApduStart_of_drop _ 9 (s1.length :: (s1 ++ ([9, s2.length] ++ s2 ++ 6 :: tail))) rfl
      (apduAt_tag_text s1 _ h1)
  · exact noApduStart_of_drop _ a4 (s0' ++ ([9, s1.length] ++ s1 ++ ([9, s2.length] ++ s2 ++ 6 :: tail))) rfl
      (apduAt_printable _ _ (p0 a4 (by simp)))

theorem layout_head4 : ∀ n names, kaifaLayout n = some names →
    (n = 1 ∧ names.getD 0 "" = "active_power_import") ∨
    (4 ≤ n ∧ names.getD 0 "" = "list_ver_id" ∧ names.getD 1 "" = "meter_id" ∧ names.getD 2 "" = "meter_type" ∧
      names.getD 3 "" = "active_power_import") := by
  apply KaifaRT.layout_ind
  decide

/-- a well-formed positional list is one register, or starts with three texts and a register -/
theorem values_head4 {vs : List KVal} (h : KaifaValuesWF vs) :
    (∃ v, vs = [.u32 v]) ∨
    ∃ s0 s1 s2 v rest, vs = .text s0 :: .text s1 :: .text s2 :: .u32 v :: rest ∧
      printable s0 ∧ printable s1 ∧ printable s2 := by
  obtain ⟨names, hl, hwf, hp⟩ := h
  rcases layout_head4 _ _ hl with ⟨h1, hn⟩ | ⟨h4, n0, n1, n2, n3⟩
  · left
    match vs, h1, hp with
    | [v0], _, hp =>
      have h0 := hp 0 (by simp)
      simp only [List.getElem_cons_zero, hn] at h0
      cases v0 with
      | u32 v => exact ⟨v, rfl⟩
      | text s => simp [kaifaPosOk] at h0
      | clock d => simp [kaifaPosOk] at h0
  · right
    match vs, h4, hp, hwf with
    | v0 :: v1 :: v2 :: v3 :: rest, _, hp, hwf =>
      have q0 := hp 0 (by simp)
      have q1 := hp 1 (by simp)
      have q2 := hp 2 (by simp)
      have q3 := hp 3 (by simp)
      simp only [List.getElem_cons_zero, List.getElem_cons_succ, n0, n1, n2, n3] at q0 q1 q2 q3
      cases v0 with
      | u32 v => simp [kaifaPosOk] at q0
      | clock d => simp [kaifaPosOk] at q0
      | text s0 =>
        cases v1 with
        | u32 v => simp [kaifaPosOk] at q1
        | clock d => simp [kaifaPosOk] at q1
        | text s1 =>
          cases v2 with
          | u32 v => simp [kaifaPosOk] at q2
          | clock d => simp [kaifaPosOk] at q2
          | text s2 =>
            cases v3 with
            | text s => simp [kaifaPosOk] at q3
            | clock d => simp [kaifaPosOk] at q3
            | u32 v =>
              refine ⟨s0, s1, s2, v, rest, rfl, ?_, ?_, ?_⟩
              · exact (hwf (.text s0) (by simp)).1
              · exact (hwf (.text s1) (by simp)).1
              · exact (hwf (.text s2) (by simp)).1

/-- **no hypothesis on the ninth octet is needed for the documented Kaifa positional lists** -/
theorem kaifa_values_wf_noApduStart (vs : List KVal) (h : KaifaValuesWF vs) :
    noApduStart (encKaifaValues vs) = true := by
  rcases values_head4 h with ⟨v, rfl⟩ | ⟨s0, s1, s2, v, rest, rfl, h0, h1, h2⟩
  · exact noApduStart_short _ (by simp [encKaifaValues, encKVal, be32])
  · have he : encKaifaValues (.text s0 :: .text s1 :: .text s2 :: .u32 v :: rest) =
        [2, (KVal.text s0 :: .text s1 :: .text s2 :: .u32 v :: rest).length, 9, s0.length] ++ s0 ++
          ([9, s1.length] ++ s1 ++ ([9, s2.length] ++ s2 ++ 6 :: (be32 v ++ rest.flatMap encKVal))) := by
      simp [encKaifaValues, encKVal]
    rw [he]
    exact text3_noApduStart _ s0 s1 s2 _ h0 h1 h2

end Amshan.DecOwnBody
