import Amshan.Model.P1Parse
import Amshan.Spec.P1Block
import Amshan.Lemmas.P1ParseRTBase
import Amshan.Lemmas.P1ParseRTTerm
import Amshan.Lemmas.P1ParseRTValue
import Amshan.Lemmas.P1ParseRTLine
import Amshan.Lemmas.P1ParseRTBlock
import Amshan.Lemmas.P1ParseRTDecode
/-
  Lemmas for C11 (P1 data block parsing and decoding):
  * P1ParseRTBase   — `find`/`findFrom`, `valuesLoop` never exhausts its fuel, what a successful run tells
  * P1ParseRTTerm   — `getAddressAndValues`, `lineLoop`, `parseContent`: no fuel exhaustion, iteration count
  * P1ParseRTValue  — one rendered value `(value*unit)` is parsed back
  * P1ParseRTLine   — the values of a data set, a data set, the data sets of a line
  * P1ParseRTBlock  — `splitLines (render b)`, blank lines, the fold over the lines
  * P1ParseRTDecode — `decodeItem`, clock text, `decodeReadout`
-/
open Amshan Amshan.Gen Amshan.Cosem Amshan.P1Parse Amshan.P1BlockSpec Amshan.Py
namespace Amshan.P1ParseRT

/-- a rendered well-formed block consists of printable characters, CR and LF -/
theorem render_no_control (b : List LineDesc) (h : ∀ l ∈ b, l.WF) :
    ∀ c ∈ render b, 32 ≤ c ∨ c = 13 ∨ c = 10 := by
  intro x hx
  unfold render at hx
  rw [List.mem_flatMap] at hx
  obtain ⟨l, hl, hx⟩ := hx
  unfold renderLine at hx
  rw [List.mem_append] at hx
  rcases hx with hx | hx
  · have := lineContent_printable (h l hl) x hx
    unfold printable at this
    omega
  · cases hcr : l.crlf <;> rw [hcr] at hx <;> simp at hx <;> omega

/-- `decode_p1_readout_content` on a rendered well-formed block: its guard passes, the parser returns
    the transmitted data sets, and these are decoded (or refused when there are none) -/
theorem decodeContent_render (b : List LineDesc) (h : ∀ l ∈ b, l.WF) :
    decodeContent (render b) =
      if ((b.flatMap (·.sets)).map convSet).isEmpty then .error .valueError
      else decodeParsed ((b.flatMap (·.sets)).map convSet) := by
  rw [decodeContent_of_no_control _ (render_no_control b h)]
  obtain ⟨n, hn⟩ := parseContent_render b h
  unfold decodeParsedContent
  rw [hn]

end Amshan.P1ParseRT
