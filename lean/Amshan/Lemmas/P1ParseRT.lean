import Amshan.Model.P1Parse
import Amshan.Spec.P1Block
import Amshan.Lemmas.P1ParseRTBase
import Amshan.Lemmas.P1ParseRTTerm
import Amshan.Lemmas.P1ParseRTValue
import Amshan.Lemmas.P1ParseRTLine
import Amshan.Lemmas.P1ParseRTBlock
import Amshan.Lemmas.P1ParseRTDecode
/-
  Lemmas for C11 (P1 data block parsing and decoding):
  * P1ParseRTBase   — `find`/`findFrom`, `valuesLoop` never exhausts its fuel, what a successful run tells
  * P1ParseRTTerm   — `getAddressAndValues`, `lineLoop`, `parseContent`: no fuel exhaustion, iteration count
  * P1ParseRTValue  — one rendered value `(value*unit)` is parsed back
  * P1ParseRTLine   — the values of a data set, a data set, the data sets of a line
  * P1ParseRTBlock  — `splitLines (render b)`, blank lines, the fold over the lines
  * P1ParseRTDecode — `decodeItem`, clock text, `decodeReadout`
-/
