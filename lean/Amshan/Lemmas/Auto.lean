import Amshan.Model.AutoDecoder
/-
  Lemmas about the AutoDecoder loop model (used by Props/C12).
-/
namespace Amshan.Auto

variable {α β : Type}

/-- decoder `d` accepts payload `p` -/
def acc (d : Decoder α β) (p : α) : Bool :=
  match d p with
  | .ok _ => true
  | .error _ => false

theorem acc_of_ok {d : Decoder α β} {p : α} {v : β} (h : d p = .ok v) : acc d p = true := by
  simp [acc, h]

theorem acc_of_error {d : Decoder α β} {p : α} {e : PyExc} (h : d p = .error e) : acc d p = false := by
  simp [acc, h]

theorem acc_false_iff {d : Decoder α β} {p : α} : acc d p = false ↔ ∃ e, d p = .error e := by
  unfold acc
  cases d p <;> simp

theorem tryLoop_zero (decs : List (Decoder α β)) (caught : PyExc → Bool) (start : Nat) (p : α)
    (i : Nat) : tryLoop decs caught start p 0 i = .ok none := rfl

theorem tryLoop_succ (decs : List (Decoder α β)) (caught : PyExc → Bool) (start : Nat) (p : α)
    (k i : Nat) : tryLoop decs caught start p (k + 1) i =
      match decs[(i + start) % decs.length]? with
      | none => .error .indexError
      | some dec =>
        match dec p with
        | .ok v => .ok (some ((i + start) % decs.length, v))
        | .error e => if caught e then tryLoop decs caught start p k (i + 1) else .error e := rfl

/-- a successful loop result comes from the first accepting decoder in cyclic order -/
theorem tryLoop_some (decs : List (Decoder α β)) (caught : PyExc → Bool) (start : Nat) (p : α)
    (k i idx : Nat) (v : β) (h : tryLoop decs caught start p k i = .ok (some (idx, v))) :
    ∃ j, i ≤ j ∧ j < i + k ∧ idx = (j + start) % decs.length ∧
      (∃ d, decs[idx]? = some d ∧ d p = .ok v) ∧
      ∀ j', i ≤ j' → j' < j → ∀ d, decs[(j' + start) % decs.length]? = some d → acc d p = false := by
  induction k generalizing i with
  | zero => simp [tryLoop_zero] at h
  | succ k ih =>
    rw [tryLoop_succ] at h
    split at h
    · simp at h
    · rename_i dec hdec
      split at h
      · rename_i w hw
        simp only [Except.ok.injEq, Option.some.injEq, Prod.mk.injEq] at h
        obtain ⟨h1, h2⟩ := h
        subst h1 h2
        exact ⟨i, Nat.le_refl _, by omega, rfl, ⟨dec, hdec, hw⟩, fun j' h1 h2 => by omega⟩
      · rename_i e he
        split at h
        · obtain ⟨j, hj1, hj2, hj3, hj4, hj5⟩ := ih (i + 1) h
          refine ⟨j, by omega, by omega, hj3, hj4, ?_⟩
          intro j' h1 h2 d hd
          by_cases hij : j' = i
          · subst hij
            rw [hdec] at hd
            cases hd
            exact acc_of_error he
          · exact hj5 j' (by omega) h2 d hd
        · simp at h

/-- a `None` loop result means every decoder visited rejected -/
theorem tryLoop_none (decs : List (Decoder α β)) (caught : PyExc → Bool) (start : Nat) (p : α)
    (k i : Nat) (h : tryLoop decs caught start p k i = .ok none) :
    ∀ j, i ≤ j → j < i + k → ∀ d, decs[(j + start) % decs.length]? = some d → acc d p = false := by
  induction k generalizing i with
  | zero => intro j h1 h2; omega
  | succ k ih =>
    rw [tryLoop_succ] at h
    split at h
    · simp at h
    · rename_i dec hdec
      split at h
      · simp at h
      · rename_i e he
        split at h
        · intro j h1 h2 d hd
          by_cases hij : j = i
          · subst hij
            rw [hdec] at hd
            cases hd
            exact acc_of_error he
          · exact ih (i + 1) h j (by omega) (by omega) d hd
        · simp at h

/-- with a catch-all `except`, the loop never raises (the index is always in range) -/
theorem tryLoop_total (decs : List (Decoder α β)) (caught : PyExc → Bool)
    (hc : ∀ e, caught e = true) (start : Nat) (p : α) (k i : Nat) (hk : k ≤ decs.length) :
    ∃ r, tryLoop decs caught start p k i = .ok r := by
  induction k generalizing i with
  | zero => exact ⟨none, rfl⟩
  | succ k ih =>
    rw [tryLoop_succ]
    have hlt : (i + start) % decs.length < decs.length := Nat.mod_lt _ (by omega)
    rw [List.getElem?_eq_getElem hlt]
    simp only
    split
    · exact ⟨_, rfl⟩
    · rename_i e he
      rw [hc e]
      simp only [if_true]
      exact ih (i + 1) (by omega)

/-- with a catch-all `except`, the loop returns `None` when every decoder visited rejects -/
theorem tryLoop_none_of_reject (decs : List (Decoder α β)) (caught : PyExc → Bool)
    (hc : ∀ e, caught e = true) (start : Nat) (p : α) (k i : Nat) (hk : k ≤ decs.length)
    (hr : ∀ j, i ≤ j → j < i + k → ∀ d, decs[(j + start) % decs.length]? = some d → acc d p = false) :
    tryLoop decs caught start p k i = .ok none := by
  obtain ⟨r, hr'⟩ := tryLoop_total decs caught hc start p k i hk
  cases r with
  | none => exact hr'
  | some iv =>
    obtain ⟨idx, v⟩ := iv
    obtain ⟨j, h1, h2, h3, ⟨d, hd, hv⟩, _⟩ := tryLoop_some decs caught start p k i idx v hr'
    have := hr j h1 h2 d (h3 ▸ hd)
    rw [acc_of_ok hv] at this
    cases this

/-- the cyclic walk `j ↦ (j + start) % n`, `j < n`, reaches every index below `n` -/
theorem cyclic_surj (n start t : Nat) (ht : t < n) : ∃ j, j < n ∧ (j + start) % n = t := by
  have hs : start % n < n := Nat.mod_lt _ (by omega)
  by_cases h : start % n ≤ t
  · refine ⟨t - start % n, by omega, ?_⟩
    rw [← Nat.add_mod_mod, Nat.sub_add_cancel h, Nat.mod_eq_of_lt ht]
  · refine ⟨t + n - start % n, by omega, ?_⟩
    rw [← Nat.add_mod_mod, Nat.sub_add_cancel (by omega), Nat.add_mod_right, Nat.mod_eq_of_lt ht]

/-- the start index used by `step` -/
def startOf (prev : Option Nat) : Nat := match prev with | some p => p | none => 0

theorem startOf_eq_getD (prev : Option Nat) : startOf prev = prev.getD 0 := by
  cases prev <;> rfl

theorem step_eq (decs : List (Decoder α β)) (caught : PyExc → Bool) (prev : Option Nat) (p : α) :
    step decs caught prev p =
      match tryLoop decs caught (startOf prev) p decs.length 0 with
      | .ok (some (idx, v)) => .ok (some idx, some v)
      | .ok none => .ok (prev, none)
      | .error e => .error e := rfl

theorem step_none_iff (decs : List (Decoder α β)) (caught : PyExc → Bool) (prev prev' : Option Nat)
    (p : α) : step decs caught prev p = .ok (prev', none) ↔
      (tryLoop decs caught (startOf prev) p decs.length 0 = .ok none ∧ prev' = prev) := by
  rw [step_eq]
  split
  · rename_i h; simp [h]
  · rename_i h; simp [h, eq_comm]
  · simp [*]

theorem step_some_iff (decs : List (Decoder α β)) (caught : PyExc → Bool) (prev prev' : Option Nat)
    (p : α) (v : β) : step decs caught prev p = .ok (prev', some v) ↔
      ∃ idx, tryLoop decs caught (startOf prev) p decs.length 0 = .ok (some (idx, v)) ∧
        prev' = some idx := by
  rw [step_eq]
  split
  · rename_i idx w h
    simp only [h, Except.ok.injEq, Prod.mk.injEq, Option.some.injEq]
    constructor
    · rintro ⟨h1, h2⟩; exact ⟨idx, ⟨⟨rfl, h2⟩, h1.symm⟩⟩
    · rintro ⟨idx', ⟨h1, h2⟩, h3⟩; subst h1; exact ⟨h3.symm, h2⟩
  · simp [*]
  · simp [*]

theorem runHistory_snoc (decs : List (Decoder α β)) (caught : PyExc → Bool) (prev : Option Nat)
    (ps : List α) (p : α) :
    runHistory decs caught prev (ps ++ [p]) =
      match runHistory decs caught prev ps with
      | .error e => .error e
      | .ok (prevMid, rs) =>
        match step decs caught prevMid p with
        | .error e => .error e
        | .ok (prev', r) => .ok (prev', rs ++ [r]) := by
  induction ps generalizing prev with
  | nil =>
    simp only [List.nil_append, runHistory]
    cases step decs caught prev p with
    | error e => rfl
    | ok r => rfl
  | cons q ps ih =>
    simp only [List.cons_append, runHistory]
    cases hq : step decs caught prev q with
    | error e => rfl
    | ok r =>
      obtain ⟨prev1, r1⟩ := r
      simp only
      rw [ih]
      cases runHistory decs caught prev1 ps with
      | error e => rfl
      | ok x =>
        obtain ⟨pm, rs⟩ := x
        simp only
        cases step decs caught pm p with
        | error e => rfl
        | ok y => rfl

end Amshan.Auto
