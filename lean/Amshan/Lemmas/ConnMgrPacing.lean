import Amshan.Lemmas.ConnMgr
import Amshan.Lemmas.BackOff
/-
  Lemmas for the trace-level pacing theorems of C18 (Props/C18Trace.lean): observers of the event log
  (`failStreak`, the monitor `Mon`), pure list facts about them.  The state invariants that tie the
  monitor to the manager's state are in Lemmas/ConnMgrPacingInv.lean.
-/
namespace Amshan.ConnMgr
open Amshan.BackOff

/-! ### consecutive failures in the log -/

/-- effect of one event on the count of consecutive failed attempts: a failure adds one, an obtained
    connection restarts the count, every other event leaves it alone -/
def streakStep (n : Nat) : Ev → Nat
  | .failed => n + 1
  | .obtained _ => 0
  | _ => n

/-- the count of consecutive failures after the log `l`, starting from `n` -/
def failStreakFrom (n : Nat) : List (Nat × Ev) → Nat
  | [] => n
  | (_, e) :: l => failStreakFrom (streakStep n e) l

/-- number of `failed` events since the last `obtained` event (or since the start) -/
def failStreak (l : List (Nat × Ev)) : Nat := failStreakFrom 0 l

theorem failStreakFrom_append (n : Nat) (a b : List (Nat × Ev)) :
    failStreakFrom n (a ++ b) = failStreakFrom (failStreakFrom n a) b := by
  induction a generalizing n with
  | nil => rfl
  | cons x a ih => obtain ⟨t, e⟩ := x; simp [failStreakFrom, ih]

theorem failStreak_snoc (l : List (Nat × Ev)) (t : Nat) (e : Ev) :
    failStreak (l ++ [(t, e)]) = streakStep (failStreak l) e := by
  simp [failStreak, failStreakFrom_append, failStreakFrom]

/-- number of `failed` events of a log -/
def countFailed : List (Nat × Ev) → Nat
  | [] => 0
  | (_, .failed) :: l => countFailed l + 1
  | _ :: l => countFailed l

/-- on a stretch of the log without an `obtained` event the streak grows by the failures in it -/
theorem failStreakFrom_no_obtained (n : Nat) (l : List (Nat × Ev)) (h : ∀ x ∈ l, ∀ i, x.2 ≠ Ev.obtained i) :
    failStreakFrom n l = n + countFailed l := by
  induction l generalizing n with
  | nil => rfl
  | cons x l ih =>
    obtain ⟨t, e⟩ := x
    have ih' := fun n => ih n (fun x hx => h x (List.mem_cons_of_mem _ hx))
    cases e <;> simp [failStreakFrom, streakStep, countFailed, ih'] at h ⊢
    omega

/-- run a list of labels -/
def runLabels (s : S) : List Label → Option S
  | [] => some s
  | l :: ls => (next s l).bind (fun s' => runLabels s' ls)

theorem runLabels_append (s : S) (a b : List Label) :
    runLabels s (a ++ b) = (runLabels s a).bind (fun s' => runLabels s' b) := by
  induction a generalizing s with
  | nil => rfl
  | cons l a ih =>
    simp only [List.cons_append, runLabels]
    cases next s l with
    | none => rfl
    | some s1 => simpa using ih s1

theorem reach_runLabels {md th sl : Nat} (s s' : S) (ls : List Label) (h : Reach md th sl s)
    (hr : runLabels s ls = some s') : Reach md th sl s' := by
  induction ls generalizing s with
  | nil => simp [runLabels] at hr; subst hr; exact h
  | cons l ls ih =>
    simp only [runLabels] at hr
    cases hn : next s l with
    | none => simp [hn] at hr
    | some s1 =>
      rw [hn] at hr
      exact ih s1 (Reach.step s s1 l h hn) hr

/-- `2^(n-1)` for `n ≥ 1`, and 0 for `n = 0`: the value of `_delay` after `n` failures -/
def pow2pred (n : Nat) : Nat := if n = 0 then 0 else 2 ^ (n - 1)

theorem pow2pred_succ (n : Nat) : pow2pred (n + 1) = 2 ^ n := by simp [pow2pred]

theorem failure_delay (b : Strategy) (n : Nat) (h : b.delay = pow2pred n) :
    b.failure.delay = 2 ^ n := by
  unfold Strategy.failure
  simp only [h, pow2pred]
  by_cases h0 : n = 0
  · simp [h0]
  · have hp : 0 < 2 ^ (n - 1) := Nat.two_pow_pos _
    have := two_pow_pred_mul_two n h0
    simp only [h0, if_false, this]
    have : 2 ^ n ≠ 0 := by have := Nat.two_pow_pos n; omega
    simp

theorem getBackOffTime_eq (s : Strategy) (b : Breaker) :
    getBackOffTime s b = max s.current (if b.sleepFlag then b.sleepSec else 0) := by
  unfold getBackOffTime
  cases hf : b.sleepFlag <;> simp
  omega

theorem current_le_getBackOffTime (s : Strategy) (b : Breaker) : s.current ≤ getBackOffTime s b := by
  rw [getBackOffTime_eq]; exact Nat.le_max_left _ _

theorem sleepSec_le_getBackOffTime (s : Strategy) (b : Breaker) (h : b.sleepFlag = true) :
    b.sleepSec ≤ getBackOffTime s b := by
  rw [getBackOffTime_eq, h]; exact Nat.le_max_right _ _

/-! ### the monitor -/

/-- what the pacing theorems need to remember of a log prefix -/
structure Mon where
  /-- consecutive failures (`failStreak`) -/
  n : Nat
  /-- the next attempt must not be earlier than this (0 = no obligation) -/
  nb : Nat
  /-- time of the last-but-one `lost` event -/
  l1 : Option Nat
  /-- time of the last `lost` event -/
  l2 : Option Nat

def Mon.zero : Mon := { n := 0, nb := 0, l1 := none, l2 := none }

def Mon.step (md : Nat) (m : Mon) : Nat × Ev → Mon
  | (t, .failed) => { m with n := m.n + 1, nb := max m.nb (t + min (2 ^ m.n) md) }
  | (_, .obtained _) => { m with n := 0 }
  | (_, .attempt) => { m with nb := 0 }
  | (t, .lost _) => { m with l1 := m.l2, l2 := some t }
  | (_, .closed _) => m
  | (_, .closeCalled) => m
  | (_, .loopDone) => m

def Mon.run (md : Nat) (m : Mon) (l : List (Nat × Ev)) : Mon := l.foldl (Mon.step md) m

@[simp] theorem Mon.run_nil (md : Nat) (m : Mon) : Mon.run md m [] = m := rfl
@[simp] theorem Mon.run_cons (md : Nat) (m : Mon) (x : Nat × Ev) (l : List (Nat × Ev)) :
    Mon.run md m (x :: l) = Mon.run md (m.step md x) l := rfl
theorem Mon.run_append (md : Nat) (m : Mon) (a b : List (Nat × Ev)) :
    Mon.run md m (a ++ b) = Mon.run md (Mon.run md m a) b := by
  simp [Mon.run, List.foldl_append]
theorem Mon.run_snoc (md : Nat) (m : Mon) (a : List (Nat × Ev)) (x : Nat × Ev) :
    Mon.run md m (a ++ [x]) = (Mon.run md m a).step md x := by
  simp [Mon.run, List.foldl_append]

theorem Mon.step_n (md : Nat) (m : Mon) (t : Nat) (e : Ev) : (m.step md (t, e)).n = streakStep m.n e := by
  cases e <;> rfl

theorem Mon.run_n (md : Nat) (m : Mon) (l : List (Nat × Ev)) : (Mon.run md m l).n = failStreakFrom m.n l := by
  induction l generalizing m with
  | nil => rfl
  | cons x l ih => obtain ⟨t, e⟩ := x; simp [ih, failStreakFrom, Mon.step_n]

theorem Mon.run_zero_n (md : Nat) (l : List (Nat × Ev)) : (Mon.run md Mon.zero l).n = failStreak l :=
  Mon.run_n md Mon.zero l

/-- without an `attempt` event the not-before time only grows -/
theorem Mon.run_nb_mono (md : Nat) (m : Mon) (l : List (Nat × Ev)) (h : ∀ x ∈ l, x.2 ≠ Ev.attempt) :
    m.nb ≤ (Mon.run md m l).nb := by
  induction l generalizing m with
  | nil => exact Nat.le_refl _
  | cons x l ih =>
    obtain ⟨t, e⟩ := x
    have h1 : m.nb ≤ (m.step md (t, e)).nb := by
      cases e <;> simp [Mon.step] at h ⊢
      exact Nat.le_max_left _ _
    exact Nat.le_trans h1 (ih _ (fun x hx => h x (List.mem_cons_of_mem _ hx)))

/-- without a `lost` event the two remembered loss times stay -/
theorem Mon.run_lost_free (md : Nat) (m : Mon) (l : List (Nat × Ev)) (h : ∀ x ∈ l, ∀ c, x.2 ≠ Ev.lost c) :
    (Mon.run md m l).l1 = m.l1 ∧ (Mon.run md m l).l2 = m.l2 := by
  induction l generalizing m with
  | nil => exact ⟨rfl, rfl⟩
  | cons x l ih =>
    obtain ⟨t, e⟩ := x
    have h1 : (m.step md (t, e)).l1 = m.l1 ∧ (m.step md (t, e)).l2 = m.l2 := by
      cases e <;> simp [Mon.step] at h ⊢
    have := ih (m.step md (t, e)) (fun x hx => h x (List.mem_cons_of_mem _ hx))
    simp only [Mon.run_cons]
    rw [this.1, this.2]; exact h1

/-- every `attempt` event of the log satisfies `good` of the monitor state before it -/
def Checked (md : Nat) (good : Mon → Nat → Prop) : Mon → List (Nat × Ev) → Prop
  | _, [] => True
  | m, (t, e) :: l => (e = Ev.attempt → good m t) ∧ Checked md good (m.step md (t, e)) l

theorem Checked_append (md : Nat) (good : Mon → Nat → Prop) (m : Mon) (a b : List (Nat × Ev)) :
    Checked md good m (a ++ b) ↔ Checked md good m a ∧ Checked md good (Mon.run md m a) b := by
  induction a generalizing m with
  | nil => simp [Checked]
  | cons x a ih => obtain ⟨t, e⟩ := x; simp [Checked, ih, and_assoc]

theorem Checked_snoc (md : Nat) (good : Mon → Nat → Prop) (m : Mon) (a : List (Nat × Ev)) (t : Nat) (e : Ev) :
    Checked md good m (a ++ [(t, e)]) ↔
      Checked md good m a ∧ (e = Ev.attempt → good (Mon.run md m a) t) := by
  simp [Checked_append, Checked]

/-- the failure clause read off a checked log -/
theorem Checked_failure_bound (md : Nat) (good : Mon → Nat → Prop) (hg : ∀ m t, good m t → m.nb ≤ t)
    (pre mid post : List (Nat × Ev)) (tf ta : Nat)
    (hc : Checked md good Mon.zero (pre ++ (tf, Ev.failed) :: mid ++ (ta, Ev.attempt) :: post))
    (hmid : ∀ x ∈ mid, x.2 ≠ Ev.attempt) :
    tf + min (2 ^ failStreak pre) md ≤ ta := by
  rw [List.append_assoc, Checked_append] at hc
  have hc := hc.2
  rw [List.cons_append] at hc
  simp only [Checked] at hc
  have hc := hc.2
  rw [Checked_append] at hc
  have hc := hg _ _ (hc.2.1 rfl)
  have h1 := Mon.run_nb_mono md ((Mon.run md Mon.zero pre).step md (tf, Ev.failed)) mid hmid
  have h2 : tf + min (2 ^ failStreak pre) md ≤ ((Mon.run md Mon.zero pre).step md (tf, Ev.failed)).nb := by
    simp only [Mon.step, Mon.run_zero_n]
    exact Nat.le_max_right _ _
  omega

/-- the loss clause read off a checked log -/
theorem Checked_loss_bound (md : Nat) (good : Mon → Nat → Prop) (P : Nat → Nat → Nat → Prop)
    (hg : ∀ m t, good m t → ∀ t1 t2, m.l1 = some t1 → m.l2 = some t2 → P t1 t2 t)
    (pre mid1 mid2 post : List (Nat × Ev)) (t1 t2 ta c1 c2 : Nat)
    (hc : Checked md good Mon.zero
      (pre ++ (t1, Ev.lost c1) :: mid1 ++ (t2, Ev.lost c2) :: mid2 ++ (ta, Ev.attempt) :: post))
    (hmid1 : ∀ x ∈ mid1, ∀ c, x.2 ≠ Ev.lost c) (hmid2 : ∀ x ∈ mid2, ∀ c, x.2 ≠ Ev.lost c) :
    P t1 t2 ta := by
  rw [Checked_append] at hc
  have hc := hc.2.1 rfl
  refine hg _ _ hc t1 t2 ?_ ?_
  · rw [Mon.run_append, Mon.run_cons]
    rw [(Mon.run_lost_free md _ mid2 hmid2).1]
    simp only [Mon.step]
    rw [Mon.run_append, Mon.run_cons, (Mon.run_lost_free md _ mid1 hmid1).2]
    rfl
  · rw [Mon.run_append, Mon.run_cons]
    rw [(Mon.run_lost_free md _ mid2 hmid2).2]
    rfl

end Amshan.ConnMgr
