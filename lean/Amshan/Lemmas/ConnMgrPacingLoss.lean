import Amshan.Lemmas.ConnMgrPacingInv
/-
  The loss-breaker side of the state invariants behind Props/C18Trace.lean.
-/
namespace Amshan.ConnMgr
open Amshan.BackOff
set_option linter.unusedSimpArgs false   -- one simp set serves all branches of `next`

/-- what the breaker promises for an `attempt` at time `t` after the monitor state `m` -/
def lossGood (th sl : Nat) (m : Mon) (t : Nat) : Prop :=
  ∀ t1 t2, m.l1 = some t1 → m.l2 = some t2 → t2 + sl ≤ t ∨ t1 + th ≤ t

/-- the loss side: the breaker's time stamp and flag against the `lost` events of the log.
    A loss is *seen* when connect_loop has run `_update_connection_lost_circuit_breaker()` for it;
    it is *unseen* while `_connection` still holds the dead connection. -/
structure PLoss (md th sl : Nat) (s : S) : Prop where
  chk : Checked md (lossGood th sl) Mon.zero s.log
  l2le : ∀ t2, (Mon.run md Mon.zero s.log).l2 = some t2 → t2 ≤ s.now
  slpF : active s → s.breaker.sleepFlag = true → ∀ u, s.t = .sleeping u →
    (∀ x ∈ s.log, x.1 + sl ≤ u) ∧ (∀ t2, (Mon.run md Mon.zero s.log).l2 = some t2 → t2 + sl ≤ u)
  seen : active s → (∀ c, s.conn = some c → c ∉ s.doneSet) →
    ∀ t2, (Mon.run md Mon.zero s.log).l2 = some t2 →
      s.breaker.lastLoss ≠ none ∧ ∀ x, s.breaker.lastLoss = some x → t2 * 1000000 ≤ x ∧
        (s.breaker.sleepFlag = false → ∀ t1, (Mon.run md Mon.zero s.log).l1 = some t1 → (t1 + th) * 1000000 ≤ x)
  unseen : active s → ∀ c, s.conn = some c → c ∈ s.doneSet →
    ∀ t1, (Mon.run md Mon.zero s.log).l1 = some t1 →
      s.breaker.lastLoss ≠ none ∧ ∀ x, s.breaker.lastLoss = some x → t1 * 1000000 ≤ x

theorem ploss_init (md th sl : Nat) : PLoss md th sl (S.init md th sl) := by
  constructor <;> simp [S.init, Mon.zero, Checked]

theorem ploss_lRun {md th sl : Nat} (s s' : S) (hi : Inv s) (hb : PBase md th sl s) (hf : PLoss md th sl s)
    (h : next s .lRun = some s') : PLoss md th sl s' := by
  obtain ⟨h1,h2,h3,h4,h5,h5',h6,h7,h8,h9,h10⟩ := hi
  obtain ⟨b1, b2, b3, b4, b5⟩ := hb
  obtain ⟨f1, f2, f3, f4, f5⟩ := hf
  obtain ⟨now, closing, conn, lpc, t, cancelReq, backoff, breaker, nextId, live, doneSet, waiters, log⟩ := s
  obtain ⟨threshold, sleepSec, lastLoss, sleepFlag⟩ := breaker
  simp only [active] at h1 h2 h3 h4 h5 h5' h6 h7 h8 h9 h10 f1 f2 f3 f4 f5 b1 b2 b3 b4 b5
  cases lpc <;> cases conn <;> cases closing <;>
    simp [next, topLogic, S.emit, closeTransport] at h
  all_goals first
    | (subst h; constructor <;> simp_all [active, Mon.run_append, Mon.step, Checked_append, Checked, lossGood] ; done)
    | (obtain ⟨hc, h⟩ := h; subst h; constructor <;> simp_all [active, Mon.run_append, Mon.step, Checked_append, Checked, lossGood]; done)
    | skip
  -- the step that sees a loss: `_update_connection_lost_circuit_breaker()`
  obtain ⟨hc, h⟩ := h; subst h
  have hA : (false = false ∧ LPc.w2 ≠ LPc.exited) := ⟨rfl, by simp⟩
  have f5 := f5 hA _ rfl hc
  cases lastLoss with
  | none =>
    constructor <;> simp_all [active, Breaker.update]
    intro t2 ht2
    have := f2 t2 ht2
    omega
  | some x =>
    obtain ⟨u, hu, hle⟩ := b5 x rfl
    constructor <;> simp_all [active, Breaker.update]
    intro t2 ht2
    have := f2 t2 ht2
    refine ⟨Nat.mul_le_mul_right _ this, fun hth _ t1 ht1 => ?_⟩
    have h1 : t1 ≤ u := Nat.le_of_mul_le_mul_right (f5 t1 ht1) (by decide)
    rw [← Nat.sub_mul] at hth
    have h2 : th ≤ now - u := Nat.le_of_mul_le_mul_right hth (by decide)
    exact Nat.mul_le_mul_right _ (by omega)

/-- an attempt at `now` honours the breaker clause, given the `seen` invariant and the sleep already served -/
theorem attempt_lossGood (th sl now : Nat) (m : Mon) (lastLoss : Option Nat) (flag : Bool)
    (b5 : ∀ x, lastLoss = some x → ∃ u, x = u * 1000000 ∧ u ≤ now)
    (seen : ∀ t2, m.l2 = some t2 → lastLoss ≠ none ∧ ∀ x, lastLoss = some x → t2 * 1000000 ≤ x ∧
      (flag = false → ∀ t1, m.l1 = some t1 → (t1 + th) * 1000000 ≤ x))
    (hflag : flag = true → ∀ t2, m.l2 = some t2 → t2 + sl ≤ now) : lossGood th sl m now := by
  intro t1 t2 h1 h2
  obtain ⟨hne, hx⟩ := seen t2 h2
  cases lastLoss with
  | none => exact absurd rfl hne
  | some x =>
    obtain ⟨u, hu, hle⟩ := b5 x rfl
    obtain ⟨_, hf⟩ := hx x rfl
    cases flag with
    | true => exact Or.inl (hflag rfl t2 h2)
    | false =>
      have := hf rfl t1 h1
      subst hu
      have : t1 + th ≤ u := Nat.le_of_mul_le_mul_right this (by decide)
      exact Or.inr (by omega)

theorem ploss_tRun {md th sl : Nat} (s s' : S) (hi : Inv s) (hb : PBase md th sl s) (hf : PLoss md th sl s)
    (h : next s .tRun = some s') : PLoss md th sl s' := by
  obtain ⟨h1,h2,h3,h4,h5,h5',h6,h7,h8,h9,h10⟩ := hi
  obtain ⟨b1, b2, b3, b4, b5⟩ := hb
  obtain ⟨f1, f2, f3, f4, f5⟩ := hf
  obtain ⟨now, closing, conn, lpc, t, cancelReq, backoff, breaker, nextId, live, doneSet, waiters, log⟩ := s
  have hsl := sleepSec_le_getBackOffTime backoff breaker
  obtain ⟨threshold, sleepSec, lastLoss, sleepFlag⟩ := breaker
  simp only [active] at h1 h2 h3 h4 h5 h5' h6 h7 h8 h9 h10 f1 f2 f3 f4 f5 b1 b2 b3 b4 b5 hsl
  cases t <;> cases cancelReq <;> cases closing <;>
    simp [next, afterSleep, S.emit] at h
  all_goals first
    | (subst h; constructor <;> simp_all [active, Mon.run_append, Mon.step, Checked_append, Checked, lossGood] ; done)
    | (obtain ⟨hc, h⟩ := h; subst h; constructor <;> simp_all [active, Mon.run_append, Mon.step, Checked_append, Checked, lossGood]; done)
    | (split at h <;> simp at h <;> subst h <;> constructor <;> simp_all [active, Mon.run_append, Mon.step, Checked_append, Checked, lossGood]; done)
    | skip
  · -- `created`: compute the back-off time, sleep or attempt at once
    have hlpc : lpc ≠ .exited := by intro he; simp [he] at h9
    have hconn : conn = none := by
      cases conn with
      | none => rfl
      | some c => exact absurd (h3 c rfl).1 (by simp)
    subst hconn
    have f4 := f4 ⟨rfl, hlpc⟩ (by simp)
    split at h
    · simp at h; subst h
      refine ⟨f1, f2, ?_, fun _ _ => f4, ?_⟩
      · intro _ hfl u hu
        simp at hu; subst hu
        have := hsl hfl
        refine ⟨fun x hx => ?_, fun t2 ht2 => ?_⟩
        · have := b4 x hx; simp only at *; omega
        · have := f2 t2 ht2; simp only at *; omega
      · intro _ c hc; simp at hc
    · rename_i hst
      simp at h; subst h
      have key : lossGood th sl (Mon.run md Mon.zero log) now := by
        refine attempt_lossGood th sl now _ lastLoss sleepFlag b5 f4 ?_
        intro hfl t2 ht2
        have := hsl hfl
        have := f2 t2 ht2
        simp only at *; omega
      refine ⟨?_, ?_, ?_, ?_, ?_⟩
      · rw [Checked_snoc]; exact ⟨f1, fun _ => key⟩
      · simpa [Mon.run_append, Mon.step] using f2
      · intro _ _ u hu; simp at hu
      · intro _ _; simpa [Mon.run_append, Mon.step] using f4
      · intro _ c hc; simp at hc
  · -- `sleeping u`, the timer has fired
    obtain ⟨hw, h⟩ := h; subst h
    rename_i u
    have hlpc : lpc ≠ .exited := by intro he; simp [he] at h9
    have hconn : conn = none := by
      cases conn with
      | none => rfl
      | some c => exact absurd (h3 c rfl).1 (by simp)
    subst hconn
    have f4 := f4 ⟨rfl, hlpc⟩ (by simp)
    have key : lossGood th sl (Mon.run md Mon.zero log) now := by
      refine attempt_lossGood th sl now _ lastLoss sleepFlag b5 f4 ?_
      intro hfl t2 ht2
      have := (f3 ⟨rfl, hlpc⟩ hfl u rfl).2 t2 ht2
      omega
    refine ⟨?_, ?_, ?_, ?_, ?_⟩
    · rw [Checked_snoc]; exact ⟨f1, fun _ => key⟩
    · simpa [Mon.run_append, Mon.step] using f2
    · intro _ _ u hu; simp at hu
    · intro _ _; simpa [Mon.run_append, Mon.step] using f4
    · intro _ c hc; simp at hc

theorem ploss_factoryOk {md th sl : Nat} (s s' : S) (hi : Inv s) (hf : PLoss md th sl s)
    (h : next s .factoryOk = some s') : PLoss md th sl s' := by
  obtain ⟨h1,h2,h3,h4,h5,h5',h6,h7,h8,h9,h10⟩ := hi
  obtain ⟨f1, f2, f3, f4, f5⟩ := hf
  obtain ⟨now, closing, conn, lpc, t, cancelReq, backoff, breaker, nextId, live, doneSet, waiters, log⟩ := s
  simp only [active] at h1 h2 h3 h4 h5 h5' h6 h7 h8 h9 h10 f1 f2 f3 f4 f5
  simp [next, S.emit] at h
  obtain ⟨⟨ht, hc⟩, h⟩ := h; subst h; subst ht; subst hc
  have hn : nextId ∉ doneSet := fun hm => Nat.lt_irrefl _ (h4 _ hm)
  cases conn with
  | some c => exact absurd (h3 c rfl).1 (by simp)
  | none =>
    constructor <;>
      simp_all [active, Mon.run_append, Mon.step, Checked_append, Checked, lossGood]

theorem ploss_factoryFail {md th sl : Nat} (s s' : S) (hi : Inv s) (hf : PLoss md th sl s)
    (h : next s .factoryFail = some s') : PLoss md th sl s' := by
  obtain ⟨h1,h2,h3,h4,h5,h5',h6,h7,h8,h9,h10⟩ := hi
  obtain ⟨f1, f2, f3, f4, f5⟩ := hf
  obtain ⟨now, closing, conn, lpc, t, cancelReq, backoff, breaker, nextId, live, doneSet, waiters, log⟩ := s
  simp only [active] at h1 h2 h3 h4 h5 h5' h6 h7 h8 h9 h10 f1 f2 f3 f4 f5
  simp [next, S.emit] at h
  obtain ⟨⟨ht, hc⟩, h⟩ := h; subst h; subst ht; subst hc
  cases conn with
  | some c => exact absurd (h3 c rfl).1 (by simp)
  | none =>
    constructor <;>
      simp_all [active, Mon.run_append, Mon.step, Checked_append, Checked, lossGood]

theorem ploss_lose {md th sl : Nat} (s s' : S) (hi : Inv s) (hf : PLoss md th sl s)
    (h : next s .lose = some s') : PLoss md th sl s' := by
  obtain ⟨h1,h2,h3,h4,h5,h5',h6,h7,h8,h9,h10⟩ := hi
  obtain ⟨f1, f2, f3, f4, f5⟩ := hf
  obtain ⟨now, closing, conn, lpc, t, cancelReq, backoff, breaker, nextId, live, doneSet, waiters, log⟩ := s
  simp only [active] at h1 h2 h3 h4 h5 h5' h6 h7 h8 h9 h10 f1 f2 f3 f4 f5
  cases conn <;> simp [next, S.emit] at h
  obtain ⟨hc, h⟩ := h; subst h
  have hnd := h5 _ hc
  have ht := (h3 _ rfl).1
  subst ht
  constructor <;> simp_all [active, Mon.run_append, Mon.step, Checked_append, Checked, lossGood]

theorem ploss_close {md th sl : Nat} (s s' : S) (hf : PLoss md th sl s)
    (h : next s .close = some s') : PLoss md th sl s' := by
  obtain ⟨f1, f2, f3, f4, f5⟩ := hf
  obtain ⟨now, closing, conn, lpc, t, cancelReq, backoff, breaker, nextId, live, doneSet, waiters, log⟩ := s
  simp only [active] at f1 f2 f3 f4 f5
  cases conn <;> simp [next, S.emit, closeTransport] at h
  · subst h; constructor <;> simp_all [active, Mon.run_append, Mon.step, Checked_append, Checked, lossGood]
  · split at h <;> subst h <;> constructor <;>
      simp_all [active, Mon.run_append, Mon.step, Checked_append, Checked, lossGood]

theorem ploss_tick {md th sl : Nat} (s s' : S) (d : Nat) (hf : PLoss md th sl s)
    (h : next s (.tick d) = some s') : PLoss md th sl s' := by
  simp only [next, Option.some.injEq] at h
  subst h
  obtain ⟨f1, f2, f3, f4, f5⟩ := hf
  refine ⟨f1, ?_, f3, f4, f5⟩
  intro t2 ht
  have := f2 t2 ht
  simp only at this ⊢
  omega

theorem ploss_step {md th sl : Nat} (s s' : S) (l : Label) (hi : Inv s) (hb : PBase md th sl s)
    (hf : PLoss md th sl s) (h : next s l = some s') : PLoss md th sl s' := by
  cases l with
  | lRun => exact ploss_lRun s s' hi hb hf h
  | tRun => exact ploss_tRun s s' hi hb hf h
  | factoryOk => exact ploss_factoryOk s s' hi hf h
  | factoryFail => exact ploss_factoryFail s s' hi hf h
  | lose => exact ploss_lose s s' hi hf h
  | close => exact ploss_close s s' hf h
  | tick d => exact ploss_tick s s' d hf h

theorem reach_ploss {md th sl : Nat} {s : S} (h : Reach md th sl s) : PLoss md th sl s := by
  induction h with
  | init => exact ploss_init md th sl
  | step s s' l hr hs ih =>
    exact ploss_step s s' l (reach_inv hr) (reach_pbase hr) ih hs

end Amshan.ConnMgr
