import Amshan.Model.P1Defs
/-
  Generic facts about the P1 reader loop (`Buf.pop`, `loop`, `handleLine`, `Readout.make`),
  independent of the shape of the stream.  Used by C05 and C16 (P1 part).
-/
namespace Amshan.P1
open Amshan.Gen Amshan.Py Amshan.P1Spec

theorem notLf_iff (x : Nat) : notLf x = true ↔ x ≠ 10 := by simp [notLf, p1Lf]
theorem notStart_iff (x : Nat) : notStart x = true ↔ x ≠ 47 := by simp [notStart, p1Start]

/-! ### splitting at the first LF -/

theorem takeWhile_notLf_append (body rest : List Nat) (h : 10 ∉ body) :
    (body ++ 10 :: rest).takeWhile notLf = body := by
  induction body with
  | nil => simp [notLf, p1Lf]
  | cons a t ih =>
    have ha : notLf a = true := by rw [notLf_iff]; intro e; exact h (by simp [e])
    have ht : 10 ∉ t := fun m => h (List.mem_cons_of_mem _ m)
    simp only [List.cons_append, List.takeWhile, ha, ih ht]

theorem dropWhile_notLf_append (body rest : List Nat) (h : 10 ∉ body) :
    (body ++ 10 :: rest).dropWhile notLf = 10 :: rest := by
  induction body with
  | nil => simp [notLf, p1Lf]
  | cons a t ih =>
    have ha : notLf a = true := by rw [notLf_iff]; intro e; exact h (by simp [e])
    have ht : 10 ∉ t := fun m => h (List.mem_cons_of_mem _ m)
    simp only [List.cons_append, List.dropWhile, ha, ih ht]

theorem dropWhile_notLf_nil (l : List Nat) (h : 10 ∉ l) : l.dropWhile notLf = [] := by
  induction l with
  | nil => rfl
  | cons a t ih =>
    have ha : notLf a = true := by rw [notLf_iff]; intro e; exact h (by simp [e])
    have ht : 10 ∉ t := fun m => h (List.mem_cons_of_mem _ m)
    simp only [List.dropWhile, ha, ih ht]

/-- every byte string either has no LF or splits at its first LF -/
theorem split_lf (l : List Nat) : 10 ∉ l ∨ ∃ body rest, l = body ++ 10 :: rest ∧ 10 ∉ body := by
  induction l with
  | nil => left; simp
  | cons a t ih =>
    by_cases ha : a = 10
    · right; exact ⟨[], t, by simp [ha], by simp⟩
    · rcases ih with h | ⟨body, rest, h1, h2⟩
      · left; simp only [List.mem_cons, not_or]; exact ⟨fun e => ha e.symm, h⟩
      · right; refine ⟨a :: body, rest, by simp [h1], ?_⟩
        simp only [List.mem_cons, not_or]; exact ⟨fun e => ha e.symm, h2⟩

/-- the first LF of a byte string is unique -/
theorem first_lf_unique (a b c d : List Nat) (ha : 10 ∉ a) (hc : 10 ∉ c)
    (h : a ++ 10 :: b = c ++ 10 :: d) : a = c ∧ b = d := by
  induction a generalizing c with
  | nil =>
    cases c with
    | nil => simp at h; exact ⟨rfl, h⟩
    | cons x c' => simp at h; exact absurd h.1 (fun e => hc (by simp [e]))
  | cons x a' ih =>
    cases c with
    | nil => simp at h; exact absurd h.1 (fun e => ha (by simp [e]))
    | cons y c' =>
      simp only [List.cons_append, List.cons.injEq] at h
      have := ih c' (fun m => ha (List.mem_cons_of_mem _ m)) (fun m => hc (List.mem_cons_of_mem _ m)) h.2
      exact ⟨by rw [h.1, this.1], this.2⟩

/-- a prefix without LF of a string whose first LF is after `c` is a prefix of `c` -/
theorem nolf_prefix (a b c d : List Nat) (ha : 10 ∉ a) (hc : 10 ∉ c)
    (h : a ++ b = c ++ 10 :: d) : ∃ q, c = a ++ q := by
  induction a generalizing c with
  | nil => exact ⟨c, rfl⟩
  | cons x a' ih =>
    cases c with
    | nil => simp at h; exact absurd h.1 (fun e => ha (by simp [e]))
    | cons y c' =>
      simp only [List.cons_append, List.cons.injEq] at h
      obtain ⟨q, hq⟩ := ih c' (fun m => ha (List.mem_cons_of_mem _ m)) (fun m => hc (List.mem_cons_of_mem _ m)) h.2
      exact ⟨q, by rw [h.1, hq]; rfl⟩

/-! ### pop -/

theorem pop_none (b : Buf) (h : 10 ∉ b.inp) : b.pop = none := by
  simp only [Buf.pop, dropWhile_notLf_nil _ h]

theorem pop_some (c : Nat) (body rest : List Nat) (h : 10 ∉ body) :
    Buf.pop ⟨c, body ++ 10 :: rest⟩ = some (body ++ [10], ⟨c + body.length + 1, rest⟩) := by
  simp only [Buf.pop, dropWhile_notLf_append _ _ h, takeWhile_notLf_append _ _ h]

/-! ### loop -/

theorem loop_of_pop_none (b : Buf) (raw : List Nat) (hunt : Bool) (out : List Readout)
    (h : b.pop = none) : loop b raw hunt out = .ok ({ buf := b, raw := raw, hunt := hunt }, out) := by
  rw [loop]
  split
  · rfl
  · rename_i h2; rw [h] at h2; cases h2

theorem loop_of_pop_some (b : Buf) (raw : List Nat) (hunt : Bool) (out : List Readout)
    (line : List Nat) (b1 : Buf) (h : b.pop = some (line, b1)) :
    loop b raw hunt out =
      match handleLine raw hunt line with
      | .error e => .error e
      | .ok (raw1, hunt1, ro) => loop b1 raw1 hunt1 (out ++ ro.toList) := by
  rw [loop]
  split
  · rename_i h2; rw [h] at h2; cases h2
  · rename_i l' b' h2
    rw [h] at h2
    simp only [Option.some.injEq, Prod.mk.injEq] at h2
    obtain ⟨rfl, rfl⟩ := h2
    rfl

theorem loop_nolf (c : Nat) (inp raw : List Nat) (hunt : Bool) (out : List Readout)
    (h : 10 ∉ inp) : loop ⟨c, inp⟩ raw hunt out = .ok (⟨⟨c, inp⟩, raw, hunt⟩, out) :=
  loop_of_pop_none _ _ _ _ (pop_none _ h)

theorem loop_line (c : Nat) (body rest raw : List Nat) (hunt : Bool) (out : List Readout)
    (h : 10 ∉ body) (raw1 : List Nat) (hunt1 : Bool) (ro : Option Readout)
    (hl : handleLine raw hunt (body ++ [10]) = .ok (raw1, hunt1, ro)) :
    loop ⟨c, body ++ 10 :: rest⟩ raw hunt out =
      loop ⟨c + body.length + 1, rest⟩ raw1 hunt1 (out ++ ro.toList) := by
  rw [loop_of_pop_some _ _ _ _ _ _ (pop_some c body rest h), hl]

theorem loop_line_err (c : Nat) (body rest raw : List Nat) (hunt : Bool) (out : List Readout)
    (h : 10 ∉ body) (e : PyExc)
    (hl : handleLine raw hunt (body ++ [10]) = .error e) :
    loop ⟨c, body ++ 10 :: rest⟩ raw hunt out = .error e := by
  rw [loop_of_pop_some _ _ _ _ _ _ (pop_some c body rest h), hl]

/-- feeding more bytes: the loop on a longer buffer continues from where the loop on the shorter
    one stopped -/
theorem loop_append (Z : List Nat) (n : Nat) : ∀ (c : Nat) (Y raw : List Nat) (hunt : Bool)
    (out : List Readout) (r1 : Reader) (out1 : List Readout), Y.length ≤ n →
    loop ⟨c, Y⟩ raw hunt out = .ok (r1, out1) →
    loop ⟨c, Y ++ Z⟩ raw hunt out = loop ⟨r1.buf.consumed, r1.buf.inp ++ Z⟩ r1.raw r1.hunt out1 := by
  induction n with
  | zero =>
    intro c Y raw hunt out r1 out1 hn h
    have : Y = [] := List.eq_nil_of_length_eq_zero (by omega)
    subst this
    rw [loop_nolf _ _ _ _ _ (by simp)] at h
    cases h
    rfl
  | succ n ih =>
    intro c Y raw hunt out r1 out1 hn h
    rcases split_lf Y with hY | ⟨body, rest, hY, hb⟩
    · rw [loop_nolf _ _ _ _ _ hY] at h
      cases h
      rfl
    · subst hY
      cases hl : handleLine raw hunt (body ++ [10]) with
      | error e => rw [loop_line_err _ _ _ _ _ _ hb e hl] at h; cases h
      | ok v =>
        obtain ⟨raw1, hunt1, ro⟩ := v
        rw [loop_line _ _ _ _ _ _ hb _ _ _ hl] at h
        have e : (body ++ 10 :: rest) ++ Z = body ++ 10 :: (rest ++ Z) := by simp
        rw [e, loop_line _ _ _ _ _ _ hb _ _ _ hl]
        apply ih _ _ _ _ _ _ _ _ h
        simp only [List.length_append, List.length_cons] at hn
        omega

end Amshan.P1
