import Amshan.Spec.ProtoSpec
/-
  Lemmas relating the protocol model (`dataReceived`/`runAll`) to the stream-level specification
  (`selection`/`forwarded`); used by Props/C13.
-/
namespace Amshan.Proto
open Amshan.ProtoSpec

theorem feedAll_cons (r : Rd) (ch : List Nat) (chs : List (List Nat)) :
    r.feedAll (ch :: chs) = (r.feed ch).2 :: Rd.feedAll (r.feed ch).1 chs := rfl

/-- every candidate fed one chunk -/
def advance (cands : List Rd) (ch : List Nat) : List Rd := cands.map (fun r => (r.feed ch).1)

@[simp] theorem advance_length (cands : List Rd) (ch : List Nat) :
    (advance cands ch).length = cands.length := by simp [advance]

@[simp] theorem advance_nil (ch : List Nat) : advance [] ch = [] := rfl

@[simp] theorem advance_cons (r : Rd) (rs : List Rd) (ch : List Nat) :
    advance (r :: rs) ch = (r.feed ch).1 :: advance rs ch := rfl

theorem advance_getElem? (cands : List Rd) (ch : List Nat) (i : Nat) :
    (advance cands ch)[i]? = (cands[i]?).map (fun r => (r.feed ch).1) := by
  simp [advance]

theorem msgsAt_succ (cands : List Rd) (ch : List Nat) (chs : List (List Nat)) (i k : Nat) :
    msgsAt cands (ch :: chs) i (k + 1) = msgsAt (advance cands ch) chs i k := by
  unfold msgsAt
  rw [advance_getElem?]
  cases cands[i]? <;> simp [feedAll_cons]

theorem msgsAt_cons_zero (r : Rd) (rs : List Rd) (chunks : List (List Nat)) (k : Nat) :
    msgsAt (r :: rs) chunks 0 k = (r.feedAll chunks).getD k [] := by
  simp [msgsAt]

theorem msgsAt_cons_succ (r : Rd) (rs : List Rd) (chunks : List (List Nat)) (i k : Nat) :
    msgsAt (r :: rs) chunks (i + 1) k = msgsAt rs chunks i k := by
  simp [msgsAt]

def anyValid (ms : List Msg) : Bool := ms.any (·.valid)

theorem firstValidCand_cons (r : Rd) (rs : List Rd) (chunks : List (List Nat)) (k : Nat) :
    firstValidCand (r :: rs) chunks k =
      if anyValid ((r.feedAll chunks).getD k []) then some 0
      else (firstValidCand rs chunks k).map (· + 1) := by
  unfold firstValidCand
  rw [List.length_cons, List.range_succ_eq_map, List.find?_cons, msgsAt_cons_zero]
  unfold anyValid
  split
  · rename_i h
    simp only [h, if_true]
  · rename_i h
    simp only [h]
    rw [List.find?_map]
    simp only [Bool.false_eq_true, if_false]
    congr 1

/-- the first candidate that reports a valid message when fed `ch` -/
def firstNow (ch : List Nat) : List Rd → Option Nat
  | [] => none
  | r :: rs => if anyValid (r.feed ch).2 then some 0 else (firstNow ch rs).map (· + 1)

theorem firstValidCand_zero (cands : List Rd) (ch : List Nat) (chs : List (List Nat)) :
    firstValidCand cands (ch :: chs) 0 = firstNow ch cands := by
  induction cands with
  | nil => rfl
  | cons r rs ih =>
    rw [firstValidCand_cons, ih, feedAll_cons]
    rfl

theorem firstValidCand_succ (cands : List Rd) (ch : List Nat) (chs : List (List Nat)) (k : Nat) :
    firstValidCand cands (ch :: chs) (k + 1) = firstValidCand (advance cands ch) chs k := by
  unfold firstValidCand
  simp only [msgsAt_succ, advance_length]

theorem selection_nil (cands : List Rd) : selection cands [] = none := rfl

theorem findSome?_shift (f : Nat → Option Nat) (l : List Nat) :
    l.findSome? (fun k => (f k).map (fun i => (k + 1, i))) =
      (l.findSome? (fun k => (f k).map (fun i => (k, i)))).map (fun ki => (ki.1 + 1, ki.2)) := by
  induction l with
  | nil => rfl
  | cons a l ih =>
    simp only [List.findSome?_cons]
    cases f a with
    | none => simpa using ih
    | some i => rfl

theorem selection_cons (cands : List Rd) (ch : List Nat) (chs : List (List Nat)) :
    selection cands (ch :: chs) =
      match firstNow ch cands with
      | some i => some (0, i)
      | none => (selection (advance cands ch) chs).map (fun ki => (ki.1 + 1, ki.2)) := by
  unfold selection
  rw [List.length_cons, List.range_succ_eq_map, List.findSome?_cons, firstValidCand_zero]
  cases firstNow ch cands with
  | some i => rfl
  | none =>
    simp only [Option.map_none, List.findSome?_map]
    rw [← findSome?_shift]
    congr 1
    funext k
    simp only [Function.comp, firstValidCand_succ]

theorem forwarded_nil (cands : List Rd) : forwarded cands [] = [] := rfl

theorem forwarded_cons (cands : List Rd) (ch : List Nat) (chs : List (List Nat)) :
    forwarded cands (ch :: chs) =
      match firstNow ch cands with
      | some i =>
        match cands[i]? with
        | some r => (r.feedAll (ch :: chs)).flatten
        | none => []
      | none => forwarded (advance cands ch) chs := by
  unfold forwarded
  rw [selection_cons]
  cases firstNow ch cands with
  | some i =>
    simp only
    cases cands[i]? with
    | none => rfl
    | some r => simp only [List.drop_zero]
  | none =>
    simp only
    cases selection (advance cands ch) chs with
    | none => rfl
    | some ki =>
      obtain ⟨k, i⟩ := ki
      simp only [Option.map_some, advance_getElem?]
      cases cands[i]? with
      | none => rfl
      | some r => simp only [Option.map_some, feedAll_cons, List.drop_succ_cons]

/-- what the candidate loop does, in terms of `firstNow` -/
theorem trySelect_none (ch : List Nat) (cands : List Rd) (off : Nat)
    (h : firstNow ch cands = none) : trySelect ch cands off = (advance cands ch, none) := by
  induction cands generalizing off with
  | nil => rfl
  | cons r rs ih =>
    unfold firstNow at h
    split at h
    · cases h
    · rename_i hv
      have h' : firstNow ch rs = none := by simpa using h
      unfold trySelect
      unfold anyValid at hv
      simp only [hv, Bool.false_eq_true, if_false, ih (off + 1) h', advance_cons]

theorem trySelect_some (ch : List Nat) (cands : List Rd) (off i : Nat)
    (h : firstNow ch cands = some i) :
    ∃ r cs, cands[i]? = some r ∧
      trySelect ch cands off = (cs, some (off + i, (r.feed ch).1, (r.feed ch).2)) := by
  induction cands generalizing off i with
  | nil => cases h
  | cons r rs ih =>
    unfold firstNow at h
    split at h
    · rename_i hv
      cases h
      unfold anyValid at hv
      refine ⟨r, (r.feed ch).1 :: rs, rfl, ?_⟩
      unfold trySelect
      simp only [hv, if_true, Nat.add_zero]
    · rename_i hv
      unfold anyValid at hv
      cases h' : firstNow ch rs with
      | none => rw [h'] at h; cases h
      | some i' =>
        rw [h'] at h
        simp only [Option.map_some, Option.some.injEq] at h
        subst h
        obtain ⟨r', cs, h1, h2⟩ := ih (off + 1) i' h'
        refine ⟨r', (r.feed ch).1 :: cs, by simpa using h1, ?_⟩
        unfold trySelect
        simp only [hv, Bool.false_eq_true, if_false, h2]
        congr 3
        omega

theorem runAll_nil (k : Kind) (s : State) : runAll k s [] = (s, []) := rfl

theorem runAll_cons (k : Kind) (s : State) (ch : List Nat) (chs : List (List Nat)) :
    runAll k s (ch :: chs) =
      ((runAll k (dataReceived k s ch).1 chs).1,
       (dataReceived k s ch).2 ++ (runAll k (dataReceived k s ch).1 chs).2) := rfl

theorem dataReceived_selected (k : Kind) (i : Nat) (r : Rd) (cs : List Rd) (ch : List Nat) :
    dataReceived k ⟨some (i, r), cs⟩ ch =
      (⟨some (i, (r.feed ch).1), cs⟩, (r.feed ch).2.flatMap (received k)) := rfl

theorem dataReceived_unselected_none (k : Kind) (cands : List Rd) (ch : List Nat)
    (h : firstNow ch cands = none) :
    dataReceived k ⟨none, cands⟩ ch = (⟨none, advance cands ch⟩, []) := by
  unfold dataReceived
  simp only [trySelect_none ch cands 0 h]

theorem dataReceived_unselected_some (k : Kind) (cands : List Rd) (ch : List Nat) (i : Nat)
    (h : firstNow ch cands = some i) :
    ∃ r, cands[i]? = some r ∧ dataReceived k ⟨none, cands⟩ ch =
      (⟨some (i, (r.feed ch).1), []⟩, (r.feed ch).2.flatMap (received k)) := by
  obtain ⟨r, cs, h1, h2⟩ := trySelect_some ch cands 0 i h
  refine ⟨r, h1, ?_⟩
  unfold dataReceived
  simp only [h2, Nat.zero_add]

/-- once a reader is selected, exactly its messages are forwarded and it stays selected -/
theorem runAll_selected (k : Kind) (i : Nat) (r : Rd) (cs : List Rd) (chunks : List (List Nat)) :
    (runAll k ⟨some (i, r), cs⟩ chunks).2 = (r.feedAll chunks).flatten.flatMap (received k) ∧
    (runAll k ⟨some (i, r), cs⟩ chunks).1.selected.map (·.1) = some i := by
  induction chunks generalizing r with
  | nil => exact ⟨rfl, rfl⟩
  | cons ch chs ih =>
    rw [runAll_cons, dataReceived_selected]
    obtain ⟨ih1, ih2⟩ := ih (r.feed ch).1
    refine ⟨?_, ih2⟩
    simp only [ih1, feedAll_cons, List.flatten_cons, List.flatMap_append]

/-- the protocol run from an unselected state agrees with the stream-level specification -/
theorem runAll_unselected (k : Kind) (cands : List Rd) (chunks : List (List Nat)) :
    (runAll k ⟨none, cands⟩ chunks).2 = (forwarded cands chunks).flatMap (received k) ∧
    (runAll k ⟨none, cands⟩ chunks).1.selected.map (·.1) = (selection cands chunks).map (·.2) := by
  induction chunks generalizing cands with
  | nil => exact ⟨rfl, rfl⟩
  | cons ch chs ih =>
    rw [runAll_cons, forwarded_cons, selection_cons]
    cases h : firstNow ch cands with
    | none =>
      rw [dataReceived_unselected_none k cands ch h]
      obtain ⟨ih1, ih2⟩ := ih (advance cands ch)
      refine ⟨by simpa using ih1, ?_⟩
      simp only [ih2, Option.map_map]
      rfl
    | some i =>
      obtain ⟨r, h1, h2⟩ := dataReceived_unselected_some k cands ch i h
      rw [h2]
      obtain ⟨ih1, ih2⟩ := runAll_selected k i (r.feed ch).1 [] chs
      refine ⟨?_, by simpa using ih2⟩
      simp only [ih1, h1, feedAll_cons, List.flatten_cons, List.flatMap_append]

theorem received_message (m : Msg) : received .message m = [Item.msg m] := rfl

theorem received_payload (m : Msg) :
    received .payload m = (goodPayload m).toList.map Item.payload := by
  unfold received goodPayload
  simp only
  cases m.valid with
  | false => rfl
  | true =>
    simp only [if_true]
    cases m.payload with
    | none => rfl
    | some p => cases p <;> rfl

theorem flatMap_received_message (ms : List Msg) :
    ms.flatMap (received .message) = ms.map Item.msg := by
  induction ms with
  | nil => rfl
  | cons m ms ih => simp only [List.flatMap_cons, ih, received_message, List.map_cons, List.singleton_append]

theorem flatMap_received_payload (ms : List Msg) :
    ms.flatMap (received .payload) = (ms.filterMap goodPayload).map Item.payload := by
  induction ms with
  | nil => rfl
  | cons m ms ih =>
    rw [List.flatMap_cons, ih, received_payload, List.filterMap_cons]
    cases goodPayload m <;> rfl

theorem not_anyValid_of_all_valid (ms : List Msg) (h : ∀ m ∈ ms, m.valid = true)
    (hn : anyValid ms = false) : ms = [] := by
  cases ms with
  | nil => rfl
  | cons m ms =>
    have := h m (List.mem_cons_self ..)
    simp [anyValid, this] at hn

/-- a single reader all of whose messages are valid: nothing is dropped before the selection -/
theorem forwarded_single (r : Rd) (chunks : List (List Nat))
    (h : ∀ m ∈ (r.feedAll chunks).flatten, m.valid = true) :
    forwarded [r] chunks = (r.feedAll chunks).flatten := by
  induction chunks generalizing r with
  | nil => rfl
  | cons ch chs ih =>
    rw [forwarded_cons]
    rw [feedAll_cons, List.flatten_cons] at h
    show (match (if anyValid (r.feed ch).2 then some 0 else (firstNow ch []).map (· + 1)) with
      | some i => (match [r][i]? with | some r => (r.feedAll (ch :: chs)).flatten | none => [])
      | none => forwarded (advance [r] ch) chs) = _
    cases hv : anyValid (r.feed ch).2 with
    | true => rfl
    | false =>
      have he := not_anyValid_of_all_valid _ (fun m hm => h m (List.mem_append_left _ hm)) hv
      have := ih (r.feed ch).1 (fun m hm => h m (List.mem_append_right _ hm))
      simp only [Bool.false_eq_true, if_false, firstNow, Option.map_none, advance_cons, advance_nil,
        this, feedAll_cons, List.flatten_cons, he, List.nil_append]

end Amshan.Proto
