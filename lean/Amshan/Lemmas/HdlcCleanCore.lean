import Amshan.Props.C06
import Amshan.Lemmas.HdlcFrame
/-
  Clean-stream lemmas for the HDLC reader (C02, C16), part 1: the canonical shape of reader
  states (`st`), single-octet steps, and the body of a frame read octet by octet.
-/
namespace Amshan.HdlcClean
open Amshan.Gen Amshan.Hdlc Amshan.HdlcSpec

/-! ### constants -/

theorem flag_eq : flag = flagOctet := rfl
theorem esc_eq : esc = escOctet := rfl
theorem flagOctet_val : flagOctet = 126 := rfl
theorem escOctet_val : escOctet = 125 := rfl
theorem escXor_val : escXor = 32 := rfl
theorem maxFrameLen_val : maxFrameLen = 2047 := rfl

/-! ### octets -/

theorem Octets_nil : Octets [] := by intro b hb; simp at hb

theorem Octets_append {a b : List Nat} : Octets (a ++ b) ↔ Octets a ∧ Octets b := by
  unfold Octets
  constructor
  · intro h
    exact ⟨fun x hx => h x (List.mem_append.mpr (Or.inl hx)),
           fun x hx => h x (List.mem_append.mpr (Or.inr hx))⟩
  · rintro ⟨h1, h2⟩ x hx
    rcases List.mem_append.mp hx with hx | hx
    · exact h1 x hx
    · exact h2 x hx

theorem Octets_cons {a : Nat} {b : List Nat} : Octets (a :: b) ↔ a < 256 ∧ Octets b := by
  unfold Octets
  constructor
  · intro h
    exact ⟨h a (by simp), fun x hx => h x (by simp [hx])⟩
  · rintro ⟨h1, h2⟩ x hx
    rcases List.mem_cons.mp hx with hx | hx
    · subst hx; exact h1
    · exact h2 x hx

theorem Octets_replicate (n a : Nat) (ha : a < 256) : Octets (List.replicate n a) := by
  intro x hx
  rw [List.mem_replicate] at hx
  omega

/-! ### frames built by appending octets -/

/-- the frame object after `append` has been called for every octet of `p` -/
def mk (p : List Nat) : Frame := p.foldl Frame.append Frame.empty

theorem mk_nil : mk [] = Frame.empty := rfl

theorem mk_snoc (p : List Nat) (x : Nat) : mk (p ++ [x]) = (mk p).append x := by
  simp only [mk, List.foldl_append, List.foldl_cons, List.foldl_nil]

theorem foldl_append_data (p : List Nat) (f : Frame) :
    (p.foldl Frame.append f).data = f.data ++ p := by
  induction p generalizing f with
  | nil => simp
  | cons x xs ih =>
    simp only [List.foldl_cons, ih]
    simp [Frame.append]

theorem mk_data (p : List Nat) : (mk p).data = p := by
  simp [mk, foldl_append_data, Frame.empty]

theorem mk_len (p : List Nat) : (mk p).len = p.length := by
  simp [Frame.len, mk_data]

theorem foldl_append_inv (p : List Nat) (f : Frame) (hf : FrameInv f) (hp : Octets p) :
    FrameInv (p.foldl Frame.append f) := by
  induction p generalizing f with
  | nil => exact hf
  | cons x xs ih =>
    rw [Octets_cons] at hp
    simp only [List.foldl_cons]
    exact ih _ (FrameInv_append f x hf hp.1) hp.2

theorem mk_inv (p : List Nat) (hp : Octets p) : FrameInv (mk p) :=
  foldl_append_inv p _ FrameInv_empty hp

theorem mk_crc (p : List Nat) (hp : Octets p) : (mk p).crc = Fcs.feed fcsInit p := by
  have := (mk_inv p hp).1
  rwa [mk_data] at this

theorem mk_ctlPos (p : List Nat) (hp : Octets p) : (mk p).ctlPos = controlPos p := by
  have := (mk_inv p hp).2.1
  rwa [mk_data] at this

/-- a frame satisfying the invariant is determined by its octets -/
theorem eq_mk_of_inv (f : Frame) (hf : FrameInv f) : f = mk f.data := by
  have h2 := mk_inv f.data hf.2.2
  cases f with
  | mk data crc ctlPos =>
    have e1 : (mk data).data = data := mk_data data
    have e2 : (mk data).crc = crc := by rw [h2.1, e1]; exact hf.1.symm
    have e3 : (mk data).ctlPos = ctlPos := by rw [h2.2.1, e1]; exact hf.2.1.symm
    generalize mk data = g at e1 e2 e3
    cases g
    simp only at e1 e2 e3
    subst e1 e2 e3
    rfl

/-! ### reader states -/

/-- a reader that is inside a frame whose octets so far are `p` -/
def st (u : Bool) (raw p : List Nat) : Core := { unescapeNext := u, raw := raw, frame := some (mk p) }

/-- the state after `_start_frame` -/
def fresh : Core := st false [] []

theorem startFrame_eq (c : Core) : startFrame c = fresh := rfl

theorem st_inv (u : Bool) (raw p : List Nat) (hp : Octets p) : CoreInv (st u raw p) := by
  simp only [CoreInv, st]
  exact mk_inv p hp

theorem fresh_inv : CoreInv fresh := st_inv _ _ _ Octets_nil

/-- every state satisfying the invariant is hunting or of the form `st` -/
theorem core_shape (c : Core) (hc : CoreInv c) :
    c.frame = none ∨ ∃ p, Octets p ∧ c = st c.unescapeNext c.raw p := by
  cases c with
  | mk u raw frame =>
    cases frame with
    | none => exact Or.inl rfl
    | some f =>
      right
      have hf : FrameInv f := by simpa [CoreInv] using hc
      refine ⟨f.data, hf.2.2, ?_⟩
      simp only [st]
      rw [← eq_mk_of_inv f hf]

/-! ### single steps -/

theorem step_hunt_flag (cfg : Cfg) (c : Core) (hc : c.frame = none) :
    stepOctet cfg c flagOctet = (fresh, []) := by
  simp [stepOctet, readNext, handleFlag, hc, startFrame_eq]

theorem step_hunt_other (cfg : Cfg) (c : Core) (x : Nat) (hc : c.frame = none) (hx : x ≠ flagOctet) :
    stepOctet cfg c x = (c, []) := by
  simp [stepOctet, readNext, hc, hx]

/-- a flag while the current frame is empty: the frame stays empty, raw data and escape state are reset -/
theorem step_empty_flag (cfg : Cfg) (u : Bool) (raw : List Nat) :
    stepOctet cfg (st u raw []) flagOctet = (fresh, []) := by
  simp [stepOctet, readNext, handleFlag, st, mk_len, fresh]

theorem step_fresh_flag (cfg : Cfg) : stepOctet cfg fresh flagOctet = (fresh, []) :=
  step_empty_flag cfg false []

/-- without stuffing every non-flag octet is appended -/
theorem step_plain (cfg : Cfg) (hst : cfg.stuffing = false) (u : Bool) (raw p : List Nat) (x : Nat)
    (hx : x ≠ flagOctet) (hl : p.length < 2047) :
    stepOctet cfg (st u raw p) x = (st u (raw ++ [x]) (p ++ [x]), []) := by
  have hlen : ¬ (p.length + 1 > maxFrameLen) := by rw [maxFrameLen_val]; omega
  simp [stepOctet, readNext, appendToFrame, hst, hx, st, ← mk_snoc, mk_len, hlen]

theorem step_plain_overflow (cfg : Cfg) (hst : cfg.stuffing = false) (u : Bool) (raw p : List Nat) (x : Nat)
    (hx : x ≠ flagOctet) (hl : ¬ p.length < 2047) :
    (stepOctet cfg (st u raw p) x).1.frame = none ∧ (stepOctet cfg (st u raw p) x).2 = [] := by
  have hlen : (p.length + 1 > maxFrameLen) := by rw [maxFrameLen_val]; omega
  simp [stepOctet, readNext, appendToFrame, hst, hx, st, ← mk_snoc, mk_len, hlen]

theorem step_stuff_normal (cfg : Cfg) (hst : cfg.stuffing = true) (raw p : List Nat) (x : Nat)
    (hx : x ≠ flagOctet) (hx' : x ≠ escOctet) (hl : p.length < 2047) :
    stepOctet cfg (st false raw p) x = (st false (raw ++ [x]) (p ++ [x]), []) := by
  have hlen : ¬ (p.length + 1 > maxFrameLen) := by rw [maxFrameLen_val]; omega
  simp [stepOctet, readNext, appendToFrame, hst, hx, hx', st, ← mk_snoc, mk_len, hlen]

theorem step_stuff_esc (cfg : Cfg) (hst : cfg.stuffing = true) (raw p : List Nat)
    (hl : p.length ≤ 2047) :
    stepOctet cfg (st false raw p) escOctet = (st true (raw ++ [escOctet]) p, []) := by
  have hlen : ¬ (p.length > maxFrameLen) := by rw [maxFrameLen_val]; omega
  have he : escOctet ≠ flagOctet := by decide
  simp [stepOctet, readNext, appendToFrame, hst, he, st, mk_len, hlen]

theorem step_stuff_unesc (cfg : Cfg) (hst : cfg.stuffing = true) (raw p : List Nat) (x : Nat)
    (hx : x ≠ flagOctet) (hl : p.length < 2047) :
    stepOctet cfg (st true raw p) x = (st false (raw ++ [x]) (p ++ [x ^^^ escXor]), []) := by
  have hlen : ¬ (p.length + 1 > maxFrameLen) := by rw [maxFrameLen_val]; omega
  simp [stepOctet, readNext, appendToFrame, hst, hx, st, ← mk_snoc, mk_len, hlen]

/-! ### hunt mode -/

theorem run_hunt_noflag (cfg : Cfg) (c : Core) (s : List Nat) (hc : c.frame = none)
    (hs : flagOctet ∉ s) : run cfg c s = (c, []) := by
  induction s with
  | nil => rfl
  | cons x xs ih =>
    have hx : x ≠ flagOctet := fun e => hs (by simp [e])
    rw [run_cons, step_hunt_other cfg c x hc hx]
    simp only [List.nil_append]
    rw [ih (fun h => hs (by simp [h]))]

/-- `n ≥ 1` flags from hunt mode or from an empty frame end in the fresh state -/
theorem run_fresh_flags (cfg : Cfg) (n : Nat) :
    run cfg fresh (List.replicate n flagOctet) = (fresh, []) := by
  induction n with
  | zero => rfl
  | succ n ih => rw [List.replicate_succ, run_cons, step_fresh_flag, ih]; rfl

theorem run_hunt_flags (cfg : Cfg) (c : Core) (hc : c.frame = none) (n : Nat) :
    run cfg c (List.replicate (n + 1) flagOctet) = (fresh, []) := by
  rw [List.replicate_succ, run_cons, step_hunt_flag cfg c hc, run_fresh_flags]; rfl

/-! ### the body of a frame, octet by octet -/

/-- conditions under which a flag octet is taken as frame data (no stuffing) -/
def FlagAbsorb (cfg : Cfg) (raw p : List Nat) : Prop :=
  p ≠ [] ∧ (mk p).hcs.isSome = true ∧
  ¬ (cfg.abort = true ∧ raw.length > 1 ∧ raw.getLast? = some escOctet) ∧
  (mk p).isExpectedLength = false

theorem handleFlag_pass (cfg : Cfg) (c : Core) (f : Frame) (hc : c.frame = some f) (h0 : f.len ≠ 0)
    (hhcs : f.hcs.isSome = true)
    (hab : ¬ (cfg.abort = true ∧ c.raw.length > 1 ∧ c.raw.getLast? = some escOctet)) :
    handleFlag cfg c =
      if cfg.stuffing then (c, .complete)
      else if f.isExpectedLength then (c, .complete)
      else
        let c1 := appendToFrame cfg c f flagOctet
        match c1.frame with
        | some f1 => if f1.len > maxFrameLen then (gotoHunt c1, .hunt) else (c1, .cont)
        | none => (c1, .cont) := by
  have hn : ¬ (f.hcs.isNone = true) := by
    cases h : f.hcs with
    | none => simp [h] at hhcs
    | some _ => simp
  have hab' : ¬ ((cfg.abort && decide (c.raw.length > 1) && (c.raw.getLast? == some escOctet)) = true) := by
    intro h
    simp only [Bool.and_eq_true, decide_eq_true_eq, beq_iff_eq] at h
    exact hab ⟨h.1.1, h.1.2, h.2⟩
  unfold handleFlag
  simp only [hc]
  rw [if_neg h0, if_neg hn, if_neg hab']
  rfl

theorem step_plain_flag (cfg : Cfg) (hst : cfg.stuffing = false) (u : Bool) (raw p : List Nat)
    (hf : FlagAbsorb cfg raw p) (hl : p.length < 2047) :
    stepOctet cfg (st u raw p) flagOctet = (st u (raw ++ [flagOctet]) (p ++ [flagOctet]), []) := by
  obtain ⟨hne, hhcs, hab, hexp⟩ := hf
  have hlen : ¬ (p.length + 1 > maxFrameLen) := by rw [maxFrameLen_val]; omega
  have hp0 : (mk p).len ≠ 0 := by
    rw [mk_len]; intro h; exact hne (List.length_eq_zero_iff.mp h)
  have := handleFlag_pass cfg (st u raw p) (mk p) rfl hp0 hhcs hab
  simp only [stepOctet, readNext, if_true, this, hst, hexp, Bool.false_eq_true, if_false]
  simp only [appendToFrame, hst, Bool.false_eq_true, if_false, st, ← mk_snoc, mk_len,
    List.length_append, List.length_cons, List.length_nil, hlen]

theorem run_plain (cfg : Cfg) (hst : cfg.stuffing = false) (u : Bool) (q raw p : List Nat)
    (hflags : ∀ q1 q2, q = q1 ++ flagOctet :: q2 → FlagAbsorb cfg (raw ++ q1) (p ++ q1))
    (hl : p.length + q.length ≤ 2047) :
    run cfg (st u raw p) q = (st u (raw ++ q) (p ++ q), []) := by
  induction q generalizing raw p with
  | nil => simp
  | cons x xs ih =>
    simp only [List.length_cons] at hl
    have hstep : stepOctet cfg (st u raw p) x = (st u (raw ++ [x]) (p ++ [x]), []) := by
      by_cases hx : x = flagOctet
      · subst hx
        have := hflags [] xs rfl
        simp only [List.append_nil] at this
        exact step_plain_flag cfg hst u raw p this (by omega)
      · exact step_plain cfg hst u raw p x hx (by omega)
    rw [run_cons, hstep]
    simp only [List.nil_append]
    rw [ih (raw ++ [x]) (p ++ [x])]
    · simp
    · intro q1 q2 e
      have := hflags (x :: q1) q2 (by rw [e]; rfl)
      simpa using this
    · simp only [List.length_append, List.length_cons, List.length_nil]; omega

theorem stuff_append (a b : List Nat) : stuff (a ++ b) = stuff a ++ stuff b := by
  induction a with
  | nil => rfl
  | cons x xs ih =>
    simp only [List.cons_append, stuff, ih]
    split <;> simp

theorem flag_not_mem_stuff (a : List Nat) : flagOctet ∉ stuff a := by
  induction a with
  | nil => simp [stuff]
  | cons x xs ih =>
    simp only [stuff]
    split
    · rename_i h
      simp only [List.mem_cons, not_or]
      refine ⟨by decide, ?_, ih⟩
      rcases h with h | h <;> subst h <;> decide
    · rename_i h
      simp only [List.mem_cons, not_or]
      refine ⟨?_, ih⟩
      intro e; exact h (Or.inl e.symm)

theorem xor_xor_cancel (b : Nat) : (b ^^^ 0x20) ^^^ escXor = b := by
  rw [escXor_val, Nat.xor_assoc, Nat.xor_self, Nat.xor_zero]

/-- with stuffing, the stuffed image of `q` appends exactly `q` to the frame -/
theorem run_stuffed (cfg : Cfg) (hst : cfg.stuffing = true) (q raw p : List Nat)
    (hl : p.length + q.length ≤ 2047) :
    run cfg (st false raw p) (stuff q) = (st false (raw ++ stuff q) (p ++ q), []) := by
  induction q generalizing raw p with
  | nil => simp [stuff]
  | cons x xs ih =>
    simp only [List.length_cons] at hl
    have hl' : (p ++ [x]).length + xs.length ≤ 2047 := by
      simp only [List.length_append, List.length_cons, List.length_nil]; omega
    simp only [stuff]
    split
    · rename_i h
      have hx : x ^^^ 0x20 ≠ flagOctet := by
        rcases h with h | h <;> subst h <;> decide
      rw [run_cons, esc_eq, step_stuff_esc cfg hst raw p (by omega), run_cons,
        step_stuff_unesc cfg hst _ p _ hx (by omega), xor_xor_cancel]
      simp only [List.nil_append]
      rw [ih _ _ hl']
      simp
    · rename_i h
      have hx : x ≠ flagOctet := fun e => h (Or.inl e)
      have hx' : x ≠ escOctet := fun e => h (Or.inr e)
      rw [run_cons, step_stuff_normal cfg hst raw p x hx hx' (by omega)]
      simp only [List.nil_append]
      rw [ih _ _ hl']
      simp

/-- the stuffed image of a non-empty list never ends in an escape octet -/
theorem stuff_getLast (a : List Nat) : (stuff a).getLast? ≠ some escOctet := by
  induction a with
  | nil => simp [stuff]
  | cons x xs ih =>
    cases xs with
    | nil =>
      simp only [stuff]
      split
      · rename_i h
        rcases h with h | h <;> subst h <;> decide
      · rename_i h
        simp only [List.getLast?_singleton, ne_eq, Option.some.injEq]
        intro e; exact h (Or.inr e)
    | cons y ys =>
      have hne : stuff (y :: ys) ≠ [] := by
        simp only [stuff]; split <;> simp
      obtain ⟨z, zs, hz⟩ := List.exists_cons_of_ne_nil hne
      rw [hz] at ih
      simp only [stuff] at hz ⊢
      split
      · rw [hz, List.getLast?_cons_cons, List.getLast?_cons_cons]; exact ih
      · rw [hz, List.getLast?_cons_cons]; exact ih

end Amshan.HdlcClean
