import Amshan.Model.P1Defs
/-
  Helper lemmas for the P1 readout properties (C04 and the reader properties):
  CRC model = CRC-16/ARC, `find`, `strip`, `intBase16` on four hex digits, `Readout.make`.
-/
namespace Amshan.P1L
open Amshan.Gen Amshan.P1 Amshan.P1Spec Amshan.Py

/-! ### CRC -/

theorem crcBit_eq_crcShift (crc : Nat) : crcBit crc = crcShift crc := by
  unfold crcBit crcShift
  have h : crc >>> 1 = crc / 2 := by rw [Nat.shiftRight_eq_div_pow]
  rw [Nat.and_one_is_mod, h]
  rfl

theorem crcBits_eq_crcShifts (n crc : Nat) : crcBits n crc = crcShifts n crc := by
  induction n generalizing crc with
  | zero => rfl
  | succ n ih => simp only [crcBits, crcShifts, crcBit_eq_crcShift, ih]

theorem crcByte_eq (crc b : Nat) : crcByte crc b = crcShifts 8 (crc ^^^ b) := by
  unfold crcByte; exact crcBits_eq_crcShifts _ _

theorem crc16_eq_arc (bs : List Nat) : crc16 bs = crc16Arc bs := by
  unfold crc16 crc16Arc
  have : crcByte = (fun crc b => crcShifts 8 (crc ^^^ b)) := by
    funext crc b; exact crcByte_eq crc b
  rw [this]

theorem crcShift_lt (crc : Nat) (h : crc < 65536) : crcShift crc < 65536 := by
  unfold crcShift
  split
  · have h1 : crc / 2 < 2 ^ 16 := by omega
    have h2 : (0xA001 : Nat) < 2 ^ 16 := by decide
    exact Nat.xor_lt_two_pow h1 h2
  · omega

theorem crcShifts_lt (n crc : Nat) (h : crc < 65536) : crcShifts n crc < 65536 := by
  induction n generalizing crc with
  | zero => exact h
  | succ n ih => exact ih _ (crcShift_lt _ h)

theorem crc16Arc_foldl_lt (bs : List Nat) (h : Octets bs) (c : Nat) (hc : c < 65536) :
    bs.foldl (fun crc b => crcShifts 8 (crc ^^^ b)) c < 65536 := by
  induction bs generalizing c with
  | nil => exact hc
  | cons b bs ih =>
    simp only [List.foldl_cons]
    apply ih
    · intro x hx; exact h x (List.mem_cons_of_mem _ hx)
    · apply crcShifts_lt
      have hb : b < 2 ^ 16 := by
        have := h b (List.mem_cons_self); omega
      have hc' : c < 2 ^ 16 := hc
      exact Nat.xor_lt_two_pow hc' hb

theorem crc16Arc_lt (bs : List Nat) (h : Octets bs) : crc16Arc bs < 65536 :=
  crc16Arc_foldl_lt bs h 0 (by decide)

/-! ### `find` -/

theorem find_nil (c : Nat) : find [] c = none := by
  simp [find]

theorem find_cons_self (c : Nat) (xs : List Nat) : find (c :: xs) c = some 0 := by
  simp [find]

theorem find_cons_ne (x c : Nat) (xs : List Nat) (h : x ≠ c) :
    find (x :: xs) c = (find xs c).map (· + 1) := by
  unfold find
  have : (x != c) = true := by simp [h]
  simp only [List.takeWhile_cons, this, if_true, List.length_cons]
  by_cases h2 : (List.takeWhile (fun x => x != c) xs).length < xs.length
  · simp [h2]
  · simp [h2]

/-- `find` locates the first occurrence -/
theorem find_append_of_not_mem (a z : List Nat) (c : Nat) (h : c ∉ a) :
    find (a ++ c :: z) c = some a.length := by
  induction a with
  | nil => exact find_cons_self c z
  | cons x a ih =>
    have hx : x ≠ c := by
      intro e; apply h; rw [e]; exact List.mem_cons_self
    have ha : c ∉ a := fun m => h (List.mem_cons_of_mem _ m)
    rw [List.cons_append, find_cons_ne _ _ _ hx, ih ha]
    rfl

theorem find_some_split (xs : List Nat) (c i : Nat) (h : find xs c = some i) :
    ∃ a z, xs = a ++ c :: z ∧ c ∉ a ∧ a.length = i := by
  induction xs generalizing i with
  | nil => simp [find_nil] at h
  | cons x xs ih =>
    by_cases hx : x = c
    · subst hx
      rw [find_cons_self] at h
      refine ⟨[], xs, rfl, by simp, ?_⟩
      simpa using h
    · rw [find_cons_ne _ _ _ hx] at h
      cases hf : find xs c with
      | none => rw [hf] at h; simp at h
      | some j =>
        rw [hf] at h
        simp only [Option.map_some, Option.some.injEq] at h
        obtain ⟨a, z, hxs, hna, hlen⟩ := ih j hf
        refine ⟨x :: a, z, by rw [hxs]; rfl, ?_, by simp [hlen, h]⟩
        intro m
        rcases List.mem_cons.mp m with e | m
        · exact hx e.symm
        · exact hna m

theorem find_none_of_not_mem (xs : List Nat) (c : Nat) (h : c ∉ xs) : find xs c = none := by
  induction xs with
  | nil => exact find_nil c
  | cons x xs ih =>
    have hx : x ≠ c := by
      intro e; apply h; rw [e]; exact List.mem_cons_self
    rw [find_cons_ne _ _ _ hx, ih (fun m => h (List.mem_cons_of_mem _ m))]
    rfl

theorem find_some_take_drop (xs : List Nat) (c i : Nat) (h : find xs c = some i) :
    xs = xs.take i ++ c :: xs.drop (i + 1) ∧ c ∉ xs.take i ∧ xs[i]? = some c ∧ i < xs.length := by
  obtain ⟨a, z, hxs, hna, hlen⟩ := find_some_split xs c i h
  subst hlen
  subst hxs
  refine ⟨?_, ?_, ?_, ?_⟩
  · simp
  · simpa using hna
  · simp
  · simp

/-! ### strip -/

theorem dropWhile_all (p : Nat → Bool) (t : List Nat) (h : t.all p = true) : t.dropWhile p = [] := by
  induction t with
  | nil => rfl
  | cons x t ih =>
    simp only [List.all_cons, Bool.and_eq_true] at h
    simp only [List.dropWhile_cons, h.1, if_true]
    exact ih h.2

theorem dropWhile_append_all (p : Nat → Bool) (t u : List Nat) (h : t.all p = true) :
    (t ++ u).dropWhile p = u.dropWhile p := by
  induction t with
  | nil => rfl
  | cons x t ih =>
    simp only [List.all_cons, Bool.and_eq_true] at h
    simp only [List.cons_append, List.dropWhile_cons, h.1, if_true]
    exact ih h.2

/-- right strip removes a trailing run of `p` after an element that is not `p` -/
theorem rstripWith_concat (p : Nat → Bool) (u t : List Nat) (x : Nat) (hx : p x = false)
    (ht : t.all p = true) : rstripWith p (u ++ [x] ++ t) = u ++ [x] := by
  unfold rstripWith
  have hr : (u ++ [x] ++ t).reverse = t.reverse ++ (x :: u.reverse) := by simp
  rw [hr, dropWhile_append_all p _ _ (by simpa using ht)]
  simp [hx]

theorem rstripWith_all (p : Nat → Bool) (t : List Nat) (ht : t.all p = true) :
    rstripWith p t = [] := by
  unfold rstripWith
  rw [dropWhile_all p _ (by simpa using ht)]
  rfl

/-- `strip` of text that starts and ends (before a run of white space) with non-space -/
theorem strip_core (y x : Nat) (u t : List Nat) (hy : isStrSpace y = false)
    (hx : isStrSpace x = false) (ht : t.all isStrSpace = true) :
    strip (y :: u ++ [x] ++ t) = y :: u ++ [x] := by
  unfold strip
  have : (y :: u ++ [x] ++ t).dropWhile isStrSpace = y :: u ++ [x] ++ t := by
    simp [hy]
  rw [this]
  exact rstripWith_concat isStrSpace (y :: u) t x hx ht

theorem strip_single (y : Nat) (t : List Nat) (hy : isStrSpace y = false)
    (ht : t.all isStrSpace = true) : strip (y :: t) = [y] := by
  unfold strip
  have : (y :: t).dropWhile isStrSpace = y :: t := by
    simp [hy]
  rw [this]
  exact rstripWith_concat isStrSpace [] t y hy ht

/-- the C white-space skip of `int()` / `float()` (`stripC`), same shape -/
theorem stripC_core (y x : Nat) (u t : List Nat) (hy : isBytesSpace y = false)
    (hx : isBytesSpace x = false) (ht : t.all isBytesSpace = true) :
    stripC (y :: u ++ [x] ++ t) = y :: u ++ [x] := by
  unfold stripC
  have : (y :: u ++ [x] ++ t).dropWhile isBytesSpace = y :: u ++ [x] ++ t := by
    simp [hy]
  rw [this]
  exact rstripWith_concat isBytesSpace (y :: u) t x hx ht

/-- C white space is white space for `str.strip()` too -/
theorem isStrSpace_of_isBytesSpace (c : Nat) (h : isBytesSpace c = true) : isStrSpace c = true := by
  unfold isStrSpace
  unfold isBytesSpace at h
  rw [h]; rfl

theorem not_isBytesSpace_of_not_isStrSpace (c : Nat) (h : isStrSpace c = false) : isBytesSpace c = false := by
  cases hb : isBytesSpace c
  · rfl
  · rw [isStrSpace_of_isBytesSpace c hb] at h; cases h

end Amshan.P1L
