import Amshan.Lemmas.P1CleanLoop
/-
  The lines of a well-formed readout (Spec/P1Wire.lean) and how `handleLine` / `Readout.make`
  treat them.
-/
namespace Amshan.P1
open Amshan.Gen Amshan.P1Spec

/-- a complete line as popped by the reader: no LF except the final one -/
def IsLine (l : List Nat) : Prop := ∃ body, l = body ++ [10] ∧ 10 ∉ body

/-- characters that are neither LF nor '/' nor '!' and are ASCII -/
def okc (c : Nat) : Prop := c ≠ 10 ∧ c ≠ 47 ∧ c ≠ 33 ∧ c < 128

def csText (d : ReadoutDesc) : List Nat :=
  match d.checksum with | some lower => hex4 lower (crc16Arc d.body) | none => []

def endLine (d : ReadoutDesc) : List Nat := 33 :: (csText d ++ [13, 10])
def dataLines (d : ReadoutDesc) : List (List Nat) := d.lines.map (· ++ [13, 10])
def dlines (d : ReadoutDesc) : List (List Nat) := d.identLine :: (dataLines d ++ [endLine d])

/-- identification line without '/' and CR LF -/
def identBody (d : ReadoutDesc) : List Nat :=
  d.man ++ [d.baud] ++ d.escs.flatMap (fun w => [92, w]) ++ d.ident

theorem identLine_eq (d : ReadoutDesc) : d.identLine = 47 :: (identBody d ++ [13, 10]) := by
  simp [ReadoutDesc.identLine, identBody]

theorem flatten_dataLines (d : ReadoutDesc) :
    (dataLines d).flatten = d.lines.flatMap (· ++ [13, 10]) := by
  simp [dataLines, List.flatMap_def]

theorem encode_eq (d : ReadoutDesc) : d.encode = (dlines d).flatten := by
  simp only [dlines, List.flatten_cons, List.flatten_append, flatten_dataLines, List.flatten_nil,
    List.append_nil, ReadoutDesc.encode, ReadoutDesc.body, endLine, csText]
  cases d.checksum <;> simp

/-! ### character classes -/

theorem okc_of_word (w : Nat) (h : isWord w = true) : okc w := by
  simp only [isWord, isAlpha, isDigit, Bool.or_eq_true, Bool.and_eq_true, decide_eq_true_eq,
    beq_iff_eq] at h
  unfold okc; omega

theorem okc_of_dataChar (c : Nat) (h : ReadoutDesc.dataChar c = true) : okc c := by
  simp only [ReadoutDesc.dataChar, isPrintable, Bool.and_eq_true, decide_eq_true_eq,
    bne_iff_ne, ne_eq] at h
  unfold okc; omega

theorem printable_of_dataChar (c : Nat) (h : ReadoutDesc.dataChar c = true) :
    Py.isPrintable c = true := by
  simp only [ReadoutDesc.dataChar, isPrintable, Bool.and_eq_true, decide_eq_true_eq,
    bne_iff_ne, ne_eq] at h
  simp only [Py.isPrintable, Bool.and_eq_true, decide_eq_true_eq]; omega

theorem okc_hexUpper (n : Nat) : okc (hexUpper (n % 16)) := by
  unfold okc hexUpper; split <;> omega

theorem okc_hexLower (n : Nat) : okc (hexLower (n % 16)) := by
  unfold okc hexLower; split <;> omega

theorem okc_hex4 (lower : Bool) (v : Nat) : ∀ c ∈ hex4 lower v, okc c := by
  intro c hc
  cases lower <;>
  · simp only [hex4, Bool.false_eq_true, if_false, if_true, List.mem_cons, List.not_mem_nil,
      or_false] at hc
    rcases hc with rfl | rfl | rfl | rfl
    all_goals first | exact okc_hexUpper _ | exact okc_hexLower _

theorem okc_csText (d : ReadoutDesc) : ∀ c ∈ csText d, okc c := by
  intro c hc
  unfold csText at hc
  split at hc
  · exact okc_hex4 _ _ c hc
  · simp at hc

theorem wf_man (d : ReadoutDesc) (h : d.WF) : ∃ a b c, d.man = [a, b, c] ∧
    isUpper a = true ∧ isUpper b = true ∧ isAlpha c = true := by
  have h1 := h.1
  split at h1
  · rename_i a b c hm
    simp only [Bool.and_eq_true] at h1
    exact ⟨a, b, c, hm, h1.1.1, h1.1.2, h1.2⟩
  · cases h1

theorem wf_ident (d : ReadoutDesc) (h : d.WF) : d.ident.length ≤ 16 ∧
    (∀ c ∈ d.ident, ReadoutDesc.dataChar c = true) ∧
    (∀ w rest, d.ident = 92 :: w :: rest → isWord w = false) := by
  have h1 := h.2.2.2.1
  simp only [ReadoutDesc.identOk, Bool.and_eq_true, decide_eq_true_eq, List.all_eq_true] at h1
  refine ⟨h1.1.1.1, h1.1.1.2, ?_⟩
  intro w rest e
  have h2 := h1.1.2
  rw [e] at h2
  simpa using h2

theorem okc_identBody (d : ReadoutDesc) (h : d.WF) : ∀ c ∈ identBody d, okc c := by
  obtain ⟨a, b, c, hm, ha, hb, hc⟩ := wf_man d h
  have hbaud := h.2.1
  have hescs := h.2.2.1
  obtain ⟨_, hid, _⟩ := wf_ident d h
  intro x hx
  simp only [identBody, hm, List.mem_append, List.mem_cons, List.not_mem_nil, or_false,
    List.mem_flatMap] at hx
  simp only [isUpper, isAlpha, isDigit, Bool.or_eq_true, Bool.and_eq_true, decide_eq_true_eq]
    at ha hb hc hbaud
  rcases hx with (((hx | hx | hx) | hx) | ⟨w, hw, hx⟩) | hx
  · unfold okc; omega
  · unfold okc; omega
  · unfold okc; omega
  · unfold okc; omega
  · have := okc_of_word w (List.all_eq_true.mp hescs w hw)
    rcases hx with rfl | rfl
    · unfold okc; omega
    · exact this
  · exact okc_of_dataChar x (hid x hx)

/-! ### the lines are lines -/

theorem isLine_of_okc (pre : List Nat) (h : ∀ c ∈ pre, okc c) : IsLine (pre ++ [13, 10]) := by
  refine ⟨pre ++ [13], by simp, ?_⟩
  simp only [List.mem_append, List.mem_cons, List.not_mem_nil, or_false, not_or]
  exact ⟨fun m => (h 10 m).1 rfl, by decide⟩

theorem isLine_identLine (d : ReadoutDesc) (h : d.WF) : IsLine d.identLine := by
  rw [identLine_eq]
  refine ⟨47 :: (identBody d ++ [13]), by simp, ?_⟩
  simp only [List.mem_append, List.mem_cons, List.not_mem_nil, or_false, not_or]
  exact ⟨by decide, fun m => (okc_identBody d h 10 m).1 rfl, by decide⟩

theorem isLine_endLine (d : ReadoutDesc) : IsLine (endLine d) := by
  refine ⟨33 :: (csText d ++ [13]), by simp [endLine], ?_⟩
  simp only [List.mem_append, List.mem_cons, List.not_mem_nil, or_false, not_or]
  exact ⟨by decide, fun m => (okc_csText d 10 m).1 rfl, by decide⟩

theorem okc_dataLine (d : ReadoutDesc) (h : d.WF) : ∀ l ∈ d.lines, ∀ c ∈ l, okc c := by
  intro l hl c hc
  exact okc_of_dataChar c (List.all_eq_true.mp (h.2.2.2.2 l hl) c hc)

/-- a data line (with its CR LF): a line without '/' that does not start with '!' -/
def IsDataLine (l : List Nat) : Prop := ∃ pre, l = pre ++ [13, 10] ∧ ∀ c ∈ pre, okc c

theorem isDataLine_of_mem (d : ReadoutDesc) (h : d.WF) : ∀ l ∈ dataLines d, IsDataLine l := by
  intro l hl
  simp only [dataLines, List.mem_map] at hl
  obtain ⟨l0, h0, rfl⟩ := hl
  exact ⟨l0, rfl, okc_dataLine d h l0 h0⟩

theorem IsDataLine.isLine {l : List Nat} (h : IsDataLine l) : IsLine l := by
  obtain ⟨pre, rfl, hp⟩ := h
  exact isLine_of_okc pre hp

theorem IsDataLine.no_start {l : List Nat} (h : IsDataLine l) : 47 ∉ l := by
  obtain ⟨pre, rfl, hp⟩ := h
  simp only [List.mem_append, List.mem_cons, List.not_mem_nil, or_false, not_or]
  exact ⟨fun m => (hp 47 m).2.1 rfl, by decide⟩

theorem IsDataLine.no_end {l : List Nat} (h : IsDataLine l) : 33 ∉ l := by
  obtain ⟨pre, rfl, hp⟩ := h
  simp only [List.mem_append, List.mem_cons, List.not_mem_nil, or_false, not_or]
  exact ⟨fun m => (hp 33 m).2.2.1 rfl, by decide⟩

theorem IsDataLine.head {l : List Nat} (h : IsDataLine l) : ∃ c t, l = c :: t ∧ c ≠ 33 ∧ c ≠ 47 := by
  obtain ⟨pre, rfl, hp⟩ := h
  cases pre with
  | nil => exact ⟨13, [10], rfl, by decide, by decide⟩
  | cons c t =>
    have := hp c (by simp)
    exact ⟨c, t ++ [13, 10], rfl, this.2.2.1, this.2.1⟩

theorem endLine_no_start (d : ReadoutDesc) : 47 ∉ endLine d := by
  simp only [endLine, List.mem_append, List.mem_cons, List.not_mem_nil, or_false, not_or]
  exact ⟨by decide, fun m => (okc_csText d 47 m).2.1 rfl, by decide⟩

end Amshan.P1
