import Amshan.Props.C12
import Amshan.Model.Decoders
import Amshan.Lemmas.P1ParseRTTerm
/-
  Lemmas for Props/C15: the concrete decoder list, and "every parser consumes input" facts that make
  the fuel of the greedy loops irrelevant.
-/
namespace Amshan.DecTotal
open Amshan.Gen Amshan.Cosem Amshan.Dec Amshan.Auto

/-! ### the decoder list -/

theorem decoders_eq : decoders =
    [fun p => ofOut (Aidon.decodeFrame p), fun p => ofOut (Kaifa.decodeFrame p),
     fun p => ofOut (Kamstrup.decodeFrame p), P1Parse.decodeContent,
     fun p => ofOut (Aidon.decodeBody p), fun p => ofOut (Kaifa.decodeBody p),
     fun p => ofOut (Kamstrup.decodeBody p)] := by
  rfl

theorem decoders_length : decoders.length = 7 := by
  rw [decoders_eq]; rfl

theorem caught_all (e : PyExc) : caught e = true := (C12.all_caught e).1

/-! ### tags -/

theorem tNull_eq : tNull = 0 := by decide
theorem tArray_eq : tArray = 1 := by decide
theorem tStructure_eq : tStructure = 2 := by decide
theorem tU32_eq : tU32 = 6 := by decide
theorem tOctet_eq : tOctet = 9 := by decide
theorem tVisible_eq : tVisible = 10 := by decide
theorem tInt8_eq : tInt8 = 15 := by decide
theorem tInt16_eq : tInt16 = 16 := by decide
theorem tU16_eq : tU16 = 18 := by decide
theorem tEnum_eq : tEnum = 22 := by decide

/-! ### consumption of the primitive parsers -/

theorem bind_eq_ok {α β : Type} {x : Res α} {f : α → List Nat → Res β} {b : β} {r : List Nat}
    (h : x.bind f = .ok b r) : ∃ a r1, x = .ok a r1 ∧ f a r1 = .ok b r := by
  cases x with
  | ok a r1 => exact ⟨a, r1, rfl, h⟩
  | soft => cases h
  | explicit => cases h
  | py e => cases h

theorem u8_ok {s : List Nat} {b : Nat} {r : List Nat} (h : u8 s = .ok b r) : s = b :: r := by
  cases s with
  | nil => cases h
  | cons a t => simp only [u8, Res.ok.injEq] at h; rw [h.1, h.2]

theorem u8_len {s : List Nat} {b : Nat} {r : List Nat} (h : u8 s = .ok b r) : r.length + 1 = s.length := by
  rw [u8_ok h]; rfl

theorem u16_len {s : List Nat} {b : Nat} {r : List Nat} (h : u16 s = .ok b r) : r.length + 2 = s.length := by
  match s, h with
  | a :: b :: t, h => simp only [u16, Res.ok.injEq] at h; rw [← h.2]; rfl

theorem u32_len {s : List Nat} {b : Nat} {r : List Nat} (h : u32 s = .ok b r) : r.length + 4 = s.length := by
  match s, h with
  | a :: b :: c :: d :: t, h => simp only [u32, Res.ok.injEq] at h; rw [← h.2]; rfl

theorem s8_len {s : List Nat} {b : Int} {r : List Nat} (h : s8 s = .ok b r) : r.length + 1 = s.length := by
  obtain ⟨a, r1, h1, h2⟩ := bind_eq_ok h
  simp only [Res.ok.injEq] at h2
  rw [← h2.2]; exact u8_len h1

theorem s16_len {s : List Nat} {b : Int} {r : List Nat} (h : s16 s = .ok b r) : r.length + 2 = s.length := by
  obtain ⟨a, r1, h1, h2⟩ := bind_eq_ok h
  simp only [Res.ok.injEq] at h2
  rw [← h2.2]; exact u16_len h1

theorem constByte_ok {v : Nat} {s : List Nat} {r : List Nat} (h : constByte v s = .ok () r) : s = v :: r := by
  obtain ⟨a, r1, h1, h2⟩ := bind_eq_ok h
  split at h2
  · simp only [Res.ok.injEq, true_and] at h2
    rename_i hv
    rw [u8_ok h1, hv, h2]
  · cases h2

theorem constByte_len {v : Nat} {s : List Nat} {u : Unit} {r : List Nat} (h : constByte v s = .ok u r) :
    r.length + 1 = s.length := by
  cases u; rw [constByte_ok h]; rfl

theorem takeN_len {n : Nat} {s t r : List Nat} (h : takeN n s = .ok t r) : r.length + n = s.length := by
  unfold takeN at h
  split at h
  · simp only [Res.ok.injEq] at h
    rw [← h.2, List.length_drop]; omega
  · cases h

theorem dateTime_len {s : List Nat} {d : DT} {r : List Nat} (h : dateTime s = .ok d r) :
    r.length + 13 = s.length := by
  unfold dateTime at h
  split at h
  · dsimp only at h
    split at h
    · simp only [Res.ok.injEq] at h
      rw [← h.2]; simp only [List.length_cons]
    · cases h
  · cases h

theorem visibleString_len {s t r : List Nat} (h : visibleString s = .ok t r) : r.length + 1 ≤ s.length := by
  obtain ⟨n, r1, h1, h2⟩ := bind_eq_ok h
  obtain ⟨t1, r2, h3, h4⟩ := bind_eq_ok h2
  split at h4
  · simp only [Res.ok.injEq] at h4
    have := u8_len h1; have := takeN_len h3; rw [← h4.2]; omega
  · cases h4

theorem octetStringText_len {s t r : List Nat} (h : octetStringText s = .ok t r) : r.length + 1 ≤ s.length := by
  obtain ⟨n, r1, h1, h2⟩ := bind_eq_ok h
  obtain ⟨t1, r2, h3, h4⟩ := bind_eq_ok h2
  simp only at h4
  split at h4
  · simp only [Res.ok.injEq] at h4
    have := u8_len h1; have := takeN_len h3; rw [← h4.2]; omega
  · cases h4

theorem obisField_len {s o r : List Nat} (h : obisField s = .ok o r) : r.length + 8 = s.length := by
  obtain ⟨_, r1, h1, h2⟩ := bind_eq_ok h
  obtain ⟨_, r2, h3, h4⟩ := bind_eq_ok h2
  have := constByte_len h1; have := constByte_len h3; have := takeN_len h4
  omega

theorem skipNulls_len (s : List Nat) : (skipNulls s).length ≤ s.length := by
  unfold skipNulls
  exact (List.dropWhile_sublist _).length_le

theorem nullData_len (s : List Nat) : (nullData s).length ≤ s.length := by
  unfold nullData
  split
  · split
    · exact skipNulls_len _
    · exact Nat.le_refl _
  · exact Nat.le_refl _

theorem dateTimeField_len {s : List Nat} {d : DT} {r : List Nat} (h : dateTimeField s = .ok d r) :
    r.length + 14 = s.length := by
  obtain ⟨_, r1, h1, h2⟩ := bind_eq_ok h
  have := constByte_len h1; have := dateTime_len h2
  omega

/-- a generic field consumes at least its type octet -/
theorem field_len {s : List Nat} {v : FieldVal} {r : List Nat} (h : field s = .ok v r) :
    r.length + 1 ≤ s.length := by
  obtain ⟨t, r1, h1, h2⟩ := bind_eq_ok h
  have hl := u8_len h1
  split at h2
  · simp only [Res.ok.injEq] at h2
    have := nullData_len r1; rw [← h2.2]; omega
  split at h2
  · obtain ⟨_, r2, h3, h4⟩ := bind_eq_ok h2
    simp only [Res.ok.injEq] at h4
    have := s8_len h3; rw [← h4.2]; omega
  split at h2
  · obtain ⟨_, r2, h3, h4⟩ := bind_eq_ok h2
    simp only [Res.ok.injEq] at h4
    have := s16_len h3; rw [← h4.2]; omega
  split at h2
  · obtain ⟨_, r2, h3, h4⟩ := bind_eq_ok h2
    simp only [Res.ok.injEq] at h4
    have := u16_len h3; rw [← h4.2]; omega
  split at h2
  · obtain ⟨_, r2, h3, h4⟩ := bind_eq_ok h2
    simp only [Res.ok.injEq] at h4
    have := u32_len h3; rw [← h4.2]; omega
  split at h2
  · split at h2
    · rename_i d r' hd
      simp only [Res.ok.injEq] at h2
      have := dateTime_len hd; rw [← h2.2]; omega
    · cases h2
    · obtain ⟨_, r2, h3, h4⟩ := bind_eq_ok h2
      simp only [Res.ok.injEq] at h4
      have := octetStringText_len h3; rw [← h4.2]; omega
  split at h2
  · obtain ⟨_, r2, h3, h4⟩ := bind_eq_ok h2
    simp only [Res.ok.injEq] at h4
    have := visibleString_len h3; rw [← h4.2]; omega
  · cases h2

/-! ### Kamstrup -/

theorem kamstrup_element_len {s : List Nat} {e : Kamstrup.Element} {r : List Nat}
    (h : Kamstrup.element s = .ok e r) : r.length + 1 ≤ s.length := by
  unfold Kamstrup.element at h
  simp only at h
  obtain ⟨o, r1, h1, h2⟩ := bind_eq_ok h
  obtain ⟨v, r2, h3, h4⟩ := bind_eq_ok h2
  simp only [Res.ok.injEq] at h4
  have hn := nullData_len r2
  rw [← h4.2]
  have hr1 : r1.length ≤ s.length := by
    split at h1
    · split at h1
      · obtain ⟨_, r3, h5, h6⟩ := bind_eq_ok h1
        simp only [Res.ok.injEq] at h6
        have := obisField_len h5; rw [← h6.2]; omega
      · simp only [Res.ok.injEq] at h1; rw [← h1.2]; exact Nat.le_refl _
    · simp only [Res.ok.injEq] at h1; rw [← h1.2]; exact Nat.le_refl _
  have hr2 : r2.length + 1 ≤ r1.length := by
    split at h3
    · split at h3
      · obtain ⟨_, r3, h5, h6⟩ := bind_eq_ok h3
        simp only [Res.ok.injEq] at h6
        have := dateTimeField_len h5; rw [← h6.2]; omega
      · exact field_len h3
    · exact field_len h3
  omega

theorem kamstrup_greedy_succ (f : Nat) (s : List Nat) : Kamstrup.greedy (f + 1) s =
    match Kamstrup.element s with
    | .ok e r => (Kamstrup.greedy f r).bind fun es r' => .ok (e :: es) r'
    | .explicit => .explicit
    | _ => .ok [] s := rfl

/-- the fuel never decides: any two fuels above the input length give the same result -/
theorem kamstrup_greedy_indep (n : Nat) : ∀ (s : List Nat), s.length ≤ n → ∀ f g, s.length < f → s.length < g →
    Kamstrup.greedy f s = Kamstrup.greedy g s := by
  induction n with
  | zero =>
    intro s hs f g hf hg
    obtain ⟨f', rfl⟩ : ∃ f', f = f' + 1 := ⟨f - 1, by omega⟩
    obtain ⟨g', rfl⟩ : ∃ g', g = g' + 1 := ⟨g - 1, by omega⟩
    rw [kamstrup_greedy_succ, kamstrup_greedy_succ]
    cases he : Kamstrup.element s with
    | ok e r => have := kamstrup_element_len he; omega
    | soft => rfl
    | explicit => rfl
    | py e => rfl
  | succ n ih =>
    intro s hs f g hf hg
    obtain ⟨f', rfl⟩ : ∃ f', f = f' + 1 := ⟨f - 1, by omega⟩
    obtain ⟨g', rfl⟩ : ∃ g', g = g' + 1 := ⟨g - 1, by omega⟩
    rw [kamstrup_greedy_succ, kamstrup_greedy_succ]
    cases he : Kamstrup.element s with
    | ok e r =>
      have := kamstrup_element_len he
      simp only
      rw [ih r (by omega) f' g' (by omega) (by omega)]
    | soft => rfl
    | explicit => rfl
    | py e => rfl

theorem kamstrup_greedy_count : ∀ (f : Nat) (s : List Nat) (es : List Kamstrup.Element) (r : List Nat),
    Kamstrup.greedy f s = .ok es r → es.length + r.length ≤ s.length := by
  intro f
  induction f with
  | zero =>
    intro s es r h
    simp only [Kamstrup.greedy, Res.ok.injEq] at h
    rw [← h.1, ← h.2]; simp
  | succ f ih =>
    intro s es r h
    rw [kamstrup_greedy_succ] at h
    split at h
    · rename_i e r1 he
      obtain ⟨es', r2, h1, h2⟩ := bind_eq_ok h
      simp only [Res.ok.injEq] at h2
      have := ih _ _ _ h1
      have := kamstrup_element_len he
      rw [← h2.1, ← h2.2]; simp only [List.length_cons]; omega
    · cases h
    · simp only [Res.ok.injEq] at h
      rw [← h.1, ← h.2]; simp

/-! ### Kaifa -/

theorem kaifa_obisElement_len {s : List Nat} {e : List Nat × FieldVal} {r : List Nat}
    (h : Kaifa.obisElement s = .ok e r) : r.length + 9 ≤ s.length := by
  obtain ⟨o, r1, h1, h2⟩ := bind_eq_ok h
  obtain ⟨v, r2, h3, h4⟩ := bind_eq_ok h2
  simp only [Res.ok.injEq] at h4
  have := obisField_len h1; have := field_len h3
  rw [← h4.2]; omega

theorem kaifa_greedy_succ (f : Nat) (s : List Nat) : Kaifa.greedyObis (f + 1) s =
    match Kaifa.obisElement s with
    | .ok e r => (Kaifa.greedyObis f r).bind fun es r' => .ok (e :: es) r'
    | .explicit => .explicit
    | _ => .ok [] s := rfl

theorem kaifa_greedy_indep (n : Nat) : ∀ (s : List Nat), s.length ≤ n → ∀ f g, s.length < f → s.length < g →
    Kaifa.greedyObis f s = Kaifa.greedyObis g s := by
  induction n with
  | zero =>
    intro s hs f g hf hg
    obtain ⟨f', rfl⟩ : ∃ f', f = f' + 1 := ⟨f - 1, by omega⟩
    obtain ⟨g', rfl⟩ : ∃ g', g = g' + 1 := ⟨g - 1, by omega⟩
    rw [kaifa_greedy_succ, kaifa_greedy_succ]
    cases he : Kaifa.obisElement s with
    | ok e r => have := kaifa_obisElement_len he; omega
    | soft => rfl
    | explicit => rfl
    | py e => rfl
  | succ n ih =>
    intro s hs f g hf hg
    obtain ⟨f', rfl⟩ : ∃ f', f = f' + 1 := ⟨f - 1, by omega⟩
    obtain ⟨g', rfl⟩ : ∃ g', g = g' + 1 := ⟨g - 1, by omega⟩
    rw [kaifa_greedy_succ, kaifa_greedy_succ]
    cases he : Kaifa.obisElement s with
    | ok e r =>
      have := kaifa_obisElement_len he
      simp only
      rw [ih r (by omega) f' g' (by omega) (by omega)]
    | soft => rfl
    | explicit => rfl
    | py e => rfl

/-! ### P1 parser: termination and cost (from Lemmas/P1ParseRTTerm, the lemma file behind C11) -/

theorem p1_parse_ne_overflow (data : List Nat) : P1Parse.parseContent data ≠ .error .overflowError :=
  P1ParseRT.parseContent_ne_overflow data

theorem p1_parse_cost (data : List Nat) (items : List P1Parse.DataSet) (iters : Nat)
    (h : P1Parse.parseContent data = .ok (items, iters)) : iters ≤ data.length :=
  P1ParseRT.parseContent_cost data items iters h

end Amshan.DecTotal
