import Amshan.Lemmas.GenCodeHdlcReader
import Amshan.Lemmas.HdlcTotal
import Amshan.GeneratedCodeHdlcRead
/- `HdlcFrameReader.read(data_chunk)` and the input buffer `_ReaderBuffer` of han/hdlc.py, mechanically translated from
   the source (Amshan/GeneratedCodeHdlcRead.lean, regenerated on every run), equal the hand-written buffer-level model
   (`Buf`, `Buf.extend`, `Buf.trimToPos`, `Buf.trimToFlagOrEnd`, `loop`, `read` of Model/Hdlc.lean).

   The Python-level state keeps the WHOLE bytearray (`PyBuf`: contents and read position); the model keeps the number
   of octets before the read position and the unread octets.  `absBuf` / `absReader` are the abstraction, `BufInv`
   (`_buffer_pos ≤ len(_buffer)`) the invariant under which every buffer method commutes with it.

   In this translation `self` is the record `PyReader` (the attributes of `Core`, and `_buffer`): `self._buffer.pop()`
   in `_read_next` and `self._buffer.trim_buffer_to_flag_or_end()` in `_goto_hunt_mode` are calls of the translated
   buffer methods on the buffer of the record (the five methods of the state machine are translated against this
   record as `hdlcRd..`; `rd_*_core` ties them to the translation on `Core` of GeneratedCodeHdlcReader.lean: the same
   state machine, the popped octet as the parameter, the recorded trimming as the real buffer operation).
   The `while self._buffer.is_available:` loop is a recursion on fuel (`hdlcRdRead.loop1`); `hdlcRdRead_loop_eq` holds
   for every fuel larger than the number of unread octets and every value `oof` answered when the fuel runs out - the
   fuel that `hdlcRdRead` grants is never used up.

   The proofs are semantic, as in GenCodeHdlcReader.lean. -/
set_option linter.unusedSimpArgs false
set_option linter.unusedVariables false
namespace Amshan.GenLemmas
open Amshan.GenCode Amshan.Gen Amshan.Hdlc

/-! ### the abstraction -/

/-- the invariant of `_ReaderBuffer`: the read position lies inside the bytearray -/
def BufInv (b : PyBuf) : Prop := b.pos ≤ b.buffer.length

/-- the model's view of the buffer: how many octets lie before the read position, and the unread octets -/
def absBuf (b : PyBuf) : Buf := { consumed := b.pos, inp := b.buffer.drop b.pos }

/-- the attributes of the reader that the state machine works on -/
def coreOf (r : PyReader) : Core := { unescapeNext := r.unescapeNext, raw := r.raw, frame := r.frame }

/-- a reader from its two halves -/
def mkReader (c : Core) (b : PyBuf) : PyReader := { unescapeNext := c.unescapeNext, raw := c.raw, frame := c.frame, buf := b }

/-- the model's view of the reader -/
def absReader (r : PyReader) : Reader := { core := coreOf r, buf := absBuf r.buf }

/-- the invariant of the reader: that of its buffer -/
def ReaderInv (r : PyReader) : Prop := BufInv r.buf

theorem mkReader_coreOf (r : PyReader) : mkReader (coreOf r) r.buf = r := rfl
theorem coreOf_mkReader (c : Core) (b : PyBuf) : coreOf (mkReader c b) = c := rfl
theorem buf_mkReader (c : Core) (b : PyBuf) : (mkReader c b).buf = b := rfl

theorem notFlag_eq : notFlag = fun x => x != flagOctet := rfl

/-! ### `_ReaderBuffer` -/

/-- `is_available`: an unread octet exists -/
theorem hdlcBufIsAvailable_eq (b : PyBuf) : hdlcBufIsAvailable b = !(absBuf b).inp.isEmpty := by
  unfold hdlcBufIsAvailable absBuf
  by_cases h : b.pos < b.buffer.length
  · have : b.buffer.drop b.pos ≠ [] := by simp; omega
    simp [h, List.isEmpty_iff, this] <;> gen_decide
  · have : b.buffer.drop b.pos = [] := List.drop_eq_nil_of_le (by omega)
    simp [h, this] <;> gen_decide

theorem absBuf_inp_cons {b : PyBuf} {x : Nat} {rest : List Nat} (h : (absBuf b).inp = x :: rest) :
    b.pos < b.buffer.length ∧ b.buffer.getD b.pos 0 = x ∧ b.buffer.drop (b.pos + 1) = rest := by
  unfold absBuf at h
  simp only at h
  have hlt : b.pos < b.buffer.length := by
    false_or_by_contra
    rw [List.drop_eq_nil_of_le (by omega)] at h
    cases h
  rw [List.drop_eq_getElem_cons hlt] at h
  injection h with h1 h2
  refine ⟨hlt, ?_, h2⟩
  simp [List.getD, List.getElem?_eq_getElem hlt, h1]

/-- `pop()`, when an octet is available: the first unread octet; the read position moves past it -/
theorem hdlcBufPop_eq (b : PyBuf) (x : Nat) (rest : List Nat) (h : (absBuf b).inp = x :: rest) :
    (hdlcBufPop b).2 = x ∧ absBuf (hdlcBufPop b).1 = { consumed := (absBuf b).consumed + 1, inp := rest } ∧
      BufInv (hdlcBufPop b).1 := by
  obtain ⟨hlt, hx, hrest⟩ := absBuf_inp_cons h
  unfold hdlcBufPop
  refine ⟨by simpa using hx, ?_, ?_⟩
  · simp [absBuf, hrest]
  · simp [BufInv]; omega

/-- `extend(data_chunk)` -/
theorem hdlcBufExtend_eq (b : PyBuf) (chunk : List Nat) (hb : BufInv b) :
    absBuf (hdlcBufExtend b chunk) = (absBuf b).extend chunk ∧ BufInv (hdlcBufExtend b chunk) := by
  unfold hdlcBufExtend absBuf Buf.extend BufInv at *
  refine ⟨?_, by simp; omega⟩
  simp [List.drop_append_of_le_length hb]

/-- `trim_buffer_to_current_position()`: the bytearray becomes its unread part -/
theorem hdlcBufTrimToPos_val (b : PyBuf) : hdlcBufTrimToPos b = { buffer := b.buffer.drop b.pos, pos := 0 } := by
  unfold hdlcBufTrimToPos
  rcases b with ⟨l, p⟩
  simp <;> gen_decide

theorem hdlcBufTrimToPos_eq (b : PyBuf) :
    absBuf (hdlcBufTrimToPos b) = (absBuf b).trimToPos ∧ BufInv (hdlcBufTrimToPos b) := by
  rw [hdlcBufTrimToPos_val]
  simp [absBuf, Buf.trimToPos, BufInv]

/-- `trim_buffer_to_flag_or_end()`: the bytearray becomes its unread part from the first flag on (empty without one) -/
theorem hdlcBufTrimToFlagOrEnd_val (b : PyBuf) :
    hdlcBufTrimToFlagOrEnd b = { buffer := (b.buffer.drop b.pos).dropWhile notFlag, pos := 0 } := by
  unfold hdlcBufTrimToFlagOrEnd
  simp only [hdlcBufTrimToPos_val]
  rw [notFlag_eq, GenRt.dropWhile_ne_eq_find]
  generalize hB : b.buffer.drop b.pos = B
  have hge := GenRt.find_ge B flagOctet
  by_cases hneg : GenRt.find B flagOctet < 0
  · have hm1 : GenRt.find B flagOctet = -1 := by omega
    simp [hm1] <;> gen_decide
  · have hnn : 0 ≤ GenRt.find B flagOctet := by omega
    have hne : GenRt.find B flagOctet ≠ -1 := by omega
    by_cases h0 : GenRt.find B flagOctet = 0
    · simp [h0, GenRt.sliceFrom_of_nonneg] <;> gen_decide
    · have hpos : 0 < GenRt.find B flagOctet := by omega
      have h1 : ¬ GenRt.find B flagOctet < 1 := by omega
      simp [hneg, hne, h0, h1, hpos, hnn, GenRt.sliceFrom_of_nonneg] <;> gen_decide

theorem hdlcBufTrimToFlagOrEnd_eq (b : PyBuf) :
    absBuf (hdlcBufTrimToFlagOrEnd b) = (absBuf b).trimToFlagOrEnd ∧ BufInv (hdlcBufTrimToFlagOrEnd b) := by
  rw [hdlcBufTrimToFlagOrEnd_val]
  simp [absBuf, Buf.trimToFlagOrEnd, BufInv]

/-! ### the state machine on the reader record: `Core` as before, and the real buffer operations -/

/-- what an `Act` of the model does to the Python buffer: `hunt` trims it to the next flag -/
def actBuf (a : Act) (b : PyBuf) : PyBuf :=
  match a with
  | .hunt => hdlcBufTrimToFlagOrEnd b
  | _ => b

/-- Python's `frame_complete` of an `Act` -/
def actComplete (a : Act) : Bool := (actFlags a).2

macro "rd_decide" : tactic =>
  `(tactic| ((try simp only [flagOctet, escOctet, maxFrameLen, escXor] at *) <;>
      (try simp [actFlags, actBuf, actComplete, mkReader, coreOf, gotoHunt, startFrame, *]) <;> gen_decide))

theorem hdlcRdStartFrame_eq (r : PyReader) : hdlcRdStartFrame r = mkReader (startFrame (coreOf r)) r.buf := by
  rcases r with ⟨u, raw, fr, buf⟩
  cases u <;> cases fr <;> simp [hdlcRdStartFrame, startFrame, mkReader, coreOf] <;> gen_decide

/-- `_goto_hunt_mode`: the model's `gotoHunt`, and the buffer is trimmed to the next flag -/
theorem hdlcRdGotoHuntMode_eq (r : PyReader) :
    hdlcRdGotoHuntMode r = mkReader (gotoHunt (coreOf r)) (hdlcBufTrimToFlagOrEnd r.buf) := by
  rcases r with ⟨u, raw, fr, buf⟩
  cases u <;> cases fr <;> simp [hdlcRdGotoHuntMode, gotoHunt, mkReader, coreOf] <;> gen_decide

theorem hdlcRdAppendToFrame_eq (cfg : Cfg) (r : PyReader) (f : Frame) (x : Nat) (hf : r.frame = some f) :
    hdlcRdAppendToFrame cfg r x = mkReader (appendToFrame cfg (coreOf r) f x) r.buf := by
  unfold hdlcRdAppendToFrame appendToFrame
  simp only [mkReader, coreOf]
  rcases r with ⟨u, raw, fr, buf⟩
  rcases cfg with ⟨st, ab⟩
  simp only at hf
  subst hf
  by_cases hx : x = escOctet <;> cases st <;> cases u <;> reader_decide

/-- `_handle_flag_sequence` on the reader record -/
theorem hdlcRdHandleFlagSequence_eq (cfg : Cfg) (r : PyReader) :
    hdlcRdHandleFlagSequence cfg r =
      (mkReader (handleFlag cfg (coreOf r)).1 (actBuf (handleFlag cfg (coreOf r)).2 r.buf),
        actComplete (handleFlag cfg (coreOf r)).2) := by
  unfold hdlcRdHandleFlagSequence handleFlag
  rcases r with ⟨u, raw, fr, buf⟩
  rcases cfg with ⟨st, ab⟩
  cases fr with
  | none => (try simp only [hdlcRdStartFrame_eq, hdlcRdGotoHuntMode_eq]) <;> rd_decide
  | some f =>
    have happ : ∀ x, hdlcRdAppendToFrame ⟨st, ab⟩ ⟨u, raw, some f, buf⟩ x
        = mkReader (appendToFrame ⟨st, ab⟩ ⟨u, raw, some f⟩ f x) buf :=
      fun x => hdlcRdAppendToFrame_eq _ _ f x rfl
    have hsome := appendToFrame_frame_isSome ⟨st, ab⟩ ⟨u, raw, some f⟩ f flagOctet
    try simp only [happ, hdlcRdStartFrame_eq, hdlcRdGotoHuntMode_eq]
    simp only [coreOf]
    rcases hc1 : appendToFrame ⟨st, ab⟩ ⟨u, raw, some f⟩ f flagOctet with ⟨u1, raw1, fr1⟩
    rw [hc1] at hsome
    cases fr1 with
    | none => simp at hsome
    | some f1 =>
      by_cases hlen : 0 < raw.length
      · have hlast := getLast?_eq_some_iff raw escOctet hlen
        cases st <;> cases ab <;> cases hh : f.hcs <;> cases he : f.isExpectedLength <;>
          by_cases h0 : f.len = 0 <;> by_cases hm : maxFrameLen < f1.len <;> rd_decide
      · have hnil : raw = [] := by cases raw <;> simp_all
        subst hnil
        cases st <;> cases ab <;> cases hh : f.hcs <;> cases he : f.isExpectedLength <;>
          by_cases h0 : f.len = 0 <;> by_cases hm : maxFrameLen < f1.len <;> rd_decide

/-- the reader after the octet `x` was popped and `_read_next` went on with it: the model's `readNext` on the
    attributes of `Core`; `hunt` trims the buffer `b` (the buffer after `pop`) -/
def nextReader (cfg : Cfg) (c : Core) (x : Nat) (b : PyBuf) : PyReader × Bool :=
  (mkReader (readNext cfg c x).1 (actBuf (readNext cfg c x).2 b), actComplete (readNext cfg c x).2)

/-- `_read_next` on the reader record: `pop()`, then the model's `readNext` for the popped octet -/
theorem hdlcRdReadNext_eq (cfg : Cfg) (r : PyReader) :
    hdlcRdReadNext cfg r = nextReader cfg (coreOf r) (hdlcBufPop r.buf).2 (hdlcBufPop r.buf).1 := by
  unfold hdlcRdReadNext nextReader readNext
  rcases r with ⟨u, raw, fr, buf⟩
  generalize (hdlcBufPop buf).2 = x
  generalize (hdlcBufPop buf).1 = b1
  cases fr with
  | none =>
    by_cases hx : x = flagOctet <;>
      (try simp only [hdlcRdHandleFlagSequence_eq, hdlcRdGotoHuntMode_eq, hdlcRdStartFrame_eq]) <;> rd_decide
  | some f =>
    have happ : ∀ b, hdlcRdAppendToFrame cfg ⟨u, raw, some f, b⟩ x = mkReader (appendToFrame cfg ⟨u, raw, some f⟩ f x) b :=
      fun b => hdlcRdAppendToFrame_eq _ _ f x rfl
    have hsome := appendToFrame_frame_isSome cfg ⟨u, raw, some f⟩ f x
    try simp only [happ, hdlcRdHandleFlagSequence_eq, hdlcRdGotoHuntMode_eq, hdlcRdStartFrame_eq]
    simp only [coreOf]
    rcases hc1 : appendToFrame cfg ⟨u, raw, some f⟩ f x with ⟨u1, raw1, fr1⟩
    rw [hc1] at hsome
    cases fr1 with
    | none => simp at hsome
    | some f1 =>
      by_cases hx : x = flagOctet <;> by_cases hm : maxFrameLen < f1.len <;> rd_decide

/-- the tie to the translation on `Core` (GeneratedCodeHdlcReader.lean): `_read_next` on the reader record is that
    translation for the popped octet, with the recorded trimming (`trimmed`) done on the buffer after `pop` -/
theorem rd_readNext_core (cfg : Cfg) (r : PyReader) :
    hdlcRdReadNext cfg r =
      (mkReader (hdlcReadNext cfg (coreOf r) (hdlcBufPop r.buf).2).1
        (if (hdlcReadNext cfg (coreOf r) (hdlcBufPop r.buf).2).2.1 then hdlcBufTrimToFlagOrEnd (hdlcBufPop r.buf).1
          else (hdlcBufPop r.buf).1),
       (hdlcReadNext cfg (coreOf r) (hdlcBufPop r.buf).2).2.2) := by
  rw [hdlcRdReadNext_eq, hdlcReadNext_eq]
  unfold nextReader actBuf actComplete
  cases (readNext cfg (coreOf r) (hdlcBufPop r.buf).2).2 <;> rfl

/-! ### the `while self._buffer.is_available:` loop, and `read` -/

theorem loop_nil (cfg : Cfg) (c : Core) (b : Buf) (out : List Frame) (h : b.inp = []) :
    loop cfg c b out = (c, b, out) := by
  rw [loop]; split
  · rfl
  · rename_i x rest h2; rw [h] at h2; cases h2

theorem loop_cons (cfg : Cfg) (c : Core) (b : Buf) (out : List Frame) (x : Nat) (rest : List Nat) (h : b.inp = x :: rest) :
    loop cfg c b out =
      (match readNext cfg c x with
       | (c1, .cont) => loop cfg c1 { consumed := b.consumed + 1, inp := rest } out
       | (c1, .hunt) => loop cfg c1 (Buf.trimToFlagOrEnd { consumed := b.consumed + 1, inp := rest }) out
       | (c1, .complete) => loop cfg (startFrame c1) (Buf.trimToPos { consumed := b.consumed + 1, inp := rest })
           (out ++ c1.frame.toList)) := by
  rw [loop]; split
  · rename_i h2; rw [h] at h2; cases h2
  · rename_i x' rest' h2
    rw [h] at h2
    injection h2 with hx hr
    subst hx; subst hr
    rfl

/-- the translated loop: for every value `oof` answered when the fuel runs out and every fuel larger than the number
    of unread octets it is the model's `loop` followed by the final `trim_buffer_to_current_position()` - in
    particular the fuel never runs out -/
theorem hdlcRdRead_loop_eq (cfg : Cfg) (r0 : PyReader) (chunk : List Nat) (oof : PyReader × List Frame) :
    ∀ (fuel : Nat) (c : Core) (buf : PyBuf) (frames : List Frame),
      BufInv buf → (absBuf buf).inp.length < fuel →
      absReader (hdlcRdRead.loop1 cfg r0 chunk oof fuel c.unescapeNext c.raw c.frame buf frames).1
          = { core := (loop cfg c (absBuf buf) frames).1, buf := (loop cfg c (absBuf buf) frames).2.1.trimToPos } ∧
        (hdlcRdRead.loop1 cfg r0 chunk oof fuel c.unescapeNext c.raw c.frame buf frames).2
          = (loop cfg c (absBuf buf) frames).2.2 ∧
        ReaderInv (hdlcRdRead.loop1 cfg r0 chunk oof fuel c.unescapeNext c.raw c.frame buf frames).1 := by
  intro fuel
  induction fuel with
  | zero => intro c buf frames hb hlt; omega
  | succ n ih =>
    intro c buf frames hb hlt
    unfold hdlcRdRead.loop1
    have hrec : ({ unescapeNext := c.unescapeNext, raw := c.raw, frame := c.frame, buf := buf } : PyReader) = mkReader c buf := rfl
    simp only [hrec, hdlcRdReadNext_eq, hdlcRdStartFrame_eq, hdlcBufIsAvailable_eq, coreOf_mkReader, buf_mkReader]
    cases hinp : (absBuf buf).inp with
    | nil =>
      rw [loop_nil cfg c _ frames hinp]
      have htp := hdlcBufTrimToPos_eq buf
      simp [absReader, coreOf, ReaderInv, htp.1, htp.2]
    | cons x rest =>
      obtain ⟨hx, hpop, hinv⟩ := hdlcBufPop_eq buf x rest hinp
      rw [loop_cons cfg c _ frames x rest hinp]
      rw [hinp] at hlt
      simp only [List.length_cons] at hlt
      simp only [hx, nextReader, List.isEmpty_cons, Bool.not_false, if_true]
      rcases hrn : readNext cfg c x with ⟨c1, a⟩
      cases a with
      | cont =>
        simp only [actComplete, actFlags, actBuf, Bool.false_eq_true, if_false]
        have := ih c1 (hdlcBufPop buf).1 frames hinv (by rw [hpop]; simp; omega)
        rw [hpop] at this
        exact this
      | hunt =>
        simp only [actComplete, actFlags, actBuf, Bool.false_eq_true, if_false]
        have htf := hdlcBufTrimToFlagOrEnd_eq (hdlcBufPop buf).1
        have hle := length_dropWhile_le notFlag rest
        have := ih c1 (hdlcBufTrimToFlagOrEnd (hdlcBufPop buf).1) frames htf.2
          (by rw [htf.1, hpop]; simp only [Buf.trimToFlagOrEnd]; omega)
        rw [htf.1, hpop] at this
        exact this
      | complete =>
        obtain ⟨f, hf⟩ := readNext_complete_frame hrn
        simp only [actComplete, actFlags, actBuf, if_true]
        have htp := hdlcBufTrimToPos_eq (hdlcBufPop buf).1
        have := ih (startFrame c1) (hdlcBufTrimToPos (hdlcBufPop buf).1) (frames ++ [f]) htp.2
          (by rw [htp.1, hpop]; simp only [Buf.trimToPos]; omega)
        rw [htp.1, hpop] at this
        simpa [mkReader, hf, startFrame] using this

/-- `HdlcFrameReader.read(data_chunk)`: the model's `read`, seen through the abstraction -/
theorem hdlcRdRead_eq (cfg : Cfg) (r : PyReader) (chunk : List Nat) (hr : ReaderInv r) :
    absReader (hdlcRdRead cfg r chunk).1 = (Hdlc.read cfg (absReader r) chunk).1 ∧
      (hdlcRdRead cfg r chunk).2 = (Hdlc.read cfg (absReader r) chunk).2 ∧ ReaderInv (hdlcRdRead cfg r chunk).1 := by
  unfold hdlcRdRead Hdlc.read
  have hext := hdlcBufExtend_eq r.buf chunk hr
  have hlen : (absBuf (hdlcBufExtend r.buf chunk)).inp.length ≤ r.buf.buffer.length + chunk.length := by
    rw [hext.1]; simp [Buf.extend, absBuf] <;> omega
  cases hfr : r.frame with
  | none =>
    have htf := hdlcBufTrimToFlagOrEnd_eq (hdlcBufExtend r.buf chunk)
    have hle := length_dropWhile_le notFlag (absBuf (hdlcBufExtend r.buf chunk)).inp
    have := hdlcRdRead_loop_eq cfg r chunk default (r.buf.buffer.length + chunk.length + 1) (coreOf r)
      (hdlcBufTrimToFlagOrEnd (hdlcBufExtend r.buf chunk)) [] htf.2
      (by rw [htf.1]; simp only [Buf.trimToFlagOrEnd]; omega)
    rw [htf.1, hext.1] at this
    simpa [coreOf, absReader, hfr] using this
  | some f =>
    have := hdlcRdRead_loop_eq cfg r chunk default (r.buf.buffer.length + chunk.length + 1) (coreOf r)
      (hdlcBufExtend r.buf chunk) [] hext.2 (by omega)
    rw [hext.1] at this
    simpa [coreOf, absReader, hfr] using this

end Amshan.GenLemmas
