import Amshan.Lemmas.GenCodeBase
import Amshan.GeneratedCodeHdlcReader
import Amshan.Model.Hdlc
/- The state machine core of `HdlcFrameReader` (`_append_to_frame`, `_start_frame`, `_goto_hunt_mode`,
   `_handle_flag_sequence`, `_read_next`), mechanically translated from the source as state-passing functions
   (Amshan/GeneratedCodeHdlcReader.lean, regenerated on every run), equals the hand-written model
   (`appendToFrame`, `startFrame`, `gotoHunt`, `handleFlag`, `readNext` of Model/Hdlc.lean).

   The translated methods take the reader's configuration (`Cfg`) and the record `Core` of the attributes they assign
   and answer the new `Core`, the flag `trimmed` ("`_buffer.trim_buffer_to_flag_or_end()` was called": the call does
   not touch `Core`, the model trims in `loop` on `Act.hunt`) and Python's return value (`frame_complete`).  Calls
   between the methods are calls of the generated definitions.  The frame object is opaque (`Frame`, with
   `Frame.append`, `Frame.len`, `Frame.hcs`, `Frame.isExpectedLength` for the calls on it).

   The proofs are semantic: unfold both sides, split the data (configuration, flags, the optional frame) into cases,
   rewrite the calls of other generated methods with their own lemmas, and decide what remains (`simp` +
   `gen_decide`); nothing depends on how the source spells the branches. -/
set_option linter.unusedSimpArgs false   -- simp sets are deliberately wider than one spelling of the source needs
set_option linter.unusedVariables false
namespace Amshan.GenLemmas
open Amshan.GenCode Amshan.Gen Amshan.Hdlc

/-- What the Python did, as the model's `Act`: it returned `frame_complete = True` ↦ `complete`; it called
    `_goto_hunt_mode()` (the input buffer was trimmed to the next flag) ↦ `hunt`; neither ↦ `cont`.
    Both at once has no counterpart in the model. -/
def pyAct (trimmed frameComplete : Bool) : Option Act :=
  match trimmed, frameComplete with
  | false, false => some .cont
  | true, false => some .hunt
  | false, true => some .complete
  | true, true => none

/-- the flags (`trimmed`, `frame_complete`) of an `Act` -/
def actFlags : Act → Bool × Bool
  | .cont => (false, false)
  | .hunt => (true, false)
  | .complete => (false, true)

/-- Closes a leaf of the case analysis: the constants of the source as numbers (in the hypotheses too), the model's
    small definitions unfolded, the hypotheses used to rewrite the goal, then `gen_decide`.  (The hypotheses are not
    rewritten with themselves.) -/
macro "reader_decide" : tactic =>
  `(tactic| ((try simp only [flagOctet, escOctet, maxFrameLen, escXor] at *) <;>
      (try simp [actFlags, gotoHunt, startFrame, *]) <;> gen_decide))

theorem pyAct_actFlags (a : Act) : pyAct (actFlags a).1 (actFlags a).2 = some a := by
  cases a <;> rfl

/-- the last octet of a non-empty list, as the source reads it (`x[-1]`, `x[-1:][0]`) -/
theorem getLast?_eq_getD (l : List Nat) (h : 0 < l.length) : l.getLast? = some (l.getD (l.length - 1) 0) := by
  rw [List.getLast?_eq_getElem?]
  have hlt : l.length - 1 < l.length := by omega
  simp [List.getD, List.getElem?_eq_getElem hlt]

theorem getLast?_eq_some_iff (l : List Nat) (v : Nat) (h : 0 < l.length) :
    (l.getLast? == some v) = (l.getD (l.length - 1) 0 == v) := by
  rw [getLast?_eq_getD l h]; simp

/-! ### `_start_frame`, `_goto_hunt_mode`, `_append_to_frame` -/

theorem hdlcStartFrame_eq (c : Core) : hdlcStartFrame c = startFrame c := by
  unfold hdlcStartFrame startFrame
  rcases c with ⟨u, raw, fr⟩
  cases u <;> cases fr <;> simp <;> gen_decide

/-- `_goto_hunt_mode`: the model's `gotoHunt`, and the buffer is trimmed -/
theorem hdlcGotoHuntMode_eq (c : Core) : hdlcGotoHuntMode c = (gotoHunt c, true) := by
  unfold hdlcGotoHuntMode gotoHunt
  rcases c with ⟨u, raw, fr⟩
  cases u <;> cases fr <;> simp <;> gen_decide

/-- `_append_to_frame(x)`, where `assert self._frame is not None` holds -/
theorem hdlcAppendToFrame_eq (cfg : Cfg) (c : Core) (f : Frame) (x : Nat) (hf : c.frame = some f) :
    hdlcAppendToFrame cfg c x = appendToFrame cfg c f x := by
  unfold hdlcAppendToFrame appendToFrame
  rcases c with ⟨u, raw, fr⟩
  rcases cfg with ⟨st, ab⟩
  simp only at hf
  subst hf
  by_cases hx : x = escOctet <;> cases st <;> cases u <;> reader_decide

/-- after `_append_to_frame` the reader holds a frame -/
theorem appendToFrame_frame_isSome (cfg : Cfg) (c : Core) (f : Frame) (x : Nat) :
    (appendToFrame cfg c f x).frame.isSome = true := by
  unfold appendToFrame
  split <;> (try split) <;> (try split) <;> rfl

/-! ### `_handle_flag_sequence`, `_read_next` -/

/-- `_handle_flag_sequence`: the state afterwards, `trimmed` and the returned `frame_complete` are the model's
    `handleFlag` (its `Act` as flags) -/
theorem hdlcHandleFlagSequence_eq (cfg : Cfg) (c : Core) :
    hdlcHandleFlagSequence cfg c = ((handleFlag cfg c).1, actFlags (handleFlag cfg c).2) := by
  unfold hdlcHandleFlagSequence handleFlag
  rcases c with ⟨u, raw, fr⟩
  rcases cfg with ⟨st, ab⟩
  cases fr with
  | none => (try simp only [hdlcStartFrame_eq, hdlcGotoHuntMode_eq]) <;> reader_decide
  | some f =>
    have happ : ∀ x, hdlcAppendToFrame ⟨st, ab⟩ ⟨u, raw, some f⟩ x = appendToFrame ⟨st, ab⟩ ⟨u, raw, some f⟩ f x :=
      fun x => hdlcAppendToFrame_eq _ _ f x rfl
    have hsome := appendToFrame_frame_isSome ⟨st, ab⟩ ⟨u, raw, some f⟩ f flagOctet
    try simp only [happ, hdlcStartFrame_eq, hdlcGotoHuntMode_eq]
    rcases hc1 : appendToFrame ⟨st, ab⟩ ⟨u, raw, some f⟩ f flagOctet with ⟨u1, raw1, fr1⟩
    rw [hc1] at hsome
    cases fr1 with
    | none => simp at hsome
    | some f1 =>
      by_cases hlen : 0 < raw.length
      · have hlast := getLast?_eq_some_iff raw escOctet hlen
        cases st <;> cases ab <;> cases hh : f.hcs <;> cases he : f.isExpectedLength <;>
          by_cases h0 : f.len = 0 <;> by_cases hm : maxFrameLen < f1.len <;> reader_decide
      · have hnil : raw = [] := by cases raw <;> simp_all
        subst hnil
        cases st <;> cases ab <;> cases hh : f.hcs <;> cases he : f.isExpectedLength <;>
          by_cases h0 : f.len = 0 <;> by_cases hm : maxFrameLen < f1.len <;> reader_decide

/-- `_read_next`, for the popped octet `x` -/
theorem hdlcReadNext_eq (cfg : Cfg) (c : Core) (x : Nat) :
    hdlcReadNext cfg c x = ((readNext cfg c x).1, actFlags (readNext cfg c x).2) := by
  unfold hdlcReadNext readNext
  rcases c with ⟨u, raw, fr⟩
  cases fr with
  | none =>
    by_cases hx : x = flagOctet <;>
      (try simp only [hdlcHandleFlagSequence_eq, hdlcGotoHuntMode_eq, hdlcStartFrame_eq]) <;> reader_decide
  | some f =>
    have happ : hdlcAppendToFrame cfg ⟨u, raw, some f⟩ x = appendToFrame cfg ⟨u, raw, some f⟩ f x :=
      hdlcAppendToFrame_eq _ _ f x rfl
    have hsome := appendToFrame_frame_isSome cfg ⟨u, raw, some f⟩ f x
    try simp only [happ, hdlcHandleFlagSequence_eq, hdlcGotoHuntMode_eq, hdlcStartFrame_eq]
    rcases hc1 : appendToFrame cfg ⟨u, raw, some f⟩ f x with ⟨u1, raw1, fr1⟩
    rw [hc1] at hsome
    cases fr1 with
    | none => simp at hsome
    | some f1 =>
      by_cases hx : x = flagOctet <;> by_cases hm : maxFrameLen < f1.len <;> reader_decide

end Amshan.GenLemmas
