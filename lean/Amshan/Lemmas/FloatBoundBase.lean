import Amshan.Model.Float
import Mathlib.Tactic.Linarith
import Mathlib.Tactic.Ring
import Mathlib.Tactic.NormNum
import Mathlib.Tactic.Positivity
import Mathlib.Tactic.FieldSimp
import Mathlib.Data.Rat.Floor
import Mathlib.Data.Nat.Log
/-
  Error bounds for the exact binary64 model (Model/Float.lean).

  `val` is the rational value of a finite float.  The main facts:
  * `round_spec`      : `roundHalfEven (scaledDiv n d e)` is within 1/2 of `n·2^(-e)/d`
  * `ofRat_struct`    : in the normal range `ofRat` is "final scaledDiv + roundHalfEven + carry
                         normalisation" with quotient ≥ 2^52
  * `ofRat_spec`      : relative error of `ofRat` is at most 2^-53
  * `ofRat_nat_exact` : naturals below 2^53 are represented exactly
  * `mul_spec`        : relative error of `mul` is at most 2^-53
  * `toInt_floor`     : `toInt` of a non-negative finite float is the floor of its value
-/
namespace Amshan.Flt

/-- rational value of a finite float (0 for inf/nan) -/
def val : F → ℚ
  | .fin neg m e => (if neg then -1 else 1) * (m : ℚ) * (2 : ℚ) ^ e
  | _ => 0

@[simp] theorem val_fin_false (m : Nat) (e : Int) : val (.fin false m e) = (m : ℚ) * (2 : ℚ) ^ e := by
  simp [val]

/-! ### natural-number division and the rounding code -/

/-- the comparison code computed by `scaledDiv` -/
def cmpCode (N D : Nat) : Nat :=
  if N % D = 0 then 0 else if 2 * (N % D) < D then 1 else if 2 * (N % D) = D then 2 else 3

theorem natdiv_floor (N D : Nat) (hD : 0 < D) :
    ((N / D : Nat) : ℚ) ≤ (N : ℚ) / D ∧ (N : ℚ) / D < ((N / D : Nat) : ℚ) + 1 := by
  have hD' : (0 : ℚ) < D := by exact_mod_cast hD
  constructor
  · rw [le_div_iff₀ hD']
    have := Nat.div_mul_le_self N D
    exact_mod_cast this
  · rw [div_lt_iff₀ hD']
    have := Nat.lt_div_mul_add hD (a := N)
    have h2 : N < (N / D + 1) * D := by
      rw [Nat.add_mul, Nat.one_mul]; exact this
    exact_mod_cast h2

theorem natdiv_round (N D : Nat) (hD : 0 < D) :
    |((roundHalfEven (N / D) (cmpCode N D) : Nat) : ℚ) - (N : ℚ) / D| ≤ 1 / 2 := by
  have hD' : (0 : ℚ) < D := by exact_mod_cast hD
  have hdm : (N : ℚ) = (D : ℚ) * ((N / D : Nat) : ℚ) + ((N % D : Nat) : ℚ) := by
    exact_mod_cast (Nat.div_add_mod N D).symm
  have hx : (N : ℚ) / D = ((N / D : Nat) : ℚ) + ((N % D : Nat) : ℚ) / D := by
    rw [hdm]; field_simp
  have hrlt : N % D < D := Nat.mod_lt _ hD
  set q := N / D with hq
  set r := N % D with hr
  have hr0 : (0 : ℚ) ≤ (r : ℚ) / D := by positivity
  rw [hx, abs_le]
  unfold cmpCode roundHalfEven
  rw [← hr]
  by_cases h0 : r = 0
  · simp [h0]
  · rw [if_neg h0]
    by_cases h1 : 2 * r < D
    · rw [if_pos h1]
      simp only [show (1 : Nat) ≠ 3 by decide, show (1 : Nat) ≠ 2 by decide, if_false]
      have : (r : ℚ) / D < 1 / 2 := by
        rw [div_lt_iff₀ hD']
        have : (2 * r : ℚ) < D := by exact_mod_cast h1
        linarith
      constructor <;> linarith
    · rw [if_neg h1]
      by_cases h2 : 2 * r = D
      · rw [if_pos h2]
        simp only [show (2 : Nat) ≠ 3 by decide, if_false, if_true]
        have : (r : ℚ) / D = 1 / 2 := by
          rw [div_eq_iff (ne_of_gt hD')]
          have : (2 * r : ℚ) = D := by exact_mod_cast h2
          linarith
        split
        · push_cast; constructor <;> linarith
        · constructor <;> linarith
      · rw [if_neg h2]
        simp only [if_true]
        have : (1 : ℚ) / 2 < (r : ℚ) / D := by
          rw [lt_div_iff₀ hD']
          have h3 : D < 2 * r := by omega
          have : (D : ℚ) < 2 * r := by exact_mod_cast h3
          linarith
        have h4 : (r : ℚ) / D < 1 := by
          rw [div_lt_one hD']; exact_mod_cast hrlt
        push_cast
        constructor <;> linarith

/-! ### `scaledDiv` in terms of rationals -/

/-- the exact scaled quotient `num · 2^(-e) / den` -/
def sdVal (num den : Nat) (e : Int) : ℚ := (num : ℚ) * (2 : ℚ) ^ (-e) / den

theorem scaledDiv_eq (num den : Nat) (e : Int) (hd : 0 < den) :
    ∃ N D : Nat, 0 < D ∧ scaledDiv num den e = (N / D, cmpCode N D) ∧ (N : ℚ) / D = sdVal num den e := by
  have hd' : (den : ℚ) ≠ 0 := by positivity
  rcases le_or_gt 0 e with h | h
  · obtain ⟨k, rfl⟩ := Int.eq_ofNat_of_zero_le h
    refine ⟨num, den * 2 ^ k, by positivity, ?_, ?_⟩
    · simp [scaledDiv, cmpCode]
    · simp only [sdVal, zpow_neg, zpow_natCast]
      push_cast
      field_simp
  · obtain ⟨k, rfl⟩ := Int.exists_eq_neg_ofNat (le_of_lt h)
    refine ⟨num * 2 ^ k, den, hd, ?_, ?_⟩
    · have hk : k ≠ 0 := by omega
      simp [scaledDiv, cmpCode, hk]
    · simp only [sdVal, neg_neg, zpow_natCast]
      push_cast
      ring

theorem sd_floor (num den : Nat) (e : Int) (hd : 0 < den) :
    ((scaledDiv num den e).1 : ℚ) ≤ sdVal num den e ∧
    sdVal num den e < ((scaledDiv num den e).1 : ℚ) + 1 := by
  obtain ⟨N, D, hD, heq, hv⟩ := scaledDiv_eq num den e hd
  rw [heq, ← hv]
  exact natdiv_floor N D hD

theorem round_spec (num den : Nat) (e : Int) (hd : 0 < den) :
    |((roundHalfEven (scaledDiv num den e).1 (scaledDiv num den e).2 : Nat) : ℚ) - sdVal num den e|
      ≤ 1 / 2 := by
  obtain ⟨N, D, hD, heq, hv⟩ := scaledDiv_eq num den e hd
  rw [heq, ← hv]
  exact natdiv_round N D hD

theorem roundHalfEven_ge (q c : Nat) : q ≤ roundHalfEven q c := by
  unfold roundHalfEven; split
  · omega
  · split
    · split <;> omega
    · omega

end Amshan.Flt
