import Amshan.Lemmas.P1ParseRTValue
open Amshan Amshan.Gen Amshan.Cosem Amshan.P1Parse Amshan.P1BlockSpec Amshan.Py
namespace Amshan.P1ParseRT

theorem renderValue_head (v : ValueDesc) (rest : List Nat) : (renderValue v ++ rest).head? = some 40 := by
  rw [renderValue_eq]; rfl

theorem renderValues_head (v : ValueDesc) (vs : List ValueDesc) (rest : List Nat) :
    ((v :: vs).flatMap renderValue ++ rest).head? = some 40 := by
  rw [List.flatMap_cons, List.append_assoc, renderValue_head]

/-- all the values of one data set -/
theorem valuesLoop_values (line tail : List Nat) (htail : tail.head? ≠ some 40) :
    ∀ (vs : List ValueDesc) (v : ValueDesc) (pre : List Nat) (acc : List DataSetValue) (it fuel : Nat),
      line = pre ++ ((v :: vs).flatMap renderValue ++ tail) → (∀ w ∈ v :: vs, w.WF) →
      ((v :: vs).flatMap renderValue ++ tail).length < fuel →
      valuesLoop line fuel pre.length acc it =
        .ok (if tail = [] then none else some (pre.length + ((v :: vs).flatMap renderValue).length),
             acc ++ (v :: vs).map conv, it + vs.length + 1) := by
  intro vs
  induction vs with
  | nil =>
    intro v pre acc it fuel hl hw hf
    cases fuel with
    | zero => omega
    | succ fuel =>
      simp only [List.flatMap_cons, List.flatMap_nil, List.append_nil] at hl ⊢
      rw [valuesLoop_step hl (hw v (by simp))]
      by_cases ht : tail = []
      · simp [ht]
      · have : (tail.head? != some 40) = true := by simp [htail]
        simp [ht, this]
  | cons v' vs ih =>
    intro v pre acc it fuel hl hw hf
    cases fuel with
    | zero => omega
    | succ fuel =>
      have hl1 : line = pre ++ (renderValue v ++ ((v' :: vs).flatMap renderValue ++ tail)) := by
        rw [hl]; simp only [List.flatMap_cons, List.append_assoc]
      rw [valuesLoop_step hl1 (hw v (by simp))]
      have hne : ((v' :: vs).flatMap renderValue ++ tail) ≠ [] := by
        intro h
        have := renderValues_head v' vs tail
        rw [h] at this; cases this
      have hh : (((v' :: vs).flatMap renderValue ++ tail).head? != some 40) = false := by
        rw [renderValues_head]; simp
      rw [if_neg hne, hh]
      simp only [Bool.false_eq_true, if_false]
      have hl2 : line = (pre ++ renderValue v) ++ ((v' :: vs).flatMap renderValue ++ tail) := by
        rw [hl1]; simp only [List.append_assoc]
      have hpos : pre.length + (renderValue v).length = (pre ++ renderValue v).length := by simp
      rw [hpos, ih v' (pre ++ renderValue v) _ _ fuel hl2 (fun w hw' => hw w (by simp [hw']))
        (by
          have := renderValue_length v
          simp only [List.flatMap_cons, List.length_append] at hf ⊢
          omega)]
      have e1 : (pre ++ renderValue v).length + ((v' :: vs).flatMap renderValue).length
          = pre.length + ((v :: v' :: vs).flatMap renderValue).length := by
        simp only [List.flatMap_cons, List.length_append]; omega
      rw [e1]
      simp only [List.map_cons, List.append_assoc, List.cons_append, List.nil_append, List.length_cons]
      congr 3
      omega

theorem renderSet_length_pos {d : DataSetDesc} (h : d.WF) : 0 < (renderSet d).length := by
  obtain ⟨h1, _⟩ := h
  unfold renderSet
  cases ha : d.address with
  | nil => exact absurd ha h1
  | cons a t => simp

theorem renderSet_head_ne {d : DataSetDesc} (h : d.WF) (rest : List Nat) :
    (renderSet d ++ rest).head? ≠ some 40 ∧ renderSet d ++ rest ≠ [] := by
  obtain ⟨h1, h2, _⟩ := h
  unfold renderSet
  cases ha : d.address with
  | nil => exact absurd ha h1
  | cons a t =>
    rw [ha] at h2
    have := (all_plain h2 a (by simp)).1
    simp [this]

/-- one data set -/
theorem getAddressAndValues_set {line pre tail : List Nat} {d : DataSetDesc}
    (hl : line = pre ++ (renderSet d ++ tail)) (hw : d.WF) (htail : tail.head? ≠ some 40) :
    getAddressAndValues line pre.length =
      .ok (if tail = [] then none else some (pre.length + (renderSet d).length), some d.address,
           d.values.map conv, d.values.length) := by
  obtain ⟨h1, h2, h3, h4⟩ := hw
  cases hv : d.values with
  | nil => exact absurd hv h3
  | cons v vs =>
    rw [hv] at h4
    have hl1 : line = pre ++ (d.address ++ ((v :: vs).flatMap renderValue ++ tail)) := by
      rw [hl, renderSet, hv]; simp only [List.append_assoc]
    have hl2 : line = pre ++ (d.address ++ 40 :: ((valueBody v ++ [41]) ++ (vs.flatMap renderValue ++ tail))) := by
      rw [hl1, List.flatMap_cons, renderValue_eq]; simp
    have hfind : findFrom line 40 pre.length = some (pre.length + d.address.length) :=
      findFrom_append hl2 (fun x hx => (all_plain h2 x hx).1)
    have hapos : 0 < d.address.length := by
      cases ha : d.address with
      | nil => exact absurd ha h1
      | cons a t => simp
    have hslice : slice line pre.length (pre.length + d.address.length) = d.address := slice_append hl1
    have hl3 : line = (pre ++ d.address) ++ ((v :: vs).flatMap renderValue ++ tail) := by
      rw [hl1]; simp only [List.append_assoc]
    have hpos : pre.length + d.address.length = (pre ++ d.address).length := by simp
    have hvl := valuesLoop_values line tail htail vs v (pre ++ d.address) [] 0 (line.length + 1) hl3 h4
      (by rw [hl3]; simp only [List.length_append]; omega)
    unfold getAddressAndValues
    have hgt : pre.length + d.address.length > pre.length := by omega
    have hgt0 : pre.length + d.address.length > 0 := by omega
    simp only [hfind, hslice, hgt, if_true, hgt0]
    rw [hpos, hvl]
    simp only [List.nil_append, List.map_cons, List.isEmpty_cons, Bool.false_eq_true, if_false, Nat.zero_add,
      List.length_cons]
    have e : (pre ++ d.address).length + ((v :: vs).flatMap renderValue).length
        = pre.length + (renderSet d).length := by
      simp only [renderSet, hv, List.length_append]; omega
    rw [e]

/-- all the data sets of one line -/
theorem lineLoop_sets (line : List Nat) :
    ∀ (ds : List DataSetDesc) (d : DataSetDesc) (pre : List Nat) (items : List DataSet) (iters fuel : Nat),
      line = pre ++ (d :: ds).flatMap renderSet → (∀ w ∈ d :: ds, w.WF) →
      ((d :: ds).flatMap renderSet).length < fuel →
      ∃ n, lineLoop line fuel pre.length items iters = .ok (items ++ (d :: ds).map convSet, n) := by
  intro ds
  induction ds with
  | nil =>
    intro d pre items iters fuel hl hw hf
    cases fuel with
    | zero => omega
    | succ fuel =>
      have hl1 : line = pre ++ (renderSet d ++ []) := by rw [hl]; simp
      have hg := getAddressAndValues_set hl1 (hw d (by simp)) (by simp)
      have hvne : (d.values.map conv).isEmpty = false := by
        have := (hw d (by simp)).2.2.1
        cases hv : d.values with
        | nil => exact absurd hv this
        | cons a t => simp
      unfold lineLoop
      rw [hg]
      simp only [if_true, hvne, Bool.false_eq_true, if_false]
      refine ⟨iters + d.values.length + 1, ?_⟩
      simp [convSet, conv]
  | cons d' ds ih =>
    intro d pre items iters fuel hl hw hf
    cases fuel with
    | zero => omega
    | succ fuel =>
      have hl1 : line = pre ++ (renderSet d ++ (d' :: ds).flatMap renderSet) := by
        rw [hl]; simp only [List.flatMap_cons]
      have hd' := hw d' (by simp)
      have hh : ((d' :: ds).flatMap renderSet).head? ≠ some 40 ∧ (d' :: ds).flatMap renderSet ≠ [] := by
        rw [List.flatMap_cons]; exact renderSet_head_ne hd' _
      have hg := getAddressAndValues_set hl1 (hw d (by simp)) hh.1
      have hvne : (d.values.map conv).isEmpty = false := by
        have := (hw d (by simp)).2.2.1
        cases hv : d.values with
        | nil => exact absurd hv this
        | cons a t => simp
      unfold lineLoop
      rw [hg]
      simp only [hvne, Bool.false_eq_true, if_false, if_neg hh.2]
      have hl2 : line = (pre ++ renderSet d) ++ (d' :: ds).flatMap renderSet := by
        rw [hl1]; simp only [List.append_assoc]
      have hpos : pre.length + (renderSet d).length = (pre ++ renderSet d).length := by simp
      rw [hpos]
      obtain ⟨n, hn⟩ := ih d' (pre ++ renderSet d) (items ++ [⟨(some d.address).getD [], d.values.map conv⟩])
        (iters + d.values.length + 1) fuel hl2 (fun w hw' => hw w (by simp [hw']))
        (by
          have := renderSet_length_pos (hw d (by simp))
          simp only [List.flatMap_cons, List.length_append] at hf ⊢
          omega)
      refine ⟨n, ?_⟩
      rw [hn]
      simp [convSet, conv]

end Amshan.P1ParseRT
