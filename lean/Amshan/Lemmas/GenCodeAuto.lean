import Amshan.Lemmas.GenCodeLoop
import Amshan.GeneratedCodeAuto
import Amshan.Model.AutoDecoder
/- `AutoDecoder.decode_message_payload` and `previous_success_decoder`, mechanically translated from the source
   (Amshan/GeneratedCodeAuto.lean, regenerated on every run), equal the hand-written model (`Auto.step` /
   `Auto.tryLoop`, `Auto.previousName` of Model/AutoDecoder.lean) - for every decoder table (the empty one too),
   every except clause `caught`, and every remembered index (in range or not).

   The translated loop is `GenRt.forLoop` over `range(len(table))`; its state is `__previous_success`; an iteration
   answers `ret (ok ..)` where the source returns, `ret (error e)` where an exception leaves the function (the table
   lookup, outside the `try`: IndexError; an exception of the decoder that `caught` does not catch), `next` where the
   except clause swallows the exception.  The proof compares the body with `autoRefBody` (the model's `tryLoop` step,
   as a loop body) pointwise - whatever the generated body looks like - and `autoRef_tryLoop` ties that loop to
   `tryLoop` by induction on the number of iterations left. -/
set_option linter.unusedSimpArgs false
set_option linter.unusedVariables false
namespace Amshan.GenLemmas
open Amshan.GenCode Amshan.GenRt Amshan.Auto

variable {α β : Type}

/-- one iteration of the model's `tryLoop`, as the body of a translated loop (state: `__previous_success`) -/
def autoRefBody (decs : List (Decoder α β)) (caught : PyExc → Bool) (start : Nat) (payload : α)
    (p : Option Nat) (i : Nat) : Step (Option Nat) (Except PyExc (Option Nat × Option β)) :=
  match decs[(i + start) % decs.length]? with
  | none => .ret (.error .indexError)
  | some dec =>
    match dec payload with
    | .ok v => .ret (.ok (some ((i + start) % decs.length), some v))
    | .error e => if caught e then .next p else .ret (.error e)

/-- the loop with the reference body is the model's `tryLoop` (from iteration `i`, `k` iterations left) -/
theorem autoRef_tryLoop (decs : List (Decoder α β)) (caught : PyExc → Bool) (start : Nat) (payload : α)
    (p : Option Nat) (k i : Nat) :
    forLoop (List.range' i k) p (autoRefBody decs caught start payload) (fun p => Except.ok (p, none)) =
      match tryLoop decs caught start payload k i with
      | .ok (some (idx, v)) => .ok (some idx, some v)
      | .ok none => .ok (p, none)
      | .error e => .error e := by
  induction k generalizing i with
  | zero => rfl
  | succ k ih =>
    rw [List.range'_succ, forLoop_cons, tryLoop, autoRefBody]
    cases hd : decs[(i + start) % decs.length]? with
    | none => rfl
    | some dec =>
      simp only
      cases hv : dec payload with
      | ok v => rfl
      | error e =>
        simp only
        cases hc : caught e with
        | false => simp
        | true => simpa using ih (i + 1)

/-- `decode_message_payload(payload)` with `__previous_success = prev` -/
theorem autoDecodeMessagePayload_eq (decs : List (Decoder α β)) (caught : PyExc → Bool) (prev : Option Nat) (payload : α) :
    autoDecodeMessagePayload decs caught prev payload = Auto.step decs caught prev payload := by
  unfold autoDecodeMessagePayload Auto.step
  try simp only [Nat.add_sub_cancel, Nat.add_sub_cancel_left]      -- `range(start, start + n)` has n items
  rw [forLoop_range'_shift, forLoop_congr (g := autoRefBody decs caught (prev.getD 0) payload)]
  · rw [autoRef_tryLoop]
    cases prev <;> simp only [Option.getD_none, Option.getD_some] <;> split <;> simp_all
  · intro s i
    unfold autoRefBody
    cases prev <;> simp only [Option.getD_none, Option.getD_some, Nat.add_zero, Nat.zero_add, Nat.add_comm] <;>
      (split <;> (try split) <;> (try split) <;> simp_all <;> grind)

/-- the rotation never looks up an index outside the table: `.error .indexError` can only come from a decoder -/
theorem tryLoop_ne_indexError (decs : List (Decoder α β)) (caught : PyExc → Bool) (start : Nat) (payload : α)
    (hc : ∀ d ∈ decs, d payload ≠ .error .indexError) (k i : Nat) (hk : k ≤ decs.length) :
    tryLoop decs caught start payload k i ≠ .error .indexError := by
  induction k generalizing i with
  | zero => simp [tryLoop]
  | succ k ih =>
    rw [tryLoop]
    have hlt : (i + start) % decs.length < decs.length := Nat.mod_lt _ (by omega)
    rw [List.getElem?_eq_getElem hlt]
    simp only
    have hmem := hc _ (List.getElem_mem hlt)
    cases hv : decs[(i + start) % decs.length] payload with
    | ok v => simp
    | error e =>
      simp only
      cases hce : caught e with
      | true => simpa using ih (i + 1) (by omega)
      | false =>
        simp
        intro he
        subst he
        exact hmem hv

theorem step_ne_indexError (decs : List (Decoder α β)) (caught : PyExc → Bool) (prev : Option Nat) (payload : α)
    (hc : ∀ d ∈ decs, d payload ≠ .error .indexError) : Auto.step decs caught prev payload ≠ .error .indexError := by
  unfold Auto.step
  have key : ∀ start, (match tryLoop decs caught start payload decs.length 0 with
      | .ok (some (idx, v)) => (Except.ok (some idx, some v) : Except PyExc (Option Nat × Option β))
      | .ok none => .ok (prev, none)
      | .error e => .error e) ≠ .error .indexError := by
    intro start
    have h := tryLoop_ne_indexError decs caught start payload hc decs.length 0 (Nat.le_refl _)
    generalize tryLoop decs caught start payload decs.length 0 = r at h ⊢
    match r, h with
    | .error e, h => simpa using h
    | .ok none, _ => simp
    | .ok (some (idx, v)), _ => simp
  exact key _

/-- `previous_success_decoder`: the name at the remembered index; Python raises IndexError for an index outside the
    table (the model answers none there: `in range` is what `decode_message_payload` guarantees, `C12`) -/
theorem autoPreviousSuccessDecoder_eq (names : List String) (prev : Option Nat) (h : ∀ i, prev = some i → i < names.length) :
    autoPreviousSuccessDecoder names prev = .ok (previousName names prev) := by
  unfold autoPreviousSuccessDecoder previousName
  cases prev with
  | none => simp
  | some i =>
    have hi := h i rfl
    simp [List.getElem?_eq_getElem hi]

end Amshan.GenLemmas
