import Amshan.Lemmas.HdlcClean
import Amshan.Lemmas.HdlcCarve
import Amshan.Lemmas.HdlcBound
/-
  Lifting statements about the octet-at-a-time machine `run` to the entry point `read()`:
  any reader reachable by `read()` calls on byte strings, any further list of chunks (any splitting
  of the stream, empty chunks included).  The concatenation of the frame lists returned by the
  successive calls is `(readAll cfg r cs).2.flatten`.
-/
namespace Amshan.Hdlc
open Amshan.Gen Amshan.HdlcSpec

/-- readers reachable from a new reader by `read()` calls on byte strings (every element `< 256`, as
    for Python `bytes`) -/
def ReachableOct (cfg : Cfg) (r : Reader) : Prop :=
  ∃ chunks : List (List Nat), Octets chunks.flatten ∧ r = (readAll cfg Reader.init chunks).1

theorem Octets_nil' : Octets [] := by intro b hb; simp at hb

theorem Octets_append' {a b : List Nat} (ha : Octets a) (hb : Octets b) : Octets (a ++ b) := by
  intro x hx
  rcases List.mem_append.mp hx with hx | hx
  · exact ha x hx
  · exact hb x hx

/-- a new reader is reachable (by no call at all) -/
theorem ReachableOct.init (cfg : Cfg) : ReachableOct cfg Reader.init := ⟨[], Octets_nil', rfl⟩

theorem ReachableOct.reachable {cfg : Cfg} {r : Reader} (h : ReachableOct cfg r) : Reachable cfg r := by
  obtain ⟨cs, _, e⟩ := h
  exact ⟨cs, e⟩

theorem ReachableOct.buf_empty {cfg : Cfg} {r : Reader} (h : ReachableOct cfg r) : r.buf = Buf.empty :=
  h.reachable.buf_empty

/-- the frame under construction of such a reader satisfies the frame invariant -/
theorem ReachableOct.coreInv {cfg : Cfg} {r : Reader} (h : ReachableOct cfg r) : CoreInv r.core := by
  obtain ⟨cs, ho, rfl⟩ := h
  rw [readAll_core cfg Reader.init cs Reader.init_buf]
  exact (run_inv cfg Core.init cs.flatten CoreInv_init ho).2

/-- `readAll` over a concatenated list of chunks: first part, then the second from where the first ended -/
theorem readAll_append (cfg : Cfg) (r : Reader) (a b : List (List Nat)) :
    readAll cfg r (a ++ b) =
      ((readAll cfg (readAll cfg r a).1 b).1,
       (readAll cfg r a).2 ++ (readAll cfg (readAll cfg r a).1 b).2) := by
  induction a generalizing r with
  | nil => simp only [List.nil_append, readAll_nil]
  | cons ch chs ih => simp only [List.cons_append, readAll_cons, ih]

/-- more `read()` calls keep a reader reachable -/
theorem Reachable.readAll {cfg : Cfg} {r : Reader} (h : Reachable cfg r) (cs : List (List Nat)) :
    Reachable cfg (readAll cfg r cs).1 := by
  obtain ⟨hist, rfl⟩ := h
  exact ⟨hist ++ cs, by rw [readAll_append]⟩

theorem ReachableOct.readAll {cfg : Cfg} {r : Reader} (h : ReachableOct cfg r) (cs : List (List Nat))
    (hcs : Octets cs.flatten) : ReachableOct cfg (readAll cfg r cs).1 := by
  obtain ⟨hist, hh, rfl⟩ := h
  exact ⟨hist ++ cs, by rw [List.flatten_append]; exact Octets_append' hh hcs, by rw [readAll_append]⟩

/-- **the bridge**: for a reachable reader, the frames returned by any sequence of `read()` calls are
    the frames of one `run` of the octet machine over the concatenated chunks. -/
theorem Reachable.frames_eq_run {cfg : Cfg} {r : Reader} (h : Reachable cfg r) (cs : List (List Nat)) :
    (Hdlc.readAll cfg r cs).2.flatten = (run cfg r.core cs.flatten).2 :=
  readAll_frames cfg r cs h.buf_empty

theorem ReachableOct.frames_eq_run {cfg : Cfg} {r : Reader} (h : ReachableOct cfg r) (cs : List (List Nat)) :
    (Hdlc.readAll cfg r cs).2.flatten = (run cfg r.core cs.flatten).2 :=
  h.reachable.frames_eq_run cs

/-- every frame returned by `read()` calls on byte strings satisfies the frame invariant -/
theorem ReachableOct.frames_inv {cfg : Cfg} {r : Reader} (h : ReachableOct cfg r) (cs : List (List Nat))
    (hcs : Octets cs.flatten) : ∀ f ∈ (Hdlc.readAll cfg r cs).2.flatten, FrameInv f := by
  rw [h.frames_eq_run cs]
  exact (run_inv cfg r.core cs.flatten h.coreInv hcs).1

end Amshan.Hdlc

namespace Amshan.HdlcClean
open Amshan.Gen Amshan.Hdlc Amshan.HdlcSpec

/-- C02 for the octet machine from a reader that is hunting (any flag-free noise first) or that is at
    the start of a frame (just after a flag; no noise) -/
theorem clean_run_from (cfg : Cfg) (c : Core) (noise : List Nat) (fs : List (FrameDesc × Nat))
    (closing : Nat)
    (hc : c.frame = none ∨ (noise = [] ∧ ∃ u raw, c = st u raw []))
    (hnoise : flag ∉ noise)
    (hfs : ∀ p ∈ fs, p.1.WF ∧ 1 ≤ p.2 ∧ InDomain cfg.stuffing cfg.abort p.1)
    (hcl : 1 ≤ closing) :
    (run cfg c (wire cfg.stuffing noise fs closing)).2 = fs.map (fun p => expectedFrame p.1) := by
  rw [wire_eq_shifted _ _ _ _ (fun p hp => (hfs p hp).2.1) hcl, run_append]
  rcases hc with hc | ⟨hn, u, raw, hc⟩
  · rw [run_hunt_noflag cfg c noise hc (by rw [← flag_eq]; exact hnoise), run_cons,
      step_hunt_flag cfg c hc,
      run_shifted_fresh cfg fs _ (fun p hp => ⟨(hfs p hp).1, (hfs p hp).2.2⟩)]
    rfl
  · subst hn hc
    rw [run_nil, run_cons, step_empty_flag,
      run_shifted_fresh cfg fs _ (fun p hp => ⟨(hfs p hp).1, (hfs p hp).2.2⟩)]
    rfl

/-- a reader core satisfying the invariant whose frame in progress is empty is `st u raw []` -/
theorem core_empty_shape (c : Core) (hc : CoreInv c) (f : Frame) (hf : c.frame = some f)
    (h0 : f.len = 0) : c = st c.unescapeNext c.raw [] := by
  rcases core_shape c hc with h | ⟨p, _, h⟩
  · rw [h] at hf; cases hf
  · have hp : p = [] := by
      have e : c.frame = some (mk p) := by rw [h]; rfl
      rw [hf] at e
      have : f = mk p := Option.some.inj e
      rw [this, mk_len] at h0
      exact List.length_eq_zero_iff.mp h0
    rw [hp] at h
    exact h

end Amshan.HdlcClean
