import Amshan.Model.ConnMgr
/-
  Lemmas for C17: one inductive invariant `Inv` of the ConnectionManager transition system
  (`ConnMgr.next`), its preservation by every label, and the characterisation of the transitions
  that emit an `attempt` event.
-/
namespace Amshan.ConnMgr
open Amshan.BackOff

/-- the inductive invariant -/
structure Inv (s : S) : Prop where
  live1 : s.live = [] ∨ ∃ c, s.live = [c] ∧ s.conn = some c
  connLD : ∀ c, s.conn = some c → c ∈ s.live ∨ c ∈ s.doneSet
  connPh : ∀ c, s.conn = some c → s.t = .finished ∧ (s.lpc = .w1 ∨ s.lpc = .w2)
  doneLt : ∀ c ∈ s.doneSet, c < s.nextId
  liveND : ∀ c ∈ s.live, c ∉ s.doneSet
  liveLt : ∀ c ∈ s.live, c < s.nextId
  pcStart : s.lpc = .start → s.t = .none ∧ s.waiters = 0
  pcW1 : s.lpc = .w1 → s.waiters = 1 ∧ s.t ≠ .none
  pcW2 : s.lpc = .w2 → s.waiters = 1 ∧ s.t = .finished ∧ (s.conn = none ↔ s.closing = true)
  pcEx : s.lpc = .exited → s.waiters = 0 ∧ (s.t = .none ∨ s.t = .finished ∨ s.cancelReq = true)
  cancelEx : s.cancelReq = true → s.lpc = .exited

theorem inv_lRun (s s' : S) (hi : Inv s) (h : next s .lRun = some s') : Inv s' := by
  obtain ⟨h1,h2,h3,h4,h5,h5',h6,h7,h8,h9,h10⟩ := hi
  obtain ⟨now, closing, conn, lpc, t, cancelReq, backoff, breaker, nextId, live, doneSet, waiters, log⟩ := s
  simp only at h1 h2 h3 h4 h5 h5' h6 h7 h8 h9 h10
  cases lpc <;> cases conn <;> cases closing <;>
    simp [next, topLogic, S.emit, closeTransport] at h
  all_goals first
    | (subst h; constructor <;> simp_all <;> grind)
    | (obtain ⟨hc, h⟩ := h; subst h; constructor <;> simp_all <;> grind)
    | skip

theorem inv_tRun (s s' : S) (hi : Inv s) (h : next s .tRun = some s') : Inv s' := by
  obtain ⟨h1,h2,h3,h4,h5,h5',h6,h7,h8,h9,h10⟩ := hi
  obtain ⟨now, closing, conn, lpc, t, cancelReq, backoff, breaker, nextId, live, doneSet, waiters, log⟩ := s
  simp only at h1 h2 h3 h4 h5 h5' h6 h7 h8 h9 h10
  cases t <;> cases cancelReq <;> cases closing <;>
    simp [next, afterSleep, S.emit] at h
  all_goals first
    | (subst h; constructor <;> simp_all <;> grind)
    | (obtain ⟨hc, h⟩ := h; subst h; constructor <;> simp_all <;> grind)
    | (split at h <;> simp at h <;> subst h <;> constructor <;> simp_all <;> grind)
    | skip

theorem inv_factoryOk (s s' : S) (hi : Inv s) (h : next s .factoryOk = some s') : Inv s' := by
  obtain ⟨h1,h2,h3,h4,h5,h5',h6,h7,h8,h9,h10⟩ := hi
  obtain ⟨now, closing, conn, lpc, t, cancelReq, backoff, breaker, nextId, live, doneSet, waiters, log⟩ := s
  simp only at h1 h2 h3 h4 h5 h5' h6 h7 h8 h9 h10
  simp [next, S.emit] at h
  obtain ⟨⟨ht, hc⟩, h⟩ := h; subst h; subst ht; subst hc
  cases conn <;> cases lpc <;> constructor <;> simp_all <;> grind

theorem inv_factoryFail (s s' : S) (hi : Inv s) (h : next s .factoryFail = some s') : Inv s' := by
  obtain ⟨h1,h2,h3,h4,h5,h5',h6,h7,h8,h9,h10⟩ := hi
  obtain ⟨now, closing, conn, lpc, t, cancelReq, backoff, breaker, nextId, live, doneSet, waiters, log⟩ := s
  simp only at h1 h2 h3 h4 h5 h5' h6 h7 h8 h9 h10
  simp [next, S.emit] at h
  obtain ⟨⟨ht, hc⟩, h⟩ := h; subst h; subst ht; subst hc
  cases conn <;> cases lpc <;> constructor <;> simp_all <;> grind

theorem inv_lose (s s' : S) (hi : Inv s) (h : next s .lose = some s') : Inv s' := by
  obtain ⟨h1,h2,h3,h4,h5,h5',h6,h7,h8,h9,h10⟩ := hi
  obtain ⟨now, closing, conn, lpc, t, cancelReq, backoff, breaker, nextId, live, doneSet, waiters, log⟩ := s
  simp only at h1 h2 h3 h4 h5 h5' h6 h7 h8 h9 h10
  cases conn <;> simp [next, S.emit] at h
  obtain ⟨hc, h⟩ := h; subst h
  constructor <;> simp_all <;> grind

theorem inv_close (s s' : S) (hi : Inv s) (h : next s .close = some s') : Inv s' := by
  obtain ⟨h1,h2,h3,h4,h5,h5',h6,h7,h8,h9,h10⟩ := hi
  obtain ⟨now, closing, conn, lpc, t, cancelReq, backoff, breaker, nextId, live, doneSet, waiters, log⟩ := s
  simp only at h1 h2 h3 h4 h5 h5' h6 h7 h8 h9 h10
  cases conn <;> simp [next, S.emit, closeTransport] at h
  · subst h; constructor <;> simp_all
  · split at h <;> subst h <;> constructor <;> simp_all <;> grind


theorem inv_init (md th sl : Nat) : Inv (S.init md th sl) := by
  constructor <;> simp [S.init]

theorem inv_tick (s s' : S) (d : Nat) (hi : Inv s) (h : next s (.tick d) = some s') : Inv s' := by
  simp only [next, Option.some.injEq] at h
  subst h
  obtain ⟨h1,h2,h3,h4,h5,h5',h6,h7,h8,h9,h10⟩ := hi
  constructor <;> simpa

theorem inv_step (s s' : S) (l : Label) (hi : Inv s) (h : next s l = some s') : Inv s' := by
  cases l with
  | lRun => exact inv_lRun s s' hi h
  | tRun => exact inv_tRun s s' hi h
  | factoryOk => exact inv_factoryOk s s' hi h
  | factoryFail => exact inv_factoryFail s s' hi h
  | lose => exact inv_lose s s' hi h
  | close => exact inv_close s s' hi h
  | tick d => exact inv_tick s s' d hi h

theorem reach_inv {md th sl : Nat} {s : S} (h : Reach md th sl s) : Inv s := by
  induction h with
  | init => exact inv_init md th sl
  | step s s' l _ hs ih => exact inv_step s s' l ih hs

/-- an `attempt` event is emitted only by a step of the connect task that is not a cancellation
    delivery, while `closing` is clear, from `created` (no back-off) or from an expired sleep -/
theorem attempt_emitted (s s' : S) (l : Label) (hs : next s l = some s')
    (ha : (s.now, Ev.attempt) ∈ s'.log.drop s.log.length) :
    l = .tRun ∧ s.cancelReq = false ∧ s.closing = false ∧
      ((s.t = .created ∧ getBackOffTime s.backoff s.breaker = 0) ∨ ∃ u, s.t = .sleeping u ∧ u ≤ s.now) := by
  obtain ⟨now, closing, conn, lpc, t, cancelReq, backoff, breaker, nextId, live, doneSet, waiters, log⟩ := s
  simp only at ha ⊢
  cases l with
  | lRun =>
    exfalso
    cases lpc <;> cases conn <;> cases closing <;>
      simp [next, topLogic, S.emit, closeTransport] at hs
    all_goals first
      | (subst hs; simp at ha)
      | (obtain ⟨hc, hs⟩ := hs; subst hs; simp at ha)
  | tRun =>
    cases t <;> cases cancelReq <;> cases closing <;>
      simp [next, afterSleep, S.emit] at hs
    all_goals first
      | (subst hs; simp at ha)
      | (obtain ⟨hc, hs⟩ := hs; subst hs; simp at ha ⊢ <;> omega)
      | (split at hs <;> simp at hs <;> subst hs <;> simp at ha ⊢ <;> omega)
  | factoryOk =>
    simp [next, S.emit] at hs
    obtain ⟨_, hs⟩ := hs; subst hs; simp at ha
  | factoryFail =>
    simp [next, S.emit] at hs
    obtain ⟨_, hs⟩ := hs; subst hs; simp at ha
  | lose =>
    cases conn <;> simp [next, S.emit] at hs
    obtain ⟨_, hs⟩ := hs; subst hs; simp at ha
  | close =>
    cases conn <;> simp [next, S.emit, closeTransport] at hs
    · subst hs; simp at ha
    · split at hs <;> subst hs <;> simp at ha
  | tick d =>
    simp [next] at hs
    subst hs; simp at ha

end Amshan.ConnMgr
