import Amshan.Lemmas.HdlcCleanResync
/-
  Clean-stream lemmas, part 5: resynchronisation without octet stuffing (C16, HDLC part).
  A garbage frame in progress swallows flags and frames until it is returned, dropped, or longer
  than the maximal frame length; from then on every frame is delivered.
-/
namespace Amshan.HdlcClean
open Amshan.Gen Amshan.Hdlc Amshan.HdlcSpec

/-! ### flag-free octets while a frame is in progress -/

theorem run_plain_noflag (cfg : Cfg) (hst : cfg.stuffing = false) (u : Bool) (q raw p : List Nat)
    (hq : flagOctet ∉ q) (hp : p.length ≤ 2047) :
    (p.length + q.length ≤ 2047 ∧ run cfg (st u raw p) q = (st u (raw ++ q) (p ++ q), [])) ∨
    ((run cfg (st u raw p) q).1.frame = none ∧ (run cfg (st u raw p) q).2 = []) := by
  induction q generalizing raw p with
  | nil => left; exact ⟨by simpa using hp, by simp⟩
  | cons x xs ih =>
    have hx : x ≠ flagOctet := fun e => hq (by simp [e])
    have hxs : flagOctet ∉ xs := fun h => hq (by simp [h])
    rw [run_cons]
    by_cases hl : p.length < 2047
    · rw [step_plain cfg hst u raw p x hx hl]
      simp only [List.nil_append]
      rcases ih (raw ++ [x]) (p ++ [x]) hxs (by simp; omega) with ⟨h1, h2⟩ | h
      · left
        refine ⟨by simp at h1 ⊢; omega, ?_⟩
        rw [h2]; simp
      · right; exact h
    · right
      obtain ⟨h1, h2⟩ := step_plain_overflow cfg hst u raw p x hx hl
      rw [h2, run_hunt_noflag cfg _ xs h1 hxs]
      exact ⟨h1, rfl⟩

/-! ### one block: remaining fill flags, a frame, its closing flag -/

/-- the block of a frame in the shifted stream -/
def block (m : Nat) (d : FrameDesc) : List Nat :=
  List.replicate m flagOctet ++ (d.encode ++ [flagOctet])

theorem block_length (m : Nat) (d : FrameDesc) : (block m d).length = m + d.encode.length + 1 := by
  simp [block]; omega

theorem block_succ (m : Nat) (d : FrameDesc) : block (m + 1) d = flagOctet :: block m d := by
  simp [block, List.replicate_succ]

/-- frames of the plain resynchronisation theorem -/
def PlainOK (cfg : Cfg) (d : FrameDesc) : Prop :=
  d.WF ∧ flag ∉ d.encode ∧ (cfg.abort = true → d.encode.getLast? ≠ some esc)

theorem PlainOK.inDomain {cfg : Cfg} {d : FrameDesc} (h : PlainOK cfg d) :
    InDomain cfg.stuffing cfg.abort d := by
  right
  exact ⟨fun hm => h.2.1 (List.mem_of_mem_take hm), fun ha => esc_before_of_noflag _ h.2.1 (h.2.2 ha)⟩

theorem block_from_empty (cfg : Cfg) (hst : cfg.stuffing = false) (d : FrameDesc) (h : PlainOK cfg d)
    (m : Nat) (u : Bool) (raw : List Nat) :
    run cfg (st u raw []) (block m d) = (fresh, [expectedFrame d]) := by
  have hdom := h.inDomain
  rcases hdom with hd | hd
  · rw [hst] at hd; cases hd
  cases m with
  | zero =>
    simp only [block, List.replicate_zero, List.nil_append]
    exact one_frame_plain cfg hst d h.1 hd.1 hd.2 u raw
  | succ m =>
    rw [block_succ, run_cons, step_empty_flag, block, run_append, run_fresh_flags]
    simp only [List.nil_append]
    exact one_frame_plain cfg hst d h.1 hd.1 hd.2 false []

theorem block_from_fresh (cfg : Cfg) (hst : cfg.stuffing = false) (d : FrameDesc) (h : PlainOK cfg d)
    (m : Nat) : run cfg fresh (block m d) = (fresh, [expectedFrame d]) :=
  block_from_empty cfg hst d h m false []

theorem block_from_hunt (cfg : Cfg) (hst : cfg.stuffing = false) (d : FrameDesc) (h : PlainOK cfg d)
    (m : Nat) (c : Core) (hc : c.frame = none) :
    run cfg c (block m d) = (fresh, if m = 0 then [] else [expectedFrame d]) := by
  cases m with
  | zero =>
    simp only [block, List.replicate_zero, List.nil_append, if_true]
    rw [run_append, run_hunt_noflag cfg c _ hc (by rw [← flag_eq]; exact h.2.1), run_cons,
      step_hunt_flag cfg c hc]
    rfl
  | succ m =>
    rw [block_succ, run_cons, step_hunt_flag cfg c hc]
    dsimp only
    rw [block_from_fresh cfg hst d h m]
    simp

/-- a garbage frame in progress meets a block: the frame of the block is delivered, or the reader
    ends at the start of a frame or hunting, or the whole block is swallowed -/
theorem block_cases (cfg : Cfg) (hst : cfg.stuffing = false) (d : FrameDesc) (h : PlainOK cfg d)
    (m : Nat) (u : Bool) (raw p : List Nat) (hp : p ≠ []) (hl : p.length ≤ 2047) :
    (∃ junk, run cfg (st u raw p) (block m d) = (fresh, junk ++ [expectedFrame d])) ∨
    ((run cfg (st u raw p) (block m d)).1 = fresh ∨ (run cfg (st u raw p) (block m d)).1.frame = none) ∨
    (run cfg (st u raw p) (block m d) = (st u (raw ++ block m d) (p ++ block m d), []) ∧
      p.length + (block m d).length ≤ 2047) := by
  induction m generalizing raw p with
  | zero =>
    have hnf : flagOctet ∉ d.encode := by rw [← flag_eq]; exact h.2.1
    simp only [block, List.replicate_zero, List.nil_append]
    rw [run_append]
    rcases run_plain_noflag cfg hst u d.encode raw p hnf hl with ⟨h1, h2⟩ | ⟨h1, h2⟩
    · rw [h2]
      simp only [List.nil_append, run_cons, run_nil, List.append_nil]
      have hne : p ++ d.encode ≠ [] := by simp [hp]
      rcases step_flag_cases cfg u (raw ++ d.encode) (p ++ d.encode) hne with h3 | h3 | h3
      · right; left; left; rw [h3]
      · right; left; right; exact h3.1
      · right; right
        rw [h3.2.2]
        simp only [List.append_assoc, List.length_append, List.length_cons, List.length_nil, true_and]
        have := h3.2.1
        simp only [List.length_append] at this
        omega
    · right; left; left
      simp only [run_cons, run_nil]
      rw [step_hunt_flag cfg _ h1]
  | succ m ih =>
    rw [block_succ, run_cons]
    rcases step_flag_cases cfg u raw p hp with h3 | h3 | h3
    · left
      rw [h3]
      dsimp only
      rw [block_from_fresh cfg hst d h m]
      exact ⟨[mk p], rfl⟩
    · rw [h3.2, block_from_hunt cfg hst d h m _ h3.1]
      by_cases hm : m = 0
      · right; left; left; rfl
      · left; exact ⟨[], by simp [hm]⟩
    · rw [h3.2.2]
      have hne : p ++ [flagOctet] ≠ [] := by simp
      have hl' : (p ++ [flagOctet]).length ≤ 2047 := by simp; omega
      rcases ih (raw ++ [flagOctet]) (p ++ [flagOctet]) hne hl' with ⟨junk, h4⟩ | h4 | ⟨h4, h5⟩
      · left; exact ⟨junk, by rw [h4]; rfl⟩
      · right; left; exact h4
      · right; right
        rw [h4]
        simp only [List.append_assoc, List.cons_append, List.nil_append, List.length_cons,
          List.length_append, List.length_nil] at h5 ⊢
        exact ⟨trivial, by omega⟩

/-! ### the whole stream -/

theorem shifted_cons_block (d : FrameDesc) (n : Nat) (fs : List (FrameDesc × Nat)) (k : Nat) :
    shifted false ((d, n) :: fs) k = block (n - 1) d ++ shifted false fs k := by
  rw [shifted_cons]; rfl

/-- wire length of a frame with its fill -/
def wl (p : FrameDesc × Nat) : Nat := p.2 + p.1.encode.length

theorem sum_take_le (fs : List (FrameDesc × Nat)) (L : Nat) (hL : ∀ p ∈ fs, wl p ≤ L) (j : Nat) :
    ((fs.take j).map wl).sum ≤ j * L := by
  induction fs generalizing j with
  | nil => simp
  | cons a t ih =>
    cases j with
    | zero => simp
    | succ j =>
      simp only [List.take_succ_cons, List.map_cons, List.sum_cons]
      have h1 := hL a (by simp)
      have h2 := ih (fun p hp => hL p (by simp [hp])) j
      rw [Nat.succ_mul]; omega

theorem run_shifted_garbage (cfg : Cfg) (hst : cfg.stuffing = false) (L k : Nat)
    (fs : List (FrameDesc × Nat))
    (hfs : ∀ q ∈ fs, PlainOK cfg q.1 ∧ 1 ≤ q.2 ∧ wl q ≤ L)
    (u : Bool) (raw p : List Nat) (hp : p ≠ []) (hl : p.length ≤ 2047) :
    ∃ junk j, (run cfg (st u raw p) (shifted false fs k)).2 =
        junk ++ (fs.drop j).map (fun q => expectedFrame q.1) ∧
      ((fs.take j).map wl).sum + p.length ≤ 2047 + L + L := by
  induction fs generalizing raw p with
  | nil => exact ⟨(run cfg (st u raw p) (shifted false [] k)).2, 0, by simp, by simp; omega⟩
  | cons a fs ih =>
    obtain ⟨d, n⟩ := a
    have hd := hfs (d, n) (by simp)
    have hrest : ∀ q ∈ fs, PlainOK cfg q.1 ∧ 1 ≤ q.2 ∧ wl q ≤ L := fun q hq => hfs q (by simp [hq])
    have hdomr : ∀ q ∈ fs, q.1.WF ∧ InDomain cfg.stuffing cfg.abort q.1 :=
      fun q hq => ⟨(hrest q hq).1.1, (hrest q hq).1.inDomain⟩
    have hwl : wl (d, n) ≤ L := hd.2.2
    have hfresh := run_shifted_fresh cfg fs k hdomr
    rw [hst] at hfresh
    rw [shifted_cons_block, run_append]
    rcases block_cases cfg hst d hd.1 (n - 1) u raw p hp hl with ⟨junk, h1⟩ | h1 | ⟨h1, h2⟩
    · refine ⟨junk, 0, ?_, by simp; omega⟩
      rw [h1, hfresh]
      simp
    · generalize (run cfg (st u raw p) (block (n - 1) d)).2 = o1 at *
      rcases h1 with h1 | h1
      · refine ⟨o1, 1, ?_, ?_⟩
        · rw [h1, hfresh]; simp
        · simp only [List.take_succ_cons, List.take_zero, List.map_cons, List.map_nil, List.sum_cons,
            List.sum_nil]
          omega
      · have hdomh : ∀ q ∈ fs, q.1.WF ∧ InDomain cfg.stuffing cfg.abort q.1 ∧
            flagOctet ∉ onWire cfg.stuffing q.1 := by
          intro q hq
          refine ⟨(hrest q hq).1.1, (hrest q hq).1.inDomain, ?_⟩
          rw [hst, ← flag_eq]; exact (hrest q hq).1.2.1
        obtain ⟨j, hj, e⟩ := run_shifted_hunt cfg _ h1 fs k hdomh
        rw [hst] at e
        refine ⟨o1, j + 1, ?_, ?_⟩
        · rw [e]; simp
        · have := sum_take_le ((d, n) :: fs) L (fun q hq => (hfs q hq).2.2) (j + 1)
          have : (j + 1) * L ≤ 2 * L := Nat.mul_le_mul_right L (by omega)
          omega
    · have hne : p ++ block (n - 1) d ≠ [] := by simp [hp]
      have hl' : (p ++ block (n - 1) d).length ≤ 2047 := by simpa using h2
      obtain ⟨junk, j, e, hb⟩ := ih hrest (raw ++ block (n - 1) d) (p ++ block (n - 1) d) hne hl'
      refine ⟨junk, j + 1, ?_, ?_⟩
      · rw [h1, e]; simp
      · simp only [List.take_succ_cons, List.map_cons, List.sum_cons]
        simp only [List.length_append, block_length] at hb
        have : wl (d, n) = n + d.encode.length := rfl
        have := hd.2.1
        omega

/-- **C16 without stuffing, for the octet machine.** -/
theorem resync_plain_run (cfg : Cfg) (hst : cfg.stuffing = false) (pre : List Nat)
    (hpre : Octets pre) (fs : List (FrameDesc × Nat)) (closing L : Nat)
    (hfs : ∀ p ∈ fs, p.1.WF ∧ 1 ≤ p.2 ∧ flag ∉ p.1.encode ∧
      (cfg.abort = true → p.1.encode.getLast? ≠ some esc) ∧ p.2 + p.1.encode.length ≤ L)
    (hcl : 1 ≤ closing) :
    ∃ junk k, (run cfg Core.init (pre ++ wire false [] fs closing)).2 =
        junk ++ (fs.drop k).map (fun p => expectedFrame p.1) ∧
      ((fs.take k).map (fun p => p.2 + p.1.encode.length)).sum ≤ maxFrameLen + L + L := by
  have hc0 : CoreInv (run cfg Core.init pre).1 := (run_inv cfg Core.init pre CoreInv_init hpre).2
  have hok : ∀ q ∈ fs, PlainOK cfg q.1 ∧ 1 ≤ q.2 ∧ wl q ≤ L := fun q hq =>
    ⟨⟨(hfs q hq).1, (hfs q hq).2.2.1, (hfs q hq).2.2.2.1⟩, (hfs q hq).2.1, (hfs q hq).2.2.2.2⟩
  have hdom : ∀ q ∈ fs, q.1.WF ∧ InDomain cfg.stuffing cfg.abort q.1 ∧
      flagOctet ∉ onWire cfg.stuffing q.1 := by
    intro q hq
    refine ⟨(hok q hq).1.1, (hok q hq).1.inDomain, ?_⟩
    rw [hst, ← flag_eq]; exact (hok q hq).1.2.1
  have hfresh := run_shifted_fresh cfg fs (closing - 1) (fun q hq => ⟨(hdom q hq).1, (hdom q hq).2.1⟩)
  rw [hst] at hfresh
  have hwl : (fun p : FrameDesc × Nat => p.2 + p.1.encode.length) = wl := rfl
  rw [wire_eq_shifted _ _ _ _ (fun p hp => (hfs p hp).2.1) hcl, List.nil_append, run_append, run_cons,
    hwl, maxFrameLen_val]
  generalize (run cfg Core.init pre).2 = o0
  -- the first flag
  have key : ∀ c1 : Core, (c1 = fresh ∨ c1.frame = none ∨
      ∃ u raw p, c1 = st u raw p ∧ p ≠ [] ∧ p.length ≤ 2047) →
      ∃ junk k, (run cfg c1 (shifted false fs (closing - 1))).2 =
          junk ++ (fs.drop k).map (fun p => expectedFrame p.1) ∧
        ((fs.take k).map wl).sum ≤ 2047 + L + L := by
    intro c1 hc1
    rcases hc1 with h | h | ⟨u, raw, p, h, hp, hl⟩
    · exact ⟨[], 0, by rw [h, hfresh]; simp, by simp⟩
    · obtain ⟨j, hj, e⟩ := run_shifted_hunt cfg c1 h fs (closing - 1) hdom
      rw [hst] at e
      refine ⟨[], j, by rw [e]; simp, ?_⟩
      have := sum_take_le fs L (fun q hq => (hok q hq).2.2) j
      have : j * L ≤ 1 * L := Nat.mul_le_mul_right L hj
      omega
    · obtain ⟨junk, j, e, hb⟩ := run_shifted_garbage cfg hst L (closing - 1) fs hok u raw p hp hl
      exact ⟨junk, j, by rw [h, e], by omega⟩
  have hfirst : ((stepOctet cfg (run cfg Core.init pre).1 flagOctet).1 = fresh ∨
      (stepOctet cfg (run cfg Core.init pre).1 flagOctet).1.frame = none ∨
      ∃ u raw p, (stepOctet cfg (run cfg Core.init pre).1 flagOctet).1 = st u raw p ∧ p ≠ [] ∧
        p.length ≤ 2047) := by
    rcases core_shape _ hc0 with h | ⟨p, _, h⟩
    · left; rw [step_hunt_flag cfg _ h]
    · rw [h]
      by_cases hp : p = []
      · subst hp; left; rw [step_empty_flag]
      · rcases step_flag_cases cfg _ _ p hp with h1 | h1 | h1
        · left; rw [h1]
        · right; left; exact h1.1
        · right; right
          rw [h1.2.2]
          exact ⟨_, _, _, rfl, by simp, by simp; omega⟩
  obtain ⟨junk, k, e, hb⟩ := key _ hfirst
  generalize (stepOctet cfg (run cfg Core.init pre).1 flagOctet).2 = o1 at *
  exact ⟨o0 ++ (o1 ++ junk), k, by rw [e]; simp, hb⟩

end Amshan.HdlcClean
