import Amshan.Lemmas.GenCodeBase
import Amshan.GeneratedCodeFcs
import Amshan.Model.Fcs
/- Per-property part of the GeneratedCode equivalence lemmas (split so that a change to one translated
   function only breaks the proofs of the property that function belongs to). -/
namespace Amshan.GenLemmas
open Amshan.GenCode Amshan.Gen

/-! ### fastframecheck -/

/-- the table generator of the source, evaluated by the kernel (256 × 8 iterations) -/
theorem computeFcsTable_eq : computeFcsTable = fcsTable := by
  set_option maxRecDepth 8192 in decide +kernel


theorem fcsNext_eq (crc byte : Nat) : fcsNext crc byte = Fcs.next crc byte := rfl

theorem fcsChecksum_eq (r : Nat) : fcsChecksum r = Fcs.checksum r := rfl

theorem fcsIsGood_eq (r : Nat) : fcsIsGood r = Fcs.isGood r := rfl

/-- the model's loop, inside the data, as a fold over the indices -/
theorem computeLoop_eq_foldl (data : List Nat) (n i fcs : Nat) (h : i + n ≤ data.length) :
    Fcs.computeLoop data i n fcs =
      .ok ((List.range' i n).foldl (fun c j => Fcs.next c (data.getD j 0)) fcs) := by
  induction n generalizing i fcs with
  | zero => rfl
  | succ n ih =>
    have hi : i < data.length := by omega
    simp only [Fcs.computeLoop, List.getElem?_eq_getElem hi]
    rw [ih (i + 1) _ (by omega)]
    simp [List.range'_succ, Fcs.next, List.getD_eq_getElem?_getD, List.getElem?_eq_getElem hi]

theorem fcsComputeChecksum_eq (data : List Nat) (start len : Nat) (h : start + len ≤ data.length) :
    Fcs.computeChecksum data start len = .ok (fcsComputeChecksum data start len) := by
  unfold Fcs.computeChecksum
  rw [computeLoop_eq_foldl data len start fcsInit h]
  have : fcsComputeChecksum data start len =
      (List.range' start len).foldl (fun c j => Fcs.next c (data.getD j 0)) fcsInit ^^^ 65535 := by
    unfold fcsComputeChecksum
    show Prod.fst (Id.run (forIn _ _ _)) ^^^ _ = _
    rw [forIn_range_proj Prod.fst (fun c j => Fcs.next c (data.getD j 0))]
    · simp
    · intro i s; exact ⟨_, rfl, rfl⟩
  rw [this]

end Amshan.GenLemmas
