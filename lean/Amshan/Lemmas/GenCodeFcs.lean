import Amshan.Lemmas.GenCodeBase
import Amshan.GeneratedCodeFcs
import Amshan.Model.Fcs
/- Per-property part of the GeneratedCode equivalence lemmas (split so that a change to one translated
   function only breaks the proofs of the property that function belongs to).

   The proofs are semantic: the generated definition is unfolded and the statement is decided (`grind`: `if`s,
   Booleans, arithmetic, commutativity of the bit operators), loops are compared step by step
   (`foldl_step_eq`), the table generator is evaluated by the kernel. -/
set_option linter.unusedSimpArgs false   -- simp sets are deliberately wider than one spelling of the source needs
namespace Amshan.GenLemmas
open Amshan.GenCode Amshan.Gen

/-! ### fastframecheck -/

/-- the table generator of the source, evaluated by the kernel (256 × 8 iterations) -/
theorem computeFcsTable_eq : computeFcsTable = fcsTable := by
  set_option maxRecDepth 8192 in decide +kernel

theorem fcsNext_eq (crc byte : Nat) : fcsNext crc byte = Fcs.next crc byte := by
  unfold fcsNext Fcs.next; gen_decide

theorem fcsChecksum_eq (r : Nat) : fcsChecksum r = Fcs.checksum r := by
  unfold fcsChecksum Fcs.checksum fcsComplement; gen_decide

theorem fcsIsGood_eq (r : Nat) : fcsIsGood r = Fcs.isGood r := by
  unfold fcsIsGood Fcs.isGood; gen_decide

/-- the model's loop, inside the data, as a fold over the indices -/
theorem computeLoop_eq_foldl (data : List Nat) (n i fcs : Nat) (h : i + n ≤ data.length) :
    Fcs.computeLoop data i n fcs = .ok (Fcs.feed fcs ((List.range' i n).map (fun j => data.getD j 0))) := by
  induction n generalizing i fcs with
  | zero => rfl
  | succ n ih =>
    have hi : i < data.length := by omega
    simp only [Fcs.computeLoop, List.getElem?_eq_getElem hi]
    rw [ih (i + 1) _ (by omega)]
    simp [Fcs.feed, List.range'_succ, Fcs.next, List.getD_eq_getElem?_getD, List.getElem?_eq_getElem hi]

/-- the indices `start .. start + n - 1` as offsets from `start` -/
theorem range'_eq_map_offset (start n : Nat) : List.range' start n = (List.range' 0 n).map (fun i => i + start) := by
  rw [List.range'_eq_map_range, ← List.range_eq_range']
  exact List.map_congr_left (fun i _ => Nat.add_comm _ _)

theorem fcsComputeChecksum_eq (data : List Nat) (start len : Nat) (h : start + len ≤ data.length) :
    Fcs.computeChecksum data start len = .ok (fcsComputeChecksum data start len) := by
  unfold Fcs.computeChecksum
  rw [computeLoop_eq_foldl data len start fcsInit h]
  have key : fcsComputeChecksum data start len
      = Fcs.feed fcsInit ((List.range' start len).map (fun j => data.getD j 0)) ^^^ 0xFFFF := by
    unfold fcsComputeChecksum
    try simp only [Nat.add_sub_cancel, Nat.add_sub_cancel_left]
    first
    | -- the source loops over the indices start .. start + length - 1
      (rw [foldl_step_eq (g := fun c j => Fcs.next c (data.getD j 0))]
       · simp only [Fcs.feed, List.foldl_map] <;> gen_decide
       · intro c j; (try simp only [fcsNext_eq]) <;> (try unfold Fcs.next) <;> gen_decide)
    | -- the source loops over the offsets 0 .. length - 1
      (rw [foldl_step_eq (g := fun c i => Fcs.next c (data.getD (i + start) 0))]
       · simp only [Fcs.feed, List.foldl_map, range'_eq_map_offset start len, List.map_map, Function.comp_def] <;> gen_decide
       · intro c j; (try simp only [fcsNext_eq]) <;> (try unfold Fcs.next) <;> gen_decide)
  rw [key]

end Amshan.GenLemmas
