import Amshan.Model.Kaifa
import Amshan.Spec.Lists
import Amshan.Lemmas.CosemDT
/-
  Lemmas for C08: round trip of the Kaifa positional and OBIS-tagged lists.
-/
namespace Amshan.KaifaRT
open Amshan.Gen Amshan.Cosem Amshan.ListSpec Amshan.CosemDT

/-! ### integer codecs -/

theorem u32_be32 (v : Nat) (h : v < 4294967296) (r : List Nat) : u32 (be32 v ++ r) = .ok v r := by
  simp only [be32, List.cons_append, List.nil_append, u32]
  congr 1
  omega

theorem u16_be16 (v : Nat) (h : v < 65536) (r : List Nat) : u16 (be16 v ++ r) = .ok v r := by
  simp only [be16, List.cons_append, List.nil_append, u16]
  congr 1
  omega

theorem field_u32 (v : Nat) (h : v < 4294967296) (r : List Nat) :
    field ([6] ++ be32 v ++ r) = .ok (.int v) r := by
  simp only [List.cons_append, List.nil_append]
  unfold field
  simp only [u8_cons, bind_ok, tNull_eq, tInt8_eq, tInt16_eq, tU16_eq, tU32_eq]
  simp only [u32_be32 v h r, bind_ok]
  simp

theorem field_u16 (v : Nat) (h : v < 65536) (r : List Nat) :
    field ([18] ++ be16 v ++ r) = .ok (.int v) r := by
  simp only [List.cons_append, List.nil_append]
  unfold field
  simp only [u8_cons, bind_ok, tNull_eq, tInt8_eq, tInt16_eq, tU16_eq, tU32_eq]
  simp only [u16_be16 v h r, bind_ok]
  simp

/-! ### text -/

theorem printable_ascii {s : List Nat} (h : printable s) : isAsciiOctets s = true := by
  unfold isAsciiOctets
  rw [List.all_eq_true]
  intro c hc
  have := h c hc
  simp only [decide_eq_true_eq]; omega

def isNul (c : Nat) : Bool := c == 0

theorem rstrip_none (p : Nat → Bool) (s : List Nat) (h : ∀ c ∈ s, p c = false) :
    Py.rstripWith p s = s := by
  unfold Py.rstripWith
  have : s.reverse.dropWhile p = s.reverse := by
    cases hr : s.reverse with
    | nil => rfl
    | cons a t =>
      have ha : a ∈ s := by
        have : a ∈ s.reverse := by rw [hr]; exact List.mem_cons_self
        exact List.mem_reverse.mp this
      simp only [List.dropWhile_cons, h a ha]
      rfl
  rw [this, List.reverse_reverse]

theorem rstrip_printable {s : List Nat} (h : printable s) : Py.rstripWith (· == 0) s = s := by
  apply rstrip_none
  intro c hc
  have := h c hc
  simp only [beq_eq_false_iff_ne, ne_eq]; omega

theorem octetStringText_enc (s : List Nat) (hp : printable s) (r : List Nat) :
    octetStringText (s.length :: (s ++ r)) = .ok s r := by
  unfold octetStringText
  simp only [u8_cons, bind_ok, takeN_append s.length s r rfl, rstrip_printable hp, printable_ascii hp, if_true]

theorem visibleString_enc (s : List Nat) (hp : printable s) (r : List Nat) :
    visibleString (s.length :: (s ++ r)) = .ok s r := by
  unfold visibleString
  simp only [u8_cons, bind_ok, takeN_append s.length s r rfl, printable_ascii hp, if_true]

theorem mkDatetime_ok_month {y mo d : Nat} {h mi s hs : Option Nat} {dev : Option Int} {dt : DT}
    (e : mkDatetime y mo d h mi s hs dev = .ok dt) : mo ≤ 12 := by
  by_cases hm : mo ≤ 12
  · exact hm
  · exfalso
    unfold mkDatetime at e
    split at e
    · exact absurd e (by simp)
    · split at e
      · simp [hm] at e
      · exact absurd e (by simp)

theorem dateTime_ne_explicit (x : List Nat) : dateTime x ≠ .explicit := by
  unfold dateTime
  split
  · dsimp only
    split <;> simp
  · simp

/-- a successful `dateTime` saw the length octet 12 and a month octet ≤ 12 -/
theorem dateTime_ok_inv {x : List Nat} {d : DT} {r : List Nat} (e : dateTime x = .ok d r) :
    ∃ yh yl mo t, x = 12 :: yh :: yl :: mo :: t ∧ mo ≤ 12 := by
  unfold dateTime at e
  split at e
  · rename_i yh yl mo dd dow h mi s hs dh dl st rest
    dsimp only at e
    split at e
    · rename_i dt hm
      exact ⟨yh, yl, mo, _, rfl, mkDatetime_ok_month hm⟩
    · exact absurd e (by simp)
  · exact absurd e (by simp)

theorem dateTime_text_not_ok (s : List Nat) (hp : printable s) (r : List Nat) (d : DT) (r' : List Nat) :
    dateTime (s.length :: (s ++ r)) ≠ .ok d r' := by
  intro e
  obtain ⟨yh, yl, mo, t, hx, hmo⟩ := dateTime_ok_inv e
  have hl : s.length = 12 := by injection hx
  have ht : s ++ r = yh :: yl :: mo :: t := by injection hx
  match s, hl with
  | [a, b, c, d1, d2, d3, d4, d5, d6, d7, d8, d9], _ =>
    simp only [List.cons_append, List.cons.injEq] at ht
    have := hp c (by simp)
    omega

theorem field_octet_fallthrough (r : List Nat) (h : ∀ d r', dateTime r ≠ .ok d r') :
    field (9 :: r) = (octetStringText r).bind fun t r' => .ok (.str t) r' := by
  unfold field
  simp only [u8_cons, bind_ok, tNull_eq, tInt8_eq, tInt16_eq, tU16_eq, tU32_eq, tOctet_eq]
  cases hd : dateTime r with
  | ok d r' => exact absurd hd (h d r')
  | soft => simp
  | explicit => exact absurd hd (dateTime_ne_explicit r)
  | py e => simp

theorem field_text (s : List Nat) (hp : printable s) (r : List Nat) :
    field ([9, s.length] ++ s ++ r) = .ok (.str s) r := by
  simp only [List.cons_append, List.nil_append]
  rw [field_octet_fallthrough _ (dateTime_text_not_ok s hp r), octetStringText_enc s hp r, bind_ok]

theorem field_visible (s : List Nat) (hp : printable s) (r : List Nat) :
    field ([10, s.length] ++ s ++ r) = .ok (.str s) r := by
  simp only [List.cons_append, List.nil_append]
  unfold field
  simp only [u8_cons, bind_ok, tNull_eq, tInt8_eq, tInt16_eq, tU16_eq, tU32_eq, tOctet_eq, tVisible_eq]
  simp only [visibleString_enc s hp r, bind_ok]
  simp

/-! ### Kaifa values -/

def toField : KVal → FieldVal
  | .text s => .str s
  | .u32 v => .int v
  | .clock d => .dt (expectedDT d)

theorem field_encKVal (v : KVal) (h : v.WF) (r : List Nat) :
    field (encKVal v ++ r) = .ok (toField v) r := by
  cases v with
  | text s => exact field_text s h.1 r
  | u32 v => exact field_u32 v h r
  | clock d => exact datetime_in_field d h r

theorem fields_enc (vs : List KVal) (h : ∀ v ∈ vs, v.WF) (trail : List Nat) :
    Kaifa.fields vs.length (vs.flatMap encKVal ++ trail) = .ok (vs.map toField) trail := by
  induction vs with
  | nil => rfl
  | cons v vs ih =>
    simp only [List.length_cons, List.flatMap_cons, List.append_assoc, Kaifa.fields, List.map_cons]
    rw [field_encKVal v (h v List.mem_cons_self), bind_ok,
      ih (fun w hw => h w (List.mem_cons_of_mem _ hw)), bind_ok]

theorem valueBody_enc (vs : List KVal) (h : ∀ v ∈ vs, v.WF) (trail : List Nat) :
    Kaifa.valueBody (encKaifaValues vs ++ trail) = .ok (.values (vs.map toField)) trail := by
  unfold Kaifa.valueBody encKaifaValues
  simp only [List.cons_append, List.nil_append, tStructure_eq, constByte_cons, bind_ok, u8_cons,
    fields_enc vs h trail]


/-! ### the documented layouts -/

theorem layout_cases {n : Nat} {names : List String} (e : kaifaLayout n = some names) :
    n ∈ [1, 9, 13, 14, 18] := by
  by_cases h1 : n = 1; · simp [h1]
  by_cases h2 : n = 9; · simp [h2]
  by_cases h3 : n = 13; · simp [h3]
  by_cases h4 : n = 14; · simp [h4]
  by_cases h5 : n = 18; · simp [h5]
  exfalso
  simp [kaifaLayout, h1, h2, h3, h4, h5] at e

theorem layout_ind (P : Nat → List String → Prop)
    (h : ∀ n ∈ [1, 9, 13, 14, 18], P n ((kaifaLayout n).getD [])) :
    ∀ n names, kaifaLayout n = some names → P n names := by
  intro n names e
  have := h n (layout_cases e)
  rw [e] at this
  exact this

theorem layout_find : ∀ n names, kaifaLayout n = some names →
    kaifaFieldLists.find? (fun l => l.length == n) = some names := by
  apply layout_ind
  decide

theorem layout_length : ∀ n names, kaifaLayout n = some names → names.length = n := by
  apply layout_ind
  decide

theorem layout_first : ∀ n names, kaifaLayout n = some names →
    1 ≤ n ∧ (names.getD 0 "" = "active_power_import" ∨ names.getD 0 "" = "list_ver_id") := by
  apply layout_ind
  decide


/-! ### the OBIS grammar fails softly on a positional list -/

theorem obisElement_u32_soft (v : Nat) (r : List Nat) :
    Kaifa.obisElement (encKVal (.u32 v) ++ r) = .soft := by
  simp [Kaifa.obisElement, obisField, constByte, encKVal, Res.bind]

theorem obisElement_text_soft (s : List Nat) (h : s.length ≠ 6) (r : List Nat) :
    Kaifa.obisElement (encKVal (.text s) ++ r) = .soft := by
  simp [Kaifa.obisElement, obisField, constByte, encKVal, Res.bind, h]

theorem greedyObis_soft (fuel : Nat) (s : List Nat) (h : Kaifa.obisElement s = .soft) :
    Kaifa.greedyObis (fuel + 1) s = .ok [] s := by
  rw [Kaifa.greedyObis, h]

theorem values_first {vs : List KVal} (h : KaifaValuesWF vs) :
    ∃ v0 rest, vs = v0 :: rest ∧ ((∃ v, v0 = .u32 v) ∨ ∃ s, v0 = .text s ∧ s.length ≠ 6) := by
  obtain ⟨names, hl, _, hp⟩ := h
  obtain ⟨h1, hn⟩ := layout_first _ _ hl
  match vs, h1, hp with
  | v0 :: rest, _, hp =>
    refine ⟨v0, rest, rfl, ?_⟩
    have h0 := hp 0 (by simp)
    simp only [List.getElem_cons_zero] at h0
    cases v0 with
    | u32 v => exact .inl ⟨v, rfl⟩
    | text s =>
      right
      refine ⟨s, rfl, ?_⟩
      simp only [kaifaPosOk] at h0
      rcases hn with hn | hn <;> rw [hn] at h0 <;> simp at h0
      exact h0
    | clock d =>
      simp only [kaifaPosOk] at h0
      rcases hn with hn | hn <;> rw [hn] at h0 <;> simp at h0

theorem obisBody_values_soft (vs : List KVal) (h : KaifaValuesWF vs) (trail : List Nat) :
    Kaifa.obisBody (encKaifaValues vs ++ trail) = .soft := by
  obtain ⟨v0, rest, rfl, hv⟩ := values_first h
  have hs : Kaifa.obisElement ((v0 :: rest).flatMap encKVal ++ trail) = .soft := by
    simp only [List.flatMap_cons, List.append_assoc]
    rcases hv with ⟨v, rfl⟩ | ⟨s, rfl, hs⟩
    · exact obisElement_u32_soft v _
    · exact obisElement_text_soft s hs _
  unfold Kaifa.obisBody encKaifaValues
  simp only [List.cons_append, List.nil_append, tStructure_eq, constByte_cons, bind_ok, u8_cons]
  rw [greedyObis_soft _ _ hs, bind_ok]
  simp

theorem notificationBody_values (vs : List KVal) (h : KaifaValuesWF vs) (trail : List Nat) :
    Kaifa.notificationBody (encKaifaValues vs ++ trail) = .ok (.values (vs.map toField)) trail := by
  unfold Kaifa.notificationBody Kaifa.select
  rw [obisBody_values_soft vs h trail, valueBody_enc vs h.choose_spec.2.1 trail]

theorem llcPdu_values (hd : Header) (hh : hd.WF) (vs : List KVal) (h : KaifaValuesWF vs) (trail : List Nat) :
    Kaifa.llcPdu (encHeader hd ++ encKaifaValues vs ++ trail) =
      .ok (clockOf hd.clock, .values (vs.map toField)) trail := by
  unfold Kaifa.llcPdu Kaifa.select
  rw [List.append_assoc, llc_clock hd hh, llc_clock hd hh, obisBody_values_soft vs h trail,
    valueBody_enc vs h.choose_spec.2.1 trail]
  rfl

/-! ### normalisation -/

/-- the floating-point fact used by C08 / C09 (same statement as `C08.ScaledCorrect`) -/
def ScaledOK : Prop :=
  ∀ (v : Nat) (s : Nat), v < 4294967296 → (s = 1 ∨ s = 2 ∨ s = 3) →
    Flt.roundDigits (Flt.mul (Flt.ofInt v) (Flt.tenPowNeg s)) s = Flt.ofRat false v (10 ^ s)

theorem lookup_none {β : Type} (k : String) (l : List (String × β)) (h : ∀ p ∈ l, k ≠ p.1) :
    l.lookup k = none := by
  induction l with
  | nil => rfl
  | cons p l ih =>
    obtain ⟨a, b⟩ := p
    have : (k == a) = false := by
      simp only [beq_eq_false_iff_ne]; exact h (a, b) List.mem_cons_self
    rw [List.lookup_cons, this]
    exact ih (fun q hq => h q (List.mem_cons_of_mem _ hq))

theorem kaifaScaled_int (hF : ScaledOK) (z : Nat) (hz : z < 4294967296) (s : Nat) (hs : s = 1 ∨ s = 2 ∨ s = 3) :
    Kaifa.scaled (z : Int) (-(s : Int)) = divPow10 z s := by
  have hneg : (-(s : Int)) < 0 := by omega
  have ht : (- -(s : Int)).toNat = s := by omega
  simp only [Kaifa.scaled, hneg, if_true, ht, divPow10, hF z s hz hs]

theorem plainValue_int (hF : ScaledOK) (name : String) (v : Nat) (hv : v < 4294967296) :
    Kaifa.plainValue name (.int v) = .ok (kaifaScaled name v) := by
  unfold Kaifa.plainValue Kaifa.scaleOf kaifaScaled
  by_cases h1 : name = "current_l1"
  · subst h1
    rw [show kaifaScaling.lookup "current_l1" = some (-((3 : Nat) : Int)) by decide]
    simp
    exact kaifaScaled_int hF v hv 3 (by simp)
  by_cases h2 : name = "current_l2"
  · subst h2
    rw [show kaifaScaling.lookup "current_l2" = some (-((3 : Nat) : Int)) by decide]
    simp
    exact kaifaScaled_int hF v hv 3 (by simp)
  by_cases h3 : name = "current_l3"
  · subst h3
    rw [show kaifaScaling.lookup "current_l3" = some (-((3 : Nat) : Int)) by decide]
    simp
    exact kaifaScaled_int hF v hv 3 (by simp)
  by_cases h4 : name = "voltage_l1"
  · subst h4
    rw [show kaifaScaling.lookup "voltage_l1" = some (-((1 : Nat) : Int)) by decide]
    simp
    exact kaifaScaled_int hF v hv 1 (by simp)
  by_cases h5 : name = "voltage_l2"
  · subst h5
    rw [show kaifaScaling.lookup "voltage_l2" = some (-((1 : Nat) : Int)) by decide]
    simp
    exact kaifaScaled_int hF v hv 1 (by simp)
  by_cases h6 : name = "voltage_l3"
  · subst h6
    rw [show kaifaScaling.lookup "voltage_l3" = some (-((1 : Nat) : Int)) by decide]
    simp
    exact kaifaScaled_int hF v hv 1 (by simp)
  rw [lookup_none name kaifaScaling (by simp [kaifaScaling, h1, h2, h3, h4, h5, h6])]
  simp [h1, h2, h3, h4, h5, h6]

theorem plainValue_str (name : String) (s : List Nat) (h : kaifaScaling.lookup name = none) :
    Kaifa.plainValue name (.str s) = .ok (.str s) := by
  unfold Kaifa.plainValue Kaifa.scaleOf
  rw [h]


theorem normValuesLoop_step (hF : ScaledOK) (names : List String) (i : Nat) (v : KVal) (fs : List FieldVal)
    (d : Dict) (name : String) (hn : names[i]? = some name) (hwf : v.WF) (hpos : kaifaPosOk name v) :
    Kaifa.normValuesLoop names i (toField v :: fs) d =
      Kaifa.normValuesLoop names (i + 1) fs (d.set name (kaifaVal name v)) := by
  rw [Kaifa.normValuesLoop]
  simp only [hn]
  cases v with
  | text s =>
    simp only [kaifaPosOk] at hpos
    have hne : (name == field_METER_DATETIME) = false := by
      rcases hpos with ⟨h, _⟩ | h | h <;> subst h <;> decide
    have hl : kaifaScaling.lookup name = none := by
      rcases hpos with ⟨h, _⟩ | h | h <;> subst h <;> decide
    simp only [hne, toField, plainValue_str name s hl, kaifaVal]
    simp
  | u32 z =>
    simp only [kaifaPosOk] at hpos
    have hne : (name == field_METER_DATETIME) = false := by
      simp only [beq_eq_false_iff_ne, field_METER_DATETIME]; exact hpos.2.2.2
    simp only [hne, toField, plainValue_int hF name z hwf, kaifaVal]
    simp
  | clock t =>
    simp only [kaifaPosOk] at hpos
    subst hpos
    simp only [toField, kaifaVal]
    simp [field_METER_DATETIME]

theorem normValuesLoop_ok (hF : ScaledOK) (names : List String) :
    ∀ (vs : List KVal) (i : Nat) (d : Dict), (∀ v ∈ vs, v.WF) → i + vs.length ≤ names.length →
      (∀ j (h : j < vs.length), kaifaPosOk (names.getD (i + j) "") vs[j]) →
      Kaifa.normValuesLoop names i (vs.map toField) d =
        .ok ((List.zip (names.drop i) vs).foldl (fun d p => d.set p.1 (kaifaVal p.1 p.2)) d) := by
  intro vs
  induction vs with
  | nil => intro i d _ _ _; simp [Kaifa.normValuesLoop]
  | cons v vs ih =>
    intro i d hwf hlen hpos
    simp only [List.length_cons] at hlen
    have hi : i < names.length := by omega
    have hn : names[i]? = some names[i] := List.getElem?_eq_getElem hi
    have h0 := hpos 0 (by simp)
    simp only [Nat.add_zero, List.getElem_cons_zero, List.getD_eq_getElem?_getD, hn, Option.getD_some] at h0
    rw [List.map_cons, normValuesLoop_step hF names i v _ d names[i] hn (hwf v List.mem_cons_self) h0]
    rw [ih (i + 1) _ (fun w hw => hwf w (List.mem_cons_of_mem _ hw)) (by omega)]
    · rw [List.drop_eq_getElem_cons hi]
      simp only [List.zip_cons_cons, List.foldl_cons]
    · intro j hj
      have := hpos (j + 1) (by simp only [List.length_cons]; omega)
      simp only [List.getElem_cons_succ] at this
      rw [show i + 1 + j = i + (j + 1) by omega]
      exact this

def apduTime : Option ApduDT → Option DT
  | some (.dt t) => some t
  | _ => none

theorem normValues_ok (hF : ScaledOK) (vs : List KVal) (h : KaifaValuesWF vs) (apdu : Option ApduDT)
    (hnb : ∀ b, apdu ≠ some (.byte b)) :
    Kaifa.normValues apdu (vs.map toField) =
      .ok (kaifaValuesExpected (apduTime apdu) vs) := by
  obtain ⟨names, hl, hwf, hpos⟩ := h
  have hlen := layout_length _ _ hl
  unfold Kaifa.normValues kaifaValuesExpected
  simp only [List.length_map, layout_find _ _ hl, hl, Option.getD_some]
  have key := fun d => normValuesLoop_ok hF names vs 0 d hwf (by omega)
    (by intro j hj; rw [Nat.zero_add]; exact hpos j hj)
  simp only [List.drop_zero] at key
  match apdu, hnb with
  | none, _ => simp only [key]; rfl
  | some (.dt t), _ => simp only [key]; rfl
  | some (.byte b), hnb => exact absurd rfl (hnb b)

theorem clockOf_ne_byte (c : ApduClock) (hc : c ≠ .null) : ∀ b, some (clockOf c) ≠ some (.byte b) := by
  intro b
  cases c with
  | null => exact absurd rfl hc
  | tagged d => simp [clockOf]
  | untagged d => simp [clockOf]

theorem decodeBody_values (hF : ScaledOK) (vs : List KVal) (h : KaifaValuesWF vs) (trail : List Nat) :
    Kaifa.decodeBody (encKaifaValues vs ++ trail) = .dict (kaifaValuesExpected none vs) := by
  unfold Kaifa.decodeBody
  rw [notificationBody_values vs h trail]
  simp only [normValues_ok hF vs h none (by simp), Kaifa.outOf, apduTime]

theorem decodeFrame_values (hF : ScaledOK) (hd : Header) (hh : hd.WF) (hc : hd.clock ≠ .null)
    (vs : List KVal) (h : KaifaValuesWF vs) (trail : List Nat) :
    Kaifa.decodeFrame (encHeader hd ++ encKaifaValues vs ++ trail) =
      .dict (kaifaValuesExpected (some (match hd.clock with
        | .tagged d => expectedDT d | .untagged d => expectedDT d | .null => default)) vs) := by
  unfold Kaifa.decodeFrame
  rw [llcPdu_values hd hh vs h trail]
  simp only [normValues_ok hF vs h (some (clockOf hd.clock)) (clockOf_ne_byte _ hc), Kaifa.outOf]
  match hd.clock, hc with
  | .null, hc => exact absurd rfl hc
  | .tagged d, _ => rfl
  | .untagged d, _ => rfl


/-! ### OBIS-tagged list -/

theorem obisField_enc (o : List Nat) (h : o.length = 6) (r : List Nat) :
    obisField (encObis o ++ r) = .ok o r := by
  unfold obisField encObis
  simp only [List.cons_append, List.nil_append, tOctet_eq, constByte_cons, bind_ok, takeN_append 6 o r h]

theorem obisElement_enc (o : List Nat) (ho : o.length = 6) (v : KVal) (hv : v.WF) (r : List Nat) :
    Kaifa.obisElement (encObis o ++ encKVal v ++ r) = .ok (o, toField v) r := by
  unfold Kaifa.obisElement
  rw [List.append_assoc, obisField_enc o ho, bind_ok, field_encKVal v hv r, bind_ok]

theorem obisElement_nil : Kaifa.obisElement [] = .soft := rfl

theorem greedyObis_enc : ∀ (es : List (List Nat × KVal)) (fuel : Nat),
    (∀ p ∈ es, Obis6 p.1 ∧ p.2.WF) → es.length + 1 ≤ fuel →
    Kaifa.greedyObis fuel (es.flatMap (fun p => encObis p.1 ++ encKVal p.2)) =
      .ok (es.map (fun p => (p.1, toField p.2))) [] := by
  intro es
  induction es with
  | nil =>
    intro fuel _ hf
    obtain ⟨f, rfl⟩ : ∃ f, fuel = f + 1 := ⟨fuel - 1, by simp only [List.length_nil] at hf; omega⟩
    exact greedyObis_soft f [] obisElement_nil
  | cons p es ih =>
    intro fuel h hf
    simp only [List.length_cons] at hf
    obtain ⟨f, rfl⟩ : ∃ f, fuel = f + 1 := ⟨fuel - 1, by omega⟩
    have hp := h p List.mem_cons_self
    rw [Kaifa.greedyObis, List.flatMap_cons, obisElement_enc p.1 hp.1.1 p.2 hp.2]
    simp only [ih f (fun q hq => h q (List.mem_cons_of_mem _ hq)) (by omega), bind_ok, List.map_cons]

theorem flatMap_length_ge {α : Type} (f : α → List Nat) (h : ∀ a, 1 ≤ (f a).length) (l : List α) :
    l.length ≤ (l.flatMap f).length := by
  induction l with
  | nil => simp
  | cons a l ih =>
    have := h a
    simp only [List.flatMap_cons, List.length_cons, List.length_append]; omega

theorem obisBody_enc (es : List (List Nat × KVal)) (h : ∀ p ∈ es, Obis6 p.1 ∧ p.2.WF) :
    Kaifa.obisBody (encKaifaObis es) = .ok (.obis (es.map (fun p => (p.1, toField p.2)))) [] := by
  unfold Kaifa.obisBody encKaifaObis
  simp only [List.cons_append, List.nil_append, tStructure_eq, constByte_cons, bind_ok, u8_cons]
  rw [greedyObis_enc es _ h]
  · simp
  · have := flatMap_length_ge (fun p : List Nat × KVal => encObis p.1 ++ encKVal p.2)
      (by intro a; simp [encObis]) es
    omega

theorem obis6_cases {o : List Nat} (h : o.length = 6) : ∃ a b c d e f, o = [a, b, c, d, e, f] := by
  match o, h with
  | [a, b, c, d, e, f], _ => exact ⟨a, b, c, d, e, f, rfl⟩

theorem normObisLoop_step (hF : ScaledOK) (o : List Nat) (ho : o.length = 6) (v : KVal) (hv : v.WF)
    (hs : (kaifaScaling.lookup (obisName o)).isSome → ∃ z, v = .u32 z)
    (fs : List (List Nat × FieldVal)) (d : Dict) :
    Kaifa.normObisLoop ((o, toField v) :: fs) d =
      Kaifa.normObisLoop fs (d.set (obisName o) (kaifaVal (obisName o) v)) := by
  obtain ⟨a, b, c, dd, e, f, rfl⟩ := obis6_cases ho
  cases v with
  | text s =>
    have hl : kaifaScaling.lookup (obisName [a, b, c, dd, e, f]) = none := by
      cases hq : kaifaScaling.lookup (obisName [a, b, c, dd, e, f]) with
      | none => rfl
      | some x =>
        obtain ⟨z, hz⟩ := hs (by rw [hq]; rfl)
        exact absurd hz (by simp)
    simp only [obisName] at hl ⊢
    simp only [toField, Kaifa.normObisLoop, plainValue_str _ s hl, kaifaVal]
  | u32 z =>
    simp only [obisName, toField, Kaifa.normObisLoop, plainValue_int hF _ z hv, kaifaVal]
  | clock t =>
    simp only [obisName, toField, Kaifa.normObisLoop, kaifaVal]

theorem normObisLoop_ok (hF : ScaledOK) : ∀ (es : List (List Nat × KVal)) (d : Dict),
    (∀ p ∈ es, Obis6 p.1 ∧ p.2.WF) →
    (∀ p ∈ es, (kaifaScaling.lookup (obisName p.1)).isSome → ∃ v, p.2 = .u32 v) →
    Kaifa.normObisLoop (es.map (fun p => (p.1, toField p.2))) d =
      .ok (es.foldl (fun d p => d.set (obisName p.1) (kaifaVal (obisName p.1) p.2)) d) := by
  intro es
  induction es with
  | nil => intro d _ _; rfl
  | cons p es ih =>
    intro d h hs
    have hp := h p List.mem_cons_self
    rw [List.map_cons, normObisLoop_step hF p.1 hp.1.1 p.2 hp.2 (hs p List.mem_cons_self)]
    rw [ih _ (fun q hq => h q (List.mem_cons_of_mem _ hq)) (fun q hq => hs q (List.mem_cons_of_mem _ hq))]
    rfl

theorem decodeBody_obis (hF : ScaledOK) (es : List (List Nat × KVal))
    (h : ∀ p ∈ es, Obis6 p.1 ∧ p.2.WF)
    (hs : ∀ p ∈ es, (kaifaScaling.lookup (obisName p.1)).isSome → ∃ v, p.2 = .u32 v) :
    Kaifa.decodeBody (encKaifaObis es) = .dict (kaifaObisExpected es) := by
  unfold Kaifa.decodeBody Kaifa.notificationBody Kaifa.select
  rw [obisBody_enc es h]
  simp only [Kaifa.normObis, normObisLoop_ok hF es _ h hs, Kaifa.outOf]
  rfl

theorem decodeFrame_obis (hF : ScaledOK) (hd : Header) (hh : hd.WF) (es : List (List Nat × KVal))
    (h : ∀ p ∈ es, Obis6 p.1 ∧ p.2.WF)
    (hs : ∀ p ∈ es, (kaifaScaling.lookup (obisName p.1)).isSome → ∃ v, p.2 = .u32 v) :
    Kaifa.decodeFrame (encHeader hd ++ encKaifaObis es) = .dict (kaifaObisExpected es) := by
  unfold Kaifa.decodeFrame Kaifa.llcPdu Kaifa.select
  rw [llc_clock hd hh, obisBody_enc es h]
  simp only [bind_ok, Kaifa.normObis, normObisLoop_ok hF es _ h hs, Kaifa.outOf]
  rfl

end Amshan.KaifaRT
