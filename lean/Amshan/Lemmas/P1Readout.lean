import Amshan.Lemmas.P1ReadoutComplete
/-
  Lemmas about the P1 `DataReadout` model, collected for the property files:
    P1ReadoutBase     : CRC model = CRC-16/ARC and its bound; `find`; `strip`
    P1ReadoutChk      : `intBase16` on four hex digits; `Readout.make`; expected checksum;
                        exception classes; the structure of `isValid`
    P1ReadoutIdent    : the identification-line matcher
    P1ReadoutComplete : well-formed readouts (`ReadoutDesc.WF`)
  This file: the payload of an arbitrary readout.
-/
namespace Amshan.P1L
open Amshan.Gen Amshan.P1 Amshan.P1Spec Amshan.Py

/-- the payload of any readout is exactly the bytes strictly between the first line end and the
    first '!' -/
theorem payload_exact (raw : List Nat) (r : Readout) (hm : Readout.make raw = .ok r)
    (a p z : List Nat) (hb : r.bytes = a ++ [10] ++ p ++ [33] ++ z) (ha : 10 ∉ a)
    (hp : 33 ∉ a ++ [10] ++ p) : r.payload = p := by
  obtain ⟨_, _, hf, hdp⟩ := make_ok raw r hm
  have h33 : r.bytes = (a ++ [10] ++ p) ++ 33 :: z := by rw [hb]; simp
  have h10 : r.bytes = a ++ 10 :: (p ++ [33] ++ z) := by rw [hb]; simp
  have he : r.endPos = (a ++ [10] ++ p).length := by
    have := find_append_of_not_mem (a ++ [10] ++ p) z 33 hp
    rw [← h33, hf] at this
    exact Option.some.inj this
  have hd : r.dataPos = a.length + 1 := by
    have := find_append_of_not_mem a (p ++ [33] ++ z) 10 ha
    rw [← h10] at this
    rw [hdp, this]
  unfold Readout.payload slice
  rw [he, hd, h33, List.take_left, List.append_assoc]
  have : a.length + 1 = (a ++ [10]).length := by simp
  rw [← List.append_assoc, this, List.drop_left]

end Amshan.P1L
