import Amshan.Lemmas.P1ReadoutIdent
/-
  Well-formed readouts (`ReadoutDesc.WF`): the model constructs exactly `expectedReadout d` from
  `d.encode`, reports it valid, and returns the transmitted payload and identification.
-/
namespace Amshan.P1L
open Amshan.Gen Amshan.P1 Amshan.P1Spec Amshan.Py

/-! ### character classes -/

/-- printable and not the end character '!' -/
def Okc (x : Nat) : Prop := 32 ≤ x ∧ x ≤ 126 ∧ x ≠ 33

theorem okc_of_dataChar (x : Nat) (h : ReadoutDesc.dataChar x = true) : Okc x := by
  simp only [ReadoutDesc.dataChar, P1Spec.isPrintable, Bool.and_eq_true, decide_eq_true_eq,
    bne_iff_ne] at h
  unfold Okc; omega

theorem printable_of_dataChar (x : Nat) (h : ReadoutDesc.dataChar x = true) :
    Py.isPrintable x = true := by
  simp only [ReadoutDesc.dataChar, P1Spec.isPrintable, Bool.and_eq_true, decide_eq_true_eq,
    bne_iff_ne] at h
  simp only [Py.isPrintable, Bool.and_eq_true, decide_eq_true_eq]; omega

theorem spec_isUpper (x : Nat) : P1Spec.isUpper x = Py.isUpper x := rfl
theorem spec_isAlpha (x : Nat) : P1Spec.isAlpha x = Py.isAlpha x := rfl
theorem spec_isDigit (x : Nat) : P1Spec.isDigit x = Py.isDigit x := rfl
theorem spec_isWord (x : Nat) : P1Spec.isWord x = Py.isWord x := rfl

theorem range_of_isUpper (x : Nat) (h : Py.isUpper x = true) : 65 ≤ x ∧ x ≤ 90 := by
  simpa [Py.isUpper] using h

theorem range_of_isAlpha (x : Nat) (h : Py.isAlpha x = true) : 65 ≤ x ∧ x ≤ 122 := by
  simp only [Py.isAlpha, Py.isUpper, Py.isLower, Bool.or_eq_true, Bool.and_eq_true,
    decide_eq_true_eq] at h
  omega

theorem range_of_isDigit (x : Nat) (h : Py.isDigit x = true) : 48 ≤ x ∧ x ≤ 57 := by
  simpa [Py.isDigit] using h

theorem range_of_isWord (x : Nat) (h : Py.isWord x = true) : 48 ≤ x ∧ x ≤ 122 := by
  simp only [Py.isWord, Py.isAlpha, Py.isUpper, Py.isLower, Py.isDigit, Bool.or_eq_true,
    Bool.and_eq_true, decide_eq_true_eq, beq_iff_eq] at h
  omega

theorem not_space_of_range (x : Nat) (h : 33 ≤ x) : isStrSpace x = false := by
  simp only [isStrSpace, Bool.or_eq_false_iff, Bool.and_eq_false_iff, beq_eq_false_iff_ne,
    decide_eq_false_iff_not]
  omega

theorem okc_of_range (x : Nat) (h : 34 ≤ x ∧ x ≤ 126) : Okc x := by
  unfold Okc; omega

/-! ### the parts of an encoded readout -/

/-- the identification line without its CR LF -/
def headPart (d : ReadoutDesc) : List Nat :=
  [47] ++ d.man ++ [d.baud] ++ escFlat d.escs ++ d.ident

/-- the checksum text -/
def cksPart (d : ReadoutDesc) : List Nat :=
  match d.checksum with | some lower => hex4 lower (crc16Arc d.body) | none => []

theorem identLine_eq (d : ReadoutDesc) : d.identLine = headPart d ++ [13, 10] := rfl
theorem body_eq (d : ReadoutDesc) : d.body = d.identLine ++ d.payload ++ [33] := rfl
theorem encode_eq (d : ReadoutDesc) : d.encode = d.body ++ cksPart d ++ [13, 10] := rfl

theorem wf_man (d : ReadoutDesc) (h : d.WF) : ∃ a b c, d.man = [a, b, c] ∧
    Py.isUpper a = true ∧ Py.isUpper b = true ∧ Py.isAlpha c = true := by
  have h1 := h.1
  split at h1
  · rename_i a b c hm
    simp only [Bool.and_eq_true] at h1
    exact ⟨a, b, c, hm, h1.1.1, h1.1.2, h1.2⟩
  · simp at h1

theorem wf_ident (d : ReadoutDesc) (h : d.WF) :
    d.ident.length ≤ 16 ∧ d.ident.all ReadoutDesc.dataChar = true ∧
    (match d.ident with | 92 :: w :: _ => !Py.isWord w | _ => true) = true ∧
    d.ident.getLast? ≠ some 32 := by
  have h1 := h.2.2.2.1
  simp only [ReadoutDesc.identOk, Bool.and_eq_true, decide_eq_true_eq, bne_iff_ne] at h1
  exact ⟨h1.1.1.1, h1.1.1.2, h1.1.2, h1.2⟩

theorem mem_escFlat (x : Nat) (escs : List Nat) (h : x ∈ escFlat escs) : x = 92 ∨ x ∈ escs := by
  simp only [List.mem_flatMap, List.mem_cons, List.not_mem_nil, or_false] at h
  obtain ⟨w, hw, hx⟩ := h
  rcases hx with hx | hx
  · exact Or.inl hx
  · exact Or.inr (hx ▸ hw)

theorem headPart_okc (d : ReadoutDesc) (h : d.WF) : ∀ x ∈ headPart d, Okc x := by
  obtain ⟨a, b, c, hm, ha, hb, hc⟩ := wf_man d h
  obtain ⟨_, hid, _, _⟩ := wf_ident d h
  have hbd := range_of_isDigit _ h.2.1
  have ra := range_of_isUpper _ ha
  have rb := range_of_isUpper _ hb
  have rc := range_of_isAlpha _ hc
  intro x hx
  unfold headPart at hx
  rw [hm] at hx
  simp only [List.mem_append, List.mem_cons, List.not_mem_nil, or_false] at hx
  rcases hx with (((hx | hx | hx | hx) | hx) | hx) | hx
  · exact okc_of_range x (by omega)
  · exact okc_of_range x (by omega)
  · exact okc_of_range x (by omega)
  · exact okc_of_range x (by omega)
  · exact okc_of_range x (by omega)
  · rcases mem_escFlat x _ hx with hx | hx
    · exact okc_of_range x (by omega)
    · have := range_of_isWord x (List.all_eq_true.mp h.2.2.1 x hx)
      exact okc_of_range x (by omega)
  · exact okc_of_dataChar x (List.all_eq_true.mp hid x hx)

theorem payload_chars (d : ReadoutDesc) (h : d.WF) : ∀ x ∈ d.payload, Okc x ∨ x = 13 ∨ x = 10 := by
  intro x hx
  unfold ReadoutDesc.payload at hx
  simp only [List.mem_flatMap, List.mem_append, List.mem_cons, List.not_mem_nil, or_false] at hx
  obtain ⟨l, hl, hx⟩ := hx
  rcases hx with hx | hx | hx
  · exact Or.inl (okc_of_dataChar x (List.all_eq_true.mp (h.2.2.2.2 l hl) x hx))
  · exact Or.inr (Or.inl hx)
  · exact Or.inr (Or.inr hx)

/-- the head part starts with '/' and ends with a character `strip` does not remove -/
theorem headPart_ends (d : ReadoutDesc) (h : d.WF) :
    ∃ u x, headPart d = 47 :: u ++ [x] ∧ isStrSpace x = false := by
  obtain ⟨a, b, c, hm, ha, hb, hc⟩ := wf_man d h
  obtain ⟨_, hid, _, hlast⟩ := wf_ident d h
  have hbd := range_of_isDigit _ h.2.1
  unfold headPart
  rw [hm]
  rcases List.eq_nil_or_concat d.ident with hi | ⟨init, x, hi⟩
  · rcases List.eq_nil_or_concat d.escs with he | ⟨einit, w, he⟩
    · refine ⟨[a, b, c], d.baud, ?_, not_space_of_range _ (by omega)⟩
      rw [hi, he]; rfl
    · refine ⟨[a, b, c, d.baud] ++ escFlat einit ++ [92], w, ?_, ?_⟩
      · rw [hi, he]
        simp [List.flatMap_append]
      · have hw : w ∈ d.escs := by rw [he]; simp
        have := range_of_isWord w (List.all_eq_true.mp h.2.2.1 w hw)
        exact not_space_of_range _ (by omega)
  · refine ⟨[a, b, c, d.baud] ++ escFlat d.escs ++ init, x, ?_, ?_⟩
    · rw [hi]; simp
    · have hx : x ∈ d.ident := by rw [hi]; simp
      have hk := okc_of_dataChar x (List.all_eq_true.mp hid x hx)
      have hne : x ≠ 32 := by
        intro e
        apply hlast
        rw [hi, e]
        simp
      unfold Okc at hk
      exact not_space_of_range _ (by omega)

/-! ### construction of the readout object -/

theorem encode_split_bang (d : ReadoutDesc) :
    d.encode = (d.identLine ++ d.payload) ++ 33 :: (cksPart d ++ [13, 10]) := by
  rw [encode_eq, body_eq]; simp

theorem front_no_bang (d : ReadoutDesc) (h : d.WF) : 33 ∉ d.identLine ++ d.payload := by
  intro hm
  rw [identLine_eq] at hm
  simp only [List.mem_append, List.mem_cons, List.not_mem_nil, or_false] at hm
  rcases hm with (hm | hm | hm) | hm
  · have := headPart_okc d h 33 hm
    unfold Okc at this; omega
  · omega
  · omega
  · rcases payload_chars d h 33 hm with h1 | h1 | h1
    · unfold Okc at h1; omega
    · omega
    · omega

theorem body_length (d : ReadoutDesc) : d.body.length - 1 = (d.identLine ++ d.payload).length := by
  rw [body_eq]; simp

theorem find_bang (d : ReadoutDesc) (h : d.WF) : find d.encode 33 = some (d.body.length - 1) := by
  rw [encode_split_bang, find_append_of_not_mem _ _ _ (front_no_bang d h), body_length]

theorem encode_split_lf (d : ReadoutDesc) :
    d.encode = (headPart d ++ [13]) ++ 10 :: (d.payload ++ [33] ++ cksPart d ++ [13, 10]) := by
  rw [encode_eq, body_eq, identLine_eq]; simp

theorem identLine_length (d : ReadoutDesc) : d.identLine.length - 1 = (headPart d ++ [13]).length := by
  rw [identLine_eq]; simp

theorem find_lf (d : ReadoutDesc) (h : d.WF) : find d.encode 10 = some (d.identLine.length - 1) := by
  have hn : 10 ∉ headPart d ++ [13] := by
    intro hm
    simp only [List.mem_append, List.mem_cons, List.not_mem_nil, or_false] at hm
    rcases hm with hm | hm
    · have := headPart_okc d h 10 hm
      unfold Okc at this; omega
    · omega
  rw [encode_split_lf, find_append_of_not_mem _ _ _ hn, identLine_length]

theorem encode_head (d : ReadoutDesc) : ∃ t, d.encode = 47 :: t := by
  refine ⟨d.encode.tail, ?_⟩
  rw [encode_eq, body_eq, identLine_eq]
  unfold headPart
  simp

/-- `DataReadout(d.encode)` is the expected readout object -/
theorem make_encode (d : ReadoutDesc) (h : d.WF) :
    Readout.make d.encode = .ok (expectedReadout d) := by
  obtain ⟨t, ht⟩ := encode_head d
  have hs : lstripBytes d.encode = 47 :: t := by
    rw [ht]; exact lstripBytes_cons 47 t (by decide)
  have he : find (47 :: t) 33 = some (d.body.length - 1) := by
    rw [← ht]; exact find_bang d h
  rw [make_of_facts d.encode t _ hs he, ← ht, find_lf d h]
  unfold expectedReadout
  have : d.identLine.length - 1 + 1 = d.identLine.length := by
    rw [identLine_eq]; simp
  simp [this]

/-! ### slices of the expected readout -/

theorem exp_drop_endPos (d : ReadoutDesc) :
    (expectedReadout d).bytes.drop (expectedReadout d).endPos = 33 :: (cksPart d ++ [13, 10]) := by
  show d.encode.drop (d.body.length - 1) = _
  rw [encode_split_bang, body_length, List.drop_left]

theorem exp_take_endPos (d : ReadoutDesc) :
    (expectedReadout d).bytes.take ((expectedReadout d).endPos + 1) = d.body := by
  show d.encode.take (d.body.length - 1 + 1) = _
  have : d.body.length - 1 + 1 = d.body.length := by
    rw [body_eq]; simp only [List.length_append, List.length_cons, List.length_nil]; omega
  rw [this, encode_eq, List.append_assoc, List.take_left]

theorem exp_take_dataPos (d : ReadoutDesc) :
    (expectedReadout d).bytes.take (expectedReadout d).dataPos = d.identLine := by
  show d.encode.take d.identLine.length = _
  rw [encode_eq, body_eq]
  simp only [List.append_assoc]
  rw [List.take_left]

theorem exp_payload (d : ReadoutDesc) : (expectedReadout d).payload = d.payload := by
  show slice d.encode d.identLine.length (d.body.length - 1) = _
  unfold slice
  rw [encode_split_bang, body_length, List.take_left, List.drop_left]

/-! ### checksum text -/

theorem hexVal_hexLower (n : Nat) (h : n < 16) : hexVal? (hexLower n) = some n := by
  unfold hexVal? hexLower
  by_cases h10 : n < 10
  · simp only [h10, if_true]
    rw [if_pos (by omega)]
    simp
  · simp only [h10, if_false]
    rw [if_neg (by omega), if_neg (by omega), if_pos (by omega)]
    simp

theorem hexVal_hexUpper (n : Nat) (h : n < 16) : hexVal? (hexUpper n) = some n := by
  unfold hexVal? hexUpper
  by_cases h10 : n < 10
  · simp only [h10, if_true]
    rw [if_pos (by omega)]
    simp
  · simp only [h10, if_false]
    rw [if_neg (by omega), if_pos (by omega)]
    simp

theorem isChecksumText_hex4 (lower : Bool) (v : Nat) (term : List Nat) (hv : v < 65536)
    (hterm : term = [] ∨ term = [10] ∨ term = [13, 10]) :
    IsChecksumText (hex4 lower v ++ term) v := by
  have hh : ∀ n, n < 16 → hexVal? ((if lower then hexLower else hexUpper) n) = some n := by
    intro n hn
    cases lower
    · exact hexVal_hexUpper n hn
    · exact hexVal_hexLower n hn
  refine ⟨_, _, _, _, v / 4096 % 16, v / 256 % 16, v / 16 % 16, v % 16, term, rfl,
    hh _ (by omega), hh _ (by omega), hh _ (by omega), hh _ (by omega), by omega, hterm⟩

/-! ### validity -/

theorem body_octets (d : ReadoutDesc) (h : d.WF) : Octets d.body := by
  intro x hx
  rw [body_eq, identLine_eq] at hx
  simp only [List.mem_append, List.mem_cons, List.not_mem_nil, or_false] at hx
  rcases hx with ((hx | hx | hx) | hx) | hx
  · have := headPart_okc d h x hx
    unfold Okc at this; omega
  · omega
  · omega
  · rcases payload_chars d h x hx with h1 | h1 | h1
    · unfold Okc at h1; omega
    · omega
    · omega
  · omega

theorem exp_expectedChecksum (d : ReadoutDesc) (h : d.WF) :
    ∃ expected, (expectedReadout d).expectedChecksum = .ok expected ∧
      mismatch (expectedReadout d) expected = false := by
  have hd := exp_drop_endPos d
  cases hc : d.checksum with
  | none =>
    have hk : cksPart d = [] := by unfold cksPart; rw [hc]
    rw [hk] at hd
    exact ⟨none, expectedChecksum_none _ [13, 10] hd (Or.inr (Or.inr rfl)), rfl⟩
  | some lower =>
    have hk : cksPart d = hex4 lower (crc16Arc d.body) := by unfold cksPart; rw [hc]
    rw [hk] at hd
    have ht := isChecksumText_hex4 lower (crc16Arc d.body) [13, 10]
      (crc16Arc_lt _ (body_octets d h)) (Or.inr (Or.inr rfl))
    refine ⟨some (crc16Arc d.body : Int), expectedChecksum_of_drop _ _ _ hd ht, ?_⟩
    unfold mismatch
    rw [make_calcCrc, exp_take_endPos]
    simp

theorem exp_identLine (d : ReadoutDesc) (h : d.WF) :
    (expectedReadout d).identLine =
      .ok { manid := d.man, ident := if d.ident.isEmpty then none else some d.ident } := by
  obtain ⟨a, b, c, hm, ha, hb, hc⟩ := wf_man d h
  obtain ⟨hlen, hid, hesc, _⟩ := wf_ident d h
  obtain ⟨u, x, hu, hx⟩ := headPart_ends d h
  have hasc : ∀ y ∈ d.identLine, y < 128 := by
    intro y hy
    rw [identLine_eq] at hy
    simp only [List.mem_append, List.mem_cons, List.not_mem_nil, or_false] at hy
    rcases hy with hy | hy | hy
    · have := headPart_okc d h y hy
      unfold Okc at this; omega
    · omega
    · omega
  have hstrip : strip d.identLine = headPart d := by
    rw [identLine_eq, hu]
    exact strip_core 47 x u [13, 10] (by decide) hx (by decide)
  have hhead : headPart d = 47 :: a :: b :: c :: d.baud :: (escFlat d.escs ++ d.ident) := by
    unfold headPart; rw [hm]; simp
  have hprint : d.ident.all Py.isPrintable = true := by
    rw [List.all_eq_true]
    intro y hy
    exact printable_of_dataChar y (List.all_eq_true.mp hid y hy)
  unfold Readout.identLine
  rw [exp_take_dataPos, decodeAscii_ok _ hasc]
  simp only [bind, Except.bind]
  rw [hstrip, hhead, identMatch_of_parts a b c d.baud d.escs d.ident ha hb hc h.2.1 h.2.2.1
    (dropEscPairs_self _ hesc) hprint hlen, hm]
  rfl

theorem exp_payload_ascii (d : ReadoutDesc) (h : d.WF) :
    ∀ ch ∈ (expectedReadout d).payload, ch ≤ 0x80 := by
  intro ch hch
  rw [exp_payload] at hch
  rcases payload_chars d h ch hch with h1 | h1 | h1
  · unfold Okc at h1; omega
  · omega
  · omega

theorem exp_isValid (d : ReadoutDesc) (h : d.WF) : (expectedReadout d).isValid = .ok true := by
  obtain ⟨expected, he, hmm⟩ := exp_expectedChecksum d h
  exact isValid_of_parts _ expected _ he hmm (exp_identLine d h) (exp_payload_ascii d h)

end Amshan.P1L
