import Amshan.GeneratedCode
import Amshan.Model.Fcs
import Amshan.Model.BackOff
import Amshan.Model.P1
import Amshan.Model.Hdlc

/-
  Helper lemmas for Props/C01Gen, C03Gen, C04Gen, C18Gen: every definition of Amshan/GeneratedCode.lean
  (the mechanical translation of Python function bodies) equals the hand-written model.

  Loops: the translation never exits a loop early, so every `for` is a fold.  `forIn_list_proj` /
  `forIn_range_proj` state that for an arbitrary loop body, observed through a projection of the
  tuple of `let mut` variables; the side condition (one iteration yields, and its projection is the
  model step) is discharged by `rfl` / `split`, so the proofs do not depend on how the body is spelled.
-/
namespace Amshan.GenLemmas

/-- A `for x in l` loop in `Id` whose body always yields, observed through a projection `p` of the
    loop state (the tuple of `let mut` variables), is a left fold of the projected state. -/
theorem forIn_list_proj {α β γ : Type} (p : β → γ) (g : γ → α → γ) (l : List α) (init : β)
    (f : α → β → Id (ForInStep β))
    (h : ∀ a s, ∃ s', f a s = pure (ForInStep.yield s') ∧ p s' = g (p s) a) :
    p (Id.run (forIn l init f)) = l.foldl g (p init) := by
  induction l generalizing init with
  | nil => rfl
  | cons a t ih =>
    obtain ⟨s', hs, hp⟩ := h a init
    rw [List.forIn_cons, hs]
    simp only [pure_bind, List.foldl_cons]
    rw [ih, hp]

/-- the same for `for i in [a:b]` -/
theorem forIn_range_proj {β γ : Type} (p : β → γ) (g : γ → Nat → γ) (a b : Nat) (init : β)
    (f : Nat → β → Id (ForInStep β))
    (h : ∀ i s, ∃ s', f i s = pure (ForInStep.yield s') ∧ p s' = g (p s) i) :
    p (Id.run (forIn (Std.Legacy.Range.mk a b 1 (by decide)) init f)) = (List.range' a (b - a)).foldl g (p init) := by
  rw [Std.Legacy.Range.forIn_eq_forIn_range']
  simp only [Std.Legacy.Range.size, Nat.add_sub_cancel, Nat.div_one]
  exact forIn_list_proj p g _ init f h

/-- `g` applied `n` times -/
def iter {γ : Type} (g : γ → γ) : Nat → γ → γ
  | 0, c => c
  | n + 1, c => iter g n (g c)

/-- a fold that ignores the index is an iteration -/
theorem foldl_range'_const {γ : Type} (g : γ → γ) (a n : Nat) (c : γ) :
    (List.range' a n).foldl (fun s _ => g s) c = iter g n c := by
  induction n generalizing a c with
  | zero => rfl
  | succ n ih => simp [List.range'_succ, ih, iter]


open Amshan.GenCode Amshan.Gen

/-! ### P1 CRC16 -/

theorem crcBits_eq_iter (n c : Nat) : P1.crcBits n c = iter P1.crcBit n c := by
  induction n generalizing c with
  | zero => rfl
  | succ n ih => simp [P1.crcBits, iter, ih]

theorem and_one_ne_zero (c : Nat) : ((c &&& 1) != 0) = decide (c &&& 1 = 1) := by
  rcases Nat.mod_two_eq_zero_or_one c with h | h <;> simp [Nat.and_one_is_mod, h]

theorem p1CalculateCrc16_eq (readout : List Nat) (endPos : Nat) :
    p1CalculateCrc16 readout endPos = P1.crc16 (readout.take (endPos + 1)) := by
  unfold p1CalculateCrc16 P1.crc16
  simp only [List.drop_zero]
  refine forIn_list_proj Prod.fst P1.crcByte _ _ _ ?_
  intro a s
  refine ⟨_, rfl, ?_⟩
  show Id.run (forIn _ _ _) = _
  rw [P1.crcByte, crcBits_eq_iter, ← foldl_range'_const (a := 0)]
  refine forIn_range_proj id _ 0 8 _ _ ?_
  intro _ c
  simp only [id, and_one_ne_zero, P1.crcBit, decide_eq_true_eq]
  split <;> exact ⟨_, rfl, rfl⟩


/-! ### fastframecheck -/

/-- the table generator of the source, evaluated by the kernel (256 × 8 iterations) -/
theorem computeFcsTable_eq : computeFcsTable = fcsTable := by
  set_option maxRecDepth 8192 in decide +kernel


theorem fcsNext_eq (crc byte : Nat) : fcsNext crc byte = Fcs.next crc byte := rfl

theorem fcsChecksum_eq (r : Nat) : fcsChecksum r = Fcs.checksum r := rfl

theorem fcsIsGood_eq (r : Nat) : fcsIsGood r = Fcs.isGood r := rfl

/-- the model's loop, inside the data, as a fold over the indices -/
theorem computeLoop_eq_foldl (data : List Nat) (n i fcs : Nat) (h : i + n ≤ data.length) :
    Fcs.computeLoop data i n fcs =
      .ok ((List.range' i n).foldl (fun c j => Fcs.next c (data.getD j 0)) fcs) := by
  induction n generalizing i fcs with
  | zero => rfl
  | succ n ih =>
    have hi : i < data.length := by omega
    simp only [Fcs.computeLoop, List.getElem?_eq_getElem hi]
    rw [ih (i + 1) _ (by omega)]
    simp [List.range'_succ, Fcs.next, List.getD_eq_getElem?_getD, List.getElem?_eq_getElem hi]

theorem fcsComputeChecksum_eq (data : List Nat) (start len : Nat) (h : start + len ≤ data.length) :
    Fcs.computeChecksum data start len = .ok (fcsComputeChecksum data start len) := by
  unfold Fcs.computeChecksum
  rw [computeLoop_eq_foldl data len start fcsInit h]
  have : fcsComputeChecksum data start len =
      (List.range' start len).foldl (fun c j => Fcs.next c (data.getD j 0)) fcsInit ^^^ 65535 := by
    unfold fcsComputeChecksum
    show Prod.fst (Id.run (forIn _ _ _)) ^^^ _ = _
    rw [forIn_range_proj Prod.fst (fun c j => Fcs.next c (data.getD j 0))]
    · simp
    · intro i s; exact ⟨_, rfl, rfl⟩
  rw [this]

/-! ### back-off -/

theorem backoffFailure_eq (d : Nat) : backoffFailure d = if d * 2 = 0 then 1 else d * 2 := by
  unfold backoffFailure
  simp only [Id.run, beq_iff_eq]
  split <;> rfl

theorem backoffReset_eq (d : Nat) : backoffReset d = 0 := rfl

theorem backoffCurrent_eq (d m : Nat) : backoffCurrent d m = if d < m then d else m := by
  unfold backoffCurrent
  simp only [decide_eq_true_eq]
  rfl

theorem getBackOffTime_eq (d : Nat) (flag : Bool) (sec : Nat) :
    GenCode.getBackOffTime d flag sec =
      if (decide (d > 0) || flag) then max d (if flag then sec else 0) else 0 := by
  unfold GenCode.getBackOffTime
  simp only [Id.run]
  split <;> rfl

/-! ### HDLC header accessors -/

theorem hdlcFrameFormat_eq (f : Hdlc.Frame) : hdlcFrameFormat f.data = f.frameFormat := by
  unfold hdlcFrameFormat Hdlc.Frame.frameFormat
  rcases f.data with _ | ⟨a, _ | ⟨b, t⟩⟩ <;> simp [Id.run] <;> rfl

theorem hdlcOptMap_eq {β : Type} (o : Option Nat) (g : Nat → β) :
    (if o.isSome then some (g (o.getD 0)) else none) = o.map g := by
  cases o <;> rfl

theorem hdlcFrameFormatType_eq (f : Hdlc.Frame) : hdlcFrameFormatType f.data = f.formatType := by
  unfold hdlcFrameFormatType Hdlc.Frame.formatType
  rw [hdlcFrameFormat_eq]
  cases f.frameFormat <;> rfl

theorem hdlcSegmentation_eq (f : Hdlc.Frame) : hdlcSegmentation f.data = f.segmentation := by
  unfold hdlcSegmentation Hdlc.Frame.segmentation
  rw [hdlcFrameFormat_eq]
  cases f.frameFormat <;> rfl

theorem hdlcFrameLength_eq (f : Hdlc.Frame) : hdlcFrameLength f.data = f.frameLength := by
  unfold hdlcFrameLength Hdlc.Frame.frameLength
  rw [hdlcFrameFormat_eq]
  cases f.frameFormat <;> rfl

theorem hdlcInformationPosition_eq (f : Hdlc.Frame) : hdlcInformationPosition f.ctlPos = f.infoPos := by
  unfold hdlcInformationPosition Hdlc.Frame.infoPos
  cases f.ctlPos <;> rfl

end Amshan.GenLemmas
