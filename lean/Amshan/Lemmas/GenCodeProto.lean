import Amshan.Lemmas.GenCodeLoop
import Amshan.GeneratedCodeProto
import Amshan.Model.ProtocolState
/- `SmartMeterBaseProtocol.data_received` and the two concrete `message_received`, mechanically translated from the
   source (Amshan/GeneratedCodeProto.lean, regenerated on every run), equal the hand-written model
   (`Proto.dataReceived` / `Proto.trySelect`, `Proto.received` of Model/Protocol.lean).

   The translated `data_received` takes the record `PyState` (`_selected_reader`, `_reader_candidates`) and answers
   the record afterwards and the messages given to `self.message_received`, in order.  Readers are opaque objects
   with state: `reader.read(data)` is `Rd.feed` (the reader afterwards, its messages); the loop over the candidates,
   which changes them in place, is `GenRt.forLoopMut` (it answers the list with the visited candidates as they are
   now).  The model's state also remembers the INDEX of the selected candidate (which object it is); the Python
   object does not: `State.erase` forgets it, and the theorem says that the translated method maps the erased state
   to the erased state of the model's step.

   The proof is by the reference body `protoRefBody` (one step of the model's `trySelect`, as a loop body): the
   generated body equals it on the state with which the loop is entered (no reader selected, the list not cleared,
   nothing forwarded) - by evaluation of the inner loops, whatever they look like - and an iteration that goes on
   leaves that state unchanged; `protoRef_trySelect` ties the reference loop to `trySelect` by induction. -/
set_option linter.unusedSimpArgs false
set_option linter.unusedVariables false
namespace Amshan.GenLemmas
open Amshan.GenCode Amshan.GenRt Amshan.Proto

universe v
variable {ρ : Type v}

/-- the state of the translated candidate loop: `_selected_reader`, "`_reader_candidates` was cleared", the messages forwarded -/
abbrev PSt := Option Rd × Bool × List Msg

/-- the messages given to `message_received` by one `data_received` call of the model -/
def forwardedNow (s : State) (data : List Nat) : List Msg :=
  match s.selected with
  | some (_, r) => (r.feed data).2
  | none =>
    match trySelect data s.candidates 0 with
    | (_, some (_, _, msgs)) => msgs
    | (_, none) => []

theorem dataReceived_items (k : Kind) (s : State) (data : List Nat) :
    (dataReceived k s data).2 = (forwardedNow s data).flatMap (received k) := by
  unfold dataReceived forwardedNow
  rcases s with ⟨sel, cands⟩
  cases sel with
  | some ir => rfl
  | none =>
    simp only
    rcases h : trySelect data cands 0 with ⟨cs, _ | ⟨i, r, msgs⟩⟩ <;> simp

/-- one step of the model's `trySelect`, as the body of the translated candidate loop -/
def protoRefBody (data : List Nat) (st : PSt) (r : Rd) : Rd × Step PSt ρ :=
  if (r.feed data).2.any (·.valid) then
    ((r.feed data).1, .brk (some (r.feed data).1, true, st.2.2 ++ (r.feed data).2))
  else ((r.feed data).1, .next st)

/-- the loop with the reference body is the model's `trySelect` -/
theorem protoRef_trySelect (data : List Nat) (K : List Rd → PSt → ρ) (st : PSt) (done l : List Rd) (i : Nat) :
    forLoopMut.go (protoRefBody data) K done l st =
      match trySelect data l i with
      | (cs, none) => K (done ++ cs) st
      | (cs, some (_, r, msgs)) => K (done ++ cs) (some r, true, st.2.2 ++ msgs) := by
  induction l generalizing done i with
  | nil => simp [trySelect]
  | cons x xs ih =>
    rw [forLoopMut_go_cons, trySelect, protoRefBody]
    by_cases hv : (x.feed data).2.any (·.valid) = true
    · simp [hv]
    · simp only [hv, Bool.false_eq_true, if_false]
      rw [ih (done ++ [(x.feed data).1]) (i + 1)]
      rcases h : trySelect data xs (i + 1) with ⟨cs, _ | ⟨j, r, msgs⟩⟩ <;> simp

/-- `data_received(data)`: the Python object's state afterwards is the (erased) state of the model's step, and the
    messages forwarded are those the model forwards -/
theorem protoDataReceived_eq (k : Kind) (s : State) (data : List Nat) :
    protoDataReceived s.erase data = ((dataReceived k s data).1.erase, forwardedNow s data) := by
  unfold protoDataReceived dataReceived forwardedNow State.erase
  rcases s with ⟨sel, cands⟩
  cases sel with
  | some ir =>
    rcases ir with ⟨i, r⟩
    simp [foldl_snoc, flatten_map_singleton, Rd.feed]
  | none =>
    simp only [Option.map_none, Option.isSome_none, Bool.false_eq_true, if_false]
    unfold forLoopMut
    rw [forLoopMut_go_congr_const (g := protoRefBody data)]
    · rw [protoRef_trySelect data _ _ [] cands 0]
      rcases h : trySelect data cands 0 with ⟨cs, _ | ⟨j, r, msgs⟩⟩ <;> simp [foldl_snoc, flatten_map_singleton]
    · intro a
      -- "does the candidate report a valid message?": a loop that breaks at the first one, or a fold that raises a flag
      try rw [forLoop_any (fun m : Msg => m.valid) (some (a.feed data).1, true) _ _ _ (by intro m; cases m.valid <;> simp)]
      try rw [foldl_flag_any (fun m : Msg => m.valid) _ _ (by intro b m; cases m.valid <;> simp)]
      unfold protoRefBody
      by_cases hv : (a.feed data).2.any (fun m => m.valid) = true
      · simp [hv, foldl_snoc, flatten_map_singleton]
      · simp [hv]
    · intro a x' s' h
      unfold protoRefBody at h
      split at h <;> simp_all

/-- `SmartMeterMessageProtocol.message_received`: the message goes on the queue -/
theorem protoMessageReceived_eq (m : Msg) : (protoMessageReceived m).map Item.msg = received .message m := by
  unfold protoMessageReceived received
  simp

/-- `SmartMeterMessagePayloadProtocol.message_received`: the non-empty payload of a valid message goes on the queue -/
theorem protoPayloadReceived_eq (m : Msg) : (protoPayloadReceived m).map Item.payload = received .payload m := by
  unfold protoPayloadReceived received
  rcases m with ⟨valid, payload, bytes⟩
  cases valid <;> cases payload <;> simp <;> grind

end Amshan.GenLemmas
