import Amshan.Lemmas.GenCodeBase
import Amshan.GeneratedCodeHdlc
import Amshan.Model.Hdlc
/- Per-property part of the GeneratedCode equivalence lemmas (split so that a change to one translated
   function only breaks the proofs of the property that function belongs to).

   The proofs are semantic: the generated definition and the model are unfolded, the options / lists involved are
   split into their cases, and the remaining statement about `if`s, Booleans, list lookups and linear arithmetic is
   decided (`simp` + `gen_decide`, i.e. `grind`); they do not depend on how the source spells the computation (early return or nested
   `if`, `is None` or `is not None`, temporaries, operand order, `>= 2` or `> 1`, ...). -/
set_option linter.unusedSimpArgs false   -- simp sets are deliberately wider than one spelling of the source needs
namespace Amshan.GenLemmas
open Amshan.GenCode Amshan.Gen Amshan.Hdlc

/-! ### HDLC header accessors -/

theorem hdlcFrameFormat_eq (f : Hdlc.Frame) : hdlcFrameFormat f.data = f.frameFormat := by
  unfold hdlcFrameFormat Hdlc.Frame.frameFormat
  rcases f.data with _ | ⟨a, _ | ⟨b, t⟩⟩ <;> simp <;> gen_decide

theorem hdlcFrameFormatType_eq (f : Hdlc.Frame) : hdlcFrameFormatType f.data = f.formatType := by
  unfold hdlcFrameFormatType Hdlc.Frame.formatType
  try simp only [hdlcFrameFormat_eq]
  cases f.frameFormat <;> simp <;> gen_decide

theorem hdlcSegmentation_eq (f : Hdlc.Frame) : hdlcSegmentation f.data = f.segmentation := by
  unfold hdlcSegmentation Hdlc.Frame.segmentation
  try simp only [hdlcFrameFormat_eq]
  cases f.frameFormat <;> simp <;> gen_decide

theorem hdlcFrameLength_eq (f : Hdlc.Frame) : hdlcFrameLength f.data = f.frameLength := by
  unfold hdlcFrameLength Hdlc.Frame.frameLength
  try simp only [hdlcFrameFormat_eq]
  cases f.frameFormat <;> simp <;> gen_decide

theorem hdlcInformationPosition_eq (f : Hdlc.Frame) : hdlcInformationPosition f.ctlPos = f.infoPos := by
  unfold hdlcInformationPosition Hdlc.Frame.infoPos
  cases f.ctlPos <;> simp <;> gen_decide

/-! ### HDLC header: fields at the cached control position (explicit `data`, `ctlPos`; no frame invariant needed) -/

theorem hdlcControl_eq (f : Hdlc.Frame) : hdlcControl f.data f.ctlPos = f.control := by
  rcases f with ⟨data, crc, cp⟩
  unfold hdlcControl Hdlc.Frame.control Hdlc.Frame.len
  cases cp <;> simp <;> gen_decide

theorem hdlcHeaderCheckSequence_eq (f : Hdlc.Frame) : hdlcHeaderCheckSequence f.data f.ctlPos = f.hcs := by
  rcases f with ⟨data, crc, cp⟩
  unfold hdlcHeaderCheckSequence Hdlc.Frame.hcs Hdlc.Frame.len
  cases cp <;> simp <;> gen_decide

/-! ### HDLC header: addresses.  `_get_address` is a `while True:` loop; the translator emits it as
    `hdlcGetAddress.loop1` (recursion on fuel, answering `oof` when the fuel is used up). -/

/-- the translated `while True` loop of `_get_address`: for every value `oof` answered when the fuel runs out
    and every fuel larger than the number of octets left, it is the model's recursion — in particular the fuel
    never runs out. -/
theorem hdlcGetAddress_loop_eq (data : List Nat) (position : Nat) (oof : Option (List Nat)) :
    ∀ (fuel : Nat) (adr : List Nat) (i cur : Nat), i ≤ data.length → data.length < fuel + i →
      hdlcGetAddress.loop1 data position oof fuel adr i data cur
        = (Hdlc.getAddressFrom (data.drop i)).map (adr ++ ·) := by
  intro fuel
  induction fuel with
  | zero => intro adr i cur h1 h2; omega
  | succ n ih =>
    intro adr i cur h1 h2
    unfold hdlcGetAddress.loop1
    by_cases hi : i < data.length
    · have hodd : data[i] % 2 = 1 ∨ data[i] % 2 = 0 := by omega
      rw [List.drop_eq_getElem_cons hi]
      rcases hodd with hodd | hodd <;>
        simp [Hdlc.getAddressFrom, hi, hodd, Nat.and_one_is_mod, ih, Function.comp_def] <;> gen_decide
    · have : data.drop i = [] := List.drop_eq_nil_of_le (by omega)
      simp [hi, this, Hdlc.getAddressFrom] <;> gen_decide

theorem hdlcGetAddress_eq (data : List Nat) (position : Nat) :
    hdlcGetAddress data position = Hdlc.getAddress data position := by
  unfold hdlcGetAddress Hdlc.getAddress
  by_cases h : position < data.length
  · simp [h]
    rw [hdlcGetAddress_loop_eq _ _ _ _ _ _ _ (by omega) (by omega)]
    all_goals simp
  · simp [h] <;> gen_decide

theorem hdlcDestinationAddress_eq (data : List Nat) : hdlcDestinationAddress data = Hdlc.destAddr data := by
  unfold hdlcDestinationAddress Hdlc.destAddr
  simp only [hdlcGetAddress_eq]
  gen_decide

theorem hdlcSourceAddress_eq (data : List Nat) : hdlcSourceAddress data = Hdlc.srcAddr data := by
  unfold hdlcSourceAddress Hdlc.srcAddr
  simp only [hdlcGetAddress_eq, hdlcDestinationAddress_eq]
  cases Hdlc.destAddr data <;> simp <;> gen_decide

theorem hdlcGetControlFieldPosition_eq (data : List Nat) :
    hdlcGetControlFieldPosition data = Hdlc.controlPos data := by
  unfold hdlcGetControlFieldPosition Hdlc.controlPos
  simp only [hdlcSourceAddress_eq, hdlcDestinationAddress_eq]
  -- without a destination address there is no source address (for sources that test only the latter)
  have hsrc : Hdlc.destAddr data = none → Hdlc.srcAddr data = none := by intro h; simp [Hdlc.srcAddr, h]
  cases hd : Hdlc.destAddr data <;> cases hs : Hdlc.srcAddr data <;> simp_all <;> gen_decide

/-! ### `HdlcFrameHeader.update()` (the cached `_is_header_good` is not modelled: second component) -/

/-- `HdlcFrameHeader.update()`: the cached control position afterwards is the one `Frame.append` stores. -/
theorem hdlcHeaderUpdate_fst (data : List Nat) (g : Bool) (cp : Option Nat) (hg : Option Bool) :
    (hdlcHeaderUpdate data g cp hg).1 =
      (match cp with
       | some p => some p
       | none => if data.length > 3 then Hdlc.controlPos data else none) := by
  unfold hdlcHeaderUpdate
  simp only [hdlcGetControlFieldPosition_eq]
  cases cp <;> cases hg <;> cases hc : Hdlc.controlPos data <;> simp <;> gen_decide

theorem hdlcHeaderUpdate_append (f : Hdlc.Frame) (b : Nat) (g : Bool) (hg : Option Bool) :
    (hdlcHeaderUpdate (f.data ++ [b]) g f.ctlPos hg).1 = (f.append b).ctlPos := by
  rw [hdlcHeaderUpdate_fst]; rfl

/-! ### HdlcFrame accessors -/

theorem hdlcIsGoodFfc_eq (f : Hdlc.Frame) : hdlcIsGoodFfc (Fcs.isGood f.crc) = f.isGoodFfc := by
  unfold hdlcIsGoodFfc Hdlc.Frame.isGoodFfc; gen_decide

theorem hdlcIsExpectedLength_eq (f : Hdlc.Frame) : hdlcIsExpectedLength f.data = f.isExpectedLength := by
  unfold hdlcIsExpectedLength Hdlc.Frame.isExpectedLength Hdlc.Frame.len
  try simp only [hdlcFrameLength_eq]
  all_goals (cases f.frameLength <;> simp <;> gen_decide)

theorem hdlcFrameCheckSequence_eq (f : Hdlc.Frame) : hdlcFrameCheckSequence f.data f.ctlPos = f.fcsField := by
  rcases f with ⟨data, crc, cp⟩
  unfold hdlcFrameCheckSequence hdlcInformationPosition Hdlc.Frame.fcsField Hdlc.Frame.infoPos Hdlc.Frame.len
  cases cp <;> simp <;> gen_decide

/-- The translation computes `len(data) - 2` in `Nat` (truncated); Python would index from the end for a negative
    value.  Whenever `frame_check_sequence` answers a number the frame has at least 3 octets (the information
    position is a control position + 3), so no subtraction is truncated. -/
theorem hdlcFrameCheckSequence_guard (data : List Nat) (cp : Option Nat)
    (h : (hdlcFrameCheckSequence data cp).isSome) : 3 ≤ data.length := by
  unfold hdlcFrameCheckSequence hdlcInformationPosition at h
  cases cp <;> simp at h <;> gen_decide

theorem hdlcPayload_eq (f : Hdlc.Frame) : hdlcPayload f.data f.ctlPos = f.payload := by
  unfold hdlcPayload Hdlc.Frame.payload Hdlc.Frame.len sliceNegEnd
  try simp only [hdlcInformationPosition_eq]
  cases f.infoPos <;> simp <;> gen_decide

theorem hdlcIsValid_eq (f : Hdlc.Frame) : hdlcIsValid f.isGoodFfc f.data = f.isValid := by
  unfold hdlcIsValid Hdlc.Frame.isValid
  try simp only [hdlcIsExpectedLength_eq]
  all_goals (cases f.isGoodFfc <;> cases f.isExpectedLength <;> simp <;> gen_decide)

end Amshan.GenLemmas
