import Amshan.Lemmas.GenCodeBase
import Amshan.GeneratedCodeHdlc
import Amshan.Model.Hdlc
/- Per-property part of the GeneratedCode equivalence lemmas (split so that a change to one translated
   function only breaks the proofs of the property that function belongs to). -/
namespace Amshan.GenLemmas
open Amshan.GenCode Amshan.Gen Amshan.Hdlc

/-! ### HDLC header accessors -/

theorem hdlcFrameFormat_eq (f : Hdlc.Frame) : hdlcFrameFormat f.data = f.frameFormat := by
  unfold hdlcFrameFormat Hdlc.Frame.frameFormat
  rcases f.data with _ | ⟨a, _ | ⟨b, t⟩⟩ <;> simp [Id.run] <;> rfl

theorem hdlcOptMap_eq {β : Type} (o : Option Nat) (g : Nat → β) :
    (if o.isSome then some (g (o.getD 0)) else none) = o.map g := by
  cases o <;> rfl

theorem hdlcFrameFormatType_eq (f : Hdlc.Frame) : hdlcFrameFormatType f.data = f.formatType := by
  unfold hdlcFrameFormatType Hdlc.Frame.formatType
  rw [hdlcFrameFormat_eq]
  cases f.frameFormat <;> rfl

theorem hdlcSegmentation_eq (f : Hdlc.Frame) : hdlcSegmentation f.data = f.segmentation := by
  unfold hdlcSegmentation Hdlc.Frame.segmentation
  rw [hdlcFrameFormat_eq]
  cases f.frameFormat <;> rfl

theorem hdlcFrameLength_eq (f : Hdlc.Frame) : hdlcFrameLength f.data = f.frameLength := by
  unfold hdlcFrameLength Hdlc.Frame.frameLength
  rw [hdlcFrameFormat_eq]
  cases f.frameFormat <;> rfl

theorem hdlcInformationPosition_eq (f : Hdlc.Frame) : hdlcInformationPosition f.ctlPos = f.infoPos := by
  unfold hdlcInformationPosition Hdlc.Frame.infoPos
  cases f.ctlPos <;> rfl

/-! ### HDLC header: fields at the cached control position (explicit `data`, `ctlPos`; no frame invariant needed) -/

theorem hdlcControl_eq (f : Hdlc.Frame) : hdlcControl f.data f.ctlPos = f.control := by
  rcases f with ⟨data, crc, cp⟩
  unfold hdlcControl Hdlc.Frame.control Hdlc.Frame.len
  cases cp with
  | none => simp
  | some p => simp; split <;> simp_all

theorem hdlcHeaderCheckSequence_eq (f : Hdlc.Frame) : hdlcHeaderCheckSequence f.data f.ctlPos = f.hcs := by
  rcases f with ⟨data, crc, cp⟩
  unfold hdlcHeaderCheckSequence Hdlc.Frame.hcs Hdlc.Frame.len
  cases cp with
  | none => simp
  | some p =>
    simp
    split
    · rename_i h
      have h1 : p + 1 < data.length := by omega
      simp [List.getElem?_eq_getElem h, List.getElem?_eq_getElem h1]
    · simp

/-! ### HDLC header: addresses.  `_get_address` is a `while True:` loop; the translator emits it as
    `hdlcGetAddress.loop1` (recursion on fuel, answering `oof` when the fuel is used up). -/

/-- the translated `while True` loop of `_get_address`: for every value `oof` answered when the fuel runs out
    and every fuel larger than the number of octets left, it is the model's recursion — in particular the fuel
    never runs out. -/
theorem hdlcGetAddress_loop_eq (data : List Nat) (position : Nat) (oof : Option (List Nat)) :
    ∀ (fuel : Nat) (adr : List Nat) (i cur : Nat), i ≤ data.length → data.length < fuel + i →
      hdlcGetAddress.loop1 data position oof fuel adr i data cur
        = (Hdlc.getAddressFrom (data.drop i)).map (adr ++ ·) := by
  intro fuel
  induction fuel with
  | zero => intro adr i cur h1 h2; omega
  | succ n ih =>
    intro adr i cur h1 h2
    unfold hdlcGetAddress.loop1
    by_cases hi : i ≥ data.length
    · have : data.drop i = [] := List.drop_eq_nil_of_le hi
      simp [hi, this, Hdlc.getAddressFrom]
    · have hlt : i < data.length := by omega
      rw [List.drop_eq_getElem_cons hlt]
      simp only [Hdlc.getAddressFrom]
      by_cases hodd : data[i] % 2 = 1
      · simp [hi, hlt, hodd, Nat.and_one_is_mod]
      · simp [hi, hlt, hodd, Nat.and_one_is_mod]
        rw [ih _ _ _ (by omega) (by omega)]
        simp [Function.comp_def]

theorem hdlcGetAddress_eq (data : List Nat) (position : Nat) :
    hdlcGetAddress data position = Hdlc.getAddress data position := by
  unfold hdlcGetAddress Hdlc.getAddress
  by_cases h : data.length > position
  · simp [h]
    rw [hdlcGetAddress_loop_eq _ _ _ _ _ _ _ (by omega) (by omega)]
    simp
  · simp [h]

theorem hdlcDestinationAddress_eq (data : List Nat) : hdlcDestinationAddress data = Hdlc.destAddr data := by
  unfold hdlcDestinationAddress Hdlc.destAddr
  simp only [hdlcGetAddress_eq]
  by_cases h : data.length ≥ 2 <;> simp [h]

theorem hdlcSourceAddress_eq (data : List Nat) : hdlcSourceAddress data = Hdlc.srcAddr data := by
  unfold hdlcSourceAddress Hdlc.srcAddr
  simp only [hdlcGetAddress_eq, hdlcDestinationAddress_eq]
  cases Hdlc.destAddr data <;> simp

theorem hdlcGetControlFieldPosition_eq (data : List Nat) :
    hdlcGetControlFieldPosition data = Hdlc.controlPos data := by
  unfold hdlcGetControlFieldPosition Hdlc.controlPos
  simp only [hdlcSourceAddress_eq, hdlcDestinationAddress_eq]
  cases Hdlc.destAddr data <;> cases Hdlc.srcAddr data <;> simp

/-! ### `HdlcFrameHeader.update()` (the cached `_is_header_good` is not modelled: second component) -/

/-- `HdlcFrameHeader.update()`: the cached control position afterwards is the one `Frame.append` stores. -/
theorem hdlcHeaderUpdate_fst (data : List Nat) (g : Bool) (cp : Option Nat) (hg : Option Bool) :
    (hdlcHeaderUpdate data g cp hg).1 =
      (match cp with
       | some p => some p
       | none => if data.length > 3 then Hdlc.controlPos data else none) := by
  unfold hdlcHeaderUpdate
  simp only [hdlcGetControlFieldPosition_eq]
  cases cp with
  | some p => cases hg <;> simp <;> split <;> simp
  | none =>
    by_cases h : data.length > 3
    · cases hc : Hdlc.controlPos data <;> cases hg <;> simp [h] <;> split <;> simp
    · simp [h]

theorem hdlcHeaderUpdate_append (f : Hdlc.Frame) (b : Nat) (g : Bool) (hg : Option Bool) :
    (hdlcHeaderUpdate (f.data ++ [b]) g f.ctlPos hg).1 = (f.append b).ctlPos := by
  rw [hdlcHeaderUpdate_fst]; rfl

/-! ### HdlcFrame accessors -/

theorem hdlcIsGoodFfc_eq (f : Hdlc.Frame) : hdlcIsGoodFfc (Fcs.isGood f.crc) = f.isGoodFfc := rfl

theorem hdlcIsExpectedLength_eq (f : Hdlc.Frame) : hdlcIsExpectedLength f.data = f.isExpectedLength := by
  unfold hdlcIsExpectedLength Hdlc.Frame.isExpectedLength Hdlc.Frame.len
  rw [hdlcFrameLength_eq]; rfl

theorem hdlcFrameCheckSequence_eq (f : Hdlc.Frame) : hdlcFrameCheckSequence f.data f.ctlPos = f.fcsField := by
  unfold hdlcFrameCheckSequence Hdlc.Frame.fcsField Hdlc.Frame.len
  rw [hdlcInformationPosition_eq]
  cases h : f.infoPos with
  | none => simp
  | some ip =>
    have : 3 ≤ ip := by
      unfold Hdlc.Frame.infoPos at h
      cases hc : f.ctlPos <;> simp_all
      omega
    simp
    split
    · rename_i hl
      have h1 : f.data.length - 1 < f.data.length := by omega
      have h2 : f.data.length - 2 < f.data.length := by omega
      simp [List.getElem?_eq_getElem h1, List.getElem?_eq_getElem h2]
    · simp

/-- The translation computes `len(data) - 2` in `Nat` (truncated); Python would index from the end for a negative
    value.  Whenever `frame_check_sequence` answers a number the frame has at least 3 octets (the information
    position is a control position + 3), so no subtraction is truncated. -/
theorem hdlcFrameCheckSequence_guard (data : List Nat) (cp : Option Nat)
    (h : (hdlcFrameCheckSequence data cp).isSome) : 3 ≤ data.length := by
  unfold hdlcFrameCheckSequence hdlcInformationPosition at h
  cases cp with
  | none => simp at h
  | some p =>
    simp at h
    split at h
    · omega
    · simp at h

theorem hdlcPayload_eq (f : Hdlc.Frame) : hdlcPayload f.data f.ctlPos = f.payload := by
  unfold hdlcPayload Hdlc.Frame.payload Hdlc.Frame.len sliceNegEnd
  rw [hdlcInformationPosition_eq]
  cases f.infoPos with
  | none => simp
  | some ip => simp; split <;> simp_all

theorem hdlcIsValid_eq (f : Hdlc.Frame) : hdlcIsValid f.isGoodFfc f.data = f.isValid := by
  unfold hdlcIsValid Hdlc.Frame.isValid
  rw [hdlcIsExpectedLength_eq]
  cases f.isGoodFfc <;> cases f.isExpectedLength <;> rfl

end Amshan.GenLemmas
