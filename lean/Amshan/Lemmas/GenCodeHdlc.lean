import Amshan.Lemmas.GenCodeBase
import Amshan.GeneratedCodeHdlc
import Amshan.Model.Hdlc
/- Per-property part of the GeneratedCode equivalence lemmas (split so that a change to one translated
   function only breaks the proofs of the property that function belongs to). -/
namespace Amshan.GenLemmas
open Amshan.GenCode Amshan.Gen

/-! ### HDLC header accessors -/

theorem hdlcFrameFormat_eq (f : Hdlc.Frame) : hdlcFrameFormat f.data = f.frameFormat := by
  unfold hdlcFrameFormat Hdlc.Frame.frameFormat
  rcases f.data with _ | ⟨a, _ | ⟨b, t⟩⟩ <;> simp [Id.run] <;> rfl

theorem hdlcOptMap_eq {β : Type} (o : Option Nat) (g : Nat → β) :
    (if o.isSome then some (g (o.getD 0)) else none) = o.map g := by
  cases o <;> rfl

theorem hdlcFrameFormatType_eq (f : Hdlc.Frame) : hdlcFrameFormatType f.data = f.formatType := by
  unfold hdlcFrameFormatType Hdlc.Frame.formatType
  rw [hdlcFrameFormat_eq]
  cases f.frameFormat <;> rfl

theorem hdlcSegmentation_eq (f : Hdlc.Frame) : hdlcSegmentation f.data = f.segmentation := by
  unfold hdlcSegmentation Hdlc.Frame.segmentation
  rw [hdlcFrameFormat_eq]
  cases f.frameFormat <;> rfl

theorem hdlcFrameLength_eq (f : Hdlc.Frame) : hdlcFrameLength f.data = f.frameLength := by
  unfold hdlcFrameLength Hdlc.Frame.frameLength
  rw [hdlcFrameFormat_eq]
  cases f.frameFormat <;> rfl

theorem hdlcInformationPosition_eq (f : Hdlc.Frame) : hdlcInformationPosition f.ctlPos = f.infoPos := by
  unfold hdlcInformationPosition Hdlc.Frame.infoPos
  cases f.ctlPos <;> rfl

end Amshan.GenLemmas
