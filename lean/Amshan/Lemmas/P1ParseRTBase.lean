import Amshan.Model.P1Parse
import Amshan.Spec.P1Block
open Amshan Amshan.Gen Amshan.Cosem Amshan.P1Parse Amshan.P1BlockSpec Amshan.Py

namespace Amshan.P1ParseRT

/-! ### find / findFrom -/

theorem find_some {xs : List Nat} {c i : Nat} (h : find xs c = some i) : i < xs.length := by
  unfold find at h
  simp only at h
  split at h
  · cases h; assumption
  · cases h

theorem findFrom_some {line : List Nat} {c s e : Nat} (h : findFrom line c s = some e) :
    s ≤ e ∧ e < line.length := by
  unfold findFrom at h
  cases hf : find (line.drop s) c with
  | none => rw [hf] at h; cases h
  | some i =>
    rw [hf] at h
    have := find_some hf
    simp only [Option.map_some, Option.some.injEq, List.length_drop] at h this
    omega

theorem getElem?_lt {line : List Nat} {i c : Nat} (h : line[i]? = some c) : i < line.length := by
  rcases Nat.lt_or_ge i line.length with h1 | h1
  · exact h1
  · rw [List.getElem?_eq_none h1] at h; cases h

/-- `findFrom` starting at a position holding a different character finds a strictly later position -/
theorem findFrom_some_ne {line : List Nat} {c c' s e : Nat} (h : findFrom line c s = some e)
    (hs : line[s]? = some c') (hne : c' ≠ c) : s < e := by
  have h1 := findFrom_some h
  rcases Nat.lt_or_ge s e with h2 | h2
  · exact h2
  · have hse : s = e := by omega
    subst hse
    exfalso
    unfold findFrom find at h
    have hlt := getElem?_lt hs
    rw [List.drop_eq_getElem_cons hlt] at h
    have hc : line[s] = c' := by
      rw [List.getElem?_eq_getElem hlt] at hs; exact Option.some.inj hs
    rw [hc] at h
    have hb : (c' != c) = true := by simp [hne]
    simp only [List.takeWhile_cons, hb, if_true, List.length_cons] at h
    split at h
    · simp only [Option.map_some, Option.some.injEq] at h; omega
    · cases h

/-! ### parseValue never overflows -/

theorem parseValue_ne_overflow (s : List Nat) : parseValue s ≠ .error .overflowError := by
  unfold parseValue
  split <;> simp

/-! ### valuesLoop -/

theorem valuesLoop_ne_overflow (line : List Nat) :
    ∀ (fuel fromPos : Nat) (values : List DataSetValue) (iters : Nat),
      line.length - fromPos < fuel → valuesLoop line fuel fromPos values iters ≠ .error .overflowError := by
  intro fuel
  induction fuel with
  | zero => intro fromPos values iters h; omega
  | succ fuel ih =>
    intro fromPos values iters h
    unfold valuesLoop
    split
    · simp
    · rename_i h40
      simp only [bne_iff_ne, ne_eq, Decidable.not_not] at h40
      have hlt := getElem?_lt h40
      split
      · simp
      · rename_i endPos hfind
        have hlt2 := findFrom_some_ne hfind h40 (by decide)
        split
        · rename_i e he
          intro hc
          injection hc with hc
          subst hc
          exact parseValue_ne_overflow _ he
        · simp only
          split
          · simp
          · split
            · simp
            · apply ih
              omega

/-- what a successful `valuesLoop` tells: at least one iteration, every iteration consumes at least two
    characters, and a returned position is inside the line and after the start -/
theorem valuesLoop_ok (line : List Nat) :
    ∀ (fuel fromPos : Nat) (values : List DataSetValue) (iters : Nat) (pos : Option Nat)
      (vs : List DataSetValue) (it : Nat),
      valuesLoop line fuel fromPos values iters = .ok (pos, vs, it) →
      iters + 1 ≤ it ∧ vs ≠ [] ∧
      (match pos with
       | some p => fromPos + 2 * (it - iters) ≤ p ∧ p < line.length
       | none => fromPos + 2 * (it - iters) ≤ line.length) := by
  intro fuel
  induction fuel with
  | zero => intro fromPos values iters pos vs it h; unfold valuesLoop at h; cases h
  | succ fuel ih =>
    intro fromPos values iters pos vs it h
    unfold valuesLoop at h
    split at h
    · cases h
    · rename_i h40
      simp only [bne_iff_ne, ne_eq, Decidable.not_not] at h40
      have hlt := getElem?_lt h40
      split at h
      · cases h
      · rename_i endPos hfind
        have hlt2 := findFrom_some_ne hfind h40 (by decide)
        have hlt3 := (findFrom_some hfind).2
        split at h
        · cases h
        · simp only at h
          split at h
          · rename_i hl
            cases h
            refine ⟨by omega, by simp, ?_⟩
            simp only
            omega
          · split at h
            · cases h
              refine ⟨by omega, by simp, ?_⟩
              simp only
              omega
            · have := ih _ _ _ _ _ _ h
              obtain ⟨a1, a2, a3⟩ := this
              refine ⟨by omega, a2, ?_⟩
              cases pos with
              | some p => simp only at a3 ⊢; omega
              | none => simp only at a3 ⊢; omega


end Amshan.P1ParseRT
