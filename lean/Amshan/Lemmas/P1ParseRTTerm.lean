import Amshan.Model.P1Parse
import Amshan.Spec.P1Block
import Amshan.Lemmas.P1ParseRTBase
open Amshan Amshan.Gen Amshan.Cosem Amshan.P1Parse Amshan.P1BlockSpec Amshan.Py
namespace Amshan.P1ParseRT
theorem getAddressAndValues_eq (line : List Nat) (pos : Nat) :
    ∃ (fp : Nat) (addr : Option (List Nat)), pos ≤ fp ∧
      getAddressAndValues line pos =
        if fp > 0 then
          match valuesLoop line (line.length + 1) fp [] 0 with
          | .error e => .error e
          | .ok (p, values, it) => .ok ((if values.isEmpty then none else p), addr, values, it)
        else .ok (none, addr, [], 0) := by
  unfold getAddressAndValues
  simp only
  split
  · rename_i ae hae
    have := findFrom_some hae
    split
    · exact ⟨ae, _, by omega, rfl⟩
    · exact ⟨pos, _, by omega, rfl⟩
  · exact ⟨pos, _, by omega, rfl⟩

theorem getAddressAndValues_ne_overflow (line : List Nat) (pos : Nat) :
    getAddressAndValues line pos ≠ .error .overflowError := by
  obtain ⟨fp, addr, hle, heq⟩ := getAddressAndValues_eq line pos
  rw [heq]
  split
  · have := valuesLoop_ne_overflow line (line.length + 1) fp [] 0 (by omega)
    split
    · rename_i e he
      intro hc; injection hc with hc; subst hc; exact this he
    · simp
  · simp

/-- a successful `get_address_and_values`: a returned position is strictly later and inside the line; the
    iterations are paid for by consumed characters -/
theorem getAddressAndValues_ok {line : List Nat} {pos : Nat} {next : Option Nat} {addr : Option (List Nat)}
    {values : List DataSetValue} {it : Nat}
    (h : getAddressAndValues line pos = .ok (next, addr, values, it)) :
    match next with
    | some p => pos + it + 1 ≤ p ∧ p < line.length
    | none => it = 0 ∨ pos + it + 1 ≤ line.length := by
  obtain ⟨fp, addr', hle, heq⟩ := getAddressAndValues_eq line pos
  rw [heq] at h
  split at h
  · split at h
    · cases h
    · rename_i p vs it' hv
      have := valuesLoop_ok line _ _ _ _ _ _ _ hv
      obtain ⟨a1, a2, a3⟩ := this
      have hne : vs.isEmpty = false := by cases vs <;> simp_all
      simp only [hne, Bool.false_eq_true, if_false] at h
      cases h
      cases next with
      | some p => simp only at a3 ⊢; omega
      | none => simp only at a3 ⊢; omega
  · cases h
    simp

theorem lineLoop_ne_overflow (line : List Nat) :
    ∀ (fuel pos : Nat) (items : List DataSet) (iters : Nat),
      line.length - pos < fuel → lineLoop line fuel pos items iters ≠ .error .overflowError := by
  intro fuel
  induction fuel with
  | zero => intro pos items iters h; omega
  | succ fuel ih =>
    intro pos items iters h
    unfold lineLoop
    split
    · rename_i e he
      intro hc; injection hc with hc; subst hc
      exact getAddressAndValues_ne_overflow _ _ he
    · rename_i next address values it hg
      have := getAddressAndValues_ok hg
      simp only
      split
      · simp
      · rename_i p
        simp only at this
        apply ih
        omega

theorem lineLoop_cost (line : List Nat) :
    ∀ (fuel pos : Nat) (items : List DataSet) (iters : Nat) (items' : List DataSet) (iters' : Nat),
      lineLoop line fuel pos items iters = .ok (items', iters') →
      iters' ≤ iters + max 1 (line.length - pos) := by
  intro fuel
  induction fuel with
  | zero => intro pos items iters items' iters' h; unfold lineLoop at h; cases h
  | succ fuel ih =>
    intro pos items iters items' iters' h
    unfold lineLoop at h
    split at h
    · cases h
    · rename_i next address values it hg
      have := getAddressAndValues_ok hg
      simp only at h
      split at h
      · cases h
        simp only at this
        omega
      · rename_i p
        simp only at this
        have := ih _ _ _ _ _ h
        omega

/-! ### splitLines: total length -/

theorem splitLinesGo_length : ∀ (s cur : List Nat) (p : Bool),
    ((splitLinesGo s cur p).map List.length).sum ≤ s.length + cur.length := by
  intro s
  induction s with
  | nil =>
    intro cur p
    unfold splitLinesGo
    split <;> simp
  | cons c cs ih =>
    intro cur p
    unfold splitLinesGo
    split
    · have := ih cur false; simp only [List.length_cons]; omega
    · split
      · have := ih [] true
        simp only [List.map_cons, List.sum_cons, List.length_reverse, List.length_cons, List.length_nil] at this ⊢
        omega
      · split
        · have := ih [] false
          simp only [List.map_cons, List.sum_cons, List.length_reverse, List.length_cons, List.length_nil] at this ⊢
          omega
        · have := ih (c :: cur) false
          simp only [List.length_cons] at this ⊢
          omega

theorem splitLines_length (s : List Nat) : ((splitLines s).map List.length).sum ≤ s.length := by
  have := splitLinesGo_length s [] false
  simpa [splitLines] using this

theorem filter_length_sum (p : List Nat → Bool) (ls : List (List Nat)) :
    ((ls.filter p).map List.length).sum ≤ (ls.map List.length).sum := by
  induction ls with
  | nil => simp
  | cons l ls ih =>
    simp only [List.filter_cons]
    split
    · simp only [List.map_cons, List.sum_cons]; omega
    · simp only [List.map_cons, List.sum_cons]; omega

/-! ### the fold over lines -/

def lineStep (acc : Except PyExc (List DataSet × Nat)) (line : List Nat) : Except PyExc (List DataSet × Nat) :=
  match acc with
  | .error e => .error e
  | .ok (items, iters) =>
    match lineLoop line (line.length + 1) 0 [] 0 with
    | .error e => .error e
    | .ok (its, n) => .ok (items ++ its, iters + n)

theorem parseDataBlock_eq (data : List Nat) :
    parseDataBlock data =
      ((splitLines data).filter (fun l => !(strip l).isEmpty)).foldl lineStep (.ok ([], 0)) := rfl

theorem foldl_lineStep_error (ls : List (List Nat)) (e : PyExc) :
    ls.foldl lineStep (.error e) = .error e := by
  induction ls with
  | nil => rfl
  | cons l ls ih => simpa [List.foldl_cons, lineStep] using ih

theorem foldl_lineStep_ne_overflow (ls : List (List Nat)) :
    ∀ acc, acc ≠ .error .overflowError → ls.foldl lineStep acc ≠ .error .overflowError := by
  induction ls with
  | nil => intro acc h; simpa using h
  | cons l ls ih =>
    intro acc h
    rw [List.foldl_cons]
    apply ih
    unfold lineStep
    split
    · exact h
    · split
      · rename_i e he
        intro hc; injection hc with hc; subst hc
        exact lineLoop_ne_overflow l _ _ _ _ (by omega) he
      · simp

theorem foldl_lineStep_cost (ls : List (List Nat)) (hne : ∀ l ∈ ls, l ≠ []) :
    ∀ items iters items' iters',
      ls.foldl lineStep (.ok (items, iters)) = .ok (items', iters') →
      iters' ≤ iters + (ls.map List.length).sum := by
  induction ls with
  | nil =>
    intro items iters items' iters' h
    simp only [List.foldl_nil] at h
    cases h; simp
  | cons l ls ih =>
    intro items iters items' iters' h
    rw [List.foldl_cons] at h
    have hl : l ≠ [] := hne l (by simp)
    have hlen : 1 ≤ l.length := by
      cases l with
      | nil => exact absurd rfl hl
      | cons a t => simp
    cases hs : lineLoop l (l.length + 1) 0 [] 0 with
    | error e =>
      have : lineStep (.ok (items, iters)) l = .error e := by simp [lineStep, hs]
      rw [this, foldl_lineStep_error] at h
      cases h
    | ok r =>
      obtain ⟨its, n⟩ := r
      have : lineStep (.ok (items, iters)) l = .ok (items ++ its, iters + n) := by simp [lineStep, hs]
      rw [this] at h
      have h1 := ih (fun l hl => hne l (by simp [hl])) _ _ _ _ h
      have h2 := lineLoop_cost l _ _ _ _ _ _ hs
      simp only [List.map_cons, List.sum_cons]
      omega

theorem parseContent_ne_overflow (data : List Nat) : parseContent data ≠ .error .overflowError := by
  unfold parseContent
  split
  · simp
  · rw [parseDataBlock_eq]
    exact foldl_lineStep_ne_overflow _ _ (by simp)

theorem strip_nil : strip [] = [] := rfl

theorem parseContent_cost (data : List Nat) (items : List DataSet) (iters : Nat)
    (h : parseContent data = .ok (items, iters)) : iters ≤ data.length := by
  unfold parseContent at h
  split at h
  · cases h
  · rw [parseDataBlock_eq] at h
    have h1 := foldl_lineStep_cost _ (by
      intro l hl
      simp only [List.mem_filter] at hl
      intro hc
      subst hc
      simp [strip_nil] at hl) _ _ _ _ h
    have h2 := filter_length_sum (fun l => !(strip l).isEmpty) (splitLines data)
    have h3 := splitLines_length data
    omega

end Amshan.P1ParseRT
