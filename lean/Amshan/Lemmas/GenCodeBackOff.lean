import Amshan.Lemmas.GenCodeBase
import Amshan.GeneratedCodeBackOff
import Amshan.Model.BackOff
/- Per-property part of the GeneratedCode equivalence lemmas (split so that a change to one translated
   function only breaks the proofs of the property that function belongs to). -/
namespace Amshan.GenLemmas
open Amshan.GenCode Amshan.Gen

/-! ### back-off -/

theorem backoffFailure_eq (d : Nat) : backoffFailure d = if d * 2 = 0 then 1 else d * 2 := by
  unfold backoffFailure
  simp only [Id.run, beq_iff_eq]
  split <;> rfl

theorem backoffReset_eq (d : Nat) : backoffReset d = 0 := rfl

theorem backoffCurrent_eq (d m : Nat) : backoffCurrent d m = if d < m then d else m := by
  unfold backoffCurrent
  simp only [decide_eq_true_eq]
  rfl

theorem getBackOffTime_eq (d : Nat) (flag : Bool) (sec : Nat) :
    GenCode.getBackOffTime d flag sec =
      if (decide (d > 0) || flag) then max d (if flag then sec else 0) else 0 := by
  unfold GenCode.getBackOffTime
  simp only [Id.run]
  split <;> rfl

end Amshan.GenLemmas
