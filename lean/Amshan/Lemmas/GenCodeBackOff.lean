import Amshan.Lemmas.GenCodeBase
import Amshan.GeneratedCodeBackOff
import Amshan.Model.BackOff
/- Per-property part of the GeneratedCode equivalence lemmas (split so that a change to one translated
   function only breaks the proofs of the property that function belongs to).

   The proofs are semantic: they unfold the generated definition and decide the resulting statement about
   `if`s, Booleans, `max`/`min` and linear arithmetic (`gen_decide`: `grind`), so they do not depend on how the source spells the
   computation (conditional expression or `if` statement, temporaries, operand order, `>= 1` or `> 0`, ...). -/
namespace Amshan.GenLemmas
open Amshan.GenCode Amshan.Gen

/-! ### back-off -/

theorem backoffFailure_eq (d : Nat) : backoffFailure d = if d * 2 = 0 then 1 else d * 2 := by
  unfold backoffFailure; gen_decide

theorem backoffReset_eq (d : Nat) : backoffReset d = 0 := by
  unfold backoffReset; gen_decide

theorem backoffCurrent_eq (d m : Nat) : backoffCurrent d m = if d < m then d else m := by
  unfold backoffCurrent; gen_decide

theorem getBackOffTime_eq (d : Nat) (flag : Bool) (sec : Nat) :
    GenCode.getBackOffTime d flag sec =
      if (decide (d > 0) || flag) then max d (if flag then sec else 0) else 0 := by
  unfold GenCode.getBackOffTime; gen_decide

end Amshan.GenLemmas
