import Amshan.Lemmas.HdlcCleanRun
/-
  Clean-stream lemmas, part 4: resynchronisation after arbitrary octets (C16, HDLC part).
-/
namespace Amshan.HdlcClean
open Amshan.Gen Amshan.Hdlc Amshan.HdlcSpec

/-! ### what a flag does to an arbitrary state -/

theorem handleFlag_cases0 (cfg : Cfg) (c : Core) (f : Frame) (hc : c.frame = some f) (h0 : f.len ≠ 0) :
    (∃ c1, handleFlag cfg c = (c1, .hunt) ∧ c1.frame = none) ∨
    handleFlag cfg c = (c, .complete) ∨
    (cfg.stuffing = false ∧
      handleFlag cfg c =
        match (appendToFrame cfg c f flagOctet).frame with
        | some f1 => if f1.len > maxFrameLen then (gotoHunt (appendToFrame cfg c f flagOctet), .hunt)
                     else (appendToFrame cfg c f flagOctet, .cont)
        | none => (appendToFrame cfg c f flagOctet, .cont)) := by
  unfold handleFlag
  simp only [hc]
  rw [if_neg h0]
  by_cases h1 : f.hcs.isNone = true
  · rw [if_pos h1]; left; exact ⟨_, rfl, rfl⟩
  rw [if_neg h1]
  by_cases h2 : (cfg.abort && decide (c.raw.length > 1) && (c.raw.getLast? == some escOctet)) = true
  · rw [if_pos h2]; left; exact ⟨_, rfl, rfl⟩
  rw [if_neg h2]
  cases hst : cfg.stuffing with
  | true => right; left; rfl
  | false =>
    simp only [Bool.false_eq_true, if_false]
    by_cases h3 : f.isExpectedLength = true
    · rw [if_pos h3]; right; left; rfl
    rw [if_neg h3]
    right; right
    exact ⟨trivial, rfl⟩

theorem handleFlag_cases (cfg : Cfg) (u : Bool) (raw p : List Nat) (hp : p ≠ []) :
    (∃ c1, handleFlag cfg (st u raw p) = (c1, .hunt) ∧ c1.frame = none) ∨
    handleFlag cfg (st u raw p) = (st u raw p, .complete) ∨
    (cfg.stuffing = false ∧ p.length < 2047 ∧
      handleFlag cfg (st u raw p) = (st u (raw ++ [flagOctet]) (p ++ [flagOctet]), .cont)) := by
  have hp0 : ((mk p).len ≠ 0) := by
    rw [mk_len]; intro h; exact hp (List.length_eq_zero_iff.mp h)
  rcases handleFlag_cases0 cfg (st u raw p) (mk p) rfl hp0 with h | h | ⟨hst, h⟩
  · exact Or.inl h
  · exact Or.inr (Or.inl h)
  · rw [h]
    simp only [appendToFrame, hst, Bool.false_eq_true, if_false, st, ← mk_snoc, mk_len,
      List.length_append, List.length_cons, List.length_nil]
    by_cases hl : p.length + 1 > maxFrameLen
    · rw [if_pos hl]; left; exact ⟨_, rfl, rfl⟩
    · rw [if_neg hl]
      rw [maxFrameLen_val] at hl
      right; right
      exact ⟨trivial, by omega, rfl⟩

/-- a flag while a non-empty frame is in progress: the frame is returned, or the reader hunts, or
    (without stuffing only) the flag is taken as data -/
theorem step_flag_cases (cfg : Cfg) (u : Bool) (raw p : List Nat) (hp : p ≠ []) :
    stepOctet cfg (st u raw p) flagOctet = (fresh, [mk p]) ∨
    ((stepOctet cfg (st u raw p) flagOctet).1.frame = none ∧
      (stepOctet cfg (st u raw p) flagOctet).2 = []) ∨
    (cfg.stuffing = false ∧ p.length < 2047 ∧
      stepOctet cfg (st u raw p) flagOctet = (st u (raw ++ [flagOctet]) (p ++ [flagOctet]), [])) := by
  simp only [stepOctet, readNext, if_true]
  rcases handleFlag_cases cfg u raw p hp with ⟨c1, h, hc⟩ | h | ⟨h1, h2, h⟩
  · rw [h]; right; left; exact ⟨hc, rfl⟩
  · rw [h]; left; rfl
  · rw [h]; right; right; exact ⟨h1, h2, rfl⟩

/-- after a flag, a reader with octet stuffing is at the start of a frame or hunting -/
theorem step_flag_good (cfg : Cfg) (hst : cfg.stuffing = true) (c : Core) (hc : CoreInv c) :
    (stepOctet cfg c flagOctet).1 = fresh ∨ (stepOctet cfg c flagOctet).1.frame = none := by
  rcases core_shape c hc with h | ⟨p, _, h⟩
  · left; rw [step_hunt_flag cfg c h]
  · rw [h]
    by_cases hp : p = []
    · subst hp; left; rw [step_empty_flag]
    · rcases step_flag_cases cfg c.unescapeNext c.raw p hp with h1 | h1 | h1
      · left; rw [h1]
      · right; exact h1.1
      · rw [hst] at h1; cases h1.1

/-! ### from hunt mode at most one frame is lost -/

theorem run_good_flags_out (cfg : Cfg) (c : Core) (hc : c = fresh ∨ c.frame = none) (k : Nat) :
    (run cfg c (List.replicate k flagOctet)).2 = [] := by
  rcases hc with hc | hc
  · rw [hc, run_fresh_flags]
  · cases k with
    | zero => rfl
    | succ k => rw [run_hunt_flags cfg c hc]

theorem run_shifted_hunt (cfg : Cfg) (c : Core) (hc : c.frame = none) (fs : List (FrameDesc × Nat))
    (k : Nat)
    (hfs : ∀ p ∈ fs, p.1.WF ∧ InDomain cfg.stuffing cfg.abort p.1 ∧
      flagOctet ∉ onWire cfg.stuffing p.1) :
    ∃ j, j ≤ 1 ∧ (run cfg c (shifted cfg.stuffing fs k)).2 = (fs.drop j).map (fun p => expectedFrame p.1) := by
  cases fs with
  | nil =>
    exact ⟨0, by omega, by rw [shifted_nil, run_good_flags_out cfg c (Or.inr hc)]; rfl⟩
  | cons p fs =>
    obtain ⟨d, n⟩ := p
    have hd := hfs (d, n) (by simp)
    have hrest : ∀ p ∈ fs, p.1.WF ∧ InDomain cfg.stuffing cfg.abort p.1 :=
      fun p hp => ⟨(hfs p (by simp [hp])).1, (hfs p (by simp [hp])).2.1⟩
    by_cases hn : n - 1 = 0
    · refine ⟨1, by omega, ?_⟩
      rw [shifted_cons, hn, List.replicate_zero, List.nil_append, run_append, run_append,
        run_hunt_noflag cfg c _ hc hd.2.2, run_cons, step_hunt_flag cfg c hc, run_nil,
        run_shifted_fresh cfg fs k hrest]
      rfl
    · refine ⟨0, by omega, ?_⟩
      obtain ⟨m, hm⟩ : ∃ m, n - 1 = m + 1 := ⟨n - 1 - 1, by omega⟩
      have e1 : run cfg c (shifted cfg.stuffing ((d, n) :: fs) k) =
          run cfg fresh (shifted cfg.stuffing ((d, n) :: fs) k) := by
        rw [shifted_cons, hm, List.append_assoc, run_append, run_append (c := fresh),
          run_hunt_flags cfg c hc, run_fresh_flags]
      rw [e1, run_shifted_fresh cfg _ k (fun p hp => ⟨(hfs p hp).1, (hfs p hp).2.1⟩)]
      rfl

/-! ### C16 with octet stuffing -/

theorem drop_le_one_tail {α β : Type} (f : α → β) (l : List α) (j : Nat) (hj : j ≤ 1) :
    ∃ pre, (l.drop j).map f = pre ++ l.tail.map f := by
  cases l with
  | nil => exact ⟨[], by simp⟩
  | cons a t =>
    obtain rfl | rfl : j = 0 ∨ j = 1 := by omega
    · exact ⟨[f a], by simp⟩
    · exact ⟨[], by simp⟩

theorem Octets_stuff (a : List Nat) (h : Octets a) : Octets (stuff a) := by
  induction a with
  | nil => exact Octets_nil
  | cons x xs ih =>
    rw [Octets_cons] at h
    simp only [stuff]
    split
    · rename_i hx
      rw [Octets_cons, Octets_cons]
      refine ⟨by decide, ?_, ih h.2⟩
      rcases hx with hx | hx <;> subst hx <;> decide
    · rw [Octets_cons]; exact ⟨h.1, ih h.2⟩

theorem resync_stuffing_run (cfg : Cfg) (hst : cfg.stuffing = true) (pre : List Nat)
    (hpre : Octets pre) (fs : List (FrameDesc × Nat)) (closing : Nat)
    (hfs : ∀ p ∈ fs, p.1.WF ∧ 1 ≤ p.2) (hcl : 1 ≤ closing) :
    ∃ junk, (run cfg Core.init (pre ++ wire true [] fs closing)).2 =
      junk ++ fs.tail.map (fun p => expectedFrame p.1) := by
  have hc0 : CoreInv (run cfg Core.init pre).1 := (run_inv cfg Core.init pre CoreInv_init hpre).2
  have hdom : ∀ p ∈ fs, p.1.WF ∧ InDomain cfg.stuffing cfg.abort p.1 ∧
      flagOctet ∉ onWire cfg.stuffing p.1 := by
    intro p hp
    refine ⟨(hfs p hp).1, Or.inl hst, ?_⟩
    rw [hst]; exact flag_not_mem_stuff _
  rw [wire_eq_shifted _ _ _ _ (fun p hp => (hfs p hp).2) hcl, List.nil_append, run_append, run_cons]
  rw [← hst]
  generalize (run cfg Core.init pre).2 = o0
  generalize (stepOctet cfg (run cfg Core.init pre).1 flagOctet).2 = o1
  rcases step_flag_good cfg hst _ hc0 with h | h
  · rw [h, run_shifted_fresh cfg fs _ (fun p hp => ⟨(hdom p hp).1, (hdom p hp).2.1⟩)]
    obtain ⟨pre', e⟩ := drop_le_one_tail (fun p : FrameDesc × Nat => expectedFrame p.1) fs 0 (by omega)
    rw [List.drop_zero] at e
    exact ⟨o0 ++ (o1 ++ pre'), by simp only [e, List.append_assoc]⟩
  · obtain ⟨j, hj, e⟩ := run_shifted_hunt cfg _ h fs (closing - 1) hdom
    obtain ⟨pre', e'⟩ := drop_le_one_tail (fun p : FrameDesc × Nat => expectedFrame p.1) fs j hj
    exact ⟨o0 ++ (o1 ++ pre'), by simp only [e, e', List.append_assoc]⟩

end Amshan.HdlcClean
