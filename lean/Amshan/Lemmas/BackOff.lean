import Amshan.Model.BackOff
/-
  Lemmas about the exponential back-off strategy model (used by Props/C18).
-/
namespace Amshan.BackOff

/-- number of trailing `failure` operations, stated on the reversed list -/
def leadingFailures (l : List Op) : Nat := (l.takeWhile (· == Op.failure)).length

@[simp] theorem leadingFailures_nil : leadingFailures [] = 0 := rfl
@[simp] theorem leadingFailures_failure (l : List Op) :
    leadingFailures (Op.failure :: l) = leadingFailures l + 1 := by
  simp [leadingFailures]
@[simp] theorem leadingFailures_reset (l : List Op) :
    leadingFailures (Op.reset :: l) = 0 := by
  simp [leadingFailures]

theorem run_snoc (s : Strategy) (ops : List Op) (op : Op) :
    s.run (ops ++ [op]) = (s.run ops).apply op := by
  simp [Strategy.run, List.foldl_append]

theorem apply_maxDelay (s : Strategy) (op : Op) : (s.apply op).maxDelay = s.maxDelay := by
  cases op <;> rfl

theorem run_maxDelay (s : Strategy) (ops : List Op) : (s.run ops).maxDelay = s.maxDelay := by
  induction ops generalizing s with
  | nil => rfl
  | cons op ops ih =>
    show ((s.apply op).run ops).maxDelay = _
    rw [ih, apply_maxDelay]

theorem two_pow_pred_mul_two (n : Nat) (h : n ≠ 0) : 2 ^ (n - 1) * 2 = 2 ^ n := by
  cases n with
  | zero => exact absurd rfl h
  | succ m => simp [Nat.pow_succ]

/-- delay after running the reversed list `l.reverse` from a strategy with delay 0 -/
theorem run_reverse_delay (s : Strategy) (h : s.delay = 0) (l : List Op) :
    (s.run l.reverse).delay =
      if leadingFailures l = 0 then 0 else 2 ^ (leadingFailures l - 1) := by
  induction l with
  | nil => simpa [Strategy.run] using h
  | cons op l ih =>
    rw [List.reverse_cons, run_snoc]
    cases op with
    | reset => simp [Strategy.apply, Strategy.reset]
    | failure =>
      simp only [Strategy.apply, Strategy.failure, ih, leadingFailures_failure]
      by_cases h0 : leadingFailures l = 0
      · simp [h0]
      · have hp : 0 < 2 ^ (leadingFailures l - 1) := Nat.two_pow_pos _
        have := two_pow_pred_mul_two _ h0
        simp only [h0, if_false, Nat.add_sub_cancel]
        rw [this]
        simp

theorem run_delay (s : Strategy) (h : s.delay = 0) (ops : List Op) :
    (s.run ops).delay =
      if leadingFailures ops.reverse = 0 then 0 else 2 ^ (leadingFailures ops.reverse - 1) := by
  have := run_reverse_delay s h ops.reverse
  rwa [List.reverse_reverse] at this

theorem current_eq_min (s : Strategy) : s.current = min s.delay s.maxDelay := by
  unfold Strategy.current
  rw [Nat.min_def]
  split <;> split <;> omega

end Amshan.BackOff
