import Amshan.Lemmas.P1ReadoutBase
/-
  `intBase16` on four hex digits, facts about `Readout.make`, the expected checksum of a readout
  whose end line is a checksum text, and the exception classes of the partial primitives.
-/
namespace Amshan.P1L
open Amshan.Gen Amshan.P1 Amshan.P1Spec Amshan.Py

/-! ### hex digits -/

theorem hexVal_range (c t : Nat) (h : hexVal? c = some t) :
    (48 ≤ c ∧ c ≤ 57 ∧ t = c - 48) ∨ (65 ≤ c ∧ c ≤ 70 ∧ t = c - 55) ∨ (97 ≤ c ∧ c ≤ 102 ∧ t = c - 87) := by
  unfold hexVal? at h
  split at h
  · simp only [Option.some.injEq] at h; omega
  · split at h
    · simp only [Option.some.injEq] at h; omega
    · split at h
      · simp only [Option.some.injEq] at h; omega
      · simp at h

theorem hexDigitVal_of_hexVal (c t : Nat) (h : hexVal? c = some t) : hexDigitVal? c = some t := by
  have := hexVal_range c t h
  unfold hexDigitVal? Py.isDigit
  simp only [Bool.and_eq_true, decide_eq_true_eq]
  split
  · simp only [Option.some.injEq]; omega
  · split
    · simp only [Option.some.injEq]; omega
    · split
      · simp only [Option.some.injEq]; omega
      · exfalso; omega

theorem hexVal_not_space (c t : Nat) (h : hexVal? c = some t) : isStrSpace c = false := by
  have := hexVal_range c t h
  simp only [isStrSpace, Bool.or_eq_false_iff, Bool.and_eq_false_iff, beq_eq_false_iff_ne,
    decide_eq_false_iff_not]
  omega

theorem hexVal_lt (c t : Nat) (h : hexVal? c = some t) : c < 128 ∧ t < 16 := by
  have := hexVal_range c t h
  omega

theorem hexLoop_step (c t : Nat) (cs : List Nat) (acc : Nat) (pu any : Bool)
    (h : hexVal? c = some t) :
    hexDigitsLoop (c :: cs) acc pu any = hexDigitsLoop cs (acc * 16 + t) false true := by
  have h95 : (c == 95) = false := by
    have := hexVal_range c t h
    simp only [beq_eq_false_iff_ne]; omega
  rw [hexDigitsLoop]
  simp only [h95, hexDigitVal_of_hexVal c t h]
  simp

theorem hexLoop_four (a b c d ta tb tc td : Nat)
    (ha : hexVal? a = some ta) (hb : hexVal? b = some tb) (hc : hexVal? c = some tc)
    (hd : hexVal? d = some td) :
    hexDigitsLoop [a, b, c, d] 0 false false = some (((ta * 16 + tb) * 16 + tc) * 16 + td) := by
  rw [hexLoop_step a ta _ _ _ _ ha, hexLoop_step b tb _ _ _ _ hb, hexLoop_step c tc _ _ _ _ hc,
    hexLoop_step d td _ _ _ _ hd]
  simp [hexDigitsLoop]

theorem strip_four (a b c d : Nat) (ha : isStrSpace a = false) (hd : isStrSpace d = false) :
    strip [a, b, c, d] = [a, b, c, d] := by
  have := strip_core a d [b, c] [] ha hd (by rfl)
  simpa using this

theorem stripC_four (a b c d : Nat) (ha : isBytesSpace a = false) (hd : isBytesSpace d = false) :
    stripC [a, b, c, d] = [a, b, c, d] := by
  have := stripC_core a d [b, c] [] ha hd (by rfl)
  simpa using this

/-- sign part of `int(s, 16)` -/
def signPart (s : List Nat) : Bool × List Nat :=
  match s with
  | 43 :: r => (false, r)
  | 45 :: r => (true, r)
  | _ => (false, s)

/-- `0x` prefix part of `int(s, 16)` -/
def prefixPart (s : List Nat) : List Nat :=
  match s with
  | 48 :: x :: r => if x == 120 || x == 88 then (match r with | 95 :: r' => r' | _ => r) else s
  | _ => s

theorem intBase16_eq (s : List Nat) :
    intBase16 s = (match hexDigitsLoop (prefixPart (signPart (stripC s)).2) 0 false false with
      | some v => .ok (if (signPart (stripC s)).1 then -(v : Int) else (v : Int))
      | none => .error .valueError) := by
  rfl

theorem signPart_plain (a : Nat) (r : List Nat) (h1 : a ≠ 43) (h2 : a ≠ 45) :
    signPart (a :: r) = (false, a :: r) := by
  unfold signPart
  split
  · rename_i heq; simp only [List.cons.injEq] at heq; omega
  · rename_i heq; simp only [List.cons.injEq] at heq; omega
  · rfl

theorem prefixPart_plain (a b : Nat) (r : List Nat) (h : a = 48 → (b == 120 || b == 88) = false) :
    prefixPart (a :: b :: r) = a :: b :: r := by
  unfold prefixPart
  split
  · rename_i x r' heq
    simp only [List.cons.injEq] at heq
    obtain ⟨ha, hx, _⟩ := heq
    subst hx
    simp [h ha]
  · rfl

/-- `int(s, 16)` of exactly four hex digits -/
theorem intBase16_four (a b c d ta tb tc td : Nat)
    (ha : hexVal? a = some ta) (hb : hexVal? b = some tb) (hc : hexVal? c = some tc)
    (hd : hexVal? d = some td) :
    intBase16 [a, b, c, d] = .ok ((((ta * 16 + tb) * 16 + tc) * 16 + td : Nat) : Int) := by
  have hs := stripC_four a b c d (not_isBytesSpace_of_not_isStrSpace a (hexVal_not_space a ta ha))
    (not_isBytesSpace_of_not_isStrSpace d (hexVal_not_space d td hd))
  have hloop := hexLoop_four a b c d ta tb tc td ha hb hc hd
  have ra := hexVal_range a ta ha
  have rb := hexVal_range b tb hb
  have hb120 : (b == 120 || b == 88) = false := by
    simp only [Bool.or_eq_false_iff, beq_eq_false_iff_ne]; omega
  rw [intBase16_eq, hs, signPart_plain a _ (by omega) (by omega)]
  simp only
  rw [prefixPart_plain a b _ (fun _ => hb120), hloop]
  simp

/-! ### `Readout.make` -/

theorem lstripBytes_cons (b : Nat) (t : List Nat) (h : isBytesSpace b = false) :
    lstripBytes (b :: t) = b :: t := by
  simp [lstripBytes, h]

/-- everything `DataReadout.__init__` establishes -/
theorem make_ok (raw : List Nat) (r : Readout) (h : Readout.make raw = .ok r) :
    r.bytes = lstripBytes raw ∧ (∃ t, r.bytes = 47 :: t) ∧ find r.bytes 33 = some r.endPos ∧
    r.dataPos = (match find r.bytes 10 with | some i => i + 1 | none => 0) := by
  unfold Readout.make at h
  simp only at h
  split at h
  · simp at h
  · rename_i b t hb
    split at h
    · simp at h
    · rename_i hne
      have hb47 : b = 47 := by
        simpa [p1Start] using hne
      split at h
      · simp at h
      · rename_i e he
        simp only [Except.ok.injEq] at h
        subst h
        refine ⟨rfl, ⟨t, by rw [hb, hb47]⟩, ?_, ?_⟩
        · simpa [p1End] using he
        · rfl

theorem make_of_facts (raw t : List Nat) (e : Nat) (hs : lstripBytes raw = 47 :: t)
    (he : find (47 :: t) 33 = some e) :
    Readout.make raw = .ok (Readout.mk (47 :: t) e
      (match find (47 :: t) 10 with | some i => i + 1 | none => 0)) := by
  unfold Readout.make
  simp only [hs, p1Start, p1End, p1Lf, he]
  simp
  cases find (47 :: t) 10 <;> rfl

theorem make_drop_endPos (raw : List Nat) (r : Readout) (h : Readout.make raw = .ok r) :
    r.bytes.drop r.endPos = 33 :: r.afterBang ∧ 33 ∉ r.bytes.take r.endPos ∧
    r.bytes[r.endPos]? = some 33 ∧ r.endPos < r.bytes.length := by
  obtain ⟨_, _, hf, _⟩ := make_ok raw r h
  obtain ⟨h1, h2, h3, h4⟩ := find_some_take_drop _ _ _ hf
  refine ⟨?_, h2, h3, h4⟩
  unfold Readout.afterBang
  have : r.bytes.drop r.endPos = (r.bytes.take r.endPos ++ 33 :: r.bytes.drop (r.endPos + 1)).drop r.endPos := by
    rw [← h1]
  rw [this, List.drop_append_of_le_length (by simp; omega)]
  simp

theorem make_calcCrc (r : Readout) : (r.calcCrc) = crc16Arc (r.bytes.take (r.endPos + 1)) := by
  unfold Readout.calcCrc; exact crc16_eq_arc _

/-! ### expected checksum -/

theorem decodeAscii_ok (bs : List Nat) (h : ∀ x ∈ bs, x < 128) : decodeAscii bs = .ok bs := by
  unfold decodeAscii
  have : bs.all (· < 128) = true := by
    simp only [List.all_eq_true, decide_eq_true_eq]; exact h
  simp [this]

theorem term_space (term : List Nat) (h : term = [] ∨ term = [10] ∨ term = [13, 10]) :
    term.all isStrSpace = true ∧ ∀ x ∈ term, x < 128 := by
  rcases h with h | h | h <;> subst h <;> decide

theorem endLine_of_drop (r : Readout) (a d : Nat) (u term : List Nat)
    (hd : r.bytes.drop r.endPos = 33 :: a :: u ++ [d] ++ term)
    (hasc : ∀ x ∈ a :: u ++ [d], x < 128) (hdn : isStrSpace d = false)
    (hterm : term = [] ∨ term = [10] ∨ term = [13, 10]) :
    r.endLine = .ok (33 :: a :: u ++ [d]) := by
  obtain ⟨hts, hta⟩ := term_space term hterm
  unfold Readout.endLine
  rw [hd, decodeAscii_ok]
  · have := strip_core 33 d (a :: u) term (by decide) hdn hts
    simp only [List.cons_append] at this ⊢
    simp only [bind, Except.bind, pure, Except.pure]
    rw [this]
  · intro x hx
    simp only [List.cons_append, List.mem_cons, List.mem_append] at hx hasc
    rcases hx with hx | hx | hx | hx
    · omega
    · exact hasc x (Or.inl hx)
    · exact hasc x (Or.inr hx)
    · exact hta x hx

theorem endLine_none (r : Readout) (term : List Nat)
    (hd : r.bytes.drop r.endPos = 33 :: term) (hterm : term = [] ∨ term = [10] ∨ term = [13, 10]) :
    r.endLine = .ok [33] := by
  obtain ⟨hts, hta⟩ := term_space term hterm
  unfold Readout.endLine
  rw [hd, decodeAscii_ok]
  · simp only [bind, Except.bind, pure, Except.pure]
    rw [strip_single 33 term (by decide) hts]
  · intro x hx
    rcases List.mem_cons.mp hx with hx | hx
    · omega
    · exact hta x hx

/-- the expected checksum of a readout whose end line carries a four-digit checksum -/
theorem expectedChecksum_of_drop (r : Readout) (v : Nat) (t : List Nat)
    (hd : r.bytes.drop r.endPos = 33 :: t) (ht : IsChecksumText t v) :
    r.expectedChecksum = .ok (some (v : Int)) := by
  obtain ⟨a, b, c, d, ta, tb, tc, td, term, hte, ha, hb, hc, hdd, hv, hterm⟩ := ht
  have hel : r.endLine = .ok (33 :: a :: [b, c] ++ [d]) := by
    apply endLine_of_drop r a d [b, c] term
    · rw [hd, hte]; rfl
    · intro x hx
      simp only [List.cons_append, List.nil_append, List.mem_cons, List.not_mem_nil, or_false] at hx
      rcases hx with hx | hx | hx | hx <;> subst hx
      · exact (hexVal_lt _ _ ha).1
      · exact (hexVal_lt _ _ hb).1
      · exact (hexVal_lt _ _ hc).1
      · exact (hexVal_lt _ _ hdd).1
    · exact hexVal_not_space d td hdd
    · exact hterm
  unfold Readout.expectedChecksum
  rw [hel]
  have hs := strip_four a b c d (hexVal_not_space a ta ha) (hexVal_not_space d td hdd)
  simp only [bind, Except.bind, pure, Except.pure, List.cons_append, List.nil_append,
    List.length_cons, List.length_nil, List.drop_succ_cons, List.drop_zero]
  rw [hs, intBase16_four a b c d ta tb tc td ha hb hc hdd, hv]
  simp

theorem expectedChecksum_of_text (raw : List Nat) (r : Readout) (hm : Readout.make raw = .ok r)
    (v : Nat) (ht : IsChecksumText r.afterBang v) : r.expectedChecksum = .ok (some (v : Int)) :=
  expectedChecksum_of_drop r v _ (make_drop_endPos raw r hm).1 ht

theorem expectedChecksum_none (r : Readout) (term : List Nat)
    (hd : r.bytes.drop r.endPos = 33 :: term) (hterm : term = [] ∨ term = [10] ∨ term = [13, 10]) :
    r.expectedChecksum = .ok none := by
  unfold Readout.expectedChecksum
  rw [endLine_none r term hd hterm]
  simp [bind, Except.bind, pure, Except.pure]

/-! ### exception classes -/

theorem decodeAscii_err (bs : List Nat) (e : PyExc) (h : decodeAscii bs = .error e) :
    isValueError e = true := by
  unfold decodeAscii at h
  split at h
  · simp at h
  · simp only [Except.error.injEq] at h; subst h; rfl

theorem intBase16_err (s : List Nat) (e : PyExc) (h : intBase16 s = .error e) :
    isValueError e = true := by
  unfold intBase16 at h
  simp only at h
  split at h
  · simp at h
  · simp only [Except.error.injEq] at h; subst h; rfl

theorem endLine_err (r : Readout) (e : PyExc) (h : r.endLine = .error e) :
    isValueError e = true := by
  unfold Readout.endLine at h
  cases hd : decodeAscii (r.bytes.drop r.endPos) with
  | error e' =>
    rw [hd] at h
    simp only [bind, Except.bind, Except.error.injEq] at h
    subst h
    exact decodeAscii_err _ _ hd
  | ok s =>
    rw [hd] at h
    simp [bind, Except.bind, pure, Except.pure] at h

theorem expectedChecksum_err (r : Readout) (e : PyExc) (h : r.expectedChecksum = .error e) :
    isValueError e = true := by
  unfold Readout.expectedChecksum at h
  cases hd : r.endLine with
  | error e' =>
    rw [hd] at h
    simp only [bind, Except.bind, Except.error.injEq] at h
    subst h
    exact endLine_err _ _ hd
  | ok s =>
    rw [hd] at h
    simp only [bind, Except.bind] at h
    split at h
    · cases hi : intBase16 (strip (s.drop 1)) with
      | error e' =>
        rw [hi] at h
        simp only [Except.error.injEq] at h
        subst h
        exact intBase16_err _ _ hi
      | ok v =>
        rw [hi] at h
        simp [pure, Except.pure] at h
    · simp [pure, Except.pure] at h

theorem identLine_err (r : Readout) (e : PyExc) (h : r.identLine = .error e) :
    isValueError e = true := by
  unfold Readout.identLine at h
  cases hd : decodeAscii (r.bytes.take r.dataPos) with
  | error e' =>
    rw [hd] at h
    simp only [bind, Except.bind, Except.error.injEq] at h
    subst h
    exact decodeAscii_err _ _ hd
  | ok s =>
    rw [hd] at h
    simp only [bind, Except.bind] at h
    split at h
    · simp [pure, Except.pure] at h
    · simp only [Except.error.injEq] at h; subst h; rfl

/-- the mismatch test of `is_valid` -/
def mismatch (r : Readout) (expected : Option Int) : Bool :=
  match expected with | some v => decide ((r.calcCrc : Int) ≠ v) | none => false

theorem isValid_of_err (r : Readout) (e : PyExc) (h : r.expectedChecksum = .error e) :
    r.isValid = .ok false := by
  unfold Readout.isValid
  rw [h]
  simp [expectedChecksum_err r e h]

theorem isValid_of_ok (r : Readout) (expected : Option Int) (h : r.expectedChecksum = .ok expected) :
    r.isValid = if mismatch r expected then .ok false else
      match r.identLine with
      | .error e => if isValueError e then .ok false else .error e
      | .ok _ => .ok ((r.payload).all (fun ch => !(decide (ch > 0x80)))) := by
  unfold Readout.isValid
  rw [h]
  rfl

theorem isValid_total (r : Readout) : ∃ b, r.isValid = .ok b := by
  cases hexp : r.expectedChecksum with
  | error e => exact ⟨false, isValid_of_err r e hexp⟩
  | ok expected =>
    rw [isValid_of_ok r expected hexp]
    cases mismatch r expected with
    | true => exact ⟨false, rfl⟩
    | false =>
      cases hi : r.identLine with
      | error e =>
        refine ⟨false, ?_⟩
        simp [identLine_err r e hi]
      | ok m => exact ⟨_, rfl⟩

/-- what `is_valid = True` means, in terms of the model's own parts -/
theorem isValid_true (r : Readout) (h : r.isValid = .ok true) :
    (∃ m, r.identLine = .ok m) ∧
    (∀ v : Int, r.expectedChecksum = .ok (some v) → (r.calcCrc : Int) = v) ∧
    r.payload.all (fun ch => !(decide (ch > 0x80))) = true := by
  cases hexp : r.expectedChecksum with
  | error e => rw [isValid_of_err r e hexp] at h; simp at h
  | ok expected =>
    rw [isValid_of_ok r expected hexp] at h
    cases hmm : mismatch r expected with
    | true => rw [hmm] at h; simp at h
    | false =>
      rw [hmm] at h
      cases hi : r.identLine with
      | error e =>
        rw [hi] at h
        simp [identLine_err r e hi] at h
      | ok m =>
        rw [hi] at h
        refine ⟨⟨m, rfl⟩, ?_, ?_⟩
        · intro v hv
          simp only [Except.ok.injEq] at hv
          subst hv
          simpa [mismatch] using hmm
        · simpa using h

theorem isValid_mismatch (r : Readout) (v : Int) (hexp : r.expectedChecksum = .ok (some v))
    (hne : (r.calcCrc : Int) ≠ v) : r.isValid = .ok false := by
  rw [isValid_of_ok r _ hexp]
  simp [mismatch, hne]

/-- `is_valid = True` from its parts -/
theorem isValid_of_parts (r : Readout) (expected : Option Int) (m : IdentMatch)
    (hexp : r.expectedChecksum = .ok expected) (hmm : mismatch r expected = false)
    (hi : r.identLine = .ok m) (hp : ∀ ch ∈ r.payload, ch ≤ 0x80) : r.isValid = .ok true := by
  rw [isValid_of_ok r _ hexp, hmm, hi]
  have : r.payload.all (fun ch => !(decide (ch > 0x80))) = true := by
    simp only [List.all_eq_true, Bool.not_eq_true', decide_eq_false_iff_not]
    intro ch hch
    have := hp ch hch
    omega
  simp [this]

end Amshan.P1L
