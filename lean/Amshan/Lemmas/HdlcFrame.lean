import Amshan.Model.HdlcDefs
import Amshan.Props.C03
/-
  Helper lemmas about `HdlcFrame` / `HdlcFrameHeader` (model: Amshan/Model/Hdlc.lean):
  address fields, the cached control position, the frame invariant `FrameInv` and its preservation
  by the reader (`CoreInv`), and the octet arithmetic of the accessors.
-/
namespace Amshan.Hdlc
open Amshan.Gen Amshan.HdlcSpec

/-! ### address fields -/

theorem getAddressFrom_append (xs ys a : List Nat) (h : getAddressFrom xs = some a) :
    getAddressFrom (xs ++ ys) = some a := by
  induction xs generalizing a with
  | nil => simp [getAddressFrom] at h
  | cons c cs ih =>
    simp only [getAddressFrom, List.cons_append] at h ⊢
    split
    · rename_i hc; simpa [hc] using h
    · rename_i hc
      simp only [hc, if_false] at h
      cases hg : getAddressFrom cs with
      | none => simp [hg] at h
      | some a' => rw [ih a' hg]; simpa [hg] using h

/-- what `_get_address` returns is a prefix of the octets it looks at, and a well-formed address -/
theorem getAddressFrom_some (xs a : List Nat) (h : getAddressFrom xs = some a) :
    ∃ rest, xs = a ++ rest ∧ addrWF a = true := by
  induction xs generalizing a with
  | nil => simp [getAddressFrom] at h
  | cons c cs ih =>
    simp only [getAddressFrom] at h
    split at h
    · rename_i hc
      cases h
      exact ⟨cs, rfl, by simp [addrWF, hc]⟩
    · rename_i hc
      cases hg : getAddressFrom cs with
      | none => simp [hg] at h
      | some a' =>
        simp only [hg, Option.map_some, Option.some.injEq] at h
        subst h
        obtain ⟨rest, he, hw⟩ := ih a' hg
        refine ⟨rest, by rw [he]; rfl, ?_⟩
        cases a' with
        | nil => simp [addrWF] at hw
        | cons y ys =>
          have : c % 2 = 0 := by omega
          simp [addrWF, hw, this]

theorem addrWF_ne_nil (a : List Nat) (h : addrWF a = true) : a ≠ [] := by
  intro e; subst e; simp [addrWF] at h

theorem addrWF_length_pos (a : List Nat) (h : addrWF a = true) : 0 < a.length := by
  cases a with
  | nil => simp [addrWF] at h
  | cons => simp

/-- a well-formed address followed by anything is read back exactly -/
theorem getAddressFrom_of_addrWF (a rest : List Nat) (h : addrWF a = true) :
    getAddressFrom (a ++ rest) = some a := by
  induction a with
  | nil => simp [addrWF] at h
  | cons x xs ih =>
    cases xs with
    | nil =>
      simp only [addrWF, beq_iff_eq] at h
      simp [getAddressFrom, h]
    | cons y ys =>
      simp only [addrWF, Bool.and_eq_true, beq_iff_eq] at h
      have hx : ¬ (x % 2 = 1) := by omega
      rw [List.cons_append, getAddressFrom, if_neg hx, ih h.2]; rfl

theorem getAddressFrom_length_pos (xs a : List Nat) (h : getAddressFrom xs = some a) : 0 < a.length := by
  obtain ⟨_, _, hw⟩ := getAddressFrom_some xs a h
  exact addrWF_length_pos a hw

/-! ### `destination_address`, `source_address`, `_get_control_field_position` on `a :: b :: t` -/

theorem getAddress_eq (d : List Nat) (pos : Nat) : getAddress d pos = getAddressFrom (d.drop pos) := by
  unfold getAddress
  split
  · rfl
  · rename_i h
    have : d.drop pos = [] := List.drop_eq_nil_of_le (by omega)
    rw [this]; rfl

theorem destAddr_nil : destAddr [] = none := by simp [destAddr]
theorem destAddr_single (a : Nat) : destAddr [a] = none := by simp [destAddr]
theorem destAddr_cons2 (a b : Nat) (t : List Nat) : destAddr (a :: b :: t) = getAddressFrom t := by
  simp [destAddr, getAddress_eq]

theorem srcAddr_nil : srcAddr [] = none := by simp [srcAddr, destAddr_nil]
theorem srcAddr_single (a : Nat) : srcAddr [a] = none := by simp [srcAddr, destAddr_single]
theorem srcAddr_cons2 (a b : Nat) (t : List Nat) :
    srcAddr (a :: b :: t) =
      match getAddressFrom t with
      | some dst => getAddressFrom (t.drop dst.length)
      | none => none := by
  unfold srcAddr
  rw [destAddr_cons2]
  cases getAddressFrom t with
  | none => rfl
  | some dst =>
    simp only [getAddress_eq]
    rw [show 2 + dst.length = dst.length + 2 by omega]
    rfl

theorem controlPos_nil : controlPos [] = none := by simp [controlPos, destAddr_nil]
theorem controlPos_single (a : Nat) : controlPos [a] = none := by simp [controlPos, destAddr_single]
theorem controlPos_cons2 (a b : Nat) (t : List Nat) :
    controlPos (a :: b :: t) =
      match getAddressFrom t with
      | some dst =>
        match getAddressFrom (t.drop dst.length) with
        | some src => some (2 + dst.length + src.length)
        | none => none
      | none => none := by
  unfold controlPos
  rw [srcAddr_cons2, destAddr_cons2]
  cases getAddressFrom t with
  | none => rfl
  | some dst => rfl

/-- the control position, when it exists, comes from two well-formed address fields -/
theorem controlPos_some (d : List Nat) (p : Nat) (h : controlPos d = some p) :
    ∃ a b dst src rest, d = [a, b] ++ dst ++ src ++ rest ∧ addrWF dst = true ∧ addrWF src = true ∧
      p = 2 + dst.length + src.length := by
  match d, h with
  | [], h => simp [controlPos_nil] at h
  | [_], h => simp [controlPos_single] at h
  | a :: b :: t, h =>
    rw [controlPos_cons2] at h
    cases hd : getAddressFrom t with
    | none => simp [hd] at h
    | some dst =>
      simp only [hd] at h
      cases hs : getAddressFrom (t.drop dst.length) with
      | none => simp [hs] at h
      | some src =>
        simp only [hs, Option.some.injEq] at h
        obtain ⟨r1, e1, w1⟩ := getAddressFrom_some _ _ hd
        obtain ⟨r2, e2, w2⟩ := getAddressFrom_some _ _ hs
        rw [e1, List.drop_left] at e2
        refine ⟨a, b, dst, src, r2, ?_, w1, w2, h.symm⟩
        rw [e1, e2]; simp

theorem controlPos_of_shape (a b : Nat) (dst src rest : List Nat)
    (hdst : addrWF dst = true) (hsrc : addrWF src = true) :
    controlPos ([a, b] ++ dst ++ src ++ rest) = some (2 + dst.length + src.length) := by
  have e : [a, b] ++ dst ++ src ++ rest = a :: b :: (dst ++ (src ++ rest)) := by simp
  rw [e, controlPos_cons2, getAddressFrom_of_addrWF dst _ hdst]
  simp only [List.drop_left]
  rw [getAddressFrom_of_addrWF src _ hsrc]

theorem destAddr_of_shape (a b : Nat) (dst rest : List Nat) (hdst : addrWF dst = true) :
    destAddr ([a, b] ++ dst ++ rest) = some dst := by
  have e : [a, b] ++ dst ++ rest = a :: b :: (dst ++ rest) := by simp
  rw [e, destAddr_cons2, getAddressFrom_of_addrWF dst _ hdst]

theorem srcAddr_of_shape (a b : Nat) (dst src rest : List Nat)
    (hdst : addrWF dst = true) (hsrc : addrWF src = true) :
    srcAddr ([a, b] ++ dst ++ src ++ rest) = some src := by
  have e : [a, b] ++ dst ++ src ++ rest = a :: b :: (dst ++ (src ++ rest)) := by simp
  rw [e, srcAddr_cons2, getAddressFrom_of_addrWF dst _ hdst]
  simp only [List.drop_left]
  rw [getAddressFrom_of_addrWF src _ hsrc]

theorem controlPos_some_length (d : List Nat) (p : Nat) (h : controlPos d = some p) :
    4 ≤ p ∧ p ≤ d.length := by
  obtain ⟨a, b, dst, src, rest, e, w1, w2, hp⟩ := controlPos_some d p h
  have := addrWF_length_pos _ w1
  have := addrWF_length_pos _ w2
  subst e
  simp only [List.length_append, List.length_cons, List.length_nil]
  omega

/-- `header.update()` only starts looking after the fourth octet: nothing is lost -/
theorem controlPos_short (d : List Nat) (h : d.length ≤ 3) : controlPos d = none := by
  cases hc : controlPos d with
  | none => rfl
  | some p => have := controlPos_some_length d p hc; omega

/-- once found, the control position does not move when octets are appended -/
theorem controlPos_append (d ys : List Nat) (p : Nat) (h : controlPos d = some p) :
    controlPos (d ++ ys) = some p := by
  obtain ⟨a, b, dst, src, rest, e, w1, w2, hp⟩ := controlPos_some d p h
  subst e hp
  rw [List.append_assoc _ rest ys]
  exact controlPos_of_shape a b dst src (rest ++ ys) w1 w2

/-! ### the frame invariant -/

theorem FrameInv_empty : FrameInv Frame.empty := by
  refine ⟨rfl, ?_, ?_⟩
  · simp [Frame.empty, controlPos_nil]
  · intro b hb; simp [Frame.empty] at hb

theorem FrameInv_append (f : Frame) (b : Nat) (h : FrameInv f) (hb : b < 256) :
    FrameInv (f.append b) := by
  obtain ⟨hcrc, hctl, hoct⟩ := h
  refine ⟨?_, ?_, ?_⟩
  · simp only [Frame.append]
    rw [Amshan.FcsLemmas.feed_append, ← hcrc]; rfl
  · simp only [Frame.append]
    cases hp : f.ctlPos with
    | some p =>
      simp only
      rw [hp] at hctl
      exact (controlPos_append f.data [b] p hctl.symm).symm
    | none =>
      simp only
      split
      · rfl
      · rename_i hl
        exact (controlPos_short _ (by omega)).symm
  · intro x hx
    simp only [Frame.append, List.mem_append, List.mem_singleton] at hx
    rcases hx with hx | hx
    · exact hoct x hx
    · omega

theorem Frame.append_data (f : Frame) (b : Nat) : (f.append b).data = f.data ++ [b] := rfl

/-! ### the reader preserves the invariant -/

theorem CoreInv_init : CoreInv Core.init := by simp [CoreInv, Core.init]

theorem CoreInv_startFrame (c : Core) : CoreInv (startFrame c) := by
  simp only [CoreInv, startFrame]; exact FrameInv_empty

theorem CoreInv_gotoHunt (c : Core) : CoreInv (gotoHunt c) := by
  simp [CoreInv, gotoHunt]

theorem xor_esc_lt (x : Nat) (hx : x < 256) : x ^^^ escXor < 256 :=
  Nat.xor_lt_two_pow (n := 8) hx (by decide)

theorem CoreInv_appendToFrame (cfg : Cfg) (c : Core) (f : Frame) (x : Nat)
    (hf : FrameInv f) (hx : x < 256) : CoreInv (appendToFrame cfg c f x) := by
  unfold appendToFrame
  simp only
  split
  · split
    · exact FrameInv_append f _ hf (xor_esc_lt x hx)
    · split
      · exact hf
      · exact FrameInv_append f _ hf hx
  · exact FrameInv_append f _ hf hx

/-- the common tail of `_read_next` / `_handle_flag_sequence` after `_append_to_frame` -/
theorem CoreInv_afterAppend (c1 : Core) (h : CoreInv c1) :
    CoreInv (match c1.frame with
      | some f1 => if f1.len > maxFrameLen then (gotoHunt c1, Act.hunt) else (c1, Act.cont)
      | none => (c1, Act.cont)).1 := by
  split
  · split
    · exact CoreInv_gotoHunt c1
    · exact h
  · exact h

theorem CoreInv_handleFlag (cfg : Cfg) (c : Core) (h : CoreInv c) : CoreInv (handleFlag cfg c).1 := by
  unfold handleFlag
  split
  · exact CoreInv_startFrame c
  · rename_i f hf
    have hfi : FrameInv f := by simpa [CoreInv, hf] using h
    split
    · exact h
    · split
      · exact CoreInv_gotoHunt c
      · split
        · exact CoreInv_gotoHunt c
        · split
          · exact h
          · split
            · exact h
            · exact CoreInv_afterAppend _ (CoreInv_appendToFrame cfg c f flagOctet hfi (by decide))

theorem CoreInv_readNext (cfg : Cfg) (c : Core) (x : Nat) (h : CoreInv c) (hx : x < 256) :
    CoreInv (readNext cfg c x).1 := by
  unfold readNext
  split
  · exact CoreInv_handleFlag cfg c h
  · split
    · exact h
    · rename_i f hf
      have hfi : FrameInv f := by simpa [CoreInv, hf] using h
      exact CoreInv_afterAppend _ (CoreInv_appendToFrame cfg c f x hfi hx)

theorem stepOctet_inv (cfg : Cfg) (c : Core) (x : Nat) (h : CoreInv c) (hx : x < 256) :
    (∀ f ∈ (stepOctet cfg c x).2, FrameInv f) ∧ CoreInv (stepOctet cfg c x).1 := by
  have hr := CoreInv_readNext cfg c x h hx
  unfold stepOctet
  split
  · rename_i c1 he
    rw [he] at hr
    exact ⟨by simp, hr⟩
  · rename_i c1 he
    rw [he] at hr
    exact ⟨by simp, hr⟩
  · rename_i c1 he
    rw [he] at hr
    refine ⟨?_, CoreInv_startFrame c1⟩
    intro f hf
    simp only [CoreInv] at hr
    cases hfr : c1.frame with
    | none => simp [hfr] at hf
    | some f' =>
      simp only [hfr, Option.toList_some, List.mem_singleton] at hf hr
      subst hf; exact hr

theorem run_inv (cfg : Cfg) (c : Core) (inp : List Nat) (hc : CoreInv c) (hi : Octets inp) :
    (∀ f ∈ (run cfg c inp).2, FrameInv f) ∧ CoreInv (run cfg c inp).1 := by
  induction inp generalizing c with
  | nil => exact ⟨by simp [run], hc⟩
  | cons x xs ih =>
    have hs := stepOctet_inv cfg c x hc (hi x (by simp))
    have hr := ih (stepOctet cfg c x).1 hs.2 (fun y hy => hi y (by simp [hy]))
    simp only [run]
    refine ⟨?_, hr.2⟩
    intro f hf
    rcases List.mem_append.mp hf with hf | hf
    · exact hs.1 f hf
    · exact hr.1 f hf

/-! ### only frames with a complete header are returned -/

theorem handleFlag_complete_hcs (cfg : Cfg) (c c1 : Core) (h : handleFlag cfg c = (c1, Act.complete)) :
    ∀ f ∈ c1.frame.toList, f.hcs.isSome = true := by
  unfold handleFlag at h
  split at h
  · cases h
  · rename_i f hf
    have key : f.hcs.isNone = false → ∀ g ∈ c.frame.toList, g.hcs.isSome = true := by
      intro hn g hg
      simp only [hf, Option.toList_some, List.mem_singleton] at hg
      rw [hg]
      cases hh : f.hcs with
      | none => simp [hh] at hn
      | some _ => rfl
    split at h
    · cases h
    · split at h
      · cases h
      · rename_i hn
        have hn' : f.hcs.isNone = false := Bool.eq_false_iff.mpr hn
        split at h
        · cases h
        · split at h
          · cases h; exact key hn'
          · split at h
            · cases h; exact key hn'
            · exfalso
              revert h
              dsimp only
              split
              · split <;> intro h <;> cases h
              · intro h; cases h

theorem readNext_complete_hcs (cfg : Cfg) (c c1 : Core) (x : Nat) (h : readNext cfg c x = (c1, Act.complete)) :
    ∀ f ∈ c1.frame.toList, f.hcs.isSome = true := by
  unfold readNext at h
  split at h
  · exact handleFlag_complete_hcs cfg c c1 h
  · exfalso
    revert h
    split
    · intro h; cases h
    · simp only
      split
      · split <;> intro h <;> cases h
      · intro h; cases h

theorem stepOctet_hcs (cfg : Cfg) (c : Core) (x : Nat) :
    ∀ f ∈ (stepOctet cfg c x).2, f.hcs.isSome = true := by
  unfold stepOctet
  split
  · simp
  · simp
  · rename_i c1 he
    exact readNext_complete_hcs cfg c c1 x he

theorem run_hcs (cfg : Cfg) (c : Core) (inp : List Nat) :
    ∀ f ∈ (run cfg c inp).2, f.hcs.isSome = true := by
  induction inp generalizing c with
  | nil => simp [run]
  | cons x xs ih =>
    intro f hf
    simp only [run] at hf
    rcases List.mem_append.mp hf with hf | hf
    · exact stepOctet_hcs cfg c x f hf
    · exact ih _ f hf

/-! ### octet arithmetic of the accessors -/

theorem shl8_or (a b : Nat) (hb : b < 256) : (a <<< 8) ||| b = a * 256 + b := by
  rw [← Nat.shiftLeft_add_eq_or_of_lt (i := 8) (by simpa using hb), Nat.shiftLeft_eq]

theorem and_7ff (x : Nat) : x &&& 0x7FF = x % 2048 := by
  have : (0x7FF : Nat) = 2 ^ 11 - 1 := rfl
  rw [this, Nat.and_two_pow_sub_one_eq_mod]

theorem fmt_type (a b : Nat) (hb : b < 256) : ((a * 256 + b) >>> 12) &&& 0xF = a / 16 % 16 := by
  have : (0xF : Nat) = 2 ^ 4 - 1 := rfl
  rw [this, Nat.and_two_pow_sub_one_eq_mod, Nat.shiftRight_eq_div_pow]
  show (a * 256 + b) / 4096 % 16 = a / 16 % 16
  omega

/-! ### splitting off the last two octets -/

theorem split_last2 (d : List Nat) (h : 2 ≤ d.length) : ∃ m t0 t1, d = m ++ [t0, t1] := by
  have h1 : d ≠ [] := by intro e; subst e; simp at h
  have e1 := List.dropLast_concat_getLast h1
  have h2 : d.dropLast ≠ [] := by
    intro e
    have := congrArg List.length e
    simp only [List.length_dropLast, List.length_nil] at this
    omega
  have e2 := List.dropLast_concat_getLast h2
  refine ⟨d.dropLast.dropLast, d.dropLast.getLast h2, d.getLast h1, ?_⟩
  have : d.dropLast.dropLast ++ [d.dropLast.getLast h2, d.getLast h1]
      = (d.dropLast.dropLast ++ [d.dropLast.getLast h2]) ++ [d.getLast h1] := by simp
  rw [this, e2, e1]

theorem getElem?_len (pre : List Nat) (x : Nat) (t : List Nat) : (pre ++ x :: t)[pre.length]? = some x := by
  simp

theorem getElem?_len1 (pre : List Nat) (x y : Nat) (t : List Nat) :
    (pre ++ x :: y :: t)[pre.length + 1]? = some y := by
  rw [List.getElem?_append_right (by omega)]
  simp

theorem getElem?_len2 (pre : List Nat) (x y z : Nat) (t : List Nat) :
    (pre ++ x :: y :: z :: t)[pre.length + 2]? = some z := by
  rw [List.getElem?_append_right (by omega)]
  simp

/-! ### accessors on a frame of known shape -/

theorem Frame.control_of (f : Frame) (p : Nat) (pre : List Nat) (x : Nat) (t : List Nat)
    (hp : f.ctlPos = some p) (hd : f.data = pre ++ x :: t) (hl : pre.length = p) :
    f.control = some x := by
  subst hl
  have hlen : f.len > pre.length := by simp [Frame.len, hd]
  simp only [Frame.control, hp, hlen, if_true, hd, getElem?_len]

theorem Frame.hcs_of (f : Frame) (p : Nat) (pre : List Nat) (x h1 h2 : Nat) (t : List Nat)
    (hp : f.ctlPos = some p) (hd : f.data = pre ++ x :: h1 :: h2 :: t) (hl : pre.length = p) :
    f.hcs = some ((h1 <<< 8) ||| h2) := by
  subst hl
  have hlen : f.len > pre.length + 2 := by simp [Frame.len, hd]
  simp only [Frame.hcs, hp, hlen, if_true, hd, getElem?_len1, getElem?_len2]

theorem Frame.fcsField_of (f : Frame) (p : Nat) (X : List Nat) (u v : Nat)
    (hp : f.ctlPos = some p) (hd : f.data = X ++ [u, v]) (hl : p + 3 ≤ X.length + 2) :
    f.fcsField = some ((u <<< 8) ||| v) := by
  have hlen : f.len = X.length + 2 := by simp [Frame.len, hd]
  have hge : f.len ≥ p + 3 := by omega
  have e1 : f.len - 2 = X.length := by omega
  have e2 : f.len - 1 = X.length + 1 := by omega
  simp only [Frame.fcsField, Frame.infoPos, hp, Option.map_some, hge, if_true, e1, e2, hd,
    getElem?_len, getElem?_len1]

theorem Frame.payload_of (f : Frame) (p : Nat) (P I : List Nat) (u v : Nat)
    (hp : f.ctlPos = some p) (hd : f.data = P ++ I ++ [u, v]) (hl : P.length = p + 3) :
    f.payload = some I := by
  have hlen : f.len = p + 3 + I.length + 2 := by simp [Frame.len, hd, hl]; omega
  have hgt : f.len > p + 3 := by omega
  have hs : sliceNegEnd f.data (p + 3) 2 = I := by
    unfold sliceNegEnd
    have : f.data.length - 2 = (P ++ I).length := by
      simp only [Frame.len] at hlen
      rw [hlen, List.length_append, hl]; omega
    rw [this, hd, List.take_left, ← hl, List.drop_left]
  simp only [Frame.payload, Frame.infoPos, hp, Option.map_some, hgt, if_true, hs]

theorem Frame.payload_nil_of (f : Frame) (p : Nat) (hp : f.ctlPos = some p) (hl : f.len = p + 4) :
    f.payload = some [] := by
  have hgt : f.len > p + 3 := by omega
  have hs : sliceNegEnd f.data (p + 3) 2 = [] := by
    unfold sliceNegEnd
    apply List.drop_eq_nil_of_le
    simp only [Frame.len] at hl
    rw [List.length_take, hl]; omega
  simp only [Frame.payload, Frame.infoPos, hp, Option.map_some, hgt, if_true, hs]

theorem Frame.payload_none_of (f : Frame) (p : Nat) (hp : f.ctlPos = some p) (hl : f.len ≤ p + 3) :
    f.payload = none := by
  have hgt : ¬ (f.len > p + 3) := by omega
  simp only [Frame.payload, Frame.infoPos, hp, Option.map_some, hgt, if_false]

theorem Frame.frameFormat_of (f : Frame) (a b : Nat) (t : List Nat) (hd : f.data = a :: b :: t) :
    f.frameFormat = some ((a <<< 8) ||| b) := by
  simp only [Frame.frameFormat, hd]

/-- from a present HCS: the cached control position and enough octets -/
theorem Frame.hcs_isSome (f : Frame) (h : f.hcs.isSome = true) : ∃ p, f.ctlPos = some p ∧ f.len > p + 2 := by
  unfold Frame.hcs at h
  split at h
  · rename_i p hp
    split at h
    · rename_i hl; exact ⟨p, hp, hl⟩
    · simp at h
  · simp at h

end Amshan.Hdlc
