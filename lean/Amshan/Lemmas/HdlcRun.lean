import Amshan.Model.HdlcDefs
/-
  The buffer-level reader (`loop` / `read` / `readAll`) equals the octet-at-a-time machine (`run`).
  Reusable facts about `run` (append, flatten, hunt-mode skipping) live here.
-/
namespace Amshan.Hdlc
open Amshan.Gen

/-! ### small facts about the per-octet functions -/

@[simp] theorem gotoHunt_frame (c : Core) : (gotoHunt c).frame = none := rfl

theorem notFlag_eq_true {x : Nat} : notFlag x = true ↔ x ≠ flagOctet := by
  simp [notFlag]

theorem notFlag_eq_false {x : Nat} : notFlag x = false ↔ x = flagOctet := by
  simp [notFlag]

/-- the over-length check shared by `handleFlag` and `readNext` -/
theorem overflow_hunt_frame {c1 c2 : Core}
    (h : (match c1.frame with
      | some f1 => if f1.len > maxFrameLen then (gotoHunt c1, Act.hunt) else (c1, Act.cont)
      | none => (c1, Act.cont)) = (c2, Act.hunt)) : c2.frame = none := by
  split at h
  · split at h
    · simp only [Prod.mk.injEq, and_true] at h; subst h; rfl
    · simp only [Prod.mk.injEq, reduceCtorEq, and_false] at h
  · simp only [Prod.mk.injEq, reduceCtorEq, and_false] at h

/-- every place of `handleFlag` that asks for hunt mode returns a core without a frame -/
theorem handleFlag_hunt_frame {cfg : Cfg} {c c1 : Core} (h : handleFlag cfg c = (c1, .hunt)) :
    c1.frame = none := by
  unfold handleFlag at h
  split at h
  · simp only [Prod.mk.injEq, reduceCtorEq, and_false] at h
  · split at h
    · simp only [Prod.mk.injEq, reduceCtorEq, and_false] at h
    · split at h
      · simp only [Prod.mk.injEq, and_true] at h; subst h; rfl
      · split at h
        · simp only [Prod.mk.injEq, and_true] at h; subst h; rfl
        · split at h
          · simp only [Prod.mk.injEq, reduceCtorEq, and_false] at h
          · split at h
            · simp only [Prod.mk.injEq, reduceCtorEq, and_false] at h
            · exact overflow_hunt_frame h

/-- every place of `readNext` that asks for hunt mode returns a core without a frame -/
theorem readNext_hunt_frame {cfg : Cfg} {c c1 : Core} {x : Nat}
    (h : readNext cfg c x = (c1, .hunt)) : c1.frame = none := by
  unfold readNext at h
  split at h
  · exact handleFlag_hunt_frame h
  · split at h
    · simp only [Prod.mk.injEq, reduceCtorEq, and_false] at h
    · exact overflow_hunt_frame h

/-- in hunt mode a non-flag octet is ignored by `_read_next` -/
theorem readNext_hunt_notFlag (cfg : Cfg) {c : Core} {x : Nat}
    (hc : c.frame = none) (hx : notFlag x = true) : readNext cfg c x = (c, .cont) := by
  have hx' : x ≠ flagOctet := notFlag_eq_true.mp hx
  unfold readNext
  rw [if_neg hx']
  simp only [hc]

/-- in hunt mode a non-flag octet is ignored by the octet machine -/
theorem stepOctet_hunt_notFlag (cfg : Cfg) {c : Core} {x : Nat}
    (hc : c.frame = none) (hx : notFlag x = true) : stepOctet cfg c x = (c, []) := by
  unfold stepOctet
  rw [readNext_hunt_notFlag cfg hc hx]

/-! ### `run` -/

@[simp] theorem run_nil (cfg : Cfg) (c : Core) : run cfg c [] = (c, []) := rfl

theorem run_cons (cfg : Cfg) (c : Core) (x : Nat) (xs : List Nat) :
    run cfg c (x :: xs) =
      ((run cfg (stepOctet cfg c x).1 xs).1,
       (stepOctet cfg c x).2 ++ (run cfg (stepOctet cfg c x).1 xs).2) := rfl

/-- `run` over a concatenation: run the first part, continue from its final core. -/
theorem run_append (cfg : Cfg) (c : Core) (a b : List Nat) :
    run cfg c (a ++ b) =
      ((run cfg (run cfg c a).1 b).1, (run cfg c a).2 ++ (run cfg (run cfg c a).1 b).2) := by
  induction a generalizing c with
  | nil => simp only [List.nil_append, run_nil, List.nil_append]
  | cons x xs ih =>
    simp only [List.cons_append, run_cons, ih, List.append_assoc]

theorem run_append_core (cfg : Cfg) (c : Core) (a b : List Nat) :
    (run cfg c (a ++ b)).1 = (run cfg (run cfg c a).1 b).1 := by
  rw [run_append]

theorem run_append_frames (cfg : Cfg) (c : Core) (a b : List Nat) :
    (run cfg c (a ++ b)).2 = (run cfg c a).2 ++ (run cfg (run cfg c a).1 b).2 := by
  rw [run_append]

/-- lemma A: in hunt mode the machine skips everything before the next flag. -/
theorem run_hunt_dropWhile (cfg : Cfg) (c : Core) (u : List Nat) (hc : c.frame = none) :
    run cfg c u = run cfg c (u.dropWhile notFlag) := by
  induction u with
  | nil => rfl
  | cons x xs ih =>
    cases hx : notFlag x with
    | true =>
      rw [List.dropWhile_cons_of_pos hx, ← ih, run_cons, stepOctet_hunt_notFlag cfg hc hx]
      simp only [List.nil_append]
    | false =>
      rw [List.dropWhile_cons_of_neg (by simp [hx])]

/-! ### `loop` = `run` -/

/-- lemma B: the `while` loop of `read()` consumes its whole buffer and equals `run`. -/
theorem loop_eq_run (cfg : Cfg) (c : Core) (b : Buf) (out : List Frame) :
    (loop cfg c b out).1 = (run cfg c b.inp).1 ∧
    (loop cfg c b out).2.1.inp = [] ∧
    (loop cfg c b out).2.2 = out ++ (run cfg c b.inp).2 := by
  fun_induction loop cfg c b out with
  | case1 c b out h =>
    simp only [h, run_nil, List.append_nil, and_self]
  | case2 c b out x rest h b1 c1 hrn ih =>
    have hs : stepOctet cfg c x = (c1, []) := by unfold stepOctet; rw [hrn]
    rw [h, run_cons, hs]
    simpa only [List.nil_append] using ih
  | case3 c b out x rest h b1 c1 hrn ih =>
    have hs : stepOctet cfg c x = (c1, []) := by unfold stepOctet; rw [hrn]
    have hf : c1.frame = none := readNext_hunt_frame hrn
    rw [h, run_cons, hs]
    have : (b1.trimToFlagOrEnd).inp = rest.dropWhile notFlag := rfl
    rw [this, ← run_hunt_dropWhile cfg c1 rest hf] at ih
    simpa only [List.nil_append] using ih
  | case4 c b out x rest h b1 c1 hrn ih =>
    have hs : stepOctet cfg c x = (startFrame c1, c1.frame.toList) := by
      unfold stepOctet; rw [hrn]
    rw [h, run_cons, hs]
    have : (b1.trimToPos).inp = rest := rfl
    rw [this] at ih
    simpa only [List.append_assoc] using ih

/-! ### `read` / `readAll` = `run` -/

/-- One `read()` call on a reader whose input buffer is empty equals `run` over the chunk and
    leaves the input buffer empty. -/
theorem read_eq_run (cfg : Cfg) (r : Reader) (chunk : List Nat) (hr : r.buf = Buf.empty) :
    read cfg r chunk =
      ({ core := (run cfg r.core chunk).1, buf := Buf.empty }, (run cfg r.core chunk).2) := by
  unfold read
  simp only [hr]
  have hext : Buf.empty.extend chunk = { consumed := 0, inp := chunk } := by
    simp only [Buf.extend, Buf.empty, List.nil_append]
  rw [hext]
  cases hfr : r.core.frame.isNone with
  | true =>
    have hc : r.core.frame = none := Option.isNone_iff_eq_none.mp hfr
    obtain ⟨h1, h2, h3⟩ := loop_eq_run cfg r.core
      (Buf.trimToFlagOrEnd { consumed := 0, inp := chunk }) []
    have hi : (Buf.trimToFlagOrEnd { consumed := 0, inp := chunk }).inp
        = chunk.dropWhile notFlag := rfl
    rw [hi, ← run_hunt_dropWhile cfg r.core chunk hc] at h1 h3
    simp only [if_true, h1, h3, List.nil_append, Buf.trimToPos, h2, Buf.empty]
  | false =>
    obtain ⟨h1, h2, h3⟩ := loop_eq_run cfg r.core { consumed := 0, inp := chunk } []
    simp only [Bool.false_eq_true, if_false, h1, h3, List.nil_append, Buf.trimToPos, h2, Buf.empty]

theorem read_buf_empty (cfg : Cfg) (r : Reader) (chunk : List Nat) (hr : r.buf = Buf.empty) :
    (read cfg r chunk).1.buf = Buf.empty := by
  rw [read_eq_run cfg r chunk hr]

theorem read_core (cfg : Cfg) (r : Reader) (chunk : List Nat) (hr : r.buf = Buf.empty) :
    (read cfg r chunk).1.core = (run cfg r.core chunk).1 := by
  rw [read_eq_run cfg r chunk hr]

theorem read_frames (cfg : Cfg) (r : Reader) (chunk : List Nat) (hr : r.buf = Buf.empty) :
    (read cfg r chunk).2 = (run cfg r.core chunk).2 := by
  rw [read_eq_run cfg r chunk hr]

@[simp] theorem readAll_nil (cfg : Cfg) (r : Reader) : readAll cfg r [] = (r, []) := rfl

theorem readAll_cons (cfg : Cfg) (r : Reader) (ch : List Nat) (chs : List (List Nat)) :
    readAll cfg r (ch :: chs) =
      ((readAll cfg (read cfg r ch).1 chs).1,
       (read cfg r ch).2 :: (readAll cfg (read cfg r ch).1 chs).2) := rfl

/-- the input buffer stays empty across any sequence of `read()` calls -/
theorem readAll_buf_empty (cfg : Cfg) (r : Reader) (chunks : List (List Nat))
    (hr : r.buf = Buf.empty) : (readAll cfg r chunks).1.buf = Buf.empty := by
  induction chunks generalizing r with
  | nil => exact hr
  | cons ch chs ih =>
    rw [readAll_cons]
    exact ih _ (read_buf_empty cfg r ch hr)

/-- Any sequence of `read()` calls equals one `run` over the concatenated stream. -/
theorem readAll_eq_run (cfg : Cfg) (r : Reader) (chunks : List (List Nat))
    (hr : r.buf = Buf.empty) :
    (readAll cfg r chunks).2.flatten = (run cfg r.core chunks.flatten).2 ∧
    (readAll cfg r chunks).1 = { core := (run cfg r.core chunks.flatten).1, buf := Buf.empty } := by
  induction chunks generalizing r with
  | nil =>
    simp only [readAll_nil, List.flatten_nil, run_nil, true_and]
    cases r with
    | mk core buf => simp only at hr; rw [hr]
  | cons ch chs ih =>
    obtain ⟨ih1, ih2⟩ := ih (read cfg r ch).1 (read_buf_empty cfg r ch hr)
    rw [readAll_cons]
    simp only [List.flatten_cons, run_append, ih1, ih2, read_core cfg r ch hr, read_frames cfg r ch hr,
      and_self]

/-- the frames of all `read()` calls, per call, as `run` over the flattened stream -/
theorem readAll_frames (cfg : Cfg) (r : Reader) (chunks : List (List Nat))
    (hr : r.buf = Buf.empty) :
    (readAll cfg r chunks).2.flatten = (run cfg r.core chunks.flatten).2 :=
  (readAll_eq_run cfg r chunks hr).1

theorem readAll_core (cfg : Cfg) (r : Reader) (chunks : List (List Nat))
    (hr : r.buf = Buf.empty) :
    (readAll cfg r chunks).1.core = (run cfg r.core chunks.flatten).1 := by
  rw [(readAll_eq_run cfg r chunks hr).2]

theorem Reader.init_buf : Reader.init.buf = Buf.empty := rfl

/-- reachable readers have an empty input buffer -/
theorem Reachable.buf_empty {cfg : Cfg} {r : Reader} (h : Reachable cfg r) : r.buf = Buf.empty := by
  obtain ⟨chunks, rfl⟩ := h
  exact readAll_buf_empty cfg Reader.init chunks Reader.init_buf

/-- a reachable reader is `run` over the concatenation of the chunks that produced it -/
theorem Reachable.exists_run {cfg : Cfg} {r : Reader} (h : Reachable cfg r) :
    ∃ s : List Nat, r = { core := (run cfg Core.init s).1, buf := Buf.empty } := by
  obtain ⟨chunks, rfl⟩ := h
  exact ⟨chunks.flatten, (readAll_eq_run cfg Reader.init chunks Reader.init_buf).2⟩

end Amshan.Hdlc
