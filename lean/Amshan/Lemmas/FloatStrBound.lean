import Amshan.Lemmas.FloatBound
import Amshan.Lemmas.FloatStr
/-
  `int(float(m / 10^k) * 1000)` for ANY number k of fraction digits (FloatBound.lean has k ≤ 3, where the
  exact product m·1000/10^k is an integer): the result is ⌊m·1000/10^k⌋ or one less, never more.
  Used by Props/C11End.lean together with `ofStr_decimal` (FloatStr.lean).
-/
namespace Amshan.Flt

/-- pure arithmetic: two roundings of relative error 2^-53 around E = 1000·x < 2^50 -/
theorem kilo_arith_any (x Y Z E : ℚ) (hE : E = 1000 * x) (hE0 : 0 < E) (hEb : E < 2 ^ 50)
    (hY : |Y - x| ≤ x / 2 ^ 53) (hZ : |Z - Y * 1000| ≤ Y * 1000 / 2 ^ 53) :
    E - 1 < Z ∧ Z ≤ E + E / 2 ^ 51 := by
  have hY' := abs_le.mp hY
  have hZ' := abs_le.mp hZ
  subst hE
  constructor <;> norm_num at * <;> linarith

theorem kilo_range_any (x Y : ℚ) (hx : (1 : ℚ) / 10 ^ 60 ≤ x) (hxb : x < 2 ^ 50)
    (hY : |Y - x| ≤ x / 2 ^ 53) :
    (1 : ℚ) / 2 ^ 200 ≤ Y * 1000 ∧ Y * 1000 ≤ 2 ^ 200 := by
  have hY' := abs_le.mp hY
  constructor <;> norm_num at * <;> linarith

theorem kilo_floor_eq (m k : Nat) (hk : k ≤ 3) : m * 1000 / 10 ^ k = m * 10 ^ (3 - k) := by
  have hk4 : k = 0 ∨ k = 1 ∨ k = 2 ∨ k = 3 := by omega
  rcases hk4 with rfl | rfl | rfl | rfl <;> norm_num <;> omega

/-- `int(float(m / 10^k) * 1000)` is `⌊m·1000/10^k⌋` or one less (k ≤ 60 fraction digits,
    `m · 10^(3-k) < 2^50`, i.e. the product below 2^50 for k ≤ 3 and `m < 2^50` for k ≥ 3) -/
theorem kilo_unit_bound_any (m k : Nat) (hk : k ≤ 60) (hE : m * 10 ^ (3 - k) < 2 ^ 50) :
    toInt (mul (ofRat false m (10 ^ k)) (ofNat 1000)) = .ok ((m * 1000 / 10 ^ k : Nat) : Int) ∨
    toInt (mul (ofRat false m (10 ^ k)) (ofNat 1000)) = .ok (((m * 1000 / 10 ^ k : Nat) : Int) - 1) := by
  rcases Nat.lt_or_ge 3 k with hk3 | hk3
  swap
  · rw [kilo_floor_eq m k hk3]; exact kilo_unit_bound_gen m k hk3 hE
  have h3k : 3 - k = 0 := by omega
  rw [h3k, pow_zero, Nat.mul_one] at hE
  rcases Nat.eq_zero_or_pos m with rfl | hm0
  · left
    have h0 : ofRat false 0 (10 ^ k) = .fin false 0 0 := by simp [ofRat]
    obtain ⟨mk, ek, hkeq, _, _⟩ := ofRat_nat_exact false 1000 (by norm_num) (by norm_num)
    obtain ⟨N, D, heq, hD, hND, _⟩ := mul_fin_eq false false 0 mk 0 ek
    have hN : N = 0 := by
      have : (N : ℚ) / D = 0 := by rw [hND]; simp
      have hD' : (D : ℚ) ≠ 0 := by positivity
      have : (N : ℚ) = 0 := by
        rcases div_eq_zero_iff.mp this with h | h
        · exact h
        · exact absurd h hD'
      exact_mod_cast this
    unfold ofNat
    rw [h0, hkeq, heq, hN]
    simp [ofRat, toInt]
  · -- T = 10^(k-3), 10^k = T * 1000, q = m / T
    set T := 10 ^ (k - 3) with hTdef
    have hTpos : 0 < T := by positivity
    have h10k : 10 ^ k = T * 1000 := by
      rw [hTdef, show (1000 : Nat) = 10 ^ 3 by norm_num, ← pow_add]; congr 1; omega
    have hq : m * 1000 / 10 ^ k = m / T := by
      rw [h10k]; exact Nat.mul_div_mul_right m T (by norm_num)
    rw [hq]
    set q := m / T with hqdef
    have hdm : T * q + m % T = m := Nat.div_add_mod m T
    have hr : m % T < T := Nat.mod_lt _ hTpos
    have hTq : (0 : ℚ) < (T : ℚ) := by exact_mod_cast hTpos
    have hmq1 : (1 : ℚ) ≤ m := by exact_mod_cast hm0
    have hmqb : (m : ℚ) < 2 ^ 50 := by exact_mod_cast hE
    set x : ℚ := (m : ℚ) / ((10 ^ k : Nat) : ℚ) with hxdef
    have h10kq : ((10 ^ k : Nat) : ℚ) = (T : ℚ) * 1000 := by rw [h10k]; push_cast; ring
    have h10pos : (0 : ℚ) < ((10 ^ k : Nat) : ℚ) := by rw [h10kq]; positivity
    have h10le : ((10 ^ k : Nat) : ℚ) ≤ 10 ^ 60 := by
      exact_mod_cast Nat.pow_le_pow_right (by norm_num) hk
    have h10ge : (1000 : ℚ) ≤ ((10 ^ k : Nat) : ℚ) := by
      have : (1 : ℚ) ≤ (T : ℚ) := by exact_mod_cast hTpos
      rw [h10kq]; linarith
    -- E = 1000 x = m / T
    set E : ℚ := 1000 * x with hEdef
    have hET : E * T = m := by
      rw [hEdef, hxdef, h10kq]; field_simp
    have hxlo : (1 : ℚ) / 10 ^ 60 ≤ x := by
      rw [hxdef, div_le_div_iff₀ (by positivity) h10pos]; nlinarith
    have hxhi : x < 2 ^ 50 := by
      rw [hxdef, div_lt_iff₀ h10pos]; nlinarith
    have hxr : (1 : ℚ) / 2 ^ 200 ≤ x ∧ x ≤ 2 ^ 200 := by
      have c1 : (1 : ℚ) / 2 ^ 200 ≤ 1 / 10 ^ 60 := by norm_num
      have c2 : (2 : ℚ) ^ 50 ≤ 2 ^ 200 := by norm_num
      constructor <;> linarith
    have hE0 : 0 < E := by rw [hEdef]; have : (0 : ℚ) < x := lt_of_lt_of_le (by positivity) hxlo; linarith
    have hEm : E ≤ m := by
      have h1 : (1 : ℚ) ≤ (T : ℚ) := by exact_mod_cast hTpos
      rw [← hET]; nlinarith
    have hEb : E < 2 ^ 50 := lt_of_le_of_lt hEm hmqb
    obtain ⟨my, ey, hyeq, hmy, hYerr⟩ := ofRat_spec false m (10 ^ k) hm0 (by positivity)
      (by rw [← hxdef]; exact hxr.1) (by rw [← hxdef]; exact hxr.2)
    rw [← hxdef] at hYerr
    obtain ⟨mk, ek, hkeq, hmk, hkval⟩ := ofRat_nat_exact false 1000 (by norm_num) (by norm_num)
    have hkval' : (mk : ℚ) * (2 : ℚ) ^ ek = 1000 := by rw [hkval]; norm_num
    set Y : ℚ := (my : ℚ) * (2 : ℚ) ^ ey with hYdef
    have hrange := kilo_range_any x Y hxlo hxhi hYerr
    obtain ⟨mz, ez, hzeq, hmz, hZerr⟩ := mul_spec my mk ey ek (by omega) (by omega) (Y * 1000)
      (by rw [hkval']) hrange.1 hrange.2
    have hZ := kilo_arith_any x Y ((mz : ℚ) * (2 : ℚ) ^ ez) E hEdef hE0 hEb hYerr hZerr
    obtain ⟨a, haeq, ha1, ha2⟩ := toInt_floor mz ez
    set Z : ℚ := (mz : ℚ) * (2 : ℚ) ^ ez with hZdef
    unfold ofNat
    rw [hyeq, hkeq, hzeq, haeq]
    -- Z < q + 1
    have hmq : (m : ℚ) = (T : ℚ) * q + ((m % T : Nat) : ℚ) := by exact_mod_cast hdm.symm
    have hrq : ((m % T : Nat) : ℚ) + 1 ≤ (T : ℚ) := by exact_mod_cast hr
    have hup : Z * T < ((q : ℚ) + 1) * T := by
      have h1 : Z * T ≤ (E + E / 2 ^ 51) * T := mul_le_mul_of_nonneg_right hZ.2 hTq.le
      have h2 : (E + E / 2 ^ 51) * T = m + m / 2 ^ 51 := by rw [← hET]; ring
      have h3 : (m : ℚ) / 2 ^ 51 < 1 := by rw [div_lt_one (by positivity)]; linarith
      nlinarith
    have hup' : Z < (q : ℚ) + 1 := lt_of_mul_lt_mul_right hup hTq.le
    -- q - 1 < Z
    have hqE : (q : ℚ) ≤ E := by
      have : (q : ℚ) * T ≤ E * T := by rw [hET, hmq]; nlinarith
      exact le_of_mul_le_mul_right this hTq
    have hlo' : (q : ℚ) - 1 < Z := by linarith [hZ.1]
    have h1 : (a : ℚ) < (q : ℚ) + 1 := by linarith
    have h2 : (q : ℚ) < (a : ℚ) + 1 + 1 := by linarith
    have h1' : a < q + 1 := by exact_mod_cast h1
    have h2' : q < a + 1 + 1 := by exact_mod_cast h2
    rcases Nat.lt_or_ge a q with hlt | hge
    · right
      have : a + 1 = q := by omega
      congr 1
      omega
    · left
      have : a = q := by omega
      rw [this]

end Amshan.Flt
