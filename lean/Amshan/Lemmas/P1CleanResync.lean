import Amshan.Lemmas.P1CleanInv
/-
  C16 (P1 part): after arbitrary octets the reader is, at the latest after the end line of the
  first following readout, in the clean-stream invariant `Inv` of C05.
  Phases:  `InvP` (still before the first LF of the first readout: any state satisfying `BI`),
           `InvN` (inside the first readout, after its identification line),
           `Inv`  (clean).
-/
namespace Amshan.P1
open Amshan.Gen Amshan.P1Spec

/-! ### the reader never raises from a state satisfying `BI` -/

theorem loop_BI (n : Nat) : ∀ (Y raw : List Nat) (hunt : Bool) (c : Nat) (out : List Readout),
    Y.length ≤ n → BI raw hunt →
    ∃ r1 o, loop ⟨c, Y⟩ raw hunt out = .ok (r1, out ++ o) ∧ BI r1.raw r1.hunt ∧
      10 ∉ r1.buf.inp ∧ ∃ Z, Y = Z ++ r1.buf.inp := by
  induction n with
  | zero =>
    intro Y raw hunt c out hn hb
    have : Y = [] := List.eq_nil_of_length_eq_zero (by omega)
    subst this
    exact ⟨⟨⟨c, []⟩, raw, hunt⟩, [], by rw [loop_nolf _ _ _ _ _ (by simp)]; simp, hb, by simp, [], rfl⟩
  | succ n ih =>
    intro Y raw hunt c out hn hb
    rcases split_lf Y with hY | ⟨body, rest, hY, hbody⟩
    · exact ⟨⟨⟨c, Y⟩, raw, hunt⟩, [], by rw [loop_nolf _ _ _ _ _ hY]; simp, hb, hY, [], rfl⟩
    · subst hY
      have hne : body ++ [10] ≠ [] := by simp
      obtain ⟨x, t, hxt⟩ := List.exists_cons_of_ne_nil hne
      obtain ⟨raw1, hunt1, ro, hh, hb1⟩ := handleLine_BI raw hunt x t hb
      rw [← hxt] at hh
      have hlen : rest.length ≤ n := by
        simp only [List.length_append, List.length_cons] at hn; omega
      obtain ⟨r1, o, h1, h2, h3, Z, h4⟩ := ih rest raw1 hunt1 (c + body.length + 1)
        (out ++ ro.toList) hlen hb1
      refine ⟨r1, ro.toList ++ o, ?_, h2, h3, body ++ 10 :: Z, ?_⟩
      · rw [loop_line _ _ _ _ _ _ hbody _ _ _ hh, h1, List.append_assoc]
      · rw [h4]; simp

theorem ends_lf (Y Z I : List Nat) (h : Y ++ [10] = Z ++ I) (hI : 10 ∉ I) : I = [] := by
  have h2 := congrArg List.reverse h
  simp only [List.reverse_append, List.reverse_cons, List.reverse_nil, List.nil_append,
    List.singleton_append] at h2
  cases hr : I.reverse with
  | nil => simpa using hr
  | cons x t =>
    rw [hr] at h2
    simp only [List.cons_append, List.cons.injEq] at h2
    have : x ∈ I.reverse := by rw [hr]; simp
    rw [← h2.1] at this
    exact absurd (List.mem_reverse.mp this) hI

theorem read_BI (r : Reader) (chunk : List Nat) (h : BI r.raw r.hunt) :
    ∃ r' o, read r chunk = .ok (r', o) ∧ BI r'.raw r'.hunt := by
  by_cases hov : r.buf.inp.length + r.raw.length > p1Guard
  · obtain ⟨r1, o, h1, h2, _⟩ := loop_BI _ (chunk.dropWhile notStart) [] true 0 [] (Nat.le_refl _) BI_init
    exact ⟨r1, o, by rw [read_over r chunk hov, h1]; simp, h2⟩
  · cases hh : r.hunt with
    | true =>
      rw [hh] at h
      obtain ⟨r1, o, h1, h2, _⟩ := loop_BI _ ((r.buf.inp ++ chunk).dropWhile notStart) r.raw true 0 []
        (Nat.le_refl _) h
      exact ⟨r1, o, by rw [read_hunt r chunk (by omega) hh, h1]; simp, h2⟩
    | false =>
      rw [hh] at h
      obtain ⟨r1, o, h1, h2, _⟩ := loop_BI _ (r.buf.inp ++ chunk) r.raw false 0 [] (Nat.le_refl _) h
      exact ⟨r1, o, by rw [read_nohunt r chunk (by omega) hh, h1]; simp, h2⟩

theorem readAll_BI (chunks : List (List Nat)) : ∀ (r : Reader), BI r.raw r.hunt →
    ∃ r' os, readAll r chunks = .ok (r', os) := by
  induction chunks with
  | nil => intro r _; exact ⟨r, [], rfl⟩
  | cons ch chs ih =>
    intro r h
    obtain ⟨r1, o, h1, h2⟩ := read_BI r ch h
    obtain ⟨r2, os, h3⟩ := ih r1 h2
    exact ⟨r2, o :: os, by simp only [readAll, h1, h3]⟩

/-! ### inside the first readout -/

/-- the remaining lines of the first readout: data lines, then the end line -/
def MidLines (Ld : List (List Nat)) (el : List Nat) : Prop :=
  (∀ l ∈ Ld, IsDataLine l) ∧ IsLine el ∧ (∃ t, el = 33 :: t) ∧ 47 ∉ el

theorem midLines_no_start (Ld : List (List Nat)) (el : List Nat) (h : MidLines Ld el) :
    47 ∉ (Ld ++ [el]).flatten := by
  simp only [List.flatten_append, List.flatten_cons, List.flatten_nil, List.append_nil,
    List.mem_append, List.mem_flatten, not_or, not_exists, not_and]
  exact ⟨fun l hl m => (h.1 l hl).no_start m, h.2.2.2⟩

theorem midLines_of_wf (d : ReadoutDesc) (h : d.WF) : MidLines (dataLines d) (endLine d) :=
  ⟨isDataLine_of_mem d h, isLine_endLine d, ⟨_, rfl⟩, endLine_no_start d⟩

/-- inside the first readout (after its identification line) -/
def InvN (r : Reader) (rest : List Nat) (outs : List Readout) : Prop :=
  BI r.raw r.hunt ∧ ∃ v Ld el Lc, MidLines Ld el ∧ r.buf.inp ++ v = (Ld ++ [el]).flatten ∧
    rest = v ++ Lc.flatten ∧ Trace [] true Lc outs

/-- result of a call that started before the end of the first readout: still inside it, or clean
    after some junk readouts -/
def Post (r : Reader) (rest : List Nat) (outs o : List Readout) : Prop :=
  InvN r rest outs ∨ ∃ junk o1 o2, o = junk ++ o1 ∧ outs = o1 ++ o2 ∧ Inv r rest o2

theorem Post.prefix {r : Reader} {rest : List Nat} {outs o : List Readout} (j : List Readout)
    (h : Post r rest outs o) : Post r rest outs (j ++ o) := by
  rcases h with h | ⟨junk, o1, o2, h1, h2, h3⟩
  · exact Or.inl h
  · exact Or.inr ⟨j ++ junk, o1, o2, by rw [h1, List.append_assoc], h2, h3⟩

theorem handleLine_endline (raw : List Nat) (hunt : Bool) (tl : List Nat) (h : BI raw hunt) :
    ∃ ro, handleLine raw hunt (33 :: tl) = .ok ([], true, ro) := by
  cases hunt with
  | true =>
    have hr : raw = [] := h.1 rfl
    subst hr
    exact ⟨none, handleLine_skip _ _ _ (by decide)⟩
  | false =>
    obtain ⟨r0, hr⟩ := h.2 rfl
    subst hr
    obtain ⟨ro, hro⟩ := make_ok (r0 ++ 33 :: tl) (by simp)
    exact ⟨some ro, handleLine_end _ _ _ hro⟩

/-- a buffer without LF inside the first readout: the state stays in `InvN` -/
theorem invN_nolf (raw : List Nat) (hunt : Bool) (c : Nat) (X rest' : List Nat)
    (Ld : List (List Nat)) (el : List Nat) (Lc : List (List Nat)) (outs : List Readout)
    (hb : BI raw hunt) (hm : MidLines Ld el) (htr : Trace [] true Lc outs) (hX : 10 ∉ X)
    (body more : List Nat) (hbody : 10 ∉ body) (hfl : (Ld ++ [el]).flatten = body ++ 10 :: more)
    (he : X ++ rest' = (Ld ++ [el]).flatten ++ Lc.flatten) :
    InvN ⟨⟨c, X⟩, raw, hunt⟩ rest' outs := by
  rw [hfl] at he
  have he' : X ++ rest' = body ++ 10 :: (more ++ Lc.flatten) := by simpa using he
  obtain ⟨q, hq⟩ := nolf_prefix X rest' body _ hX hbody he'
  refine ⟨hb, q ++ 10 :: more, Ld, el, Lc, hm, ?_, ?_, htr⟩
  · rw [hfl, hq]; simp
  · rw [hq, List.append_assoc] at he'
    have := List.append_cancel_left he'
    rw [this]; simp

theorem loop_mid (el : List Nat) (Lc : List (List Nat)) (outs : List Readout)
    (htr : Trace [] true Lc outs) (Ld : List (List Nat)) : ∀ (raw : List Nat) (hunt : Bool)
    (X rest' : List Nat) (c : Nat) (out : List Readout), BI raw hunt → MidLines Ld el →
    X ++ rest' = (Ld ++ [el]).flatten ++ Lc.flatten →
    ∃ r' o, loop ⟨c, X⟩ raw hunt out = .ok (r', out ++ o) ∧ Post r' rest' outs o := by
  induction Ld with
  | nil =>
    intro raw hunt X rest' c out hb hm he
    have hm0 := hm
    obtain ⟨_, ⟨eb, hel, heb⟩, ⟨tl, htl⟩, _⟩ := hm0
    have hfl : ([] ++ [el]).flatten = eb ++ 10 :: [] := by simp [hel]
    rcases split_lf X with hX | ⟨b2, X2, hX, hb2⟩
    · exact ⟨⟨⟨c, X⟩, raw, hunt⟩, [], by rw [loop_nolf _ _ _ _ _ hX]; simp,
        Or.inl (invN_nolf raw hunt c X rest' [] el Lc outs hb hm htr hX eb [] heb hfl he)⟩
    · subst hX
      rw [hfl] at he
      have he' : b2 ++ 10 :: (X2 ++ rest') = eb ++ 10 :: Lc.flatten := by simpa using he
      obtain ⟨e1, e2⟩ := first_lf_unique _ _ _ _ hb2 heb he'
      subst e1
      obtain ⟨ro, hh⟩ := handleLine_endline raw hunt tl hb
      rw [← htl, hel] at hh
      obtain ⟨r', o1, o2, h1, h2, h3⟩ := loop_trace Lc [] true outs X2 rest' (c + b2.length + 1)
        (out ++ ro.toList) htr e2
      refine ⟨r', ro.toList ++ o1, ?_, Or.inr ⟨ro.toList, o1, o2, rfl, h2, Or.inr h3⟩⟩
      rw [loop_line _ _ _ _ _ _ hb2 _ _ _ hh, h1, List.append_assoc]
  | cons l Ld ih =>
    intro raw hunt X rest' c out hb hm he
    have hl := hm.1 l (by simp)
    obtain ⟨lb, hlb, hlb10⟩ := hl.isLine
    have hm' : MidLines Ld el := ⟨fun l' m => hm.1 l' (List.mem_cons_of_mem _ m), hm.2⟩
    have hfl : (l :: Ld ++ [el]).flatten = lb ++ 10 :: (Ld ++ [el]).flatten := by simp [hlb]
    rcases split_lf X with hX | ⟨b2, X2, hX, hb2⟩
    · exact ⟨⟨⟨c, X⟩, raw, hunt⟩, [], by rw [loop_nolf _ _ _ _ _ hX]; simp,
        Or.inl (invN_nolf raw hunt c X rest' (l :: Ld) el Lc outs hb hm htr hX lb _ hlb10 hfl he)⟩
    · subst hX
      rw [hfl] at he
      have he' : b2 ++ 10 :: (X2 ++ rest') = lb ++ 10 :: ((Ld ++ [el]).flatten ++ Lc.flatten) := by
        simpa using he
      obtain ⟨e1, e2⟩ := first_lf_unique _ _ _ _ hb2 hlb10 he'
      subst e1
      obtain ⟨x, t, hxt, _, _⟩ := hl.head
      obtain ⟨raw1, hunt1, ro, hh, hb1⟩ := handleLine_BI raw hunt x t hb
      rw [← hxt, hlb] at hh
      obtain ⟨r', o, h1, h2⟩ := ih raw1 hunt1 X2 rest' (c + b2.length + 1) (out ++ ro.toList) hb1 hm' e2
      refine ⟨r', ro.toList ++ o, ?_, h2.prefix _⟩
      rw [loop_line _ _ _ _ _ _ hb2 _ _ _ hh, h1, List.append_assoc]

theorem post_of_tstep {r' : Reader} {rest' : List Nat} {outs o1 o2 : List Readout}
    (h2 : outs = o1 ++ o2) (h3 : Inv r' rest' o2) : Post r' rest' outs o1 :=
  Or.inr ⟨[], o1, o2, rfl, h2, h3⟩

/-- one `read()` call that starts inside the first readout -/
theorem mid_step (r : Reader) (chunk rest' : List Nat) (outs : List Readout)
    (h : InvN r (chunk ++ rest') outs) :
    ∃ r' o, read r chunk = .ok (r', o) ∧ Post r' rest' outs o := by
  obtain ⟨hb, v, Ld, el, Lc, hm, hi, he, htr⟩ := h
  have h47 := midLines_no_start Ld el hm
  rw [← hi] at h47
  have hv : 47 ∉ v := fun m => h47 (List.mem_append_right _ m)
  have hinp : 47 ∉ r.buf.inp := fun m => h47 (List.mem_append_left _ m)
  by_cases hov : r.buf.inp.length + r.raw.length > p1Guard
  · rw [read_over r chunk hov]
    obtain ⟨r', o1, o2, h1, h2, h3⟩ := tstep v Lc outs chunk rest' hv he htr
    exact ⟨r', o1, h1, post_of_tstep h2 h3⟩
  · cases hh : r.hunt with
    | true =>
      rw [hh] at hb
      rw [read_hunt r chunk (by omega) hh, dropWhile_notStart_append _ _ hinp, hb.1 rfl]
      obtain ⟨r', o1, o2, h1, h2, h3⟩ := tstep v Lc outs chunk rest' hv he htr
      exact ⟨r', o1, h1, post_of_tstep h2 h3⟩
    | false =>
      rw [hh] at hb
      rw [read_nohunt r chunk (by omega) hh]
      have he2 : (r.buf.inp ++ chunk) ++ rest' = (Ld ++ [el]).flatten ++ Lc.flatten := by
        rw [← hi, List.append_assoc, he, List.append_assoc]
      obtain ⟨r', o, h1, h2⟩ := loop_mid el Lc outs htr Ld r.raw false _ rest' 0 [] hb hm he2
      exact ⟨r', o, by simpa using h1, h2⟩

/-! ### before the first LF of the first readout -/

/-- arbitrary octets `u`, then the LF that ends the first identification line -/
def InvP (r : Reader) (rest : List Nat) (outs : List Readout) : Prop :=
  BI r.raw r.hunt ∧ ∃ u Ld el Lc, MidLines Ld el ∧
    rest = u ++ 10 :: ((Ld ++ [el]).flatten ++ Lc.flatten) ∧ Trace [] true Lc outs

theorem loop_pre (el : List Nat) (Lc : List (List Nat)) (outs : List Readout)
    (htr : Trace [] true Lc outs) (Ld : List (List Nat)) (hm : MidLines Ld el)
    (raw : List Nat) (hunt : Bool) (hb : BI raw hunt) (Y X rest' : List Nat) (c : Nat)
    (he : X ++ rest' = (Ld ++ [el]).flatten ++ Lc.flatten) :
    ∃ r' o, loop ⟨c, Y ++ 10 :: X⟩ raw hunt [] = .ok (r', o) ∧ Post r' rest' outs o := by
  obtain ⟨r1, o1, h1, hb1, hn1, Z, hZ⟩ := loop_BI _ (Y ++ [10]) raw hunt c [] (Nat.le_refl _) hb
  have hi : r1.buf.inp = [] := ends_lf Y Z _ hZ hn1
  have e : Y ++ 10 :: X = (Y ++ [10]) ++ X := by simp
  rw [e, loop_append X _ c (Y ++ [10]) raw hunt [] r1 _ (Nat.le_refl _) h1, hi, List.nil_append]
  obtain ⟨r', o, h2, h3⟩ := loop_mid el Lc outs htr Ld r1.raw r1.hunt X rest' r1.buf.consumed
    ([] ++ o1) hb1 hm he
  exact ⟨r', [] ++ o1 ++ o, h2, by simpa using h3.prefix o1⟩

theorem dropWhile_notStart_mem (Y Z : List Nat) (h : 47 ∈ Y) :
    (Y ++ Z).dropWhile notStart = Y.dropWhile notStart ++ Z := by
  induction Y with
  | nil => cases h
  | cons a t ih =>
    by_cases ha : a = 47
    · subst ha
      simp [List.dropWhile, notStart, p1Start]
    · have hn : notStart a = true := by rw [notStart_iff]; exact ha
      have ht : 47 ∈ t := by
        rcases List.mem_cons.mp h with e | m
        · exact absurd e.symm ha
        · exact m
      simp only [List.cons_append, List.dropWhile, hn, ih ht]

/-- hunt mode: the call-start trim of `Y ++ LF ++ X`, then the loop -/
theorem loop_pre_trim (el : List Nat) (Lc : List (List Nat)) (outs : List Readout)
    (htr : Trace [] true Lc outs) (Ld : List (List Nat)) (hm : MidLines Ld el)
    (Y X rest' : List Nat) (he : X ++ rest' = (Ld ++ [el]).flatten ++ Lc.flatten) :
    ∃ r' o, loop ⟨0, (Y ++ 10 :: X).dropWhile notStart⟩ [] true [] = .ok (r', o) ∧
      Post r' rest' outs o := by
  by_cases hY : 47 ∈ Y
  · rw [dropWhile_notStart_mem _ _ hY]
    exact loop_pre el Lc outs htr Ld hm [] true BI_init _ X rest' 0 he
  · have e : Y ++ 10 :: X = (Y ++ [10]) ++ X := by simp
    have hY' : 47 ∉ Y ++ [10] := by
      simp only [List.mem_append, List.mem_cons, List.not_mem_nil, or_false, not_or]
      exact ⟨hY, by decide⟩
    rw [e, dropWhile_notStart_append _ _ hY']
    obtain ⟨r', o1, o2, h1, h2, h3⟩ := tstep _ Lc outs X rest' (midLines_no_start Ld el hm) he htr
    exact ⟨r', o1, h1, post_of_tstep h2 h3⟩

/-- one `read()` call that starts before the first LF of the first readout -/
theorem pre_step (r : Reader) (chunk rest' : List Nat) (outs : List Readout)
    (h : InvP r (chunk ++ rest') outs) :
    ∃ r' o, read r chunk = .ok (r', o) ∧ (InvP r' rest' outs ∨ Post r' rest' outs o) := by
  obtain ⟨hb, u, Ld, el, Lc, hm, he, htr⟩ := h
  have stay : ∀ a', rest' = a' ++ 10 :: ((Ld ++ [el]).flatten ++ Lc.flatten) →
      ∃ r' o, read r chunk = .ok (r', o) ∧ (InvP r' rest' outs ∨ Post r' rest' outs o) := by
    intro a' h2
    obtain ⟨r', o, h3, h4⟩ := read_BI r chunk hb
    exact ⟨r', o, h3, Or.inl ⟨h4, a', Ld, el, Lc, hm, h2, htr⟩⟩
  rcases List.append_eq_append_iff.mp he with ⟨a', _, h2⟩ | ⟨c', h1, h2⟩
  · exact stay a' h2
  · cases c' with
    | nil => exact stay [] (by simpa using h2.symm)
    | cons x X =>
      simp only [List.cons_append, List.cons.injEq] at h2
      obtain ⟨hx, hX⟩ := h2
      subst hx
      subst h1
      by_cases hov : r.buf.inp.length + r.raw.length > p1Guard
      · rw [read_over r _ hov]
        obtain ⟨r', o, h3, h4⟩ := loop_pre_trim el Lc outs htr Ld hm u X rest' hX.symm
        exact ⟨r', o, h3, Or.inr h4⟩
      · cases hh : r.hunt with
        | true =>
          rw [hh] at hb
          rw [read_hunt r _ (by omega) hh, hb.1 rfl, ← List.append_assoc]
          obtain ⟨r', o, h3, h4⟩ := loop_pre_trim el Lc outs htr Ld hm (r.buf.inp ++ u) X rest' hX.symm
          exact ⟨r', o, h3, Or.inr h4⟩
        | false =>
          rw [hh] at hb
          rw [read_nohunt r _ (by omega) hh, ← List.append_assoc]
          obtain ⟨r', o, h3, h4⟩ := loop_pre el Lc outs htr Ld hm r.raw false hb (r.buf.inp ++ u) X
            rest' 0 hX.symm
          exact ⟨r', o, h3, Or.inr h4⟩

/-! ### all calls -/

def InvR (r : Reader) (rest : List Nat) (outs : List Readout) : Prop :=
  InvP r rest outs ∨ InvN r rest outs

theorem trace_flatten_nil (raw : List Nat) (hunt : Bool) (Ls : List (List Nat))
    (outs : List Readout) (h : Trace raw hunt Ls outs) (he : Ls.flatten = []) : outs = [] := by
  cases Ls with
  | nil => exact h.1
  | cons l Ls =>
    have := isLine_flatten_ne l Ls h.1
    rw [he] at this; cases this

theorem invR_nil (r : Reader) (outs : List Readout) (h : InvR r [] outs) : outs = [] := by
  rcases h with ⟨_, u, Ld, el, Lc, _, he, _⟩ | ⟨_, v, Ld, el, Lc, _, _, he, htr⟩
  · have := congrArg List.length he
    simp at this
  · have h0 : v ++ Lc.flatten = [] := he.symm
    simp only [List.append_eq_nil_iff] at h0
    exact trace_flatten_nil _ _ _ _ htr h0.2

theorem readAll_resync (chunks : List (List Nat)) : ∀ (r : Reader) (outs : List Readout),
    InvR r chunks.flatten outs →
    ∃ r' os junk, readAll r chunks = .ok (r', os) ∧ os.flatten = junk ++ outs := by
  induction chunks with
  | nil =>
    intro r outs h
    exact ⟨r, [], [], rfl, by rw [invR_nil r outs h]; rfl⟩
  | cons ch chs ih =>
    intro r outs h
    rw [List.flatten_cons] at h
    have step : ∃ r' o, read r ch = .ok (r', o) ∧ (InvR r' chs.flatten outs ∨
        ∃ junk o1 o2, o = junk ++ o1 ∧ outs = o1 ++ o2 ∧ Inv r' chs.flatten o2) := by
      rcases h with h | h
      · obtain ⟨r', o, h1, h2⟩ := pre_step r ch _ outs h
        rcases h2 with h2 | h2 | h2
        · exact ⟨r', o, h1, Or.inl (Or.inl h2)⟩
        · exact ⟨r', o, h1, Or.inl (Or.inr h2)⟩
        · exact ⟨r', o, h1, Or.inr h2⟩
      · obtain ⟨r', o, h1, h2⟩ := mid_step r ch _ outs h
        rcases h2 with h2 | h2
        · exact ⟨r', o, h1, Or.inl (Or.inr h2)⟩
        · exact ⟨r', o, h1, Or.inr h2⟩
    obtain ⟨r1, o, h1, h2⟩ := step
    rcases h2 with h2 | ⟨junk, o1, o2, h3, h4, h5⟩
    · obtain ⟨r2, os, junk, h6, h7⟩ := ih r1 outs h2
      refine ⟨r2, o :: os, o ++ junk, by simp only [readAll, h1, h6], ?_⟩
      rw [List.flatten_cons, h7, List.append_assoc]
    · obtain ⟨r2, os, h6, h7⟩ := readAll_inv chs r1 o2 h5
      refine ⟨r2, o :: os, junk, by simp only [readAll, h1, h6], ?_⟩
      rw [List.flatten_cons, h7, h3, h4, List.append_assoc]

/-- C16 (P1 part) -/
theorem resync (pre : List Nat) (ds : List ReadoutDesc) (chunks : List (List Nat))
    (hds : ∀ d ∈ ds, d.WF ∧ d.encode.length ≤ p1Guard)
    (hch : chunks.flatten = pre ++ ds.flatMap ReadoutDesc.encode) :
    ∃ r outs junk, readAll Reader.init chunks = .ok (r, outs) ∧
      outs.flatten = junk ++ ds.tail.map expectedReadout := by
  cases ds with
  | nil =>
    obtain ⟨r, os, h⟩ := readAll_BI chunks Reader.init BI_init
    exact ⟨r, os, os.flatten, h, by simp⟩
  | cons d ds' =>
    have hd := (hds d (by simp)).1
    have hds' : ∀ d' ∈ ds', d'.WF ∧ d'.encode.length ≤ p1Guard :=
      fun d' m => hds d' (List.mem_cons_of_mem _ m)
    apply readAll_resync chunks Reader.init _
    refine Or.inl ⟨BI_init, pre ++ 47 :: (identBody d ++ [13]), dataLines d, endLine d,
      ds'.flatMap dlines, midLines_of_wf d hd, ?_, trace_stream ds' hds'⟩
    rw [hch, List.flatMap_cons, flatten_stream, encode_eq d, dlines, identLine_eq]
    simp

end Amshan.P1
