import Amshan.Lemmas.P1CleanInv
import Amshan.Lemmas.P1CleanResync
/-
  P1 reader on clean streams (C05) and resynchronisation (C16, P1 part): umbrella module.
  P1CleanLoop   : generic facts about `Buf.pop` / `loop`
  P1CleanWire   : the lines of a well-formed readout
  P1CleanHandle : `handleLine`, `Readout.make`, basic reader invariant `BI`
  P1CleanIdent  : identification line recognised; `make_encode`
  P1CleanInv    : `Trace`, `Inv`, `inv_step`, `readAll_inv`            (C05)
  P1CleanResync : `InvP`, `InvN`, `pre_step`, `mid_step`, `resync`     (C16)
-/
