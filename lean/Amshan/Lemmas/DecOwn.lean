import Amshan.Props.C12
import Amshan.Props.C10
import Amshan.Props.C07
import Amshan.Lemmas.DecTotal
import Amshan.Spec.Lists
/-
  Lemmas for Props/C12Own: which of the seven concrete decoders accept / reject genuine messages.
-/
namespace Amshan.DecOwn
open Amshan.Gen Amshan.Cosem Amshan.Dec Amshan.Auto Amshan.ListSpec Amshan.DecTotal

/-! ### the loop on a fresh AutoDecoder -/

variable {α β : Type}

theorem tryLoop_first (decs : List (Decoder α β)) (caught : PyExc → Bool) (hc : ∀ e, caught e = true)
    (p : α) (i : Nat) (d : Decoder α β) (v : β) (hi : decs[i]? = some d) (hv : d p = .ok v)
    (hrej : ∀ j, j < i → ∀ d', decs[j]? = some d' → ∃ e, d' p = .error e) :
    ∀ k j, j ≤ i → i < j + k → j + k ≤ decs.length →
      tryLoop decs caught 0 p k j = .ok (some (i, v)) := by
  intro k
  induction k with
  | zero => intro j h1 h2 _; omega
  | succ k ih =>
    intro j h1 h2 h3
    have hjl : j < decs.length := by omega
    rw [tryLoop_succ, Nat.add_zero, Nat.mod_eq_of_lt hjl]
    by_cases hji : j = i
    · subst hji
      rw [hi]
      simp only [hv]
    · rw [List.getElem?_eq_getElem hjl]
      obtain ⟨e, he⟩ := hrej j (by omega) _ (List.getElem?_eq_getElem hjl)
      simp only [he, hc e, if_true]
      exact ih (j + 1) (by omega) (by omega) (by omega)

/-- with nothing remembered, the first decoder (in list order) that accepts is used -/
theorem step_fresh (decs : List (Decoder α β)) (caught : PyExc → Bool) (hc : ∀ e, caught e = true)
    (p : α) (i : Nat) (d : Decoder α β) (v : β) (hi : decs[i]? = some d) (hv : d p = .ok v)
    (hrej : ∀ j, j < i → ∀ d', decs[j]? = some d' → ∃ e, d' p = .error e) :
    step decs caught none p = .ok (some i, some v) := by
  have hlt : i < decs.length := (List.getElem?_eq_some_iff.1 hi).1
  rw [step_eq]
  have hs : startOf none = 0 := rfl
  rw [hs, tryLoop_first decs caught hc p i d v hi hv hrej decs.length 0 (Nat.zero_le _) (by omega) (by omega)]

theorem ofOut_construct : ofOut .construct = .error .constructSoft := rfl

theorem ofOut_dict (d : Dict) : ofOut (.dict d) = .ok d := rfl

theorem fresh0 (p : List Nat) (v : Dict) (h0 : Aidon.decodeFrame p = .dict v) :
    stepPayload none p = .ok (some 0, some v) := by
  refine step_fresh decoders caught caught_all p 0 _ v (by rw [decoders_eq]; rfl) ?_ ?_
  · simp only [h0, ofOut_dict]
  · intro j hj; omega

theorem fresh1 (p : List Nat) (v : Dict) (h0 : Aidon.decodeFrame p = .construct)
    (h1 : Kaifa.decodeFrame p = .dict v) : stepPayload none p = .ok (some 1, some v) := by
  refine step_fresh decoders caught caught_all p 1 _ v (by rw [decoders_eq]; rfl) ?_ ?_
  · simp only [h1, ofOut_dict]
  · intro j hj d' hd'
    obtain rfl : j = 0 := by omega
    rw [decoders_eq] at hd'
    simp only [List.getElem?_cons_zero, Option.some.injEq] at hd'
    subst hd'
    exact ⟨.constructSoft, by show ofOut _ = _; rw [h0]; rfl⟩

theorem fresh2 (p : List Nat) (v : Dict) (h0 : Aidon.decodeFrame p = .construct)
    (h1 : Kaifa.decodeFrame p = .construct)
    (h2 : Kamstrup.decodeFrame p = .dict v) : stepPayload none p = .ok (some 2, some v) := by
  refine step_fresh decoders caught caught_all p 2 _ v (by rw [decoders_eq]; rfl) ?_ ?_
  · simp only [h2, ofOut_dict]
  · intro j hj d' hd'
    rw [decoders_eq] at hd'
    match j, hj with
    | 0, _ =>
      simp only [List.getElem?_cons_zero, Option.some.injEq] at hd'
      subst hd'
      exact ⟨.constructSoft, by show ofOut _ = _; rw [h0]; rfl⟩
    | 1, _ =>
      simp only [List.getElem?_cons_succ, List.getElem?_cons_zero, Option.some.injEq] at hd'
      subst hd'
      exact ⟨.constructSoft, by show ofOut _ = _; rw [h1]; rfl⟩

theorem fresh3 (p : List Nat) (v : Dict) (h0 : Aidon.decodeFrame p = .construct)
    (h1 : Kaifa.decodeFrame p = .construct) (h2 : Kamstrup.decodeFrame p = .construct)
    (h3 : P1Parse.decodeContent p = .ok v) : stepPayload none p = .ok (some 3, some v) := by
  refine step_fresh decoders caught caught_all p 3 _ v (by rw [decoders_eq]; rfl) h3 ?_
  intro j hj d' hd'
  rw [decoders_eq] at hd'
  match j, hj with
  | 0, _ =>
    simp only [List.getElem?_cons_zero, Option.some.injEq] at hd'
    subst hd'
    exact ⟨.constructSoft, by show ofOut _ = _; rw [h0]; rfl⟩
  | 1, _ =>
    simp only [List.getElem?_cons_succ, List.getElem?_cons_zero, Option.some.injEq] at hd'
    subst hd'
    exact ⟨.constructSoft, by show ofOut _ = _; rw [h1]; rfl⟩
  | 2, _ =>
    simp only [List.getElem?_cons_succ, List.getElem?_cons_zero, Option.some.injEq] at hd'
    subst hd'
    exact ⟨.constructSoft, by show ofOut _ = _; rw [h2]; rfl⟩

/-! ### small parser facts -/

theorem dateTime_soft_of_ne (b : Nat) (xs : List Nat) (hb : b ≠ 12) : dateTime (b :: xs) = .soft := by
  unfold dateTime
  split
  · rename_i heq
    simp only [List.cons.injEq] at heq
    exact absurd heq.1 hb
  · rfl

theorem dateTime_nil : dateTime [] = .soft := by
  unfold dateTime
  split
  · rename_i heq; cases heq
  · rfl

theorem takeN_append (t r : List Nat) : takeN t.length (t ++ r) = .ok t r := by
  unfold takeN
  simp

theorem takeN_append' (n : Nat) (t r : List Nat) (h : t.length = n) : takeN n (t ++ r) = .ok t r := by
  subst h; exact takeN_append t r

theorem mem_dropWhile_of_not (p : Nat → Bool) (b : Nat) (hp : p b = false) :
    ∀ l : List Nat, b ∈ l → b ∈ l.dropWhile p := by
  intro l
  induction l with
  | nil => intro h; cases h
  | cons a t ih =>
    intro h
    rw [List.dropWhile_cons]
    split
    · rename_i ha
      rcases List.mem_cons.1 h with rfl | h'
      · rw [hp] at ha; cases ha
      · exact ih h'
    · exact h

theorem mem_rstrip (p : Nat → Bool) (b : Nat) (hp : p b = false) (l : List Nat) (h : b ∈ l) :
    b ∈ Py.rstripWith p l := by
  unfold Py.rstripWith
  rw [List.mem_reverse]
  exact mem_dropWhile_of_not p b hp _ (List.mem_reverse.2 h)

theorem isAscii_false_of_big (t : List Nat) (b : Nat) (hb : b ∈ t) (h : 128 ≤ b) : isAsciiOctets t = false := by
  cases hq : isAsciiOctets t with
  | false => rfl
  | true =>
    unfold isAsciiOctets at hq
    rw [List.all_eq_true] at hq
    have := hq b hb
    simp only [decide_eq_true_eq] at this
    omega

theorem isAscii_of_printable (t : List Nat) (h : printable t) : isAsciiOctets t = true := by
  unfold isAsciiOctets
  rw [List.all_eq_true]
  intro c hc
  have := h c hc
  simp only [decide_eq_true_eq]
  omega

/-! ### the LLC/APDU header grammar rejects text -/

theorem llc_text_soft {γ : Type} (body : List Nat → Res γ) (s : List Nat)
    (h : ∀ c ∈ s, c ≠ 0 ∧ c ≠ 9 ∧ c ≠ 12) : llc body s = .soft := by
  rcases s with _ | ⟨a, _ | ⟨b, _ | ⟨c, _ | ⟨t, _ | ⟨i1, _ | ⟨i2, _ | ⟨i3, _ | ⟨i4, _ | ⟨x, r⟩⟩⟩⟩⟩⟩⟩⟩⟩
  · rfl
  · rfl
  · rfl
  · rfl
  · rfl
  · rfl
  · rfl
  · rfl
  · simp only [llc, apdu, takeN, u8, Res.bind, List.length_cons, List.length_nil, List.take, List.drop,
      ge_iff_le, Nat.le_refl, if_true, Nat.reduceAdd, Nat.reduceLeDiff, dateTime_nil]
  · have hx := h x (by simp)
    have h1 : x ≠ tNull := by rw [tNull_eq]; exact hx.1
    have h2 : x ≠ tOctet := by rw [tOctet_eq]; exact hx.2.1
    have h3 : dateTime (x :: r) = .soft := dateTime_soft_of_ne x r hx.2.2
    simp [llc, apdu, takeN, u8, Res.bind, hx.1, hx.2.1, h3]

/-! ### Aidon_frame rejects a structure body -/

theorem aidon_frame_reject (hd : Header) (hh : hd.WF) (rest : List Nat) :
    Aidon.decodeFrame (encHeader hd ++ [2] ++ rest) = .construct := by
  have hb : Aidon.notificationBody ([2] ++ rest) = .soft := by
    simp [Aidon.notificationBody, constByte, u8, Res.bind]
  rw [List.append_assoc]
  unfold Aidon.decodeFrame
  rw [C10.apdu_clock hd hh, hb]
  rfl

/-! ### Kaifa_frame rejects a Kamstrup list -/

theorem kaifa_obisBody_kam (n : Nat) (hn : 2 ≤ n) (rest : List Nat) :
    Kaifa.obisBody ([2, n] ++ [10] ++ rest) = .soft := by
  have hg : Kaifa.greedyObis ((10 :: rest).length + 1) (10 :: rest) = .ok [] (10 :: rest) := by
    rw [kaifa_greedy_succ]
    have : Kaifa.obisElement (10 :: rest) = .soft := by
      simp [Kaifa.obisElement, obisField, constByte, u8, Res.bind]
    rw [this]
  have hn' : ¬ n = 0 := by omega
  simp only [Kaifa.obisBody, constByte, u8, Res.bind, tStructure_eq, List.cons_append, List.nil_append,
    if_true, hg, List.length_nil, Nat.mul_zero, hn', if_false]

theorem field_visible (t rest : List Nat) (ht : printable t) :
    field ([10, t.length] ++ t ++ rest) = .ok (.str t) rest := by
  have h1 : visibleString (t.length :: (t ++ rest)) = .ok t rest := by
    simp only [visibleString, u8, Res.bind, takeN_append, isAscii_of_printable t ht, if_true]
  simp [field, u8, Res.bind, h1]

theorem field_obis_soft (o tail : List Nat) (ho : o.length = 6) (hb : ∃ b ∈ o, 128 ≤ b) :
    field ([9, 6] ++ o ++ tail) = .soft := by
  obtain ⟨b, hbo, hb128⟩ := hb
  have h1 : dateTime (6 :: (o ++ tail)) = .soft := dateTime_soft_of_ne 6 _ (by decide)
  have h2 : octetStringText (6 :: (o ++ tail)) = .soft := by
    have hz : (fun x : Nat => x == 0) b = false := by
      simp only [beq_eq_false_iff_ne, ne_eq]; omega
    have := isAscii_false_of_big _ b (mem_rstrip (fun x : Nat => x == 0) b hz o hbo) hb128
    simp only [octetStringText, u8, Res.bind, takeN_append' 6 o tail ho, this]
    rfl
  simp [field, u8, Res.bind, h1, h2]

theorem kaifa_valueBody_kam (n : Nat) (hn : 2 ≤ n) (ver o tail : List Nat) (hver : printable ver)
    (ho : o.length = 6) (hb : ∃ b ∈ o, 128 ≤ b) :
    Kaifa.valueBody ([2, n] ++ ([10, ver.length] ++ ver ++ ([9, 6] ++ o ++ tail))) = .soft := by
  obtain ⟨m, rfl⟩ : ∃ m, n = m + 2 := ⟨n - 2, by omega⟩
  have hf : Kaifa.fields (m + 2) ([10, ver.length] ++ ver ++ ([9, 6] ++ o ++ tail)) = .soft := by
    rw [Kaifa.fields, field_visible ver _ hver]
    simp only [Res.bind]
    rw [Kaifa.fields, field_obis_soft o tail ho hb]
    rfl
  simp only [Kaifa.valueBody, constByte, u8, Res.bind, tStructure_eq, List.cons_append, List.nil_append,
    if_true]
  simp only [List.cons_append, List.nil_append] at hf
  rw [hf]

theorem kaifa_frame_reject_kam (hd : Header) (hh : hd.WF) (n : Nat) (hn : 2 ≤ n) (ver o tail : List Nat)
    (hver : printable ver) (ho : o.length = 6) (hb : ∃ b ∈ o, 128 ≤ b) :
    Kaifa.decodeFrame (encHeader hd ++ ([2, n] ++ ([10, ver.length] ++ ver ++ ([9, 6] ++ o ++ tail)))) =
      .construct := by
  have h1 : Kaifa.obisBody ([2, n] ++ ([10, ver.length] ++ ver ++ ([9, 6] ++ o ++ tail))) = .soft := by
    have := kaifa_obisBody_kam n hn ([ver.length] ++ ver ++ ([9, 6] ++ o ++ tail))
    simpa only [List.cons_append, List.nil_append, List.append_assoc] using this
  have h2 := kaifa_valueBody_kam n hn ver o tail hver ho hb
  unfold Kaifa.decodeFrame Kaifa.llcPdu Kaifa.select
  rw [C10.apdu_clock hd hh, C10.apdu_clock hd hh, h1, h2]
  rfl

theorem encKamList_shape (l : KamList) (hpad : l.versionPad = 0) (e : KamElem) (rest : List KamElem)
    (hel : l.elems = e :: rest) :
    encKamList l = [2, l.lenOctet] ++ ([10, l.version.length] ++ l.version ++ ([9, 6] ++ e.obis ++
      (encKamVal e.value ++ List.replicate e.pad 0 ++
        rest.flatMap (fun e => encObis e.obis ++ encKamVal e.value ++ List.replicate e.pad 0)))) := by
  simp [encKamList, hpad, hel, encObis, List.append_assoc]

/-! ### the three frame decoders reject P1 text -/

theorem aidon_frame_text (s : List Nat) (h : ∀ c ∈ s, c ≠ 0 ∧ c ≠ 9 ∧ c ≠ 12) :
    Aidon.decodeFrame s = .construct := by
  unfold Aidon.decodeFrame
  rw [llc_text_soft _ s h]
  rfl

theorem kaifa_frame_text (s : List Nat) (h : ∀ c ∈ s, c ≠ 0 ∧ c ≠ 9 ∧ c ≠ 12) :
    Kaifa.decodeFrame s = .construct := by
  unfold Kaifa.decodeFrame Kaifa.llcPdu Kaifa.select
  rw [llc_text_soft _ s h, llc_text_soft _ s h]

theorem kamstrup_frame_text (s : List Nat) (h : ∀ c ∈ s, c ≠ 0 ∧ c ≠ 9 ∧ c ≠ 12) :
    Kamstrup.decodeFrame s = .construct := by
  unfold Kamstrup.decodeFrame
  rw [llc_text_soft _ s h]

/-! ### decode_message uses the same decoders and the same except clause -/

theorem decodersFor_hdlc (f : Hdlc.Frame) : decodersFor (.hdlc f) = decoders := by
  rfl

theorem decodersFor_dlms (b : List Nat) : decodersFor (.dlms b) = decoders := by
  rfl

theorem caughtMessage_eq : caughtBy caughtMessage = caught := by
  have : caughtMessage = caughtPayload := by decide
  unfold caught
  rw [this]

end Amshan.DecOwn
