import Amshan.Lemmas.P1CleanHandle
/-
  The identification line of a well-formed readout is recognised by the reader, and the
  readout object built from the encoded readout is the expected one.
-/
namespace Amshan.P1
open Amshan.Gen Amshan.P1Spec

theorem dropEscPairs_id (s : List Nat) (h : ∀ w rest, s = 92 :: w :: rest → Py.isWord w = false) :
    dropEscPairs s = s := by
  unfold dropEscPairs
  split
  · rename_i w rest
    rw [h w rest rfl]
    rfl
  · rfl

theorem dropEscPairs_escs (escs : List Nat) (s : List Nat) (h : escs.all Py.isWord = true) :
    dropEscPairs (escs.flatMap (fun w => [92, w]) ++ s) = dropEscPairs s := by
  induction escs with
  | nil => rfl
  | cons w t ih =>
    simp only [List.all_cons, Bool.and_eq_true] at h
    simp only [List.flatMap_cons, List.cons_append, List.nil_append]
    rw [dropEscPairs, if_pos h.1]
    exact ih h.2

theorem takeWhile_printable (i s : List Nat) (h : ∀ c ∈ i, Py.isPrintable c = true) :
    (i ++ 13 :: s).takeWhile Py.isPrintable = i := by
  induction i with
  | nil => simp [Py.isPrintable]
  | cons a t ih =>
    simp only [List.cons_append, List.takeWhile, h a (by simp)]
    rw [ih (fun c m => h c (List.mem_cons_of_mem _ m))]

theorem dropWhile_printable (i s : List Nat) (h : ∀ c ∈ i, Py.isPrintable c = true) :
    (i ++ 13 :: s).dropWhile Py.isPrintable = 13 :: s := by
  induction i with
  | nil => simp [Py.isPrintable]
  | cons a t ih =>
    simp only [List.cons_append, List.dropWhile, h a (by simp)]
    rw [ih (fun c m => h c (List.mem_cons_of_mem _ m))]

theorem isWord_eq (w : Nat) : Py.isWord w = P1Spec.isWord w := rfl

theorem isIdentLine_identLine (d : ReadoutDesc) (h : d.WF) : isIdentLine d.identLine = true := by
  obtain ⟨a, b, c, hm, ha, hb, hc⟩ := wf_man d h
  have hbaud : P1Spec.isDigit d.baud = true := h.2.1
  have hescs : d.escs.all Py.isWord = true := h.2.2.1
  obtain ⟨hlen, hid, hesc⟩ := wf_ident d h
  have e : d.identLine = 47 :: a :: b :: c :: d.baud ::
      (d.escs.flatMap (fun w => [92, w]) ++ (d.ident ++ [13, 10])) := by
    simp [ReadoutDesc.identLine, hm]
  have h1 : (Py.isUpper a && Py.isUpper b && Py.isAlpha c && Py.isDigit d.baud) = true := by
    have ha' : Py.isUpper a = true := ha
    have hb' : Py.isUpper b = true := hb
    have hc' : Py.isAlpha c = true := hc
    have hd' : Py.isDigit d.baud = true := hbaud
    simp [ha', hb', hc', hd']
  have h2 : dropEscPairs (d.escs.flatMap (fun w => [92, w]) ++ (d.ident ++ [13, 10]))
      = d.ident ++ 13 :: [10] := by
    rw [dropEscPairs_escs _ _ hescs]
    apply dropEscPairs_id
    intro w rest e
    cases hi : d.ident with
    | nil => rw [hi] at e; simp at e
    | cons x t =>
      cases t with
      | nil =>
        rw [hi] at e
        simp only [List.cons_append, List.nil_append, List.cons.injEq] at e
        rw [← e.2.1]; rfl
      | cons y t' =>
        rw [hi] at e
        simp only [List.cons_append, List.cons.injEq] at e
        have := hesc y t' (by rw [hi, e.1])
        rw [← e.2.1]; exact this
  have hp : ∀ c ∈ d.ident, Py.isPrintable c = true := fun c m => printable_of_dataChar c (hid c m)
  rw [isIdentLine, e, identMatch, if_pos h1]
  simp only [h2, takeWhile_printable _ _ hp, dropWhile_printable _ _ hp]
  have : decide (d.ident.length ≤ 16) = true := by simp [hlen]
  simp [this]

theorem isAscii_identLine (d : ReadoutDesc) (h : d.WF) : Py.isAscii d.identLine = true := by
  rw [identLine_eq]
  simp only [Py.isAscii, List.all_eq_true, decide_eq_true_eq, List.mem_cons, List.mem_append,
    List.not_mem_nil, or_false]
  intro x hx
  rcases hx with rfl | hx | rfl | rfl
  · omega
  · exact (okc_identBody d h x hx).2.2.2
  · omega
  · omega

theorem handleLine_identLine (d : ReadoutDesc) (h : d.WF) :
    handleLine [] true d.identLine = .ok (d.identLine, false, none) := by
  have hA := isAscii_identLine d h
  have hI := isIdentLine_identLine d h
  rw [identLine_eq] at hA hI ⊢
  rw [handleLine_start _ _ hA, if_pos hI]
  rfl

/-! ### the readout object -/

theorem make_encode (d : ReadoutDesc) (h : d.WF) :
    Readout.make d.encode = .ok (expectedReadout d) := by
  -- position of '!' and of the first LF
  have hpay : ∀ c ∈ d.lines.flatMap (· ++ [13, 10]), c ≠ 33 := by
    intro c hc
    simp only [List.mem_flatMap, List.mem_append, List.mem_cons, List.not_mem_nil, or_false] at hc
    obtain ⟨l, hl, hc⟩ := hc
    rcases hc with hc | rfl | rfl
    · exact (okc_dataLine d h l hl c hc).2.2.1
    · decide
    · decide
  have hbody : d.body = (47 :: (identBody d ++ [13, 10]) ++ d.lines.flatMap (· ++ [13, 10])) ++ [33] := by
    rw [ReadoutDesc.body, identLine_eq]
  let A := 47 :: (identBody d ++ [13, 10]) ++ d.lines.flatMap (· ++ [13, 10])
  have hA : 33 ∉ A := by
    simp only [A, List.cons_append, List.mem_cons, List.mem_append, List.not_mem_nil, or_false,
      not_or]
    refine ⟨by decide, ⟨fun m => (okc_identBody d h 33 m).2.2.1 rfl, by decide, by decide⟩,
      fun m => hpay 33 m rfl⟩
  have henc : d.encode = A ++ 33 :: (csText d ++ [13, 10]) := by
    simp only [ReadoutDesc.encode, hbody, A, csText]
    cases d.checksum <;> simp
  have henc2 : d.encode = 47 :: ((identBody d ++ [13]) ++ 10 ::
      (d.lines.flatMap (· ++ [13, 10]) ++ 33 :: (csText d ++ [13, 10]))) := by
    rw [henc]; simp [A]
  have h10 : 10 ∉ 47 :: (identBody d ++ [13]) := by
    simp only [List.mem_cons, List.mem_append, List.not_mem_nil, or_false, not_or]
    exact ⟨by decide, fun m => (okc_identBody d h 10 m).1 rfl, by decide⟩
  have hfind : Py.find d.encode 10 = some (identBody d ++ [13]).length.succ := by
    have := find_split 10 (47 :: (identBody d ++ [13]))
      (d.lines.flatMap (· ++ [13, 10]) ++ 33 :: (csText d ++ [13, 10])) h10
    rw [henc2]
    simpa using this
  have hm := make_start _ A (csText d ++ [13, 10]) (henc2.symm.trans henc) hA
  rw [← henc2] at hm
  rw [hm, hfind]
  simp only [expectedReadout, Except.ok.injEq, Readout.mk.injEq, true_and]
  constructor
  · rw [hbody]; simp [A]; omega
  · rw [identLine_eq]; simp

end Amshan.P1
