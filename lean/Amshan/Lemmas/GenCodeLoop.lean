import Amshan.GenRuntime
/-
  Lemmas about the loop combinators of the translated code (Amshan/GenRuntime.lean): `forLoop` (a `for` loop with
  `break` / `continue` / `return`) and `forLoopMut` (... that changes the items of its list in place).

  As for folds (Lemmas/GenCodeBase.lean), the equivalence proofs never write down the body of a generated loop: it
  is found by unification (`forLoop_congr (g := reference body)`), and the pointwise equality with the reference
  body - a hand-written function in the vocabulary of the model - is left as a goal, to be closed semantically.
-/
namespace Amshan.GenLemmas
open Amshan.GenRt

universe u v w
variable {α : Type w} {σ : Type u} {ρ : Type v}

@[simp] theorem forLoop_nil (s : σ) (body : σ → α → Step σ ρ) (k : σ → ρ) : forLoop [] s body k = k s := rfl

theorem forLoop_cons (x : α) (xs : List α) (s : σ) (body : σ → α → Step σ ρ) (k : σ → ρ) :
    forLoop (x :: xs) s body k =
      match body s x with
      | .next s' => forLoop xs s' body k
      | .brk s' => k s'
      | .ret r => r := rfl

/-- Two loops with pointwise equal bodies are equal.  Used as `rw [forLoop_congr (g := reference body)]`. -/
theorem forLoop_congr {f g : σ → α → Step σ ρ} (l : List α) (s : σ) (k : σ → ρ) (h : ∀ s a, f s a = g s a) :
    forLoop l s f k = forLoop l s g k := by
  have : f = g := funext fun s => funext (h s)
  rw [this]

/-- a loop over `range(a, a + n)` is the loop over `range(n)` with the index shifted in the body (so that sources
    that count from `start` and sources that add `start` to the counter are compared with one reference loop) -/
theorem forLoop_range'_shift_add (f : σ → Nat → Step σ ρ) (k : σ → ρ) (n a b : Nat) (s : σ) :
    forLoop (List.range' (a + b) n) s f k = forLoop (List.range' a n) s (fun st i => f st (i + b)) k := by
  induction n generalizing a s with
  | zero => rfl
  | succ n ih =>
    rw [List.range'_succ, List.range'_succ, forLoop_cons, forLoop_cons]
    have h := ih (a + 1)
    rw [Nat.add_right_comm] at h
    cases f s (a + b) with
    | next s' => exact h s'
    | brk s' => rfl
    | ret r => rfl

theorem forLoop_range'_shift (f : σ → Nat → Step σ ρ) (k : σ → ρ) (n a : Nat) (s : σ) :
    forLoop (List.range' a n) s f k = forLoop (List.range' 0 n) s (fun st i => f st (i + a)) k := by
  have := forLoop_range'_shift_add f k n 0 a s
  rwa [Nat.zero_add] at this

/-- a body that never leaves the loop: the loop is a fold -/
theorem forLoop_next {f : σ → α → Step σ ρ} {g : σ → α → σ} (l : List α) (s : σ) (k : σ → ρ)
    (h : ∀ s a, f s a = .next (g s a)) : forLoop l s f k = k (l.foldl g s) := by
  induction l generalizing s with
  | nil => rfl
  | cons x xs ih => rw [forLoop_cons, h]; exact ih _

/-- a body that breaks (to the state `b s x`) at the first item with `p`, and changes nothing before -/
theorem forLoop_find {f : σ → α → Step σ ρ} (p : α → Bool) (b : σ → α → σ) (l : List α) (s : σ) (k : σ → ρ)
    (h : ∀ s a, f s a = if p a then .brk (b s a) else .next s) :
    forLoop l s f k = match l.find? p with | some a => k (b s a) | none => k s := by
  induction l generalizing s with
  | nil => rfl
  | cons x xs ih =>
    rw [forLoop_cons, h]
    by_cases hp : p x = true
    · simp [hp]
    · simp [hp, ih]

@[simp] theorem forLoopMut_go_nil (body : σ → α → α × Step σ ρ) (k : List α → σ → ρ) (done : List α) (s : σ) :
    forLoopMut.go body k done [] s = k done s := rfl

theorem forLoopMut_go_cons (body : σ → α → α × Step σ ρ) (k : List α → σ → ρ) (done : List α) (x : α) (xs : List α) (s : σ) :
    forLoopMut.go body k done (x :: xs) s =
      match body s x with
      | (x', .next s') => forLoopMut.go body k (done ++ [x']) xs s'
      | (x', .brk s') => k (done ++ x' :: xs) s'
      | (_, .ret r) => r := rfl

theorem forLoopMut_congr {f g : σ → α → α × Step σ ρ} (l : List α) (s : σ) (k : List α → σ → ρ) (h : ∀ s a, f s a = g s a) :
    forLoopMut l s f k = forLoopMut l s g k := by
  have : f = g := funext fun s => funext (h s)
  rw [this]

/-- a body that breaks to ONE state `c` at the first item with `p`, and changes nothing before -/
theorem forLoop_any {f : σ → α → Step σ ρ} (p : α → Bool) (c : σ) (l : List α) (s : σ) (k : σ → ρ)
    (h : ∀ a, f s a = if p a then .brk c else .next s) :
    forLoop l s f k = if l.any p then k c else k s := by
  induction l with
  | nil => rfl
  | cons x xs ih =>
    rw [forLoop_cons, h]
    by_cases hp : p x = true
    · simp [hp]
    · simp [hp, ih]

/-- Two loops over a list of objects whose bodies agree ON THE INITIAL STATE are equal, when an iteration that goes
    on never changes the state (so the initial state is the only one the loop sees). -/
theorem forLoopMut_go_congr_const {f g : σ → α → α × Step σ ρ} (k : List α → σ → ρ) (s : σ)
    (hf : ∀ a, f s a = g s a) (hg : ∀ a x' s', g s a = (x', .next s') → s' = s) (done l : List α) :
    forLoopMut.go f k done l s = forLoopMut.go g k done l s := by
  induction l generalizing done with
  | nil => rfl
  | cons x xs ih =>
    rw [forLoopMut_go_cons, forLoopMut_go_cons, hf x]
    rcases hgx : g s x with ⟨x', st⟩
    cases st with
    | next s' => have := hg x x' s' hgx; subst this; exact ih _
    | brk s' => rfl
    | ret r => rfl

/-- a fold that appends each item is `++` -/
theorem foldl_snoc_eq {f : List α → α → List α} (l init : List α) (h : ∀ s a, f s a = s ++ [a]) :
    l.foldl f init = init ++ l := by
  induction l generalizing init with
  | nil => simp
  | cons x xs ih => simp [List.foldl_cons, h, ih]

/-- a fold that raises a flag at every item with `p` computes `any p` -/
theorem foldl_flag_any {f : Bool → α → Bool} (p : α → Bool) (l : List α) (init : Bool)
    (h : ∀ b a, f b a = (p a || b)) : l.foldl f init = (l.any p || init) := by
  induction l generalizing init with
  | nil => simp
  | cons x xs ih =>
    rw [List.foldl_cons, ih, h, List.any_cons]
    cases hp : p x <;> cases init <;> cases xs.any p <;> rfl

/-- (what `simp` turns such a fold into) -/
theorem flatten_map_singleton (l : List α) : (l.map (fun x => [x])).flatten = l := by
  induction l with
  | nil => rfl
  | cons x xs ih => simp [ih]

theorem foldl_snoc (l init : List α) : l.foldl (fun s a => s ++ [a]) init = init ++ l :=
  foldl_snoc_eq l init (fun _ _ => rfl)

end Amshan.GenLemmas
