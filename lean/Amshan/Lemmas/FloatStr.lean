import Amshan.Model.Float
/-
  `float(str)` on the plain decimal sub-syntax: optional sign, digits, optionally '.' and digits.
  `ofStr_decimal` / `ofStr_decimal_nodot`: the model's `Flt.ofStr` of such a text is `Flt.ofRat` of
  (all digits read as one integer) / 10^(number of fraction digits) — the link between the text a meter
  transmits and the rational whose rounding the error-bound lemmas (FloatBound*.lean) talk about.
  Mathlib-free.
-/
namespace Amshan.Flt
open Amshan Amshan.Py

/-! ### digit lists -/

/-- all characters are ASCII digits -/
def AllDigits (ds : List Nat) : Prop := ∀ c ∈ ds, Py.isDigit c = true

theorem isDigit_iff (c : Nat) : Py.isDigit c = true ↔ 48 ≤ c ∧ c ≤ 57 := by
  simp [Py.isDigit]

theorem digit_not_space (c : Nat) (h : Py.isDigit c = true) : Py.isStrSpace c = false := by
  rw [isDigit_iff] at h
  simp [Py.isStrSpace]; omega

/-- a digit is not C white space (the set `float()` skips) -/
theorem digit_not_cspace (c : Nat) (h : Py.isDigit c = true) : Py.isBytesSpace c = false := by
  rw [isDigit_iff] at h
  simp [Py.isBytesSpace]; omega

theorem digitsVal_foldl (ds : List Nat) (a : Nat) :
    ds.foldl (fun a c => a * 10 + (c - 48)) a = a * 10 ^ ds.length + digitsVal ds := by
  unfold digitsVal
  induction ds generalizing a with
  | nil => simp
  | cons d ds ih =>
    simp only [List.foldl_cons, List.length_cons]
    rw [ih (a * 10 + (d - 48)), ih (0 * 10 + (d - 48))]
    rw [Nat.pow_succ]
    simp only [Nat.zero_mul, Nat.zero_add, Nat.add_mul, Nat.add_assoc, Nat.mul_assoc, Nat.mul_comm 10]

@[simp] theorem digitsVal_nil : digitsVal [] = 0 := rfl

theorem digitsVal_cons (d : Nat) (ds : List Nat) :
    digitsVal (d :: ds) = (d - 48) * 10 ^ ds.length + digitsVal ds := by
  have := digitsVal_foldl ds (0 * 10 + (d - 48))
  simpa [digitsVal] using this

/-- the value of a digit string is positional: integer part shifted by the fraction length -/
theorem digitsVal_append (xs ys : List Nat) :
    digitsVal (xs ++ ys) = digitsVal xs * 10 ^ ys.length + digitsVal ys := by
  unfold digitsVal
  rw [List.foldl_append]
  exact digitsVal_foldl ys _

theorem digitsVal_snoc (ds : List Nat) (d : Nat) : digitsVal (ds ++ [d]) = digitsVal ds * 10 + (d - 48) := by
  rw [digitsVal_append]; simp [digitsVal]

/-- leading zeros do not change the value -/
theorem digitsVal_zeros (n : Nat) (ds : List Nat) : digitsVal (List.replicate n 48 ++ ds) = digitsVal ds := by
  induction n with
  | zero => simp
  | succ n ih => rw [List.replicate_succ, List.cons_append, digitsVal_cons, ih]; simp

/-- n digits read as an integer are below 10^n -/
theorem digitsVal_lt (ds : List Nat) (h : AllDigits ds) : digitsVal ds < 10 ^ ds.length := by
  induction ds with
  | nil => simp
  | cons d ds ih =>
    have hd := (isDigit_iff d).mp (h d (List.mem_cons_self ..))
    have := ih (fun c hc => h c (List.mem_cons_of_mem _ hc))
    rw [digitsVal_cons, List.length_cons, Nat.pow_succ]
    have h9 : (d - 48) * 10 ^ ds.length ≤ 9 * 10 ^ ds.length := Nat.mul_le_mul_right _ (by omega)
    omega

/-! ### `takeDigitsU` on a run of digits -/

theorem takeDigitsU_digits (ds rest acc : List Nat) (u : Bool) (hds : AllDigits ds)
    (hrest : rest = [] ∨ ∃ c r, rest = c :: r ∧ Py.isDigit c = false ∧ c ≠ 95) :
    takeDigitsU (ds ++ rest) acc u = (acc.reverse ++ ds, rest) := by
  induction ds generalizing acc u with
  | nil =>
    rcases hrest with rfl | ⟨c, r, rfl, hc, h95⟩
    · simp [takeDigitsU]
    · have : (c == 95) = false := by simpa using h95
      simp [takeDigitsU, hc, this]
  | cons d ds ih =>
    have hd : Py.isDigit d = true := hds d (List.mem_cons_self ..)
    have step : takeDigitsU (d :: (ds ++ rest)) acc u = takeDigitsU (ds ++ rest) (d :: acc) false := by
      simp only [takeDigitsU, hd, if_true]
    rw [List.cons_append, step, ih _ _ (fun c hc => hds c (List.mem_cons_of_mem _ hc))]
    simp

/-! ### `strip` on a text without whitespace -/

theorem dropWhile_none (p : Nat → Bool) (s : List Nat) (h : ∀ c ∈ s, p c = false) : s.dropWhile p = s := by
  cases s with
  | nil => rfl
  | cons c cs => simp [List.dropWhile, h c (List.mem_cons_self ..)]

theorem strip_none (s : List Nat) (h : ∀ c ∈ s, Py.isStrSpace c = false) : Py.strip s = s := by
  unfold Py.strip Py.rstripWith
  rw [dropWhile_none _ s h, dropWhile_none _ s.reverse (fun c hc => h c (List.mem_reverse.mp hc)),
    List.reverse_reverse]

/-- `float()` / `int()` skip only C white space: a text without it is left as it is -/
theorem stripC_none (s : List Nat) (h : ∀ c ∈ s, Py.isBytesSpace c = false) : Py.stripC s = s := by
  unfold Py.stripC Py.rstripWith
  rw [dropWhile_none _ s h, dropWhile_none _ s.reverse (fun c hc => h c (List.mem_reverse.mp hc)),
    List.reverse_reverse]

/-- the characters `str.strip()` keeps are also kept by the C white-space skip -/
theorem not_cspace_of_not_space (c : Nat) (h : Py.isStrSpace c = false) : Py.isBytesSpace c = false := by
  cases hb : Py.isBytesSpace c
  · rfl
  · simp [Py.isStrSpace] at h; simp [Py.isBytesSpace] at hb; omega

/-! ### `ofStr` = strip (C white space only), sign, body -/

/-- the part of `ofStr` after whitespace and sign have been removed (verbatim copy of the model text) -/
def ofStrBody (neg : Bool) (s : List Nat) : Except PyExc F :=
  let low := lowerAscii s
  if low == [105, 110, 102] || low == [105, 110, 102, 105, 110, 105, 116, 121] then .ok (.inf neg)
  else if low == [110, 97, 110] then .ok .nan
  else
    let (ip, rest) := takeDigitsU s [] false
    let (fp, rest, hadDot) := match rest with
      | 46 :: r => let (f, r') := takeDigitsU r [] false; (f, r', true)
      | _ => ([], rest, false)
    if ip.isEmpty && fp.isEmpty then .error .valueError
    else if hadDot && false then .error .valueError
    else
      let expPart : Option (Int × List Nat) := match rest with
        | c :: r =>
          if c == 101 || c == 69 then
            let (eneg, r) := match r with
              | 43 :: r' => (false, r')
              | 45 :: r' => (true, r')
              | _ => (false, r)
            let (ed, r') := takeDigitsU r [] false
            if ed.isEmpty then none
            else some ((if eneg then -(digitsVal ed : Int) else (digitsVal ed : Int)), r')
          else some (0, rest)
        | [] => some (0, [])
      match expPart with
      | none => .error .valueError
      | some (ex, rest) =>
        if !rest.isEmpty then .error .valueError
        else
          let mant := digitsVal (ip ++ fp)
          let e10 : Int := ex - (fp.length : Int)
          if mant = 0 then .ok (.fin neg 0 0)
          else if e10 > 400 then .ok (.inf neg)
          else if e10 + ((ip ++ fp).length : Int) < -400 then .ok (.fin neg 0 0)
          else if e10 ≥ 0 then .ok (ofRat neg (mant * 10 ^ e10.toNat) 1)
          else .ok (ofRat neg mant (10 ^ (-e10).toNat))

theorem ofStr_plus (s r : List Nat) (h : Py.stripC s = 43 :: r) : ofStr s = ofStrBody false r := by
  unfold ofStr; rw [h]; rfl

theorem ofStr_minus (s r : List Nat) (h : Py.stripC s = 45 :: r) : ofStr s = ofStrBody true r := by
  unfold ofStr; rw [h]; rfl

theorem ofStr_nosign (s : List Nat) (c : Nat) (r : List Nat) (h : Py.stripC s = c :: r) (h1 : c ≠ 43) (h2 : c ≠ 45) :
    ofStr s = ofStrBody false (c :: r) := by
  unfold ofStr; rw [h]; dsimp only
  split
  · rename_i heq; injection heq with h' _; exact absurd h' h1
  · rename_i heq; injection heq with h' _; exact absurd h' h2
  · rfl


theorem low_not_word (c : Nat) (r : List Nat) (hc : c ≤ 57) (x : Nat) (w : List Nat) (hx : 97 ≤ x) :
    (lowerAscii (c :: r) == x :: w) = false := by
  have h1 : Py.toLowerAscii c = c := by
    have : Py.isUpper c = false := by simp [Py.isUpper]; omega
    simp [Py.toLowerAscii, this]
  have h2 : (c == x) = false := by simp; omega
  simp [lowerAscii, h1, h2]

theorem takeDigitsU_all (ds : List Nat) (h : AllDigits ds) : takeDigitsU ds [] false = (ds, []) := by
  have := takeDigitsU_digits ds [] [] false h (Or.inl rfl)
  simpa using this

theorem ofStr_tail (neg : Bool) (mant k n : Nat) (hk : k ≤ n) :
    (if mant = 0 then Except.ok (F.fin neg 0 0)
     else if (0 : Int) - (k : Int) > 400 then Except.ok (F.inf neg)
     else if (0 : Int) - (k : Int) + (n : Int) < -400 then Except.ok (F.fin neg 0 0)
     else if (0 : Int) - (k : Int) ≥ 0 then Except.ok (ofRat neg (mant * 10 ^ ((0 : Int) - (k : Int)).toNat) 1)
     else Except.ok (ofRat neg mant (10 ^ (-((0 : Int) - (k : Int))).toNat)) : Except PyExc F) =
    Except.ok (ofRat neg mant (10 ^ k)) := by
  by_cases hm : mant = 0
  · subst hm; simp [ofRat]
  · rw [if_neg hm, if_neg (by omega), if_neg (by omega)]
    by_cases h0 : k = 0
    · subst h0; simp
    · rw [if_neg (by omega)]
      have : (-((0 : Int) - (k : Int))).toNat = k := by omega
      rw [this]

theorem ofStrBody_decimal (neg : Bool) (ip fp : List Nat) (hip : AllDigits ip) (hfp : AllDigits fp)
    (hne : ip ≠ [] ∨ fp ≠ []) :
    ofStrBody neg (ip ++ 46 :: fp) = .ok (ofRat neg (digitsVal (ip ++ fp)) (10 ^ fp.length)) := by
  obtain ⟨c, r, hs, hc⟩ : ∃ c r, ip ++ 46 :: fp = c :: r ∧ c ≤ 57 := by
    cases ip with
    | nil => exact ⟨46, fp, rfl, by omega⟩
    | cons d ds => exact ⟨d, ds ++ 46 :: fp, rfl, ((isDigit_iff d).mp (hip d (List.mem_cons_self ..))).2⟩
  have hl1 := low_not_word c r hc 105 [110, 102] (by omega)
  have hl2 := low_not_word c r hc 105 [110, 102, 105, 110, 105, 116, 121] (by omega)
  have hl3 := low_not_word c r hc 110 [97, 110] (by omega)
  have ht1 : takeDigitsU (ip ++ 46 :: fp) [] false = (ip, 46 :: fp) := by
    have := takeDigitsU_digits ip (46 :: fp) [] false hip (Or.inr ⟨46, fp, rfl, by decide, by omega⟩)
    simpa using this
  have ht2 := takeDigitsU_all fp hfp
  unfold ofStrBody
  rw [← hs] at hl1 hl2 hl3
  simp only [hl1, hl2, hl3, ht1, ht2]
  have he : (ip.isEmpty && fp.isEmpty) = false := by
    rcases hne with h | h
    · cases ip with
      | nil => exact absurd rfl h
      | cons _ _ => rfl
    · cases fp with
      | nil => exact absurd rfl h
      | cons _ _ => simp
  simp only [he, Bool.or_self, Bool.and_false, Bool.false_eq_true, if_false, List.isEmpty_nil, Bool.not_true]
  exact ofStr_tail neg _ fp.length (ip ++ fp).length (by rw [List.length_append]; omega)

theorem ofStrBody_decimal_nodot (neg : Bool) (ip : List Nat) (hip : AllDigits ip) (hne : ip ≠ []) :
    ofStrBody neg ip = .ok (ofRat neg (digitsVal ip) 1) := by
  obtain ⟨c, r, hs, hc⟩ : ∃ c r, ip = c :: r ∧ c ≤ 57 := by
    cases ip with
    | nil => exact absurd rfl hne
    | cons d ds => exact ⟨d, ds, rfl, ((isDigit_iff d).mp (hip d (List.mem_cons_self ..))).2⟩
  have hl1 := low_not_word c r hc 105 [110, 102] (by omega)
  have hl2 := low_not_word c r hc 105 [110, 102, 105, 110, 105, 116, 121] (by omega)
  have hl3 := low_not_word c r hc 110 [97, 110] (by omega)
  have ht1 := takeDigitsU_all ip hip
  have he : ip.isEmpty = false := by rw [hs]; rfl
  unfold ofStrBody
  rw [← hs] at hl1 hl2 hl3
  simp only [hl1, hl2, hl3, ht1, he, Bool.or_self, Bool.and_false, Bool.false_and, Bool.false_eq_true, if_false,
    List.isEmpty_nil, Bool.not_true, List.append_nil, List.length_nil]
  have := ofStr_tail neg (digitsVal ip) 0 ip.length (by omega)
  simpa using this


/-! ### the sign, and the two theorems -/

/-- the optional sign of a numeric text: none, '+' or '-' -/
def signChars : Option Bool → List Nat
  | none => []
  | some false => [43]
  | some true => [45]

theorem ofStr_signed (sign : Option Bool) (t : List Nat) (c : Nat) (r : List Nat) (ht : t = c :: r)
    (hc : c ≠ 43 ∧ c ≠ 45) (hsp : ∀ x ∈ t, Py.isBytesSpace x = false) :
    ofStr (signChars sign ++ t) = ofStrBody (sign == some true) t := by
  have hst : Py.stripC (signChars sign ++ t) = signChars sign ++ t := by
    apply stripC_none
    intro x hx
    rcases List.mem_append.mp hx with h | h
    · rcases sign with _ | _ | _ <;> simp [signChars] at h <;> subst h <;> decide
    · exact hsp x h
  rcases sign with _ | _ | _
  · rw [ofStr_nosign _ c r (by rw [hst, ht]; rfl) hc.1 hc.2, ← ht]; rfl
  · exact ofStr_plus _ t (by rw [hst]; rfl)
  · exact ofStr_minus _ t (by rw [hst]; rfl)

theorem dot_not_space : Py.isStrSpace 46 = false := by decide
theorem dot_not_cspace : Py.isBytesSpace 46 = false := by decide

/-- **`float(text)` of a decimal with a point.** For digits `ip` and `fp` (not both empty; any number of
    digits) and an optional sign, `float(sign ip "." fp)` is the double
    nearest to `(ip fp read as one integer) / 10^(number of fraction digits)`. Leading zeros are allowed. -/
theorem ofStr_decimal (sign : Option Bool) (ip fp : List Nat) (hip : AllDigits ip) (hfp : AllDigits fp)
    (hne : ip ≠ [] ∨ fp ≠ []) :
    ofStr (signChars sign ++ (ip ++ 46 :: fp)) =
      .ok (ofRat (sign == some true) (digitsVal (ip ++ fp)) (10 ^ fp.length)) := by
  obtain ⟨c, r, hs, hc⟩ : ∃ c r, ip ++ 46 :: fp = c :: r ∧ (c ≠ 43 ∧ c ≠ 45) := by
    cases ip with
    | nil => exact ⟨46, fp, rfl, by omega⟩
    | cons d ds =>
      have := (isDigit_iff d).mp (hip d (List.mem_cons_self ..))
      exact ⟨d, ds ++ 46 :: fp, rfl, by omega⟩
  rw [ofStr_signed sign _ c r hs hc, ofStrBody_decimal _ ip fp hip hfp hne]
  intro x hx
  rcases List.mem_append.mp hx with h | h
  · exact digit_not_cspace x (hip x h)
  · rcases List.mem_cons.mp h with h | h
    · subst h; exact dot_not_cspace
    · exact digit_not_cspace x (hfp x h)

/-- **`float(text)` of a decimal without a point** (an integer text, leading zeros allowed). -/
theorem ofStr_decimal_nodot (sign : Option Bool) (ip : List Nat) (hip : AllDigits ip) (hne : ip ≠ []) :
    ofStr (signChars sign ++ ip) = .ok (ofRat (sign == some true) (digitsVal ip) 1) := by
  obtain ⟨c, r, hs, hc⟩ : ∃ c r, ip = c :: r ∧ (c ≠ 43 ∧ c ≠ 45) := by
    cases ip with
    | nil => exact absurd rfl hne
    | cons d ds =>
      have := (isDigit_iff d).mp (hip d (List.mem_cons_self ..))
      exact ⟨d, ds, rfl, by omega⟩
  rw [ofStr_signed sign _ c r hs hc, ofStrBody_decimal_nodot _ ip hip hne]
  intro x hx
  exact digit_not_cspace x (hip x hx)

/-- both unsigned forms at once: `text` is `ip "." fp`, or just `ip` (then `fp` is empty) -/
theorem ofStr_decimal_text (text ip fp : List Nat) (hip : AllDigits ip) (hfp : AllDigits fp)
    (ht : text = ip ++ 46 :: fp ∨ (text = ip ∧ fp = [])) (hne : ip ≠ [] ∨ fp ≠ []) :
    ofStr text = .ok (ofRat false (digitsVal (ip ++ fp)) (10 ^ fp.length)) := by
  rcases ht with rfl | ⟨rfl, rfl⟩
  · exact ofStr_decimal none ip fp hip hfp hne
  · have h := ofStr_decimal_nodot none text hip (by simpa using hne)
    simpa [signChars] using h

/-- `float()` on ASCII text skips C white space only: the separators 0x1C..0x1F, which `str.strip()`
    removes, make it fail (CPython: `float('\x1f281.882')`, `float('1.5\x1c')` raise ValueError) -/
example : ofStr [0x1f, 50, 56, 49, 46, 56, 56, 50] = .error .valueError ∧
    ofStr [49, 46, 53, 0x1c] = .error .valueError ∧
    ofStr [0x0b, 32, 49, 46, 53, 0x0c, 10] = ofStr [49, 46, 53] ∧
    (∃ x, ofStr [49, 46, 53] = .ok x) := by
  refine ⟨by decide, by decide, by decide, ⟨_, ofStr_decimal none [49] [53] (by simp [AllDigits, Py.isDigit]) (by simp [AllDigits, Py.isDigit]) (by simp)⟩⟩

end Amshan.Flt
