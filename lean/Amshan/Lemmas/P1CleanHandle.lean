import Amshan.Lemmas.P1CleanWire
/-
  `handleLine` and `Readout.make` on the lines of a well-formed readout, and on arbitrary lines
  from a state satisfying the basic reader invariant `BI`.
-/
namespace Amshan.P1
open Amshan.Gen Amshan.P1Spec

/-! ### find -/

theorem takeWhile_ne_append (c : Nat) (A B : List Nat) (h : c ∉ A) :
    (A ++ c :: B).takeWhile (· != c) = A := by
  induction A with
  | nil => simp
  | cons a t ih =>
    have ha : (a != c) = true := by
      simp only [bne_iff_ne, ne_eq]; intro e; exact h (by simp [e])
    have ht : c ∉ t := fun m => h (List.mem_cons_of_mem _ m)
    simp only [List.cons_append, List.takeWhile, ha, ih ht]

theorem find_split (c : Nat) (A B : List Nat) (h : c ∉ A) :
    Py.find (A ++ c :: B) c = some A.length := by
  simp only [Py.find, takeWhile_ne_append c A B h, List.length_append, List.length_cons]
  rw [if_pos (by omega)]

theorem mem_split_first (c : Nat) (l : List Nat) (h : c ∈ l) :
    ∃ A B, l = A ++ c :: B ∧ c ∉ A := by
  induction l with
  | nil => cases h
  | cons a t ih =>
    by_cases ha : a = c
    · exact ⟨[], t, by simp [ha], by simp⟩
    · have : c ∈ t := by
        rcases List.mem_cons.mp h with e | m
        · exact absurd e.symm ha
        · exact m
      obtain ⟨A, B, h1, h2⟩ := ih this
      refine ⟨a :: A, B, by simp [h1], ?_⟩
      simp only [List.mem_cons, not_or]
      exact ⟨fun e => ha e.symm, h2⟩

/-! ### Readout.make -/

theorem make_start (t : List Nat) (A B : List Nat) (h : 47 :: t = A ++ 33 :: B) (hA : 33 ∉ A) :
    Readout.make (47 :: t) = .ok (Readout.mk (47 :: t) A.length
      (match Py.find (47 :: t) 10 with | some i => i + 1 | none => 0)) := by
  have hf : Py.find (47 :: t) 33 = some A.length := by rw [h]; exact find_split 33 A B hA
  simp only [Readout.make, Py.lstripBytes, List.dropWhile, Py.isBytesSpace, p1Start, p1End, p1Lf]
  simp [hf]
  cases Py.find (47 :: t) 10 <;> rfl

theorem make_ok (t : List Nat) (h : 33 ∈ t) : ∃ ro, Readout.make (47 :: t) = .ok ro := by
  obtain ⟨A, B, h1, h2⟩ := mem_split_first 33 (47 :: t) (List.mem_cons_of_mem _ h)
  exact ⟨_, make_start t A B h1 h2⟩

/-! ### basic invariant of the reader -/

/-- in hunt mode nothing is collected; otherwise the collected lines start with '/' -/
def BI (raw : List Nat) (hunt : Bool) : Prop :=
  (hunt = true → raw = []) ∧ (hunt = false → ∃ t, raw = 47 :: t)

theorem BI_init : BI [] true := ⟨fun _ => rfl, fun h => (by cases h)⟩
theorem BI_false (t : List Nat) : BI (47 :: t) false := ⟨fun h => (by cases h), fun _ => ⟨t, rfl⟩⟩

theorem decodeAscii_of_isAscii (l : List Nat) (h : Py.isAscii l = true) :
    Py.decodeAscii l = .ok l := by
  simp only [Py.isAscii] at h
  simp only [Py.decodeAscii, h, if_true]

theorem handleLine_skip (raw : List Nat) (c : Nat) (t : List Nat) (h : c ≠ 47) :
    handleLine raw true (c :: t) = .ok (raw, true, none) := by
  simp [handleLine, p1Start, h]
  rfl

theorem handleLine_data (raw : List Nat) (c : Nat) (t : List Nat) (h : c ≠ 33) :
    handleLine raw false (c :: t) = .ok (raw ++ c :: t, false, none) := by
  simp [handleLine, p1End, h]
  rfl

theorem handleLine_end (raw : List Nat) (t : List Nat) (ro : Readout)
    (h : Readout.make (raw ++ 33 :: t) = .ok ro) :
    handleLine raw false (33 :: t) = .ok ([], true, some ro) := by
  simp [handleLine, p1End, h]
  rfl

theorem handleLine_start (raw : List Nat) (t : List Nat) (hA : Py.isAscii (47 :: t) = true) :
    handleLine raw true (47 :: t) =
      .ok (if isIdentLine (47 :: t) then (raw ++ 47 :: t, false, none) else (raw, true, none)) := by
  simp only [handleLine, p1Start, beq_self_eq_true, hA, Bool.and_self, if_true,
    decodeAscii_of_isAscii _ hA, bind, Except.bind]
  split <;> rfl

/-- from a state satisfying `BI` no line makes `handleLine` raise, and `BI` is preserved -/
theorem handleLine_BI (raw : List Nat) (hunt : Bool) (c : Nat) (t : List Nat) (h : BI raw hunt) :
    ∃ raw1 hunt1 ro, handleLine raw hunt (c :: t) = .ok (raw1, hunt1, ro) ∧ BI raw1 hunt1 := by
  cases hunt with
  | true =>
    have hr : raw = [] := h.1 rfl
    subst hr
    by_cases hc : c = 47
    · subst hc
      by_cases hA : Py.isAscii (47 :: t) = true
      · rw [handleLine_start _ _ hA]
        by_cases hi : isIdentLine (47 :: t) = true
        · refine ⟨[] ++ 47 :: t, false, none, by rw [if_pos hi], BI_false t⟩
        · refine ⟨[], true, none, by rw [if_neg hi], BI_init⟩
      · refine ⟨[], true, none, ?_, BI_init⟩
        simp [handleLine, hA]
        rfl
    · exact ⟨[], true, none, handleLine_skip _ _ _ hc, BI_init⟩
  | false =>
    obtain ⟨r, hr⟩ := h.2 rfl
    subst hr
    by_cases hc : c = 33
    · subst hc
      obtain ⟨ro, hro⟩ := make_ok (r ++ 33 :: t) (by simp)
      exact ⟨[], true, some ro, handleLine_end _ _ _ hro, BI_init⟩
    · exact ⟨(47 :: r) ++ c :: t, false, none, handleLine_data _ _ _ hc, BI_false _⟩

end Amshan.P1
