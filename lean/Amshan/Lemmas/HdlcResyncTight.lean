import Amshan.Lemmas.HdlcClean
/-
  Resynchronisation of the HDLC reader (C16), sharpened:
  * from ANY reader core satisfying the invariant (not only after `run … Core.init pre`);
  * without stuffing, the frames lost before delivery resumes occupy at most `maxFrameLen + L`
    octets (not `+ 2·L`);
  * without stuffing and WITH abort detection, no hypothesis on the last octet of the frames: a
    flag-free frame whose last octet is the escape octet is read, by the documented rule
    "escape octet directly followed by a flag = abort sequence", as aborted; it is lost and the reader
    hunts, so that the frame after it is lost as well unless two or more flags separate them.
    `survivors` says exactly which frames of a clean stream come out.
-/
namespace Amshan.HdlcClean
open Amshan.Gen Amshan.Hdlc Amshan.HdlcSpec

/-! ### which frames of a clean stream survive the abort-sequence rule -/

/-- the reader takes the end of `d` for an abort sequence: abort detection is on and the last octet
    of the frame (the high octet of its FCS) is the escape octet 0x7D -/
def abortsAtEnd (cfg : Cfg) (d : FrameDesc) : Prop := cfg.abort = true ∧ d.encode.getLast? = some esc

instance (cfg : Cfg) (d : FrameDesc) : Decidable (abortsAtEnd cfg d) := by
  unfold abortsAtEnd; infer_instance

/-- Frames (with their fill `n` = number of flags in front) delivered from a clean flag-free stream
    read without octet stuffing, from the point where the reader is synchronised.
    `hunting = true`: the flag just read put the reader in hunt mode.
    * hunting and only that one flag in front of the frame: the frame is skipped;
    * otherwise a frame that ends like an abort sequence is dropped and the reader hunts;
    * otherwise the frame is delivered.
    Without abort detection, or when no frame ends in 0x7D, this is all frames (`survivors_all`). -/
def survivors (cfg : Cfg) : Bool → List (FrameDesc × Nat) → List FrameDesc
  | _, [] => []
  | hunting, (d, n) :: fs =>
    if hunting = true ∧ n ≤ 1 then survivors cfg false fs
    else if abortsAtEnd cfg d then survivors cfg true fs
    else d :: survivors cfg false fs

theorem survivors_all (cfg : Cfg) (fs : List (FrameDesc × Nat))
    (h : ∀ p ∈ fs, ¬ abortsAtEnd cfg p.1) : survivors cfg false fs = fs.map (·.1) := by
  induction fs with
  | nil => rfl
  | cons a fs ih =>
    obtain ⟨d, n⟩ := a
    have hd : ¬ abortsAtEnd cfg d := h (d, n) (by simp)
    simp only [survivors, Bool.false_eq_true, false_and, if_false, hd, List.map_cons]
    rw [ih (fun p hp => h p (by simp [hp]))]

/-- from hunt mode at most the first frame is lost in addition -/
theorem survivors_hunting (cfg : Cfg) (fs : List (FrameDesc × Nat)) :
    ∃ j, j ≤ 1 ∧ survivors cfg true fs = survivors cfg false (fs.drop j) := by
  cases fs with
  | nil => exact ⟨0, by omega, rfl⟩
  | cons a fs =>
    obtain ⟨d, n⟩ := a
    by_cases hn : n ≤ 1
    · exact ⟨1, by omega, by simp [survivors, hn]⟩
    · exact ⟨0, by omega, by simp [survivors, hn]⟩

/-- a frame that does not end like an abort sequence is delivered when the reader is synchronised -/
theorem survivors_cons_ok (cfg : Cfg) (d : FrameDesc) (n : Nat) (fs : List (FrameDesc × Nat))
    (h : ¬ abortsAtEnd cfg d) : survivors cfg false ((d, n) :: fs) = d :: survivors cfg false fs := by
  simp [survivors, h]

/-- … and so is the frame after it: a frame is lost only if it ends like an abort sequence or
    directly follows (one flag) a frame that does -/
theorem survivors_cons_cons_ok (cfg : Cfg) (b : Bool) (d0 d : FrameDesc) (n0 n : Nat)
    (fs : List (FrameDesc × Nat)) (h0 : ¬ abortsAtEnd cfg d0) (h : ¬ abortsAtEnd cfg d) :
    ∃ l, survivors cfg b ((d0, n0) :: (d, n) :: fs) = l ++ d :: survivors cfg false fs := by
  by_cases hb : b = true ∧ n0 ≤ 1
  · exact ⟨[], by simp [survivors, hb, h]⟩
  · exact ⟨[d0], by simp [survivors, hb, h0, h]⟩

/-- one step of `survivors`: the head is kept or not, the rest is `survivors` of the tail -/
theorem survivors_cons_cases (cfg : Cfg) (b : Bool) (a : FrameDesc × Nat) (fs : List (FrameDesc × Nat)) :
    ∃ b', survivors cfg b (a :: fs) = survivors cfg b' fs ∨
      survivors cfg b (a :: fs) = a.1 :: survivors cfg b' fs := by
  obtain ⟨d, n⟩ := a
  by_cases h1 : b = true ∧ n ≤ 1
  · exact ⟨false, Or.inl (by simp [survivors, h1])⟩
  · by_cases h2 : abortsAtEnd cfg d
    · exact ⟨true, Or.inl (by simp [survivors, h1, h2])⟩
    · exact ⟨false, Or.inr (by simp [survivors, h1, h2])⟩

/-- a frame that does not end like an abort sequence, and whose predecessor in the stream does not
    either, is among the survivors -/
theorem survivors_mem (cfg : Cfg) (b : Bool) (fs : List (FrameDesc × Nat)) (i : Nat)
    (hi : i + 1 < fs.length) (h0 : ¬ abortsAtEnd cfg fs[i].1) (h1 : ¬ abortsAtEnd cfg fs[i + 1].1) :
    fs[i + 1].1 ∈ survivors cfg b fs := by
  induction fs generalizing b i with
  | nil => simp at hi
  | cons a fs ih =>
    cases i with
    | zero =>
      match fs, hi, h0, h1 with
      | a' :: fs', _, h0, h1 =>
        obtain ⟨l, e⟩ := survivors_cons_cons_ok cfg b a.1 a'.1 a.2 a'.2 fs' h0 h1
        show a'.1 ∈ survivors cfg b ((a.1, a.2) :: (a'.1, a'.2) :: fs')
        rw [e]
        simp
    | succ j =>
      have hj : j + 1 < fs.length := by simpa using hi
      have key : ∀ b', fs[j + 1].1 ∈ survivors cfg b' fs := fun b' => ih b' j hj h0 h1
      obtain ⟨b', e | e⟩ := survivors_cons_cases cfg b a fs
      · rw [e]; exact key b'
      · rw [e]; exact List.mem_cons_of_mem _ (key b')

/-! ### one block read from the start of a frame -/

/-- flag-free well-formed frames -/
def Plain (d : FrameDesc) : Prop := d.WF ∧ flag ∉ d.encode

theorem Plain.ok {cfg : Cfg} {d : FrameDesc} (h : Plain d) (ha : ¬ abortsAtEnd cfg d) : PlainOK cfg d :=
  ⟨h.1, h.2, fun hab he => ha ⟨hab, he⟩⟩

/-- with abort detection, a flag-free frame ending in the escape octet followed by a flag is dropped
    and the reader hunts (stuffing off) -/
theorem frame_aborted (cfg : Cfg) (hst : cfg.stuffing = false) (d : FrameDesc) (h : Plain d)
    (ha : abortsAtEnd cfg d) (u : Bool) (raw : List Nat) :
    (run cfg (st u raw []) (d.encode ++ [flagOctet])).1.frame = none ∧
    (run cfg (st u raw []) (d.encode ++ [flagOctet])).2 = [] := by
  have hlen := encode_length d
  have htl := totalLen_ge d
  have hhl := headLen_ge d
  have hmax : d.totalLen ≤ 2047 := h.1.2.2.2.2.2.2.2
  have hne : d.encode ≠ [] := by
    intro e; rw [e] at hlen; simp at hlen; omega
  have hbody : run cfg (st u raw []) d.encode = (st u (raw ++ d.encode) ([] ++ d.encode), []) := by
    apply run_plain cfg hst u d.encode raw []
    · intro q1 q2 e
      exfalso; apply h.2; rw [e, flag_eq]; simp
    · simp [hlen]; exact hmax
  have hp0 : (mk d.encode).len ≠ 0 := by rw [mk_len, hlen]; omega
  have hh : ¬ ((mk d.encode).hcs.isNone = true) := by
    have := hcs_prefix d h.1 d.encode [] (by simp) (by omega)
    cases hx : (mk d.encode).hcs with
    | none => rw [hx] at this; cases this
    | some _ => simp
  have hab : (cfg.abort && decide ((st u (raw ++ d.encode) d.encode).raw.length > 1) &&
      ((st u (raw ++ d.encode) d.encode).raw.getLast? == some escOctet)) = true := by
    show (cfg.abort && decide ((raw ++ d.encode).length > 1) &&
      ((raw ++ d.encode).getLast? == some escOctet)) = true
    rw [getLast?_append_ne_nil _ _ hne, ha.1, ← esc_eq, ha.2]
    simp only [List.length_append, hlen, Bool.true_and, beq_self_eq_true, Bool.and_true,
      decide_eq_true_eq]
    omega
  have hstep : stepOctet cfg (st u (raw ++ d.encode) d.encode) flagOctet =
      (gotoHunt (st u (raw ++ d.encode) d.encode), []) := by
    have hf : handleFlag cfg (st u (raw ++ d.encode) d.encode) =
        (gotoHunt (st u (raw ++ d.encode) d.encode), .hunt) := by
      have hc : (st u (raw ++ d.encode) d.encode).frame = some (mk d.encode) := rfl
      unfold handleFlag
      simp only [hc]
      rw [if_neg hp0, if_neg hh, if_pos hab]
    simp only [stepOctet, readNext, if_true, hf]
  rw [run_append, hbody]
  simp only [List.nil_append, run_cons, run_nil, List.append_nil]
  rw [hstep]
  exact ⟨rfl, rfl⟩

theorem block_aborted_from_empty (cfg : Cfg) (hst : cfg.stuffing = false) (d : FrameDesc) (h : Plain d)
    (ha : abortsAtEnd cfg d) (m : Nat) (u : Bool) (raw : List Nat) :
    (run cfg (st u raw []) (block m d)).1.frame = none ∧ (run cfg (st u raw []) (block m d)).2 = [] := by
  cases m with
  | zero =>
    simp only [block, List.replicate_zero, List.nil_append]
    exact frame_aborted cfg hst d h ha u raw
  | succ m =>
    rw [block_succ, run_cons, step_empty_flag, block, run_append, run_fresh_flags]
    simp only [List.nil_append]
    exact frame_aborted cfg hst d h ha false []

/-- a block read from hunt mode: without a fill flag left the frame is skipped -/
theorem block_from_hunt_skip (cfg : Cfg) (d : FrameDesc) (h : Plain d) (c : Core) (hc : c.frame = none) :
    run cfg c (block 0 d) = (fresh, []) := by
  simp only [block, List.replicate_zero, List.nil_append]
  rw [run_append, run_hunt_noflag cfg c _ hc (by rw [← flag_eq]; exact h.2), run_cons,
    step_hunt_flag cfg c hc]
  rfl

/-! ### the clean stream from a synchronised reader -/

/-- the reader is synchronised: at the start of a frame (`hunting = false`) or hunting -/
def Synced (c : Core) (hunting : Bool) : Prop :=
  (hunting = false ∧ c = fresh) ∨ (hunting = true ∧ c.frame = none)

theorem run_shifted_synced (cfg : Cfg) (hst : cfg.stuffing = false) (fs : List (FrameDesc × Nat))
    (k : Nat) (hfs : ∀ q ∈ fs, Plain q.1) (c : Core) (b : Bool) (hc : Synced c b) :
    (run cfg c (shifted false fs k)).2 = (survivors cfg b fs).map expectedFrame := by
  induction fs generalizing c b with
  | nil =>
    rw [shifted_nil]
    rcases hc with ⟨_, hc⟩ | ⟨_, hc⟩
    · rw [run_good_flags_out cfg c (Or.inl hc)]; rfl
    · rw [run_good_flags_out cfg c (Or.inr hc)]; rfl
  | cons a fs ih =>
    obtain ⟨d, n⟩ := a
    have hd : Plain d := hfs (d, n) (by simp)
    have hrest : ∀ q ∈ fs, Plain q.1 := fun q hq => hfs q (by simp [hq])
    rw [shifted_cons_block, run_append]
    -- from the start of a frame
    have fromFresh : ∀ m, (run cfg (run cfg fresh (block m d)).1 (shifted false fs k)).2 =
          (if abortsAtEnd cfg d then survivors cfg true fs else survivors cfg false fs).map expectedFrame ∧
        (run cfg fresh (block m d)).2 = if abortsAtEnd cfg d then [] else [expectedFrame d] := by
      intro m
      by_cases ha : abortsAtEnd cfg d
      · obtain ⟨h1, h2⟩ := block_aborted_from_empty cfg hst d hd ha m false []
        rw [if_pos ha, if_pos ha]
        exact ⟨ih hrest _ true (Or.inr ⟨rfl, h1⟩), h2⟩
      · rw [if_neg ha, if_neg ha, block_from_fresh cfg hst d (hd.ok ha) m]
        exact ⟨ih hrest _ false (Or.inl ⟨rfl, rfl⟩), rfl⟩
    rcases hc with ⟨hb, hc⟩ | ⟨hb, hc⟩
    · subst hb hc
      obtain ⟨h1, h2⟩ := fromFresh (n - 1)
      rw [h1, h2]
      by_cases ha : abortsAtEnd cfg d <;> simp [survivors, ha]
    · subst hb
      by_cases hn : n - 1 = 0
      · have hn' : n ≤ 1 := by omega
        rw [hn, block_from_hunt_skip cfg d hd c hc]
        simp only [List.nil_append]
        rw [ih hrest fresh false (Or.inl ⟨rfl, rfl⟩)]
        simp [survivors, hn']
      · obtain ⟨m, hm⟩ : ∃ m, n - 1 = m + 1 := ⟨n - 1 - 1, by omega⟩
        have hn' : ¬ n ≤ 1 := by omega
        have e : run cfg c (block (n - 1) d) = run cfg fresh (block m d) := by
          rw [hm, block_succ, run_cons, step_hunt_flag cfg c hc]
          rfl
        obtain ⟨h1, h2⟩ := fromFresh m
        rw [e, h1, h2]
        by_cases ha : abortsAtEnd cfg d <;> simp [survivors, ha, hn']

/-- a clean stream of flag-free frames read without stuffing from hunt mode (e.g. a new reader):
    exactly the `survivors` are delivered -/
theorem clean_plain_run_survivors (cfg : Cfg) (hst : cfg.stuffing = false) (c : Core)
    (hc : c.frame = none) (noise : List Nat) (fs : List (FrameDesc × Nat)) (closing : Nat)
    (hnoise : flag ∉ noise) (hfs : ∀ p ∈ fs, p.1.WF ∧ 1 ≤ p.2 ∧ flag ∉ p.1.encode) (hcl : 1 ≤ closing) :
    (run cfg c (wire false noise fs closing)).2 = (survivors cfg false fs).map expectedFrame := by
  rw [wire_eq_shifted _ _ _ _ (fun p hp => (hfs p hp).2.1) hcl, run_append,
    run_hunt_noflag cfg c noise hc (by rw [← flag_eq]; exact hnoise), run_cons,
    step_hunt_flag cfg c hc,
    run_shifted_synced cfg hst fs _ (fun p hp => ⟨(hfs p hp).1, (hfs p hp).2.2⟩) fresh false
      (Or.inl ⟨rfl, rfl⟩)]
  rfl

/-! ### a garbage frame in progress meets one block, with the length bookkeeping kept -/

/-- A garbage frame `p` in progress meets a block.  Either the garbage ends inside the block at a
    fill flag and the frame of the block is read from its start (`junk` is then the garbage frame,
    if returned); or the reader ends the block at the start of a frame; or it ends the block hunting,
    which only the closing flag of the block can cause, so that the whole block but that flag was
    absorbed; or the whole block is absorbed. -/
theorem block_cases_tight (cfg : Cfg) (hst : cfg.stuffing = false) (d : FrameDesc) (h : Plain d)
    (m : Nat) (u : Bool) (raw p : List Nat) (hp : p ≠ []) (hl : p.length ≤ 2047) :
    (∃ junk m', (run cfg (st u raw p) (block m d)).1 = (run cfg fresh (block m' d)).1 ∧
      (run cfg (st u raw p) (block m d)).2 = junk ++ (run cfg fresh (block m' d)).2) ∨
    (run cfg (st u raw p) (block m d)).1 = fresh ∨
    ((run cfg (st u raw p) (block m d)).1.frame = none ∧ p.length + (block m d).length ≤ 2048) ∨
    (run cfg (st u raw p) (block m d) = (st u (raw ++ block m d) (p ++ block m d), []) ∧
      p.length + (block m d).length ≤ 2047) := by
  induction m generalizing raw p with
  | zero =>
    have hnf : flagOctet ∉ d.encode := by rw [← flag_eq]; exact h.2
    simp only [block, List.replicate_zero, List.nil_append]
    rw [run_append]
    rcases run_plain_noflag cfg hst u d.encode raw p hnf hl with ⟨h1, h2⟩ | ⟨h1, h2⟩
    · rw [h2]
      simp only [List.nil_append, run_cons, run_nil, List.append_nil]
      have hne : p ++ d.encode ≠ [] := by simp [hp]
      rcases step_flag_cases cfg u (raw ++ d.encode) (p ++ d.encode) hne with h3 | h3 | h3
      · right; left; rw [h3]
      · right; right; left
        refine ⟨h3.1, ?_⟩
        simp only [List.length_append, List.length_cons, List.length_nil]
        omega
      · right; right; right
        rw [h3.2.2]
        simp only [List.append_assoc, List.length_append, List.length_cons, List.length_nil, true_and]
        have := h3.2.1
        simp only [List.length_append] at this
        omega
    · right; left
      simp only [run_cons, run_nil]
      rw [step_hunt_flag cfg _ h1]
  | succ m ih =>
    rw [block_succ, run_cons]
    rcases step_flag_cases cfg u raw p hp with h3 | h3 | h3
    · left
      rw [h3]
      exact ⟨[mk p], m, rfl, rfl⟩
    · rw [h3.2]
      simp only [List.nil_append]
      cases m with
      | zero =>
        right; left
        rw [block_from_hunt_skip cfg d h _ h3.1]
      | succ m =>
        left
        refine ⟨[], m, ?_, ?_⟩
        · rw [block_succ, run_cons, step_hunt_flag cfg _ h3.1]
        · rw [block_succ, run_cons, step_hunt_flag cfg _ h3.1]
    · rw [h3.2.2]
      have hne : p ++ [flagOctet] ≠ [] := by simp
      have hl' : (p ++ [flagOctet]).length ≤ 2047 := by simp; omega
      rcases ih (raw ++ [flagOctet]) (p ++ [flagOctet]) hne hl' with
        ⟨junk, m', h4, h5⟩ | h4 | ⟨h4, h5⟩ | ⟨h4, h5⟩
      · left; exact ⟨junk, m', h4, by rw [h5]; rfl⟩
      · right; left; exact h4
      · right; right; left
        refine ⟨h4, ?_⟩
        simp only [List.length_append, List.length_cons, List.length_nil] at h5 ⊢
        omega
      · right; right; right
        rw [h4]
        simp only [List.append_assoc, List.cons_append, List.nil_append, List.length_cons,
          List.length_append, List.length_nil] at h5 ⊢
        exact ⟨trivial, by omega⟩

/-! ### the whole shifted stream from a garbage frame in progress -/

theorem sum_take_le' (fs : List (FrameDesc × Nat)) (L : Nat) (hL : ∀ p ∈ fs, wl p ≤ L) (j : Nat)
    (hj : j ≤ 1) : ((fs.take j).map wl).sum ≤ L := by
  have h1 := sum_take_le fs L hL j
  have h2 : j * L ≤ 1 * L := Nat.mul_le_mul_right L hj
  omega

theorem run_shifted_garbage_tight (cfg : Cfg) (hst : cfg.stuffing = false) (L k : Nat)
    (fs : List (FrameDesc × Nat))
    (hfs : ∀ q ∈ fs, Plain q.1 ∧ 1 ≤ q.2 ∧ wl q ≤ L)
    (u : Bool) (raw p : List Nat) (hp : p ≠ []) (hl : p.length ≤ 2047) :
    ∃ junk j, (run cfg (st u raw p) (shifted false fs k)).2 =
        junk ++ (survivors cfg false (fs.drop j)).map expectedFrame ∧
      ((fs.take j).map wl).sum + p.length ≤ 2048 + L := by
  induction fs generalizing raw p with
  | nil => exact ⟨(run cfg (st u raw p) (shifted false [] k)).2, 0, by simp [survivors], by simp; omega⟩
  | cons a fs ih =>
    obtain ⟨d, n⟩ := a
    have hd := hfs (d, n) (by simp)
    have hrest : ∀ q ∈ fs, Plain q.1 ∧ 1 ≤ q.2 ∧ wl q ≤ L := fun q hq => hfs q (by simp [hq])
    have hplain : ∀ q ∈ (d, n) :: fs, Plain q.1 := fun q hq => (hfs q hq).1
    have hplainr : ∀ q ∈ fs, Plain q.1 := fun q hq => (hrest q hq).1
    have hwl : wl (d, n) ≤ L := hd.2.2
    have hwl' : wl (d, n) = n + d.encode.length := rfl
    have hn : 1 ≤ n := hd.2.1
    have hbl : (block (n - 1) d).length = wl (d, n) := by rw [block_length, hwl']; omega
    rw [shifted_cons_block, run_append_frames]
    rcases block_cases_tight cfg hst d hd.1 (n - 1) u raw p hp hl with
      ⟨junk, m', h1, h2⟩ | h1 | ⟨h1, h2⟩ | ⟨h1, h2⟩
    · -- the frame of the block is read from its start: as if the stream began here, synchronised
      refine ⟨junk, 0, ?_, by simp; omega⟩
      have e := run_shifted_synced cfg hst ((d, m' + 1) :: fs) k
        (fun q hq => by
          rcases List.mem_cons.mp hq with rfl | hq
          · exact hd.1
          · exact hplainr q hq) fresh false (Or.inl ⟨rfl, rfl⟩)
      rw [shifted_cons_block, run_append_frames, Nat.add_sub_cancel] at e
      rw [h1, h2, List.append_assoc, e, List.drop_zero]
      by_cases ha : abortsAtEnd cfg d <;> simp [survivors, ha]
    · generalize (run cfg (st u raw p) (block (n - 1) d)).2 = o1 at *
      refine ⟨o1, 1, ?_, ?_⟩
      · rw [h1, run_shifted_synced cfg hst fs k hplainr fresh false (Or.inl ⟨rfl, rfl⟩)]; simp
      · simp only [List.take_succ_cons, List.take_zero, List.map_cons, List.map_nil, List.sum_cons,
          List.sum_nil]
        omega
    · generalize (run cfg (st u raw p) (block (n - 1) d)).2 = o1 at *
      obtain ⟨j, hj, e⟩ := survivors_hunting cfg fs
      refine ⟨o1, j + 1, ?_, ?_⟩
      · rw [run_shifted_synced cfg hst fs k hplainr _ true (Or.inr ⟨rfl, h1⟩), e]; simp
      · simp only [List.take_succ_cons, List.map_cons, List.sum_cons]
        have h3 := sum_take_le' fs L (fun q hq => (hrest q hq).2.2) j hj
        rw [hbl] at h2
        omega
    · have hne : p ++ block (n - 1) d ≠ [] := by simp [hp]
      have hl' : (p ++ block (n - 1) d).length ≤ 2047 := by simpa using h2
      obtain ⟨junk, j, e, hb⟩ := ih hrest (raw ++ block (n - 1) d) (p ++ block (n - 1) d) hne hl'
      refine ⟨junk, j + 1, ?_, ?_⟩
      · rw [h1, e]; simp
      · simp only [List.take_succ_cons, List.map_cons, List.sum_cons]
        simp only [List.length_append, hbl] at hb
        omega

/-! ### C16 without stuffing, from any core, with the sharp bound, abort sequences included -/

/-- **C16 without stuffing, for the octet machine, from any reader state, no exception for frames
    ending in the escape octet.**  From a point at most `maxFrameLen + L` octets into the clean stream
    on, exactly the `survivors` are delivered. -/
theorem resync_plain_survivors_from (cfg : Cfg) (hst : cfg.stuffing = false) (c : Core) (hc : CoreInv c)
    (pre : List Nat) (hpre : Octets pre) (fs : List (FrameDesc × Nat)) (closing L : Nat)
    (hfs : ∀ p ∈ fs, p.1.WF ∧ 1 ≤ p.2 ∧ flag ∉ p.1.encode ∧ p.2 + p.1.encode.length ≤ L)
    (hcl : 1 ≤ closing) :
    ∃ junk k, (run cfg c (pre ++ wire false [] fs closing)).2 =
        junk ++ (survivors cfg false (fs.drop k)).map expectedFrame ∧
      ((fs.take k).map (fun p => p.2 + p.1.encode.length)).sum ≤ maxFrameLen + L := by
  have hc0 : CoreInv (run cfg c pre).1 := (run_inv cfg c pre hc hpre).2
  have hok : ∀ q ∈ fs, Plain q.1 ∧ 1 ≤ q.2 ∧ wl q ≤ L := fun q hq =>
    ⟨⟨(hfs q hq).1, (hfs q hq).2.2.1⟩, (hfs q hq).2.1, (hfs q hq).2.2.2⟩
  have hplain : ∀ q ∈ fs, Plain q.1 := fun q hq => (hok q hq).1
  have hwl : (fun p : FrameDesc × Nat => p.2 + p.1.encode.length) = wl := rfl
  rw [wire_eq_shifted _ _ _ _ (fun p hp => (hfs p hp).2.1) hcl, List.nil_append, run_append, run_cons,
    hwl, maxFrameLen_val]
  generalize (run cfg c pre).2 = o0
  have key : ∀ c1 : Core, (c1 = fresh ∨ c1.frame = none ∨
      ∃ u raw p, c1 = st u raw p ∧ p ≠ [] ∧ p.length ≤ 2047) →
      ∃ junk k, (run cfg c1 (shifted false fs (closing - 1))).2 =
          junk ++ (survivors cfg false (fs.drop k)).map expectedFrame ∧
        ((fs.take k).map wl).sum ≤ 2047 + L := by
    intro c1 hc1
    rcases hc1 with h | h | ⟨u, raw, p, h, hp, hl⟩
    · exact ⟨[], 0, by rw [run_shifted_synced cfg hst fs _ hplain c1 false (Or.inl ⟨rfl, h⟩)]; simp,
        by simp⟩
    · obtain ⟨j, hj, e⟩ := survivors_hunting cfg fs
      refine ⟨[], j, by rw [run_shifted_synced cfg hst fs _ hplain c1 true (Or.inr ⟨rfl, h⟩), e]; simp, ?_⟩
      have := sum_take_le' fs L (fun q hq => (hok q hq).2.2) j hj
      omega
    · obtain ⟨junk, j, e, hb⟩ := run_shifted_garbage_tight cfg hst L (closing - 1) fs hok u raw p hp hl
      have hpl : 1 ≤ p.length := by
        cases p with
        | nil => exact absurd rfl hp
        | cons _ _ => simp
      exact ⟨junk, j, by rw [h, e], by omega⟩
  have hfirst : ((stepOctet cfg (run cfg c pre).1 flagOctet).1 = fresh ∨
      (stepOctet cfg (run cfg c pre).1 flagOctet).1.frame = none ∨
      ∃ u raw p, (stepOctet cfg (run cfg c pre).1 flagOctet).1 = st u raw p ∧ p ≠ [] ∧
        p.length ≤ 2047) := by
    rcases core_shape _ hc0 with h | ⟨p, _, h⟩
    · left; rw [step_hunt_flag cfg _ h]
    · rw [h]
      by_cases hp : p = []
      · subst hp; left; rw [step_empty_flag]
      · rcases step_flag_cases cfg _ _ p hp with h1 | h1 | h1
        · left; rw [h1]
        · right; left; exact h1.1
        · right; right
          rw [h1.2.2]
          exact ⟨_, _, _, rfl, by simp, by simp; omega⟩
  obtain ⟨junk, k, e, hb⟩ := key _ hfirst
  generalize (stepOctet cfg (run cfg c pre).1 flagOctet).2 = o1 at *
  exact ⟨o0 ++ (o1 ++ junk), k, by rw [e]; simp, hb⟩

/-- **C16 without stuffing, sharp bound**, for frames that do not end like an abort sequence (all
    frames when abort detection is off): every frame from the resynchronisation point on is delivered. -/
theorem resync_plain_from (cfg : Cfg) (hst : cfg.stuffing = false) (c : Core) (hc : CoreInv c)
    (pre : List Nat) (hpre : Octets pre) (fs : List (FrameDesc × Nat)) (closing L : Nat)
    (hfs : ∀ p ∈ fs, p.1.WF ∧ 1 ≤ p.2 ∧ flag ∉ p.1.encode ∧
      (cfg.abort = true → p.1.encode.getLast? ≠ some esc) ∧ p.2 + p.1.encode.length ≤ L)
    (hcl : 1 ≤ closing) :
    ∃ junk k, (run cfg c (pre ++ wire false [] fs closing)).2 =
        junk ++ (fs.drop k).map (fun p => expectedFrame p.1) ∧
      ((fs.take k).map (fun p => p.2 + p.1.encode.length)).sum ≤ maxFrameLen + L := by
  obtain ⟨junk, k, e, hb⟩ := resync_plain_survivors_from cfg hst c hc pre hpre fs closing L
    (fun p hp => ⟨(hfs p hp).1, (hfs p hp).2.1, (hfs p hp).2.2.1, (hfs p hp).2.2.2.2⟩) hcl
  refine ⟨junk, k, ?_, hb⟩
  rw [e, survivors_all cfg (fs.drop k)
    (fun p hp ha => (hfs p (List.mem_of_mem_drop hp)).2.2.2.1 ha.1 ha.2), List.map_map]
  rfl

/-! ### C16 with stuffing, from any core -/

theorem resync_stuffing_from (cfg : Cfg) (hst : cfg.stuffing = true) (c : Core) (hc : CoreInv c)
    (pre : List Nat) (hpre : Octets pre) (fs : List (FrameDesc × Nat)) (closing : Nat)
    (hfs : ∀ p ∈ fs, p.1.WF ∧ 1 ≤ p.2) (hcl : 1 ≤ closing) :
    ∃ junk, (run cfg c (pre ++ wire true [] fs closing)).2 =
      junk ++ fs.tail.map (fun p => expectedFrame p.1) := by
  have hc0 : CoreInv (run cfg c pre).1 := (run_inv cfg c pre hc hpre).2
  have hdom : ∀ p ∈ fs, p.1.WF ∧ InDomain cfg.stuffing cfg.abort p.1 ∧
      flagOctet ∉ onWire cfg.stuffing p.1 := by
    intro p hp
    refine ⟨(hfs p hp).1, Or.inl hst, ?_⟩
    rw [hst]; exact flag_not_mem_stuff _
  rw [wire_eq_shifted _ _ _ _ (fun p hp => (hfs p hp).2) hcl, List.nil_append, run_append, run_cons]
  rw [← hst]
  generalize (run cfg c pre).2 = o0
  generalize (stepOctet cfg (run cfg c pre).1 flagOctet).2 = o1
  rcases step_flag_good cfg hst _ hc0 with h | h
  · rw [h, run_shifted_fresh cfg fs _ (fun p hp => ⟨(hdom p hp).1, (hdom p hp).2.1⟩)]
    obtain ⟨pre', e⟩ := drop_le_one_tail (fun p : FrameDesc × Nat => expectedFrame p.1) fs 0 (by omega)
    rw [List.drop_zero] at e
    exact ⟨o0 ++ (o1 ++ pre'), by simp only [e, List.append_assoc]⟩
  · obtain ⟨j, hj, e⟩ := run_shifted_hunt cfg _ h fs (closing - 1) hdom
    obtain ⟨pre', e'⟩ := drop_le_one_tail (fun p : FrameDesc × Nat => expectedFrame p.1) fs j hj
    exact ⟨o0 ++ (o1 ++ pre'), by simp only [e, e', List.append_assoc]⟩

end Amshan.HdlcClean
