import Amshan.Lemmas.HdlcBound
import Amshan.Model.HdlcExc
/-
  C14 (HDLC): every partial primitive of `Model/HdlcExc.lean` is guarded — the Except-valued
  functions return `.ok` of the pure model (`Model/Hdlc.lean`).
-/
namespace Amshan.Hdlc
open Amshan.Gen

-- lets `decide` settle the concrete failing examples of the primitives in `Props/C14Hdlc.lean`

/-! ### the partial primitives, when guarded -/

theorem pyIndex_of_lt (xs : List Nat) (i : Nat) (h : i < xs.length) : pyIndex xs i = .ok xs[i] := by
  simp only [pyIndex, List.getElem?_eq_getElem h]

theorem pyIndex_of_some {xs : List Nat} {i x : Nat} (h : xs[i]? = some x) : pyIndex xs i = .ok x := by
  simp only [pyIndex, h]

theorem pyLastViaSlice_of_some {xs : List Nat} {x : Nat} (h : xs.getLast? = some x) :
    pyLastViaSlice xs = .ok x := by
  simp only [pyLastViaSlice, h]

theorem getLast?_isSome_of_length {xs : List Nat} (h : xs.length > 1) : ∃ x, xs.getLast? = some x := by
  cases xs with
  | nil => simp at h
  | cons a t => exact ⟨_, List.getLast?_eq_some_getLast (List.cons_ne_nil a t)⟩

@[simp] theorem ok_bind {α β : Type} (a : α) (g : α → Except PyExc β) :
    (Except.ok a >>= g) = g a := rfl

@[simp] theorem pure_eq_ok {α : Type} (a : α) : (pure a : Except PyExc α) = .ok a := rfl

/-! ### header accessors -/

theorem Frame.frameFormatE_ok (f : Frame) : f.frameFormatE = .ok f.frameFormat := by
  unfold Frame.frameFormatE Frame.frameFormat Frame.len
  cases hd : f.data with
  | nil => simp
  | cons a t =>
    cases t with
    | nil => simp
    | cons b t => simp [pyIndex]

theorem getAddressLoopE_ok (d : List Nat) (fuel i : Nat) (adr : List Nat)
    (h : fuel ≥ d.length - i + 1) :
    getAddressLoopE d fuel i adr = .ok ((getAddressFrom (d.drop i)).map (adr ++ ·)) := by
  induction fuel generalizing i adr with
  | zero => omega
  | succ fuel ih =>
    unfold getAddressLoopE
    split
    · next hge =>
      rw [List.drop_eq_nil_of_le hge]
      rfl
    · next hlt =>
      have hlt' : i < d.length := by omega
      rw [pyIndex_of_lt d i hlt', ok_bind, List.drop_eq_getElem_cons hlt', getAddressFrom]
      split
      · simp only [pure_eq_ok, Option.map_some]
      · rw [ih (i + 1) (adr ++ [d[i]]) (by omega), Option.map_map]
        congr 2
        funext y
        simp only [Function.comp, List.append_assoc, List.cons_append, List.nil_append]

theorem getAddressE_ok (d : List Nat) (pos : Nat) : getAddressE d pos = .ok (getAddress d pos) := by
  unfold getAddressE getAddress
  split
  · rw [getAddressLoopE_ok d _ pos [] (Nat.le_refl _)]
    simp only [List.nil_append, Option.map_id']
  · rfl

theorem Frame.controlE_ok (f : Frame) : f.controlE = .ok f.control := by
  unfold Frame.controlE Frame.control
  cases f.ctlPos with
  | none => rfl
  | some p =>
    simp only
    split
    · next hl =>
      have hl' : p < f.data.length := hl
      rw [pyIndex_of_lt f.data p hl', List.getElem?_eq_getElem hl']
      rfl
    · rfl

theorem Frame.hcsE_ok (f : Frame) : f.hcsE = .ok f.hcs := by
  unfold Frame.hcsE Frame.hcs
  cases f.ctlPos with
  | none => rfl
  | some p =>
    simp only
    split
    · next hl =>
      have hl2 : p + 2 < f.data.length := hl
      have hl1 : p + 1 < f.data.length := by omega
      rw [pyIndex_of_lt f.data _ hl1, pyIndex_of_lt f.data _ hl2, List.getElem?_eq_getElem hl1,
        List.getElem?_eq_getElem hl2]
      rfl
    · rfl

/-- a control position is preceded by the two format octets -/
theorem controlPos_ge_two {d : List Nat} {p : Nat} (h : controlPos d = some p) : 2 ≤ p := by
  unfold controlPos at h
  split at h
  · split at h
    · simp only [Option.some.injEq] at h; omega
    · simp only [reduceCtorEq] at h
  · simp only [reduceCtorEq] at h

theorem Frame.fcsFieldE_ok (f : Frame) (h : FrameInv f) : f.fcsFieldE = .ok f.fcsField := by
  unfold Frame.fcsFieldE Frame.fcsField
  cases hip : f.infoPos with
  | none => rfl
  | some ip =>
    simp only
    split
    · next hl =>
      have hip5 : 5 ≤ ip := by
        cases hc : f.ctlPos with
        | none => simp only [Frame.infoPos, hc, Option.map_none, reduceCtorEq] at hip
        | some p =>
          have := controlPos_ge_two (h.2.1 ▸ hc)
          simp only [Frame.infoPos, hc, Option.map_some, Option.some.injEq] at hip
          omega
      have hlen : f.len = f.data.length := rfl
      have hl2 : f.len - 2 < f.data.length := by omega
      have hl1 : f.len - 1 < f.data.length := by omega
      rw [if_neg (by omega), pyIndex_of_lt f.data _ hl2, pyIndex_of_lt f.data _ hl1,
        List.getElem?_eq_getElem hl2, List.getElem?_eq_getElem hl1]
      rfl
    · rfl

theorem Frame.isExpectedLengthE_ok (f : Frame) : f.isExpectedLengthE = .ok f.isExpectedLength := by
  unfold Frame.isExpectedLengthE Frame.isExpectedLength Frame.frameLength
  rw [Frame.frameFormatE_ok]
  rfl

theorem Frame.isValidE_ok (f : Frame) : f.isValidE = .ok f.isValid := by
  unfold Frame.isValidE Frame.isValid
  cases f.isGoodFfc with
  | true => simp only [if_true, Bool.true_and, Frame.isExpectedLengthE_ok]
  | false => simp only [Bool.false_eq_true, if_false, Bool.false_and, pure_eq_ok]

/-! ### `_handle_flag_sequence`, `_read_next` -/

theorem maxLenCheck_eq (c1 : Core) : maxLenCheck c1 = lenCheck c1 := rfl

theorem appendToFrameE_ok (cfg : Cfg) (c : Core) (f : Frame) (x : Nat) (hf : c.frame = some f) :
    appendToFrameE cfg c x = .ok (appendToFrame cfg c f x) := by
  simp only [appendToFrameE, hf, pure_eq_ok]

theorem handleFlagE_ok (cfg : Cfg) (c : Core) : handleFlagE cfg c = .ok (handleFlag cfg c) := by
  rw [handleFlag_eq]
  unfold handleFlagE
  cases hf : c.frame with
  | none => rfl
  | some f =>
    simp only
    split
    · rfl
    · rw [Frame.hcsE_ok, ok_bind]
      split
      · rfl
      · cases hg : (cfg.abort && decide (c.raw.length > 1)) with
        | false =>
          simp only [Bool.false_eq_true, if_false, pure_eq_ok, ok_bind, Bool.false_and]
          split
          · rfl
          · rw [Frame.isExpectedLengthE_ok, ok_bind]
            split
            · rfl
            · rw [appendToFrameE_ok cfg c f flagOctet hf, ok_bind, maxLenCheck_eq]
        | true =>
          have hlen : c.raw.length > 1 := by
            simp only [Bool.and_eq_true, decide_eq_true_eq] at hg
            exact hg.2
          obtain ⟨last, hlast⟩ := getLast?_isSome_of_length hlen
          simp only [if_true, pyLastViaSlice_of_some hlast, ok_bind, pure_eq_ok, Bool.true_and,
            hlast]
          have hb : (some last == some escOctet) = (last == escOctet) := by
            cases hq : (last == escOctet) <;> simp_all
          rw [hb]
          split
          · rfl
          · split
            · rfl
            · rw [Frame.isExpectedLengthE_ok, ok_bind]
              split
              · rfl
              · rw [appendToFrameE_ok cfg c f flagOctet hf, ok_bind, maxLenCheck_eq]

theorem readNextE_ok (cfg : Cfg) (c : Core) (x : Nat) : readNextE cfg c x = .ok (readNext cfg c x) := by
  rw [readNext_eq]
  unfold readNextE
  split
  · exact handleFlagE_ok cfg c
  · cases hf : c.frame with
    | none => rfl
    | some f =>
      simp only
      rw [appendToFrameE_ok cfg c f x hf, ok_bind, maxLenCheck_eq]; rfl

/-! ### a completed frame exists -/

theorem lenCheck_not_complete (c1 c2 : Core) : lenCheck c1 ≠ (c2, Act.complete) := by
  unfold lenCheck
  intro h
  split at h
  · split at h <;> simp only [Prod.mk.injEq, reduceCtorEq, and_false] at h
  · simp only [Prod.mk.injEq, reduceCtorEq, and_false] at h

theorem handleFlag_complete_frame {cfg : Cfg} {c c1 : Core}
    (h : handleFlag cfg c = (c1, .complete)) : ∃ f, c1.frame = some f := by
  rw [handleFlag_eq] at h
  split at h
  · simp only [Prod.mk.injEq, reduceCtorEq, and_false] at h
  · next f hf =>
    split at h
    · simp only [Prod.mk.injEq, reduceCtorEq, and_false] at h
    · split at h
      · simp only [Prod.mk.injEq, reduceCtorEq, and_false] at h
      · split at h
        · simp only [Prod.mk.injEq, reduceCtorEq, and_false] at h
        · split at h
          · simp only [Prod.mk.injEq, and_true] at h; subst h; exact ⟨f, hf⟩
          · split at h
            · simp only [Prod.mk.injEq, and_true] at h; subst h; exact ⟨f, hf⟩
            · exact absurd h (lenCheck_not_complete _ _)

theorem readNext_complete_frame {cfg : Cfg} {c c1 : Core} {x : Nat}
    (h : readNext cfg c x = (c1, .complete)) : ∃ f, c1.frame = some f := by
  rw [readNext_eq] at h
  split at h
  · exact handleFlag_complete_frame h
  · split at h
    · simp only [Prod.mk.injEq, reduceCtorEq, and_false] at h
    · exact absurd h (lenCheck_not_complete _ _)

/-! ### the read loop -/

theorem loopE_ok (cfg : Cfg) (c : Core) (b : Buf) (out : List Frame) :
    ∀ fuel, fuel ≥ b.inp.length + 1 → loopE cfg fuel c b out = .ok (loop cfg c b out) := by
  fun_induction loop cfg c b out with
  | case1 c b out h =>
    intro fuel hfuel
    cases fuel with
    | zero => omega
    | succ fuel => simp only [loopE, h, List.length_nil, Nat.lt_irrefl, if_false, pure_eq_ok, gt_iff_lt]
  | case2 c b out x rest h b1 c1 hrn ih =>
    intro fuel hfuel
    cases fuel with
    | zero => omega
    | succ fuel =>
      rw [h, List.length_cons] at hfuel
      simp only [loopE, h, List.length_cons, gt_iff_lt, Nat.zero_lt_succ, if_true, Buf.popE,
        pure_eq_ok, ok_bind, readNextE_ok, hrn]
      exact ih fuel (by simp only [b1]; omega)
  | case3 c b out x rest h b1 c1 hrn ih =>
    intro fuel hfuel
    cases fuel with
    | zero => omega
    | succ fuel =>
      rw [h, List.length_cons] at hfuel
      simp only [loopE, h, List.length_cons, gt_iff_lt, Nat.zero_lt_succ, if_true, Buf.popE,
        pure_eq_ok, ok_bind, readNextE_ok, hrn]
      have := length_dropWhile_le notFlag rest
      exact ih fuel (by simp only [b1, Buf.trimToFlagOrEnd]; omega)
  | case4 c b out x rest h b1 c1 hrn ih =>
    intro fuel hfuel
    cases fuel with
    | zero => omega
    | succ fuel =>
      rw [h, List.length_cons] at hfuel
      obtain ⟨f, hf⟩ := readNext_complete_frame hrn
      simp only [loopE, h, List.length_cons, gt_iff_lt, Nat.zero_lt_succ, if_true, Buf.popE,
        pure_eq_ok, ok_bind, readNextE_ok, hrn, hf, Frame.isExpectedLengthE_ok]
      have := ih fuel (by simp only [b1, Buf.trimToPos]; omega)
      simpa only [hf, Option.toList_some] using this

theorem readE_ok (cfg : Cfg) (r : Reader) (chunk : List Nat) :
    readE cfg r chunk = .ok (read cfg r chunk) := by
  unfold readE read
  simp only [loopE_ok cfg _ _ _ _ (Nat.le_refl _), ok_bind, pure_eq_ok]

end Amshan.Hdlc
