import Amshan.Model.P1Defs
/-
  Totality of the P1 reader model (C14, P1 part): `loop`, `read`, `readAll` never return `.error`
  from a reachable reader, and `Readout.isValid` never returns `.error`.
-/
namespace Amshan.P1
open Amshan.Gen Amshan.Py

/-! ### `find` -/

theorem find_eq_some_of_mem (xs : List Nat) (c : Nat) (h : c ∈ xs) : ∃ i, find xs c = some i := by
  have hlt : (xs.takeWhile (· != c)).length < xs.length := by
    induction xs with
    | nil => simp at h
    | cons a t ih =>
      by_cases hac : a = c
      · subst hac
        simp [List.takeWhile]
      · have hm : c ∈ t := by
          rcases List.mem_cons.mp h with h1 | h1
          · exact absurd h1.symm hac
          · exact h1
        have := ih hm
        have hp : (a != c) = true := by simpa using hac
        simp only [List.takeWhile_cons, hp, if_true, List.length_cons]
        omega
  refine ⟨(xs.takeWhile (· != c)).length, ?_⟩
  simp only [find, hlt, if_true]

theorem find_eq_none_iff (xs : List Nat) (c : Nat) : find xs c = none ↔ c ∉ xs := by
  constructor
  · intro h hm
    obtain ⟨i, hi⟩ := find_eq_some_of_mem xs c hm
    rw [hi] at h
    cases h
  · intro hm
    have hall : xs.takeWhile (· != c) = xs := by
      induction xs with
      | nil => rfl
      | cons a t ih =>
        have hac : a ≠ c := fun hac => hm (hac ▸ List.mem_cons_self)
        have hp : (a != c) = true := by simpa using hac
        simp only [List.takeWhile_cons, hp, if_true]
        rw [ih (fun h => hm (List.mem_cons_of_mem _ h))]
    simp only [find, hall, Nat.lt_irrefl, if_false]

/-! ### `Buf.pop` -/

theorem pop_some {b : Buf} {line : List Nat} {b1 : Buf} (h : b.pop = some (line, b1)) :
    line ≠ [] ∧ b.inp = line ++ b1.inp ∧ b1.consumed = b.consumed + line.length := by
  simp only [Buf.pop] at h
  split at h
  · cases h
  · rename_i lf rest heq
    simp only [Option.some.injEq, Prod.mk.injEq] at h
    obtain ⟨h1, h2⟩ := h
    subst h1 h2
    refine ⟨by simp, ?_, ?_⟩
    · have := List.takeWhile_append_dropWhile (p := notLf) (l := b.inp)
      rw [heq] at this
      simp only [List.append_assoc, List.cons_append, List.nil_append]
      exact this.symm
    · simp only [List.length_append, List.length_cons, List.length_nil]
      omega

/-! ### `Readout.make` -/

theorem make_ok (t : List Nat) (h : p1End ∈ p1Start :: t) : ∃ ro, Readout.make (p1Start :: t) = .ok ro := by
  obtain ⟨e, he⟩ := find_eq_some_of_mem _ _ h
  have hl : lstripBytes (p1Start :: t) = p1Start :: t := by
    simp [lstripBytes, List.dropWhile, isBytesSpace, p1Start]
  simp only [Readout.make, hl, bne_self_eq_false, Bool.false_eq_true, if_false, he]
  exact ⟨_, rfl⟩

/-! ### the reader invariant -/

/-- in hunt mode nothing is collected; otherwise the collected lines start with '/' -/
def Inv (raw : List Nat) (hunt : Bool) : Prop :=
  (hunt = true → raw = []) ∧ (hunt = false → raw.head? = some p1Start)

theorem inv_init : Inv Reader.init.raw Reader.init.hunt := by
  simp [Inv, Reader.init]

theorem decodeAscii_of_isAscii {l : List Nat} (h : isAscii l = true) : decodeAscii l = .ok l := by
  simp only [isAscii] at h
  simp only [decodeAscii, h, if_true]

theorem handleLine_ok {raw : List Nat} {hunt : Bool} {line : List Nat} (hinv : Inv raw hunt)
    (hne : line ≠ []) :
    ∃ raw1 hunt1 ro, handleLine raw hunt line = .ok (raw1, hunt1, ro) ∧ Inv raw1 hunt1 := by
  obtain ⟨c, rest, rfl⟩ := List.exists_cons_of_ne_nil hne
  cases hunt with
  | true =>
    have hraw : raw = [] := hinv.1 rfl
    subst hraw
    simp only [handleLine, if_true]
    by_cases hc : (c == p1Start && isAscii (c :: rest)) = true
    · simp only [hc, if_true]
      have hc' := Bool.and_eq_true_iff.mp hc
      rw [decodeAscii_of_isAscii hc'.2]
      simp only [bind, Except.bind, pure, Except.pure]
      by_cases hi : isIdentLine (c :: rest) = true
      · simp only [hi, if_true, List.nil_append]
        refine ⟨_, _, _, rfl, ?_⟩
        have : c = p1Start := by simpa using hc'.1
        simp [Inv, this]
      · simp only [hi, Bool.false_eq_true, if_false]
        exact ⟨_, _, _, rfl, by simp [Inv]⟩
    · simp only [hc, Bool.false_eq_true, if_false, pure, Except.pure]
      exact ⟨_, _, _, rfl, by simp [Inv]⟩
  | false =>
    have hh := hinv.2 rfl
    obtain ⟨t, rfl⟩ : ∃ t, raw = p1Start :: t := by
      cases raw with
      | nil => simp at hh
      | cons a t => simp only [List.head?_cons, Option.some.injEq] at hh; exact ⟨t, by rw [hh]⟩
    simp only [handleLine, Bool.false_eq_true, if_false]
    by_cases hc : (c == p1End) = true
    · simp only [hc, if_true]
      have hce : c = p1End := by simpa using hc
      have hmem : p1End ∈ p1Start :: (t ++ c :: rest) := by
        subst hce; simp
      obtain ⟨ro, hro⟩ := make_ok _ hmem
      rw [List.cons_append, hro]
      simp only [bind, Except.bind, pure, Except.pure]
      exact ⟨_, _, _, rfl, by simp [Inv]⟩
    · simp only [hc, Bool.false_eq_true, if_false, pure, Except.pure]
      exact ⟨_, _, _, rfl, by simp [Inv]⟩

/-! ### `loop`, `read`, `readAll` -/

theorem loop_ok (b : Buf) (raw : List Nat) (hunt : Bool) (out : List Readout) (hinv : Inv raw hunt) :
    ∃ r outs, loop b raw hunt out = .ok (r, outs) ∧ Inv r.raw r.hunt := by
  fun_induction loop b raw hunt out with
  | case1 b raw hunt out h => exact ⟨_, _, rfl, hinv⟩
  | case2 b raw hunt out line b1 h e he =>
    obtain ⟨_, _, _, hok, _⟩ := handleLine_ok hinv (pop_some h).1
    rw [he] at hok; cases hok
  | case3 b raw hunt out line b1 h raw1 hunt1 ro he ih =>
    obtain ⟨_, _, _, hok, hinv1⟩ := handleLine_ok hinv (pop_some h).1
    rw [he] at hok
    simp only [Except.ok.injEq, Prod.mk.injEq] at hok
    obtain ⟨rfl, rfl, rfl⟩ := hok
    exact ih hinv1

theorem read_ok (r : Reader) (chunk : List Nat) (hinv : Inv r.raw r.hunt) :
    ∃ r' outs, read r chunk = .ok (r', outs) ∧ Inv r'.raw r'.hunt := by
  simp only [read]
  apply loop_ok
  split
  · simp [Inv]
  · simpa using hinv

theorem readAll_ok (chunks : List (List Nat)) (r : Reader) (hinv : Inv r.raw r.hunt) :
    ∃ r' outs, readAll r chunks = .ok (r', outs) ∧ Inv r'.raw r'.hunt := by
  induction chunks generalizing r with
  | nil => exact ⟨_, _, rfl, hinv⟩
  | cons ch chs ih =>
    obtain ⟨r1, o1, h1, hinv1⟩ := read_ok r ch hinv
    obtain ⟨r2, o2, h2, hinv2⟩ := ih r1 hinv1
    simp only [readAll, h1, h2]
    exact ⟨_, _, rfl, hinv2⟩

theorem reachable_inv {r : Reader} (hr : Reachable r) : Inv r.raw r.hunt := by
  obtain ⟨chunks, outs, h⟩ := hr
  obtain ⟨r', outs', h', hinv⟩ := readAll_ok chunks Reader.init inv_init
  rw [h] at h'
  simp only [Except.ok.injEq, Prod.mk.injEq] at h'
  rw [h'.1]
  exact hinv

/-! ### `Readout.isValid` -/

theorem decodeAscii_error {bs : List Nat} {e : PyExc} (h : decodeAscii bs = .error e) :
    e = .unicodeError := by
  simp only [decodeAscii] at h
  split at h
  · cases h
  · cases h; rfl

theorem intBase16_error {s : List Nat} {e : PyExc} (h : intBase16 s = .error e) :
    e = .valueError := by
  simp only [intBase16] at h
  split at h
  · cases h
  · cases h; rfl

theorem expectedChecksum_error {r : Readout} {e : PyExc} (h : r.expectedChecksum = .error e) :
    isValueError e = true := by
  simp only [Readout.expectedChecksum, Readout.endLine, bind, Except.bind, pure, Except.pure] at h
  split at h
  · rename_i e' hd
    split at hd
    · rename_i e'' hd'
      cases hd; cases h
      rw [decodeAscii_error hd']; rfl
    · cases hd
  · split at h
    · split at h
      · rename_i e' hi
        cases h
        rw [intBase16_error hi]; rfl
      · cases h
    · cases h

theorem identLine_error {r : Readout} {e : PyExc} (h : r.identLine = .error e) :
    isValueError e = true := by
  simp only [Readout.identLine, bind, Except.bind, pure, Except.pure] at h
  split at h
  · rename_i e' hd
    cases h
    rw [decodeAscii_error hd]; rfl
  · split at h
    · cases h
    · cases h; rfl

theorem ite_ok_aux (c : Prop) [Decidable c] (x : Except PyExc Bool) (h : ∃ b, x = .ok b) :
    ∃ b, (if c then .ok false else x) = .ok b := by
  split
  · exact ⟨_, rfl⟩
  · exact h

theorem isValid_ok (r : Readout) : ∃ b, r.isValid = .ok b := by
  simp only [Readout.isValid]
  cases he : r.expectedChecksum with
  | error e =>
    simp only [expectedChecksum_error he, if_true]
    exact ⟨_, rfl⟩
  | ok expected =>
    simp only []
    apply ite_ok_aux
    · cases hi : r.identLine with
      | error e =>
        simp only [identLine_error hi, if_true]
        exact ⟨_, rfl⟩
      | ok m => exact ⟨_, rfl⟩

end Amshan.P1
