import Amshan.Props.C13
import Amshan.Props.C02
import Amshan.Props.C04
import Amshan.Props.C05
import Amshan.Model.ProtoInst
import Amshan.Lemmas.HdlcCarve
/-
  Lemmas for Props/C13Clean: the concrete candidates' message streams (`hdlcRd`, `p1Rd`) in terms of
  the reader models (`Hdlc.readAll`, `P1.readAll`), and the irrelevance of a candidate that never
  reports a valid message.
-/
namespace Amshan.Proto
open Amshan.ProtoSpec

/-! ### a candidate without valid messages -/

theorem anyValid_false_of_all_invalid (ms : List Msg) (h : ∀ m ∈ ms, m.valid = false) :
    anyValid ms = false := by
  unfold anyValid
  rw [List.any_eq_false]
  intro m hm
  simp [h m hm]

/-- quietness (no valid message on the chunk sequence), first chunk and the rest -/
theorem quiet_cons {q : Rd} {ch : List Nat} {chs : List (List Nat)}
    (hq : ∀ m ∈ (q.feedAll (ch :: chs)).flatten, m.valid = false) :
    anyValid (q.feed ch).2 = false ∧ ∀ m ∈ (Rd.feedAll (q.feed ch).1 chs).flatten, m.valid = false := by
  rw [feedAll_cons, List.flatten_cons] at hq
  exact ⟨anyValid_false_of_all_invalid _ (fun m hm => hq m (List.mem_append_left _ hm)),
    fun m hm => hq m (List.mem_append_right _ hm)⟩

theorem firstNow_single (ch : List Nat) (a : Rd) :
    firstNow ch [a] = if anyValid (a.feed ch).2 then some 0 else none := by
  simp only [firstNow, Option.map_none]

theorem firstNow_pair (ch : List Nat) (a b : Rd) :
    firstNow ch [a, b] =
      if anyValid (a.feed ch).2 then some 0 else if anyValid (b.feed ch).2 then some 1 else none := by
  simp only [firstNow, Option.map_none]
  split
  · rfl
  · split <;> rfl

/-- a quiet candidate after the other one: same forwarded stream, same selection chunk and index -/
theorem forwarded_quiet_right (a q : Rd) (chunks : List (List Nat))
    (hq : ∀ m ∈ (q.feedAll chunks).flatten, m.valid = false) :
    forwarded [a, q] chunks = forwarded [a] chunks ∧ selection [a, q] chunks = selection [a] chunks := by
  induction chunks generalizing a q with
  | nil => exact ⟨rfl, rfl⟩
  | cons ch chs ih =>
    obtain ⟨h1, h2⟩ := quiet_cons hq
    rw [forwarded_cons, forwarded_cons, selection_cons, selection_cons, firstNow_pair, firstNow_single, h1]
    cases hv : anyValid (a.feed ch).2 with
    | true => exact ⟨rfl, rfl⟩
    | false =>
      obtain ⟨i1, i2⟩ := ih (a.feed ch).1 (q.feed ch).1 h2
      simp only [Bool.false_eq_true, if_false, advance_cons, advance_nil, i1, i2, and_self]

/-- a quiet candidate before the other one: same forwarded stream, index shifted by one -/
theorem forwarded_quiet_left (a q : Rd) (chunks : List (List Nat))
    (hq : ∀ m ∈ (q.feedAll chunks).flatten, m.valid = false) :
    forwarded [q, a] chunks = forwarded [a] chunks ∧
    selection [q, a] chunks = (selection [a] chunks).map (fun ki => (ki.1, ki.2 + 1)) := by
  induction chunks generalizing a q with
  | nil => exact ⟨rfl, rfl⟩
  | cons ch chs ih =>
    obtain ⟨h1, h2⟩ := quiet_cons hq
    rw [forwarded_cons, forwarded_cons, selection_cons, selection_cons, firstNow_pair, firstNow_single, h1]
    cases hv : anyValid (a.feed ch).2 with
    | true => exact ⟨rfl, rfl⟩
    | false =>
      obtain ⟨i1, i2⟩ := ih (a.feed ch).1 (q.feed ch).1 h2
      simp only [Bool.false_eq_true, if_false, advance_cons, advance_nil, i1, i2, Option.map_map,
        true_and]
      rfl

/-- the queue does not see a quiet candidate, wherever it is in the list -/
theorem runAll_quiet (k : Kind) (a q : Rd) (chunks : List (List Nat))
    (hq : ∀ m ∈ (q.feedAll chunks).flatten, m.valid = false) :
    (runAll k (State.init [a, q]) chunks).2 = (runAll k (State.init [a]) chunks).2 ∧
    (runAll k (State.init [q, a]) chunks).2 = (runAll k (State.init [a]) chunks).2 := by
  have e1 := (runAll_unselected k [a, q] chunks).1
  have e2 := (runAll_unselected k [q, a] chunks).1
  have e3 := (runAll_unselected k [a] chunks).1
  refine ⟨?_, ?_⟩
  · show (runAll k ⟨none, [a, q]⟩ chunks).2 = (runAll k ⟨none, [a]⟩ chunks).2
    rw [e1, e3, (forwarded_quiet_right a q chunks hq).1]
  · show (runAll k ⟨none, [q, a]⟩ chunks).2 = (runAll k ⟨none, [a]⟩ chunks).2
    rw [e2, e3, (forwarded_quiet_left a q chunks hq).1]

/-! ### the HDLC candidate -/

/-- the HDLC candidate in an arbitrary reader state -/
def hdlcRdAt (cfg : Hdlc.Cfg) (r : Hdlc.Reader) : Rd :=
  { σ := Hdlc.Reader, st := r
    read := fun r ch => let res := Hdlc.read cfg r ch; (res.1, res.2.map frameMsg) }

theorem hdlcRdAt_init (cfg : Hdlc.Cfg) : hdlcRdAt cfg Hdlc.Reader.init = hdlcRd cfg := rfl

theorem hdlcRdAt_feed (cfg : Hdlc.Cfg) (r : Hdlc.Reader) (ch : List Nat) :
    (hdlcRdAt cfg r).feed ch = (hdlcRdAt cfg (Hdlc.read cfg r ch).1, (Hdlc.read cfg r ch).2.map frameMsg) :=
  rfl

/-- per call, the HDLC candidate reports the frames of `Hdlc.read` -/
theorem hdlcRdAt_feedAll (cfg : Hdlc.Cfg) (r : Hdlc.Reader) (chunks : List (List Nat)) :
    (hdlcRdAt cfg r).feedAll chunks = (Hdlc.readAll cfg r chunks).2.map (·.map frameMsg) := by
  induction chunks generalizing r with
  | nil => rfl
  | cons ch chs ih =>
    rw [feedAll_cons, hdlcRdAt_feed, Hdlc.readAll_cons]
    simp only [List.map_cons, ih]

theorem hdlcRd_feedAll_perCall (cfg : Hdlc.Cfg) (chunks : List (List Nat)) :
    (hdlcRd cfg).feedAll chunks = (Hdlc.readAll cfg Hdlc.Reader.init chunks).2.map (·.map frameMsg) := by
  rw [← hdlcRdAt_init, hdlcRdAt_feedAll]

theorem flatten_map_map {α β : Type} (f : α → β) (l : List (List α)) :
    (l.map (·.map f)).flatten = l.flatten.map f := by
  induction l with
  | nil => rfl
  | cons x xs ih => simp only [List.map_cons, List.flatten_cons, List.map_append, ih]

theorem hdlcRd_feedAll_flatten (cfg : Hdlc.Cfg) (chunks : List (List Nat)) :
    ((hdlcRd cfg).feedAll chunks).flatten =
      (Hdlc.readAll cfg Hdlc.Reader.init chunks).2.flatten.map frameMsg := by
  rw [hdlcRd_feedAll_perCall, flatten_map_map]

/-- what the payload protocol takes from the frame delivered for a well-formed description -/
theorem goodPayload_expectedFrame (d : HdlcSpec.FrameDesc) (h : d.WF) :
    (frameMsg (Hdlc.expectedFrame d)).valid = true ∧
    goodPayload (frameMsg (Hdlc.expectedFrame d)) = (if d.info.isEmpty then none else some d.info) := by
  obtain ⟨hv, _, hp, _⟩ := Amshan.C02.expected_observation d h
  refine ⟨hv, ?_⟩
  unfold goodPayload frameMsg
  simp only [hv, if_true, hp]
  cases hi : d.info.isEmpty with
  | true => rfl
  | false => simp only [Bool.false_eq_true, if_false, hi]

/-- in hunt mode a stream without a flag octet leaves the machine where it is, without output -/
theorem run_hunt_noflag (cfg : Hdlc.Cfg) (c : Hdlc.Core) (u : List Nat) (hc : c.frame = none)
    (hu : HdlcSpec.flag ∉ u) : Hdlc.run cfg c u = (c, []) := by
  induction u with
  | nil => rfl
  | cons x xs ih =>
    have hx : x ≠ HdlcSpec.flag := fun e => hu (e ▸ List.mem_cons_self ..)
    rw [Hdlc.run_cons, Hdlc.stepOctet_hunt_other cfg hc hx]
    simp only [List.nil_append, ih (fun hm => hu (List.mem_cons_of_mem _ hm))]

/-- the HDLC candidate reports nothing at all on a stream without a flag octet -/
theorem hdlcRd_noflag (cfg : Hdlc.Cfg) (chunks : List (List Nat)) (h : Gen.flagOctet ∉ chunks.flatten) :
    ((hdlcRd cfg).feedAll chunks).flatten = [] := by
  rw [hdlcRd_feedAll_flatten, Hdlc.readAll_frames cfg _ chunks Hdlc.Reader.init_buf,
    run_hunt_noflag cfg _ _ rfl h]
  rfl

/-! ### the P1 candidate -/

/-- the P1 candidate in an arbitrary reader state -/
def p1RdAt (r : P1.Reader) : Rd :=
  { σ := P1.Reader, st := r
    read := fun r ch => match P1.read r ch with
      | .ok (r', os) => (r', os.map readoutMsg)
      | .error _ => (r, []) }

theorem p1RdAt_init : p1RdAt P1.Reader.init = p1Rd := rfl

theorem p1RdAt_feed_ok (r r1 : P1.Reader) (ch : List Nat) (o1 : List P1.Readout)
    (h : P1.read r ch = .ok (r1, o1)) : (p1RdAt r).feed ch = (p1RdAt r1, o1.map readoutMsg) := by
  unfold Rd.feed p1RdAt
  simp only [h]

/-- as long as `read()` does not raise, the P1 candidate reports the readouts of `P1.read` -/
theorem p1RdAt_feedAll (r r' : P1.Reader) (chunks : List (List Nat)) (outs : List (List P1.Readout))
    (h : P1.readAll r chunks = .ok (r', outs)) :
    (p1RdAt r).feedAll chunks = outs.map (·.map readoutMsg) := by
  induction chunks generalizing r outs with
  | nil =>
    unfold P1.readAll at h
    cases h
    rfl
  | cons ch chs ih =>
    unfold P1.readAll at h
    cases h1 : P1.read r ch with
    | error e => rw [h1] at h; cases h
    | ok p =>
      obtain ⟨r1, o1⟩ := p
      rw [h1] at h
      simp only at h
      cases h2 : P1.readAll r1 chs with
      | error e => rw [h2] at h; cases h
      | ok p2 =>
        obtain ⟨r2, o2⟩ := p2
        rw [h2] at h
        simp only [Except.ok.injEq, Prod.mk.injEq] at h
        obtain ⟨rfl, rfl⟩ := h
        rw [feedAll_cons, p1RdAt_feed_ok r r1 ch o1 h1]
        simp only [List.map_cons, ih r1 o2 h2]

theorem p1Rd_feedAll_flatten (r' : P1.Reader) (chunks : List (List Nat)) (outs : List (List P1.Readout))
    (h : P1.readAll P1.Reader.init chunks = .ok (r', outs)) :
    (p1Rd.feedAll chunks).flatten = outs.flatten.map readoutMsg := by
  rw [← p1RdAt_init, p1RdAt_feedAll _ r' chunks outs h, flatten_map_map]

/-- what the payload protocol takes from the readout delivered for a well-formed description -/
theorem goodPayload_expectedReadout (d : P1Spec.ReadoutDesc) (h : d.WF) :
    (readoutMsg (P1.expectedReadout d)).valid = true ∧
    goodPayload (readoutMsg (P1.expectedReadout d)) =
      (if d.payload.isEmpty then none else some d.payload) := by
  obtain ⟨_, hv, hp, _⟩ := Amshan.C04.valid_complete d h
  have hv' : (readoutMsg (P1.expectedReadout d)).valid = true := by
    unfold readoutMsg
    simp only [hv]
  refine ⟨hv', ?_⟩
  unfold goodPayload
  rw [hv']
  simp only [if_true]
  unfold readoutMsg
  simp only [hp]

/-! ### the payload queue of a single all-valid candidate whose stream is known -/

theorem single_candidate_stream {α : Type} (r : Rd) (chunks : List (List Nat)) (l : List α)
    (f : α → Msg) (g : α → Option (List Nat))
    (hstream : (r.feedAll chunks).flatten = l.map f)
    (hl : ∀ x ∈ l, (f x).valid = true ∧ goodPayload (f x) = g x) :
    (runAll Kind.payload (State.init [r]) chunks).2 = l.filterMap (fun x => (g x).map Item.payload) := by
  rw [Amshan.C13.single_candidate r chunks (by
    rw [hstream]
    intro m hm
    obtain ⟨x, hx, rfl⟩ := List.mem_map.mp hm
    exact (hl x hx).1), hstream]
  clear hstream
  induction l with
  | nil => rfl
  | cons x xs ih =>
    have hx := (hl x (List.mem_cons_self ..)).2
    have ih' := ih (fun y hy => hl y (List.mem_cons_of_mem _ hy))
    rw [List.map_cons, List.filterMap_cons, List.filterMap_cons, hx]
    cases g x with
    | none => exact ih'
    | some p => simp only [List.map_cons, Option.map_some, ih']

end Amshan.Proto
