import Amshan.Model.Obis
import Amshan.Spec.ObisText
/-
  Lemmas for C20: the deterministic OBIS matcher on well-formed text, and inversion of a
  successful parse.
-/
namespace Amshan.Obis
open Amshan.Py

/-! ### digit groups -/

/-- a captured digit group: at most three ASCII digits -/
def IsGroup (t : List Nat) : Prop := t.length ≤ 3 ∧ ∀ x ∈ t, Py.isDigit x = true

theorem specIsDigit_eq : Amshan.ObisSpec.isDigit = Py.isDigit := rfl

theorem digits03_group (t : List Nat) (h : IsGroup t) : digits03 t = (t, []) := by
  obtain ⟨hl, hd⟩ := h
  match t, hl, hd with
  | [], _, _ => rfl
  | [a], _, hd =>
    have ha := hd a (by simp)
    simp [digits03, ha]
  | [a, b], _, hd =>
    have ha := hd a (by simp)
    have hb := hd b (by simp)
    simp [digits03, ha, hb]
  | [a, b, c], _, hd =>
    have ha := hd a (by simp)
    have hb := hd b (by simp)
    have hc := hd c (by simp)
    simp [digits03, ha, hb, hc]
  | _ :: _ :: _ :: _ :: _, hl, _ => simp at hl

theorem digits03_group_cons (t : List Nat) (x : Nat) (r : List Nat) (h : IsGroup t)
    (hx : Py.isDigit x = false) : digits03 (t ++ x :: r) = (t, x :: r) := by
  obtain ⟨hl, hd⟩ := h
  match t, hl, hd with
  | [], _, _ =>
    match r with
    | [] => simp [digits03, hx]
    | [_] => simp [digits03, hx]
    | _ :: _ :: _ => simp [digits03, hx]
  | [a], _, hd =>
    have ha := hd a (by simp)
    match r with
    | [] => simp [digits03, ha, hx]
    | _ :: _ => simp [digits03, ha, hx]
  | [a, b], _, hd =>
    have ha := hd a (by simp)
    have hb := hd b (by simp)
    simp [digits03, ha, hb, hx]
  | [a, b, c], _, hd =>
    have ha := hd a (by simp)
    have hb := hd b (by simp)
    have hc := hd c (by simp)
    simp [digits03, ha, hb, hc]
  | _ :: _ :: _ :: _ :: _, hl, _ => simp at hl

theorem digitsThen_group_sep (t : List Nat) (c : Nat) (r : List Nat) (h : IsGroup t)
    (hc : Py.isDigit c = false) : digitsThen (t ++ c :: r) c = some (t, r) := by
  simp [digitsThen, digits03_group_cons t c r h hc]

theorem digitsThen_group_other (t : List Nat) (x c : Nat) (r : List Nat) (h : IsGroup t)
    (hx : Py.isDigit x = false) (hne : x ≠ c) : digitsThen (t ++ x :: r) c = none := by
  simp [digitsThen, digits03_group_cons t x r h hx, hne]

theorem digitsThen_group_end (t : List Nat) (c : Nat) (h : IsGroup t) :
    digitsThen t c = none := by
  simp [digitsThen, digits03_group t h]


/-! ### inversion of `digits03` / `digitsThen` -/

theorem digits03_spec (s : List Nat) :
    s = (digits03 s).1 ++ (digits03 s).2 ∧ IsGroup (digits03 s).1 := by
  fun_cases digits03 s <;> simp_all [IsGroup]

theorem digits03_inv {s d r : List Nat} (h : digits03 s = (d, r)) : s = d ++ r ∧ IsGroup d := by
  have := digits03_spec s
  rw [h] at this
  exact this

theorem digitsThen_inv {s d r : List Nat} {c : Nat} (h : digitsThen s c = some (d, r)) :
    s = d ++ c :: r ∧ IsGroup d := by
  unfold digitsThen at h
  split at h
  · rename_i d' x r' hd
    split at h
    · rename_i hx
      simp at hx h
      obtain ⟨rfl, rfl⟩ := h
      subst hx
      exact digits03_inv hd
    · simp at h
  · simp at h

/-! ### decimal text -/

open Amshan.ObisSpec (dec reduced standard hasDigitDotDigit optLe)

theorem dec_group (n : Nat) (h : n < 1000) : IsGroup (dec n) := by
  unfold dec IsGroup
  split
  · simp [Py.isDigit]; omega
  · split
    · simp [Py.isDigit]; omega
    · simp [Py.isDigit]; omega

theorem dec_ne_nil (n : Nat) : dec n ≠ [] := by
  unfold dec; split
  · simp
  · split <;> simp

theorem intOfDigits_dec (n : Nat) (h : n < 1000) : intOfDigits (dec n) = .ok n := by
  unfold dec
  split
  · simp [intOfDigits]
  · split
    · simp [intOfDigits]; omega
    · simp [intOfDigits]; omega

theorem optInt_dec (n : Nat) (h : n < 1000) : optInt (some (dec n)) = .ok (some n) := by
  have := dec_ne_nil n
  simp [optInt, intOfDigits_dec n h, Except.map, this]

theorem showNat_eq_dec (n : Nat) (h : n < 1000) : showNat n = dec n := by
  unfold showNat dec
  split
  · rfl
  · split
    · rfl
    · simp


/-! ### the matcher on well-formed text -/

/-- reduced form over arbitrary group texts -/
def redText (a b : Option (List Nat)) (c d : List Nat) (e f : Option (List Nat)) : List Nat :=
  (match a with | some a => a ++ [45] | none => []) ++
  (match b with | some b => b ++ [58] | none => []) ++
  c ++ [46] ++ d ++
  (match e with | some e => [46] ++ e | none => []) ++
  (match f with | some f => [42] ++ f | none => [])

/-- six-part form over arbitrary group texts -/
def stdText (a b c d e f : List Nat) : List Nat :=
  a ++ [46] ++ b ++ [46] ++ c ++ [46] ++ d ++ [46] ++ e ++ [46] ++ f

def OptGroup (x : Option (List Nat)) : Prop := match x with | some t => IsGroup t | none => True

@[simp] theorem isDigit_45 : Py.isDigit 45 = false := by decide
@[simp] theorem isDigit_58 : Py.isDigit 58 = false := by decide
@[simp] theorem isDigit_46 : Py.isDigit 46 = false := by decide
@[simp] theorem isDigit_42 : Py.isDigit 42 = false := by decide

theorem group_no_dot {t : List Nat} (h : IsGroup t) : List.count 46 t = 0 := by
  rw [List.count_eq_zero]
  intro hm
  have := h.2 46 hm
  simp at this

theorem digitsThen_count {s d r : List Nat} (h : digitsThen s 46 = some (d, r)) :
    List.count 46 s = List.count 46 r + 1 := by
  obtain ⟨rfl, hg⟩ := digitsThen_inv h
  simp [List.count_append, group_no_dot hg]

theorem matchStandard_inv {s : List Nat} {m : Match} (h : matchStandard s = some m) :
    ∃ a s1 b s2 c s3 d s4 e s5,
      digitsThen s 46 = some (a, s1) ∧ digitsThen s1 46 = some (b, s2) ∧
      digitsThen s2 46 = some (c, s3) ∧ digitsThen s3 46 = some (d, s4) ∧
      digitsThen s4 46 = some (e, s5) ∧
      m = { reduced := false, a := some a, b := some b, c := c, d := d, e := some e,
            f := some (digits03 s5).1 } := by
  simp only [matchStandard, Option.bind_eq_bind, Option.bind_eq_some_iff, Prod.exists,
    Option.pure_def, Option.some.injEq] at h
  obtain ⟨a, s1, h1, b, s2, h2, c, s3, h3, d, s4, h4, e, s5, h5, hm⟩ := h
  exact ⟨a, s1, b, s2, c, s3, d, s4, e, s5, h1, h2, h3, h4, h5, hm.symm⟩

/-- STANDARD needs five dots -/
theorem matchStandard_count {s : List Nat} {m : Match} (h : matchStandard s = some m) :
    5 ≤ List.count 46 s := by
  obtain ⟨a, s1, b, s2, c, s3, d, s4, e, s5, h1, h2, h3, h4, h5, _⟩ := matchStandard_inv h
  have c1 := digitsThen_count h1
  have c2 := digitsThen_count h2
  have c3 := digitsThen_count h3
  have c4 := digitsThen_count h4
  have c5 := digitsThen_count h5
  omega

theorem redText_count (a b : Option (List Nat)) (c d : List Nat) (e f : Option (List Nat))
    (ha : OptGroup a) (hb : OptGroup b) (hc : IsGroup c) (hd : IsGroup d) (he : OptGroup e)
    (hf : OptGroup f) : List.count 46 (redText a b c d e f) ≤ 2 := by
  cases a <;> cases b <;> cases e <;> cases f <;>
    simp [redText, OptGroup] at * <;>
    simp [group_no_dot, *]

theorem matchStandard_redText (a b : Option (List Nat)) (c d : List Nat) (e f : Option (List Nat))
    (ha : OptGroup a) (hb : OptGroup b) (hc : IsGroup c) (hd : IsGroup d) (he : OptGroup e)
    (hf : OptGroup f) : matchStandard (redText a b c d e f) = none := by
  cases h : matchStandard (redText a b c d e f) with
  | none => rfl
  | some m =>
    have := matchStandard_count h
    have := redText_count a b c d e f ha hb hc hd he hf
    omega



theorem matchReduced_redText (a b : Option (List Nat)) (c d : List Nat) (e f : Option (List Nat))
    (ha : OptGroup a) (hb : OptGroup b) (hc : IsGroup c) (hd : IsGroup d) (he : OptGroup e)
    (hf : OptGroup f) :
    matchReduced (redText a b c d e f) =
      some { reduced := true, a := a, b := b, c := c, d := d, e := e, f := f } := by
  cases a <;> cases b <;> cases e <;> cases f <;>
    simp only [OptGroup] at ha hb he hf <;>
    simp [redText, matchReduced, digitsThen_group_sep, digitsThen_group_other,
      digits03_group_cons, digits03_group, *]

theorem reMatch_redText (a b : Option (List Nat)) (c d : List Nat) (e f : Option (List Nat))
    (ha : OptGroup a) (hb : OptGroup b) (hc : IsGroup c) (hd : IsGroup d) (he : OptGroup e)
    (hf : OptGroup f) :
    reMatch (redText a b c d e f) =
      some { reduced := true, a := a, b := b, c := c, d := d, e := e, f := f } := by
  simp [reMatch, matchStandard_redText a b c d e f ha hb hc hd he hf,
    matchReduced_redText a b c d e f ha hb hc hd he hf]

theorem matchStandard_stdText (a b c d e f : List Nat)
    (ha : IsGroup a) (hb : IsGroup b) (hc : IsGroup c) (hd : IsGroup d) (he : IsGroup e)
    (hf : IsGroup f) :
    matchStandard (stdText a b c d e f) =
      some { reduced := false, a := some a, b := some b, c := c, d := d, e := some e,
             f := some f } := by
  simp [stdText, matchStandard, digitsThen_group_sep, digits03_group, *]


/-! ### `parse` on well-formed text -/

theorem reduced_eq_redText (a b : Option Nat) (c d : Nat) (e f : Option Nat) :
    reduced a b c d e f =
      redText (a.map dec) (b.map dec) (dec c) (dec d) (e.map dec) (f.map dec) := by
  cases a <;> cases b <;> cases e <;> cases f <;> rfl

theorem standard_eq_stdText (a b c d e f : Nat) :
    standard a b c d e f = stdText (dec a) (dec b) (dec c) (dec d) (dec e) (dec f) := rfl

theorem optGroup_map_dec (x : Option Nat) (h : optLe x 255) : OptGroup (x.map dec) := by
  cases x with
  | none => trivial
  | some v =>
    simp only [optLe] at h
    exact dec_group v (by omega)

theorem optInt_map_dec (x : Option Nat) (h : optLe x 255) : optInt (x.map dec) = .ok x := by
  cases x with
  | none => rfl
  | some v =>
    simp only [optLe] at h
    exact optInt_dec v (by omega)

theorem parse_redText_dec (a b : Option Nat) (c d : Nat) (e f : Option Nat)
    (ha : optLe a 255) (hb : optLe b 255) (hc : c ≤ 255) (hd : d ≤ 255) (he : optLe e 255)
    (hf : optLe f 255) :
    parse (reduced a b c d e f) = .ok (a, b, c, d, e, f) := by
  rw [reduced_eq_redText]
  unfold parse
  rw [reMatch_redText _ _ _ _ _ _ (optGroup_map_dec a ha) (optGroup_map_dec b hb)
    (dec_group c (by omega)) (dec_group d (by omega)) (optGroup_map_dec e he)
    (optGroup_map_dec f hf)]
  simp only [optInt_map_dec, intOfDigits_dec c (by omega), intOfDigits_dec d (by omega), ha, hb,
    he, hf, bind, Except.bind, pure, Except.pure, if_true]

theorem parse_stdText_dec (a b c d e f : Nat) (ha : a ≤ 255) (hb : b ≤ 255) (hc : c ≤ 255)
    (hd : d ≤ 255) (he : e ≤ 255) (hf : f ≤ 255) :
    parse (standard a b c d e f) = .ok (some a, some b, c, d, some e, some f) := by
  rw [standard_eq_stdText]
  unfold parse reMatch
  rw [matchStandard_stdText _ _ _ _ _ _ (dec_group a (by omega)) (dec_group b (by omega))
    (dec_group c (by omega)) (dec_group d (by omega)) (dec_group e (by omega))
    (dec_group f (by omega))]
  simp [optInt_dec f (by omega), intOfDigits_dec a (by omega), intOfDigits_dec b (by omega),
    intOfDigits_dec c (by omega), intOfDigits_dec d (by omega), intOfDigits_dec e (by omega),
    bind, Except.bind, pure, Except.pure]


/-! ### only ValueError -/

/-- a computation whose only possible exception is ValueError -/
def OnlyVE {α : Type} (x : Except PyExc α) : Prop := ∀ e, x = .error e → e = .valueError

theorem onlyVE_pure {α : Type} (a : α) : OnlyVE (pure a : Except PyExc α) := by
  intro e h; cases h

theorem onlyVE_bind {α β : Type} (x : Except PyExc α) (f : α → Except PyExc β)
    (hx : OnlyVE x) (hf : ∀ a, OnlyVE (f a)) : OnlyVE (x >>= f) := by
  intro e h
  cases x with
  | error e' =>
    simp only [bind, Except.bind] at h
    cases h
    exact hx _ rfl
  | ok a => exact hf a e h

theorem onlyVE_intOfDigits (t : List Nat) : OnlyVE (intOfDigits t) := by
  intro e h
  unfold intOfDigits at h
  split at h
  · cases h; rfl
  · cases h

theorem onlyVE_optInt (g : Option (List Nat)) : OnlyVE (optInt g) := by
  intro e h
  unfold optInt at h
  split at h
  · cases h
  · split at h
    · cases h
    · rename_i t _
      cases ht : intOfDigits t with
      | error e' =>
        rw [ht] at h
        simp only [Except.map] at h
        cases h
        exact onlyVE_intOfDigits t _ ht
      | ok v =>
        rw [ht] at h
        simp only [Except.map] at h
        cases h

theorem onlyVE_parse (s : List Nat) : OnlyVE (parse s) := by
  unfold parse
  split
  · intro e h; cases h; rfl
  · split
    · repeat (first
        | exact onlyVE_pure _
        | (refine onlyVE_bind _ _ (onlyVE_optInt _) ?_; intro _)
        | (refine onlyVE_bind _ _ (onlyVE_intOfDigits _) ?_; intro _))
    · repeat (first
        | exact onlyVE_pure _
        | (refine onlyVE_bind _ _ (onlyVE_optInt _) ?_; intro _)
        | (refine onlyVE_bind _ _ (onlyVE_intOfDigits _) ?_; intro _))

/-! ### a successful parse contains digit-dot-digit -/

theorem hasDDD_cons (p : Nat) (l : List Nat) (h : hasDigitDotDigit l = true) :
    hasDigitDotDigit (p :: l) = true := by
  match l, h with
  | [], h => simp [hasDigitDotDigit] at h
  | [_], h => simp [hasDigitDotDigit] at h
  | _ :: _ :: _, h => simp [hasDigitDotDigit, h]

theorem hasDDD_mid (pre post : List Nat) (x y : Nat) (hx : Py.isDigit x = true)
    (hy : Py.isDigit y = true) : hasDigitDotDigit (pre ++ x :: 46 :: y :: post) = true := by
  induction pre with
  | nil => simp [hasDigitDotDigit, specIsDigit_eq, hx, hy]
  | cons p pre ih => exact hasDDD_cons p _ ih

theorem hasDDD_groups (pre c d post : List Nat) (hc : IsGroup c) (hd : IsGroup d)
    (hcn : c ≠ []) (hdn : d ≠ []) :
    hasDigitDotDigit (pre ++ c ++ 46 :: d ++ post) = true := by
  obtain ⟨y, d', rfl⟩ := List.exists_cons_of_ne_nil hdn
  have hx := hc.2 (c.getLast hcn) (List.getLast_mem hcn)
  have hy := hd.2 y (by simp)
  have hsplit := List.dropLast_concat_getLast hcn
  have : pre ++ c ++ 46 :: (y :: d') ++ post
      = (pre ++ c.dropLast) ++ c.getLast hcn :: 46 :: y :: (d' ++ post) := by
    conv => lhs; rw [← hsplit]
    simp
  rw [this]
  exact hasDDD_mid _ _ _ _ hx hy

theorem intOfDigits_ok_ne_nil {t : List Nat} {v : Nat} (h : intOfDigits t = .ok v) : t ≠ [] := by
  intro ht
  subst ht
  simp [intOfDigits] at h

/-- optional prefix `\d{0,3}c` -/
def stripPre (s : List Nat) (c : Nat) : Option (List Nat) × List Nat :=
  match digitsThen s c with
  | some (a, r) => (some a, r)
  | none => (none, s)

/-- the mandatory part of REDUCED -/
def matchCore (a b : Option (List Nat)) (s : List Nat) : Option Match :=
  match digitsThen s 46 with
  | none => none
  | some (c, s) =>
    let (d, s) := digits03 s
    let (e, s) := match s with
      | 46 :: r => let (e, r') := digits03 r; (some e, r')
      | _ => (none, s)
    let f := match s with
      | 42 :: r => some (digits03 r).1
      | _ => none
    some { reduced := true, a := a, b := b, c := c, d := d, e := e, f := f }

theorem matchReduced_eq (s : List Nat) :
    matchReduced s = matchCore (stripPre s 45).1 (stripPre (stripPre s 45).2 58).1
      (stripPre (stripPre s 45).2 58).2 := rfl

theorem stripPre_suffix (s : List Nat) (c : Nat) : ∃ pre, s = pre ++ (stripPre s c).2 := by
  unfold stripPre
  split
  · rename_i a r h
    obtain ⟨hs, _⟩ := digitsThen_inv h
    exact ⟨a ++ [c], by simp [hs]⟩
  · exact ⟨[], rfl⟩

theorem matchCore_inv {a b : Option (List Nat)} {s : List Nat} {m : Match}
    (h : matchCore a b s = some m) :
    ∃ post, s = m.c ++ 46 :: m.d ++ post ∧ IsGroup m.c ∧ IsGroup m.d ∧ m.reduced = true := by
  unfold matchCore at h
  split at h
  · cases h
  · rename_i c s' hc
    obtain ⟨hs, hgc⟩ := digitsThen_inv hc
    have hd := digits03_spec s'
    simp only [Option.some.injEq] at h
    subst h
    refine ⟨(digits03 s').2, ?_, hgc, hd.2, rfl⟩
    simp only [List.cons_append, List.append_assoc]
    rw [← hd.1]
    exact hs

theorem matchReduced_inv {s : List Nat} {m : Match} (h : matchReduced s = some m) :
    ∃ pre post, s = pre ++ m.c ++ 46 :: m.d ++ post ∧ IsGroup m.c ∧ IsGroup m.d ∧
      m.reduced = true := by
  rw [matchReduced_eq] at h
  obtain ⟨post, hs, hc, hd, hr⟩ := matchCore_inv h
  obtain ⟨p1, h1⟩ := stripPre_suffix s 45
  obtain ⟨p2, h2⟩ := stripPre_suffix (stripPre s 45).2 58
  refine ⟨p1 ++ p2, post, ?_, hc, hd, hr⟩
  rw [h1, h2, hs]
  simp

theorem parse_ok_inv {s : List Nat} {g : Groups} (h : parse s = .ok g) :
    ∃ m, reMatch s = some m ∧ m.c ≠ [] ∧ m.d ≠ [] ∧
      (m.reduced = false → m.a.getD [] ≠ [] ∧ m.b.getD [] ≠ []) := by
  unfold parse at h
  split at h
  · cases h
  · rename_i m hm
    refine ⟨m, hm, ?_⟩
    split at h
    · rename_i hr
      cases h1 : optInt m.a <;> cases h2 : optInt m.b <;> cases h3 : intOfDigits m.c <;>
        cases h4 : intOfDigits m.d <;> simp [h1, h2, h3, h4, bind, Except.bind] at h
      exact ⟨intOfDigits_ok_ne_nil h3, intOfDigits_ok_ne_nil h4, by simp [hr]⟩
    · cases h1 : intOfDigits (m.a.getD []) <;> cases h2 : intOfDigits (m.b.getD []) <;>
        cases h3 : intOfDigits m.c <;> cases h4 : intOfDigits m.d <;>
        simp [h1, h2, h3, h4, bind, Except.bind] at h
      exact ⟨intOfDigits_ok_ne_nil h3, intOfDigits_ok_ne_nil h4,
        fun _ => ⟨intOfDigits_ok_ne_nil h1, intOfDigits_ok_ne_nil h2⟩⟩

theorem parse_ok_hasDDD {s : List Nat} {g : Groups} (h : parse s = .ok g) :
    hasDigitDotDigit s = true := by
  obtain ⟨m, hm, hcn, hdn, hab⟩ := parse_ok_inv h
  unfold reMatch at hm
  split at hm
  · rename_i m' hst
    simp only [Option.some.injEq] at hm
    subst hm
    obtain ⟨a, s1, b, s2, c, s3, d, s4, e, s5, h1, h2, _, _, _, rfl⟩ := matchStandard_inv hst
    obtain ⟨hs, hga⟩ := digitsThen_inv h1
    obtain ⟨hs1, hgb⟩ := digitsThen_inv h2
    obtain ⟨han, hbn⟩ := hab rfl
    have := hasDDD_groups [] a b (46 :: s2) hga hgb han hbn
    rw [hs, hs1]
    simpa using this
  · obtain ⟨pre, post, hs, hc, hd, _⟩ := matchReduced_inv hm
    rw [hs]
    exact hasDDD_groups pre m.c m.d post hc hd hcn hdn

end Amshan.Obis
