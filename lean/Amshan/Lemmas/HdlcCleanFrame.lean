import Amshan.Lemmas.HdlcCleanCore
/-
  Clean-stream lemmas, part 2: facts about the encoding of a well-formed frame (`FrameDesc.encode`)
  and about the frame object the reader has built after reading a prefix of it.
-/
namespace Amshan.HdlcClean
open Amshan.Gen Amshan.Hdlc Amshan.HdlcSpec Amshan.Rfc1662

/-! ### lengths and octets -/

theorem head_length (d : FrameDesc) : d.head.length = d.headLen := by
  simp only [FrameDesc.head, FrameDesc.headLen, List.length_append, List.length_cons, List.length_nil]

theorem fcsLE_length (bs : List Nat) : (fcsLE bs).length = 2 := rfl

theorem encode_length (d : FrameDesc) : d.encode.length = d.totalLen := by
  simp only [FrameDesc.encode, FrameDesc.totalLen]
  split
  · simp only [List.length_append, head_length, fcsLE_length]
  · simp only [List.length_append, head_length, fcsLE_length]; omega

theorem format_lt (d : FrameDesc) (h : d.WF) : d.format < 65536 := by
  obtain ⟨h1, _, _, _, _, _, _, h8⟩ := h
  unfold FrameDesc.format
  split <;> omega

theorem fcs16_lt (bs : List Nat) (h : Octets bs) : fcs16 bs < 65536 := by
  unfold fcs16
  rw [← Amshan.C03.update_eq bs h]
  exact Nat.xor_lt_two_pow (n := 16) (Amshan.FcsLemmas.feed_lt _ _ (by decide) h) (by decide)

theorem Octets_fcsLE (bs : List Nat) (h : Octets bs) : Octets (fcsLE bs) := by
  have := fcs16_lt bs h
  intro x hx
  simp only [fcsLE, List.mem_cons, List.mem_nil_iff, or_false] at hx
  rcases hx with hx | hx <;> omega

theorem Octets_head (d : FrameDesc) (h : d.WF) : Octets d.head := by
  have hf := format_lt d h
  obtain ⟨_, _, _, h4, h5, h6, _, _⟩ := h
  unfold FrameDesc.head
  rw [Octets_append, Octets_append, Octets_append]
  refine ⟨⟨⟨?_, h5⟩, h6⟩, ?_⟩
  · intro x hx
    simp only [List.mem_cons, List.mem_nil_iff, or_false] at hx
    rcases hx with hx | hx <;> omega
  · intro x hx
    simp only [List.mem_cons, List.mem_nil_iff, or_false] at hx
    omega

theorem Octets_encode (d : FrameDesc) (h : d.WF) : Octets d.encode := by
  have hh := Octets_head d h
  have h1 : Octets (d.head ++ fcsLE d.head) := Octets_append.mpr ⟨hh, Octets_fcsLE _ hh⟩
  have hi : Octets d.info := h.2.2.2.2.2.2.1
  simp only [FrameDesc.encode]
  split
  · exact h1
  · have h2 : Octets (d.head ++ fcsLE d.head ++ d.info) := Octets_append.mpr ⟨h1, hi⟩
    exact Octets_append.mpr ⟨h2, Octets_fcsLE _ h2⟩

/-- the encoding starts with the header and its check sequence -/
theorem encode_split (d : FrameDesc) : ∃ t, d.encode = d.head ++ (fcsLE d.head ++ t) := by
  simp only [FrameDesc.encode]
  split
  · exact ⟨[], by simp⟩
  · exact ⟨d.info ++ fcsLE (d.head ++ fcsLE d.head ++ d.info), by simp⟩

/-- the encoding ends with the FCS of everything before it -/
theorem encode_trailer (d : FrameDesc) : ∃ m, d.encode = m ++ fcsLE m ∧ (d.WF → Octets m) := by
  simp only [FrameDesc.encode]
  split
  · exact ⟨d.head, rfl, Octets_head d⟩
  · refine ⟨d.head ++ fcsLE d.head ++ d.info, rfl, ?_⟩
    intro h
    have hh := Octets_head d h
    exact Octets_append.mpr ⟨Octets_append.mpr ⟨hh, Octets_fcsLE _ hh⟩, h.2.2.2.2.2.2.1⟩

theorem feed_encode (d : FrameDesc) (h : d.WF) : Fcs.feed fcsInit d.encode = fcsGood := by
  obtain ⟨m, e, hm⟩ := encode_trailer d
  have hm := hm h
  have hl := fcs16_lt m hm
  have := (Amshan.C03.residue m (fcs16 m % 256) (fcs16 m / 256) hm (by omega) (by omega)).mpr ⟨rfl, rfl⟩
  rw [e]
  simp only [Fcs.isGood, beq_iff_eq] at this
  exact this.symm

/-! ### prefixes of the encoding -/

theorem prefix_split {α : Type} (p r a b : List α) (e : p ++ r = a ++ b) (hl : a.length ≤ p.length) :
    ∃ p', p = a ++ p' := by
  rcases List.append_eq_append_iff.mp e with ⟨as, h1, _⟩ | ⟨bs, h1, _⟩
  · have : as = [] := by
      have := congrArg List.length h1
      simp only [List.length_append] at this
      exact List.length_eq_zero_iff.mp (by omega)
    subst this
    exact ⟨[], by simpa using h1.symm⟩
  · exact ⟨bs, h1⟩

theorem controlPos_prefix (d : FrameDesc) (h : d.WF) (p r : List Nat) (e : p ++ r = d.encode)
    (hl : d.headLen ≤ p.length) : controlPos p = some (d.headLen - 1) := by
  obtain ⟨t, ht⟩ := encode_split d
  rw [ht] at e
  obtain ⟨p', hp'⟩ := prefix_split p r _ _ e (by rw [head_length]; exact hl)
  rw [hp']
  unfold FrameDesc.head
  have := controlPos_of_shape (d.format / 256) (d.format % 256) d.dst d.src ([d.ctl] ++ p') h.2.1 h.2.2.1
  simp only [List.append_assoc] at this ⊢
  rw [this]
  simp only [FrameDesc.headLen]
  congr 1

theorem hcs_isSome_of (f : Frame) (k : Nat) (hc : f.ctlPos = some k) (hl : k + 2 < f.len) :
    f.hcs.isSome = true := by
  unfold Frame.hcs
  simp only [hc]
  rw [if_pos hl]
  have h1 : k + 1 < f.data.length := by unfold Frame.len at hl; omega
  have h2 : k + 2 < f.data.length := by unfold Frame.len at hl; omega
  rw [List.getElem?_eq_getElem h1, List.getElem?_eq_getElem h2]
  rfl

theorem hcs_prefix (d : FrameDesc) (h : d.WF) (p r : List Nat) (e : p ++ r = d.encode)
    (hl : d.headLen + 2 ≤ p.length) : (mk p).hcs.isSome = true := by
  have hp : Octets p := (Octets_append.mp (e ▸ Octets_encode d h)).1
  apply hcs_isSome_of (mk p) (d.headLen - 1)
  · rw [mk_ctlPos p hp]; exact controlPos_prefix d h p r e (by omega)
  · rw [mk_len]; unfold FrameDesc.headLen at *; omega

theorem shl8_or (a b : Nat) (hb : b < 256) : (a <<< 8) ||| b = a * 256 + b := by
  rw [← Nat.shiftLeft_add_eq_or_of_lt (i := 8) (by simpa using hb), Nat.shiftLeft_eq]

theorem frameFormat_cons (f : Frame) (a b : Nat) (t : List Nat) (hd : f.data = a :: b :: t) :
    f.frameFormat = some ((a <<< 8) ||| b) := by
  unfold Frame.frameFormat; rw [hd]

theorem format_bytes (d : FrameDesc) : ((d.format / 256) <<< 8) ||| (d.format % 256) = d.format := by
  rw [shl8_or _ _ (Nat.mod_lt _ (by decide))]; omega

theorem frameFormat_prefix (d : FrameDesc) (p r : List Nat) (e : p ++ r = d.encode)
    (hl : 2 ≤ p.length) : (mk p).frameFormat = some d.format := by
  obtain ⟨t, ht⟩ := encode_split d
  rw [ht] at e
  unfold FrameDesc.head at e
  simp only [List.append_assoc, List.cons_append, List.nil_append] at e
  obtain ⟨p', hp'⟩ := prefix_split p r [d.format / 256, d.format % 256] _ e (by simpa using hl)
  rw [frameFormat_cons (mk p) (d.format / 256) (d.format % 256) p' (by rw [mk_data, hp']; rfl),
    format_bytes]

theorem format_length (d : FrameDesc) (h : d.WF) : d.format &&& 0x7FF = d.totalLen := by
  have : (0x7FF : Nat) = 2 ^ 11 - 1 := rfl
  rw [this, Nat.and_two_pow_sub_one_eq_mod]
  have := h.2.2.2.2.2.2.2
  unfold FrameDesc.format
  split <;> omega

theorem format_type (d : FrameDesc) (h : d.WF) : (d.format >>> 12) &&& 0xF = d.fmt := by
  have : (0xF : Nat) = 2 ^ 4 - 1 := rfl
  rw [this, Nat.and_two_pow_sub_one_eq_mod, Nat.shiftRight_eq_div_pow]
  have := h.2.2.2.2.2.2.2
  have := h.1
  unfold FrameDesc.format
  split <;> omega

theorem format_seg (d : FrameDesc) (h : d.WF) : (((d.format >>> 11) &&& 1) == 1) = d.seg := by
  have : (1 : Nat) = 2 ^ 1 - 1 := rfl
  rw [this, Nat.and_two_pow_sub_one_eq_mod, Nat.shiftRight_eq_div_pow]
  have := h.2.2.2.2.2.2.2
  unfold FrameDesc.format
  cases hs : d.seg
  · simp only [Bool.false_eq_true, if_false]
    apply beq_false_of_ne; omega
  · simp only [if_true, beq_iff_eq]; omega

theorem frameLength_prefix (d : FrameDesc) (h : d.WF) (p r : List Nat) (e : p ++ r = d.encode)
    (hl : 2 ≤ p.length) : (mk p).frameLength = some d.totalLen := by
  unfold Frame.frameLength
  rw [frameFormat_prefix d p r e hl, Option.map_some, format_length d h]

theorem isExpectedLength_prefix (d : FrameDesc) (h : d.WF) (p r : List Nat) (e : p ++ r = d.encode)
    (hl : 2 ≤ p.length) : (mk p).isExpectedLength = decide (d.totalLen = p.length) := by
  unfold Frame.isExpectedLength
  rw [frameLength_prefix d h p r e hl, mk_len]
  by_cases hh : d.totalLen = p.length <;> simp [hh]

theorem headLen_ge (d : FrameDesc) : 3 ≤ d.headLen := by unfold FrameDesc.headLen; omega

theorem totalLen_ge (d : FrameDesc) : d.headLen + 2 ≤ d.totalLen := by unfold FrameDesc.totalLen; omega

/-! ### the complete frame -/

theorem expectedFrame_eq (d : FrameDesc) (h : d.WF) : expectedFrame d = mk d.encode := by
  have ho := Octets_encode d h
  have h1 := mk_data d.encode
  have h2 : (mk d.encode).crc = fcsGood := by rw [mk_crc _ ho, feed_encode d h]
  have h3 : (mk d.encode).ctlPos = some (d.headLen - 1) := by
    rw [mk_ctlPos _ ho]
    exact controlPos_prefix d h d.encode [] (by simp) (by rw [encode_length]; have := totalLen_ge d; omega)
  unfold expectedFrame
  generalize mk d.encode = g at h1 h2 h3
  cases g
  simp only at h1 h2 h3
  subst h1 h2 h3
  rfl

end Amshan.HdlcClean
