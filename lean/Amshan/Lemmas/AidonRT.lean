import Amshan.Lemmas.CosemDT
import Amshan.Model.Aidon
/-
  Lemmas for C07: Aidon push lists round-trip through the decoder model.
-/
namespace Amshan.AidonRT
open Amshan.Gen Amshan.Cosem Amshan.ListSpec Amshan.CosemDT

/-! ### integer codecs -/
theorem u32_be32 (v : Nat) (h : v < 4294967296) (r : List Nat) : u32 (be32 v ++ r) = .ok v r := by
  simp only [be32, List.cons_append, List.nil_append, u32]
  congr 1; omega

theorem u16_be16 (v : Nat) (h : v < 65536) (r : List Nat) : u16 (be16 v ++ r) = .ok v r := by
  simp only [be16, List.cons_append, List.nil_append, u16]
  congr 1; omega

theorem twos16_lt (v : Int) (h : -32768 ≤ v ∧ v < 32768) : twos16 v < 65536 := by
  unfold twos16; split <;> omega

theorem s16_be16 (v : Int) (h : -32768 ≤ v ∧ v < 32768) (r : List Nat) :
    s16 (be16 (twos16 v) ++ r) = .ok v r := by
  unfold s16
  rw [u16_be16 _ (twos16_lt v h), bind_ok]
  congr 1
  unfold twos16
  split <;> split <;> omega

theorem s8_twos8 (sc : Int) (h : -128 ≤ sc ∧ sc ≤ 127) (r : List Nat) :
    s8 (twos8 sc :: r) = .ok sc r := by
  unfold s8
  rw [u8_cons, bind_ok]
  congr 1
  unfold twos8
  split <;> split <;> omega

/-! ### OBIS octet string, visible string -/
theorem obisField_enc (o : List Nat) (h : o.length = 6) (rest : List Nat) :
    obisField (9 :: 6 :: (o ++ rest)) = .ok o rest := by
  unfold obisField
  simp only [tOctet_eq, constByte_cons, bind_ok, takeN_append 6 o rest h]

theorem isAscii_of_printable (s : List Nat) (h : ascii7 s) : isAsciiOctets s = true := by
  unfold isAsciiOctets
  rw [List.all_eq_true]
  intro c hc
  have := h c hc
  simp only [decide_eq_true_eq]; omega

theorem visibleString_enc (s : List Nat) (h : ascii7 s) (rest : List Nat) :
    visibleString (s.length :: (s ++ rest)) = .ok s rest := by
  unfold visibleString
  simp only [u8_cons, bind_ok, takeN_append s.length s rest rfl, isAscii_of_printable s h, if_true]

theorem scalerUnit_enc (sc : Int) (h : -128 ≤ sc ∧ sc ≤ 127) (u : Nat) (rest : List Nat) :
    Aidon.scalerUnit (2 :: 2 :: 15 :: twos8 sc :: 22 :: u :: rest) = .ok sc rest := by
  unfold Aidon.scalerUnit
  simp only [tStructure_eq, tInt8_eq, tEnum_eq, constByte_cons, bind_ok, s8_twos8 sc h, u8_cons]

/-! ### elements -/
def toModel : AidonElem → Aidon.Element
  | .text o s => ⟨o, .str s⟩
  | .clock o d => ⟨o, .dt (expectedDT d)⟩
  | .reg o _ v sc _ => ⟨o, .num (some v) sc⟩

theorem element_enc (e : AidonElem) (h : e.WF) (rest : List Nat) :
    Aidon.element (encAidonElem e ++ rest) = .ok (toModel e) rest := by
  cases e with
  | text o s =>
    obtain ⟨⟨ho, _⟩, hp, _⟩ := h
    simp only [encAidonElem, encObis, List.append_assoc, List.cons_append, List.nil_append]
    unfold Aidon.element
    simp only [tStructure_eq, constByte_cons, bind_ok, u8_cons, obisField_enc o ho, tVisible_eq,
      if_true, visibleString_enc s hp, toModel]
  | clock o d =>
    obtain ⟨⟨ho, _⟩, hd⟩ := h
    simp only [encAidonElem, encObis, List.append_assoc, List.cons_append, List.nil_append]
    unfold Aidon.element
    simp only [tStructure_eq, constByte_cons, bind_ok, u8_cons, obisField_enc o ho, tVisible_eq,
      tOctet_eq, datetime_exact d hd, toModel]
    simp
  | reg o ty v sc u =>
    obtain ⟨⟨ho, _⟩, hr, hs1, hs2, _⟩ := h
    cases ty with
    | u32 =>
      obtain ⟨hr1, hr2⟩ := hr
      have hv : ((v.toNat : Nat) : Int) = v := by omega
      simp only [encAidonElem, encObis, encReg, List.append_assoc, List.cons_append, List.nil_append]
      unfold Aidon.element
      simp only [tStructure_eq, constByte_cons, bind_ok, u8_cons, obisField_enc o ho, tVisible_eq,
        tOctet_eq, tU32_eq, u32_be32 v.toNat (by omega), toModel, hv]
      simp [scalerUnit_enc sc ⟨hs1, hs2⟩]
    | s16 =>
      simp only [encAidonElem, encObis, encReg, List.append_assoc, List.cons_append, List.nil_append]
      unfold Aidon.element
      simp only [tStructure_eq, constByte_cons, bind_ok, u8_cons, obisField_enc o ho, tVisible_eq,
        tOctet_eq, tU32_eq, tInt16_eq, s16_be16 v hr, toModel]
      simp [scalerUnit_enc sc ⟨hs1, hs2⟩]
    | u16 =>
      obtain ⟨hr1, hr2⟩ := hr
      have hv : ((v.toNat : Nat) : Int) = v := by omega
      simp only [encAidonElem, encObis, encReg, List.append_assoc, List.cons_append, List.nil_append]
      unfold Aidon.element
      simp only [tStructure_eq, constByte_cons, bind_ok, u8_cons, obisField_enc o ho, tVisible_eq,
        tOctet_eq, tU32_eq, tInt16_eq, tU16_eq, u16_be16 v.toNat (by omega),
        toModel, hv]
      simp [scalerUnit_enc sc ⟨hs1, hs2⟩]

theorem elements_enc (es : List AidonElem) (h : ∀ e ∈ es, e.WF) (trail : List Nat) :
    Aidon.elements es.length (es.flatMap encAidonElem ++ trail) = .ok (es.map toModel) trail := by
  induction es with
  | nil => rfl
  | cons e es ih =>
    have he := h e (List.mem_cons_self ..)
    have ih' := ih (fun x hx => h x (List.mem_cons_of_mem _ hx))
    simp only [List.length_cons, List.flatMap_cons, List.append_assoc, List.map_cons]
    unfold Aidon.elements
    simp only [element_enc e he, bind_ok, ih']

theorem notificationBody_enc (es : List AidonElem) (h : ∀ e ∈ es, e.WF) (trail : List Nat) :
    Aidon.notificationBody (encAidonBody es ++ trail) = .ok (es.map toModel) trail := by
  unfold Aidon.notificationBody encAidonBody
  simp only [List.cons_append, List.nil_append, tArray_eq, constByte_cons, bind_ok,
    u8_cons, elements_enc es h trail]

/-! ### normalisation -/
theorem numVal_eq (v sc : Int) : Aidon.numVal v sc = scaledValue v sc := rfl

theorem normalize_toModel (es : List AidonElem) : Aidon.normalize (es.map toModel) = aidonExpected es := by
  unfold Aidon.normalize aidonExpected
  rw [List.foldl_map]
  have e0 : field_METER_MANUFACTURER = "meter_manufacturer" := by decide
  rw [e0]
  congr 1
  funext d el
  cases el <;> rfl

theorem decodeBody_enc (es : List AidonElem) (h : ∀ e ∈ es, e.WF) (trail : List Nat) :
    Aidon.decodeBody (encAidonBody es ++ trail) = .dict (aidonExpected es) := by
  unfold Aidon.decodeBody
  rw [notificationBody_enc es h trail, bind_ok, normalize_toModel]
  rfl

theorem decodeFrame_enc (hd : Header) (hh : hd.WF) (es : List AidonElem) (h : ∀ e ∈ es, e.WF)
    (trail : List Nat) :
    Aidon.decodeFrame (encHeader hd ++ encAidonBody es ++ trail) = .dict (aidonExpected es) := by
  unfold Aidon.decodeFrame
  rw [List.append_assoc, llc_clock hd hh, notificationBody_enc es h trail, bind_ok, bind_ok,
    normalize_toModel]
  rfl

theorem scaled_int_iff (v sc : Int) : (∃ z, scaledValue v sc = .int z) ↔ (sc = 0 ∨ v = 0) := by
  unfold scaledValue
  constructor
  · intro ⟨z, hz⟩
    by_cases h : sc = 0 ∨ v = 0
    · exact h
    · rw [if_neg h] at hz
      split at hz <;> cases hz
  · intro h
    exact ⟨v, by rw [if_pos h]⟩

end Amshan.AidonRT
