import Amshan.Lemmas.FloatBoundOfRat
/-
  Error bounds for the exact binary64 model (Model/Float.lean): multiplication, truncation and
  the two derived facts used by C08/C09/C11 (`scaled_correct_gen`, `kilo_unit_bound_gen`).
  (Base facts: FloatBoundBase.lean — `val`, `sd_floor`, `round_spec`;
   FloatBoundOfRat.lean — `ofRat_struct`, `ofRat_spec`, `ofRat_nat_exact`.)
-/
namespace Amshan.Flt

/-! ### multiplication -/

theorem mul_fin_eq (a b : Bool) (m1 m2 : Nat) (e1 e2 : Int) :
    ∃ N D : Nat, mul (.fin a m1 e1) (.fin b m2 e2) = ofRat (a != b) N D ∧ 0 < D ∧
      (N : ℚ) / D = (m1 : ℚ) * (2 : ℚ) ^ e1 * ((m2 : ℚ) * (2 : ℚ) ^ e2) ∧
      (0 < m1 → 0 < m2 → 0 < N) := by
  have h2 : (2 : ℚ) ≠ 0 := by norm_num
  have hsplit : (m1 : ℚ) * (2 : ℚ) ^ e1 * ((m2 : ℚ) * (2 : ℚ) ^ e2)
      = (m1 : ℚ) * m2 * (2 : ℚ) ^ (e1 + e2) := by
    rw [zpow_add₀ h2]; ring
  rw [hsplit]
  by_cases h : e1 + e2 ≥ 0
  · obtain ⟨k, hk⟩ := Int.eq_ofNat_of_zero_le h
    refine ⟨m1 * m2 * 2 ^ k, 1, ?_, Nat.one_pos, ?_, ?_⟩
    · simp only [mul]; rw [if_pos h, hk]; rfl
    · rw [hk, zpow_natCast]; push_cast; ring
    · intro h1 h2; positivity
  · have h' : e1 + e2 ≤ 0 := by omega
    obtain ⟨k, hk⟩ := Int.exists_eq_neg_ofNat h'
    refine ⟨m1 * m2, 2 ^ k, ?_, by positivity, ?_, ?_⟩
    · simp only [mul]; rw [if_neg h, hk]; simp
    · rw [hk, zpow_neg, zpow_natCast]; push_cast; ring
    · intro h1 h2; positivity

/-- **relative error of `mul`** on positive finite floats whose exact product lies in the normal
    range -/
theorem mul_spec (m1 m2 : Nat) (e1 e2 : Int) (h1 : 0 < m1) (h2 : 0 < m2) (P : ℚ)
    (hP : P = (m1 : ℚ) * (2 : ℚ) ^ e1 * ((m2 : ℚ) * (2 : ℚ) ^ e2))
    (hlo : (1 : ℚ) / 2 ^ 200 ≤ P) (hhi : P ≤ 2 ^ 200) :
    ∃ (m : Nat) (e : Int), mul (.fin false m1 e1) (.fin false m2 e2) = .fin false m e ∧
      2 ^ 52 ≤ m ∧ |(m : ℚ) * (2 : ℚ) ^ e - P| ≤ P / 2 ^ 53 := by
  obtain ⟨N, D, heq, hD, hND, hN⟩ := mul_fin_eq false false m1 m2 e1 e2
  rw [← hP] at hND
  rw [heq, ← hND]
  exact ofRat_spec _ N D (hN h1 h2) hD (by rw [hND]; exact hlo) (by rw [hND]; exact hhi)

/-! ### truncation -/

theorem toInt_floor (m : Nat) (e : Int) :
    ∃ a : Nat, toInt (.fin false m e) = .ok (a : Int) ∧
      (a : ℚ) ≤ (m : ℚ) * (2 : ℚ) ^ e ∧ (m : ℚ) * (2 : ℚ) ^ e < (a : ℚ) + 1 := by
  by_cases h : e ≥ 0
  · obtain ⟨k, rfl⟩ := Int.eq_ofNat_of_zero_le h
    refine ⟨m * 2 ^ k, ?_, ?_, ?_⟩
    · simp [toInt]
    · rw [zpow_natCast]; push_cast; exact le_refl _
    · rw [zpow_natCast]; push_cast; linarith
  · have h' : e ≤ 0 := by omega
    obtain ⟨k, rfl⟩ := Int.exists_eq_neg_ofNat h'
    have hf := natdiv_floor m (2 ^ k) (by positivity)
    have hv : (m : ℚ) * (2 : ℚ) ^ (-(k : Int)) = (m : ℚ) / ((2 ^ k : Nat) : ℚ) := by
      rw [zpow_neg, zpow_natCast]; push_cast; ring
    refine ⟨m / 2 ^ k, ?_, ?_, ?_⟩
    · simp only [toInt]; rw [if_neg h]; simp
    · rw [hv]; exact hf.1
    · rw [hv]; exact hf.2

/-! ### integers -/

theorem ofInt_natCast (v : Nat) : ofInt (v : Int) = ofRat false v 1 := by
  have h : decide ((v : Int) < 0) = false := decide_eq_false (by omega)
  simp [ofInt, h]

/-! ### pure arithmetic of the two error analyses -/

theorem scaled_arith (v C T X : ℚ) (hT : 0 < T) (hv1 : 1 ≤ v) (hv : v < 2 ^ 32)
    (hC : |C - 1 / T| ≤ 1 / T / 2 ^ 53) (hX : |X - v * C| ≤ v * C / 2 ^ 53) :
    |X * T - v| < 1 / 2 := by
  have hC' := abs_le.mp hC
  have hX' := abs_le.mp hX
  have hiT : 1 / T * T = 1 := by field_simp
  set u := C * T with hu
  -- |u - 1| ≤ 2^-53
  have hu1 : u - 1 ≤ 1 / 2 ^ 53 := by
    have := mul_le_mul_of_nonneg_right hC'.2 hT.le
    have e : 1 / T / 2 ^ 53 * T = 1 / 2 ^ 53 := by field_simp
    nlinarith
  have hu2 : -(1 / 2 ^ 53) ≤ u - 1 := by
    have := mul_le_mul_of_nonneg_right hC'.1 hT.le
    have e : 1 / T / 2 ^ 53 * T = 1 / 2 ^ 53 := by field_simp
    nlinarith
  set p := v * u with hp
  have hv0 : (0 : ℚ) ≤ v := by linarith
  have hp1 : p ≤ v + v / 2 ^ 53 := by
    have := mul_le_mul_of_nonneg_left hu1 hv0
    rw [hp]; nlinarith
  have hp2 : v - v / 2 ^ 53 ≤ p := by
    have := mul_le_mul_of_nonneg_left hu2 hv0
    rw [hp]; nlinarith
  have hW1 : X * T - p ≤ p / 2 ^ 53 := by
    have := mul_le_mul_of_nonneg_right hX'.2 hT.le
    have e : v * C / 2 ^ 53 * T = p / 2 ^ 53 := by rw [hp, hu]; ring
    have e2 : (X - v * C) * T = X * T - p := by rw [hp, hu]; ring
    rw [e, e2] at this; exact this
  have hW2 : -(p / 2 ^ 53) ≤ X * T - p := by
    have := mul_le_mul_of_nonneg_right hX'.1 hT.le
    have e : -(v * C / 2 ^ 53) * T = -(p / 2 ^ 53) := by rw [hp, hu]; ring
    have e2 : (X - v * C) * T = X * T - p := by rw [hp, hu]; ring
    rw [e, e2] at this; exact this
  rw [abs_lt]
  constructor <;> norm_num at * <;> linarith

theorem kilo_arith (x Y Z E : ℚ) (hE : E = 1000 * x) (hE1 : 1 ≤ E) (hEb : E < 2 ^ 50)
    (hY : |Y - x| ≤ x / 2 ^ 53) (hZ : |Z - Y * 1000| ≤ Y * 1000 / 2 ^ 53) :
    E - 1 < Z ∧ Z < E + 1 := by
  have hY' := abs_le.mp hY
  have hZ' := abs_le.mp hZ
  subst hE
  constructor <;> norm_num at * <;> linarith

theorem kilo_range (x Y E : ℚ) (hE : E = 1000 * x) (hE1 : 1 ≤ E) (hEb : E < 2 ^ 50)
    (hY : |Y - x| ≤ x / 2 ^ 53) :
    (1 : ℚ) / 2 ^ 200 ≤ Y * 1000 ∧ Y * 1000 ≤ 2 ^ 200 := by
  have hY' := abs_le.mp hY
  subst hE
  constructor <;> norm_num at * <;> linarith


/-! ### the two derived facts -/

theorem roundDigits_fin (neg : Bool) (m : Nat) (e : Int) (n : Nat) :
    roundDigits (.fin neg m e) n =
      ofRat neg (roundHalfEven (scaledDiv (m * 10 ^ n) 1 (-e)).1 (scaledDiv (m * 10 ^ n) 1 (-e)).2)
        (10 ^ n) := rfl

/-- `round(v * 10**-s, s)` is the double nearest to `v / 10^s` (32-bit `v`, `s ≤ 22`) -/
theorem scaled_correct_gen (v s : Nat) (hv : v < 4294967296) (hs : s ≤ 22) :
    roundDigits (mul (ofInt v) (tenPowNeg s)) s = ofRat false v (10 ^ s) := by
  rw [ofInt_natCast]
  rcases Nat.eq_zero_or_pos v with rfl | hv0
  · -- everything is zero
    have h0 : ofRat false 0 1 = .fin false 0 0 := by simp [ofRat]
    have h1 : ofRat false 0 (10 ^ s) = .fin false 0 0 := by simp [ofRat]
    have hT : (1 : ℚ) / 2 ^ 200 ≤ ((1 : Nat) : ℚ) / ((10 ^ s : Nat) : ℚ) ∧
        ((1 : Nat) : ℚ) / ((10 ^ s : Nat) : ℚ) ≤ 2 ^ 200 := by
      have hT1 : (1 : ℚ) ≤ ((10 ^ s : Nat) : ℚ) := by exact_mod_cast Nat.one_le_pow _ _ (by norm_num)
      have hT2 : ((10 ^ s : Nat) : ℚ) ≤ 10 ^ 22 := by
        exact_mod_cast Nat.pow_le_pow_right (by norm_num) hs
      constructor
      · rw [div_le_div_iff₀ (by positivity) (by linarith)]; push_cast; norm_num at *; linarith
      · rw [div_le_iff₀ (by linarith)]; push_cast; norm_num at *; linarith
    obtain ⟨mc, ec, hc, _, _⟩ := ofRat_spec false 1 (10 ^ s) Nat.one_pos (by positivity) hT.1 hT.2
    obtain ⟨N, D, heq, hD, hND, _⟩ := mul_fin_eq false false 0 mc 0 ec
    have hN : N = 0 := by
      have : (N : ℚ) / D = 0 := by rw [hND]; simp
      have hD' : (D : ℚ) ≠ 0 := by positivity
      have : (N : ℚ) = 0 := by
        rcases div_eq_zero_iff.mp this with h | h
        · exact h
        · exact absurd h hD'
      exact_mod_cast this
    have hmul : mul (.fin false 0 0) (.fin false mc ec) = .fin false 0 0 := by
      rw [heq, hN]; simp [ofRat]
    unfold tenPowNeg
    rw [h0, hc, hmul, h1, roundDigits_fin]
    simp [scaledDiv, roundHalfEven, ofRat]
  · have hT1 : (1 : ℚ) ≤ ((10 ^ s : Nat) : ℚ) := by exact_mod_cast Nat.one_le_pow _ _ (by norm_num)
    have hT2 : ((10 ^ s : Nat) : ℚ) ≤ 10 ^ 22 := by
      exact_mod_cast Nat.pow_le_pow_right (by norm_num) hs
    set T : ℚ := ((10 ^ s : Nat) : ℚ) with hTdef
    have hTpos : 0 < T := by linarith
    have hx1 : ((1 : Nat) : ℚ) / T = 1 / T := by push_cast; rfl
    have hTr : (1 : ℚ) / 2 ^ 200 ≤ 1 / T ∧ 1 / T ≤ 2 ^ 200 := by
      constructor
      · rw [div_le_div_iff₀ (by positivity) hTpos]; norm_num at *; linarith
      · rw [div_le_iff₀ hTpos]; norm_num at *; linarith
    obtain ⟨mc, ec, hc, hmc, hCerr⟩ := ofRat_spec false 1 (10 ^ s) Nat.one_pos (by positivity)
      (by rw [← hTdef, hx1]; exact hTr.1) (by rw [← hTdef, hx1]; exact hTr.2)
    rw [← hTdef, hx1] at hCerr
    obtain ⟨mv, ev, hveq, hmv, hvval⟩ := ofRat_nat_exact false v hv0 (by omega)
    set C : ℚ := (mc : ℚ) * (2 : ℚ) ^ ec with hCdef
    have hCabs := abs_le.mp hCerr
    have hvq1 : (1 : ℚ) ≤ v := by exact_mod_cast hv0
    have hvq : (v : ℚ) < 2 ^ 32 := by exact_mod_cast hv
    -- range of C and of v * C
    have hiT1 : 1 / T ≤ 1 := by rw [div_le_one hTpos]; exact hT1
    have hiT2 : 1 / (10 : ℚ) ^ 22 ≤ 1 / T := by
      rw [div_le_div_iff₀ (by positivity) hTpos]; linarith
    have hiTpos : 0 < 1 / T := by positivity
    have hClo : 1 / (10 : ℚ) ^ 22 / 2 ≤ C := by norm_num at *; linarith
    have hChi : C ≤ 2 := by norm_num at *; linarith
    have hCpos : 0 < C := lt_of_lt_of_le (by positivity) hClo
    have hPlo : (1 : ℚ) / 2 ^ 200 ≤ v * C := by
      have : 1 * (1 / (10 : ℚ) ^ 22 / 2) ≤ v * C :=
        mul_le_mul hvq1 hClo (by positivity) (by linarith)
      norm_num at *; linarith
    have hPhi : (v : ℚ) * C ≤ 2 ^ 200 := by
      have : (v : ℚ) * C ≤ 2 ^ 32 * 2 := mul_le_mul hvq.le hChi hCpos.le (by positivity)
      norm_num at *; linarith
    obtain ⟨mx, ex, hxeq, hmx, hXerr⟩ := mul_spec mv mc ev ec (by omega) (by omega) ((v : ℚ) * C)
      (by rw [hvval]) hPlo hPhi
    have hW := scaled_arith (v : ℚ) C T ((mx : ℚ) * (2 : ℚ) ^ ex) hTpos hvq1 hvq hCerr hXerr
    unfold tenPowNeg
    rw [hveq, hc, hxeq, roundDigits_fin]
    congr 1
    -- the rounded integer is v
    have hr := round_spec (mx * 10 ^ s) 1 (-ex) Nat.one_pos
    have hsd : sdVal (mx * 10 ^ s) 1 (-ex) = (mx : ℚ) * (2 : ℚ) ^ ex * T := by
      rw [hTdef]; unfold sdVal; push_cast; rw [neg_neg]; ring
    rw [hsd] at hr
    set r := roundHalfEven (scaledDiv (mx * 10 ^ s) 1 (-ex)).1 (scaledDiv (mx * 10 ^ s) 1 (-ex)).2
    have hr' := abs_le.mp hr
    have hW' := abs_lt.mp hW
    have h1 : (r : ℚ) < (v : ℚ) + 1 := by linarith
    have h2 : (v : ℚ) < (r : ℚ) + 1 := by linarith
    have h1' : r < v + 1 := by exact_mod_cast h1
    have h2' : v < r + 1 := by exact_mod_cast h2
    omega

/-- `int(float(m / 10^k) * 1000)` is `E` or `E - 1` where `E = m · 10^(3-k) < 2^50` -/
theorem kilo_unit_bound_gen (m k : Nat) (hk : k ≤ 3) (hE : m * 10 ^ (3 - k) < 2 ^ 50) :
    toInt (mul (ofRat false m (10 ^ k)) (ofNat 1000)) = .ok ((m * 10 ^ (3 - k) : Nat) : Int) ∨
    toInt (mul (ofRat false m (10 ^ k)) (ofNat 1000)) = .ok (((m * 10 ^ (3 - k) : Nat) : Int) - 1) := by
  rcases Nat.eq_zero_or_pos m with rfl | hm0
  · left
    have h0 : ofRat false 0 (10 ^ k) = .fin false 0 0 := by simp [ofRat]
    obtain ⟨mk, ek, hkeq, _, _⟩ := ofRat_nat_exact false 1000 (by norm_num) (by norm_num)
    obtain ⟨N, D, heq, hD, hND, _⟩ := mul_fin_eq false false 0 mk 0 ek
    have hN : N = 0 := by
      have : (N : ℚ) / D = 0 := by rw [hND]; simp
      have hD' : (D : ℚ) ≠ 0 := by positivity
      have : (N : ℚ) = 0 := by
        rcases div_eq_zero_iff.mp this with h | h
        · exact h
        · exact absurd h hD'
      exact_mod_cast this
    unfold ofNat
    rw [h0, hkeq, heq, hN]
    simp [ofRat, toInt]
  · set E := m * 10 ^ (3 - k) with hEdef
    have hE1 : 1 ≤ E := Nat.mul_pos hm0 (by positivity)
    have hEq1 : (1 : ℚ) ≤ E := by exact_mod_cast hE1
    have hEqb : (E : ℚ) < 2 ^ 50 := by exact_mod_cast hE
    have hEx : (E : ℚ) = 1000 * ((m : ℚ) / ((10 ^ k : Nat) : ℚ)) := by
      have hk4 : k = 0 ∨ k = 1 ∨ k = 2 ∨ k = 3 := by omega
      rcases hk4 with rfl | rfl | rfl | rfl <;> rw [hEdef] <;> push_cast <;> ring
    set x : ℚ := (m : ℚ) / ((10 ^ k : Nat) : ℚ) with hxdef
    have hxr : (1 : ℚ) / 2 ^ 200 ≤ x ∧ x ≤ 2 ^ 200 := by
      have c1 : (1 : ℚ) / 2 ^ 200 ≤ 1 / 1000 := by norm_num
      have c2 : (2 : ℚ) ^ 50 ≤ 2 ^ 200 := by norm_num
      constructor <;> linarith
    obtain ⟨my, ey, hyeq, hmy, hYerr⟩ := ofRat_spec false m (10 ^ k) hm0 (by positivity)
      (by rw [← hxdef]; exact hxr.1) (by rw [← hxdef]; exact hxr.2)
    rw [← hxdef] at hYerr
    obtain ⟨mk, ek, hkeq, hmk, hkval⟩ := ofRat_nat_exact false 1000 (by norm_num) (by norm_num)
    have hkval' : (mk : ℚ) * (2 : ℚ) ^ ek = 1000 := by rw [hkval]; norm_num
    set Y : ℚ := (my : ℚ) * (2 : ℚ) ^ ey with hYdef
    have hrange := kilo_range x Y E hEx hEq1 hEqb hYerr
    obtain ⟨mz, ez, hzeq, hmz, hZerr⟩ := mul_spec my mk ey ek (by omega) (by omega) (Y * 1000)
      (by rw [hkval']) hrange.1 hrange.2
    have hZ := kilo_arith x Y ((mz : ℚ) * (2 : ℚ) ^ ez) E hEx hEq1 hEqb hYerr hZerr
    obtain ⟨a, haeq, ha1, ha2⟩ := toInt_floor mz ez
    unfold ofNat
    rw [hyeq, hkeq, hzeq, haeq]
    have h1 : (a : ℚ) < (E : ℚ) + 1 := by linarith [hZ.2]
    have h2 : (E : ℚ) - 1 < (a : ℚ) + 1 := by linarith [hZ.1]
    have h1' : a < E + 1 := by exact_mod_cast h1
    have h2' : E < a + 1 + 1 := by
      have : (E : ℚ) < (a : ℚ) + 1 + 1 := by linarith
      exact_mod_cast this
    rcases Nat.lt_or_ge a E with hlt | hge
    · right
      have : a + 1 = E := by omega
      congr 1
      omega
    · left
      have : a = E := by omega
      rw [this]

end Amshan.Flt
