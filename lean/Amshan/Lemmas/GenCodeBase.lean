import Amshan.Generated
/-
  Helper lemmas for Props/C01Gen, C03Gen, C04Gen, C18Gen: every definition of Amshan/GeneratedCode.lean
  (the mechanical translation of Python function bodies) equals the hand-written model.

  Loops: the translation never exits a loop early, so every `for` is a fold.  `forIn_list_proj` /
  `forIn_range_proj` state that for an arbitrary loop body, observed through a projection of the
  tuple of `let mut` variables; the side condition (one iteration yields, and its projection is the
  model step) is discharged by `rfl` / `split`, so the proofs do not depend on how the body is spelled.
-/
namespace Amshan.GenLemmas

/-- A `for x in l` loop in `Id` whose body always yields, observed through a projection `p` of the
    loop state (the tuple of `let mut` variables), is a left fold of the projected state. -/
theorem forIn_list_proj {α β γ : Type} (p : β → γ) (g : γ → α → γ) (l : List α) (init : β)
    (f : α → β → Id (ForInStep β))
    (h : ∀ a s, ∃ s', f a s = pure (ForInStep.yield s') ∧ p s' = g (p s) a) :
    p (Id.run (forIn l init f)) = l.foldl g (p init) := by
  induction l generalizing init with
  | nil => rfl
  | cons a t ih =>
    obtain ⟨s', hs, hp⟩ := h a init
    rw [List.forIn_cons, hs]
    simp only [pure_bind, List.foldl_cons]
    rw [ih, hp]

/-- the same for `for i in [a:b]` -/
theorem forIn_range_proj {β γ : Type} (p : β → γ) (g : γ → Nat → γ) (a b : Nat) (init : β)
    (f : Nat → β → Id (ForInStep β))
    (h : ∀ i s, ∃ s', f i s = pure (ForInStep.yield s') ∧ p s' = g (p s) i) :
    p (Id.run (forIn (Std.Legacy.Range.mk a b 1 (by decide)) init f)) = (List.range' a (b - a)).foldl g (p init) := by
  rw [Std.Legacy.Range.forIn_eq_forIn_range']
  simp only [Std.Legacy.Range.size, Nat.add_sub_cancel, Nat.div_one]
  exact forIn_list_proj p g _ init f h

/-- `g` applied `n` times -/
def iter {γ : Type} (g : γ → γ) : Nat → γ → γ
  | 0, c => c
  | n + 1, c => iter g n (g c)

/-- a fold that ignores the index is an iteration -/
theorem foldl_range'_const {γ : Type} (g : γ → γ) (a n : Nat) (c : γ) :
    (List.range' a n).foldl (fun s _ => g s) c = iter g n c := by
  induction n generalizing a c with
  | zero => rfl
  | succ n ih => simp [List.range'_succ, ih, iter]


end Amshan.GenLemmas
