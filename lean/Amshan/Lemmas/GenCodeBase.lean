import Amshan.Generated
/-
  Helper lemmas and tactics for Lemmas/GenCode{Fcs,BackOff,P1,Hdlc}.lean: every definition of
  Amshan/GeneratedCode*.lean (the mechanical translation of Python function bodies, harness/pytrans.py) equals the
  hand-written model.

  The generated definitions are pure terms: `if … then … else …`, Boolean and arithmetic operators, list lookups,
  and `List.foldl` for `for` loops.  The equivalence proofs are meant to be SEMANTIC — independent of how the source
  spells the computation, so that a behaviour-preserving rewrite of the source does not break them:
  * loops are compared with the model step by step (`foldl_step_eq` / `foldl_proj_eq`); the step function of the
    generated fold is found by unification and never written down in a proof;
  * what remains after unfolding and case splitting is closed by `gen_decide`.
-/
namespace Amshan.GenLemmas

/-- Two folds with pointwise equal steps are equal.  Used as `rw [foldl_step_eq (g := model step)]`: the step of the
    generated fold is found by unification, and the pointwise equality is left as a goal, to be closed semantically
    (`simp` / `grind`), whatever the generated body looks like. -/
theorem foldl_step_eq {α β : Type} {f g : β → α → β} (l : List α) (init : β) (h : ∀ s a, f s a = g s a) :
    l.foldl f init = l.foldl g init := by
  have : f = g := funext fun s => funext (h s)
  rw [this]

/-- the same, through a projection `p` of the state of the generated fold (when the source keeps more variables
    alive across iterations than the model has) -/
theorem foldl_proj_eq {α β γ : Type} (p : β → γ) {f : β → α → β} {g : γ → α → γ} (l : List α) (init : β)
    (h : ∀ s a, p (f s a) = g (p s) a) : p (l.foldl f init) = l.foldl g (p init) := by
  induction l generalizing init with
  | nil => rfl
  | cons a t ih => simp only [List.foldl_cons, ih, h]

/-! ### masks and shifts as arithmetic (for sources that write `% 2048` for `& 0x7FF`, `// 4096` for `>> 12`, ...) -/

theorem and_mask1 (x : Nat) : x &&& 1 = x % 2 := Nat.and_two_pow_sub_one_eq_mod x 1
theorem and_mask4 (x : Nat) : x &&& 15 = x % 16 := Nat.and_two_pow_sub_one_eq_mod x 4
theorem and_mask8 (x : Nat) : x &&& 255 = x % 256 := Nat.and_two_pow_sub_one_eq_mod x 8
theorem and_mask11 (x : Nat) : x &&& 2047 = x % 2048 := Nat.and_two_pow_sub_one_eq_mod x 11
theorem and_mask16 (x : Nat) : x &&& 65535 = x % 65536 := Nat.and_two_pow_sub_one_eq_mod x 16
theorem mask1_and (x : Nat) : 1 &&& x = x % 2 := by rw [Nat.and_comm, and_mask1]
theorem mask4_and (x : Nat) : 15 &&& x = x % 16 := by rw [Nat.and_comm, and_mask4]
theorem mask8_and (x : Nat) : 255 &&& x = x % 256 := by rw [Nat.and_comm, and_mask8]
theorem mask11_and (x : Nat) : 2047 &&& x = x % 2048 := by rw [Nat.and_comm, and_mask11]
theorem mask16_and (x : Nat) : 65535 &&& x = x % 65536 := by rw [Nat.and_comm, and_mask16]

/-- a bit selects: `b * k` for a bit `b` -/
theorem bit_cases (x : Nat) : x % 2 = 0 ∨ x % 2 = 1 := Nat.mod_two_eq_zero_or_one x

/-- Closes what is left of an equivalence once the generated definition and the model are unfolded and the data
    is split into cases: a statement about `if`s, Booleans, options, list lookups, `max`/`min`, bit operators and
    linear arithmetic.  `grind` first; then with masks and shifts turned into `%`, `/`, `*`. -/
macro "gen_decide" : tactic =>
  `(tactic| first
    | done
    | grind
    | (simp only [and_mask1, and_mask4, and_mask8, and_mask11, and_mask16, mask1_and, mask4_and, mask8_and,
        mask11_and, mask16_and, Nat.shiftRight_eq_div_pow, Nat.shiftLeft_eq, Nat.reducePow] at * <;> grind)
    | (simp <;> grind)
    | omega)

/-- `g` applied `n` times -/
def iter {γ : Type} (g : γ → γ) : Nat → γ → γ
  | 0, c => c
  | n + 1, c => iter g n (g c)

/-- a fold that ignores the index is an iteration -/
theorem foldl_range'_const {γ : Type} (g : γ → γ) (a n : Nat) (c : γ) :
    (List.range' a n).foldl (fun s _ => g s) c = iter g n c := by
  induction n generalizing a c with
  | zero => rfl
  | succ n ih => simp [List.range'_succ, ih, iter]


end Amshan.GenLemmas
