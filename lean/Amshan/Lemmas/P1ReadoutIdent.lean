import Amshan.Lemmas.P1ReadoutChk
/-
  The identification-line matcher: what a successful match means, and when it succeeds.
-/
namespace Amshan.P1L
open Amshan.Gen Amshan.P1 Amshan.P1Spec Amshan.Py

/-- the escape-sequence encoding: every word character `w` is sent as backslash `w` -/
abbrev escFlat (escs : List Nat) : List Nat := escs.flatMap (fun w => [92, w])

theorem dropEscPairs_split (s : List Nat) :
    ∃ escs, s = escFlat escs ++ dropEscPairs s ∧ escs.all Py.isWord = true := by
  induction s using dropEscPairs.induct with
  | case1 w rest hw ih =>
    obtain ⟨escs, h1, h2⟩ := ih
    refine ⟨w :: escs, ?_, ?_⟩
    · rw [dropEscPairs]
      simp only [hw, if_true]
      simp only [List.flatMap_cons, List.cons_append, List.nil_append, List.cons.injEq, true_and]
      exact h1
    · simp [hw, h2]
  | case2 w rest hw =>
    refine ⟨[], ?_, rfl⟩
    rw [dropEscPairs]
    simp [hw]
  | case3 s hs =>
    refine ⟨[], ?_, rfl⟩
    rw [dropEscPairs]
    · simp
    · exact hs

theorem takeWhile_all (p : Nat → Bool) (l : List Nat) : (l.takeWhile p).all p = true := by
  induction l with
  | nil => rfl
  | cons x l ih =>
    simp only [List.takeWhile_cons]
    split
    · rename_i hx; simp [hx, ih]
    · rfl

/-- what a successful match of the identification pattern means -/
theorem identMatch_wellformed (s : List Nat) (m : IdentMatch) (h : identMatch s = some m) :
    ∃ a b c d escs ident tail,
      s = [47, a, b, c, d] ++ escFlat escs ++ ident ++ tail ∧
      Py.isUpper a = true ∧ Py.isUpper b = true ∧ Py.isAlpha c = true ∧ Py.isDigit d = true ∧
      escs.all Py.isWord = true ∧ ident.all Py.isPrintable = true ∧ ident.length ≤ 16 ∧
      (tail = [] ∨ tail = [10] ∨ tail = [13, 10] ∨ tail = [13, 10, 10]) ∧
      m.manid = [a, b, c] ∧ m.ident = (if ident.isEmpty then none else some ident) := by
  unfold identMatch at h
  split at h
  · rename_i a b c d rest
    split at h
    · rename_i hcond
      simp only at h
      split at h
      · rename_i hc2
        obtain ⟨escs, he1, he2⟩ := dropEscPairs_split rest
        simp only [Bool.and_eq_true] at hcond
        simp only [Bool.and_eq_true, decide_eq_true_eq, Bool.or_eq_true, beq_iff_eq] at hc2
        simp only [Option.some.injEq] at h
        refine ⟨a, b, c, d, escs, (dropEscPairs rest).takeWhile Py.isPrintable,
          (dropEscPairs rest).dropWhile Py.isPrintable, ?_, hcond.1.1.1, hcond.1.1.2, hcond.1.2,
          hcond.2, he2, takeWhile_all _ _, hc2.1, ?_, ?_, ?_⟩
        · rw [List.append_assoc _ (List.takeWhile _ _), List.takeWhile_append_dropWhile,
            List.append_assoc, ← he1]
          rfl
        · rcases hc2.2 with ((h1 | h1) | h1) | h1
          · exact Or.inl h1
          · exact Or.inr (Or.inl h1)
          · exact Or.inr (Or.inr (Or.inl h1))
          · exact Or.inr (Or.inr (Or.inr h1))
        · rw [← h]
        · rw [← h]
      · simp at h
    · simp at h
  · simp at h

/-! ### when the matcher succeeds -/

theorem takeWhile_of_all (p : Nat → Bool) (l : List Nat) (h : l.all p = true) : l.takeWhile p = l := by
  induction l with
  | nil => rfl
  | cons x l ih =>
    simp only [List.all_cons, Bool.and_eq_true] at h
    simp only [List.takeWhile_cons, h.1, if_true, ih h.2]

theorem dropEscPairs_escFlat (escs ident : List Nat) (he : escs.all Py.isWord = true)
    (hi : dropEscPairs ident = ident) : dropEscPairs (escFlat escs ++ ident) = ident := by
  induction escs with
  | nil => simpa using hi
  | cons w escs ih =>
    simp only [List.all_cons, Bool.and_eq_true] at he
    simp only [List.flatMap_cons, List.cons_append, List.nil_append]
    rw [dropEscPairs]
    simp only [he.1, if_true]
    exact ih he.2

theorem dropEscPairs_self (i : List Nat)
    (h : (match i with | 92 :: w :: _ => !Py.isWord w | _ => true) = true) : dropEscPairs i = i := by
  induction i using dropEscPairs.induct with
  | case1 w rest hw ih => simp [hw] at h
  | case2 w rest hw =>
    rw [dropEscPairs]
    simp [hw]
  | case3 s hs =>
    rw [dropEscPairs]
    exact hs

theorem identMatch_of_parts (a b c d : Nat) (escs ident : List Nat)
    (ha : Py.isUpper a = true) (hb : Py.isUpper b = true) (hc : Py.isAlpha c = true)
    (hd : Py.isDigit d = true) (he : escs.all Py.isWord = true)
    (hi : dropEscPairs ident = ident) (hp : ident.all Py.isPrintable = true)
    (hl : ident.length ≤ 16) :
    identMatch (47 :: a :: b :: c :: d :: (escFlat escs ++ ident)) =
      some { manid := [a, b, c], ident := if ident.isEmpty then none else some ident } := by
  rw [identMatch]
  simp only [ha, hb, hc, hd, Bool.and_self, if_true, dropEscPairs_escFlat escs ident he hi,
    takeWhile_of_all _ _ hp, dropWhile_all _ _ hp]
  simp [hl]

end Amshan.P1L
