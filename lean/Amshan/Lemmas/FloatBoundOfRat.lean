import Amshan.Lemmas.FloatBoundBase
/-
  Structure of `ofRat` in the normal range.
-/
namespace Amshan.Flt

/-- `ofRat` without pattern-matching lets -/
theorem ofRat_eq (neg : Bool) (num den : Nat) (hn : num ≠ 0) (hd : den ≠ 0) :
    ofRat neg num den =
      (let e0 : Int := (Nat.log2 num : Int) - (Nat.log2 den : Int) - 52
       let q0 := (scaledDiv num den e0).1
       let e1 : Int := if q0 ≥ 2 ^ 53 then e0 + 1 else if q0 < 2 ^ 52 then e0 - 1 else e0
       let e : Int := if e1 < -1074 then -1074 else e1
       let m := roundHalfEven (scaledDiv num den e).1 (scaledDiv num den e).2
       if m = 2 ^ 53 then (if e + 1 > 971 then .inf neg else .fin neg (2 ^ 52) (e + 1))
       else (if e > 971 then .inf neg else .fin neg m e)) := by
  unfold ofRat
  have : (num = 0 || den = 0) = false := by simp [hn, hd]
  rw [this]
  simp only [Bool.false_eq_true, if_false]
  generalize roundHalfEven _ _ = m0
  generalize (if _ < (-1074 : Int) then (-1074 : Int) else _) = e
  by_cases h : m0 = 2 ^ 53
  · simp only [if_pos h]
  · simp only [if_neg h]


theorem sdVal_eq (num den : Nat) (t : Int) : sdVal num den t = (num : ℚ) / den * (2 : ℚ) ^ (-t) := by
  unfold sdVal; ring

theorem sdVal_succ (num den : Nat) (t : Int) : sdVal num den (t + 1) = sdVal num den t / 2 := by
  rw [sdVal_eq, sdVal_eq, show -(t + 1) = -t - 1 by ring, zpow_sub_one₀ (by norm_num : (2 : ℚ) ≠ 0)]
  ring

theorem sdVal_pred (num den : Nat) (t : Int) : sdVal num den (t - 1) = sdVal num den t * 2 := by
  rw [sdVal_eq, sdVal_eq, show -(t - 1) = -t + 1 by ring, zpow_add_one₀ (by norm_num : (2 : ℚ) ≠ 0)]
  ring

/-- the first exponent guess puts the scaled quotient at or above 2^51 -/
theorem sdVal_e0_ge (num den : Nat) (hn : 0 < num) (hd : 0 < den) :
    (2 : ℚ) ^ 51 ≤ sdVal num den ((Nat.log2 num : Int) - (Nat.log2 den : Int) - 52) := by
  have ha1 : 2 ^ Nat.log2 num ≤ num := Nat.log2_self_le hn.ne'
  have hb2 : den < 2 ^ (Nat.log2 den + 1) := Nat.lt_log2_self
  set a := Nat.log2 num
  set b := Nat.log2 den
  have hA : ((2 : ℚ) ^ a) ≤ num := by exact_mod_cast ha1
  have hB : (den : ℚ) ≤ 2 * (2 : ℚ) ^ b := by
    have : (den : ℚ) < 2 ^ (b + 1) := by exact_mod_cast hb2
    rw [pow_succ] at this; linarith
  have hz : (2 : ℚ) ^ (-((a : Int) - (b : Int) - 52)) = 2 ^ 52 * 2 ^ b / 2 ^ a := by
    rw [show -((a : Int) - (b : Int) - 52) = ((52 : Nat) : Int) + (b : Int) - (a : Int) by push_cast; ring]
    rw [zpow_sub₀ (by norm_num : (2 : ℚ) ≠ 0), zpow_add₀ (by norm_num : (2 : ℚ) ≠ 0)]
    simp only [zpow_natCast]
  unfold sdVal
  rw [hz]
  set A := (2 : ℚ) ^ a
  set B := (2 : ℚ) ^ b
  have hApos : (0 : ℚ) < A := by positivity
  have hBpos : (0 : ℚ) < B := by positivity
  have hdpos : (0 : ℚ) < den := by exact_mod_cast hd
  rw [le_div_iff₀ hdpos, mul_div_assoc', le_div_iff₀ hApos]
  have h1 : (den : ℚ) * A ≤ 2 * B * num :=
    mul_le_mul hB hA hApos.le (by positivity)
  have e : (2 : ℚ) ^ 52 = 2 * 2 ^ 51 := by norm_num
  rw [e]
  have h51 : (0 : ℚ) < 2 ^ 51 := by positivity
  nlinarith [mul_le_mul_of_nonneg_left h1 h51.le]

theorem ofRat_struct (neg : Bool) (num den : Nat) (hn : 0 < num) (hd : 0 < den)
    (hlo : den ≤ num * 2 ^ 200) (hhi : num ≤ den * 2 ^ 200) :
    ∃ e : Int, 2 ^ 52 ≤ (scaledDiv num den e).1 ∧
      ofRat neg num den =
        (if roundHalfEven (scaledDiv num den e).1 (scaledDiv num den e).2 = 2 ^ 53
         then .fin neg (2 ^ 52) (e + 1)
         else .fin neg (roundHalfEven (scaledDiv num den e).1 (scaledDiv num den e).2) e) := by
  have ha1 : 2 ^ Nat.log2 num ≤ num := Nat.log2_self_le hn.ne'
  have ha2 : num < 2 ^ (Nat.log2 num + 1) := Nat.lt_log2_self
  have hb1 : 2 ^ Nat.log2 den ≤ den := Nat.log2_self_le hd.ne'
  have hb2 : den < 2 ^ (Nat.log2 den + 1) := Nat.lt_log2_self
  have hx0 := sdVal_e0_ge num den hn hd
  set a := Nat.log2 num
  set b := Nat.log2 den
  have hab1 : b < a + 201 := by
    have : 2 ^ b < 2 ^ (a + 201) := by
      calc 2 ^ b ≤ den := hb1
        _ ≤ num * 2 ^ 200 := hlo
        _ < 2 ^ (a + 1) * 2 ^ 200 := Nat.mul_lt_mul_of_pos_right ha2 (by positivity)
        _ = 2 ^ (a + 201) := by rw [← pow_add]
    exact (Nat.pow_lt_pow_iff_right (by norm_num)).mp this
  have hab2 : a < b + 201 := by
    have : 2 ^ a < 2 ^ (b + 201) := by
      calc 2 ^ a ≤ num := ha1
        _ ≤ den * 2 ^ 200 := hhi
        _ < 2 ^ (b + 1) * 2 ^ 200 := Nat.mul_lt_mul_of_pos_right hb2 (by positivity)
        _ = 2 ^ (b + 201) := by rw [← pow_add]
    exact (Nat.pow_lt_pow_iff_right (by norm_num)).mp this
  set e0 : Int := (a : Int) - (b : Int) - 52 with he0
  have hf0 := sd_floor num den e0 hd
  set q0 := (scaledDiv num den e0).1 with hq0
  obtain ⟨e1, he1, hlo1, hhi1, hx1⟩ : ∃ e1 : Int,
      e1 = (if q0 ≥ 2 ^ 53 then e0 + 1 else if q0 < 2 ^ 52 then e0 - 1 else e0) ∧
      -1074 ≤ e1 ∧ e1 ≤ 170 ∧ (2 : ℚ) ^ 52 ≤ sdVal num den e1 := by
    refine ⟨_, rfl, ?_, ?_, ?_⟩
    · split_ifs <;> omega
    · split_ifs <;> omega
    · split_ifs with h1 h2
      · rw [sdVal_succ]
        have : ((2 : ℚ) ^ 53) ≤ q0 := by exact_mod_cast h1
        have e : (2 : ℚ) ^ 53 = 2 * 2 ^ 52 := by norm_num
        linarith [hf0.1]
      · rw [sdVal_pred]
        have e : (2 : ℚ) ^ 52 = 2 * 2 ^ 51 := by norm_num
        linarith
      · have : ((2 : ℚ) ^ 52) ≤ q0 := by exact_mod_cast (not_lt.mp h2)
        linarith [hf0.1]
  have hf1 := sd_floor num den e1 hd
  have hq : 2 ^ 52 ≤ (scaledDiv num den e1).1 := by
    have h : ((2 : ℚ) ^ 52) < ((scaledDiv num den e1).1 : ℚ) + 1 := lt_of_le_of_lt hx1 hf1.2
    have h' : 2 ^ 52 < (scaledDiv num den e1).1 + 1 := by exact_mod_cast h
    omega
  refine ⟨e1, hq, ?_⟩
  rw [ofRat_eq neg num den hn.ne' hd.ne']
  dsimp only
  rw [← he0, ← hq0, ← he1, if_neg (not_lt.mpr hlo1)]
  have h1 : ¬ (e1 + 1 > 971) := by omega
  have h2 : ¬ (e1 > 971) := by omega
  rw [if_neg h1, if_neg h2]


/-- **relative error of `ofRat`** (normal range, Nat-form range hypotheses) -/
theorem ofRat_spec_nat (neg : Bool) (num den : Nat) (hn : 0 < num) (hd : 0 < den)
    (hlo : den ≤ num * 2 ^ 200) (hhi : num ≤ den * 2 ^ 200) :
    ∃ (m : Nat) (e : Int), ofRat neg num den = .fin neg m e ∧ 2 ^ 52 ≤ m ∧
      |(m : ℚ) * (2 : ℚ) ^ e - (num : ℚ) / den| ≤ (num : ℚ) / den / 2 ^ 53 := by
  obtain ⟨e, hq, heq⟩ := ofRat_struct neg num den hn hd hlo hhi
  have hf := sd_floor num den e hd
  have hr := abs_le.mp (round_spec num den e hd)
  have hge := roundHalfEven_ge (scaledDiv num den e).1 (scaledDiv num den e).2
  set q := (scaledDiv num den e).1
  set r := roundHalfEven q (scaledDiv num den e).2 with hrdef
  set X := sdVal num den e with hX
  set P := (2 : ℚ) ^ e with hP
  have hPpos : 0 < P := zpow_pos (by norm_num) e
  have hx : (num : ℚ) / den = X * P := by
    rw [hX, sdVal_eq, hP, mul_assoc, ← zpow_add₀ (by norm_num : (2 : ℚ) ≠ 0)]
    simp
  have hq' : ((2 : ℚ) ^ 52) ≤ q := by exact_mod_cast hq
  have hX52 : (2 : ℚ) ^ 52 ≤ X := le_trans hq' hf.1
  have e53 : (2 : ℚ) ^ 53 = 2 * 2 ^ 52 := by norm_num
  have hhalf : (1 / 2 : ℚ) * P ≤ X * P / 2 ^ 53 := by
    rw [mul_div_right_comm]
    apply mul_le_mul_of_nonneg_right _ hPpos.le
    rw [le_div_iff₀ (by positivity), e53]
    linarith
  have hmain : |(r : ℚ) * P - X * P| ≤ X * P / 2 ^ 53 := by
    rw [abs_le]
    have h1 : ((r : ℚ) - X) * P ≤ 1 / 2 * P := mul_le_mul_of_nonneg_right hr.2 hPpos.le
    have h2 : -(1 / 2) * P ≤ ((r : ℚ) - X) * P := mul_le_mul_of_nonneg_right hr.1 hPpos.le
    constructor <;> nlinarith
  by_cases hc : r = 2 ^ 53
  · rw [if_pos hc] at heq
    refine ⟨2 ^ 52, e + 1, heq, le_refl _, ?_⟩
    rw [hx]
    have : ((2 ^ 52 : Nat) : ℚ) * (2 : ℚ) ^ (e + 1) = (r : ℚ) * P := by
      rw [hc, zpow_add_one₀ (by norm_num : (2 : ℚ) ≠ 0), hP]
      push_cast
      ring
    rw [this]; exact hmain
  · rw [if_neg hc] at heq
    refine ⟨r, e, heq, le_trans hq hge, ?_⟩
    rw [hx]; exact hmain

/-- **relative error of `ofRat`**: for a positive quotient between 2^-200 and 2^200 the result is
    a finite float with mantissa ≥ 2^52 whose value is within a factor 2^-53 of the quotient -/
theorem ofRat_spec (neg : Bool) (num den : Nat) (hn : 0 < num) (hd : 0 < den)
    (hlo : (1 : ℚ) / 2 ^ 200 ≤ (num : ℚ) / den) (hhi : (num : ℚ) / den ≤ 2 ^ 200) :
    ∃ (m : Nat) (e : Int), ofRat neg num den = .fin neg m e ∧ 2 ^ 52 ≤ m ∧
      |(m : ℚ) * (2 : ℚ) ^ e - (num : ℚ) / den| ≤ (num : ℚ) / den / 2 ^ 53 := by
  have hd' : (0 : ℚ) < den := by exact_mod_cast hd
  apply ofRat_spec_nat neg num den hn hd
  · rw [le_div_iff₀ hd', div_mul_eq_mul_div, div_le_iff₀ (by positivity)] at hlo
    have : (den : ℚ) ≤ (num : ℚ) * 2 ^ 200 := by linarith
    exact_mod_cast this
  · rw [div_le_iff₀ hd'] at hhi
    have : (num : ℚ) ≤ (den : ℚ) * 2 ^ 200 := by linarith
    exact_mod_cast this

theorem scaledDiv_one_nonpos (v k : Nat) : scaledDiv v 1 (-(k : Int)) = (v * 2 ^ k, 0) := by
  rcases Nat.eq_zero_or_pos k with rfl | hk
  · simp [scaledDiv, Nat.mod_one]
  · have : k ≠ 0 := by omega
    simp [scaledDiv, this, Nat.mod_one]

/-- naturals below 2^53 are represented exactly -/
theorem ofRat_nat_exact (neg : Bool) (v : Nat) (hv0 : 0 < v) (hv : v < 2 ^ 53) :
    ∃ (m : Nat) (e : Int), ofRat neg v 1 = .fin neg m e ∧ 2 ^ 52 ≤ m ∧ (m : ℚ) * (2 : ℚ) ^ e = v := by
  obtain ⟨e, hq, heq⟩ := ofRat_struct neg v 1 hv0 Nat.one_pos
    (Nat.mul_pos hv0 (by positivity))
    (by have : 2 ^ 53 ≤ 1 * 2 ^ 200 := by norm_num
        omega)
  have hepos : e ≤ 0 := by
    by_contra hcon
    obtain ⟨k, rfl⟩ := Int.eq_ofNat_of_zero_le (le_of_lt (not_le.mp hcon))
    have hk : 1 ≤ k := by omega
    have : (scaledDiv v 1 (k : Int)).1 = v / (1 * 2 ^ k) := by simp [scaledDiv]
    rw [this] at hq
    have h2 : 2 ^ 1 ≤ 2 ^ k := Nat.pow_le_pow_right (by norm_num) hk
    have h3 : v / (1 * 2 ^ k) ≤ v / 2 := by
      rw [Nat.one_mul]; exact Nat.div_le_div_left (by simpa using h2) (by norm_num)
    omega
  obtain ⟨k, rfl⟩ := Int.exists_eq_neg_ofNat hepos
  rw [scaledDiv_one_nonpos] at heq hq
  have hr : roundHalfEven (v * 2 ^ k) 0 = v * 2 ^ k := by simp [roundHalfEven]
  simp only [hr] at heq hq
  have hval : ((v * 2 ^ k : Nat) : ℚ) * (2 : ℚ) ^ (-(k : Int)) = v := by
    push_cast
    rw [zpow_neg, zpow_natCast]
    field_simp
  by_cases hc : v * 2 ^ k = 2 ^ 53
  · rw [if_pos hc] at heq
    refine ⟨2 ^ 52, -(k : Int) + 1, heq, le_refl _, ?_⟩
    rw [← hval, hc, zpow_add_one₀ (by norm_num : (2 : ℚ) ≠ 0)]
    push_cast
    ring
  · rw [if_neg hc] at heq
    exact ⟨v * 2 ^ k, -(k : Int), heq, hq, hval⟩

end Amshan.Flt
