import Amshan.Lemmas.P1Total
/-
  Memory bounds of the P1 reader model (C19, P1 part).
-/
namespace Amshan.P1
open Amshan.Gen Amshan.Py

/-- a handled line grows the collected data by at most its own length -/
theorem handleLine_len {raw : List Nat} {hunt : Bool} {line raw1 : List Nat} {hunt1 : Bool}
    {ro : Option Readout} (h : handleLine raw hunt line = .ok (raw1, hunt1, ro)) :
    raw1.length ≤ raw.length + line.length := by
  cases line with
  | nil => cases hunt <;> simp [handleLine] at h
  | cons c rest =>
    cases hunt with
    | true =>
      simp only [handleLine, if_true] at h
      split at h
      · simp only [bind, Except.bind, pure, Except.pure] at h
        split at h
        · cases h
        · rename_i s hs
          have hsl : s = c :: rest := by
            simp only [decodeAscii] at hs
            split at hs
            · cases hs; rfl
            · cases hs
          split at h
          · simp only [Except.ok.injEq, Prod.mk.injEq] at h
            rw [← h.1, List.length_append]; omega
          · simp only [Except.ok.injEq, Prod.mk.injEq] at h
            rw [← h.1]; omega
      · simp only [pure, Except.pure, Except.ok.injEq, Prod.mk.injEq] at h
        rw [← h.1]; omega
    | false =>
      simp only [handleLine, Bool.false_eq_true, if_false] at h
      split at h
      · simp only [bind, Except.bind, pure, Except.pure] at h
        split at h
        · cases h
        · simp only [Except.ok.injEq, Prod.mk.injEq] at h
          rw [← h.1]; simp
      · simp only [pure, Except.pure, Except.ok.injEq, Prod.mk.injEq] at h
        rw [← h.1, List.length_append]; omega

/-- `loop` keeps `consumed + unread` constant, and the collected data grows by at most what was
    consumed -/
theorem loop_bound (b : Buf) (raw : List Nat) (hunt : Bool) (out : List Readout) (r : Reader)
    (outs : List Readout) (h : loop b raw hunt out = .ok (r, outs)) :
    r.buf.consumed + r.buf.inp.length = b.consumed + b.inp.length ∧
      r.raw.length + b.consumed ≤ raw.length + r.buf.consumed := by
  fun_induction loop b raw hunt out with
  | case1 b raw hunt out hp =>
    simp only [Except.ok.injEq, Prod.mk.injEq] at h
    rw [← h.1]
    exact ⟨rfl, Nat.le_refl _⟩
  | case2 b raw hunt out line b1 hp e he => cases h
  | case3 b raw hunt out line b1 hp raw1 hunt1 ro he ih =>
    obtain ⟨_, hinp, hcons⟩ := pop_some hp
    have hl := handleLine_len he
    obtain ⟨h1, h2⟩ := ih h
    have : b.inp.length = line.length + b1.inp.length := by rw [hinp, List.length_append]
    constructor <;> omega

/-- the buffer and collected data `read` starts its loop with -/
theorem read_start (r : Reader) (chunk : List Nat) :
    ∃ b raw hunt, read r chunk = loop b raw hunt [] ∧ b.consumed = 0 ∧
      b.inp.length + raw.length ≤ p1Guard + chunk.length := by
  simp only [read]
  refine ⟨_, _, _, rfl, ?_, ?_⟩
  · split <;> split <;> simp [Buf.trimToFlagOrEnd, Buf.extend, Buf.trimToPos, Buf.empty]
  · by_cases hover : r.buf.trimToPos.inp.length + r.raw.length > p1Guard
    · simp only [hover, decide_true, if_true, Buf.trimToFlagOrEnd, Buf.extend, Buf.empty,
        List.nil_append, List.length_nil]
      have := length_dropWhile_le notStart chunk
      omega
    · simp only [hover, decide_false, Bool.false_eq_true, if_false]
      have hle : r.buf.trimToPos.inp.length + r.raw.length ≤ p1Guard := by omega
      split
      · simp only [Buf.trimToFlagOrEnd, Buf.extend]
        have := length_dropWhile_le notStart (r.buf.trimToPos.inp ++ chunk)
        rw [List.length_append] at this
        omega
      · simp only [Buf.extend, List.length_append]
        omega

theorem read_bounds (r : Reader) (chunk : List Nat) (r' : Reader) (outs : List Readout)
    (h : read r chunk = .ok (r', outs)) :
    r'.size ≤ 2 * p1Guard + 2 * chunk.length ∧
      r'.buf.inp.length + r'.raw.length ≤ p1Guard + chunk.length := by
  obtain ⟨b, raw, hunt, hrd, hc, hle⟩ := read_start r chunk
  rw [hrd] at h
  obtain ⟨h1, h2⟩ := loop_bound _ _ _ _ _ _ h
  simp only [Reader.size, Buf.size]
  constructor <;> omega

/-! ### unfolding `loop` on concrete inputs -/

theorem loop_step {b : Buf} {raw : List Nat} {hunt : Bool} {out : List Readout} {line : List Nat}
    {b1 : Buf} {raw1 : List Nat} {hunt1 : Bool} {ro : Option Readout}
    (hp : b.pop = some (line, b1)) (hl : handleLine raw hunt line = .ok (raw1, hunt1, ro)) :
    loop b raw hunt out = loop b1 raw1 hunt1 (out ++ ro.toList) := by
  rw [loop]
  split
  · rename_i h; rw [hp] at h; cases h
  · rename_i l b' h
    rw [hp] at h
    simp only [Option.some.injEq, Prod.mk.injEq] at h
    obtain ⟨rfl, rfl⟩ := h
    rw [hl]

theorem loop_stop {b : Buf} {raw : List Nat} {hunt : Bool} {out : List Readout}
    (hp : b.pop = none) : loop b raw hunt out = .ok ({ buf := b, raw := raw, hunt := hunt }, out) := by
  rw [loop]
  split
  · rfl
  · rename_i h; rw [hp] at h; cases h

theorem pop_line (c : Nat) (l rest : List Nat) (hl : ∀ a ∈ l, notLf a = true) :
    Buf.pop { consumed := c, inp := l ++ p1Lf :: rest }
      = some (l ++ [p1Lf], { consumed := c + l.length + 1, inp := rest }) := by
  have hn : ¬ notLf p1Lf = true := by decide
  simp only [Buf.pop, List.takeWhile_append_of_pos hl, List.dropWhile_append_of_pos hl,
    List.takeWhile_cons_of_neg hn, List.dropWhile_cons_of_neg hn, List.append_nil]

theorem pop_noLf (c : Nat) (l : List Nat) (hl : ∀ a ∈ l, notLf a = true) :
    Buf.pop { consumed := c, inp := l } = none := by
  have h := List.dropWhile_append_of_pos (l₂ := []) hl
  simp only [List.append_nil, List.dropWhile_nil] at h
  simp only [Buf.pop, h]

/-! ### the size is not bounded by `p1Guard + 2 * chunk.length` -/

def cexHead : List Nat := [47, 65, 66, 67, 53, 13, 10]
def cexFill (n : Nat) : List Nat := List.replicate (n + 1) 97
def cexReader (n : Nat) : Reader :=
  { buf := { consumed := 7, inp := cexFill n }, raw := cexHead, hunt := false }

theorem cexFill_noLf (n : Nat) : ∀ a ∈ cexFill n, notLf a = true := by
  intro a ha
  rw [List.eq_of_mem_replicate ha]; decide

theorem cex_reachable (n : Nat) : Reachable (cexReader n) := by
  refine ⟨[cexHead ++ cexFill n], [[]], ?_⟩
  have h0 : read Reader.init (cexHead ++ cexFill n)
      = loop { consumed := 0, inp := [47, 65, 66, 67, 53, 13] ++ p1Lf :: cexFill n } [] true [] := rfl
  have h1 := pop_line 0 [47, 65, 66, 67, 53, 13] (cexFill n) (by decide)
  have h2 : handleLine [] true ([47, 65, 66, 67, 53, 13] ++ [p1Lf]) = .ok (cexHead, false, none) := by
    decide
  have h3 := pop_noLf (0 + [47, 65, 66, 67, 53, 13].length + 1) (cexFill n) (cexFill_noLf n)
  simp only [readAll, h0, loop_step h1 h2, loop_stop h3]
  rfl

theorem cex_read (n : Nat) (hn : n + 8 ≤ p1Guard) : read (cexReader n) [p1Lf] =
    .ok ({ buf := { consumed := n + 2, inp := [] }, raw := cexHead ++ (cexFill n ++ [p1Lf]),
           hunt := false }, []) := by
  have hlen : (cexFill n).length = n + 1 := List.length_replicate
  have hover : ¬ ((cexReader n).buf.trimToPos.inp.length + (cexReader n).raw.length > p1Guard) := by
    simp only [cexReader, Buf.trimToPos, hlen, cexHead, List.length_cons, List.length_nil]
    omega
  have h0 : read (cexReader n) [p1Lf]
      = loop { consumed := 0, inp := cexFill n ++ p1Lf :: [] } cexHead false [] := by
    simp only [read, hover, decide_false, Bool.false_eq_true, if_false]
    rfl
  have h1 := pop_line 0 (cexFill n) [] (cexFill_noLf n)
  have h2 : handleLine cexHead false (cexFill n ++ [p1Lf])
      = .ok (cexHead ++ (cexFill n ++ [p1Lf]), false, none) := by
    simp only [cexFill, List.replicate_succ, List.cons_append, handleLine, Bool.false_eq_true,
      if_false]
    rfl
  have h3 := pop_noLf (0 + (cexFill n).length + 1) [] (by simp)
  rw [h0, loop_step h1 h2, loop_stop h3, hlen]
  simp only [Option.toList, List.append_nil, Nat.zero_add]

/-- a reachable reader and a one-octet chunk after which `size` is `2 * p1Guard - 5` -/
theorem size_not_guard_plus_two_chunks :
    ∃ r chunk r' outs, Reachable r ∧ read r chunk = .ok (r', outs) ∧
      ¬ r'.size ≤ p1Guard + 2 * chunk.length := by
  refine ⟨_, _, _, _, cex_reachable (p1Guard - 8), cex_read (p1Guard - 8) (by decide), ?_⟩
  simp only [Reader.size, Buf.size, List.length_append, cexFill, List.length_replicate, cexHead,
    List.length_cons, List.length_nil]
  decide

end Amshan.P1
