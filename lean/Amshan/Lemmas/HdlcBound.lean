import Amshan.Lemmas.HdlcRun
/-
  C19 (HDLC): a size invariant of the reader core that every `_read_next` call preserves.

  Every octet appended to `_raw_frame_data` either appends one octet to the frame, or (octet
  stuffing) arms `_unescape_next`; the armed escape is consumed by the very next octet.  Hence
  `raw.length ≤ 2 * frame.len + (1 if an escape is pending)`, and the frame is cut at
  `maxFrameLen` by the over-length check.
-/
namespace Amshan.Hdlc
open Amshan.Gen

theorem maxFrameLen_eq : maxFrameLen = 2047 := rfl

@[simp] theorem Frame.append_len (f : Frame) (b : Nat) : (f.append b).len = f.len + 1 := by
  simp only [Frame.len, Frame.append, List.length_append, List.length_cons, List.length_nil]

@[simp] theorem Frame.empty_len : Frame.empty.len = 0 := rfl

/-- 1 when an escape is pending -/
def esc1 (b : Bool) : Nat := if b then 1 else 0

@[simp] theorem esc1_true : esc1 true = 1 := rfl
@[simp] theorem esc1_false : esc1 false = 0 := rfl
theorem esc1_le (b : Bool) : esc1 b ≤ 1 := by cases b <;> simp

/-- the over-length check shared by `_handle_flag_sequence` and `_read_next` -/
def lenCheck (c1 : Core) : Core × Act :=
  match c1.frame with
  | some f1 => if f1.len > maxFrameLen then (gotoHunt c1, .hunt) else (c1, .cont)
  | none => (c1, .cont)

/-- the size invariant between two `_read_next` calls -/
def Bnd (c : Core) : Prop :=
  match c.frame with
  | some f => f.len ≤ maxFrameLen ∧ c.raw.length ≤ 2 * f.len + esc1 c.unescapeNext
  | none => c.raw.length ≤ 2 * maxFrameLen + 3

/-- the size invariant after `_append_to_frame`, before the over-length check -/
def PreBnd (c : Core) : Prop :=
  match c.frame with
  | some f => f.len ≤ maxFrameLen + 1 ∧ c.raw.length ≤ 2 * f.len + esc1 c.unescapeNext
  | none => c.raw.length ≤ 2 * maxFrameLen + 3

theorem Bnd_init : Bnd Core.init := by
  simp only [Bnd, Core.init, List.length_nil, Nat.zero_le]

theorem Bnd_startFrame (c : Core) : Bnd (startFrame c) := by
  simp only [Bnd, startFrame, Frame.empty_len, List.length_nil, esc1_false, Nat.zero_le, and_self,
    Nat.mul_zero, Nat.add_zero, Nat.le_refl]

theorem Bnd_some {c : Core} {f : Frame} (hf : c.frame = some f) (h : Bnd c) :
    f.len ≤ maxFrameLen ∧ c.raw.length ≤ 2 * f.len + esc1 c.unescapeNext := by
  simpa only [Bnd, hf] using h

theorem Bnd_none {c : Core} (hf : c.frame = none) (h : Bnd c) :
    c.raw.length ≤ 2 * maxFrameLen + 3 := by
  simpa only [Bnd, hf] using h

/-- the retained raw history is bounded in both modes -/
theorem Bnd_raw {c : Core} (h : Bnd c) : c.raw.length ≤ 2 * maxFrameLen + 3 := by
  cases hf : c.frame with
  | none => exact Bnd_none hf h
  | some f =>
    obtain ⟨h1, h2⟩ := Bnd_some hf h
    have := esc1_le c.unescapeNext
    omega

theorem PreBnd_appendToFrame (cfg : Cfg) (c : Core) (f : Frame) (x : Nat)
    (hf : c.frame = some f) (h : Bnd c) : PreBnd (appendToFrame cfg c f x) := by
  obtain ⟨h1, h2⟩ := Bnd_some hf h
  unfold appendToFrame
  cases cfg.stuffing with
  | false =>
    simp only [Bool.false_eq_true, if_false, PreBnd, Frame.append_len, List.length_append,
      List.length_cons, List.length_nil]
    omega
  | true =>
    simp only [if_true]
    cases hu : c.unescapeNext with
    | true =>
      rw [hu] at h2
      simp only [if_true, PreBnd, Frame.append_len, List.length_append, List.length_cons,
        List.length_nil, esc1_false, esc1_true] at h2 ⊢
      omega
    | false =>
      rw [hu] at h2
      simp only [Bool.false_eq_true, if_false]
      split
      · simp only [PreBnd, List.length_append, List.length_cons, List.length_nil, esc1_true,
          esc1_false] at h2 ⊢
        omega
      · simp only [PreBnd, Frame.append_len, List.length_append, List.length_cons,
          List.length_nil, esc1_false] at h2 ⊢
        omega

theorem Bnd_lenCheck (c1 : Core) (h : PreBnd c1) : Bnd (lenCheck c1).1 := by
  unfold lenCheck
  cases hf : c1.frame with
  | none =>
    simp only [Bnd, hf]
    simpa only [PreBnd, hf] using h
  | some f1 =>
    have h' : f1.len ≤ maxFrameLen + 1 ∧ c1.raw.length ≤ 2 * f1.len + esc1 c1.unescapeNext := by
      simpa only [PreBnd, hf] using h
    simp only
    split
    · have := esc1_le c1.unescapeNext
      simp only [Bnd, gotoHunt]
      omega
    · simp only [Bnd, hf]
      omega

theorem Bnd_gotoHunt (c : Core) (h : Bnd c) : Bnd (gotoHunt c) := by
  have := Bnd_raw h
  simpa only [Bnd, gotoHunt] using this

theorem handleFlag_eq (cfg : Cfg) (c : Core) :
    handleFlag cfg c =
      match c.frame with
      | none => (startFrame c, .cont)
      | some f =>
        if f.len = 0 then ({ c with raw := [], unescapeNext := false }, .cont)
        else if f.hcs.isNone then (gotoHunt c, .hunt)
        else if cfg.abort && decide (c.raw.length > 1) && (c.raw.getLast? == some escOctet) then
          (gotoHunt c, .hunt)
        else if cfg.stuffing then (c, .complete)
        else if f.isExpectedLength then (c, .complete)
        else lenCheck (appendToFrame cfg c f flagOctet) := rfl

theorem readNext_eq (cfg : Cfg) (c : Core) (x : Nat) :
    readNext cfg c x =
      if x = flagOctet then handleFlag cfg c
      else
        match c.frame with
        | none => (c, .cont)
        | some f => lenCheck (appendToFrame cfg c f x) := rfl

theorem Bnd_handleFlag (cfg : Cfg) (c : Core) (h : Bnd c) : Bnd (handleFlag cfg c).1 := by
  rw [handleFlag_eq]
  cases hf : c.frame with
  | none => exact Bnd_startFrame c
  | some f =>
    simp only
    split
    · next h0 =>
      simp only [Bnd, h0, List.length_nil, esc1_false, Nat.zero_le, and_self]
    · split
      · exact Bnd_gotoHunt c h
      · split
        · exact Bnd_gotoHunt c h
        · split
          · exact h
          · split
            · exact h
            · exact Bnd_lenCheck _ (PreBnd_appendToFrame cfg c f flagOctet hf h)

theorem Bnd_readNext (cfg : Cfg) (c : Core) (x : Nat) (h : Bnd c) : Bnd (readNext cfg c x).1 := by
  rw [readNext_eq]
  split
  · exact Bnd_handleFlag cfg c h
  · cases hf : c.frame with
    | none => exact h
    | some f => exact Bnd_lenCheck _ (PreBnd_appendToFrame cfg c f x hf h)

theorem Bnd_stepOctet (cfg : Cfg) (c : Core) (x : Nat) (h : Bnd c) : Bnd (stepOctet cfg c x).1 := by
  have h1 := Bnd_readNext cfg c x h
  unfold stepOctet
  split
  · next c1 heq => rw [heq] at h1; exact h1
  · next c1 heq => rw [heq] at h1; exact h1
  · next c1 heq => exact Bnd_startFrame c1

theorem Bnd_run (cfg : Cfg) (c : Core) (inp : List Nat) (h : Bnd c) : Bnd (run cfg c inp).1 := by
  induction inp generalizing c with
  | nil => exact h
  | cons x xs ih =>
    rw [run_cons]
    exact ih _ (Bnd_stepOctet cfg c x h)

/-- the size retained by a core satisfying the invariant -/
theorem Bnd_size {c : Core} (h : Bnd c) :
    c.raw.length + (match c.frame with | some f => f.len | none => 0) ≤ 3 * maxFrameLen + 1 := by
  cases hf : c.frame with
  | none =>
    have := Bnd_none hf h
    simp only [maxFrameLen_eq] at this ⊢
    omega
  | some f =>
    obtain ⟨h1, h2⟩ := Bnd_some hf h
    have := esc1_le c.unescapeNext
    simp only
    omega

theorem Reader.size_of_buf_empty (r : Reader) (hb : r.buf = Buf.empty) :
    r.size = r.core.raw.length + (match r.core.frame with | some f => f.len | none => 0) := by
  simp only [Reader.size, hb, Buf.size, Buf.empty, List.length_nil, Nat.zero_add]
  rfl

/-- reachable readers satisfy the size invariant -/
theorem Reachable.bnd {cfg : Cfg} {r : Reader} (h : Reachable cfg r) : Bnd r.core := by
  obtain ⟨s, rfl⟩ := h.exists_run
  exact Bnd_run cfg Core.init s Bnd_init

end Amshan.Hdlc
