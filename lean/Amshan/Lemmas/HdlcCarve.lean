import Amshan.Model.HdlcDefs
/-
  C01 (framing): the data of the frames returned by `run` are the decoded images of segments carved
  out of the input between flag octets (`HdlcSpec.Carve`).

  Method: an invariant `FInv` ties the frame under construction to the raw octets collected since
  the opening flag (`f.data = decode stuffing c.raw`, pending escape = `pendEsc c.raw`); one input
  octet has four possible effects (`FStep`); `run_carve` is the induction over the remaining input.
-/
namespace Amshan.Hdlc
open Amshan.Gen Amshan.HdlcSpec

/-! ### constants -/

theorem flagOctet_eq_flag : flagOctet = flag := rfl
theorem escOctet_eq_esc : escOctet = esc := rfl
theorem escXor_eq : escXor = 0x20 := rfl

/-! ### `Carve` -/

/-- octets in front of a carved stream are junk -/
theorem carve_prepend (a : List Nat) {u : List Nat} {segs : List (List Nat)} (h : Carve u segs) :
    Carve (a ++ u) segs := by
  cases h with
  | nil => exact Carve.nil _
  | cons junk seg rest segs h =>
    have e : a ++ (junk ++ flag :: seg ++ flag :: rest) = (a ++ junk) ++ flag :: seg ++ flag :: rest := by
      simp only [List.append_assoc]
    rw [e]
    exact Carve.cons (a ++ junk) seg rest segs h

theorem carve_prepend_one (x : Nat) {u : List Nat} {segs : List (List Nat)} (h : Carve u segs) :
    Carve (x :: u) segs := carve_prepend [x] h

/-- `CarveOpen raw u segs`: an opening flag and the octets `raw` have been read, `u` remains.
    Either the first segment is `raw` extended up to a flag of `u`, or the open frame is abandoned and
    all segments lie in `u`. -/
def CarveOpen (raw u : List Nat) (segs : List (List Nat)) : Prop :=
  (∃ pre rest segs', u = pre ++ flag :: rest ∧ segs = (raw ++ pre) :: segs' ∧ Carve (flag :: rest) segs')
  ∨ Carve u segs

/-- with nothing collected yet, the opening flag can be put back in front -/
theorem CarveOpen.flag_nil {u : List Nat} {segs : List (List Nat)} (h : CarveOpen [] u segs) :
    Carve (flag :: u) segs := by
  rcases h with ⟨pre, rest, segs', hu, hs, hc⟩ | h
  · subst hu hs
    have := Carve.cons [] pre rest segs' hc
    simpa only [List.nil_append, List.cons_append] using this
  · exact carve_prepend_one flag h

/-- one more octet collected -/
theorem CarveOpen.snoc {raw u : List Nat} {x : Nat} {segs : List (List Nat)}
    (h : CarveOpen (raw ++ [x]) u segs) : CarveOpen raw (x :: u) segs := by
  rcases h with ⟨pre, rest, segs', hu, hs, hc⟩ | h
  · refine Or.inl ⟨x :: pre, rest, segs', ?_, ?_, hc⟩
    · rw [hu]; rfl
    · rw [hs]; simp only [List.append_assoc, List.cons_append, List.nil_append]
  · exact Or.inr (carve_prepend_one x h)

/-- the open frame is abandoned -/
theorem CarveOpen.abandon {raw u : List Nat} (x : Nat) {segs : List (List Nat)} (h : Carve u segs) :
    CarveOpen raw (x :: u) segs := Or.inr (carve_prepend_one x h)

/-- the open frame is closed by the next octet, a flag, which opens the next one -/
theorem CarveOpen.close {raw u : List Nat} {segs : List (List Nat)} (h : CarveOpen [] u segs) :
    CarveOpen raw (flag :: u) (raw :: segs) :=
  Or.inl ⟨[], u, segs, rfl, by simp only [List.append_nil], h.flag_nil⟩

/-! ### un-stuffing from left to right -/

/-- the raw octets end with an unpaired escape octet -/
def pendEsc : List Nat → Bool
  | [] => false
  | [b] => decide (b = esc)
  | b :: c :: rest => if b = esc then pendEsc rest else pendEsc (c :: rest)

theorem unstuff_pendEsc_snoc (raw : List Nat) (x : Nat) :
    unstuff (raw ++ [x]) =
      (if pendEsc raw = true then unstuff raw ++ [x ^^^ 0x20]
       else if x = esc then unstuff raw else unstuff raw ++ [x]) ∧
    pendEsc (raw ++ [x]) = (if pendEsc raw = true then false else decide (x = esc)) := by
  induction raw using unstuff.induct with
  | case1 =>
    by_cases hx : x = esc <;> simp [unstuff, pendEsc, hx]
  | case2 =>
    simp [unstuff, pendEsc]
  | case3 b hb =>
    by_cases hx : x = esc <;> simp [unstuff, pendEsc, hb, hx]
  | case4 c rest ih =>
    obtain ⟨ih1, ih2⟩ := ih
    simp only [List.cons_append, unstuff, pendEsc, if_true, ih1, ih2, and_true]
    split
    · rfl
    · split <;> rfl
  | case5 b c rest hb ih =>
    obtain ⟨ih1, ih2⟩ := ih
    simp only [List.cons_append] at ih1 ih2
    simp only [List.cons_append, unstuff, pendEsc, hb, if_false, ih1, ih2, and_true]
    split
    · rfl
    · split <;> rfl

/-! ### the invariant -/

/-- the frame under construction is the decoded image of the raw octets since the opening flag -/
structure FInv (cfg : Cfg) (c : Core) (f : Frame) : Prop where
  fr : c.frame = some f
  data : f.data = decode cfg.stuffing c.raw
  pend : cfg.stuffing = true → c.unescapeNext = pendEsc c.raw

theorem FInv.start (cfg : Cfg) (c : Core) : FInv cfg (startFrame c) Frame.empty := by
  refine ⟨rfl, ?_, fun _ => rfl⟩
  cases h : cfg.stuffing <;> rfl

theorem carve_append_data (f : Frame) (b : Nat) : (f.append b).data = f.data ++ [b] := rfl

theorem FInv.append {cfg : Cfg} {c : Core} {f : Frame} (h : FInv cfg c f) (x : Nat) :
    (appendToFrame cfg c f x).raw = c.raw ++ [x] ∧
    ∃ f', FInv cfg (appendToFrame cfg c f x) f' := by
  obtain ⟨hfr, hd, hp⟩ := h
  obtain ⟨hs1, hs2⟩ := unstuff_pendEsc_snoc c.raw x
  unfold appendToFrame
  cases hst : cfg.stuffing with
  | false =>
    simp only [Bool.false_eq_true, if_false, true_and]
    refine ⟨_, rfl, ?_, fun h => absurd h (by simp [hst])⟩
    simp only [hst, decode, Bool.false_eq_true, if_false, carve_append_data] at hd ⊢
    rw [hd]
  | true =>
    have hp' := hp hst
    simp only [hst, decode, if_true] at hd
    simp only [if_true]
    cases hpe : pendEsc c.raw with
    | true =>
      rw [hpe] at hp'
      simp only [hp', if_true, true_and]
      refine ⟨_, rfl, ?_, fun _ => ?_⟩
      · simp only [hst, decode, if_true, carve_append_data, hs1, hpe, hd, escXor_eq]
      · simp only [hs2, hpe, if_true]
    | false =>
      rw [hpe] at hp'
      simp only [hp', Bool.false_eq_true, if_false]
      by_cases hx : x = esc
      · subst hx
        simp only [escOctet_eq_esc, if_true, true_and]
        refine ⟨_, rfl, ?_, fun _ => ?_⟩
        · simp only [hst, decode, if_true, hs1, hpe, hd, Bool.false_eq_true, if_false]
        · simp only [hs2, hpe, Bool.false_eq_true, if_false, decide_true]
      · simp only [escOctet_eq_esc, hx, if_false, true_and]
        refine ⟨_, rfl, ?_, fun _ => ?_⟩
        · simp only [hst, decode, if_true, carve_append_data, hs1, hpe, hd, hx, Bool.false_eq_true,
            if_false]
        · simp only [hs2, hpe, hx, Bool.false_eq_true, if_false, decide_false]

/-! ### one octet -/

/-- `_append_to_frame` followed by the maximum-length check (shared by `readNext`, `handleFlag`) -/
def appendMax (cfg : Cfg) (c : Core) (f : Frame) (x : Nat) : Core × Act :=
  let c1 := appendToFrame cfg c f x
  match c1.frame with
  | some f1 => if f1.len > maxFrameLen then (gotoHunt c1, .hunt) else (c1, .cont)
  | none => (c1, .cont)

/-- the effect of one input octet `x` on a reader with an open frame `f` -/
def FStep (cfg : Cfg) (c : Core) (f : Frame) (x : Nat) (r : Core × List Frame) : Prop :=
  -- the frame is abandoned
  (r.1.frame = none ∧ r.2 = []) ∨
  -- the octet is collected
  (r.2 = [] ∧ r.1.raw = c.raw ++ [x] ∧ ∃ f', FInv cfg r.1 f') ∨
  -- a flag directly after the opening flag: it becomes the opening flag
  (x = flag ∧ r.2 = [] ∧ r.1.raw = [] ∧ ∃ f', FInv cfg r.1 f') ∨
  -- a closing flag, which is also the next opening flag
  (x = flag ∧ r.2 = [f] ∧ r.1.raw = [] ∧ ∃ f', FInv cfg r.1 f')

theorem appendMax_cases {cfg : Cfg} {c : Core} {f : Frame} (h : FInv cfg c f) (x : Nat) :
    (∃ c1, appendMax cfg c f x = (c1, .hunt) ∧ c1.frame = none) ∨
    (∃ c1, appendMax cfg c f x = (c1, .cont) ∧ c1.raw = c.raw ++ [x] ∧ ∃ f', FInv cfg c1 f') := by
  obtain ⟨hraw, f', hf'⟩ := h.append x
  unfold appendMax
  simp only [hf'.fr]
  split
  · exact Or.inl ⟨_, rfl, rfl⟩
  · exact Or.inr ⟨_, rfl, hraw, f', hf'⟩

theorem stepOctet_of_appendMax {cfg : Cfg} {c : Core} {f : Frame} (h : FInv cfg c f) (x : Nat)
    (hr : readNext cfg c x = appendMax cfg c f x) : FStep cfg c f x (stepOctet cfg c x) := by
  unfold stepOctet
  rw [hr]
  rcases appendMax_cases h x with ⟨c1, e, hc1⟩ | ⟨c1, e, hraw, hf'⟩
  · rw [e]; exact Or.inl ⟨hc1, rfl⟩
  · rw [e]; exact Or.inr (Or.inl ⟨rfl, hraw, hf'⟩)

theorem stepOctet_hunt_flag (cfg : Cfg) {c : Core} (hc : c.frame = none) :
    stepOctet cfg c flag = (startFrame c, []) := by
  unfold stepOctet readNext handleFlag
  rw [if_pos flagOctet_eq_flag.symm]
  simp only [hc]

theorem stepOctet_hunt_other (cfg : Cfg) {c : Core} {x : Nat} (hc : c.frame = none) (hx : x ≠ flag) :
    stepOctet cfg c x = (c, []) := by
  unfold stepOctet readNext
  rw [if_neg (by rw [flagOctet_eq_flag]; exact hx)]
  simp only [hc]

theorem stepOctet_frame_other {cfg : Cfg} {c : Core} {f : Frame} (h : FInv cfg c f) {x : Nat}
    (hx : x ≠ flag) : FStep cfg c f x (stepOctet cfg c x) := by
  apply stepOctet_of_appendMax h
  unfold readNext appendMax
  rw [if_neg (by rw [flagOctet_eq_flag]; exact hx)]
  simp only [h.fr]
  rfl

theorem stepOctet_frame_flag {cfg : Cfg} {c : Core} {f : Frame} (h : FInv cfg c f) :
    FStep cfg c f flag (stepOctet cfg c flag) := by
  by_cases h0 : f.len = 0
  · -- flag directly after the opening flag
    have e : stepOctet cfg c flag = ({ c with raw := [], unescapeNext := false }, []) := by
      unfold stepOctet readNext handleFlag
      rw [if_pos flagOctet_eq_flag.symm]
      simp only [h.fr, h0, if_true]
    rw [e]
    refine Or.inr (Or.inr (Or.inl ⟨rfl, rfl, rfl, f, h.fr, ?_, fun _ => rfl⟩))
    have : f.data = [] := List.eq_nil_of_length_eq_zero h0
    rw [this]
    cases hst : cfg.stuffing <;> rfl
  · by_cases h1 : f.hcs.isNone = true
    · have e : stepOctet cfg c flag = (gotoHunt c, []) := by
        unfold stepOctet readNext handleFlag
        rw [if_pos flagOctet_eq_flag.symm]
        simp only [h.fr, h0, if_false, h1, if_true]
      rw [e]; exact Or.inl ⟨rfl, rfl⟩
    · by_cases h2 : (cfg.abort && decide (c.raw.length > 1) && (c.raw.getLast? == some escOctet)) = true
      · have e : stepOctet cfg c flag = (gotoHunt c, []) := by
          unfold stepOctet readNext handleFlag
          rw [if_pos flagOctet_eq_flag.symm]
          simp only [h.fr, h0, if_false, h1, h2, if_true, Bool.false_eq_true]
        rw [e]; exact Or.inl ⟨rfl, rfl⟩
      · have hcomplete : stepOctet cfg c flag = (startFrame c, [f]) →
            FStep cfg c f flag (stepOctet cfg c flag) := by
          intro e
          rw [e]
          exact Or.inr (Or.inr (Or.inr ⟨rfl, rfl, rfl, _, FInv.start cfg c⟩))
        by_cases h3 : cfg.stuffing = true
        · apply hcomplete
          unfold stepOctet readNext handleFlag
          rw [if_pos flagOctet_eq_flag.symm]
          simp only [h.fr, h0, if_false, h1, h2, h3, if_true, Option.toList_some, startFrame, Bool.false_eq_true]
        · by_cases h4 : f.isExpectedLength = true
          · apply hcomplete
            unfold stepOctet readNext handleFlag
            rw [if_pos flagOctet_eq_flag.symm]
            simp only [h.fr, h0, if_false, h1, h2, h3, h4, if_true, Option.toList_some, startFrame, Bool.false_eq_true]
          · have := stepOctet_of_appendMax h flagOctet (by
              unfold readNext handleFlag appendMax
              rw [if_pos rfl]
              simp only [h.fr, h0, if_false, h1, h2, h3, h4, Bool.false_eq_true]
              rfl)
            rw [flagOctet_eq_flag] at this
            exact this

/-! ### the induction -/

theorem run_cons' (cfg : Cfg) (c : Core) (x : Nat) (xs : List Nat) :
    (run cfg c (x :: xs)).2 = (stepOctet cfg c x).2 ++ (run cfg (stepOctet cfg c x).1 xs).2 := rfl

theorem run_carve (cfg : Cfg) (u : List Nat) : ∀ c : Core,
    (c.frame = none →
      ∃ segs, Carve u segs ∧ (run cfg c u).2.map (·.data) = segs.map (decode cfg.stuffing)) ∧
    (∀ f, FInv cfg c f →
      ∃ segs, CarveOpen c.raw u segs ∧
        (run cfg c u).2.map (·.data) = segs.map (decode cfg.stuffing)) := by
  induction u with
  | nil =>
    intro c
    exact ⟨fun _ => ⟨[], Carve.nil _, rfl⟩, fun _ _ => ⟨[], Or.inr (Carve.nil _), rfl⟩⟩
  | cons x u ih =>
    intro c
    constructor
    · intro hc
      by_cases hx : x = flag
      · subst hx
        rw [run_cons', stepOctet_hunt_flag cfg hc]
        obtain ⟨segs, hco, hd⟩ := (ih (startFrame c)).2 _ (FInv.start cfg c)
        exact ⟨segs, hco.flag_nil, by simpa only [List.nil_append] using hd⟩
      · rw [run_cons', stepOctet_hunt_other cfg hc hx]
        obtain ⟨segs, hca, hd⟩ := (ih c).1 hc
        exact ⟨segs, carve_prepend_one x hca, by simpa only [List.nil_append] using hd⟩
    · intro f hf
      have hstep : FStep cfg c f x (stepOctet cfg c x) := by
        by_cases hx : x = flag
        · subst hx; exact stepOctet_frame_flag hf
        · exact stepOctet_frame_other hf hx
      rw [run_cons']
      generalize stepOctet cfg c x = r at hstep
      obtain ⟨c', out⟩ := r
      rcases hstep with ⟨hfr, ho⟩ | ⟨ho, hraw, f', hf'⟩ | ⟨hx, ho, hraw, f', hf'⟩ |
        ⟨hx, ho, hraw, f', hf'⟩
      · simp only at hfr ho
        subst ho
        obtain ⟨segs, hca, hd⟩ := (ih c').1 hfr
        exact ⟨segs, CarveOpen.abandon x hca, by simpa only [List.nil_append] using hd⟩
      · simp only at ho hraw hf'
        subst ho
        obtain ⟨segs, hco, hd⟩ := (ih c').2 f' hf'
        rw [hraw] at hco
        exact ⟨segs, hco.snoc, by simpa only [List.nil_append] using hd⟩
      · simp only at ho hraw hf'
        subst ho hx
        obtain ⟨segs, hco, hd⟩ := (ih c').2 f' hf'
        rw [hraw] at hco
        exact ⟨segs, Or.inr hco.flag_nil, by simpa only [List.nil_append] using hd⟩
      · simp only at ho hraw hf'
        subst ho hx
        obtain ⟨segs, hco, hd⟩ := (ih c').2 f' hf'
        rw [hraw] at hco
        refine ⟨c.raw :: segs, hco.close, ?_⟩
        simp only [List.cons_append, List.nil_append, List.map_cons, hd, hf.data]

/-- C01 framing, from any reader in hunt mode -/
theorem run_carve_hunt (cfg : Cfg) (c : Core) (hc : c.frame = none) (u : List Nat) :
    ∃ segs, Carve u segs ∧ (run cfg c u).2.map (·.data) = segs.map (decode cfg.stuffing) :=
  (run_carve cfg u c).1 hc

end Amshan.Hdlc
