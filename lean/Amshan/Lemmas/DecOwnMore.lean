import Amshan.Lemmas.DecOwnBody
/-
  Lemmas for Props/C12More:
    * histories: an AutoDecoder that is given one message after another, each of which a FRESH
      AutoDecoder would give to decoder `k`, gives every one of them to decoder `k` (induction over
      `Auto.runHistory`), also with payloads nobody accepts in between;
    * Kaifa_frame rejects a Kamstrup frame whatever the null-data padding after the version string;
    * the decoder table `decode_message` uses for a P1 readout, and which of its entries reject text.
-/
namespace Amshan.DecOwnMore
open Amshan.Gen Amshan.Cosem Amshan.Dec Amshan.Auto Amshan.ListSpec Amshan.DecTotal Amshan.DecOwn
  Amshan.DecOwnBody

/-! ### histories, for any decoder table -/

variable {α β μ : Type}

theorem runHistory_nil (decs : List (Decoder α β)) (caught : PyExc → Bool) (prev : Option Nat) :
    runHistory decs caught prev [] = .ok (prev, []) := rfl

theorem runHistory_cons_of_step (decs : List (Decoder α β)) (caught : PyExc → Bool) (prev prev1 : Option Nat)
    (p : α) (ps : List α) (r : Option β) (h : step decs caught prev p = .ok (prev1, r)) :
    runHistory decs caught prev (p :: ps) =
      match runHistory decs caught prev1 ps with
      | .error e => .error e
      | .ok (prev2, rs) => .ok (prev2, r :: rs) := by
  rw [runHistory, h]
  rfl

/-- a payload every decoder rejects leaves the memory alone and yields `None` -/
theorem step_junk (decs : List (Decoder α β)) (caught : PyExc → Bool) (hc : ∀ e, caught e = true)
    (prev : Option Nat) (p : α) (h : ∀ d ∈ decs, C12.accepts d p = false) :
    step decs caught prev p = .ok (prev, none) := by
  obtain ⟨prev', hp⟩ := (C12.none_iff_all_reject decs caught hc prev p).2 h
  have := C12.previous_unchanged_on_none decs caught prev prev' p hp
  rw [hp, this]

/-- decoder `k` is remembered and accepts every message: every result is its own, `k` stays -/
theorem runHistory_remembered (decs : List (Decoder α β)) (caught : PyExc → Bool) (k : Nat)
    (d : Decoder α β) (hk : decs[k]? = some d) (enc : μ → α) (exp : μ → β) :
    ∀ ms : List μ, (∀ q ∈ ms, d (enc q) = .ok (exp q)) →
      runHistory decs caught (some k) (ms.map enc) = .ok (some k, ms.map fun q => some (exp q)) := by
  intro ms
  induction ms with
  | nil => intro _; rfl
  | cons m ms ih =>
    intro h
    have hs := C12.prefers_previous decs caught k d (enc m) (exp m) hk (h m List.mem_cons_self)
    rw [List.map_cons, runHistory_cons_of_step decs caught _ _ _ _ _ hs,
      ih (fun q hq => h q (List.mem_cons_of_mem _ hq))]
    rfl

/-- the same with payloads nobody accepts in between (`exp q = none`) -/
theorem runHistory_remembered_junk (decs : List (Decoder α β)) (caught : PyExc → Bool)
    (hc : ∀ e, caught e = true) (k : Nat) (d : Decoder α β) (hk : decs[k]? = some d) (enc : μ → α)
    (exp : μ → Option β) :
    ∀ ms : List μ, (∀ q ∈ ms, (∃ v, exp q = some v ∧ d (enc q) = .ok v) ∨
        (exp q = none ∧ ∀ d' ∈ decs, C12.accepts d' (enc q) = false)) →
      runHistory decs caught (some k) (ms.map enc) = .ok (some k, ms.map exp) := by
  intro ms
  induction ms with
  | nil => intro _; rfl
  | cons m ms ih =>
    intro h
    have ih' := ih (fun q hq => h q (List.mem_cons_of_mem _ hq))
    rcases h m List.mem_cons_self with ⟨v, hv, hd⟩ | ⟨hn, hrej⟩
    · have hs := C12.prefers_previous decs caught k d (enc m) v hk hd
      rw [List.map_cons, runHistory_cons_of_step decs caught _ _ _ _ _ hs, ih', List.map_cons, hv]
    · have hs := step_junk decs caught hc (some k) (enc m) hrej
      rw [List.map_cons, runHistory_cons_of_step decs caught _ _ _ _ _ hs, ih', List.map_cons, hn]

/-- what a fresh AutoDecoder's choice of decoder `k` says about decoder `k` -/
theorem fresh_gives_decoder (decs : List (Decoder α β)) (caught : PyExc → Bool) (k : Nat) (p : α) (v : β)
    (h : step decs caught none p = .ok (some k, some v)) : ∃ d, decs[k]? = some d ∧ d p = .ok v := by
  obtain ⟨i, d, hi, hd, hv⟩ := C12.result_from_accepting decs caught none p (some k) v h
  cases hi
  exact ⟨d, hd, hv⟩

/-- **history of messages of one meter in one form.**  If each message of a non-empty history, given
    to a FRESH AutoDecoder, is decoded by decoder `k` (with result `exp q`), then the whole history
    given to ONE AutoDecoder yields exactly those results and decoder `k` is remembered. -/
theorem runHistory_of_fresh (decs : List (Decoder α β)) (caught : PyExc → Bool) (k : Nat)
    (enc : μ → α) (exp : μ → β) (ms : List μ) (hne : ms ≠ [])
    (hfresh : ∀ q ∈ ms, step decs caught none (enc q) = .ok (some k, some (exp q))) :
    runHistory decs caught none (ms.map enc) = .ok (some k, ms.map fun q => some (exp q)) := by
  cases ms with
  | nil => exact absurd rfl hne
  | cons m ms =>
    have hm := hfresh m List.mem_cons_self
    obtain ⟨d, hk, _⟩ := fresh_gives_decoder decs caught k (enc m) (exp m) hm
    have hrest : ∀ q ∈ ms, d (enc q) = .ok (exp q) := by
      intro q hq
      obtain ⟨d', hk', hv'⟩ := fresh_gives_decoder decs caught k (enc q) (exp q)
        (hfresh q (List.mem_cons_of_mem _ hq))
      rw [hk] at hk'
      cases hk'
      exact hv'
    rw [List.map_cons, runHistory_cons_of_step decs caught _ _ _ _ _ hm,
      runHistory_remembered decs caught k d hk enc exp ms hrest]
    rfl

/-- the same with payloads nobody accepts anywhere in the history (also before the first genuine
    message): results as for fresh AutoDecoders, `k` remembered from the first genuine message on -/
theorem runHistory_of_fresh_junk (decs : List (Decoder α β)) (caught : PyExc → Bool)
    (hc : ∀ e, caught e = true) (k : Nat) (enc : μ → α) (exp : μ → Option β) :
    ∀ ms : List μ, (∀ q ∈ ms, (∃ v, exp q = some v ∧ step decs caught none (enc q) = .ok (some k, some v)) ∨
        (exp q = none ∧ ∀ d' ∈ decs, C12.accepts d' (enc q) = false)) →
      runHistory decs caught none (ms.map enc) =
        .ok (if ms.any (fun q => (exp q).isSome) then some k else none, ms.map exp) := by
  intro ms
  induction ms with
  | nil => intro _; rfl
  | cons m ms ih =>
    intro h
    rcases h m List.mem_cons_self with ⟨v, hv, hm⟩ | ⟨hn, hrej⟩
    · obtain ⟨d, hk, _⟩ := fresh_gives_decoder decs caught k (enc m) v hm
      have hrest : ∀ q ∈ ms, (∃ v, exp q = some v ∧ d (enc q) = .ok v) ∨
          (exp q = none ∧ ∀ d' ∈ decs, C12.accepts d' (enc q) = false) := by
        intro q hq
        rcases h q (List.mem_cons_of_mem _ hq) with ⟨w, hw, hq'⟩ | hj
        · obtain ⟨d', hk', hv'⟩ := fresh_gives_decoder decs caught k (enc q) w hq'
          rw [hk] at hk'
          cases hk'
          exact Or.inl ⟨w, hw, hv'⟩
        · exact Or.inr hj
      rw [List.map_cons, runHistory_cons_of_step decs caught _ _ _ _ _ hm,
        runHistory_remembered_junk decs caught hc k d hk enc exp ms hrest]
      simp only [List.map_cons, List.any_cons, hv, Option.isSome_some, Bool.true_or, if_true]
    · have hs := step_junk decs caught hc none (enc m) hrej
      rw [List.map_cons, runHistory_cons_of_step decs caught _ _ _ _ _ hs,
        ih (fun q hq => h q (List.mem_cons_of_mem _ hq))]
      simp only [List.map_cons, List.any_cons, hn, Option.isSome_none, Bool.false_or]

/-! ### Kaifa_frame rejects a Kamstrup frame, with or without padding after the version string -/

/-- a two-element positional list is no documented Kaifa list: IndexError (AttributeError when the
    APDU date-time is null) -/
theorem normValues_two_any (apdu : Option ApduDT) (a b : FieldVal) :
    ∃ e, Kaifa.normValues apdu [a, b] = .error e := by
  have hn : (kaifaFieldLists.find? (fun l => l.length == 2)).getD [] = [] := by decide
  have hl : [a, b].length = 2 := rfl
  unfold Kaifa.normValues
  simp only [hl, hn]
  match apdu with
  | none => exact ⟨_, rfl⟩
  | some (.byte _) => exact ⟨_, rfl⟩
  | some (.dt _) => exact ⟨_, rfl⟩

theorem encKamList_shape_pad (l : KamList) (e : KamElem) (rest : List KamElem) (hel : l.elems = e :: rest) :
    encKamList l = [2, l.lenOctet] ++ ([10, l.version.length] ++ l.version ++
      (List.replicate l.versionPad 0 ++ ([9, 6] ++ e.obis ++
      (encKamVal e.value ++ List.replicate e.pad 0 ++
        rest.flatMap (fun e => encObis e.obis ++ encKamVal e.value ++ List.replicate e.pad 0))))) := by
  simp [encKamList, hel, encObis, List.append_assoc]

theorem kaifa_frame_rej_kam (hd : Header) (hh : hd.WF) (l : KamList) (h : l.WF) (hlen : 2 ≤ l.lenOctet)
    (hfirst : ∃ e rest, l.elems = e :: rest ∧ ∃ b ∈ e.obis, 128 ≤ b) :
    Rej (Kaifa.decodeFrame (encHeader hd ++ encKamList l)) := by
  obtain ⟨e, rest, hel, hb⟩ := hfirst
  obtain ⟨_, hver, _, hwf⟩ := h
  have ho : e.obis.length = 6 := (hwf e (by rw [hel]; exact List.mem_cons_self)).1.1
  rw [encKamList_shape_pad l e rest hel]
  generalize (encKamVal e.value ++ List.replicate e.pad 0 ++
        rest.flatMap (fun e => encObis e.obis ++ encKamVal e.value ++ List.replicate e.pad 0)) = tail
  have h1 : Kaifa.obisBody ([2, l.lenOctet] ++ ([10, l.version.length] ++ l.version ++
      (List.replicate l.versionPad 0 ++ ([9, 6] ++ e.obis ++ tail)))) = .soft := by
    have := kaifa_obisBody_kam l.lenOctet hlen ([l.version.length] ++ l.version ++
      (List.replicate l.versionPad 0 ++ ([9, 6] ++ e.obis ++ tail)))
    simpa only [List.cons_append, List.nil_append, List.append_assoc] using this
  unfold Kaifa.decodeFrame Kaifa.llcPdu Kaifa.select
  rw [C10.apdu_clock hd hh, C10.apdu_clock hd hh, h1]
  cases hp : l.versionPad with
  | zero =>
    have h2 := kaifa_valueBody_kam l.lenOctet hlen l.version e.obis tail hver ho hb
    simp only [List.replicate_zero, List.nil_append]
    rw [h2]
    exact rej_construct
  | succ k =>
    rcases kaifa_valueBody_kam_pad l.lenOctet hlen l.version k e.obis tail hver ho hb with h2 | ⟨r, h2⟩
    · rw [h2]; exact rej_construct
    · rw [h2]
      obtain ⟨e', he'⟩ := normValues_two_any (some (C10.clockOf hd.clock)) (.str l.version) .null
      simp only [Res.bind, he']
      exact rej_exc _

theorem rej_of_construct {o : Out} (h : o = .construct) : Rej o := h ▸ rej_construct

theorem rej_of_exc {o : Out} {e : PyExc} (h : o = .exc e) : Rej o := h ▸ rej_exc e

/-- decoder 2 on a fresh AutoDecoder, decoders 0 and 1 raising anything -/
theorem fresh2' (p : List Nat) (v : Dict) (h0 : Rej (Aidon.decodeFrame p)) (h1 : Rej (Kaifa.decodeFrame p))
    (h2 : Kamstrup.decodeFrame p = .dict v) : stepPayload none p = .ok (some 2, some v) := by
  refine step_fresh_k decoders caught p 2 _ v (by rw [decoders_eq]; rfl) ?_
    (decoders_lt p 2 (by omega) (fun _ => h0) (fun _ => h1) (fun h => absurd h (by omega))
      (fun h => absurd h (by omega)) (fun h => absurd h (by omega)) (fun h => absurd h (by omega)))
  simp only [h2, ofOut_dict]

/-! ### `decode_message` of a P1 readout -/

/-- the table `decode_message` uses for a readout: the "P1" entry decodes the READOUT (with its
    identification line) whatever payload it is handed -/
theorem decodersFor_p1 (r : P1.Readout) : decodersFor (.p1 r) =
    [fun p => ofOut (Aidon.decodeFrame p), fun p => ofOut (Kaifa.decodeFrame p),
     fun p => ofOut (Kamstrup.decodeFrame p), fun _ => P1Parse.decodeReadout r,
     fun p => ofOut (Aidon.decodeBody p), fun p => ofOut (Kaifa.decodeBody p),
     fun p => ofOut (Kamstrup.decodeBody p)] := by
  rfl

theorem stepMessage_p1 (prev : Option Nat) (r : P1.Readout) (hne : r.payload ≠ []) :
    stepMessage prev (.p1 r) = step (decodersFor (.p1 r)) caught prev r.payload := by
  have he : r.payload.isEmpty = false := by
    cases hp : r.payload with
    | nil => exact absurd hp hne
    | cons _ _ => rfl
  unfold stepMessage
  simp only [Message.payload, he, caughtMessage_eq]
  rfl

/-- decoders 0–2 of the readout table, by index -/
theorem decodersFor_p1_lt3 (r : P1.Readout) (p : List Nat) (h0 : Rej (Aidon.decodeFrame p))
    (h1 : Rej (Kaifa.decodeFrame p)) (h2 : Rej (Kamstrup.decodeFrame p)) :
    ∀ j, j < 3 → ∀ d', (decodersFor (.p1 r))[j]? = some d' → ∃ e, d' p = .error e ∧ caught e = true := by
  intro j hj d' hd'
  rw [decodersFor_p1] at hd'
  match j, hj with
  | 0, _ =>
    simp only [List.getElem?_cons_zero, Option.some.injEq] at hd'
    subst hd'
    obtain ⟨e, he⟩ := h0
    exact ⟨e, he, caught_all e⟩
  | 1, _ =>
    simp only [List.getElem?_cons_succ, List.getElem?_cons_zero, Option.some.injEq] at hd'
    subst hd'
    obtain ⟨e, he⟩ := h1
    exact ⟨e, he, caught_all e⟩
  | 2, _ =>
    simp only [List.getElem?_cons_succ, List.getElem?_cons_zero, Option.some.injEq] at hd'
    subst hd'
    obtain ⟨e, he⟩ := h2
    exact ⟨e, he, caught_all e⟩

/-- the body decoders reject text: they want the array tag 1 or the structure tag 2 first -/
theorem aidon_body_text (s : List Nat) (h : ∀ c ∈ s, c ≠ 1) : Rej (Aidon.decodeBody s) := by
  have hb : Aidon.notificationBody s = .soft := by
    cases s with
    | nil => rfl
    | cons a t =>
      have := h a List.mem_cons_self
      simp [Aidon.notificationBody, constByte, u8, Res.bind, this]
  unfold Aidon.decodeBody
  rw [hb]
  exact rej_construct

theorem kaifa_body_text (s : List Nat) (h : ∀ c ∈ s, c ≠ 2) : Rej (Kaifa.decodeBody s) := by
  have h1 : Kaifa.obisBody s = .soft := by
    cases s with
    | nil => rfl
    | cons a t =>
      have := h a List.mem_cons_self
      simp [Kaifa.obisBody, constByte, u8, Res.bind, this]
  have h2 : Kaifa.valueBody s = .soft := by
    cases s with
    | nil => rfl
    | cons a t =>
      have := h a List.mem_cons_self
      simp [Kaifa.valueBody, constByte, u8, Res.bind, this]
  unfold Kaifa.decodeBody Kaifa.notificationBody Kaifa.select
  rw [h1, h2]
  exact rej_construct

theorem kamstrup_body_text (s : List Nat) (h : ∀ c ∈ s, c ≠ 2) : Rej (Kamstrup.decodeBody s) := by
  have h1 : Kamstrup.notificationBody s = .soft := by
    cases s with
    | nil => rfl
    | cons a t =>
      have := h a List.mem_cons_self
      simp [Kamstrup.notificationBody, constByte, u8, Res.bind, this]
  unfold Kamstrup.decodeBody
  rw [h1]
  exact rej_construct

end Amshan.DecOwnMore
