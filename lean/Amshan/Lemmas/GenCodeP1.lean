import Amshan.Lemmas.GenCodeBase
import Amshan.GeneratedCodeP1
import Amshan.Model.P1
/- Per-property part of the GeneratedCode equivalence lemmas (split so that a change to one translated
   function only breaks the proofs of the property that function belongs to). -/
namespace Amshan.GenLemmas
open Amshan.GenCode Amshan.Gen

/-! ### P1 CRC16 -/

theorem crcBits_eq_iter (n c : Nat) : P1.crcBits n c = iter P1.crcBit n c := by
  induction n generalizing c with
  | zero => rfl
  | succ n ih => simp [P1.crcBits, iter, ih]

theorem and_one_ne_zero (c : Nat) : ((c &&& 1) != 0) = decide (c &&& 1 = 1) := by
  rcases Nat.mod_two_eq_zero_or_one c with h | h <;> simp [Nat.and_one_is_mod, h]

theorem p1CalculateCrc16_eq (readout : List Nat) (endPos : Nat) :
    p1CalculateCrc16 readout endPos = P1.crc16 (readout.take (endPos + 1)) := by
  unfold p1CalculateCrc16 P1.crc16
  simp only [List.drop_zero]
  refine forIn_list_proj Prod.fst P1.crcByte _ _ _ ?_
  intro a s
  refine ⟨_, rfl, ?_⟩
  show Id.run (forIn _ _ _) = _
  rw [P1.crcByte, crcBits_eq_iter, ← foldl_range'_const (a := 0)]
  refine forIn_range_proj id _ 0 8 _ _ ?_
  intro _ c
  simp only [id, and_one_ne_zero, P1.crcBit, decide_eq_true_eq]
  split <;> exact ⟨_, rfl, rfl⟩


end Amshan.GenLemmas
