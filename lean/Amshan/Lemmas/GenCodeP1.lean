import Amshan.Lemmas.GenCodeBase
import Amshan.GeneratedCodeP1
import Amshan.Model.P1
/- Per-property part of the GeneratedCode equivalence lemmas (split so that a change to one translated
   function only breaks the proofs of the property that function belongs to).

   The proof is semantic: each generated fold is compared with the model step by step (`foldl_step_eq`: the
   generated step is found by unification, never written down here), and the equality of one step is decided
   (`grind`), so it does not depend on how the source spells the body (`crc ^= b` or `crc = b ^ crc`,
   `if crc & 1` or `if crc & 1 == 1` or `if crc % 2`, shift before or inside the branches, temporaries, ...). -/
set_option linter.unusedSimpArgs false   -- simp sets are deliberately wider than one spelling of the source needs
namespace Amshan.GenLemmas
open Amshan.GenCode Amshan.Gen

/-! ### P1 CRC16 -/

theorem crcBits_eq_iter (n c : Nat) : P1.crcBits n c = iter P1.crcBit n c := by
  induction n generalizing c with
  | zero => rfl
  | succ n ih => simp [P1.crcBits, iter, ih]

theorem p1CalculateCrc16_eq (readout : List Nat) (endPos : Nat) :
    p1CalculateCrc16 readout endPos = P1.crc16 (readout.take (endPos + 1)) := by
  unfold p1CalculateCrc16 P1.crc16
  try simp only [List.drop_zero]
  rw [foldl_step_eq (g := P1.crcByte)]
  intro c b
  rw [foldl_step_eq (g := fun s _ => P1.crcBit s)]
  · rw [foldl_range'_const, P1.crcByte, crcBits_eq_iter]; gen_decide
  · intro s _
    have hbit := bit_cases s
    unfold P1.crcBit crc16Poly
    first
    | grind
    | (rcases hbit with hbit | hbit <;> simp [and_mask1, mask1_and, hbit] <;> gen_decide)

end Amshan.GenLemmas
