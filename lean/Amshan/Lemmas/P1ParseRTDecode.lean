import Amshan.Model.P1Parse
import Amshan.Spec.P1Block
/-
  Decoding side of C11: `decodeItem` on a single-valued data set, the clock text, and
  `decodeReadout` versus `decodeContent`.
-/
open Amshan Amshan.Gen Amshan.Cosem Amshan.P1Parse Amshan.P1BlockSpec Amshan.Py
namespace Amshan.P1ParseRT

theorem unitsPlain_eq : unitsPlain = [[118],[97],[118,97,114],[118,97,114,104]] := by decide
theorem unitsKilo_eq : unitsKilo = [[107,119],[107,119,104],[107,118,97,114],[107,118,97,114,104]] := by decide
theorem clockCde_eq : clockCde = [49,46,48,46,48] := by decide

/-- the field name `decodeItem` uses -/
def itemName (g : Obis.Groups) : String :=
  match obisNameMap.lookup (Py.toString (Obis.cdeStr g)) with
  | some n => n
  | none => Py.toString (Obis.cdeStr g)

theorem decodeItem_name (item : DataSet) (k : String) (v : Val) (g : Obis.Groups)
    (hg : Obis.parse item.address = .ok g) (h : decodeItem item = .ok (k, v)) :
    k = itemName g := by
  unfold decodeItem at h
  rw [hg] at h
  simp only [bind, Except.bind, pure, Except.pure] at h
  unfold itemName
  split <;> rename_i heq <;> simp only [heq] at h <;> (repeat' split at h) <;>
    (cases h <;> rfl)

theorem decodeItem_verbatim (addr value : List Nat) (g : Obis.Groups) (hg : Obis.parse addr = .ok g)
    (hc : Obis.cdeStr g ≠ clockCde) :
    decodeItem ⟨addr, [⟨value, none⟩]⟩ = .ok (itemName g, .str value) := by
  unfold decodeItem
  simp only [hg, bind, Except.bind, pure, Except.pure, beq_iff_eq, hc, if_false, Bool.false_eq_true]
  rfl

theorem decodeItem_plain (addr value unit : List Nat) (g : Obis.Groups) (f : Flt.F)
    (hg : Obis.parse addr = .ok g) (hu : unitsPlain.contains (Py.lower unit) = true) (hne : unit ≠ [])
    (hf : Flt.ofStr value = .ok f) :
    decodeItem ⟨addr, [⟨value, some unit⟩]⟩ = .ok (itemName g, .flt f) := by
  have he : unit.isEmpty = false := by cases unit <;> simp_all
  unfold decodeItem
  simp only [hg, bind, Except.bind, pure, Except.pure, he, hu, hf, if_true, if_false, Bool.false_eq_true]
  rfl

theorem kilo_not_plain (u : List Nat) (h : unitsKilo.contains u = true) : unitsPlain.contains u = false := by
  rw [unitsKilo_eq] at h
  rw [unitsPlain_eq]
  simp only [List.contains_eq_mem, List.mem_cons, List.not_mem_nil, or_false, decide_eq_true_eq] at h
  rcases h with h | h | h | h <;> subst h <;> decide

theorem decodeItem_kilo (addr value unit : List Nat) (g : Obis.Groups) (f : Flt.F) (z : Int)
    (hg : Obis.parse addr = .ok g) (hu : unitsKilo.contains (Py.lower unit) = true) (hne : unit ≠ [])
    (hf : Flt.ofStr value = .ok f) (hz : Flt.toInt (Flt.mul f (Flt.ofNat 1000)) = .ok z) :
    decodeItem ⟨addr, [⟨value, some unit⟩]⟩ = .ok (itemName g, .int z) := by
  have he : unit.isEmpty = false := by cases unit <;> simp_all
  have hp := kilo_not_plain _ hu
  unfold decodeItem
  simp only [hg, bind, Except.bind, pure, Except.pure, he, hu, hp, hf, hz, if_true, if_false, Bool.false_eq_true]
  rfl

/-- `int()` of two decimal digits -/
theorem intBase10_two : ∀ n, n < 100 → intBase10 [48 + n / 10, 48 + n % 10] = .ok (n : Int) := by
  decide +kernel

theorem parseP1Datetime_two (yy mo d h mi s : Nat) (suffix : List Nat)
    (hv : yy ≤ 99 ∧ 1 ≤ mo ∧ mo ≤ 12 ∧ 1 ≤ d ∧ d ≤ daysInMonth (2000 + yy) mo ∧ h ≤ 23 ∧ mi ≤ 59 ∧ s ≤ 59) :
    parseP1Datetime ([48 + yy / 10, 48 + yy % 10] ++ [48 + mo / 10, 48 + mo % 10] ++ [48 + d / 10, 48 + d % 10]
      ++ [48 + h / 10, 48 + h % 10] ++ [48 + mi / 10, 48 + mi % 10] ++ [48 + s / 10, 48 + s % 10] ++ suffix) =
    .ok { year := 2000 + yy, month := mo, day := d, hour := h, minute := mi, second := s, micro := 0, tz := none } := by
  obtain ⟨h1, h2, h3, h4, h5, h6, h7, h8⟩ := hv
  have hd31 : daysInMonth (2000 + yy) mo ≤ 31 := by
    unfold daysInMonth; split <;> split <;> omega
  unfold parseP1Datetime
  simp only [slice, List.cons_append, List.nil_append, List.take_succ_cons, List.take_zero, List.drop_succ_cons, List.drop_zero]
  rw [intBase10_two yy (by omega), intBase10_two mo (by omega), intBase10_two d (by omega),
    intBase10_two h (by omega), intBase10_two mi (by omega), intBase10_two s (by omega)]
  simp only [bind, Except.bind, pure, Except.pure]
  have e1 : (2000 + (yy : Int)).toNat = 2000 + yy := by omega
  simp only [e1, Int.toNat_natCast]
  rw [if_pos]
  refine ⟨by omega, by omega, by omega, by omega, by omega, by omega, by omega, by omega, by omega, by omega, by omega, by omega⟩

theorem decodeItem_clock (addr : List Nat) (g : Obis.Groups) (hg : Obis.parse addr = .ok g)
    (hc : Obis.cdeStr g = clockCde) (yy mo d h mi s : Nat) (suffix : List Nat)
    (hv : yy ≤ 99 ∧ 1 ≤ mo ∧ mo ≤ 12 ∧ 1 ≤ d ∧ d ≤ daysInMonth (2000 + yy) mo ∧ h ≤ 23 ∧ mi ≤ 59 ∧ s ≤ 59) :
    decodeItem ⟨addr, [⟨[48 + yy / 10, 48 + yy % 10] ++ [48 + mo / 10, 48 + mo % 10] ++ [48 + d / 10, 48 + d % 10]
      ++ [48 + h / 10, 48 + h % 10] ++ [48 + mi / 10, 48 + mi % 10] ++ [48 + s / 10, 48 + s % 10] ++ suffix, none⟩]⟩ =
      .ok (itemName g, .dt { year := 2000 + yy, month := mo, day := d, hour := h, minute := mi, second := s, micro := 0, tz := none }) := by
  have hp := parseP1Datetime_two yy mo d h mi s suffix hv
  unfold decodeItem
  simp only [hg, bind, Except.bind, pure, Except.pure, hc, beq_self_eq_true, if_true, if_false, Bool.false_eq_true, hp]
  have hn : itemName g = (match List.lookup (Py.toString clockCde) obisNameMap with
      | some n => n
      | none => Py.toString clockCde) := by
    unfold itemName; rw [hc]
  rw [hn]
  rfl

/-- `decode_p1_readout` = `decode_p1_readout_content` of the payload plus the identification fields -/
theorem decodeReadout_eq (r : P1.Readout) (d : Dict) (m : P1.IdentMatch)
    (hd : decodeContent r.payload = .ok d) (hm : r.identLine = .ok m) :
    decodeReadout r = .ok (match m.ident with
      | some i => (d.set field_METER_MANUFACTURER_ID (.str m.manid)).set field_METER_TYPE_ID (.str i)
      | none => d.set field_METER_MANUFACTURER_ID (.str m.manid)) := by
  unfold decodeContent at hd
  unfold decodeReadout
  split at hd
  · cases hd
  · unfold decodeParsedContent at hd
    split at hd
    · cases hd
    · rename_i items n heq
      split at hd
      · cases hd
      · simp only [hd, hm]
        cases m.ident <;> rfl

/-- the guard of `decode_p1_readout_content` passes on printable characters, CR and LF (and on
    anything else ≥ 0x20): the result is that of parsing and decoding -/
theorem decodeContent_of_no_control (content : List Nat) (h : ∀ c ∈ content, 32 ≤ c ∨ c = 13 ∨ c = 10) :
    decodeContent content = decodeParsedContent content := by
  have hn : content.any isControl = false := by
    rw [List.any_eq_false]
    intro c hc
    have := h c hc
    unfold isControl
    simp only [Bool.and_eq_true, decide_eq_true_eq, bne_iff_ne, ne_eq]
    omega
  unfold decodeContent
  rw [hn]
  rfl

/-- and refuses everything with another control octet, whatever the parser would say -/
theorem decodeContent_control (content : List Nat) (h : ∃ c ∈ content, c < 32 ∧ c ≠ 13 ∧ c ≠ 10) :
    decodeContent content = .error .valueError := by
  obtain ⟨c, hc, h1, h2, h3⟩ := h
  have hn : content.any isControl = true := by
    rw [List.any_eq_true]
    refine ⟨c, hc, ?_⟩
    unfold isControl
    simp only [Bool.and_eq_true, decide_eq_true_eq, bne_iff_ne, ne_eq]
    exact ⟨h1, h2, h3⟩
  unfold decodeContent
  rw [hn]
  rfl

end Amshan.P1ParseRT
