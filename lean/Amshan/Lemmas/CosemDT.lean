import Amshan.Model.Cosem
import Amshan.Spec.Lists
/-
  Lemmas for C10: decoding of COSEM date-times in every syntactic position, APDU / LLC header.
-/
namespace Amshan.CosemDT
open Amshan.Gen Amshan.Cosem Amshan.ListSpec

/-! ### tag constants -/
@[simp] theorem tNull_eq : tNull = 0 := by decide
@[simp] theorem tArray_eq : tArray = 1 := by decide
@[simp] theorem tStructure_eq : tStructure = 2 := by decide
@[simp] theorem tU32_eq : tU32 = 6 := by decide
@[simp] theorem tOctet_eq : tOctet = 9 := by decide
@[simp] theorem tVisible_eq : tVisible = 10 := by decide
@[simp] theorem tInt8_eq : tInt8 = 15 := by decide
@[simp] theorem tInt16_eq : tInt16 = 16 := by decide
@[simp] theorem tU16_eq : tU16 = 18 := by decide
@[simp] theorem tEnum_eq : tEnum = 22 := by decide

/-! ### small parsers -/
@[simp] theorem u8_cons (b : Nat) (r : List Nat) : u8 (b :: r) = .ok b r := rfl
@[simp] theorem bind_ok {α β : Type} (a : α) (r : List Nat) (f : α → List Nat → Res β) :
    (Res.ok a r).bind f = f a r := rfl
@[simp] theorem constByte_cons (v : Nat) (r : List Nat) : constByte v (v :: r) = .ok () r := by
  simp [constByte]

theorem optByte_some (b : Nat) (h : b ≠ 255) : optByte b = some b := by
  simp [optByte, h]

theorem optByte_ff : optByte 255 = none := by decide

theorem optByte_hund (hs : Option Nat) (h : ∀ x, hs = some x → x ≤ 99) :
    optByte (match (generalizing := false) hs with | some h => h | none => 0xFF) = hs := by
  cases hs with
  | none => exact optByte_ff
  | some x => exact optByte_some x (by have := h x rfl; omega)

/-! ### mkDatetime -/
theorem mkDatetime_ok (y mo d h mi s : Nat) (hs : Option Nat) (dev : Option Int)
    (hy : 1 ≤ y ∧ y ≤ 9999) (hmo : 1 ≤ mo ∧ mo ≤ 12) (hd : 1 ≤ d ∧ d ≤ daysInMonth y mo)
    (hh : h ≤ 23) (hmi : mi ≤ 59) (hse : s ≤ 59)
    (hhs : ∀ x, hs = some x → x ≤ 99) (hdev : ∀ v, dev = some v → -1440 < v ∧ v < 1440) :
    mkDatetime y mo d (some h) (some mi) (some s) hs dev =
      .ok { year := y, month := mo, day := d, hour := h, minute := mi, second := s,
            micro := (match hs with | some x => x * 10000 | none => 0),
            tz := dev.map (fun v => -v) } := by
  unfold mkDatetime
  cases dev with
  | none =>
    cases hs with
    | none => simp [hy, hmo, hd, hh, hmi, hse]
    | some x =>
      have := hhs x rfl
      have h2 : x * 10000 ≤ 999999 := by omega
      simp [hy, hmo, hd, hh, hmi, hse, h2]
  | some v =>
    have hv := hdev v rfl
    cases hs with
    | none => simp [hy, hmo, hd, hh, hmi, hse, hv]
    | some x =>
      have := hhs x rfl
      have h2 : x * 10000 ≤ 999999 := by omega
      simp [hy, hmo, hd, hh, hmi, hse, h2, hv]

/-! ### deviation -/
/-- the signed decoding of the two deviation octets -/
def devDec (dev16 : Nat) : Option Int :=
  let dev : Int := if dev16 ≥ 32768 then (dev16 : Int) - 65536 else dev16
  if dev = -32768 then none else some dev

theorem dev16_split (dv : Option Int) : dev16 dv / 256 * 256 + dev16 dv % 256 = dev16 dv := by omega

theorem devDec_dev16 (dv : Option Int) (h : ∀ v, dv = some v → -720 ≤ v ∧ v ≤ 720) :
    devDec (dev16 dv) = dv := by
  cases dv with
  | none => decide
  | some v =>
    have := h v rfl
    unfold devDec dev16
    by_cases hv : v < 0
    · simp only [hv, if_true]
      have e : ((65536 + v).toNat : Int) = 65536 + v := by omega
      have g : (65536 + v).toNat ≥ 32768 := by omega
      simp only [g, if_true, e]
      have : ¬ (65536 + v - 65536 = -32768) := by omega
      simp only [this, if_false]
      congr 1; omega
    · simp only [hv, if_false]
      have e : (v.toNat : Int) = v := by omega
      have g : ¬ v.toNat ≥ 32768 := by omega
      simp only [g, if_false, e]
      have : ¬ (v = -32768) := by omega
      simp only [this, if_false]

theorem dateTime_cons (yh yl mo d dow h mi s hs dh dl st : Nat) (rest : List Nat) :
    dateTime (0x0C :: yh :: yl :: mo :: d :: dow :: h :: mi :: s :: hs :: dh :: dl :: st :: rest) =
      match mkDatetime (yh * 256 + yl) mo d (optByte h) (optByte mi) (optByte s) (optByte hs)
          (devDec (dh * 256 + dl)) with
      | .ok dt => .ok dt rest
      | .error e => .py e := rfl

theorem datetime_exact (d : DateTimeDesc) (h : d.Valid) (rest : List Nat) :
    dateTime (encDateTime d ++ rest) = .ok (expectedDT d) rest := by
  obtain ⟨y, mo, dd, dow, hh, mi, s, hs, dev, st⟩ := d
  obtain ⟨h1, h2, h3, h4, h5, h6, h7, h8, h9, h10, h11, h12, h13⟩ := h
  simp only at h1 h2 h3 h4 h5 h6 h7 h8 h9 h10 h11 h12 h13
  simp only [encDateTime, List.cons_append, List.nil_append]
  rw [dateTime_cons]
  have ey : y / 256 * 256 + y % 256 = y := by omega
  rw [ey, dev16_split, optByte_some hh (by omega), optByte_some mi (by omega), optByte_some s (by omega)]
  rw [devDec_dev16 dev (by intro v hv; subst hv; exact h12)]
  have hhs : ∀ x, hs = some x → x ≤ 99 := by intro x hx; subst hx; exact h11
  have e11 := optByte_hund hs hhs
  have key := mkDatetime_ok y mo dd hh mi s hs dev ⟨h1, h2⟩ ⟨h3, h4⟩ ⟨h5, h6⟩ h8 h9 h10 hhs
    (by intro v hv; subst hv; simp only at h12; omega)
  cases hs with
  | none =>
    simp only at e11 key ⊢
    rw [e11, key]; rfl
  | some x =>
    simp only at e11 key ⊢
    rw [e11, key]; rfl

theorem datetime_in_field (d : DateTimeDesc) (h : d.Valid) (rest : List Nat) :
    field ([9] ++ encDateTime d ++ rest) = .ok (.dt (expectedDT d)) rest := by
  simp only [List.cons_append, List.nil_append]
  unfold field
  simp only [u8_cons, bind_ok, tNull_eq, tInt8_eq, tInt16_eq, tU16_eq, tU32_eq, tOctet_eq]
  simp only [datetime_exact d h rest]
  simp

theorem datetime_in_dateTimeField (d : DateTimeDesc) (h : d.Valid) (rest : List Nat) :
    dateTimeField ([9] ++ encDateTime d ++ rest) = .ok (expectedDT d) rest := by
  simp only [List.cons_append, List.nil_append]
  unfold dateTimeField
  simp only [tOctet_eq, constByte_cons, bind_ok, datetime_exact d h rest]

/-! ### takeN -/
theorem takeN_append (n : Nat) (l r : List Nat) (h : l.length = n) : takeN n (l ++ r) = .ok l r := by
  subst h
  simp [takeN]

/-! ### APDU / LLC header -/
/-- what the APDU header yields as clock -/
def clockOf : ApduClock → ApduDT
  | .null => .byte 0
  | .tagged d => .dt (expectedDT d)
  | .untagged d => .dt (expectedDT d)

theorem encDateTime_cons (d : DateTimeDesc) : ∃ t, encDateTime d = 0x0C :: t := ⟨_, rfl⟩

theorem apdu_clock {β : Type} (tag : Nat) (inv : List Nat) (hi : inv.length = 4) (c : ApduClock)
    (hc : match c with | .null => True | .tagged d => d.Valid | .untagged d => d.Valid)
    (body : List Nat → Res β) (rest : List Nat) :
    apdu body (tag :: (inv ++ (encApduClock c ++ rest))) =
      (body rest).bind (fun b r => .ok (clockOf c, b) r) := by
  unfold apdu
  simp only [u8_cons, bind_ok, takeN_append 4 inv _ hi]
  cases c with
  | null =>
    simp only [encApduClock, List.cons_append, List.nil_append, tNull_eq, if_true, u8_cons, bind_ok,
      clockOf]
  | tagged d =>
    have e := datetime_in_dateTimeField d hc rest
    simp only [List.cons_append, List.nil_append] at e
    simp only [encApduClock, List.cons_append, List.nil_append, tNull_eq, tOctet_eq, e, bind_ok, clockOf]
    simp
  | untagged d =>
    have e := datetime_exact d hc rest
    obtain ⟨t, ht⟩ := encDateTime_cons d
    simp only [encApduClock]
    rw [ht] at e ⊢
    simp only [List.cons_append, tNull_eq, tOctet_eq] at e ⊢
    simp only [e, bind_ok, clockOf]
    simp

theorem llc_clock {β : Type} (hd : Header) (hh : hd.WF) (body : List Nat → Res β) (rest : List Nat) :
    llc body (encHeader hd ++ rest) = (body rest).bind (fun b r => .ok (clockOf hd.clock, b) r) := by
  obtain ⟨h1, h2, h3⟩ := hh
  unfold llc encHeader
  simp only [List.append_assoc, takeN_append 3 hd.llc _ h1, bind_ok, List.cons_append, List.nil_append]
  exact apdu_clock hd.tag hd.invoke h2 hd.clock h3 body rest

end Amshan.CosemDT
