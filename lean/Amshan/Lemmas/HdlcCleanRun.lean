import Amshan.Lemmas.HdlcCleanFrame
/-
  Clean-stream lemmas, part 3: one well-formed frame between flags is delivered exactly, and so is
  a whole clean stream (C02 at the level of the octet machine `run`).
-/
namespace Amshan.HdlcClean
open Amshan.Gen Amshan.Hdlc Amshan.HdlcSpec

/-! ### the closing flag -/

theorem step_close (cfg : Cfg) (u : Bool) (raw e : List Nat) (hne : e ≠ [])
    (hhcs : (mk e).hcs.isSome = true)
    (hab : ¬ (cfg.abort = true ∧ raw.length > 1 ∧ raw.getLast? = some escOctet))
    (hfin : cfg.stuffing = true ∨ (mk e).isExpectedLength = true) :
    stepOctet cfg (st u raw e) flagOctet = (fresh, [mk e]) := by
  have hp0 : (mk e).len ≠ 0 := by
    rw [mk_len]; intro h; exact hne (List.length_eq_zero_iff.mp h)
  have := handleFlag_pass cfg (st u raw e) (mk e) rfl hp0 hhcs hab
  simp only [stepOctet, readNext, if_true, this]
  rcases hfin with hst | hexp
  · simp only [hst, if_true, startFrame_eq]; rfl
  · simp only [hexp, if_true, ite_self, startFrame_eq]; rfl

/-! ### escape octets before flags -/

theorem esc_before_flag (p r : List Nat) (h : escBeforeFlagOrEnd (p ++ flag :: r) = false) :
    p.getLast? ≠ some esc := by
  induction p with
  | nil => simp
  | cons b p' ih =>
    cases p' with
    | nil =>
      simp only [List.cons_append, List.nil_append, escBeforeFlagOrEnd, Bool.or_eq_false_iff,
        Bool.and_eq_false_iff] at h
      simp only [List.getLast?_singleton, ne_eq, Option.some.injEq]
      intro e
      rcases h.1 with h1 | h1
      · simp [e] at h1
      · simp at h1
    | cons c p'' =>
      simp only [List.cons_append, escBeforeFlagOrEnd, Bool.or_eq_false_iff] at h
      rw [List.getLast?_cons_cons]
      exact ih h.2

theorem esc_before_end (l : List Nat) (h : escBeforeFlagOrEnd l = false) : l.getLast? ≠ some esc := by
  induction l with
  | nil => simp
  | cons b l' ih =>
    cases l' with
    | nil =>
      simp only [escBeforeFlagOrEnd, beq_eq_false_iff_ne] at h
      simpa using h
    | cons c l'' =>
      simp only [escBeforeFlagOrEnd, Bool.or_eq_false_iff] at h
      rw [List.getLast?_cons_cons]
      exact ih h.2

theorem esc_before_of_noflag (l : List Nat) (hf : flag ∉ l) (hl : l.getLast? ≠ some esc) :
    escBeforeFlagOrEnd l = false := by
  induction l with
  | nil => rfl
  | cons b l' ih =>
    cases l' with
    | nil =>
      simp only [escBeforeFlagOrEnd, beq_eq_false_iff_ne]
      simpa using hl
    | cons c l'' =>
      rw [List.getLast?_cons_cons] at hl
      simp only [escBeforeFlagOrEnd, Bool.or_eq_false_iff, Bool.and_eq_false_iff]
      refine ⟨Or.inr ?_, ih (fun h => hf (by simp [h])) hl⟩
      apply beq_false_of_ne
      intro e; exact hf (by simp [e])

theorem getLast?_append_ne_nil (a b : List Nat) (hb : b ≠ []) : (a ++ b).getLast? = b.getLast? := by
  rw [List.getLast?_append]
  cases h : b.getLast? with
  | none => exact absurd (List.getLast?_eq_none_iff.mp h) hb
  | some x => rfl

theorem not_mem_take_split (e q1 q2 : List Nat) (x k : Nat) (he : e = q1 ++ x :: q2)
    (h : x ∉ e.take k) : k ≤ q1.length := by
  apply Classical.byContradiction
  intro hk
  apply h
  rw [he, List.take_append]
  apply List.mem_append.mpr
  right
  obtain ⟨j, hj⟩ : ∃ j, k - q1.length = j + 1 := ⟨k - q1.length - 1, by omega⟩
  rw [hj, List.take_succ_cons]
  simp

/-! ### one frame -/

theorem one_frame_stuffed (cfg : Cfg) (hst : cfg.stuffing = true) (d : FrameDesc) (h : d.WF)
    (raw0 : List Nat) :
    run cfg (st false raw0 []) (stuff d.encode ++ [flagOctet]) = (fresh, [expectedFrame d]) := by
  have hlen := encode_length d
  have htl := totalLen_ge d
  have hhl := headLen_ge d
  have hne : d.encode ≠ [] := by
    intro e; rw [e] at hlen; simp at hlen; omega
  rw [run_append, run_stuffed cfg hst d.encode raw0 [] (by simp [hlen]; exact h.2.2.2.2.2.2.2)]
  simp only [List.nil_append, run_cons, run_nil, List.append_nil]
  have hsne : stuff d.encode ≠ [] := by
    obtain ⟨x, xs, e⟩ := List.exists_cons_of_ne_nil hne
    rw [e]; simp only [stuff]; split <;> simp
  rw [step_close cfg false _ d.encode hne (hcs_prefix d h d.encode [] (by simp) (by omega)) ?_ (Or.inl hst),
    expectedFrame_eq d h]
  rintro ⟨_, _, hl⟩
  rw [getLast?_append_ne_nil _ _ hsne] at hl
  exact stuff_getLast _ hl

theorem one_frame_plain (cfg : Cfg) (hst : cfg.stuffing = false) (d : FrameDesc) (h : d.WF)
    (hflag : flag ∉ d.encode.take (d.headLen + 2))
    (habort : cfg.abort = true → escBeforeFlagOrEnd d.encode = false)
    (u : Bool) (raw0 : List Nat) :
    run cfg (st u raw0 []) (d.encode ++ [flagOctet]) = (fresh, [expectedFrame d]) := by
  have hlen := encode_length d
  have htl := totalLen_ge d
  have hhl := headLen_ge d
  have hmax : d.totalLen ≤ 2047 := h.2.2.2.2.2.2.2
  have hne : d.encode ≠ [] := by
    intro e; rw [e] at hlen; simp at hlen; omega
  have hbody : run cfg (st u raw0 []) d.encode = (st u (raw0 ++ d.encode) ([] ++ d.encode), []) := by
    apply run_plain cfg hst u d.encode raw0 []
    · intro q1 q2 e
      have hq : d.headLen + 2 ≤ q1.length := not_mem_take_split d.encode q1 q2 flag _ e hflag
      have hq1 : q1 ≠ [] := by intro e'; rw [e'] at hq; simp at hq
      have hl2 : q1.length + 1 + q2.length = d.totalLen := by
        rw [← hlen, e]; simp; omega
      refine ⟨by simpa using hq1, ?_, ?_, ?_⟩
      · rw [List.nil_append]; exact hcs_prefix d h q1 (flagOctet :: q2) e.symm hq
      · rintro ⟨ha, _, hl⟩
        rw [getLast?_append_ne_nil _ _ hq1] at hl
        exact esc_before_flag q1 q2 (by rw [flag_eq, ← e]; exact habort ha) hl
      · rw [List.nil_append, isExpectedLength_prefix d h q1 (flagOctet :: q2) e.symm (by omega)]
        simp; omega
    · simp [hlen]; exact hmax
  rw [run_append, hbody]
  simp only [List.nil_append, run_cons, run_nil, List.append_nil]
  rw [step_close cfg u _ d.encode hne (hcs_prefix d h d.encode [] (by simp) (by omega)) ?_ ?_,
    expectedFrame_eq d h]
  · rintro ⟨ha, _, hl⟩
    rw [getLast?_append_ne_nil _ _ hne] at hl
    exact esc_before_end _ (habort ha) hl
  · right
    rw [isExpectedLength_prefix d h d.encode [] (by simp) (by omega)]
    simp [hlen]

/-- **one frame**: from the state after a flag, the octets of a well-formed frame in the domain of
    the configuration followed by a flag deliver exactly that frame and leave the reader in the same
    state. -/
theorem one_frame (cfg : Cfg) (d : FrameDesc) (h : d.WF) (hdom : InDomain cfg.stuffing cfg.abort d) :
    run cfg fresh (onWire cfg.stuffing d ++ [flagOctet]) = (fresh, [expectedFrame d]) := by
  cases hst : cfg.stuffing with
  | true => exact one_frame_stuffed cfg hst d h []
  | false =>
    rcases hdom with hd | hd
    · rw [hst] at hd; cases hd
    · exact one_frame_plain cfg hst d h hd.1 hd.2 false []

/-! ### a clean stream, with each frame followed by its closing flag -/

/-- the stream after its first flag: every frame preceded by its remaining fill flags and followed by
    one flag, then the remaining closing flags -/
def shifted (stuffing : Bool) (fs : List (FrameDesc × Nat)) (k : Nat) : List Nat :=
  (fs.flatMap fun p => List.replicate (p.2 - 1) flagOctet ++ onWire stuffing p.1 ++ [flagOctet]) ++
    List.replicate k flagOctet

theorem shifted_nil (s : Bool) (k : Nat) : shifted s [] k = List.replicate k flagOctet := rfl

theorem shifted_cons (s : Bool) (d : FrameDesc) (n : Nat) (fs : List (FrameDesc × Nat)) (k : Nat) :
    shifted s ((d, n) :: fs) k =
      List.replicate (n - 1) flagOctet ++ (onWire s d ++ [flagOctet]) ++ shifted s fs k := by
  simp [shifted, List.flatMap_cons]

/-- the frames part of `wire` followed by `k+1` flags is one flag followed by the shifted stream -/
theorem frames_eq_shifted (s : Bool) (fs : List (FrameDesc × Nat)) (k : Nat)
    (hfill : ∀ p ∈ fs, 1 ≤ p.2) :
    (fs.flatMap fun p => List.replicate p.2 flag ++ onWire s p.1) ++ List.replicate (k + 1) flag =
      flagOctet :: shifted s fs k := by
  induction fs with
  | nil => simp [shifted, List.replicate_succ, flag_eq]
  | cons p fs ih =>
    obtain ⟨d, n⟩ := p
    have hn : 1 ≤ n := hfill (d, n) (by simp)
    obtain ⟨m, rfl⟩ : ∃ m, n = m + 1 := ⟨n - 1, by omega⟩
    rw [List.flatMap_cons, List.append_assoc, ih (fun p hp => hfill p (by simp [hp])), shifted_cons]
    simp only [Nat.add_sub_cancel, List.replicate_succ, flag_eq, List.cons_append, List.append_assoc,
      List.nil_append]

theorem wire_eq_shifted (s : Bool) (noise : List Nat) (fs : List (FrameDesc × Nat)) (closing : Nat)
    (hfill : ∀ p ∈ fs, 1 ≤ p.2) (hcl : 1 ≤ closing) :
    wire s noise fs closing = noise ++ flagOctet :: shifted s fs (closing - 1) := by
  obtain ⟨k, rfl⟩ : ∃ k, closing = k + 1 := ⟨closing - 1, by omega⟩
  unfold wire
  rw [List.append_assoc, frames_eq_shifted s fs k hfill]
  rfl

theorem run_shifted_fresh (cfg : Cfg) (fs : List (FrameDesc × Nat)) (k : Nat)
    (hfs : ∀ p ∈ fs, p.1.WF ∧ InDomain cfg.stuffing cfg.abort p.1) :
    run cfg fresh (shifted cfg.stuffing fs k) = (fresh, fs.map (fun p => expectedFrame p.1)) := by
  induction fs with
  | nil => rw [shifted_nil, run_fresh_flags]; rfl
  | cons p fs ih =>
    obtain ⟨d, n⟩ := p
    have hd := hfs (d, n) (by simp)
    rw [shifted_cons, run_append, run_append, run_fresh_flags, one_frame cfg d hd.1 hd.2,
      ih (fun p hp => hfs p (by simp [hp]))]
    rfl

/-- **C02 for the octet machine.** -/
theorem clean_run (cfg : Cfg) (noise : List Nat) (fs : List (FrameDesc × Nat)) (closing : Nat)
    (hnoise : Octets noise ∧ flag ∉ noise)
    (hfs : ∀ p ∈ fs, p.1.WF ∧ 1 ≤ p.2 ∧ InDomain cfg.stuffing cfg.abort p.1)
    (hcl : 1 ≤ closing) :
    (run cfg Core.init (wire cfg.stuffing noise fs closing)).2 = fs.map (fun p => expectedFrame p.1) := by
  rw [wire_eq_shifted _ _ _ _ (fun p hp => (hfs p hp).2.1) hcl, run_append,
    run_hunt_noflag cfg Core.init noise rfl (by rw [← flag_eq]; exact hnoise.2), run_cons,
    step_hunt_flag cfg Core.init rfl,
    run_shifted_fresh cfg fs _ (fun p hp => ⟨(hfs p hp).1, (hfs p hp).2.2⟩)]
  rfl

/-- lifting a statement about `run` to any splitting into `read()` calls -/
theorem readAll_init (cfg : Cfg) (chunks : List (List Nat)) :
    (readAll cfg Reader.init chunks).2.flatten = (run cfg Core.init chunks.flatten).2 :=
  readAll_frames cfg Reader.init chunks Reader.init_buf

end Amshan.HdlcClean
