import Amshan.Model.Kamstrup
import Amshan.Spec.Lists
import Amshan.Lemmas.CosemDT
import Amshan.Lemmas.KaifaRT
/-
  Lemmas for C09: round trip of the Kamstrup lists.
-/
namespace Amshan.KamstrupRT
open Amshan.Gen Amshan.Cosem Amshan.ListSpec Amshan.CosemDT Amshan.KaifaRT

/-! ### the dotted OBIS text is uniquely decodable -/

/-- reads dot-separated decimal numbers back -/
def unDots : List Nat → Nat → List Nat → List Nat
  | [], cur, acc => (cur :: acc).reverse
  | c :: cs, cur, acc => if c = 46 then unDots cs 0 (cur :: acc) else unDots cs (cur * 10 + (c - 48)) acc

theorem unDots_showNat (a : Nat) (h : a < 1000) (t : List Nat) (acc : List Nat) :
    unDots (Obis.showNat a ++ t) 0 acc = unDots t a acc := by
  unfold Obis.showNat
  by_cases h1 : a < 10
  · simp only [h1, if_true, List.cons_append, List.nil_append, unDots]
    rw [if_neg (by omega)]
    congr 1; omega
  · by_cases h2 : a < 100
    · simp only [h1, h2, if_true, if_false, List.cons_append, List.nil_append, unDots]
      rw [if_neg (by omega), if_neg (by omega)]
      congr 1; omega
    · simp only [h1, h2, h, if_true, if_false, List.cons_append, List.nil_append, unDots]
      rw [if_neg (by omega), if_neg (by omega), if_neg (by omega)]
      congr 1; omega

theorem unDots_dot (t : List Nat) (cur : Nat) (acc : List Nat) :
    unDots ([46] ++ t) cur acc = unDots t 0 (cur :: acc) := by
  simp [unDots]

theorem unDots_obisText (a b c d e f : Nat) (ha : a < 1000) (hb : b < 1000) (hc : c < 1000)
    (hd : d < 1000) (he : e < 1000) (hf : f < 1000) :
    unDots (obisText [a, b, c, d, e, f]) 0 [] = [a, b, c, d, e, f] := by
  unfold obisText
  simp only [List.append_assoc]
  rw [unDots_showNat a ha, unDots_dot, unDots_showNat b hb, unDots_dot, unDots_showNat c hc, unDots_dot,
    unDots_showNat d hd, unDots_dot, unDots_showNat e he, unDots_dot]
  have := unDots_showNat f hf [] [e, d, c, b, a]
  rw [List.append_nil] at this
  rw [this]
  rfl

theorem unDots_obisText' (o : List Nat) (h : Obis6 o) : unDots (obisText o) 0 [] = o := by
  obtain ⟨a, b, c, d, e, f, rfl⟩ := obis6_cases h.1
  have hb := h.2
  simp only [List.mem_cons, List.not_mem_nil, or_false, forall_eq_or_imp, forall_eq] at hb
  exact unDots_obisText a b c d e f (by omega) (by omega) (by omega) (by omega) (by omega) (by omega)

theorem obisText_inj {o o' : List Nat} (h : Obis6 o) (h' : Obis6 o') (e : obisText o = obisText o') :
    o = o' := by
  rw [← unDots_obisText' o h, ← unDots_obisText' o' h', e]

theorem showNat_ascii (a : Nat) (h : a < 1000) : ∀ c ∈ Obis.showNat a, c < 128 := by
  unfold Obis.showNat
  by_cases h1 : a < 10
  · simp only [h1, if_true]; intro c hc; simp only [List.mem_cons, List.not_mem_nil, or_false] at hc; omega
  · by_cases h2 : a < 100
    · simp only [h1, h2, if_true, if_false]; intro c hc
      simp only [List.mem_cons, List.not_mem_nil, or_false] at hc; omega
    · simp only [h1, h2, h, if_true, if_false]; intro c hc
      simp only [List.mem_cons, List.not_mem_nil, or_false] at hc; omega

theorem obisText_ascii (o : List Nat) (h : Obis6 o) : ∀ c ∈ obisText o, c < 128 := by
  obtain ⟨a, b, c, d, e, f, rfl⟩ := obis6_cases h.1
  have hb := h.2
  simp only [List.mem_cons, List.not_mem_nil, or_false, forall_eq_or_imp, forall_eq] at hb
  have ha := showNat_ascii a (by omega)
  have hb' := showNat_ascii b (by omega)
  have hc := showNat_ascii c (by omega)
  have hd := showNat_ascii d (by omega)
  have he := showNat_ascii e (by omega)
  have hf := showNat_ascii f (by omega)
  intro x hx
  simp only [obisText, List.mem_append, List.mem_cons, List.not_mem_nil, or_false] at hx
  rcases hx with ((((((((((hx | hx) | hx) | hx) | hx) | hx) | hx) | hx) | hx) | hx) | hx)
  · exact ha x hx
  · omega
  · exact hb' x hx
  · omega
  · exact hc x hx
  · omega
  · exact hd x hx
  · omega
  · exact he x hx
  · omega
  · exact hf x hx

theorem char_toNat_ofNat (n : Nat) (h : n < 128) : (Char.ofNat n).toNat = n := by
  have hv : n.isValidChar := Or.inl (by omega)
  simp [Char.ofNat, hv, Char.toNat, Char.ofNatAux]

theorem ofString_toString (s : List Nat) (h : ∀ c ∈ s, c < 128) : Py.ofString (Py.toString s) = s := by
  unfold Py.ofString Py.toString
  rw [String.toList_ofList, List.map_map]
  induction s with
  | nil => rfl
  | cons a s ih =>
    simp only [List.map_cons, Function.comp_apply, char_toNat_ofNat a (h a List.mem_cons_self)]
    rw [ih (fun c hc => h c (List.mem_cons_of_mem _ hc))]

theorem obisKey_inj {o o' : List Nat} (h : Obis6 o) (h' : Obis6 o')
    (e : Py.toString (obisText o) = Py.toString (obisText o')) : o = o' := by
  apply obisText_inj h h'
  rw [← ofString_toString _ (obisText_ascii o h), ← ofString_toString _ (obisText_ascii o' h'), e]


/-! ### scaling table -/

def scaledCodes : List (List Nat) :=
  [[1, 1, 1, 8, 0, 255], [1, 1, 2, 8, 0, 255], [1, 1, 3, 8, 0, 255], [1, 1, 31, 7, 0, 255],
   [1, 1, 4, 8, 0, 255], [1, 1, 51, 7, 0, 255], [1, 1, 71, 7, 0, 255]]

theorem scaledCodes_obis6 : ∀ c ∈ scaledCodes, Obis6 c := by decide

theorem keys_eq (ct : Bool) : (if ct then kamScalingCt else kamScalingStd).map (·.1) =
    scaledCodes.map (fun o => Py.toString (obisText o)) := by
  cases ct <;> decide

theorem scaleFor_none (ct : Bool) (o : List Nat) (h : Obis6 o) (hn : o ∉ scaledCodes) :
    Kamstrup.scaleFor ct o = none := by
  unfold Kamstrup.scaleFor
  apply lookup_none
  intro p hp heq
  have hm : p.1 ∈ (if ct then kamScalingCt else kamScalingStd).map (·.1) := List.mem_map_of_mem hp
  rw [keys_eq] at hm
  obtain ⟨code, hcode, e⟩ := List.mem_map.mp hm
  have : o = code := obisKey_inj h (scaledCodes_obis6 code hcode) (heq.trans e.symm)
  subst this
  exact hn hcode

/-- the dictionary value of an integer register under a scale-table entry -/
def valOfScale (sc : Option Int) (z : Int) : Val :=
  match sc with
  | some s => if s = 0 then .int z else Kamstrup.scaled z s
  | none => .int z

theorem kamScaled_neg (hF : ScaledOK) (z : Nat) (hz : z < 4294967296) (s : Nat) (hs : s = 1 ∨ s = 2 ∨ s = 3) :
    Kamstrup.scaled (z : Int) (-(s : Int)) = divPow10 z s := by
  have hneg : (-(s : Int)) < 0 := by omega
  have ht : (- -(s : Int)).toNat = s := by omega
  simp only [Kamstrup.scaled, hneg, if_true, ht, divPow10, hF z s hz hs]

theorem kamScaled_one (z : Nat) : Kamstrup.scaled (z : Int) 1 = .int ((z * 10 : Nat) : Int) := by
  simp [Kamstrup.scaled]

theorem valOfScale_spec (hF : ScaledOK) (ct : Bool) (o : List Nat) (h : Obis6 o) (v : Nat)
    (hv : v < 4294967296) : valOfScale (Kamstrup.scaleFor ct o) v = kamScaled ct o v := by
  by_cases hm : o ∈ scaledCodes
  · simp only [scaledCodes, List.mem_cons, List.not_mem_nil, or_false] at hm
    have e2 := kamScaled_neg hF v hv 2 (by simp)
    have e3 := kamScaled_neg hF v hv 3 (by simp)
    have e1 := kamScaled_one v
    rcases hm with rfl | rfl | rfl | rfl | rfl | rfl | rfl <;> cases ct
    all_goals first
      | (rw [show Kamstrup.scaleFor false _ = some 1 by decide]; simp [valOfScale, kamScaled, e1]; done)
      | (rw [show Kamstrup.scaleFor true _ = some 1 by decide]; simp [valOfScale, kamScaled, e1]; done)
      | (rw [show Kamstrup.scaleFor false _ = some (-((2 : Nat) : Int)) by decide]
         simp [valOfScale, kamScaled]; exact e2)
      | (rw [show Kamstrup.scaleFor true _ = some (-((3 : Nat) : Int)) by decide]
         simp [valOfScale, kamScaled]; exact e3)
  · rw [scaleFor_none ct o h hm]
    simp only [scaledCodes, List.mem_cons, List.not_mem_nil, or_false, not_or] at hm
    simp [valOfScale, kamScaled, hm]


/-! ### parsing -/

/-- the input does not continue with a null-data octet -/
def NoNull (s : List Nat) : Prop := ∀ b t, s = b :: t → b ≠ 0

theorem noNull_nil : NoNull [] := by intro b t h; exact absurd h (by simp)

theorem skipNulls_replicate (p : Nat) (rest : List Nat) (h : NoNull rest) :
    skipNulls (List.replicate p 0 ++ rest) = rest := by
  unfold skipNulls
  induction p with
  | zero =>
    simp only [List.replicate_zero, List.nil_append]
    cases rest with
    | nil => rfl
    | cons b t =>
      have := h b t rfl
      simp [this]
  | succ p ih =>
    simp only [List.replicate_succ, List.cons_append, List.dropWhile_cons, tNull_eq]
    simpa using ih

theorem nullData_replicate (p : Nat) (rest : List Nat) (h : NoNull rest) :
    nullData (List.replicate p 0 ++ rest) = rest := by
  cases p with
  | zero =>
    simp only [List.replicate_zero, List.nil_append]
    cases rest with
    | nil => rfl
    | cons b t =>
      have := h b t rfl
      simp [nullData, this]
  | succ p =>
    have := skipNulls_replicate (p + 1) rest h
    simp only [List.replicate_succ, List.cons_append] at this ⊢
    simp only [nullData, tNull_eq, if_true, this]

def toKField : KamVal → FieldVal
  | .text s => .str s
  | .u32 v => .int v
  | .u16 v => .int v
  | .clock d => .dt (expectedDT d)

def toElem (e : KamElem) : Kamstrup.Element := ⟨some e.obis, toKField e.value⟩

def encElem (e : KamElem) : List Nat := encObis e.obis ++ encKamVal e.value ++ List.replicate e.pad 0

/-- value part of an element: date-time field when the next octet is the octet-string tag, else a field -/
def valR (r : List Nat) : Res FieldVal :=
  match r with
  | b :: _ => if b = tOctet then (dateTimeField r).bind fun d r' => .ok (.dt d) r' else field r
  | [] => field r

theorem valR_enc (v : KamVal) (h : v.WF) (r : List Nat) : valR (encKamVal v ++ r) = .ok (toKField v) r := by
  cases v with
  | text s =>
    have := field_visible s h.1 r
    simp only [List.cons_append, List.nil_append] at this
    simp only [encKamVal, List.cons_append, List.nil_append, valR, tOctet_eq, this, toKField]
    simp
  | u32 v =>
    have := field_u32 v h r
    simp only [List.cons_append, List.nil_append] at this
    simp only [encKamVal, List.cons_append, List.nil_append, valR, tOctet_eq, this, toKField]
    simp
  | u16 v =>
    have := field_u16 v h r
    simp only [List.cons_append, List.nil_append] at this
    simp only [encKamVal, List.cons_append, List.nil_append, valR, tOctet_eq, this, toKField]
    simp
  | clock d =>
    have := datetime_in_dateTimeField d h r
    simp only [List.cons_append, List.nil_append] at this
    simp only [encKamVal, List.cons_append, List.nil_append, valR, tOctet_eq, this, toKField, if_true, bind_ok]

theorem element_eq (s : List Nat) :
    Kamstrup.element s =
      ((match s with
        | b :: _ => if b = tOctet then (obisField s).bind fun o r => .ok (some o) r else .ok none s
        | [] => .ok none s : Res (Option (List Nat)))).bind fun o r =>
        (valR r).bind fun v r' => .ok ⟨o, v⟩ (nullData r') := rfl

theorem element_enc (e : KamElem) (h : e.WF) (rest : List Nat) (hr : NoNull rest) :
    Kamstrup.element (encElem e ++ rest) = .ok (toElem e) rest := by
  rw [element_eq]
  have ho := obisField_enc e.obis h.1.1 (encKamVal e.value ++ (List.replicate e.pad 0 ++ rest))
  simp only [encElem, encObis, List.cons_append, List.nil_append, List.append_assoc, tOctet_eq, if_true] at ho ⊢
  rw [ho, bind_ok, bind_ok, valR_enc e.value h.2.1, bind_ok, nullData_replicate e.pad rest hr]
  rfl

theorem element_version (s : List Nat) (hp : printable s) (hl : s.length ≤ 255) (p : Nat) (rest : List Nat) (hr : NoNull rest) :
    Kamstrup.element ([10, s.length] ++ s ++ List.replicate p 0 ++ rest) = .ok ⟨none, .str s⟩ rest := by
  rw [element_eq]
  have hv := valR_enc (.text s) ⟨hp, hl⟩ (List.replicate p 0 ++ rest)
  simp only [encKamVal, List.cons_append, List.nil_append, List.append_assoc, tOctet_eq] at hv ⊢
  rw [if_neg (by decide), bind_ok, hv, bind_ok, nullData_replicate p rest hr]
  rfl

theorem element_nil : Kamstrup.element [] = .soft := rfl

theorem noNull_flatMap (es : List KamElem) : NoNull (es.flatMap encElem) := by
  cases es with
  | nil => exact noNull_nil
  | cons e es =>
    intro b t hb
    simp only [List.flatMap_cons, encElem, encObis, List.cons_append, List.nil_append, List.append_assoc,
      List.cons.injEq] at hb
    omega

theorem greedy_enc : ∀ (es : List KamElem) (fuel : Nat), (∀ e ∈ es, e.WF) → es.length + 1 ≤ fuel →
    Kamstrup.greedy fuel (es.flatMap encElem) = .ok (es.map toElem) [] := by
  intro es
  induction es with
  | nil =>
    intro fuel _ hf
    obtain ⟨f, rfl⟩ : ∃ f, fuel = f + 1 := ⟨fuel - 1, by simp only [List.length_nil] at hf; omega⟩
    rw [List.flatMap_nil, Kamstrup.greedy, element_nil]
    rfl
  | cons e es ih =>
    intro fuel h hf
    simp only [List.length_cons] at hf
    obtain ⟨f, rfl⟩ : ∃ f, fuel = f + 1 := ⟨fuel - 1, by omega⟩
    rw [Kamstrup.greedy, List.flatMap_cons, element_enc e (h e List.mem_cons_self) _ (noNull_flatMap es)]
    simp only [ih f (fun q hq => h q (List.mem_cons_of_mem _ hq)) (by omega), bind_ok, List.map_cons]

theorem encKamList_eq (l : KamList) :
    encKamList l = 2 :: l.lenOctet ::
      ([10, l.version.length] ++ l.version ++ List.replicate l.versionPad 0 ++ l.elems.flatMap encElem) := by
  have : (fun e : KamElem => encObis e.obis ++ encKamVal e.value ++ List.replicate e.pad 0) = encElem := rfl
  unfold encKamList
  rw [this]
  simp only [List.cons_append, List.nil_append, List.append_assoc]

theorem notificationBody_enc (l : KamList) (h : l.WF) :
    Kamstrup.notificationBody (encKamList l) =
      .ok (⟨none, .str l.version⟩ :: l.elems.map toElem) [] := by
  rw [encKamList_eq]
  unfold Kamstrup.notificationBody
  simp only [tStructure_eq, constByte_cons, bind_ok, u8_cons]
  rw [Kamstrup.greedy, element_version l.version h.2.1 h.2.2.1 l.versionPad _ (noNull_flatMap l.elems)]
  dsimp only
  rw [greedy_enc l.elems _ h.2.2.2]
  · rfl
  · have := flatMap_length_ge encElem (by intro a; simp [encElem, encObis]) l.elems
    simp only [List.length_append, List.length_cons]
    omega


/-! ### CT detection -/

def meterTypeCode : List Nat := [1, 1, 96, 1, 1, 255]

theorem meterType_pred (o : List Nat) (h : Obis6 o) :
    (obisText o == Kamstrup.meterTypeObis) = decide (o = meterTypeCode) := by
  have e : Kamstrup.meterTypeObis = obisText meterTypeCode := by decide
  rw [e]
  by_cases ho : o = meterTypeCode
  · subst ho; simp
  · have : obisText o ≠ obisText meterTypeCode := fun he => ho (obisText_inj h (by decide) he)
    simp [ho, this]

def ctPred (el : Kamstrup.Element) : Bool :=
  match el.obis with | some o => obisText o == Kamstrup.meterTypeObis | none => false

theorem isCtMeter_eq (items : List Kamstrup.Element) :
    Kamstrup.isCtMeter items =
      match items.find? ctPred with
      | some el => (match el.value with | .str s => Kamstrup.ctPrefix.isPrefixOf s | _ => false)
      | none => false := rfl

theorem find?_congr' {α : Type} (p q : α → Bool) (l : List α) (h : ∀ x ∈ l, p x = q x) :
    l.find? p = l.find? q := by
  induction l with
  | nil => rfl
  | cons a l ih =>
    rw [List.find?_cons, List.find?_cons, h a List.mem_cons_self,
      ih (fun x hx => h x (List.mem_cons_of_mem _ hx))]

theorem isCt_eq (l : KamList) (h : l.WF) :
    Kamstrup.isCtMeter (⟨none, .str l.version⟩ :: l.elems.map toElem) = kamIsCt l := by
  rw [isCtMeter_eq]
  unfold kamIsCt kamMeterType
  rw [List.find?_cons, show ctPred ⟨none, .str l.version⟩ = false from rfl]
  simp only [List.find?_map]
  rw [find?_congr' (ctPred ∘ toElem) (fun e => decide (e.obis = [1, 1, 96, 1, 1, 255])) l.elems
    (fun e he => meterType_pred e.obis (h.2.2.2 e he).1)]
  cases l.elems.find? (fun e => decide (e.obis = [1, 1, 96, 1, 1, 255])) with
  | none => rfl
  | some e =>
    obtain ⟨o, v, p⟩ := e
    cases v <;> simp [toElem, toKField] <;> rfl


/-! ### normalisation -/

theorem normLoop_int (ct : Bool) (o : List Nat) (name : String) (hne : (name == field_METER_DATETIME) = false)
    (a b c dd e f : Nat) (ho : o = [a, b, c, dd, e, f]) (hn : obisNameMap.lookup (cdeText c dd e) = some name)
    (z : Int) (rest : List Kamstrup.Element) (d : Dict) :
    Kamstrup.normLoop ct (⟨some o, .int z⟩ :: rest) d =
      Kamstrup.normLoop ct rest (d.set name (valOfScale (Kamstrup.scaleFor ct o) z)) := by
  subst ho
  rw [Kamstrup.normLoop]
  simp only [hn, hne]
  cases Kamstrup.scaleFor ct [a, b, c, dd, e, f] with
  | none => simp [valOfScale]
  | some s =>
    by_cases hs : s = 0
    · simp [valOfScale, hs]
    · simp [valOfScale, hs]

theorem normLoop_step (hF : ScaledOK) (ct : Bool) (el : KamElem) (h : el.WF) (rest : List Kamstrup.Element)
    (d : Dict) :
    Kamstrup.normLoop ct (toElem el :: rest) d =
      Kamstrup.normLoop ct rest (d.set (obisName el.obis) (kamVal ct el.obis el.value)) := by
  obtain ⟨o, v, p⟩ := el
  obtain ⟨ho6, hv, hk, hclk⟩ := h
  simp only at ho6 hv hk hclk
  obtain ⟨a, b, c, dd, e, f, rfl⟩ := obis6_cases ho6.1
  simp only [kamKnown] at hk
  obtain ⟨name, hn⟩ := Option.isSome_iff_exists.mp hk
  have hname : obisName [a, b, c, dd, e, f] = name := by
    simp only [obisName, fieldName, hn]
  rw [hname] at hclk ⊢
  cases v with
  | text s =>
    have hne : (name == field_METER_DATETIME) = false := by
      simp only [beq_eq_false_iff_ne, field_METER_DATETIME]; exact hclk
    rw [Kamstrup.normLoop]
    simp only [toElem, toKField, hn, hne, kamVal]
    simp
  | u32 z =>
    have hne : (name == field_METER_DATETIME) = false := by
      simp only [beq_eq_false_iff_ne, field_METER_DATETIME]; exact hclk
    simp only [toElem, toKField, kamVal]
    rw [normLoop_int ct _ name hne a b c dd e f rfl hn, valOfScale_spec hF ct _ ho6 z hv]
  | u16 z =>
    have hne : (name == field_METER_DATETIME) = false := by
      simp only [beq_eq_false_iff_ne, field_METER_DATETIME]; exact hclk
    have hz : z < 4294967296 := by have : z < 65536 := hv; omega
    simp only [toElem, toKField, kamVal]
    rw [normLoop_int ct _ name hne a b c dd e f rfl hn, valOfScale_spec hF ct _ ho6 z hz]
  | clock t =>
    simp only at hclk
    subst hclk
    rw [Kamstrup.normLoop]
    simp only [toElem, toKField, hn, kamVal]
    simp [field_METER_DATETIME]

theorem normLoop_ok (hF : ScaledOK) (ct : Bool) : ∀ (es : List KamElem) (d : Dict), (∀ e ∈ es, e.WF) →
    Kamstrup.normLoop ct (es.map toElem) d =
      .ok (es.foldl (fun d e => d.set (obisName e.obis) (kamVal ct e.obis e.value)) d) := by
  intro es
  induction es with
  | nil => intro d _; rfl
  | cons e es ih =>
    intro d h
    rw [List.map_cons, normLoop_step hF ct e (h e List.mem_cons_self),
      ih _ (fun q hq => h q (List.mem_cons_of_mem _ hq))]
    rfl

theorem normLoop_version (ct : Bool) (s : List Nat) (rest : List Kamstrup.Element) (d : Dict) :
    Kamstrup.normLoop ct (⟨none, .str s⟩ :: rest) d = Kamstrup.normLoop ct rest (d.set "list_ver_id" (.str s)) := by
  rw [Kamstrup.normLoop]
  simp [field_OBIS_LIST_VER_ID, field_METER_DATETIME]

theorem normalize_ok (hF : ScaledOK) (l : KamList) (h : l.WF) :
    Kamstrup.normalize (⟨none, .str l.version⟩ :: l.elems.map toElem) = .ok (kamExpected l) := by
  unfold Kamstrup.normalize
  rw [isCt_eq l h, normLoop_version, normLoop_ok hF _ l.elems _ h.2.2.2]
  rfl

theorem decodeBody_ok (hF : ScaledOK) (l : KamList) (h : l.WF) :
    Kamstrup.decodeBody (encKamList l) = .dict (kamExpected l) := by
  unfold Kamstrup.decodeBody
  rw [notificationBody_enc l h]
  simp only [normalize_ok hF l h]

theorem decodeFrame_ok (hF : ScaledOK) (hd : Header) (hh : hd.WF) (hc : hd.clock ≠ .null)
    (l : KamList) (h : l.WF) :
    Kamstrup.decodeFrame (encHeader hd ++ encKamList l) =
      .dict ((kamExpected l).set "meter_datetime" (.dt (match hd.clock with
        | .tagged d => expectedDT d | .untagged d => expectedDT d | .null => default))) := by
  unfold Kamstrup.decodeFrame
  rw [llc_clock hd hh, notificationBody_enc l h]
  simp only [bind_ok, normalize_ok hF l h]
  match hd.clock, hc with
  | .null, hc => exact absurd rfl hc
  | .tagged d, _ => rfl
  | .untagged d, _ => rfl

end Amshan.KamstrupRT
