import Amshan.Lemmas.ConnMgrPacing
/-
  State invariants behind the trace-level pacing theorems of C18 (Props/C18Trace.lean).
-/
namespace Amshan.ConnMgr
open Amshan.BackOff
set_option linter.unusedSimpArgs false   -- one simp set serves all branches of `next`

@[simp] theorem update_threshold (b : Breaker) (x : Nat) : (b.update x).threshold = b.threshold := by
  unfold Breaker.update; cases b.lastLoss <;> rfl
@[simp] theorem update_sleepSec (b : Breaker) (x : Nat) : (b.update x).sleepSec = b.sleepSec := by
  unfold Breaker.update; cases b.lastLoss <;> rfl
@[simp] theorem update_lastLoss (b : Breaker) (x : Nat) : (b.update x).lastLoss = some x := by
  unfold Breaker.update; cases b.lastLoss <;> rfl
theorem update_sleepFlag (b : Breaker) (x : Nat) : (b.update x).sleepFlag =
    match b.lastLoss with
    | some t => (decide (x - t < b.threshold * 1000000) || decide (x < t))
    | none => b.sleepFlag := by
  unfold Breaker.update; cases b.lastLoss <;> rfl

/-- what one transition does to the configuration, the clock, the log and the breaker's time stamp -/
theorem next_frame (s s' : S) (l : Label) (h : next s l = some s') :
    s'.backoff.maxDelay = s.backoff.maxDelay ∧ s'.breaker.threshold = s.breaker.threshold ∧
    s'.breaker.sleepSec = s.breaker.sleepSec ∧ s.now ≤ s'.now ∧
    (∃ evs, s'.log = s.log ++ evs ∧ ∀ x ∈ evs, x.1 = s.now) ∧
    (s'.breaker.lastLoss = s.breaker.lastLoss ∨ s'.breaker.lastLoss = some (s.now * 1000000)) := by
  obtain ⟨now, closing, conn, lpc, t, cancelReq, backoff, breaker, nextId, live, doneSet, waiters, log⟩ := s
  cases l with
  | lRun =>
    cases lpc <;> cases conn <;> cases closing <;>
      simp [next, topLogic, S.emit, closeTransport] at h
    all_goals first
      | (subst h; simp; done)
      | (obtain ⟨hc, h⟩ := h; subst h; simp; done)
      | (subst h; simp; omega)
  | tRun =>
    cases t <;> cases cancelReq <;> cases closing <;>
      simp [next, afterSleep, S.emit] at h
    all_goals first
      | (subst h; simp; done)
      | (obtain ⟨hc, h⟩ := h; subst h; simp; done)
      | (split at h <;> simp at h <;> subst h <;> simp; done)
  | factoryOk =>
    simp [next, S.emit] at h
    obtain ⟨_, h⟩ := h; subst h; simp [Strategy.reset]
  | factoryFail =>
    simp [next, S.emit] at h
    obtain ⟨_, h⟩ := h; subst h; simp [Strategy.failure]
  | lose =>
    cases conn <;> simp [next, S.emit] at h
    obtain ⟨_, h⟩ := h; subst h; simp
  | close =>
    cases conn <;> simp [next, S.emit, closeTransport] at h
    · subst h; simp
    · split at h <;> subst h <;> simp
      omega
  | tick d =>
    simp [next] at h
    subst h; simp

/-- the manager is still reconnecting: close() has not been called and connect_loop has not returned -/
def active (s : S) : Prop := s.closing = false ∧ s.lpc ≠ .exited

/-- configuration and clock facts -/
structure PBase (md th sl : Nat) (s : S) : Prop where
  cfgMd : s.backoff.maxDelay = md
  cfgTh : s.breaker.threshold = th
  cfgSl : s.breaker.sleepSec = sl
  times : ∀ x ∈ s.log, x.1 ≤ s.now
  lossU : ∀ x, s.breaker.lastLoss = some x → ∃ u, x = u * 1000000 ∧ u ≤ s.now

theorem pbase_init (md th sl : Nat) : PBase md th sl (S.init md th sl) := by
  constructor <;> simp [S.init, Strategy.new]

theorem pbase_step {md th sl : Nat} (s s' : S) (l : Label) (hb : PBase md th sl s)
    (h : next s l = some s') : PBase md th sl s' := by
  obtain ⟨h1, h2, h3, h4, ⟨evs, h5, h6⟩, h7⟩ := next_frame s s' l h
  obtain ⟨b1, b2, b3, b4, b5⟩ := hb
  refine ⟨by rw [h1, b1], by rw [h2, b2], by rw [h3, b3], ?_, ?_⟩
  · intro x hx
    rw [h5, List.mem_append] at hx
    rcases hx with hx | hx
    · exact Nat.le_trans (b4 x hx) h4
    · rw [h6 x hx]; exact h4
  · intro x hx
    rcases h7 with h7 | h7
    · rw [h7] at hx
      obtain ⟨u, hu, hle⟩ := b5 x hx
      exact ⟨u, hu, Nat.le_trans hle h4⟩
    · rw [h7] at hx
      cases hx
      exact ⟨s.now, rfl, h4⟩

theorem reach_pbase {md th sl : Nat} {s : S} (h : Reach md th sl s) : PBase md th sl s := by
  induction h with
  | init => exact pbase_init md th sl
  | step s s' l _ hs ih => exact pbase_step s s' l ih hs

/-- the failure side: the manager's back-off state and the pending timer against the monitor -/
structure PFail (md : Nat) (s : S) : Prop where
  delay : s.backoff.delay = pow2pred (Mon.run md Mon.zero s.log).n
  chk : Checked md (fun m t => m.nb ≤ t) Mon.zero s.log
  inFac : active s → s.t = .inFactory → (Mon.run md Mon.zero s.log).nb = 0
  slp : active s → ∀ u, s.t = .sleeping u → (Mon.run md Mon.zero s.log).nb ≤ u
  idle : active s → (s.t = .none ∨ s.t = .created ∨ s.t = .finished) →
    (Mon.run md Mon.zero s.log).nb ≤ s.now + s.backoff.current

theorem pfail_init (md th sl : Nat) : PFail md (S.init md th sl) := by
  constructor <;> simp [S.init, Strategy.new, Mon.zero, pow2pred, Checked]

theorem pfail_lRun {md : Nat} (s s' : S) (hi : Inv s) (hf : PFail md s)
    (h : next s .lRun = some s') : PFail md s' := by
  obtain ⟨h1,h2,h3,h4,h5,h5',h6,h7,h8,h9,h10⟩ := hi
  obtain ⟨f1, f2, f3, f4, f5⟩ := hf
  obtain ⟨now, closing, conn, lpc, t, cancelReq, backoff, breaker, nextId, live, doneSet, waiters, log⟩ := s
  simp only [active] at h1 h2 h3 h4 h5 h5' h6 h7 h8 h9 h10 f1 f2 f3 f4 f5
  cases lpc <;> cases conn <;> cases closing <;>
    simp [next, topLogic, S.emit, closeTransport] at h
  all_goals first
    | (subst h; constructor <;> simp_all [active, Mon.run_append, Mon.step, Checked_append, Checked] ; done)
    | (obtain ⟨hc, h⟩ := h; subst h; constructor <;> simp_all [active, Mon.run_append, Mon.step, Checked_append, Checked]; done)

theorem pfail_tRun {md : Nat} (s s' : S) (hi : Inv s) (hf : PFail md s)
    (h : next s .tRun = some s') : PFail md s' := by
  obtain ⟨h1,h2,h3,h4,h5,h5',h6,h7,h8,h9,h10⟩ := hi
  obtain ⟨f1, f2, f3, f4, f5⟩ := hf
  obtain ⟨now, closing, conn, lpc, t, cancelReq, backoff, breaker, nextId, live, doneSet, waiters, log⟩ := s
  have hcur := current_le_getBackOffTime backoff breaker
  simp only [active] at h1 h2 h3 h4 h5 h5' h6 h7 h8 h9 h10 f1 f2 f3 f4 f5
  cases t <;> cases cancelReq <;> cases closing <;>
    simp [next, afterSleep, S.emit] at h
  all_goals first
    | (subst h; constructor <;> simp_all [active, Mon.run_append, Mon.step, Checked_append, Checked] ; done)
    | (obtain ⟨hc, h⟩ := h; subst h; constructor <;> simp_all [active, Mon.run_append, Mon.step, Checked_append, Checked]; done)
    | (split at h <;> simp at h <;> subst h <;> constructor <;> simp_all [active, Mon.run_append, Mon.step, Checked_append, Checked]; done)
    | (obtain ⟨hc, h⟩ := h; subst h; constructor <;> simp_all [active, Mon.run_append, Mon.step, Checked_append, Checked] <;> omega)
    | (split at h <;> simp at h <;> subst h <;> constructor <;> simp_all [active, Mon.run_append, Mon.step, Checked_append, Checked] <;> omega)

theorem pfail_factoryOk {md th sl : Nat} (s s' : S) (hb : PBase md th sl s) (hf : PFail md s)
    (h : next s .factoryOk = some s') : PFail md s' := by
  obtain ⟨f1, f2, f3, f4, f5⟩ := hf
  obtain ⟨now, closing, conn, lpc, t, cancelReq, backoff, breaker, nextId, live, doneSet, waiters, log⟩ := s
  simp only [active] at f1 f2 f3 f4 f5
  simp [next, S.emit] at h
  obtain ⟨⟨ht, hc⟩, h⟩ := h; subst h; subst ht; subst hc
  constructor <;>
    simp_all [active, Mon.run_append, Mon.step, Checked_append, Checked, Strategy.reset, pow2pred]

theorem pfail_factoryFail {md th sl : Nat} (s s' : S) (hb : PBase md th sl s) (hf : PFail md s)
    (h : next s .factoryFail = some s') : PFail md s' := by
  obtain ⟨f1, f2, f3, f4, f5⟩ := hf
  have hmd := hb.cfgMd
  obtain ⟨now, closing, conn, lpc, t, cancelReq, backoff, breaker, nextId, live, doneSet, waiters, log⟩ := s
  have hd := failure_delay backoff _ f1
  simp only [active] at f1 f2 f3 f4 f5 hmd
  simp [next, S.emit] at h
  obtain ⟨⟨ht, hc⟩, h⟩ := h; subst h; subst ht; subst hc
  have hm : backoff.failure.maxDelay = md := by rw [← hmd]; rfl
  constructor
  · simp [Mon.run_append, Mon.step, hd, pow2pred_succ]
  · simp [Checked_append, Checked, f2]
  · simp [active]
  · simp [active]
  · intro ha _
    simp only [active] at ha
    have := f3 ha rfl
    simp [Mon.run_append, Mon.step, this, current_eq_min, hd, hm]

theorem pfail_lose {md : Nat} (s s' : S) (hf : PFail md s)
    (h : next s .lose = some s') : PFail md s' := by
  obtain ⟨f1, f2, f3, f4, f5⟩ := hf
  obtain ⟨now, closing, conn, lpc, t, cancelReq, backoff, breaker, nextId, live, doneSet, waiters, log⟩ := s
  simp only [active] at f1 f2 f3 f4 f5
  cases conn <;> simp [next, S.emit] at h
  obtain ⟨hc, h⟩ := h; subst h
  constructor <;> simp_all [active, Mon.run_append, Mon.step, Checked_append, Checked]

theorem pfail_close {md : Nat} (s s' : S) (hf : PFail md s)
    (h : next s .close = some s') : PFail md s' := by
  obtain ⟨f1, f2, f3, f4, f5⟩ := hf
  obtain ⟨now, closing, conn, lpc, t, cancelReq, backoff, breaker, nextId, live, doneSet, waiters, log⟩ := s
  simp only [active] at f1 f2 f3 f4 f5
  cases conn <;> simp [next, S.emit, closeTransport] at h
  · subst h; constructor <;> simp_all [active, Mon.run_append, Mon.step, Checked_append, Checked]
  · split at h <;> subst h <;> constructor <;>
      simp_all [active, Mon.run_append, Mon.step, Checked_append, Checked]

theorem pfail_tick {md : Nat} (s s' : S) (d : Nat) (hf : PFail md s)
    (h : next s (.tick d) = some s') : PFail md s' := by
  simp only [next, Option.some.injEq] at h
  subst h
  obtain ⟨f1, f2, f3, f4, f5⟩ := hf
  refine ⟨f1, f2, f3, f4, ?_⟩
  intro ha ht
  have := f5 ha ht
  simp only at this ⊢
  omega

theorem pfail_step {md th sl : Nat} (s s' : S) (l : Label) (hi : Inv s) (hb : PBase md th sl s)
    (hf : PFail md s) (h : next s l = some s') : PFail md s' := by
  cases l with
  | lRun => exact pfail_lRun s s' hi hf h
  | tRun => exact pfail_tRun s s' hi hf h
  | factoryOk => exact pfail_factoryOk s s' hb hf h
  | factoryFail => exact pfail_factoryFail s s' hb hf h
  | lose => exact pfail_lose s s' hf h
  | close => exact pfail_close s s' hf h
  | tick d => exact pfail_tick s s' d hf h

theorem reach_all {md th sl : Nat} {s : S} (h : Reach md th sl s) :
    Inv s ∧ PBase md th sl s ∧ PFail md s := by
  induction h with
  | init => exact ⟨inv_init md th sl, pbase_init md th sl, pfail_init md th sl⟩
  | step s s' l _ hs ih =>
    exact ⟨inv_step s s' l ih.1 hs, pbase_step s s' l ih.2.1 hs, pfail_step s s' l ih.1 ih.2.1 ih.2.2 hs⟩

theorem reach_pfail {md th sl : Nat} {s : S} (h : Reach md th sl s) : PFail md s := (reach_all h).2.2

end Amshan.ConnMgr
