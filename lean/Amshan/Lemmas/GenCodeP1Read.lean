import Amshan.Lemmas.GenCodeBase
import Amshan.GeneratedCodeP1Read
/- `ModeDReader.read(data_chunk)` and the line buffer `_ReaderBuffer` of han/dlde.py, mechanically translated from the
   source (Amshan/GeneratedCodeP1Read.lean, regenerated on every run), equal the hand-written model (`P1.Buf` and its
   functions, `P1.loop`, `P1.read` of Model/P1.lean).

   The Python-level state keeps the WHOLE bytearray (`PyBuf`); `p1AbsBuf` / `p1AbsReader` are the abstraction to the
   model's state, `P1BufInv` (`_buffer_pos ≤ len(_buffer)`) the invariant under which the buffer methods commute with it.
   The `while True:` loop is a recursion on fuel (`p1RdRead.loop1`); `p1RdRead_loop_eq` holds for every fuel larger than
   the number of unread octets and every out-of-fuel answer `oof`: every iteration that goes on pops a line (at least one
   octet), so the fuel that `p1RdRead` grants is never used up.

   What python raises is modelled where the model does: `DataReadout(raw)` (`Readout.make`).  `line[0]` and
   `line.decode("ascii")` are total in the translation; the proof shows their guards (a popped line is not empty;
   `isascii()` is tested first), under which the model does not raise either. -/
set_option linter.unusedSimpArgs false
set_option linter.unusedVariables false
namespace Amshan.GenLemmas
open Amshan.GenCode Amshan.Gen Amshan.P1 Amshan.Py

/-! ### the abstraction -/

def P1BufInv (b : PyBuf) : Prop := b.pos ≤ b.buffer.length

def p1AbsBuf (b : PyBuf) : P1.Buf := { consumed := b.pos, inp := b.buffer.drop b.pos }

def p1AbsReader (r : P1PyReader) : P1.Reader := { buf := p1AbsBuf r.buf, raw := r.raw, hunt := r.hunt }

def P1ReaderInv (r : P1PyReader) : Prop := P1BufInv r.buf

theorem notLf_eq : notLf = fun x => x != p1Lf := rfl
theorem notStart_eq : notStart = fun x => x != p1Start := rfl

/-! ### `_ReaderBuffer` -/

/-- `__len__`: all octets of the bytearray (the model's `Buf.size`, under the invariant) -/
theorem p1BufLen_eq (b : PyBuf) (hb : P1BufInv b) : p1BufLen b = (p1AbsBuf b).size := by
  unfold p1BufLen p1AbsBuf Buf.size P1BufInv at *
  simp only [List.length_drop]
  omega

theorem p1BufExtend_eq (b : PyBuf) (chunk : List Nat) (hb : P1BufInv b) :
    p1AbsBuf (p1BufExtend b chunk) = (p1AbsBuf b).extend chunk ∧ P1BufInv (p1BufExtend b chunk) := by
  unfold p1BufExtend p1AbsBuf Buf.extend P1BufInv at *
  refine ⟨?_, by simp; omega⟩
  simp [List.drop_append_of_le_length hb]

theorem p1BufClear_eq (b : PyBuf) : p1AbsBuf (p1BufClear b) = Buf.empty ∧ P1BufInv (p1BufClear b) := by
  unfold p1BufClear p1AbsBuf Buf.empty P1BufInv
  simp

theorem p1BufTrimToPos_val (b : PyBuf) : p1BufTrimToPos b = { buffer := b.buffer.drop b.pos, pos := 0 } := by
  unfold p1BufTrimToPos
  rcases b with ⟨l, p⟩
  simp <;> gen_decide

theorem p1BufTrimToPos_eq (b : PyBuf) :
    p1AbsBuf (p1BufTrimToPos b) = (p1AbsBuf b).trimToPos ∧ P1BufInv (p1BufTrimToPos b) := by
  rw [p1BufTrimToPos_val]
  simp [p1AbsBuf, Buf.trimToPos, P1BufInv]

theorem p1BufTrimToFlagOrEnd_val (b : PyBuf) :
    p1BufTrimToFlagOrEnd b = { buffer := (b.buffer.drop b.pos).dropWhile notStart, pos := 0 } := by
  unfold p1BufTrimToFlagOrEnd
  simp only [p1BufTrimToPos_val]
  rw [notStart_eq, GenRt.dropWhile_ne_eq_find]
  generalize hB : b.buffer.drop b.pos = B
  have hge := GenRt.find_ge B p1Start
  by_cases hneg : GenRt.find B p1Start < 0
  · have hm1 : GenRt.find B p1Start = -1 := by omega
    simp [hm1] <;> gen_decide
  · have hnn : 0 ≤ GenRt.find B p1Start := by omega
    have hne : GenRt.find B p1Start ≠ -1 := by omega
    by_cases h0 : GenRt.find B p1Start = 0
    · simp [h0, GenRt.sliceFrom_of_nonneg] <;> gen_decide
    · have hpos : 0 < GenRt.find B p1Start := by omega
      have h1 : ¬ GenRt.find B p1Start < 1 := by omega
      simp [hneg, hne, h0, h1, hpos, hnn, GenRt.sliceFrom_of_nonneg] <;> gen_decide

theorem p1BufTrimToFlagOrEnd_eq (b : PyBuf) :
    p1AbsBuf (p1BufTrimToFlagOrEnd b) = (p1AbsBuf b).trimToFlagOrEnd ∧ P1BufInv (p1BufTrimToFlagOrEnd b) := by
  rw [p1BufTrimToFlagOrEnd_val]
  simp [p1AbsBuf, Buf.trimToFlagOrEnd, P1BufInv]

theorem mem_iff_dropWhile_ne_nil (l : List Nat) (v : Nat) : v ∈ l ↔ l.dropWhile (fun x => x != v) ≠ [] := by
  induction l with
  | nil => simp
  | cons a t ih =>
    by_cases hav : a = v
    · subst hav; simp
    · have hva : v ≠ a := fun e => hav e.symm
      simp [List.dropWhile_cons, hav, hva, ih]

/-- `pop()` when the unread octets hold no line feed: nothing changes, None -/
theorem p1BufPop_none (b : PyBuf) (h : (p1AbsBuf b).pop = none) : p1BufPop b = (b, none) := by
  have hnil : (b.buffer.drop b.pos).dropWhile notLf = [] := by
    unfold Buf.pop p1AbsBuf at h
    simp only at h
    split at h
    · assumption
    · cases h
  have hnot : p1Lf ∉ b.buffer.drop b.pos := by
    rw [mem_iff_dropWhile_ne_nil, ← notLf_eq, hnil]; simp
  have hf : GenRt.findFrom b.buffer p1Lf b.pos = -1 := by
    rw [GenRt.findFrom_eq_takeWhile, if_neg hnot]
  unfold p1BufPop
  simp [hf] <;> gen_decide

/-- `pop()` when the unread octets hold a line feed: the line up to and including it; the read position moves past it -/
theorem p1BufPop_some (b : PyBuf) (hb : P1BufInv b) (line : List Nat) (b1 : P1.Buf) (h : (p1AbsBuf b).pop = some (line, b1)) :
    (p1BufPop b).2 = some line ∧ p1AbsBuf (p1BufPop b).1 = b1 ∧ P1BufInv (p1BufPop b).1 := by
  unfold Buf.pop p1AbsBuf at h
  simp only at h
  generalize hrest : b.buffer.drop b.pos = rest at h
  split at h
  · cases h
  · rename_i lf rest' hdw
    simp only [Option.some.injEq, Prod.mk.injEq] at h
    obtain ⟨hline, hb1⟩ := h
    have hsplit : rest = rest.takeWhile notLf ++ lf :: rest' := by
      have := List.takeWhile_append_dropWhile (p := notLf) (l := rest)
      rw [hdw] at this; exact this.symm
    generalize htw : rest.takeWhile notLf = tw at hsplit hline hb1
    have hmem : p1Lf ∈ b.buffer.drop b.pos := by
      rw [mem_iff_dropWhile_ne_nil, ← notLf_eq, hrest, hdw]; simp
    have hlen : rest.length = b.buffer.length - b.pos := by rw [← hrest]; simp
    have hrl : rest.length = tw.length + 1 + rest'.length := by
      rw [hsplit]; simp; omega
    have hf : GenRt.findFrom b.buffer p1Lf b.pos = Int.ofNat (b.pos + tw.length) := by
      rw [GenRt.findFrom_eq_takeWhile, if_pos hmem, hrest, ← notLf_eq, htw]
    have hf1 : GenRt.findFrom b.buffer p1Lf b.pos + 1 = Int.ofNat (b.pos + tw.length + 1) := by
      rw [hf]; simp only [Int.ofNat_eq_natCast]; omega
    have hslice : GenRt.slice b.buffer (Int.ofNat b.pos) (Int.ofNat (b.pos + tw.length + 1)) = tw ++ [lf] := by
      rw [GenRt.slice_ofNat, List.drop_take, hrest]
      have : b.pos + tw.length + 1 - b.pos = tw.length + 1 := by omega
      rw [this, hsplit, GenRt.take_length_succ_append]
    have hdrop : ∀ n, n = b.pos + tw.length + 1 → b.buffer.drop n = rest' := by
      intro n hn
      have : n = b.pos + (tw.length + 1) := by omega
      rw [this, ← List.drop_drop, hrest, hsplit, GenRt.drop_length_succ_append]
    have hlt : b.pos < b.buffer.length := by omega
    have hnn : (0 : Int) ≤ Int.ofNat (b.pos + tw.length) := by simp only [Int.ofNat_eq_natCast]; omega
    unfold p1BufPop
    simp only [hf1, hslice]
    simp only [hf, hnn, hlt, decide_true, Bool.and_self, if_true]
    try simp only [GenRt.toNat_ofNat]      -- (`Int.toNat (find + 1)`, where the source stores that)
    refine ⟨by rw [← hline], ?_, ?_⟩
    · rw [← hb1]
      simp only [p1AbsBuf, List.length_append, List.length_cons, List.length_nil]
      have e1 : ∀ (n : Nat), n = b.pos + tw.length + 1 →
          ({ consumed := n, inp := b.buffer.drop n } : P1.Buf) = { consumed := b.pos + tw.length + 1, inp := rest' } := by
        intro n hn; rw [hdrop n hn, hn]
      exact e1 _ (by omega)
    · simp only [P1BufInv, List.length_append, List.length_cons, List.length_nil]
      omega

/-! ### the `while True:` loop, and `read` -/

/-- a popped line is not empty, and the unread octets are the line followed by what stays unread
    (as `P1.pop_some` of Lemmas/P1Total.lean, which cannot be imported together with the C05 lemmas) -/
theorem p1_pop_some {b : P1.Buf} {line : List Nat} {b1 : P1.Buf} (h : b.pop = some (line, b1)) :
    line ≠ [] ∧ b.inp = line ++ b1.inp := by
  simp only [Buf.pop] at h
  split at h
  · cases h
  · rename_i lf rest heq
    simp only [Option.some.injEq, Prod.mk.injEq] at h
    obtain ⟨h1, h2⟩ := h
    subst h1 h2
    refine ⟨by simp, ?_⟩
    have := List.takeWhile_append_dropWhile (p := notLf) (l := b.inp)
    rw [heq] at this
    simp only [List.append_assoc, List.cons_append, List.nil_append]
    exact this.symm

theorem p1_decodeAscii_of_isAscii {l : List Nat} (h : isAscii l = true) : decodeAscii l = .ok l := by
  unfold decodeAscii
  unfold isAscii at h
  rw [if_pos h]

theorem p1_loop_none (b : P1.Buf) (raw : List Nat) (hunt : Bool) (out : List Readout) (h : b.pop = none) :
    P1.loop b raw hunt out = .ok ({ buf := b, raw := raw, hunt := hunt }, out) := by
  rw [P1.loop]; split
  · rfl
  · rename_i line b1 h2; rw [h] at h2; cases h2

theorem p1_loop_some (b : P1.Buf) (raw : List Nat) (hunt : Bool) (out : List Readout) (line : List Nat) (b1 : P1.Buf)
    (h : b.pop = some (line, b1)) :
    P1.loop b raw hunt out =
      (match handleLine raw hunt line with
       | .error e => .error e
       | .ok (raw1, hunt1, ro) => P1.loop b1 raw1 hunt1 (out ++ ro.toList)) := by
  rw [P1.loop]; split
  · rename_i h2; rw [h] at h2; cases h2
  · rename_i line' b1' h2
    rw [h] at h2
    simp only [Option.some.injEq, Prod.mk.injEq] at h2
    obtain ⟨hl, hb⟩ := h2
    subst hl; subst hb
    rfl

/-- `handleLine` in hunt mode, for a line that is not empty (the guards of `line[0]` and `decode`) -/
theorem handleLine_hunt (raw : List Nat) (c : Nat) (t : List Nat) :
    handleLine raw true (c :: t) =
      .ok (if c == p1Start && isAscii (c :: t) && isIdentLine (c :: t) then (raw ++ c :: t, false, none) else (raw, true, none)) := by
  unfold handleLine
  by_cases hc : c = p1Start
  · subst hc
    cases hasc : isAscii (p1Start :: t) <;> cases hid : isIdentLine (p1Start :: t) <;>
      simp [hasc, hid, p1_decodeAscii_of_isAscii, bind, Except.bind, pure, Except.pure]
  · cases hasc : isAscii (c :: t) <;> cases hid : isIdentLine (c :: t) <;>
      simp [hc, hasc, hid, p1_decodeAscii_of_isAscii, bind, Except.bind, pure, Except.pure]

/-- `handleLine` inside a readout, for a line that is not empty -/
theorem handleLine_data (raw : List Nat) (c : Nat) (t : List Nat) :
    handleLine raw false (c :: t) =
      if c == p1End then (match Readout.make (raw ++ c :: t) with | .ok ro => .ok ([], true, some ro) | .error e => .error e)
      else .ok (raw ++ c :: t, false, none) := by
  unfold handleLine
  by_cases hc : c = p1End
  · subst hc
    cases hmk : Readout.make (raw ++ p1End :: t) <;> simp [hmk, bind, Except.bind, pure, Except.pure]
  · simp [hc, bind, Except.bind, pure, Except.pure]

/-- what the Python-level answer is, seen through the abstraction -/
def p1AbsAnswer (x : Except PyExc (P1PyReader × List Readout)) : Except PyExc (P1.Reader × List Readout) :=
  x.map (fun p => (p1AbsReader p.1, p.2))

/-- the invariant of the reader in an answer (when there is one) -/
def P1AnswerInv (x : Except PyExc (P1PyReader × List Readout)) : Prop :=
  ∀ p, x = .ok p → P1ReaderInv p.1

/-- the translated loop: for every out-of-fuel answer `oof` and every fuel larger than the number of unread octets it is
    the model's `loop` - in particular the fuel never runs out -/
theorem p1RdRead_loop_eq (r0 : P1PyReader) (chunk : List Nat) (oof : Except PyExc (P1PyReader × List Readout)) :
    ∀ (fuel : Nat) (buf : PyBuf) (raw : List Nat) (hunt : Bool) (out : List Readout),
      P1BufInv buf → (p1AbsBuf buf).inp.length < fuel →
      p1AbsAnswer (p1RdRead.loop1 r0 chunk oof fuel buf raw hunt out) = P1.loop (p1AbsBuf buf) raw hunt out ∧
        P1AnswerInv (p1RdRead.loop1 r0 chunk oof fuel buf raw hunt out) := by
  intro fuel
  induction fuel with
  | zero => intro buf raw hunt out hb hlt; omega
  | succ n ih =>
    intro buf raw hunt out hb hlt
    unfold p1RdRead.loop1
    cases hpop : (p1AbsBuf buf).pop with
    | none =>
      rw [p1_loop_none _ raw hunt out hpop, p1BufPop_none buf hpop]
      refine ⟨by simp [p1AbsAnswer, Except.map, p1AbsReader], ?_⟩
      intro p hp
      simp at hp
      subst hp
      exact hb
    | some lb =>
      rcases lb with ⟨line, b1⟩
      obtain ⟨hline, habs, hinv⟩ := p1BufPop_some buf hb line b1 hpop
      obtain ⟨hne, hinp⟩ := p1_pop_some hpop
      rw [p1_loop_some _ raw hunt out line b1 hpop]
      have hlt1 : (p1AbsBuf (p1BufPop buf).1).inp.length < n := by
        rw [habs]
        have : (p1AbsBuf buf).inp.length = line.length + b1.inp.length := by rw [hinp]; simp
        have : 0 < line.length := by cases line with | nil => exact absurd rfl hne | cons _ _ => simp
        omega
      have hrec := fun raw1 hunt1 out1 => ih (p1BufPop buf).1 raw1 hunt1 out1 hinv hlt1
      rw [habs] at hrec
      simp only [hline, Option.isSome_some, if_true, Option.getD_some]
      cases line with
      | nil => exact absurd rfl hne
      | cons c t =>
        simp only [List.getD_cons_zero, GenRt.decodeAscii]
        cases hunt with
        | true =>
          rw [handleLine_hunt]
          by_cases hc : c = p1Start
          · subst hc
            cases hasc : isAscii (p1Start :: t) <;> cases hid : isIdentLine (p1Start :: t) <;>
              simp [hasc, hid] <;> exact hrec _ _ _
          · cases hasc : isAscii (c :: t) <;> cases hid : isIdentLine (c :: t) <;>
              simp [hc, hasc, hid] <;> exact hrec _ _ _
        | false =>
          rw [handleLine_data]
          by_cases hc : c = p1End
          · subst hc
            cases hmk : Readout.make (raw ++ p1End :: t) with
            | error e =>
              simp [hmk, p1AbsAnswer, Except.map, P1AnswerInv]
            | ok ro =>
              have := hrec [] true (out ++ [ro])
              simpa [hmk] using this
          · have := hrec (raw ++ c :: t) false out
            simpa [hc] using this

/-- `ModeDReader.read(data_chunk)`: the model's `read`, seen through the abstraction -/
theorem p1RdRead_eq (r : P1PyReader) (chunk : List Nat) (hr : P1ReaderInv r) :
    p1AbsAnswer (p1RdRead r chunk) = P1.read (p1AbsReader r) chunk ∧ P1AnswerInv (p1RdRead r chunk) := by
  unfold p1RdRead P1.read
  have htp := p1BufTrimToPos_eq r.buf
  have hlen : p1BufLen (p1BufTrimToPos r.buf) = (p1AbsBuf r.buf).inp.length := by
    rw [p1BufLen_eq _ htp.2, htp.1]; simp [Buf.size, Buf.trimToPos]
  have hinpl : (p1AbsBuf r.buf).inp.length ≤ r.buf.buffer.length := by
    simp [p1AbsBuf]
  simp only [hlen, p1AbsReader, Buf.trimToPos]
  by_cases hover : 8191 < (p1AbsBuf r.buf).inp.length + r.raw.length
  · have hcl := p1BufClear_eq (p1BufTrimToPos r.buf)
    have hext := p1BufExtend_eq (p1BufClear (p1BufTrimToPos r.buf)) chunk hcl.2
    have htf := p1BufTrimToFlagOrEnd_eq (p1BufExtend (p1BufClear (p1BufTrimToPos r.buf)) chunk)
    have hle := length_dropWhile_le notStart (p1AbsBuf (p1BufExtend (p1BufClear (p1BufTrimToPos r.buf)) chunk)).inp
    have := p1RdRead_loop_eq r chunk default (r.buf.buffer.length + chunk.length + 1)
      (p1BufTrimToFlagOrEnd (p1BufExtend (p1BufClear (p1BufTrimToPos r.buf)) chunk)) [] true [] htf.2
      (by rw [htf.1]; simp only [Buf.trimToFlagOrEnd]
          rw [hext.1, hcl.1] at hle ⊢
          simp [Buf.extend, Buf.empty] at hle ⊢
          omega)
    rw [htf.1, hext.1, hcl.1] at this
    simpa [hover, p1Guard] using this
  · have hext := p1BufExtend_eq (p1BufTrimToPos r.buf) chunk htp.2
    have hel : (p1AbsBuf (p1BufExtend (p1BufTrimToPos r.buf) chunk)).inp.length ≤ r.buf.buffer.length + chunk.length := by
      rw [hext.1, htp.1]; simp [Buf.extend, Buf.trimToPos]; omega
    by_cases hh : r.hunt = true
    · have htf := p1BufTrimToFlagOrEnd_eq (p1BufExtend (p1BufTrimToPos r.buf) chunk)
      have hle := length_dropWhile_le notStart (p1AbsBuf (p1BufExtend (p1BufTrimToPos r.buf) chunk)).inp
      have := p1RdRead_loop_eq r chunk default (r.buf.buffer.length + chunk.length + 1)
        (p1BufTrimToFlagOrEnd (p1BufExtend (p1BufTrimToPos r.buf) chunk)) r.raw true [] htf.2
        (by rw [htf.1]; simp only [Buf.trimToFlagOrEnd]; omega)
      rw [htf.1, hext.1, htp.1] at this
      simpa [hover, p1Guard, hh, Buf.trimToPos] using this
    · have hf : r.hunt = false := by simpa using hh
      have := p1RdRead_loop_eq r chunk default (r.buf.buffer.length + chunk.length + 1)
        (p1BufExtend (p1BufTrimToPos r.buf) chunk) r.raw false [] hext.2 (by omega)
      rw [hext.1, htp.1] at this
      simpa [hover, p1Guard, hf, Buf.trimToPos] using this

end Amshan.GenLemmas
