import Amshan.Model.Hdlc
import Amshan.Model.P1
/-
  The records that stand for `self` in the MECHANICALLY TRANSLATED reader code at buffer level
  (Amshan/GeneratedCodeHdlcRead.lean, GeneratedCodeP1Read.lean; harness/pytrans.py): one field per Python attribute
  that the translated methods assign.  Hand-written, and part of the configuration of the translation (like `Hdlc.Core`
  for the state machine core).  Unlike the models' `Buf`, the bytearray is kept whole: its contents and the read position.
-/
namespace Amshan.GenCode

/-- `_ReaderBuffer` of han/hdlc.py and of han/dlde.py: `_buffer` (the bytearray, as a list of octets), `_buffer_pos` -/
structure PyBuf where
  buffer : List Nat
  pos : Nat
  deriving Repr, DecidableEq, Inhabited

/-- `HdlcFrameReader`: the attributes of `Hdlc.Core` (`_unescape_next`, `_raw_frame_data`, `_frame`) and `_buffer` -/
structure PyReader where
  unescapeNext : Bool
  raw : List Nat
  frame : Option Hdlc.Frame
  buf : PyBuf
  deriving Repr, DecidableEq, Inhabited

/-- `ModeDReader` (han/dlde.py): `_buffer`, `_raw_data`, `_is_int_hunt_mode` -/
structure P1PyReader where
  buf : PyBuf
  raw : List Nat
  hunt : Bool
  deriving Repr, DecidableEq, Inhabited

end Amshan.GenCode
