import Amshan.Lemmas.ProtoClean
/-
  C13 (clean-stream part) — on a clean stream of HDLC frames or P1 readouts (in the domains of C02 and
  C05) the payload queue receives every message's non-empty payload, whichever candidate order is used
  — provided the OTHER candidate reports no valid message on that stream (`Quiet`): an HDLC payload may
  legally embed a complete P1 readout, so the sentence is not unconditional.
-/
namespace Amshan.C13
open Amshan.Proto Amshan.ProtoSpec Amshan.Hdlc Amshan.HdlcSpec Amshan.P1Spec

/-- a candidate that reports no valid message on this chunk sequence -/
def Quiet (r : Rd) (chunks : List (List Nat)) : Prop := ∀ m ∈ (r.feedAll chunks).flatten, m.valid = false

/-- generic: a quiet candidate, before or after the other one in the list, changes nothing -/
theorem quiet_candidate_irrelevant (k : Kind) (a q : Rd) (chunks : List (List Nat)) (hq : Quiet q chunks) :
    (runAll k (State.init [a, q]) chunks).2 = (runAll k (State.init [a]) chunks).2 ∧
    (runAll k (State.init [q, a]) chunks).2 = (runAll k (State.init [a]) chunks).2 := by
  exact runAll_quiet k a q chunks hq

/-- the HDLC candidate's message stream is the reader model's frame stream -/
theorem hdlcRd_feedAll (cfg : Cfg) (chunks : List (List Nat)) :
    ((hdlcRd cfg).feedAll chunks).flatten = (readAll cfg Reader.init chunks).2.flatten.map frameMsg := by
  exact hdlcRd_feedAll_flatten cfg chunks

/-- **C13 (clean HDLC stream).** Every frame's non-empty payload is enqueued, in order, exactly once. -/
theorem clean_hdlc (cfg : Cfg) (noise : List Nat) (fs : List (FrameDesc × Nat)) (closing : Nat)
    (chunks : List (List Nat))
    (hnoise : Octets noise ∧ flag ∉ noise)
    (hfs : ∀ p ∈ fs, p.1.WF ∧ 1 ≤ p.2 ∧ InDomain cfg.stuffing cfg.abort p.1)
    (hcl : 1 ≤ closing)
    (hch : chunks.flatten = wire cfg.stuffing noise fs closing) :
    (runAll Kind.payload (State.init [hdlcRd cfg]) chunks).2 =
      (fs.filterMap fun p => if p.1.info.isEmpty then none else some (Item.payload p.1.info)) := by
  have hstream : ((hdlcRd cfg).feedAll chunks).flatten = fs.map (fun p => frameMsg (expectedFrame p.1)) := by
    rw [hdlcRd_feedAll, Amshan.C02.clean_stream_delivered cfg noise fs closing chunks hnoise hfs hcl hch,
      List.map_map]
    rfl
  rw [single_candidate_stream (hdlcRd cfg) chunks fs _
    (fun p => if p.1.info.isEmpty then none else some p.1.info) hstream
    (fun p hp => goodPayload_expectedFrame p.1 (hfs p hp).1)]
  congr 1
  funext p
  cases p.1.info.isEmpty <;> rfl

/-- …whichever candidate order is used, when the P1 candidate is quiet on the stream -/
theorem clean_hdlc_two_candidates (cfg : Cfg) (noise : List Nat) (fs : List (FrameDesc × Nat)) (closing : Nat)
    (chunks : List (List Nat))
    (hnoise : Octets noise ∧ flag ∉ noise)
    (hfs : ∀ p ∈ fs, p.1.WF ∧ 1 ≤ p.2 ∧ InDomain cfg.stuffing cfg.abort p.1)
    (hcl : 1 ≤ closing)
    (hch : chunks.flatten = wire cfg.stuffing noise fs closing) (hq : Quiet p1Rd chunks) :
    (runAll Kind.payload (State.init [hdlcRd cfg, p1Rd]) chunks).2 =
      (fs.filterMap fun p => if p.1.info.isEmpty then none else some (Item.payload p.1.info)) ∧
    (runAll Kind.payload (State.init [p1Rd, hdlcRd cfg]) chunks).2 =
      (fs.filterMap fun p => if p.1.info.isEmpty then none else some (Item.payload p.1.info)) := by
  obtain ⟨h1, h2⟩ := quiet_candidate_irrelevant Kind.payload (hdlcRd cfg) p1Rd chunks hq
  rw [h1, h2]
  exact ⟨clean_hdlc cfg noise fs closing chunks hnoise hfs hcl hch,
    clean_hdlc cfg noise fs closing chunks hnoise hfs hcl hch⟩

/-- **C13 (clean P1 stream).** Every readout's non-empty payload is enqueued, in order, exactly once. -/
theorem clean_p1 (tail : List Nat) (ds : List ReadoutDesc) (chunks : List (List Nat))
    (htail : Octets tail ∧ Amshan.Gen.p1Start ∉ tail)
    (hds : ∀ d ∈ ds, d.WF ∧ d.encode.length ≤ Amshan.Gen.p1Guard)
    (hch : chunks.flatten = tail ++ ds.flatMap ReadoutDesc.encode) :
    (runAll Kind.payload (State.init [p1Rd]) chunks).2 =
      (ds.filterMap fun d => if d.payload.isEmpty then none else some (Item.payload d.payload)) := by
  obtain ⟨r, outs, hr, ho⟩ := Amshan.C05.p1_clean_delivered tail ds chunks htail hds hch
  have hstream : (p1Rd.feedAll chunks).flatten = ds.map (fun d => readoutMsg (Amshan.P1.expectedReadout d)) := by
    rw [p1Rd_feedAll_flatten r chunks outs hr, ho, List.map_map]
    rfl
  rw [single_candidate_stream p1Rd chunks ds _
    (fun d => if d.payload.isEmpty then none else some d.payload) hstream
    (fun d hd => goodPayload_expectedReadout d (hds d hd).1)]
  congr 1
  funext d
  cases d.payload.isEmpty <;> rfl

/-- a P1 clean stream that contains no HDLC flag octet ('~') keeps every HDLC candidate quiet -/
theorem hdlc_quiet_without_flag (cfg : Cfg) (chunks : List (List Nat)) (h : Amshan.Gen.flagOctet ∉ chunks.flatten) :
    Quiet (hdlcRd cfg) chunks := by
  intro m hm
  rw [hdlcRd_noflag cfg chunks h] at hm
  cases hm

end Amshan.C13
