import Amshan.Lemmas.ConnMgrPacingLoss
/-
  C18 on the event loop — reconnect pacing as theorems about the EVENT LOG of every reachable state of
  the ConnectionManager transition system (`ConnMgr.next`: every interleaving of task steps with
  close(), factory outcomes, connection losses and clock advances; every max_delay `md`, breaker
  threshold `th` and breaker sleep `sl`).  Time unit: the model's clock `S.now`, in SECONDS (a `tick d`
  advances it by `d` seconds, `await sleep(x)` wakes at `now + x`); log entries are `(time, event)`.

  Lower bounds only.  The property's "no later than … plus scheduling slack" needs a time-bounded
  scheduler, which the (fully nondeterministic) model does not have; see Props/C17Progress.lean for
  what can be said about progress.

  What the log does NOT carry: the time at which connect_loop SEES a loss (the `utcnow()` of
  `_update_connection_lost_circuit_breaker()`); a `lost` entry is stamped when the connection dies.
  The breaker compares the times of SEEING two losses, so the sentence "two losses closer than the
  threshold ⇒ the next attempt waits the sleep" is not a theorem about `lost` stamps — the model (like
  the code) lets connect_loop run late (the `lateSighting` example at the end is a reachable
  counterexample).  The strongest log-only statement is `attempt_after_two_losses_paced`; the exact
  statement in terms of the time stored in the state is `loss_seen_updates_breaker` +
  `attempt_waits_breaker_sleep`.
-/
namespace Amshan.C18
open Amshan.BackOff Amshan.ConnMgr

variable {md th sl : Nat}

/-! ### "the n-th consecutive failure" -/

/-- `failStreak log` (Lemmas/ConnMgrPacing.lean: one pass over the log, `failed` adds one, `obtained`
    restarts at 0, every other event is skipped) is the number of `failed` events since the last
    `obtained` event: it is 0 right after an `obtained`, and over an `obtained`-free stretch it grows
    by the number of `failed` events in the stretch. -/
theorem failStreak_spec (pre l : List (Nat × Ev)) (t i : Nat) (h : ∀ x ∈ l, ∀ j, x.2 ≠ Ev.obtained j) :
    failStreak (pre ++ [(t, Ev.obtained i)]) = 0 ∧
    failStreak (pre ++ l) = failStreak pre + countFailed l ∧
    failStreak l = countFailed l := by
  refine ⟨by simp [failStreak_snoc, streakStep], ?_, ?_⟩
  · simp only [failStreak, failStreakFrom_append]
    exact failStreakFrom_no_obtained _ l h
  · simpa [failStreak] using failStreakFrom_no_obtained 0 l h

/-- a failure is the `(n+1)`-th consecutive one when `n` precede it; a successful connect resets `n` -/
theorem failStreak_events (l : List (Nat × Ev)) (t i : Nat) :
    failStreak (l ++ [(t, Ev.failed)]) = failStreak l + 1 ∧
    failStreak (l ++ [(t, Ev.obtained i)]) = 0 ∧
    failStreak (l ++ [(t, Ev.attempt)]) = failStreak l := by
  simp [failStreak_snoc, streakStep]

/-! ### the failure clause -/

/-- **C18 (manager, failures).**  In the log of every reachable state: if `(tf, failed)` is the n-th
    consecutive failure (n = `failStreak` of the log up to and including it) and `(ta, attempt)` is the
    next attempt after it, then `ta ≥ tf + min (2^(n-1)) max_delay` seconds. -/
theorem attempt_after_failure_paced (s : S) (h : Reach md th sl s)
    (pre mid post : List (Nat × Ev)) (tf ta : Nat)
    (hlog : s.log = pre ++ (tf, Ev.failed) :: mid ++ (ta, Ev.attempt) :: post)
    (hmid : ∀ x ∈ mid, x.2 ≠ Ev.attempt) :
    tf + min (2 ^ (failStreak (pre ++ [(tf, Ev.failed)]) - 1)) md ≤ ta := by
  have hc := (reach_pfail h).chk
  rw [hlog] at hc
  have := Checked_failure_bound md _ (fun _ _ hg => hg) pre mid post tf ta hc hmid
  simpa [failStreak_snoc, streakStep] using this

/-- the same with the count spelled out: `n` consecutive failures precede the failure at `tf` -/
theorem attempt_after_failure_paced' (s : S) (h : Reach md th sl s)
    (pre mid post : List (Nat × Ev)) (tf ta : Nat)
    (hlog : s.log = pre ++ (tf, Ev.failed) :: mid ++ (ta, Ev.attempt) :: post)
    (hmid : ∀ x ∈ mid, x.2 ≠ Ev.attempt) :
    tf + min (2 ^ failStreak pre) md ≤ ta := by
  have hc := (reach_pfail h).chk
  rw [hlog] at hc
  exact Checked_failure_bound md _ (fun _ _ hg => hg) pre mid post tf ta hc hmid

/-- the manager's strategy object always holds `_delay = 2^(n-1)` (0 for n = 0) for the number `n` of
    consecutive failures in the log, and `max_delay` as configured: the link between the log and the
    strategy-object theorems of Props/C18.lean -/
theorem backoff_state_matches_log (s : S) (h : Reach md th sl s) :
    s.backoff.maxDelay = md ∧
    s.backoff.delay = (if failStreak s.log = 0 then 0 else 2 ^ (failStreak s.log - 1)) ∧
    s.backoff.current = (if failStreak s.log = 0 then min 0 md else min (2 ^ (failStreak s.log - 1)) md) := by
  have h1 := (reach_pbase h).cfgMd
  have h2 := (reach_pfail h).delay
  rw [Mon.run_zero_n] at h2
  refine ⟨h1, h2, ?_⟩
  rw [current_eq_min, h1, h2, pow2pred]
  split <;> rfl

/-! ### the breaker clause -/

/-- **C18 (manager, breaker; time stored in the state).**  The step of connect_loop that SEES a loss
    (wake-up from `wait((done_task, closing_task2))` while not closing) stamps the breaker with the
    current time and sets the sleep flag exactly when the previous loss was SEEN less than the
    threshold ago. -/
theorem loss_seen_updates_breaker (s s' : S) (h : Reach md th sl s) (hs : next s .lRun = some s')
    (hl : s.lpc = .w2) (hc : s.closing = false) :
    s'.breaker.lastLoss = some (s.now * 1000000) ∧
    ∀ x, s.breaker.lastLoss = some x →
      ∃ u, x = u * 1000000 ∧ u ≤ s.now ∧ (s'.breaker.sleepFlag = true ↔ s.now - u < th) := by
  have hb := reach_pbase h
  have hth := hb.cfgTh
  have hu := hb.lossU
  have hbr : s'.breaker = s.breaker.update (s.now * 1000000) := by
    obtain ⟨now, closing, conn, lpc, t, cancelReq, backoff, breaker, nextId, live, doneSet, waiters, log⟩ := s
    simp only at hl hc
    subst hl; subst hc
    cases conn <;> simp [next, topLogic] at hs
    obtain ⟨_, hs⟩ := hs
    subst hs; rfl
  refine ⟨by rw [hbr, update_lastLoss], fun x hx => ?_⟩
  obtain ⟨u, hxu, hle⟩ := hu x hx
  refine ⟨u, hxu, hle, ?_⟩
  rw [hbr, update_sleepFlag, hx, hth, hxu]
  have h1 : ¬ (s.now * 1000000 < u * 1000000) := by
    intro hlt
    have := (Nat.mul_lt_mul_right (by decide : 0 < 1000000)).1 hlt
    omega
  show (decide (s.now * 1000000 - u * 1000000 < th * 1000000) || decide (s.now * 1000000 < u * 1000000)) = true ↔ _
  rw [← Nat.sub_mul]
  simp only [h1, decide_false, Bool.or_false, decide_eq_true_eq]
  exact Nat.mul_lt_mul_right (by decide : 0 < 1000000)

/-- **C18 (manager, breaker; time stored in the state).**  While the breaker's flag is set, a
    connection attempt starts at least `connection_lost_back_off_sleep_sec` after EVERYTHING logged
    before it — in particular after the loss that set the flag and after the last failure (so, with
    `attempt_after_failure_paced`, at least the larger of the connect-error delay and the breaker
    sleep after the failure). -/
theorem attempt_waits_breaker_sleep (s s' : S) (l : Label) (h : Reach md th sl s)
    (hs : next s l = some s') (ha : (s.now, Ev.attempt) ∈ s'.log.drop s.log.length)
    (hfl : s.breaker.sleepFlag = true) : ∀ x ∈ s.log, x.1 + sl ≤ s.now := by
  have hi := reach_inv h
  have hb := reach_pbase h
  have hp := reach_ploss h
  obtain ⟨_, hcr, hcl, ht⟩ := attempt_emitted s s' l hs ha
  have hlpc : s.lpc ≠ .exited := by
    intro he
    have := (hi.pcEx he).2
    rcases ht with ⟨h1, _⟩ | ⟨u, h1, _⟩ <;> simp [h1, hcr] at this
  intro x hx
  rcases ht with ⟨_, h0⟩ | ⟨u, h1, hu⟩
  · have h1 := sleepSec_le_getBackOffTime s.backoff s.breaker hfl
    rw [hb.cfgSl] at h1
    have := hb.times x hx
    omega
  · have := (hp.slpF ⟨hcl, hlpc⟩ hfl u h1).1 x hx
    omega

/-- once connect_loop has seen the last loss of the log (no dead connection is held, the manager is
    not closing), the breaker's time stamp is a clock time between that `lost` entry and now -/
theorem loss_seen_after_lost (s : S) (h : Reach md th sl s) (pre post : List (Nat × Ev)) (t c : Nat)
    (hlog : s.log = pre ++ (t, Ev.lost c) :: post) (hpost : ∀ x ∈ post, ∀ c', x.2 ≠ Ev.lost c')
    (hcl : s.closing = false) (hlpc : s.lpc ≠ .exited) (hconn : s.conn = none) :
    ∃ u, s.breaker.lastLoss = some (u * 1000000) ∧ t ≤ u ∧ u ≤ s.now := by
  have hb := reach_pbase h
  have hp := reach_ploss h
  have hl2 : (Mon.run md Mon.zero s.log).l2 = some t := by
    rw [hlog, Mon.run_append, Mon.run_cons, (Mon.run_lost_free md _ post hpost).2]
    rfl
  obtain ⟨hne, hx⟩ := hp.seen ⟨hcl, hlpc⟩ (by simp [hconn]) t hl2
  cases hll : s.breaker.lastLoss with
  | none => exact absurd hll hne
  | some x =>
    obtain ⟨u, hxu, hle⟩ := hb.lossU x hll
    subst hxu
    exact ⟨u, rfl, Nat.le_of_mul_le_mul_right (hx _ hll).1 (by decide), hle⟩

/-- **C18 (manager, breaker; log only).**  In the log of every reachable state: after two consecutive
    `lost` events at `t1` and `t2`, every attempt made before the next loss starts at least
    `connection_lost_back_off_sleep_sec` after the second loss — or at least the threshold after the
    FIRST one (the only way out: connect_loop saw the second loss so late that, measured between the
    two sightings, the losses were no longer within the threshold). -/
theorem attempt_after_two_losses_paced (s : S) (h : Reach md th sl s)
    (pre mid1 mid2 post : List (Nat × Ev)) (t1 t2 ta c1 c2 : Nat)
    (hlog : s.log = pre ++ (t1, Ev.lost c1) :: mid1 ++ (t2, Ev.lost c2) :: mid2 ++ (ta, Ev.attempt) :: post)
    (hmid1 : ∀ x ∈ mid1, ∀ c, x.2 ≠ Ev.lost c) (hmid2 : ∀ x ∈ mid2, ∀ c, x.2 ≠ Ev.lost c) :
    t2 + sl ≤ ta ∨ t1 + th ≤ ta := by
  have hc := (reach_ploss h).chk
  rw [hlog] at hc
  exact Checked_loss_bound md (lossGood th sl) (fun t1 t2 t => t2 + sl ≤ t ∨ t1 + th ≤ t)
    (fun m t hg => hg) pre mid1 mid2 post t1 t2 ta c1 c2 hc hmid1 hmid2

/-- the property's reading of the breaker clause, under the (log-expressible) proviso that the attempt
    is still within the threshold of the first loss -/
theorem attempt_after_two_quick_losses (s : S) (h : Reach md th sl s)
    (pre mid1 mid2 post : List (Nat × Ev)) (t1 t2 ta c1 c2 : Nat)
    (hlog : s.log = pre ++ (t1, Ev.lost c1) :: mid1 ++ (t2, Ev.lost c2) :: mid2 ++ (ta, Ev.attempt) :: post)
    (hmid1 : ∀ x ∈ mid1, ∀ c, x.2 ≠ Ev.lost c) (hmid2 : ∀ x ∈ mid2, ∀ c, x.2 ≠ Ev.lost c)
    (hquick : ta < t1 + th) : t2 + sl ≤ ta := by
  rcases attempt_after_two_losses_paced s h pre mid1 mid2 post t1 t2 ta c1 c2 hlog hmid1 hmid2 with h1 | h1
  · exact h1
  · omega

/-! ### non-vacuity: concrete reachable states -/

/-- three consecutive failures with max_delay 60: attempts at 0, 1, 3, 7 — every wait is exactly the bound -/
def threeFailures : List Label :=
  [.lRun, .tRun, .factoryFail, .lRun, .tRun, .tick 1, .tRun, .factoryFail, .lRun, .tRun, .tick 2, .tRun,
   .factoryFail, .lRun, .tRun, .tick 4, .tRun]

example : ∃ s, Reach 60 5 5 s ∧
    s.log = [(0, .attempt), (0, .failed), (1, .attempt), (1, .failed), (3, .attempt), (3, .failed), (7, .attempt)] ∧
    s.backoff.delay = 4 ∧ s.t = .inFactory := by
  have hr : ∃ s, runLabels (S.init 60 5 5) threeFailures = some s ∧
      s.log = [(0, .attempt), (0, .failed), (1, .attempt), (1, .failed), (3, .attempt), (3, .failed), (7, .attempt)] ∧
      s.backoff.delay = 4 ∧ s.t = .inFactory := by decide
  obtain ⟨s, hs, hl⟩ := hr
  exact ⟨s, reach_runLabels _ _ _ Reach.init hs, hl⟩

/-- `attempt_after_failure_paced` applies to that log (third consecutive failure at 3, next attempt at
    7) and its bound `3 + min (2^(3-1)) 60 = 7` is attained -/
example (s : S) (h : Reach 60 5 5 s)
    (hl : s.log = [(0, .attempt), (0, .failed), (1, .attempt), (1, .failed), (3, .attempt), (3, .failed), (7, .attempt)]) :
    failStreak ([(0, .attempt), (0, .failed), (1, .attempt), (1, .failed), (3, .attempt)] ++ [(3, Ev.failed)]) = 3 ∧
    3 + min (2 ^ (3 - 1)) 60 = 7 ∧
    3 + min (2 ^ (failStreak ([(0, .attempt), (0, .failed), (1, .attempt), (1, .failed), (3, .attempt)] ++
      [(3, Ev.failed)]) - 1)) 60 ≤ 7 :=
  ⟨by decide, by decide,
   attempt_after_failure_paced s h [(0, .attempt), (0, .failed), (1, .attempt), (1, .failed), (3, .attempt)] [] []
    3 7 (by rw [hl]; rfl) (by simp)⟩

/-- two losses 2 s apart, both seen at once: the attempt after the second loss (at 2) starts at
    7 = 2 + sleep 5 -/
def twoQuickLosses : List Label :=
  [.lRun, .tRun, .factoryOk, .lRun, .lose, .lRun, .tRun, .factoryOk, .lRun, .tick 2, .lose, .lRun, .tRun,
   .tick 5, .tRun]

/-- threshold 10, sleep 5 -/
example : ∃ s, Reach 60 10 5 s ∧
    s.log = [(0, .attempt), (0, .obtained 0), (0, .lost 0), (0, .attempt), (0, .obtained 1), (2, .lost 1),
             (7, .attempt)] ∧
    s.breaker.sleepFlag = true ∧ s.breaker.lastLoss = some 2000000 := by
  have hr : ∃ s, runLabels (S.init 60 10 5) twoQuickLosses = some s ∧
      s.log = [(0, .attempt), (0, .obtained 0), (0, .lost 0), (0, .attempt), (0, .obtained 1), (2, .lost 1),
               (7, .attempt)] ∧
      s.breaker.sleepFlag = true ∧ s.breaker.lastLoss = some 2000000 := by decide
  obtain ⟨s, hs, hl⟩ := hr
  exact ⟨s, reach_runLabels _ _ _ Reach.init hs, hl⟩

/-- `attempt_after_two_quick_losses` applies to that log and its bound `2 + 5 = 7` is attained -/
example (s : S) (h : Reach 60 10 5 s)
    (hl : s.log = [(0, .attempt), (0, .obtained 0), (0, .lost 0), (0, .attempt), (0, .obtained 1), (2, .lost 1),
             (7, .attempt)]) : 2 + 5 ≤ 7 :=
  attempt_after_two_quick_losses s h [(0, .attempt), (0, .obtained 0)] [(0, .attempt), (0, .obtained 1)] [] []
    0 2 7 0 1 (by rw [hl]; rfl) (by simp) (by simp) (by decide)

/-- the defaults (threshold 5, sleep 5): the hypotheses of `attempt_waits_breaker_sleep` hold in the
    state before the last step of the same run (flag set, the step emits the attempt at 7), and the
    entry `(2, lost 1)` attains its bound -/
example : ∃ s s', Reach 60 5 5 s ∧ next s .tRun = some s' ∧
    (s.now, Ev.attempt) ∈ s'.log.drop s.log.length ∧ s.breaker.sleepFlag = true ∧
    (2, Ev.lost 1) ∈ s.log ∧ s.now = 2 + 5 := by
  have hr : ∃ s, runLabels (S.init 60 5 5) (twoQuickLosses.take 14) = some s ∧
      ∃ s', next s .tRun = some s' ∧
      (s.now, Ev.attempt) ∈ s'.log.drop s.log.length ∧ s.breaker.sleepFlag = true ∧
      (2, Ev.lost 1) ∈ s.log ∧ s.now = 2 + 5 := by decide
  obtain ⟨s, hs, s', hl⟩ := hr
  exact ⟨s, s', reach_runLabels _ _ _ Reach.init hs, hl⟩

/-- the sentence "two `lost` events closer than the threshold ⇒ the next attempt is at least the sleep
    after the second" is FALSE of `lost` stamps (threshold 5, sleep 5): losses at 0 and 4, the second is
    seen at 5 (one second late), `5 - 0 < 5` fails, the attempt starts at 5 < 4 + 5.  The disjunct
    `t1 + th ≤ ta` of `attempt_after_two_losses_paced` holds with equality. -/
def lateSighting : List Label :=
  [.lRun, .tRun, .factoryOk, .lRun, .lose, .lRun, .tRun, .factoryOk, .lRun, .tick 4, .lose, .tick 1, .lRun, .tRun]

example : ∃ s, Reach 60 5 5 s ∧
    s.log = [(0, .attempt), (0, .obtained 0), (0, .lost 0), (0, .attempt), (0, .obtained 1), (4, .lost 1),
             (5, .attempt)] ∧ 4 - 0 < 5 ∧ ¬ (4 + 5 ≤ 5) ∧ 0 + 5 ≤ 5 := by
  have hr : ∃ s, runLabels (S.init 60 5 5) lateSighting = some s ∧
      s.log = [(0, .attempt), (0, .obtained 0), (0, .lost 0), (0, .attempt), (0, .obtained 1), (4, .lost 1),
               (5, .attempt)] := by decide
  obtain ⟨s, hs, hl⟩ := hr
  exact ⟨s, reach_runLabels _ _ _ Reach.init hs, hl, by decide, by decide, by decide⟩

end Amshan.C18
