import Amshan.Lemmas.DecOwn
/-
  C12 (concrete part) — a genuine message given to a fresh AutoDecoder, or to one that last succeeded
  with the same meter's decoder in the same form, is decoded by that meter's own decoder; and
  decode_message equals decode_message_payload of the payload for HDLC and DLMS messages.
  Decoder indices: 0 Aidon_frame, 1 Kaifa_frame, 2 Kamstrup_frame, 3 P1, 4 Aidon_notification_body,
  5 Kaifa_notification_body, 6 Kamstrup_notification_body (pinned in Props/C12.lean).
-/
namespace Amshan.C12
open Amshan.Gen Amshan.Cosem Amshan.Dec Amshan.ListSpec

/-- same meter, same form: whatever the history, if the remembered decoder accepts the payload its
    result is returned and it stays remembered -/
theorem own_decoder_same_history (i : Nat) (d : Auto.Decoder (List Nat) Dict) (p : List Nat) (v : Dict)
    (hi : decoders[i]? = some d) (hv : d p = .ok v) :
    stepPayload (some i) p = .ok (some i, some v) := by
  exact prefers_previous decoders caught i d p v hi hv

/-- a genuine Aidon frame on a fresh AutoDecoder -/
theorem own_aidon_frame_fresh (hd : Header) (hh : hd.WF) (es : List AidonElem) (h : ∀ e ∈ es, e.WF)
    (hl : es.length ≤ 255) :
    stepPayload none (encHeader hd ++ encAidonBody es) = .ok (some 0, some (aidonExpected es)) := by
  refine DecOwn.fresh0 _ _ ?_
  have := C07.aidon_roundtrip_frame hd hh es h hl []
  rwa [List.append_nil] at this

/-- the Aidon frame decoder rejects every frame whose notification body starts with the structure
    tag (Kaifa and Kamstrup bodies do) -/
theorem aidon_rejects_structure_body (hd : Header) (hh : hd.WF) (rest : List Nat) :
    ∃ e, (decoders[0]?.map (fun d => d (encHeader hd ++ [2] ++ rest))) = some (.error e) := by
  refine ⟨.constructSoft, ?_⟩
  rw [DecTotal.decoders_eq]
  simp only [List.getElem?_cons_zero, Option.map_some, DecOwn.aidon_frame_reject hd hh rest]
  rfl

/-- a genuine Kaifa positional frame on a fresh AutoDecoder is decoded by Kaifa_frame -/
theorem own_kaifa_frame_fresh (hd : Header) (hh : hd.WF) (hc : hd.clock ≠ .null) (vs : List KVal)
    (d : Dict) (hdec : Kaifa.decodeFrame (encHeader hd ++ encKaifaValues vs) = .dict d) :
    stepPayload none (encHeader hd ++ encKaifaValues vs) = .ok (some 1, some d) := by
  have _ := hc
  refine DecOwn.fresh1 _ d ?_ hdec
  have := DecOwn.aidon_frame_reject hd hh ([vs.length] ++ vs.flatMap encKVal)
  simpa only [encKaifaValues, List.cons_append, List.nil_append, List.append_assoc] using this

/-- a genuine Kamstrup frame on a fresh AutoDecoder is decoded by Kamstrup_frame: Aidon_frame rejects
    the structure tag and Kaifa_frame rejects because the first OBIS code contains an octet ≥ 0x80
    (group F = 255), which is neither an OBIS-tagged Kaifa element nor ASCII text -/
theorem own_kamstrup_frame_fresh (hd : Header) (hh : hd.WF) (l : KamList) (h : l.WF)
    (hlen : 2 ≤ l.lenOctet) (hpad : l.versionPad = 0)
    (hfirst : ∃ e rest, l.elems = e :: rest ∧ ∃ b ∈ e.obis, 128 ≤ b)
    (d : Dict) (hdec : Kamstrup.decodeFrame (encHeader hd ++ encKamList l) = .dict d) :
    stepPayload none (encHeader hd ++ encKamList l) = .ok (some 2, some d) := by
  obtain ⟨e, rest, hel, hb⟩ := hfirst
  obtain ⟨_, hver, _, hwf⟩ := h
  have ho : e.obis.length = 6 := (hwf e (by rw [hel]; exact List.mem_cons_self)).1.1
  have hshape := DecOwn.encKamList_shape l hpad e rest hel
  refine DecOwn.fresh2 _ d ?_ ?_ hdec
  · have := DecOwn.aidon_frame_reject hd hh (l.lenOctet :: ([10, l.version.length] ++ l.version ++
      ([9, 6] ++ e.obis ++ (encKamVal e.value ++ List.replicate e.pad 0 ++
        rest.flatMap (fun e => encObis e.obis ++ encKamVal e.value ++ List.replicate e.pad 0)))))
    rw [hshape]
    simpa only [List.cons_append, List.nil_append, List.append_assoc] using this
  · rw [hshape]
    exact DecOwn.kaifa_frame_reject_kam hd hh l.lenOctet hlen l.version e.obis _ hver ho hb

/-- a P1 data block (printable ASCII, CR, LF) on a fresh AutoDecoder is decoded by the P1 decoder:
    the three frame decoders reject it (its ninth octet is not a date-time start) -/
theorem own_p1_fresh (block : List Nat) (hb : ∀ c ∈ block, (32 ≤ c ∧ c ≤ 126) ∨ c = 13 ∨ c = 10)
    (d : Dict) (hdec : P1Parse.decodeContent block = .ok d) :
    stepPayload none block = .ok (some 3, some d) := by
  have ht : ∀ c ∈ block, c ≠ 0 ∧ c ≠ 9 ∧ c ≠ 12 := by
    intro c hc
    have := hb c hc
    omega
  exact DecOwn.fresh3 block d (DecOwn.aidon_frame_text block ht) (DecOwn.kaifa_frame_text block ht)
    (DecOwn.kamstrup_frame_text block ht) hdec

/-- **C12.** `decode_message` gives the same result for an HDLC frame or DLMS message as
    `decode_message_payload` gives for its payload -/
theorem message_eq_payload_hdlc (prev : Option Nat) (f : Hdlc.Frame) (p : List Nat)
    (hp : f.payload = some p) (hne : p ≠ []) :
    stepMessage prev (.hdlc f) = stepPayload prev p := by
  have he : p.isEmpty = false := by cases p with | nil => exact absurd rfl hne | cons _ _ => rfl
  unfold stepMessage stepPayload
  simp only [Message.payload, hp, he, DecOwn.decodersFor_hdlc, DecOwn.caughtMessage_eq]
  rfl

theorem message_eq_payload_dlms (prev : Option Nat) (p : List Nat) (hne : p ≠ []) :
    stepMessage prev (.dlms p) = stepPayload prev p := by
  have he : p.isEmpty = false := by cases p with | nil => exact absurd rfl hne | cons _ _ => rfl
  unfold stepMessage stepPayload
  simp only [Message.payload, he, DecOwn.decodersFor_dlms, DecOwn.caughtMessage_eq]
  rfl

/-- and for an empty or missing payload the result is None with the memory unchanged -/
theorem message_empty_payload (prev : Option Nat) (m : Message)
    (h : m.payload = none ∨ m.payload = some []) : stepMessage prev m = .ok (prev, none) := by
  unfold stepMessage
  rcases h with h | h
  · rw [h]
  · rw [h]; rfl

end Amshan.C12
