import Amshan.Lemmas.GenCodeFcs
/-
  C03 (tie by translation) — the definitions in Amshan/GeneratedCode.lean are a MECHANICAL translation of
  the Python function bodies of han/fastframecheck.py (harness/pytrans.py, regenerated on every run).
  These theorems prove them equal to the hand-written model the C03 theorems are about, so for these
  functions the tie between model and code is kernel-checked, not sampled.
-/
namespace Amshan.C03
open Amshan.Gen Amshan.GenCode

/-- the table generator of the source produces exactly the table read from the imported module -/
theorem gen_table : computeFcsTable = fcsTable := by
  exact GenLemmas.computeFcsTable_eq

theorem gen_next (crc byte : Nat) : fcsNext crc byte = Fcs.next crc byte := by
  exact GenLemmas.fcsNext_eq crc byte

theorem gen_checksum (r : Nat) : fcsChecksum r = Fcs.checksum r := by
  exact GenLemmas.fcsChecksum_eq r

theorem gen_isGood (r : Nat) : fcsIsGood r = Fcs.isGood r := by
  exact GenLemmas.fcsIsGood_eq r

/-- inside the data (where Python's `data[i]` does not raise) -/
theorem gen_computeChecksum (data : List Nat) (start len : Nat) (h : start + len ≤ data.length) :
    Fcs.computeChecksum data start len = .ok (fcsComputeChecksum data start len) := by
  exact GenLemmas.fcsComputeChecksum_eq data start len h

end Amshan.C03
