import Amshan.Lemmas.GenCodeHdlcRead
/-
  C06 (tie by translation, buffer level) — `HdlcFrameReader.read(data_chunk)` and its input buffer `_ReaderBuffer`
  (han/hdlc.py: `is_available`, `pop`, `extend`, `trim_buffer_to_current_position`, `trim_buffer_to_flag_or_end`),
  mechanically translated from the current source (Amshan/GeneratedCodeHdlcRead.lean), equal the model's `Hdlc.read`,
  `Hdlc.loop` and `Hdlc.Buf` functions.

  The Python-level state is the record `GenCode.PyReader` (`_unescape_next`, `_raw_frame_data`, `_frame`, and `_buffer`:
  the record `GenCode.PyBuf` of the WHOLE bytearray `_buffer` and `_buffer_pos`).  The model forgets the contents of the
  bytearray before the read position: `GenLemmas.absBuf b = ⟨b.pos, b.buffer.drop b.pos⟩`, `GenLemmas.absReader` likewise.
  Every buffer method commutes with the abstraction under the invariant `GenLemmas.BufInv b : b.pos ≤ b.buffer.length`
  (needed by `extend` only), and preserves it.

  In `read`, `self._read_next()` really pops from the buffer and `_goto_hunt_mode()` really trims it: the five methods of
  the state machine are translated against the reader record (`hdlcRd..`), their buffer calls being calls of the
  translated buffer methods; `gen_readNext_pops` ties that translation to the one on `Core` (C01GenReader): the popped
  octet is its parameter `octet`, its flag `trimmed` is `trim_buffer_to_flag_or_end()` on the buffer after `pop`.
  The `while self._buffer.is_available:` loop is translated as a recursion on fuel; `gen_read_loop` holds for EVERY fuel
  larger than the number of unread octets and every out-of-fuel answer, so the fuel `read` grants
  (`len(_buffer) + len(data_chunk) + 1`) is never used up.
-/
namespace Amshan.C06
open Amshan.Hdlc Amshan.GenCode Amshan.GenLemmas

/-! ### `_ReaderBuffer` -/

/-- `is_available`: there is an unread octet -/
theorem gen_buf_isAvailable (b : PyBuf) : hdlcBufIsAvailable b = !(absBuf b).inp.isEmpty :=
  hdlcBufIsAvailable_eq b

/-- `pop()` with an octet available: it answers the first unread octet `x`, and the model's buffer after it is
    `⟨consumed + 1, rest⟩` (the `b1` of `Hdlc.loop`) -/
theorem gen_buf_pop (b : PyBuf) (x : Nat) (rest : List Nat) (h : (absBuf b).inp = x :: rest) :
    (hdlcBufPop b).2 = x ∧ absBuf (hdlcBufPop b).1 = { consumed := (absBuf b).consumed + 1, inp := rest } ∧
      BufInv (hdlcBufPop b).1 :=
  hdlcBufPop_eq b x rest h

/-- `extend(data_chunk)` -/
theorem gen_buf_extend (b : PyBuf) (chunk : List Nat) (hb : BufInv b) :
    absBuf (hdlcBufExtend b chunk) = (absBuf b).extend chunk ∧ BufInv (hdlcBufExtend b chunk) :=
  hdlcBufExtend_eq b chunk hb

/-- `trim_buffer_to_current_position()` -/
theorem gen_buf_trimToPos (b : PyBuf) :
    absBuf (hdlcBufTrimToPos b) = (absBuf b).trimToPos ∧ BufInv (hdlcBufTrimToPos b) :=
  hdlcBufTrimToPos_eq b

/-- `trim_buffer_to_flag_or_end()` (`bytearray.find`, the tests on its answer, the slice) -/
theorem gen_buf_trimToFlagOrEnd (b : PyBuf) :
    absBuf (hdlcBufTrimToFlagOrEnd b) = (absBuf b).trimToFlagOrEnd ∧ BufInv (hdlcBufTrimToFlagOrEnd b) :=
  hdlcBufTrimToFlagOrEnd_eq b

/-! ### `_read_next` with the real buffer -/

/-- `_read_next()` on the reader record is the translation on `Core` (`hdlcReadNext`, C01GenReader) for the octet that
    `pop()` answers, and where that translation records `trimmed` the buffer after `pop` is really trimmed -/
theorem gen_readNext_pops (cfg : Cfg) (r : PyReader) :
    hdlcRdReadNext cfg r =
      (mkReader (hdlcReadNext cfg (coreOf r) (hdlcBufPop r.buf).2).1
        (if (hdlcReadNext cfg (coreOf r) (hdlcBufPop r.buf).2).2.1 then hdlcBufTrimToFlagOrEnd (hdlcBufPop r.buf).1
          else (hdlcBufPop r.buf).1),
       (hdlcReadNext cfg (coreOf r) (hdlcBufPop r.buf).2).2.2) :=
  rd_readNext_core cfg r

/-! ### the loop and `read` -/

/-- the `while self._buffer.is_available:` loop and the final trim: the model's `loop`, for every fuel larger than the
    number of unread octets, whatever is answered when the fuel runs out (`oof`) -/
theorem gen_read_loop (cfg : Cfg) (r0 : PyReader) (chunk : List Nat) (oof : PyReader × List Frame)
    (fuel : Nat) (c : Core) (buf : PyBuf) (frames : List Frame)
    (hb : BufInv buf) (hfuel : (absBuf buf).inp.length < fuel) :
    absReader (hdlcRdRead.loop1 cfg r0 chunk oof fuel c.unescapeNext c.raw c.frame buf frames).1
        = { core := (loop cfg c (absBuf buf) frames).1, buf := (loop cfg c (absBuf buf) frames).2.1.trimToPos } ∧
      (hdlcRdRead.loop1 cfg r0 chunk oof fuel c.unescapeNext c.raw c.frame buf frames).2
        = (loop cfg c (absBuf buf) frames).2.2 :=
  ⟨(hdlcRdRead_loop_eq cfg r0 chunk oof fuel c buf frames hb hfuel).1,
   (hdlcRdRead_loop_eq cfg r0 chunk oof fuel c buf frames hb hfuel).2.1⟩

/-- `HdlcFrameReader.read(data_chunk)`: for every Python-level reader state that satisfies the invariant, the state
    afterwards (seen through the abstraction) and the frames returned are the model's -/
theorem gen_read (cfg : Cfg) (r : PyReader) (chunk : List Nat) (hr : ReaderInv r) :
    absReader (hdlcRdRead cfg r chunk).1 = (Hdlc.read cfg (absReader r) chunk).1 ∧
      (hdlcRdRead cfg r chunk).2 = (Hdlc.read cfg (absReader r) chunk).2 :=
  ⟨(hdlcRdRead_eq cfg r chunk hr).1, (hdlcRdRead_eq cfg r chunk hr).2.1⟩

/-- `read` preserves the invariant -/
theorem gen_read_preserves_inv (cfg : Cfg) (r : PyReader) (chunk : List Nat) (hr : ReaderInv r) :
    ReaderInv (hdlcRdRead cfg r chunk).1 :=
  (hdlcRdRead_eq cfg r chunk hr).2.2

/-- a sequence of `read()` calls on the translated code -/
def pyReadAll (cfg : Cfg) (r : PyReader) : List (List Nat) → PyReader × List (List Frame)
  | [] => (r, [])
  | ch :: chs => ((pyReadAll cfg (hdlcRdRead cfg r ch).1 chs).1, (hdlcRdRead cfg r ch).2 :: (pyReadAll cfg (hdlcRdRead cfg r ch).1 chs).2)

/-- ... is the model's `readAll`: the invariant holds initially (`_buffer = bytearray()`, `_buffer_pos = 0`) and is kept -/
theorem gen_readAll (cfg : Cfg) (r : PyReader) (chunks : List (List Nat)) (hr : ReaderInv r) :
    absReader (pyReadAll cfg r chunks).1 = (readAll cfg (absReader r) chunks).1 ∧
      (pyReadAll cfg r chunks).2 = (readAll cfg (absReader r) chunks).2 := by
  induction chunks generalizing r with
  | nil => exact ⟨rfl, rfl⟩
  | cons ch chs ih =>
    obtain ⟨h1, h2⟩ := gen_read cfg r ch hr
    obtain ⟨i1, i2⟩ := ih (hdlcRdRead cfg r ch).1 (gen_read_preserves_inv cfg r ch hr)
    simp only [pyReadAll, readAll]
    rw [← h1, ← h2]
    exact ⟨i1, by rw [i2]⟩

/-- the reader that `HdlcFrameReader.__init__` builds satisfies the invariant and is the model's initial reader -/
theorem gen_init_inv : ReaderInv { unescapeNext := false, raw := [], frame := none, buf := { buffer := [], pos := 0 } } ∧
    absReader { unescapeNext := false, raw := [], frame := none, buf := { buffer := [], pos := 0 } } = Reader.init :=
  ⟨Nat.le_refl 0, rfl⟩

end Amshan.C06
