import Amshan.Lemmas.DecOwnMore
import Amshan.Props.C12OwnBody
import Amshan.Props.C11
/-
  C12 (concrete part, continued) — the statements the audit found missing:

  (i)   a genuine Kaifa OBIS-tagged (Swedish) list as a FRAME on a fresh AutoDecoder is decoded by
        Kaifa_frame (`own_kaifa_obis_frame_fresh`, `…_wf`);
  (ii)  `own_kamstrup_frame_fresh` does NOT need `versionPad = 0` (`own_kamstrup_frame_fresh'`): with
        null-data padding after the version string and a length octet of exactly 2 Kaifa_frame gets
        as far as a two-element positional list and raises IndexError (AttributeError with a null APDU
        date-time) instead of a ConstructError - which AutoDecoder catches just the same.  `2 ≤ lenOctet`
        IS needed (machine-checked counterexamples below, also run through the real library);
  (iii) HISTORIES: if every message of a history would be given to decoder `k` by a fresh AutoDecoder,
        then ONE AutoDecoder given the whole history gives every message to decoder `k`, returns that
        decoder's results and remembers `k` (`history_own_generic`, by induction over
        `Auto.runHistory`); also with payloads nobody accepts anywhere in the history
        (`history_own_generic_junk`); instantiated for the seven decoders;
  (iv)  `decode_message` of a P1 READOUT (`own_p1_readout_fresh`, `own_p1_readout_any_history`,
        `message_p1_eq_content_plus_ident`).  A printable data block is rejected by all six binary
        decoders, so the P1 entry is chosen whatever the AutoDecoder has seen before.
-/
namespace Amshan.C12
open Amshan.Gen Amshan.Cosem Amshan.Dec Amshan.ListSpec Amshan.DecOwnBody Amshan.DecOwnMore

/-! ### (i) Kaifa OBIS-tagged list as a frame -/

/-- Aidon_frame raises on every Kaifa OBIS-tagged frame (structure tag where it wants the array tag) -/
theorem aidon_frame_rejects_kaifa_obis (hd : Header) (hh : hd.WF) (es : List (List Nat × KVal)) :
    Aidon.decodeFrame (encHeader hd ++ encKaifaObis es) = .construct := by
  have := DecOwn.aidon_frame_reject hd hh ([2 * es.length] ++ es.flatMap (fun p => encObis p.1 ++ encKVal p.2))
  simpa only [encKaifaObis, List.cons_append, List.nil_append, List.append_assoc] using this

/-- a Kaifa OBIS-tagged (Swedish) frame on a fresh AutoDecoder is decoded by Kaifa_frame -/
theorem own_kaifa_obis_frame_fresh (hd : Header) (hh : hd.WF) (es : List (List Nat × KVal))
    (d : Dict) (hdec : Kaifa.decodeFrame (encHeader hd ++ encKaifaObis es) = .dict d) :
    stepPayload none (encHeader hd ++ encKaifaObis es) = .ok (some 1, some d) :=
  DecOwn.fresh1 _ d (aidon_frame_rejects_kaifa_obis hd hh es) hdec

/-- with the dictionary of C08 (any APDU date-time form, the null one included) -/
theorem own_kaifa_obis_frame_fresh_wf (hF : C08.ScaledCorrect) (hd : Header) (hh : hd.WF)
    (es : List (List Nat × KVal)) (h : ∀ p ∈ es, Obis6 p.1 ∧ p.2.WF) (hs : C08.ScaledAreRegisters es)
    (hl : es.length ≤ 127) :
    stepPayload none (encHeader hd ++ encKaifaObis es) = .ok (some 1, some (kaifaObisExpected es)) :=
  own_kaifa_obis_frame_fresh hd hh es _ (C08.kaifa_obis_frame hF hd hh es h hs hl)

/-- the positional frame theorem with the dictionary of C08 -/
theorem own_kaifa_frame_fresh_wf (hF : C08.ScaledCorrect) (hd : Header) (hh : hd.WF) (hc : hd.clock ≠ .null)
    (vs : List KVal) (h : KaifaValuesWF vs) :
    stepPayload none (encHeader hd ++ encKaifaValues vs) =
      .ok (some 1, some (kaifaValuesExpected (some (match hd.clock with
        | .tagged d => expectedDT d | .untagged d => expectedDT d | .null => default)) vs)) := by
  refine own_kaifa_frame_fresh hd hh hc vs _ ?_
  have := C08.kaifa_values_frame hF hd hh hc vs h []
  rwa [List.append_nil] at this

/-- non-vacuity: the start of the real Swedish Kaifa list (1.0.0.2.129.255 list version "KFM_001",
    1.0.1.7.0.255 active power) in a frame with a null APDU date-time -/
example : stepPayload none (encHeader ⟨[0xE6, 0xE7, 0x00], 0x0F, [0x40, 0, 0, 0], .null⟩ ++
      encKaifaObis [([1, 0, 0, 2, 129, 255], .text [75, 70, 77, 95, 48, 48, 49]), ([1, 0, 1, 7, 0, 255], .u32 1234)]) =
    .ok (some 1, some [("meter_manufacturer", .str [75, 97, 105, 102, 97]),
      ("list_ver_id", .str [75, 70, 77, 95, 48, 48, 49]), ("active_power_import", .int 1234)]) :=
  own_kaifa_obis_frame_fresh _ ⟨rfl, rfl, trivial⟩ _ _ (by decide)

/-! ### (ii) Kamstrup frame: no hypothesis about the padding after the version string -/

/-- Kaifa_frame raises on every genuine Kamstrup frame with a length octet ≥ 2 whose first OBIS code
    has an octet ≥ 0x80, whatever the null-data padding after the version string -/
theorem kaifa_frame_rejects_kamstrup (hd : Header) (hh : hd.WF) (l : KamList) (h : l.WF)
    (hlen : 2 ≤ l.lenOctet) (hfirst : ∃ e rest, l.elems = e :: rest ∧ ∃ b ∈ e.obis, 128 ≤ b) :
    ∃ e, ofOut (Kaifa.decodeFrame (encHeader hd ++ encKamList l)) = .error e :=
  kaifa_frame_rej_kam hd hh l h hlen hfirst

/-- **`own_kamstrup_frame_fresh` without `versionPad = 0`.** -/
theorem own_kamstrup_frame_fresh' (hd : Header) (hh : hd.WF) (l : KamList) (h : l.WF)
    (hlen : 2 ≤ l.lenOctet) (hfirst : ∃ e rest, l.elems = e :: rest ∧ ∃ b ∈ e.obis, 128 ≤ b)
    (d : Dict) (hdec : Kamstrup.decodeFrame (encHeader hd ++ encKamList l) = .dict d) :
    stepPayload none (encHeader hd ++ encKamList l) = .ok (some 2, some d) := by
  refine fresh2' _ d ?_ (kaifa_frame_rej_kam hd hh l h hlen hfirst) hdec
  obtain ⟨rest, hr⟩ := encKamList_head l
  rw [hr]
  have := DecOwn.aidon_frame_reject hd hh rest
  rw [List.append_assoc] at this
  rw [show (2 :: rest) = [2] ++ rest from rfl, this]
  exact rej_construct

/-- with the dictionary of C09 -/
theorem own_kamstrup_frame_fresh_wf (hF : C09.ScaledCorrect) (hd : Header) (hh : hd.WF) (hc : hd.clock ≠ .null)
    (l : KamList) (h : l.WF) (hlen : 2 ≤ l.lenOctet)
    (hfirst : ∃ e rest, l.elems = e :: rest ∧ ∃ b ∈ e.obis, 128 ≤ b) :
    stepPayload none (encHeader hd ++ encKamList l) =
      .ok (some 2, some ((kamExpected l).set "meter_datetime" (.dt (match hd.clock with
        | .tagged d => expectedDT d | .untagged d => expectedDT d | .null => default)))) :=
  own_kamstrup_frame_fresh' hd hh l h hlen hfirst _ (C09.kamstrup_frame hF hd hh hc l h)

/-- the case the old hypothesis excluded: one null-data octet after the version string and length
    octet 2.  Kaifa_frame does not raise a ConstructError here but an IndexError (a two-element
    positional list is no documented Kaifa list); the frame is still decoded by Kamstrup_frame. -/
example :
    let hd : Header := ⟨[0xE6, 0xE7, 0x00], 0x0F, [0, 0, 0, 0], .untagged ⟨2021, 2, 22, 1, 16, 19, 0, some 0, none, 0⟩⟩
    let l : KamList := ⟨2, [75, 97, 109, 115, 116, 114, 117, 112, 95, 86, 48, 48, 48, 49], 1,
      [⟨[1, 1, 0, 0, 5, 255], .text [53, 55], 0⟩]⟩
    l.WF ∧ l.versionPad ≠ 0 ∧ Kaifa.decodeFrame (encHeader hd ++ encKamList l) = .exc .indexError ∧
    picked (stepPayload none (encHeader hd ++ encKamList l)) = some 2 := by
  refine ⟨⟨by decide, by decide, by decide, ?_⟩, by decide, by decide, ?_⟩
  · intro e he; simp only [List.mem_singleton] at he; subst he
    exact ⟨⟨rfl, by decide⟩, ⟨by decide, by decide⟩, by decide, by decide⟩
  · rw [fresh2' _ [("meter_manufacturer", .str [75, 97, 109, 115, 116, 114, 117, 112]),
        ("list_ver_id", .str [75, 97, 109, 115, 116, 114, 117, 112, 95, 86, 48, 48, 48, 49]),
        ("meter_id", .str [53, 55]), ("meter_datetime", .dt ⟨2021, 2, 22, 16, 19, 0, 0, none⟩)]
      (rej_of_construct (by decide)) (rej_of_exc (e := .indexError) (by decide)) (by decide)]
    rfl

/-- `2 ≤ lenOctet` is needed for frames too: with length octet 0 Kaifa_frame takes the list for an
    empty OBIS-tagged structure, with length octet 1 for Kaifa list 1 whose "active power" is the
    version string; either way Kaifa_frame (decoder 1) answers, not Kamstrup_frame -/
example :
    let hd : Header := ⟨[0xE6, 0xE7, 0x00], 0x0F, [0, 0, 0, 0], .untagged ⟨2021, 2, 22, 1, 16, 19, 0, some 0, none, 0⟩⟩
    let l (n : Nat) : KamList := ⟨n, [75, 97, 109, 115, 116, 114, 117, 112, 95, 86, 48, 48, 48, 49], 0,
      [⟨[1, 1, 0, 0, 5, 255], .text [53, 55], 0⟩]⟩
    (l 0).WF ∧ (l 1).WF ∧ isDict (Kamstrup.decodeFrame (encHeader hd ++ encKamList (l 0))) = true ∧
    picked (stepPayload none (encHeader hd ++ encKamList (l 0))) = some 1 ∧
    picked (stepPayload none (encHeader hd ++ encKamList (l 1))) = some 1 := by
  have hel : ∀ e ∈ [KamElem.mk [1, 1, 0, 0, 5, 255] (.text [53, 55]) 0], e.WF := by
    intro e he; simp only [List.mem_singleton] at he; subst he
    exact ⟨⟨rfl, by decide⟩, ⟨by decide, by decide⟩, by decide, by decide⟩
  refine ⟨⟨by decide, by decide, by decide, hel⟩, ⟨by decide, by decide, by decide, hel⟩, by decide, ?_, ?_⟩
  · rw [DecOwn.fresh1 _ [("meter_manufacturer", .str [75, 97, 105, 102, 97])] (by decide) (by decide)]
    rfl
  · rw [DecOwn.fresh1 _ [("meter_manufacturer", .str [75, 97, 105, 102, 97]),
        ("meter_datetime", .dt ⟨2021, 2, 22, 16, 19, 0, 0, none⟩),
        ("active_power_import", .str [75, 97, 109, 115, 116, 114, 117, 112, 95, 86, 48, 48, 48, 49])]
      (by decide) (by decide)]
    rfl

/-! ### (iii) histories -/

/-- **C12 (histories, generic).**  For ANY decoder table: if each message `enc q` of a non-empty
    history `ms`, given to a FRESH AutoDecoder, is decoded by decoder `k` with result `exp q`, then
    the whole history given to ONE AutoDecoder yields exactly those results, message by message, and
    decoder `k` is the remembered one at the end. -/
theorem history_own_generic {α β μ : Type} (decs : List (Auto.Decoder α β)) (caught : PyExc → Bool) (k : Nat)
    (enc : μ → α) (exp : μ → β) (ms : List μ) (hne : ms ≠ [])
    (hfresh : ∀ q ∈ ms, Auto.step decs caught none (enc q) = .ok (some k, some (exp q))) :
    Auto.runHistory decs caught none (ms.map enc) = .ok (some k, ms.map fun q => some (exp q)) :=
  runHistory_of_fresh decs caught k enc exp ms hne hfresh

/-- … and `k` is the remembered decoder after EVERY message of the history, not only at the end -/
theorem history_own_generic_prefix {α β μ : Type} (decs : List (Auto.Decoder α β)) (caught : PyExc → Bool)
    (k : Nat) (enc : μ → α) (exp : μ → β) (ms : List μ)
    (hfresh : ∀ q ∈ ms, Auto.step decs caught none (enc q) = .ok (some k, some (exp q)))
    (n : Nat) (hn : 0 < n) (hne : ms ≠ []) :
    Auto.runHistory decs caught none ((ms.take n).map enc) =
      .ok (some k, (ms.take n).map fun q => some (exp q)) := by
  refine runHistory_of_fresh decs caught k enc exp (ms.take n) ?_ (fun q hq => hfresh q (List.mem_of_mem_take hq))
  cases ms with
  | nil => exact absurd rfl hne
  | cons m ms =>
    obtain ⟨n', rfl⟩ : ∃ n', n = n' + 1 := ⟨n - 1, by omega⟩
    simp

/-- the one-step form with the remembered index PROVED rather than assumed: decoder `k` accepted the
    earlier messages `ms` (non-empty, first one on a fresh AutoDecoder), so the next message `p` that
    decoder `k` accepts is decoded by decoder `k` -/
theorem history_then_own {α β μ : Type} (decs : List (Auto.Decoder α β)) (caught : PyExc → Bool) (k : Nat)
    (enc : μ → α) (exp : μ → β) (ms : List μ) (hne : ms ≠ [])
    (hfresh : ∀ q ∈ ms, Auto.step decs caught none (enc q) = .ok (some k, some (exp q)))
    (d : Auto.Decoder α β) (hk : decs[k]? = some d) (p : α) (v : β) (hv : d p = .ok v) :
    Auto.runHistory decs caught none (ms.map enc ++ [p]) =
      .ok (some k, (ms.map fun q => some (exp q)) ++ [some v]) := by
  rw [Auto.runHistory_snoc, runHistory_of_fresh decs caught k enc exp ms hne hfresh]
  simp only [prefers_previous decs caught k d p v hk hv]

/-- **with junk.**  Messages nobody accepts (`exp q = none`) may stand anywhere in the history, also
    before the first genuine message: the results are those of fresh AutoDecoders, and the
    remembered decoder is `k` as soon as one genuine message has been seen (`hc`: the `except` clause
    catches everything, `all_caught`). -/
theorem history_own_generic_junk {α β μ : Type} (decs : List (Auto.Decoder α β)) (caught : PyExc → Bool)
    (hc : ∀ e, caught e = true) (k : Nat) (enc : μ → α) (exp : μ → Option β) (ms : List μ)
    (h : ∀ q ∈ ms, (∃ v, exp q = some v ∧ Auto.step decs caught none (enc q) = .ok (some k, some v)) ∨
        (exp q = none ∧ ∀ d' ∈ decs, accepts d' (enc q) = false)) :
    Auto.runHistory decs caught none (ms.map enc) =
      .ok (if ms.any (fun q => (exp q).isSome) then some k else none, ms.map exp) :=
  runHistory_of_fresh_junk decs caught hc k enc exp ms h

/-- `decode_message_payload` over a history, fresh AutoDecoder -/
def historyPayload (ps : List (List Nat)) : Except PyExc (Option Nat × List (Option Dict)) :=
  Auto.runHistory decoders caught none ps

/-- the concrete table: payloads that each select decoder `k` when fresh -/
theorem history_own (k : Nat) {μ : Type} (enc : μ → List Nat) (exp : μ → Dict) (ms : List μ) (hne : ms ≠ [])
    (hfresh : ∀ q ∈ ms, stepPayload none (enc q) = .ok (some k, some (exp q))) :
    historyPayload (ms.map enc) = .ok (some k, ms.map fun q => some (exp q)) :=
  runHistory_of_fresh decoders caught k enc exp ms hne hfresh

theorem history_own_junk (k : Nat) {μ : Type} (enc : μ → List Nat) (exp : μ → Option Dict) (ms : List μ)
    (h : ∀ q ∈ ms, (∃ v, exp q = some v ∧ stepPayload none (enc q) = .ok (some k, some v)) ∨
        (exp q = none ∧ ∀ d' ∈ decoders, accepts d' (enc q) = false)) :
    historyPayload (ms.map enc) = .ok (if ms.any (fun q => (exp q).isSome) then some k else none, ms.map exp) :=
  runHistory_of_fresh_junk decoders caught DecTotal.caught_all k enc exp ms h

/-! #### the seven decoders -/

/-- **0 Aidon_frame.** any history of genuine Aidon frames (any headers, any lists) -/
theorem history_aidon_frames (ms : List (Header × List AidonElem)) (hne : ms ≠ [])
    (h : ∀ q ∈ ms, q.1.WF ∧ (∀ e ∈ q.2, e.WF) ∧ q.2.length ≤ 255) :
    historyPayload (ms.map fun q => encHeader q.1 ++ encAidonBody q.2) =
      .ok (some 0, ms.map fun q => some (aidonExpected q.2)) :=
  history_own 0 _ _ ms hne fun q hq => own_aidon_frame_fresh q.1 (h q hq).1 q.2 (h q hq).2.1 (h q hq).2.2

/-- **1 Kaifa_frame.** any history of genuine Kaifa frames, positional (`.inl`) and OBIS-tagged
    (`.inr`) lists mixed -/
def encKaifaFrame : Header × (List KVal ⊕ List (List Nat × KVal)) → List Nat
  | (hd, .inl vs) => encHeader hd ++ encKaifaValues vs
  | (hd, .inr es) => encHeader hd ++ encKaifaObis es

def kaifaFrameExpected : Header × (List KVal ⊕ List (List Nat × KVal)) → Dict
  | (hd, .inl vs) => kaifaValuesExpected (some (match hd.clock with
        | .tagged d => expectedDT d | .untagged d => expectedDT d | .null => default)) vs
  | (_, .inr es) => kaifaObisExpected es

def KaifaFrameWF : Header × (List KVal ⊕ List (List Nat × KVal)) → Prop
  | (hd, .inl vs) => hd.WF ∧ hd.clock ≠ .null ∧ KaifaValuesWF vs
  | (hd, .inr es) => hd.WF ∧ (∀ p ∈ es, Obis6 p.1 ∧ p.2.WF) ∧ C08.ScaledAreRegisters es ∧ es.length ≤ 127

theorem history_kaifa_frames (hF : C08.ScaledCorrect) (ms : List (Header × (List KVal ⊕ List (List Nat × KVal))))
    (hne : ms ≠ []) (h : ∀ q ∈ ms, KaifaFrameWF q) :
    historyPayload (ms.map encKaifaFrame) = .ok (some 1, ms.map fun q => some (kaifaFrameExpected q)) := by
  refine history_own 1 _ _ ms hne fun q hq => ?_
  have hw := h q hq
  match q, hw with
  | (hd, .inl vs), hw => exact own_kaifa_frame_fresh_wf hF hd hw.1 hw.2.1 vs hw.2.2
  | (hd, .inr es), hw => exact own_kaifa_obis_frame_fresh_wf hF hd hw.1 es hw.2.1 hw.2.2.1 hw.2.2.2

/-- **2 Kamstrup_frame.** any history of genuine Kamstrup frames (any padding) -/
theorem history_kamstrup_frames (hF : C09.ScaledCorrect) (ms : List (Header × KamList)) (hne : ms ≠ [])
    (h : ∀ q ∈ ms, q.1.WF ∧ q.1.clock ≠ .null ∧ q.2.WF ∧ 2 ≤ q.2.lenOctet ∧
      ∃ e rest, q.2.elems = e :: rest ∧ ∃ b ∈ e.obis, 128 ≤ b) :
    historyPayload (ms.map fun q => encHeader q.1 ++ encKamList q.2) =
      .ok (some 2, ms.map fun q => some ((kamExpected q.2).set "meter_datetime" (.dt (match q.1.clock with
        | .tagged d => expectedDT d | .untagged d => expectedDT d | .null => default)))) :=
  history_own 2 _ _ ms hne fun q hq =>
    own_kamstrup_frame_fresh_wf hF q.1 (h q hq).1 (h q hq).2.1 q.2 (h q hq).2.2.1 (h q hq).2.2.2.1 (h q hq).2.2.2.2

/-- **3 P1.** any history of P1 data blocks of printable characters, CR and LF that the content
    decoder accepts -/
theorem history_p1_blocks (exp : List Nat → Dict) (bs : List (List Nat)) (hne : bs ≠ [])
    (h : ∀ b ∈ bs, (∀ c ∈ b, (32 ≤ c ∧ c ≤ 126) ∨ c = 13 ∨ c = 10) ∧ P1Parse.decodeContent b = .ok (exp b)) :
    historyPayload bs = .ok (some 3, bs.map fun b => some (exp b)) := by
  have := history_own 3 id exp bs hne fun b hb => own_p1_fresh b (h b hb).1 _ (h b hb).2
  rwa [List.map_id] at this

/-- **4 Aidon_notification_body.** -/
theorem history_aidon_bodies (ms : List (List AidonElem)) (hne : ms ≠ [])
    (h : ∀ es ∈ ms, (∀ e ∈ es, e.WF) ∧ es.length ≤ 255 ∧ noApduStart (encAidonBody es) = true) :
    historyPayload (ms.map encAidonBody) = .ok (some 4, ms.map fun es => some (aidonExpected es)) :=
  history_own 4 _ _ ms hne fun es hq => own_aidon_body_fresh es (h es hq).1 (h es hq).2.1 (h es hq).2.2

/-- **5 Kaifa_notification_body.** positional (`.inl`, unconditional for the documented lists) and
    OBIS-tagged (`.inr`) lists mixed -/
def encKaifaBody : List KVal ⊕ List (List Nat × KVal) → List Nat
  | .inl vs => encKaifaValues vs
  | .inr es => encKaifaObis es

def kaifaBodyExpected : List KVal ⊕ List (List Nat × KVal) → Dict
  | .inl vs => kaifaValuesExpected none vs
  | .inr es => kaifaObisExpected es

def KaifaBodyWF : List KVal ⊕ List (List Nat × KVal) → Prop
  | .inl vs => KaifaValuesWF vs
  | .inr es => (∀ p ∈ es, Obis6 p.1 ∧ p.2.WF) ∧ C08.ScaledAreRegisters es ∧ es.length ≤ 127 ∧
      noApduStart (encKaifaObis es) = true

theorem history_kaifa_bodies (hF : C08.ScaledCorrect) (ms : List (List KVal ⊕ List (List Nat × KVal)))
    (hne : ms ≠ []) (h : ∀ q ∈ ms, KaifaBodyWF q) :
    historyPayload (ms.map encKaifaBody) = .ok (some 5, ms.map fun q => some (kaifaBodyExpected q)) := by
  refine history_own 5 _ _ ms hne fun q hq => ?_
  have hw := h q hq
  match q, hw with
  | .inl vs, hw => exact own_kaifa_body_fresh_wf hF vs hw
  | .inr es, hw => exact own_kaifa_obis_body_fresh_wf hF es hw.1 hw.2.1 hw.2.2.1 hw.2.2.2

/-- **6 Kamstrup_notification_body.** -/
theorem history_kamstrup_bodies (hF : C09.ScaledCorrect) (ms : List KamList) (hne : ms ≠ [])
    (h : ∀ l ∈ ms, l.WF ∧ 2 ≤ l.lenOctet ∧ (∃ e rest, l.elems = e :: rest ∧ ∃ b ∈ e.obis, 128 ≤ b) ∧
      noApduStart (encKamList l) = true) :
    historyPayload (ms.map encKamList) = .ok (some 6, ms.map fun l => some (kamExpected l)) :=
  history_own 6 _ _ ms hne fun l hq =>
    own_kamstrup_body_fresh_wf hF l (h l hq).1 (h l hq).2.1 (h l hq).2.2.1 (h l hq).2.2.2

/-- non-vacuity (and the junk form at work): junk, a real-shaped Kaifa list-1 frame, junk, a Kaifa
    OBIS-tagged frame.  Results None, Kaifa, None, Kaifa; Kaifa_frame remembered. -/
example :
    let hd : Header := ⟨[0xE6, 0xE7, 0x00], 0x0F, [0x40, 0, 0, 0], .tagged ⟨2017, 9, 1, 5, 2, 10, 0, none, none, 0xFF⟩⟩
    historyPayload [[1, 2, 3, 4, 5], encHeader hd ++ encKaifaValues [.u32 0x0D5E], [1, 2, 3, 4, 5],
      encHeader hd ++ encKaifaObis [([1, 0, 1, 7, 0, 255], .u32 7)]] =
    .ok (some 1, [none,
      some [("meter_manufacturer", .str [75, 97, 105, 102, 97]),
        ("meter_datetime", .dt ⟨2017, 9, 1, 2, 10, 0, 0, none⟩), ("active_power_import", .int 0x0D5E)],
      none,
      some [("meter_manufacturer", .str [75, 97, 105, 102, 97]), ("active_power_import", .int 7)]]) := by
  intro hd
  have hj : ∀ d' ∈ decoders, accepts d' [1, 2, 3, 4, 5] = false := by
    rw [DecTotal.decoders_eq]
    intro d' hd'
    simp only [List.mem_cons, List.not_mem_nil, or_false] at hd'
    rcases hd' with rfl | rfl | rfl | rfl | rfl | rfl | rfl <;> decide
  have := history_own_junk 1 (μ := List Nat × Option Dict) (fun q => q.1) (fun q => q.2)
    [([1, 2, 3, 4, 5], none),
     (encHeader hd ++ encKaifaValues [.u32 0x0D5E], some [("meter_manufacturer", .str [75, 97, 105, 102, 97]),
        ("meter_datetime", .dt ⟨2017, 9, 1, 2, 10, 0, 0, none⟩), ("active_power_import", .int 0x0D5E)]),
     ([1, 2, 3, 4, 5], none),
     (encHeader hd ++ encKaifaObis [([1, 0, 1, 7, 0, 255], .u32 7)],
        some [("meter_manufacturer", .str [75, 97, 105, 102, 97]), ("active_power_import", .int 7)])] ?_
  · exact this
  · intro q hq
    simp only [List.mem_cons, List.not_mem_nil, or_false] at hq
    rcases hq with rfl | rfl | rfl | rfl
    · exact Or.inr ⟨rfl, hj⟩
    · exact Or.inl ⟨_, rfl, own_kaifa_frame_fresh hd ⟨rfl, rfl, by decide⟩ (by decide) _ _ (by decide)⟩
    · exact Or.inr ⟨rfl, hj⟩
    · exact Or.inl ⟨_, rfl, own_kaifa_obis_frame_fresh hd ⟨rfl, rfl, by decide⟩ _ _ (by decide)⟩

/-! ### (iv) `decode_message` of a P1 readout -/

/-- if exactly one decoder of a table accepts a payload, it is chosen whatever is remembered -/
theorem step_unique {α β : Type} (decs : List (Auto.Decoder α β)) (caught : PyExc → Bool)
    (hc : ∀ e, caught e = true) (prev : Option Nat) (p : α) (k : Nat) (d : Auto.Decoder α β) (v : β)
    (hk : decs[k]? = some d) (hv : d p = .ok v)
    (hrej : ∀ j d', j ≠ k → decs[j]? = some d' → accepts d' p = false) :
    Auto.step decs caught prev p = .ok (some k, some v) := by
  obtain ⟨⟨prev', r⟩, hr⟩ := step_total decs caught hc prev p
  cases r with
  | none =>
    have := (none_iff_all_reject decs caught hc prev p).1 ⟨prev', hr⟩ d (List.mem_of_getElem? hk)
    rw [accepts_eq, Auto.acc_of_ok hv] at this
    cases this
  | some v' =>
    obtain ⟨i, d', hi, hd', hv'⟩ := result_from_accepting decs caught prev p prev' v' hr
    by_cases hik : i = k
    · subst hik
      rw [hk] at hd'
      cases hd'
      rw [hv] at hv'
      cases hv'
      rw [hr, hi]
    · have := hrej i d' hik hd'
      rw [accepts_eq, Auto.acc_of_ok hv'] at this
      cases this

/-- printable characters, CR and LF -/
def P1Text (s : List Nat) : Prop := ∀ c ∈ s, (32 ≤ c ∧ c ≤ 126) ∨ c = 13 ∨ c = 10

instance (s : List Nat) : Decidable (P1Text s) := by unfold P1Text; infer_instance

theorem p1text_rejected_by_binary (s : List Nat) (h : P1Text s) :
    Rej (Aidon.decodeFrame s) ∧ Rej (Kaifa.decodeFrame s) ∧ Rej (Kamstrup.decodeFrame s) ∧
    Rej (Aidon.decodeBody s) ∧ Rej (Kaifa.decodeBody s) ∧ Rej (Kamstrup.decodeBody s) := by
  have ht : ∀ c ∈ s, c ≠ 0 ∧ c ≠ 9 ∧ c ≠ 12 := by
    intro c hc; have := h c hc; omega
  have h1 : ∀ c ∈ s, c ≠ 1 := by intro c hc; have := h c hc; omega
  have h2 : ∀ c ∈ s, c ≠ 2 := by intro c hc; have := h c hc; omega
  refine ⟨?_, ?_, ?_, aidon_body_text s h1, kaifa_body_text s h2, kamstrup_body_text s h2⟩
  · rw [DecOwn.aidon_frame_text s ht]; exact rej_construct
  · rw [DecOwn.kaifa_frame_text s ht]; exact rej_construct
  · rw [DecOwn.kamstrup_frame_text s ht]; exact rej_construct

/-- every entry but the fourth of a seven-entry table whose other entries are the six binary
    decoders rejects P1 text -/
theorem others_reject_p1text (p1dec : Auto.Decoder (List Nat) Dict) (s : List Nat) (h : P1Text s) :
    ∀ j d', j ≠ 3 →
      [fun p => ofOut (Aidon.decodeFrame p), fun p => ofOut (Kaifa.decodeFrame p),
       fun p => ofOut (Kamstrup.decodeFrame p), p1dec,
       fun p => ofOut (Aidon.decodeBody p), fun p => ofOut (Kaifa.decodeBody p),
       fun p => ofOut (Kamstrup.decodeBody p)][j]? = some d' → accepts d' s = false := by
  obtain ⟨⟨e0, h0⟩, ⟨e1, h1⟩, ⟨e2, h2⟩, ⟨e4, h4⟩, ⟨e5, h5⟩, ⟨e6, h6⟩⟩ := p1text_rejected_by_binary s h
  intro j d' hj hd'
  match j, hj with
  | 0, _ =>
    simp only [List.getElem?_cons_zero, Option.some.injEq] at hd'
    subst hd'; rw [accepts_eq]; exact Auto.acc_of_error h0
  | 1, _ =>
    simp only [List.getElem?_cons_succ, List.getElem?_cons_zero, Option.some.injEq] at hd'
    subst hd'; rw [accepts_eq]; exact Auto.acc_of_error h1
  | 2, _ =>
    simp only [List.getElem?_cons_succ, List.getElem?_cons_zero, Option.some.injEq] at hd'
    subst hd'; rw [accepts_eq]; exact Auto.acc_of_error h2
  | 3, hj => exact absurd rfl hj
  | 4, _ =>
    simp only [List.getElem?_cons_succ, List.getElem?_cons_zero, Option.some.injEq] at hd'
    subst hd'; rw [accepts_eq]; exact Auto.acc_of_error h4
  | 5, _ =>
    simp only [List.getElem?_cons_succ, List.getElem?_cons_zero, Option.some.injEq] at hd'
    subst hd'; rw [accepts_eq]; exact Auto.acc_of_error h5
  | 6, _ =>
    simp only [List.getElem?_cons_succ, List.getElem?_cons_zero, Option.some.injEq] at hd'
    subst hd'; rw [accepts_eq]; exact Auto.acc_of_error h6
  | j + 7, _ =>
    simp only [List.getElem?_cons_succ, List.getElem?_nil] at hd'
    cases hd'

/-- **C12 (P1 readout, fresh).** `decode_message` of a P1 readout whose data block consists of
    printable characters, CR and LF, on a fresh AutoDecoder: decoders 0–2 raise on the payload and
    entry 3 decodes the READOUT with its identification line (`decode_p1_readout`) -/
theorem own_p1_readout_fresh (r : P1.Readout) (hne : r.payload ≠ []) (hb : P1Text r.payload)
    (d : Dict) (hdec : P1Parse.decodeReadout r = .ok d) :
    stepMessage none (.p1 r) = .ok (some 3, some d) := by
  obtain ⟨h0, h1, h2, _⟩ := p1text_rejected_by_binary r.payload hb
  rw [stepMessage_p1 none r hne]
  exact step_fresh_k (decodersFor (.p1 r)) caught r.payload 3 _ d (by rw [decodersFor_p1]; rfl) hdec
    (decodersFor_p1_lt3 r r.payload h0 h1 h2)

/-- **C12 (P1, any history).** the same whatever the AutoDecoder has decoded before: nothing but the
    P1 entry accepts printable text.  For `decode_message` … -/
theorem own_p1_readout_any_history (prev : Option Nat) (r : P1.Readout) (hne : r.payload ≠ [])
    (hb : P1Text r.payload) (d : Dict) (hdec : P1Parse.decodeReadout r = .ok d) :
    stepMessage prev (.p1 r) = .ok (some 3, some d) := by
  rw [stepMessage_p1 prev r hne, decodersFor_p1]
  exact step_unique _ caught DecTotal.caught_all prev r.payload 3 _ d rfl hdec
    (others_reject_p1text _ r.payload hb)

/-- … and for `decode_message_payload` of a data block -/
theorem own_p1_any_history (prev : Option Nat) (block : List Nat) (hb : P1Text block)
    (d : Dict) (hdec : P1Parse.decodeContent block = .ok d) :
    stepPayload prev block = .ok (some 3, some d) := by
  unfold stepPayload
  rw [DecTotal.decoders_eq]
  exact step_unique _ caught DecTotal.caught_all prev block 3 _ d rfl hdec (others_reject_p1text _ block hb)

/-- a readout the readout decoder refuses (bad identification line, unparsable data line, …) is
    refused by `decode_message` altogether: None, memory unchanged -/
theorem p1_readout_none (prev : Option Nat) (r : P1.Readout) (hb : P1Text r.payload)
    (e : PyExc) (hdec : P1Parse.decodeReadout r = .error e) :
    stepMessage prev (.p1 r) = .ok (prev, none) := by
  by_cases hne : r.payload = []
  · exact message_empty_payload prev _ (Or.inr (by simp [Message.payload, hne]))
  · rw [stepMessage_p1 prev r hne, decodersFor_p1]
    refine step_junk _ caught DecTotal.caught_all prev r.payload ?_
    intro d' hd'
    obtain ⟨j, hj, hjd⟩ := List.getElem_of_mem hd'
    by_cases hj3 : j = 3
    · subst hj3
      simp only [List.getElem_cons_succ, List.getElem_cons_zero] at hjd
      subst hjd
      rw [accepts_eq]; exact Auto.acc_of_error hdec
    · exact others_reject_p1text _ r.payload hb j d' hj3 (by rw [List.getElem?_eq_getElem hj, hjd])

/-- **C12 / C11.** `decode_message` of a readout against `decode_message_payload` of its payload: when
    the content decoder accepts the payload (dictionary `d`) and the identification line parses
    (`m`), both choose the P1 entry; the payload form returns `d` and the message form returns `d`
    plus the two identification fields (C11 `readout_eq_content_plus_ident`) -/
theorem message_p1_eq_content_plus_ident (prev : Option Nat) (r : P1.Readout) (hb : P1Text r.payload)
    (d : Dict) (m : P1.IdentMatch) (hd : P1Parse.decodeContent r.payload = .ok d) (hm : r.identLine = .ok m) :
    stepPayload prev r.payload = .ok (some 3, some d) ∧
    stepMessage prev (.p1 r) = .ok (some 3, some (match m.ident with
      | some i => (d.set field_METER_MANUFACTURER_ID (.str m.manid)).set field_METER_TYPE_ID (.str i)
      | none => d.set field_METER_MANUFACTURER_ID (.str m.manid))) := by
  have hne : r.payload ≠ [] := by
    intro he
    have : P1Parse.decodeContent [] = .error .valueError := by decide
    rw [he, this] at hd
    cases hd
  exact ⟨own_p1_any_history prev r.payload hb d hd,
    own_p1_readout_any_history prev r hne hb _ (C11.readout_eq_content_plus_ident r d m hd hm)⟩

/-- `decode_message` over a history of messages, fresh AutoDecoder -/
def runMessages : Option Nat → List Message → Except PyExc (Option Nat × List (Option Dict))
  | prev, [] => .ok (prev, [])
  | prev, m :: ms =>
    match stepMessage prev m with
    | .error e => .error e
    | .ok (prev1, r) =>
      match runMessages prev1 ms with
      | .error e => .error e
      | .ok (prev2, rs) => .ok (prev2, r :: rs)

/-- **3 P1, `decode_message`.** any history of readouts with printable data blocks that the readout
    decoder accepts, after ANY earlier history (`prev`) -/
theorem history_p1_readouts (prev : Option Nat) (exp : P1.Readout → Dict) (rs : List P1.Readout) (hne : rs ≠ [])
    (h : ∀ r ∈ rs, r.payload ≠ [] ∧ P1Text r.payload ∧ P1Parse.decodeReadout r = .ok (exp r)) :
    runMessages prev (rs.map Message.p1) = .ok (some 3, rs.map fun r => some (exp r)) := by
  induction rs generalizing prev with
  | nil => exact absurd rfl hne
  | cons r rs ih =>
    have hr := h r List.mem_cons_self
    have hs := own_p1_readout_any_history prev r hr.1 hr.2.1 _ hr.2.2
    rw [List.map_cons, runMessages, hs]
    cases rs with
    | nil => rfl
    | cons r' rs' =>
      simp only
      rw [ih (some 3) (by simp) (fun q hq => h q (List.mem_cons_of_mem _ hq))]
      rfl

/-- non-vacuity: a three-line readout of an E360 ("/LGF5E360", clock, one energy register) through
    `decode_message`, fresh and after a Kamstrup body -/
example :
    let raw : List Nat := Py.ofString "/LGF5E360\r\n\r\n0-0:1.0.0(210222161900W)\r\n1-0:32.7.0(230.1*V)\r\n!\r\n"
    ∃ r, P1.Readout.make raw = .ok r ∧ r.payload ≠ [] ∧ P1Text r.payload ∧
      (∃ d, P1Parse.decodeReadout r = .ok d ∧ stepMessage (some 6) (.p1 r) = .ok (some 3, some d) ∧
        d.lookup "meter_manufacturer_id" = some (.str [76, 71, 70]) ∧
        d.lookup "meter_type_id" = some (.str [69, 51, 54, 48])) := by
  intro raw
  refine ⟨⟨raw, 60, 11⟩, by decide, by decide, by decide, ?_⟩
  cases hd : P1Parse.decodeReadout ⟨raw, 60, 11⟩ with
  | error e =>
    have : (match P1Parse.decodeReadout ⟨raw, 60, 11⟩ with | .ok _ => true | .error _ => false) = true := by decide
    rw [hd] at this
    cases this
  | ok d =>
    refine ⟨d, rfl, own_p1_readout_any_history _ _ (by decide) (by decide) d hd, ?_, ?_⟩
    · have : (match P1Parse.decodeReadout ⟨raw, 60, 11⟩ with
          | .ok d => d.lookup "meter_manufacturer_id" | .error _ => none) = some (.str [76, 71, 70]) := by decide
      rw [hd] at this; exact this
    · have : (match P1Parse.decodeReadout ⟨raw, 60, 11⟩ with
          | .ok d => d.lookup "meter_type_id" | .error _ => none) = some (.str [69, 51, 54, 48]) := by decide
      rw [hd] at this; exact this

end Amshan.C12
