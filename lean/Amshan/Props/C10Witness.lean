import Amshan.Props.C10
/-
  C10 — non-vacuity witnesses on REAL date-times of the test files:
  * Kaifa SE list clock          09 0C 07E5 09 16 03 11 23 1E FF FFC4 00   (deviation −60 min → UTC+01:00)
  * Kaifa list 1 APDU date-time  09 0C 07E3 02 04 01 17 34 16 FF 8000 00   (deviation not specified → naive)
  * Aidon SE list clock          09 0C 07E3 0C 10 01 07 3B 28 FF 8000 FF   (clock status FF)
  * Kamstrup APDU date-time         0C 07D0 01 01 06 16 21 00 FF 8000 01   (untagged, status 01)
  and boundary cases: 29 February 9996 23:59:59.99 deviation +720, 1 January year 1 deviation −720.
-/
namespace Amshan.C10.Witness
set_option linter.defProp false
open Amshan.Gen Amshan.Cosem Amshan.ListSpec

instance (h : Header) : Decidable h.WF := by unfold Header.WF; cases h.clock <;> infer_instance

def kaifaSE : DateTimeDesc := ⟨2021, 9, 22, 3, 17, 35, 30, none, some (-60), 0⟩
def kaifaL1 : DateTimeDesc := ⟨2019, 2, 4, 1, 23, 52, 22, none, none, 0⟩
def aidonSE : DateTimeDesc := ⟨2019, 12, 16, 1, 7, 59, 40, none, none, 0xFF⟩
def kamstrup : DateTimeDesc := ⟨2000, 1, 1, 6, 22, 33, 0, none, none, 1⟩
def leapMax : DateTimeDesc := ⟨9996, 2, 29, 0xFF, 23, 59, 59, some 99, some 720, 0x80⟩
def yearOne : DateTimeDesc := ⟨1, 1, 1, 7, 0, 0, 0, some 0, some (-720), 0⟩

/-- the Spec encoder reproduces the captured octets -/
example : encDateTime kaifaSE = [0x0C, 0x07, 0xE5, 0x09, 0x16, 0x03, 0x11, 0x23, 0x1E, 0xFF, 0xFF, 0xC4, 0x00] ∧
    encDateTime kaifaL1 = [0x0C, 0x07, 0xE3, 0x02, 0x04, 0x01, 0x17, 0x34, 0x16, 0xFF, 0x80, 0x00, 0x00] ∧
    encDateTime aidonSE = [0x0C, 0x07, 0xE3, 0x0C, 0x10, 0x01, 0x07, 0x3B, 0x28, 0xFF, 0x80, 0x00, 0xFF] ∧
    encDateTime kamstrup = [0x0C, 0x07, 0xD0, 0x01, 0x01, 0x06, 0x16, 0x21, 0x00, 0xFF, 0x80, 0x00, 0x01] := by
  decide

/-! ### `datetime_exact`, `datetime_in_field`, `datetime_in_dateTimeField` : hypothesis `d.Valid` -/

example : kaifaSE.Valid ∧ kaifaL1.Valid ∧ aidonSE.Valid ∧ kamstrup.Valid ∧ leapMax.Valid ∧ yearOne.Valid := by decide

/-- deviation −60 min decodes to UTC offset +60 min; whatever follows is left untouched -/
example : dateTime (encDateTime kaifaSE ++ [0x09, 0x06]) = .ok ⟨2021, 9, 22, 17, 35, 30, 0, some 60⟩ [0x09, 0x06] :=
  datetime_exact kaifaSE (by decide) _

example : dateTime (encDateTime aidonSE) = .ok ⟨2019, 12, 16, 7, 59, 40, 0, none⟩ [] := by
  have := datetime_exact aidonSE (by decide) []
  rwa [List.append_nil] at this

example : dateTime (encDateTime leapMax ++ [1]) = .ok ⟨9996, 2, 29, 23, 59, 59, 990000, some (-720)⟩ [1] ∧
    dateTime (encDateTime yearOne ++ [1]) = .ok ⟨1, 1, 1, 0, 0, 0, 0, some 720⟩ [1] :=
  ⟨datetime_exact leapMax (by decide) _, datetime_exact yearOne (by decide) _⟩

/-- as a generic field (Kaifa list element) and as a `DateTimeField` (Kamstrup element, tagged APDU clock) -/
example : field ([9] ++ encDateTime kaifaSE ++ [6, 0, 0x49, 0x0B, 0x23]) =
      .ok (.dt ⟨2021, 9, 22, 17, 35, 30, 0, some 60⟩) [6, 0, 0x49, 0x0B, 0x23] ∧
    dateTimeField ([9] ++ encDateTime kaifaL1 ++ [2, 1]) = .ok ⟨2019, 2, 4, 23, 52, 22, 0, none⟩ [2, 1] :=
  ⟨datetime_in_field kaifaSE (by decide) _, datetime_in_dateTimeField kaifaL1 (by decide) _⟩

/-! ### `apdu_clock` : hypothesis `hd.WF` — the three header forms of the test files -/

def hKaifa : Header := ⟨[0xE6, 0xE7, 0x00], 0x0F, [0x40, 0, 0, 0], .tagged kaifaL1⟩
def hKamstrup : Header := ⟨[0xE6, 0xE7, 0x00], 0x0F, [0, 0, 0, 0], .untagged kamstrup⟩
def hAidon : Header := ⟨[0xE6, 0xE7, 0x00], 0x0F, [0x40, 0, 0, 0], .null⟩

example : hKaifa.WF ∧ hKamstrup.WF ∧ hAidon.WF := by decide

/-- the body parser (here: "take two octets") gets exactly the octets after the header and the clock is the
    transmitted one -/
example : llc (takeN 2) (encHeader hKaifa ++ [2, 1, 6]) = .ok (.dt ⟨2019, 2, 4, 23, 52, 22, 0, none⟩, [2, 1]) [6] ∧
    llc (takeN 2) (encHeader hKamstrup ++ [2, 0x19, 10]) = .ok (.dt ⟨2000, 1, 1, 22, 33, 0, 0, none⟩, [2, 0x19]) [10] ∧
    llc (takeN 2) (encHeader hAidon ++ [1, 1, 2]) = .ok (.byte 0, [1, 1]) [2] := by
  refine ⟨?_, ?_, ?_⟩
  · rw [apdu_clock hKaifa (by decide)]; rfl
  · rw [apdu_clock hKamstrup (by decide)]; rfl
  · rw [apdu_clock hAidon (by decide)]; rfl

/-! ### the hypothesis excludes what the property excludes: deviation 721, 30 February, hour 24 -/
example : ¬ (DateTimeDesc.mk 2021 9 22 3 17 35 30 none (some 721) 0).Valid ∧
    ¬ (DateTimeDesc.mk 2021 2 30 3 17 35 30 none none 0).Valid ∧
    ¬ (DateTimeDesc.mk 2021 9 22 3 24 0 0 none none 0).Valid := by decide

end Amshan.C10.Witness
