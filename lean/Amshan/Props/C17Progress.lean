import Amshan.Lemmas.ConnMgrProgress
/-
  C17, progress — "keeps reconnecting after every failure and every loss until it is closed".
  Props/C17.lean renders this as safety (`exits_only_when_closing`, `no_deadlock`).  Here:

  * possibility (no assumption on the scheduler): from every reachable state that is not closing,
    a finite sequence of transitions without close() leads to the next connection attempt
    (`can_reach_next_attempt`, `can_always_reach_next_attempt`);
  * progress under fairness (`fair_run_reconnects`, `fair_run_attempts_unbounded`): on every infinite
    run in which close() is never called, a new attempt is eventually made from every point — unless a
    connection comes up first; and if every connection eventually dies, the attempts never stop.

  `attempts s` = number of `attempt` events in `s.log` (Lemmas/ConnMgrProgress.lean).
-/
namespace Amshan.C17
open Amshan.BackOff Amshan.ConnMgr

variable {md th sl : Nat}

/-- every transition appends to the log, so the attempt count never decreases and a strictly larger
    count means new `attempt` events -/
theorem attempts_monotone (s s' : S) (l : Label) (hs : next s l = some s') :
    attempts s ≤ attempts s' ∧ ∃ evs, s'.log = s.log ++ evs :=
  ⟨attempts_mono s s' l hs, by
    obtain ⟨_, _, _, _, ⟨evs, he, _⟩, _⟩ := next_frame s s' l hs
    exact ⟨evs, he⟩⟩

/-- **C17 (possibility of progress).**  From every reachable state in which close() has not been
    called, connect_loop has not returned and no connection is live, at most 5 transitions — steps of
    the manager's own two tasks, the factory raising, the clock advancing; no close(), no successful
    connect, no loss — lead to a state whose log has one more `attempt` event.  (Nothing is assumed
    about the scheduler or the environment: the path exists.) -/
theorem can_reach_next_attempt (s : S) (h : Reach md th sl s) (hc : s.closing = false)
    (hl : s.lpc ≠ .exited) (hlive : s.live = []) :
    ∃ ls s', runLabels s ls = some s' ∧ ls.length ≤ 5 ∧
      (∀ l ∈ ls, l = .lRun ∨ l = .tRun ∨ l = .factoryFail ∨ ∃ d, l = .tick d) ∧
      attempts s' = attempts s + 1 := by
  have hrk : rank s ≤ 4 := by
    unfold rank
    split <;> omega
  exact path_to_attempt 4 s h hc hl hlive hrk

/-- the same from EVERY reachable state that is not closing: if a connection is live, its loss comes
    first (at most 6 transitions, none of them close()) -/
theorem can_always_reach_next_attempt (s : S) (h : Reach md th sl s) (hc : s.closing = false)
    (hl : s.lpc ≠ .exited) :
    ∃ ls s', runLabels s ls = some s' ∧ ls.length ≤ 6 ∧ (∀ l ∈ ls, l ≠ .close) ∧
      attempts s' = attempts s + 1 := by
  have key : ∀ s1 : S, Reach md th sl s1 → s1.closing = false → s1.lpc ≠ .exited → s1.live = [] →
      ∃ ls s', runLabels s1 ls = some s' ∧ ls.length ≤ 5 ∧ (∀ l ∈ ls, l ≠ .close) ∧
        attempts s' = attempts s1 + 1 := by
    intro s1 h1 hc1 hl1 hlive1
    obtain ⟨ls, s', hrun, hlen, hlabs, hatt⟩ := can_reach_next_attempt s1 h1 hc1 hl1 hlive1
    refine ⟨ls, s', hrun, hlen, ?_, hatt⟩
    intro l hl' hcl
    subst hcl
    rcases hlabs _ hl' with h | h | h | ⟨d, h⟩ <;> cases h
  by_cases hlive : s.live = []
  · obtain ⟨ls, s', hrun, hlen, hlabs, hatt⟩ := key s h hc hl hlive
    exact ⟨ls, s', hrun, by omega, hlabs, hatt⟩
  · have hi := reach_inv h
    obtain ⟨c, hlv, hconn⟩ : ∃ c, s.live = [c] ∧ s.conn = some c := by
      rcases hi.live1 with h0 | h1
      · exact absurd h0 hlive
      · exact h1
    have hen : ∃ s1, next s .lose = some s1 := by
      simp [next, hconn, hlv]
    obtain ⟨s1, h1⟩ := hen
    have hr1 := Reach.step s s1 .lose h h1
    have hc1 := closing_stays_clear s s1 .lose h1 (by simp) hc
    have hl1 : s1.lpc ≠ .exited := fun he => by
      have := exits_only_when_closing s s1 .lose h h1 hl he
      rw [hc] at this; cases this
    obtain ⟨ls, s', hrun, hlen, hlabs, hatt⟩ := key s1 hr1 hc1 hl1 (lose_empties_live s s1 h h1).1
    have ha1 : attempts s1 = attempts s := by
      obtain ⟨now, closing, conn, lpc, t, cancelReq, backoff, breaker, nextId, live, doneSet, waiters, log⟩ := s
      simp only at hconn
      subst hconn
      simp [next, S.emit] at h1
      obtain ⟨_, h1⟩ := h1; subst h1
      simp [attempts, List.countP_append]
    refine ⟨.lose :: ls, s', by simp [runLabels, h1, hrun], by simp; omega, ?_, by omega⟩
    intro l hl'
    rcases List.mem_cons.1 hl' with h' | h'
    · subst h'; simp
    · exact hlabs l h'

/-- **C17 (progress under fairness).**  Let `st 0, st 1, …` be an infinite run (`lab i` the transition
    taken at `i`) from a reachable state in which close() has not been called, such that

    * `noClose`     — close() is never called;
    * `loopRuns`    — the scheduler is fair to connect_loop: whenever a step of it is enabled, a step of
                      it is taken at that point or later;
    * `taskRuns`    — likewise for the connect task;
    * `clock`       — timers fire: the clock passes every value;
    * `factoryEnds` — the connection factory terminates: whenever the connect task is inside the
                      factory, the factory returns or raises at that point or later.

    Then from every point `i` of the run there is a later point with one more `attempt` in the log —
    unless a connection is live at some later point (the manager has nothing to reconnect while a
    connection is up).  No bound on the factory's duration, on scheduling latency or on tick sizes is
    assumed. -/
theorem fair_run_reconnects (st : Nat → S) (lab : Nat → Label)
    (hstep : ∀ i, next (st i) (lab i) = some (st (i + 1)))
    (h0 : Reach md th sl (st 0)) (hc0 : (st 0).closing = false) (hl0 : (st 0).lpc ≠ .exited)
    (noClose : ∀ i, lab i ≠ .close)
    (loopRuns : ∀ i, (next (st i) .lRun).isSome → ∃ j, i ≤ j ∧ lab j = .lRun)
    (taskRuns : ∀ i, (next (st i) .tRun).isSome → ∃ j, i ≤ j ∧ lab j = .tRun)
    (clock : ∀ i T, ∃ j, i ≤ j ∧ T ≤ (st j).now)
    (factoryEnds : ∀ i, (st i).t = .inFactory → ∃ j, i ≤ j ∧ (lab j = .factoryOk ∨ lab j = .factoryFail))
    (i : Nat) :
    ∃ j, i ≤ j ∧ (attempts (st j) = attempts (st i) + 1 ∨ (st j).live ≠ []) :=
  FairRun.progress ⟨st, lab, hstep, h0, hc0, hl0, noClose, loopRuns, taskRuns, clock, factoryEnds⟩ i

/-- on such a run the manager never returns from connect_loop -/
theorem fair_run_never_exits (st : Nat → S) (lab : Nat → Label)
    (hstep : ∀ i, next (st i) (lab i) = some (st (i + 1)))
    (h0 : Reach md th sl (st 0)) (hc0 : (st 0).closing = false) (hl0 : (st 0).lpc ≠ .exited)
    (noClose : ∀ i, lab i ≠ .close) (i : Nat) :
    Reach md th sl (st i) ∧ (st i).closing = false ∧ (st i).lpc ≠ .exited := by
  induction i with
  | zero => exact ⟨h0, hc0, hl0⟩
  | succ i ih =>
    obtain ⟨h1, h2, h3⟩ := ih
    refine ⟨Reach.step _ _ _ h1 (hstep i), closing_stays_clear _ _ _ (hstep i) (noClose i) h2, ?_⟩
    intro he
    have := exits_only_when_closing _ _ _ h1 (hstep i) h3 he
    rw [h2] at this; cases this

/-- **C17 (progress under fairness, every connection dies).**  If in addition every live connection is
    eventually lost (`connDies`), the run contains infinitely many connection attempts: the attempt
    count exceeds every bound. -/
theorem fair_run_attempts_unbounded (st : Nat → S) (lab : Nat → Label)
    (hstep : ∀ i, next (st i) (lab i) = some (st (i + 1)))
    (h0 : Reach md th sl (st 0)) (hc0 : (st 0).closing = false) (hl0 : (st 0).lpc ≠ .exited)
    (noClose : ∀ i, lab i ≠ .close)
    (loopRuns : ∀ i, (next (st i) .lRun).isSome → ∃ j, i ≤ j ∧ lab j = .lRun)
    (taskRuns : ∀ i, (next (st i) .tRun).isSome → ∃ j, i ≤ j ∧ lab j = .tRun)
    (clock : ∀ i T, ∃ j, i ≤ j ∧ T ≤ (st j).now)
    (factoryEnds : ∀ i, (st i).t = .inFactory → ∃ j, i ≤ j ∧ (lab j = .factoryOk ∨ lab j = .factoryFail))
    (connDies : ∀ i, (st i).live ≠ [] → ∃ j, i ≤ j ∧ lab j = .lose)
    (N : Nat) : ∃ j, N ≤ attempts (st j) :=
  FairRun.unbounded_attempts ⟨st, lab, hstep, h0, hc0, hl0, noClose, loopRuns, taskRuns, clock, factoryEnds⟩
    connDies N

/-! ### non-vacuity -/

/-- the possibility theorem applies to the initial state -/
example : ∃ ls s', runLabels (S.init 60 5 5) ls = some s' ∧ ls.length ≤ 5 ∧ attempts s' = 1 := by
  obtain ⟨ls, s', h1, h2, _, h3⟩ := can_reach_next_attempt (md := 60) (th := 5) (sl := 5) (S.init 60 5 5)
    Reach.init rfl (by simp [S.init]) rfl
  exact ⟨ls, s', h1, h2, h3⟩

/-- the fairness assumptions are jointly satisfiable, on a run with infinitely many attempts
    (`cycSt`, `cycLab` in Lemmas/ConnMgrProgress.lean): max_delay 0 (no back-off), the factory always
    raises; from the state after connect_loop's first step the cycle
    `tRun (attempt), factoryFail, lRun, tick 1` repeats for ever. -/
example : ∀ N, ∃ j, N ≤ attempts (cycSt j) := by
  have hstep : ∀ i, next (cycSt i) (cycLab i) = some (cycSt (i + 1)) := by
    intro i
    obtain ⟨s', h1, _⟩ := cyc_step i _ (cyc_inv i)
    simp only [cycSt, h1, Option.getD_some]
  have hlive : ∀ i, (cycSt i).live = [] := fun i => (cyc_inv i).2.2.2.1
  refine fair_run_attempts_unbounded (md := 0) (th := 5) (sl := 5) cycSt cycLab hstep
    (Reach.step _ _ .lRun Reach.init rfl) rfl (by simp [cycSt, topLogic, S.init]) ?_ ?_ ?_ ?_ ?_ ?_
  · intro i; unfold cycLab; split <;> simp
  · intro i _; exact ⟨4 * (i / 4 + 1) + 2, by omega, by
      have : (4 * (i / 4 + 1) + 2) % 4 = 2 := by omega
      simp [cycLab, this]⟩
  · intro i _; exact ⟨4 * (i / 4 + 1), by omega, by
      have : (4 * (i / 4 + 1)) % 4 = 0 := by omega
      simp [cycLab, this]⟩
  · intro i T; exact ⟨4 * (i + T), by omega, by
      have := (cyc_inv (4 * (i + T))).2.2.2.2.2.2.2.1
      omega⟩
  · intro i _; exact ⟨4 * (i / 4 + 1) + 1, by omega, by
      have : (4 * (i / 4 + 1) + 1) % 4 = 1 := by omega
      simp [cycLab, this]⟩
  · intro i h; exact absurd (hlive i) h

end Amshan.C17
