import Amshan.Lemmas.HdlcClean
/-
  C02 — every well-formed frame on a clean stream is delivered once, in order, valid and with its
  exact payload and header fields, however the stream is split into read() calls.
-/
namespace Amshan.C02
open Amshan.Gen Amshan.Hdlc Amshan.HdlcSpec Amshan.HdlcClean

/-- what the delivered frame object shows through the accessors -/
theorem expected_observation (d : FrameDesc) (h : d.WF) :
    (expectedFrame d).isValid = true ∧
    (expectedFrame d).data = d.encode ∧
    (expectedFrame d).payload = (if d.info.isEmpty then none else some d.info) ∧
    (expectedFrame d).dest = some d.dst ∧ (expectedFrame d).src = some d.src ∧
    (expectedFrame d).control = some d.ctl ∧
    (expectedFrame d).frameLength = some d.totalLen ∧
    (expectedFrame d).formatType = some d.fmt ∧
    (expectedFrame d).segmentation = some d.seg := by
  have hlen := encode_length d
  have hff : (mk d.encode).frameFormat = some d.format :=
    frameFormat_prefix d d.encode [] (by simp) (by rw [hlen]; have := totalLen_ge d; omega)
  have hdata : (expectedFrame d).data = d.encode := rfl
  have hctl : (expectedFrame d).ctlPos = some (d.headLen - 1) := rfl
  have hflen : (expectedFrame d).len = d.totalLen := by unfold Frame.len; rw [hdata, hlen]
  obtain ⟨t, ht⟩ := encode_split d
  have hshape : d.encode = [d.format / 256, d.format % 256] ++ d.dst ++ d.src ++ ([d.ctl] ++ (fcsLE d.head ++ t)) := by
    rw [ht]; unfold FrameDesc.head; simp
  refine ⟨?_, rfl, ?_, ?_, ?_, ?_, ?_, ?_, ?_⟩
  · -- is_valid
    unfold Frame.isValid
    rw [Bool.and_eq_true]
    constructor
    · simp [Frame.isGoodFfc, expectedFrame, Fcs.isGood]
    · rw [expectedFrame_eq d h, isExpectedLength_prefix d h d.encode [] (by simp)
        (by rw [hlen]; have := totalLen_ge d; omega)]
      simp [hlen]
  · -- payload
    unfold Frame.payload Frame.infoPos
    rw [hctl, hflen]
    simp only [Option.map_some]
    have hhl := headLen_ge d
    cases hi : d.info.isEmpty with
    | true =>
      have : ¬ (d.totalLen > d.headLen - 1 + 3) := by
        unfold FrameDesc.totalLen; rw [hi]; simp; omega
      rw [if_neg this]; rfl
    | false =>
      have : d.totalLen > d.headLen - 1 + 3 := by
        unfold FrameDesc.totalLen; rw [hi]; simp; omega
      rw [if_pos this]
      simp only [Bool.false_eq_true, if_false, Option.some.injEq]
      have he : d.encode = (d.head ++ fcsLE d.head) ++ d.info ++ fcsLE (d.head ++ fcsLE d.head ++ d.info) := by
        unfold FrameDesc.encode; rw [hi]; simp
      unfold sliceNegEnd
      rw [hdata, he]
      have h1 : ((d.head ++ fcsLE d.head) ++ d.info ++ fcsLE (d.head ++ fcsLE d.head ++ d.info)).length - 2
          = ((d.head ++ fcsLE d.head) ++ d.info).length := by
        simp [fcsLE_length]; omega
      rw [h1, List.take_left']
      have h2 : d.headLen - 1 + 3 = (d.head ++ fcsLE d.head).length := by
        simp [head_length, fcsLE_length]; omega
      rw [h2, List.drop_left']
      · rfl
      · rfl
  · -- destination
    unfold Frame.dest
    rw [hdata, hshape, List.append_assoc]
    exact destAddr_of_shape _ _ d.dst _ h.2.1
  · -- source
    unfold Frame.src
    rw [hdata, hshape]
    exact srcAddr_of_shape _ _ d.dst d.src _ h.2.1 h.2.2.1
  · -- control
    unfold Frame.control
    rw [hctl, hflen]
    simp only
    have hhl := headLen_ge d
    have := totalLen_ge d
    rw [if_pos (by omega), hdata, hshape]
    have hl : d.headLen - 1 = ([d.format / 256, d.format % 256] ++ d.dst ++ d.src).length := by
      simp [FrameDesc.headLen]; omega
    rw [hl, List.getElem?_append_right (Nat.le_refl _), Nat.sub_self]
    rfl
  · rw [expectedFrame_eq d h]
    exact frameLength_prefix d h d.encode [] (by simp) (by rw [hlen]; have := totalLen_ge d; omega)
  · rw [expectedFrame_eq d h]
    unfold Frame.formatType
    rw [hff, Option.map_some, format_type d h]
  · rw [expectedFrame_eq d h]
    unfold Frame.segmentation
    rw [hff, Option.map_some, format_seg d h]

/-- **C02.** -/
theorem clean_stream_delivered (cfg : Cfg) (noise : List Nat) (fs : List (FrameDesc × Nat))
    (closing : Nat) (chunks : List (List Nat))
    (hnoise : Octets noise ∧ flag ∉ noise)
    (hfs : ∀ p ∈ fs, p.1.WF ∧ 1 ≤ p.2 ∧ InDomain cfg.stuffing cfg.abort p.1)
    (hcl : 1 ≤ closing)
    (hch : chunks.flatten = wire cfg.stuffing noise fs closing) :
    (readAll cfg Reader.init chunks).2.flatten = fs.map (fun p => expectedFrame p.1) := by
  rw [readAll_init, hch]
  exact clean_run cfg noise fs closing hnoise hfs hcl

end Amshan.C02
