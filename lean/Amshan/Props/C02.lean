import Amshan.Lemmas.HdlcClean
/-
  C02 — every well-formed frame on a clean stream is delivered once, in order, valid and with its
  exact payload and header fields, however the stream is split into read() calls.
-/
namespace Amshan.C02
open Amshan.Gen Amshan.Hdlc Amshan.HdlcSpec

/-- what the delivered frame object shows through the accessors -/
theorem expected_observation (d : FrameDesc) (h : d.WF) :
    (expectedFrame d).isValid = true ∧
    (expectedFrame d).data = d.encode ∧
    (expectedFrame d).payload = (if d.info.isEmpty then none else some d.info) ∧
    (expectedFrame d).dest = some d.dst ∧ (expectedFrame d).src = some d.src ∧
    (expectedFrame d).control = some d.ctl ∧
    (expectedFrame d).frameLength = some d.totalLen ∧
    (expectedFrame d).formatType = some d.fmt ∧
    (expectedFrame d).segmentation = some d.seg := by
  sorry

/-- **C02.** -/
theorem clean_stream_delivered (cfg : Cfg) (noise : List Nat) (fs : List (FrameDesc × Nat))
    (closing : Nat) (chunks : List (List Nat))
    (hnoise : Octets noise ∧ flag ∉ noise)
    (hfs : ∀ p ∈ fs, p.1.WF ∧ 1 ≤ p.2 ∧ InDomain cfg.stuffing cfg.abort p.1)
    (hcl : 1 ≤ closing)
    (hch : chunks.flatten = wire cfg.stuffing noise fs closing) :
    (readAll cfg Reader.init chunks).2.flatten = fs.map (fun p => expectedFrame p.1) := by
  sorry

end Amshan.C02
