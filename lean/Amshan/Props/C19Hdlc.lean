import Amshan.Lemmas.HdlcBound
/-
  C19 (HDLC part) — the memory retained by the reader after a read() call is bounded by a constant,
  independently of how many bytes have been fed before, for every stream.
  `Reader.size` = octets in the input buffer (including consumed ones not yet trimmed)
                + octets of the raw-frame history + octets of the frame under construction.
-/
namespace Amshan.C19
open Amshan.Gen Amshan.Hdlc

/-- **C19 (HDLC).** After any history of `read()` calls and one more call with any chunk, the reader
    holds at most three maximum-size frames plus one octet — the chunk itself is not retained. -/
theorem hdlc_bounded (cfg : Cfg) (r : Reader) (hr : Reachable cfg r) (chunk : List Nat) :
    (read cfg r chunk).1.size ≤ 3 * maxFrameLen + 1 := by
  have hb : (read cfg r chunk).1.buf = Buf.empty := read_buf_empty cfg r chunk hr.buf_empty
  have hc : Bnd (read cfg r chunk).1.core := by
    rw [read_core cfg r chunk hr.buf_empty]
    exact Bnd_run cfg r.core chunk hr.bnd
  rw [Reader.size_of_buf_empty _ hb]
  exact Bnd_size hc

theorem hdlc_reachable_bounded (cfg : Cfg) (r : Reader) (hr : Reachable cfg r) :
    r.size ≤ 3 * maxFrameLen + 1 := by
  rw [Reader.size_of_buf_empty r hr.buf_empty]
  exact Bnd_size hr.bnd

/-- the frame under construction never exceeds the maximum frame length between octets -/
theorem hdlc_frame_bounded (cfg : Cfg) (inp : List Nat) :
    match (run cfg Core.init inp).1.frame with
    | some f => f.len ≤ maxFrameLen
    | none => True := by
  have h : Bnd (run cfg Core.init inp).1 := Bnd_run cfg Core.init inp Bnd_init
  cases hf : (run cfg Core.init inp).1.frame with
  | none => trivial
  | some f => exact (Bnd_some hf h).1

/-- non-vacuity: the bound is attained within a factor of two by an endless escaped frame -/
example : maxFrameLen = 2047 := by decide

end Amshan.C19
