import Amshan.Lemmas.P1ParseRT
import Amshan.Lemmas.FloatStrBound
/-
  C11, end to end — from the decimal TEXT a meter transmits to the decoded value.

  `C11.decode_plain_unit` / `decode_kilo_unit` take `Flt.ofStr value = .ok f` as a hypothesis and
  `C11.kilo_unit_bound` is about `Flt.ofRat false m (10^k)`.  Here the link is closed:
  * `ofStr_decimal`            `float(text)` of a decimal text (optional sign, digits, optional '.' digits, leading
                               zeros allowed) IS `ofRat (all digits as one integer) (10 ^ number of fraction digits)`;
  * `decode_kilo_decimal`      kW / kWh / kvar / kvarh, any letter case: the decoded integer is ⌊value × 1000⌋ or one
                               less, never more;
  * `decode_plain_decimal`     V / A / var / varh: the decoded float is the double nearest to the transmitted decimal
                               (`decode_plain_decimal_error`: within a relative 2^-53 of it).
  In all statements `ip` are the digits before the point, `fp` the digits after it, the transmitted value is
  m / 10^k with m = `digitsVal (ip ++ fp)` (= `digitsVal ip` · 10^k + `digitsVal fp`, see `decimal_value`)
  and k = `fp.length`.
-/
namespace Amshan.C11
open Amshan.Gen Amshan.Cosem Amshan.P1Parse Amshan.Flt

/-- **`float(text)` of a plain decimal text** (model of CPython's `float(str)`, Model/Float.lean): optional sign,
    digits `ip`, '.', digits `fp` (not both empty; leading zeros allowed; any number of digits) parses to the double nearest to (`ip fp` read as one integer) / 10^|fp|. -/
theorem ofStr_decimal (sign : Option Bool) (ip fp : List Nat)
    (hip : ∀ c ∈ ip, Py.isDigit c = true) (hfp : ∀ c ∈ fp, Py.isDigit c = true)
    (hne : ip ≠ [] ∨ fp ≠ []) :
    Flt.ofStr (signChars sign ++ (ip ++ 46 :: fp)) =
      .ok (ofRat (sign == some true) (digitsVal (ip ++ fp)) (10 ^ fp.length)) :=
  Flt.ofStr_decimal sign ip fp hip hfp hne

/-- the same without a decimal point: `float(sign ip)` is the double nearest to the integer `ip` -/
theorem ofStr_decimal_nodot (sign : Option Bool) (ip : List Nat)
    (hip : ∀ c ∈ ip, Py.isDigit c = true) (hne : ip ≠ []) :
    Flt.ofStr (signChars sign ++ ip) = .ok (ofRat (sign == some true) (digitsVal ip) 1) :=
  Flt.ofStr_decimal_nodot sign ip hip hne

/-- what `digitsVal` is: positional decimal value; leading zeros do not count; n digits are below 10^n -/
theorem decimal_value (ip fp : List Nat) (n : Nat) (d : Nat) :
    digitsVal (ip ++ fp) = digitsVal ip * 10 ^ fp.length + digitsVal fp ∧
    digitsVal (ip ++ [d]) = digitsVal ip * 10 + (d - 48) ∧
    digitsVal (List.replicate n 48 ++ ip) = digitsVal ip ∧
    ((∀ c ∈ ip, Py.isDigit c = true) → digitsVal ip < 10 ^ ip.length) :=
  ⟨digitsVal_append ip fp, digitsVal_snoc ip d, digitsVal_zeros n ip, digitsVal_lt ip⟩

/-- a unit accepted by either group is not the empty text -/
theorem unit_ne_nil (unit : List Nat)
    (h : unitsKilo.contains (Py.lower unit) = true ∨ unitsPlain.contains (Py.lower unit) = true) : unit ≠ [] := by
  rintro rfl
  rcases h with h | h
  · rw [P1ParseRT.unitsKilo_eq] at h; exact absurd h (by decide)
  · rw [P1ParseRT.unitsPlain_eq] at h; exact absurd h (by decide)

/-- **C11 (kW, kWh, kvar, kvarh — end to end).** For every address that parses as an OBIS code, every unit
    spelling that lower-cases to a kilo unit, and every decimal text `ip "." fp` (or just `ip`) of value
    m / 10^k — k ≤ 60 fraction digits, and `m · 10^(3-k) < 2^50` (natural subtraction: for k ≤ 3 the exact
    product value × 1000 is below 2^50; for k ≥ 3 all the digits read as one integer are) — the item decodes
    under the address's field name to an integer z with

        z = ⌊m · 1000 / 10^k⌋   or   z = ⌊m · 1000 / 10^k⌋ − 1 ,

    i.e. within one unit below the exact decimal product and never above it. -/
theorem decode_kilo_decimal (addr unit text ip fp : List Nat) (g : Obis.Groups)
    (hg : Obis.parse addr = .ok g)
    (hu : unitsKilo.contains (Py.lower unit) = true)
    (hip : ∀ c ∈ ip, Py.isDigit c = true) (hfp : ∀ c ∈ fp, Py.isDigit c = true)
    (hne : ip ≠ [] ∨ fp ≠ [])
    (ht : text = ip ++ 46 :: fp ∨ (text = ip ∧ fp = []))
    (hk : fp.length ≤ 60)
    (hE : digitsVal (ip ++ fp) * 10 ^ (3 - fp.length) < 2 ^ 50) :
    ∃ z : Int,
      decodeItem ⟨addr, [⟨text, some unit⟩]⟩ =
        .ok ((match obisNameMap.lookup (Py.toString (Obis.cdeStr g)) with
              | some n => n | none => Py.toString (Obis.cdeStr g)), .int z) ∧
      (z = ((digitsVal (ip ++ fp) * 1000 / 10 ^ fp.length : Nat) : Int) ∨
       z = ((digitsVal (ip ++ fp) * 1000 / 10 ^ fp.length : Nat) : Int) - 1) := by
  have hf := ofStr_decimal_text text ip fp hip hfp ht hne
  have hne' := unit_ne_nil unit (Or.inl hu)
  rcases kilo_unit_bound_any (digitsVal (ip ++ fp)) fp.length hk hE with hz | hz
  · exact ⟨_, P1ParseRT.decodeItem_kilo addr text unit g _ _ hg hu hne' hf hz, Or.inl rfl⟩
  · exact ⟨_, P1ParseRT.decodeItem_kilo addr text unit g _ _ hg hu hne' hf hz, Or.inr rfl⟩

/-- the side condition of `decode_kilo_decimal` from the SHAPE of the text alone: any number of leading zeros,
    then integer digits `ip` and fraction digits `fp` with |ip| + max |fp| 3 ≤ 15 (10^15 < 2^50) — in
    particular every value with up to 10 integer and up to 4 fraction digits. -/
theorem decode_kilo_decimal_digits (addr unit text ip fp : List Nat) (zeros : Nat) (g : Obis.Groups)
    (hg : Obis.parse addr = .ok g)
    (hu : unitsKilo.contains (Py.lower unit) = true)
    (hip : ∀ c ∈ ip, Py.isDigit c = true) (hfp : ∀ c ∈ fp, Py.isDigit c = true)
    (hne : zeros ≠ 0 ∨ ip ≠ [] ∨ fp ≠ [])
    (ht : text = (List.replicate zeros 48 ++ ip) ++ 46 :: fp ∨ (text = List.replicate zeros 48 ++ ip ∧ fp = []))
    (hlen : ip.length + fp.length ≤ 15) (hlen3 : ip.length + 3 ≤ 15) :
    ∃ z : Int,
      decodeItem ⟨addr, [⟨text, some unit⟩]⟩ =
        .ok ((match obisNameMap.lookup (Py.toString (Obis.cdeStr g)) with
              | some n => n | none => Py.toString (Obis.cdeStr g)), .int z) ∧
      (z = ((digitsVal (ip ++ fp) * 1000 / 10 ^ fp.length : Nat) : Int) ∨
       z = ((digitsVal (ip ++ fp) * 1000 / 10 ^ fp.length : Nat) : Int) - 1) := by
  have hval : digitsVal ((List.replicate zeros 48 ++ ip) ++ fp) = digitsVal (ip ++ fp) := by
    rw [List.append_assoc, digitsVal_zeros]
  have hzd : ∀ c ∈ List.replicate zeros 48 ++ ip, Py.isDigit c = true := by
    intro c hc
    rcases List.mem_append.mp hc with h | h
    · rw [(List.mem_replicate.mp h).2]; decide
    · exact hip c h
  have hlt : digitsVal (ip ++ fp) < 10 ^ (ip.length + fp.length) := by
    have := digitsVal_lt (ip ++ fp) (by
      intro c hc
      rcases List.mem_append.mp hc with h | h
      · exact hip c h
      · exact hfp c h)
    rwa [List.length_append] at this
  have h15 : (10 : Nat) ^ 15 < 2 ^ 50 := by decide
  have hE : digitsVal (ip ++ fp) * 10 ^ (3 - fp.length) < 2 ^ 50 := by
    refine Nat.lt_of_le_of_lt ?_ h15
    rcases Nat.lt_or_ge 3 fp.length with h3 | h3
    · have : 3 - fp.length = 0 := by omega
      rw [this, Nat.pow_zero, Nat.mul_one]
      exact Nat.le_trans (Nat.le_of_lt hlt) (Nat.pow_le_pow_right (by decide) hlen)
    · have hmul : digitsVal (ip ++ fp) * 10 ^ (3 - fp.length) ≤
          10 ^ (ip.length + fp.length) * 10 ^ (3 - fp.length) :=
        Nat.mul_le_mul_right _ (Nat.le_of_lt hlt)
      rw [← Nat.pow_add] at hmul
      exact Nat.le_trans hmul (Nat.pow_le_pow_right (by decide) (by omega))
  have hne2 : List.replicate zeros 48 ++ ip ≠ [] ∨ fp ≠ [] := by
    rcases hne with h | h | h
    · left; cases zeros with
      | zero => exact absurd rfl h
      | succ n => simp [List.replicate_succ]
    · left; intro hc; exact h (List.append_eq_nil_iff.mp hc).2
    · right; exact h
  have := decode_kilo_decimal addr unit text (List.replicate zeros 48 ++ ip) fp g hg hu hzd hfp hne2 ht
    (by omega) (by rw [hval]; exact hE)
  rwa [hval] at this

/-- **C11 (V, A, var, varh — end to end).** The decoded value is the double nearest to the transmitted decimal
    m / 10^k (`ofRat` rounds to nearest, ties to even), for any number of leading zeros and any unit spelling. -/
theorem decode_plain_decimal (addr unit text ip fp : List Nat) (g : Obis.Groups)
    (hg : Obis.parse addr = .ok g)
    (hu : unitsPlain.contains (Py.lower unit) = true)
    (hip : ∀ c ∈ ip, Py.isDigit c = true) (hfp : ∀ c ∈ fp, Py.isDigit c = true)
    (hne : ip ≠ [] ∨ fp ≠ [])
    (ht : text = ip ++ 46 :: fp ∨ (text = ip ∧ fp = [])) :
    decodeItem ⟨addr, [⟨text, some unit⟩]⟩ =
      .ok ((match obisNameMap.lookup (Py.toString (Obis.cdeStr g)) with
            | some n => n | none => Py.toString (Obis.cdeStr g)),
           .flt (ofRat false (digitsVal (ip ++ fp)) (10 ^ fp.length))) := by
  have hf := ofStr_decimal_text text ip fp hip hfp ht hne
  exact P1ParseRT.decodeItem_plain addr text unit g _ hg hu (unit_ne_nil unit (Or.inr hu)) hf

/-- … and numerically: for a non-zero value below 2^200 with at most 60 fraction digits the decoded float is
    finite, normalised, and within a relative 2^-53 (half a unit in the last place) of the transmitted decimal -/
theorem decode_plain_decimal_error (addr unit text ip fp : List Nat) (g : Obis.Groups)
    (hg : Obis.parse addr = .ok g)
    (hu : unitsPlain.contains (Py.lower unit) = true)
    (hip : ∀ c ∈ ip, Py.isDigit c = true) (hfp : ∀ c ∈ fp, Py.isDigit c = true)
    (hne : ip ≠ [] ∨ fp ≠ [])
    (ht : text = ip ++ 46 :: fp ∨ (text = ip ∧ fp = []))
    (hk : fp.length ≤ 60)
    (hm0 : 0 < digitsVal (ip ++ fp)) (hmb : digitsVal (ip ++ fp) ≤ 2 ^ 200) :
    ∃ (mf : Nat) (ef : Int),
      decodeItem ⟨addr, [⟨text, some unit⟩]⟩ =
        .ok ((match obisNameMap.lookup (Py.toString (Obis.cdeStr g)) with
              | some n => n | none => Py.toString (Obis.cdeStr g)), .flt (.fin false mf ef)) ∧
      2 ^ 52 ≤ mf ∧
      |(mf : ℚ) * (2 : ℚ) ^ ef - (digitsVal (ip ++ fp) : ℚ) / ((10 ^ fp.length : Nat) : ℚ)|
        ≤ (digitsVal (ip ++ fp) : ℚ) / ((10 ^ fp.length : Nat) : ℚ) / 2 ^ 53 := by
  have h10 : 10 ^ fp.length ≤ 10 ^ 60 := Nat.pow_le_pow_right (by decide) hk
  have h60 : (10 : Nat) ^ 60 ≤ 2 ^ 200 := by decide
  obtain ⟨mf, ef, heq, hmf, herr⟩ := ofRat_spec_nat false (digitsVal (ip ++ fp)) (10 ^ fp.length) hm0
    (Nat.pow_pos (by decide))
    (Nat.le_trans (Nat.le_trans h10 h60) (Nat.le_mul_of_pos_left _ hm0))
    (Nat.le_trans hmb (Nat.le_mul_of_pos_left _ (Nat.pow_pos (by decide))))
  refine ⟨mf, ef, ?_, hmf, herr⟩
  rw [← heq]
  exact decode_plain_decimal addr unit text ip fp g hg hu hip hfp hne ht

/-! ### witnesses: both cases of the disjunction occur, and the theorems apply to realistic texts -/

/-- "1.011" kW (the repository's own test value): float("1.011") * 1000 = 1010.9999999999999, truncated to
    1010 = ⌊1.011 × 1000⌋ − 1 — the "one less" case is real -/
example : decodeItem ⟨Py.ofString "1-0:1.7.0", [⟨Py.ofString "1.011", some (Py.ofString "kW")⟩]⟩ =
    .ok ("active_power_import", .int 1010) ∧ (1011 * 1000 / 10 ^ 3 : Nat) = 1011 := by decide +kernel

/-- "00001605.055" kWh: exact, 1605055 = ⌊1605.055 × 1000⌋ -/
example : decodeItem ⟨Py.ofString "1-0:1.8.0", [⟨Py.ofString "00001605.055", some (Py.ofString "kWh")⟩]⟩ =
    .ok ("active_power_import_total", .int 1605055) ∧ (1605055 * 1000 / 10 ^ 3 : Nat) = 1605055 := by
  decide +kernel

/-- four fraction digits: "1.0115" kW → ⌊1011.5⌋ = 1011 -/
example : decodeItem ⟨Py.ofString "1-0:1.7.0", [⟨Py.ofString "1.0115", some (Py.ofString "KW")⟩]⟩ =
    .ok ("active_power_import", .int 1011) ∧ (10115 * 1000 / 10 ^ 4 : Nat) = 1011 := by decide +kernel

/-- the hypotheses of `decode_kilo_decimal` hold for "1.011" kW (non-vacuity), and its conclusion is the pair
    {1011, 1010} -/
example : ∃ z : Int, decodeItem ⟨Py.ofString "1-0:1.7.0", [⟨Py.ofString "1.011", some (Py.ofString "kW")⟩]⟩ =
    .ok ("active_power_import", .int z) ∧ (z = 1011 ∨ z = 1011 - 1) :=
  decode_kilo_decimal (Py.ofString "1-0:1.7.0") (Py.ofString "kW") (Py.ofString "1.011") (Py.ofString "1")
    (Py.ofString "011") (some 1, some 0, 1, 7, some 0, none) (by rfl) (by decide) (by decide) (by decide)
    (by decide) (by decide) (by decide) (by decide)

/-- … and for "00001605.055" kWh through the shape-only form (5 leading zeros, 4 + 3 digits) -/
example : ∃ z : Int,
    decodeItem ⟨Py.ofString "1-0:1.8.0", [⟨Py.ofString "00001605.055", some (Py.ofString "kWh")⟩]⟩ =
      .ok ("active_power_import_total", .int z) ∧ (z = 1605055 ∨ z = 1605055 - 1) :=
  decode_kilo_decimal_digits (Py.ofString "1-0:1.8.0") (Py.ofString "kWh") (Py.ofString "00001605.055")
    (Py.ofString "1605") (Py.ofString "055") 4 (some 1, some 0, 1, 8, some 0, none) (by rfl) (by decide)
    (by decide) (by decide) (by decide) (by decide) (by decide) (by decide)

/-- "230.1" V: the nearest double to 2301/10 -/
example : decodeItem ⟨Py.ofString "1-0:32.7.0", [⟨Py.ofString "230.1", some (Py.ofString "V")⟩]⟩ =
    .ok ("voltage_l1", .flt (ofRat false 2301 (10 ^ 1))) :=
  decode_plain_decimal (Py.ofString "1-0:32.7.0") (Py.ofString "V") (Py.ofString "230.1") (Py.ofString "230")
    (Py.ofString "1") (some 1, some 0, 32, 7, some 0, none) (by rfl) (by decide) (by decide) (by decide)
    (by decide) (by decide)

/-- which is 0x1.cc33333333333p+7 = 8095924017640243 · 2^-45, as CPython's `float('230.1').hex()` says -/
example : ofRat false 2301 (10 ^ 1) = .fin false 8095924017640243 (-45) ∧
    Flt.ofStr (Py.ofString "230.1") = .ok (.fin false 8095924017640243 (-45)) := by decide +kernel

/-- a signed text and a text without integer digits, through `ofStr_decimal` -/
example : Flt.ofStr (Py.ofString "-0.5") = .ok (ofRat true 5 (10 ^ 1)) ∧
    Flt.ofStr (Py.ofString ".25") = .ok (ofRat false 25 (10 ^ 2)) ∧
    Flt.ofStr (Py.ofString "+0042") = .ok (ofRat false 42 1) :=
  ⟨ofStr_decimal (some true) (Py.ofString "0") (Py.ofString "5") (by decide) (by decide) (by decide),
   ofStr_decimal none [] (Py.ofString "25") (by decide) (by decide) (by decide),
   ofStr_decimal_nodot (some false) (Py.ofString "0042") (by decide) (by decide)⟩

end Amshan.C11
