import Amshan.Lemmas.GenCodeAuto
/-
  C12 (tie by translation) — `AutoDecoder.decode_message_payload` and `previous_success_decoder`, mechanically
  translated from the current source (Amshan/GeneratedCodeAuto.lean, harness/pytrans.py), equal the model that the
  theorems of this property speak about (`Auto.step` = the rotation `Auto.tryLoop` over the decoder table, started at
  the remembered decoder; `Auto.previousName`).

  Generic like the model: the table `payload_decoder_functions` is the parameter `decs` — opaque callables
  `α → Except PyExc β` (`decoder(payload)` returns a value or raises) — and the `except <classes>:` clause is the
  parameter `caught` (an exception e of the decoder is swallowed iff `caught e`; the class list itself is data:
  `Gen.caughtPayload`, pinned in C12.lean).  `self.__previous_success` is the state: the translated method takes its
  value on entry and answers `Except PyExc (its value afterwards × what Python returns)`; `.error e` is an exception
  that leaves the method.

  The equality holds for EVERY table — for the empty one the loop does not run and the method returns None (and
  `% len(table)` is never evaluated) — every `caught`, and every remembered index, in range or not: the index that is
  looked up is reduced `% len(table)`, so the lookup (outside the `try`: an IndexError would not be caught) never
  fails, in the source as in the model (`.error .indexError` is unreachable in both).
-/
namespace Amshan.C12
open Amshan.Auto Amshan.GenCode

/-- `decode_message_payload(payload)` with `__previous_success = prev`: the new `__previous_success` and the result -/
theorem gen_decodePayload {α β : Type} (decs : List (Decoder α β)) (caught : PyExc → Bool) (prev : Option Nat) (payload : α) :
    autoDecodeMessagePayload decs caught prev payload = Auto.step decs caught prev payload := by
  exact GenLemmas.autoDecodeMessagePayload_eq decs caught prev payload

/-- the translated method never raises IndexError: whatever index is remembered, the lookup is in range -/
theorem gen_decodePayload_no_indexError {α β : Type} (decs : List (Decoder α β)) (caught : PyExc → Bool) (prev : Option Nat)
    (payload : α) (hc : ∀ d ∈ decs, d payload ≠ .error .indexError) :
    autoDecodeMessagePayload decs caught prev payload ≠ .error .indexError := by
  rw [gen_decodePayload]
  exact GenLemmas.step_ne_indexError decs caught prev payload hc

/-- `previous_success_decoder` for a remembered index inside the table (Python raises IndexError outside; the model
    answers none there): the name at that index -/
theorem gen_previousName (names : List String) (prev : Option Nat) (h : ∀ i, prev = some i → i < names.length) :
    autoPreviousSuccessDecoder names prev = .ok (previousName names prev) := by
  exact GenLemmas.autoPreviousSuccessDecoder_eq names prev h

end Amshan.C12
