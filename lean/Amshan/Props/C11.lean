import Amshan.Lemmas.P1ParseRT
/-
  C11 — P1 readouts parse into the transmitted data sets and decode with exact units.
-/
namespace Amshan.C11
open Amshan.Gen Amshan.Cosem Amshan.P1Parse Amshan.P1BlockSpec

/-- pin: the strings `_decode_parsed` compares units and the clock code with, as the model reads them
    (`unitsPlain` = the first four, `unitsKilo` = the next four, `clockCde` = the ninth); the order inside a group
    does not matter (the source may keep a group in a set).  The integer literals of `_decode_parsed` and
    `_parse_p1_datetime` are not pinned as theorems: they are change detectors of the harness
    (harness/fingerprints.json), a change widens the correspondence search. -/
theorem literal_pins : (p1DecodeStrings.take 4).Perm ["v", "a", "var", "varh"] ∧
    ((p1DecodeStrings.drop 4).take 4).Perm ["kw", "kwh", "kvar", "kvarh"] ∧ p1DecodeStrings.drop 8 = ["1.0.0"] := by
  decide

def expectedSets (b : List LineDesc) : List DataSet :=
  (b.flatMap (·.sets)).map fun d => ⟨d.address, d.values.map fun v => ⟨v.value, v.unit⟩⟩

/-- **C11 (parsing).** For every well-formed data block — several data sets per line, 1..n values per
    data set, with or without units, blank lines, LF or CR LF line ends — parsing returns one data set
    per transmitted address with all its values and units in order. -/
theorem parse_block (b : List LineDesc) (h : ∀ l ∈ b, l.WF) :
    ∃ iters, parseContent (render b) = .ok (expectedSets b, iters) := by
  exact P1ParseRT.parseContent_render b h

/-- parsing never runs out of the model's fuel (the loops of the repaired source terminate), and the
    number of loop iterations is linear in the input -/
theorem parse_terminates (data : List Nat) : parseContent data ≠ .error .overflowError := by
  exact P1ParseRT.parseContent_ne_overflow data

theorem parse_cost (data : List Nat) (items : List DataSet) (iters : Nat)
    (h : parseContent data = .ok (items, iters)) : iters ≤ 2 * data.length + 2 := by
  have := P1ParseRT.parseContent_cost data items iters h
  omega

/-- **C11 (decoding names).** A single-valued data set is stored under the common field name of its
    OBIS address's C.D.E groups (or the C.D.E text when unknown). -/
theorem decode_name (item : DataSet) (k : String) (v : Val) (g : Obis.Groups)
    (hg : Obis.parse item.address = .ok g) (h : decodeItem item = .ok (k, v)) :
    k = (match obisNameMap.lookup (Py.toString (Obis.cdeStr g)) with
         | some n => n | none => Py.toString (Obis.cdeStr g)) := by
  exact P1ParseRT.decodeItem_name item k v g hg h

/-- **C11 (verbatim values).** Without a recognised unit and not the clock, the value text is kept. -/
theorem decode_verbatim (addr value : List Nat) (g : Obis.Groups) (hg : Obis.parse addr = .ok g)
    (hc : Obis.cdeStr g ≠ clockCde) :
    ∃ k, decodeItem ⟨addr, [⟨value, none⟩]⟩ = .ok (k, .str value) := by
  exact ⟨_, P1ParseRT.decodeItem_verbatim addr value g hg hc⟩

/-- **C11 (V, A, var, varh).** The transmitted number (as the nearest double), in any letter case of
    the unit. -/
theorem decode_plain_unit (addr value unit : List Nat) (g : Obis.Groups) (f : Flt.F)
    (hg : Obis.parse addr = .ok g) (hu : unitsPlain.contains (Py.lower unit) = true) (hne : unit ≠ [])
    (hf : Flt.ofStr value = .ok f) :
    ∃ k, decodeItem ⟨addr, [⟨value, some unit⟩]⟩ = .ok (k, .flt f) := by
  exact ⟨_, P1ParseRT.decodeItem_plain addr value unit g f hg hu hne hf⟩

/-- **C11 (kW, kWh, kvar, kvarh).** `int(float(value) * 1000)`. -/
theorem decode_kilo_unit (addr value unit : List Nat) (g : Obis.Groups) (f : Flt.F) (z : Int)
    (hg : Obis.parse addr = .ok g) (hu : unitsKilo.contains (Py.lower unit) = true) (hne : unit ≠ [])
    (hf : Flt.ofStr value = .ok f) (hz : Flt.toInt (Flt.mul f (Flt.ofNat 1000)) = .ok z) :
    ∃ k, decodeItem ⟨addr, [⟨value, some unit⟩]⟩ = .ok (k, .int z) := by
  exact ⟨_, P1ParseRT.decodeItem_kilo addr value unit g f z hg hu hne hf hz⟩

/-- **C11 (clock).** `YYMMDDhhmmss…` under 1.0.0 is the transmitted local date-time. -/
theorem decode_clock (addr : List Nat) (g : Obis.Groups) (hg : Obis.parse addr = .ok g)
    (hc : Obis.cdeStr g = clockCde) (yy mo d h mi s : Nat) (suffix : List Nat)
    (hv : yy ≤ 99 ∧ 1 ≤ mo ∧ mo ≤ 12 ∧ 1 ≤ d ∧ d ≤ daysInMonth (2000 + yy) mo ∧ h ≤ 23 ∧ mi ≤ 59 ∧ s ≤ 59) :
    let two (n : Nat) : List Nat := [48 + n / 10, 48 + n % 10]
    ∃ k, decodeItem ⟨addr, [⟨two yy ++ two mo ++ two d ++ two h ++ two mi ++ two s ++ suffix, none⟩]⟩ =
      .ok (k, .dt { year := 2000 + yy, month := mo, day := d, hour := h, minute := mi, second := s, micro := 0, tz := none }) := by
  exact ⟨_, P1ParseRT.decodeItem_clock addr g hg hc yy mo d h mi s suffix hv⟩

/-- **C11 (same through all paths).** `decode_p1_readout` = `decode_p1_readout_content` of the payload
    plus the two identification fields. -/
theorem readout_eq_content_plus_ident (r : P1.Readout) (d : Dict) (m : P1.IdentMatch)
    (hd : decodeContent r.payload = .ok d) (hm : r.identLine = .ok m) :
    decodeReadout r = .ok (match m.ident with
      | some i => (d.set field_METER_MANUFACTURER_ID (.str m.manid)).set field_METER_TYPE_ID (.str i)
      | none => d.set field_METER_MANUFACTURER_ID (.str m.manid)) := by
  exact P1ParseRT.decodeReadout_eq r d m hd hm

/-- **C11 (the content decoder's guard).** `decode_p1_readout_content` first refuses content with an
    octet below 0x20 other than CR and LF.  A well-formed data block has none (its characters are
    printable, CR, LF), so the guard passes: the transmitted data sets are decoded, and a block without
    data sets is refused. -/
theorem decode_block (b : List LineDesc) (h : ∀ l ∈ b, l.WF) :
    decodeContent (render b) =
      if (expectedSets b).isEmpty then .error .valueError else decodeParsed (expectedSets b) := by
  exact P1ParseRT.decodeContent_render b h

/-- content of printable characters, CR and LF (or octets ≥ 0x80): the guard passes -/
theorem decode_guard_passes (content : List Nat) (h : ∀ c ∈ content, 32 ≤ c ∨ c = 13 ∨ c = 10) :
    decodeContent content = decodeParsedContent content :=
  P1ParseRT.decodeContent_of_no_control content h

/-- any other control octet: ValueError, whatever the parser would have made of the content -/
theorem decode_guard_rejects (content : List Nat) (h : ∃ c ∈ content, c < 32 ∧ c ≠ 13 ∧ c ≠ 10) :
    decodeContent content = .error .valueError :=
  P1ParseRT.decodeContent_control content h

/-- the iteration count is in fact at most the input length -/
theorem parse_cost_tight (data : List Nat) (items : List DataSet) (iters : Nat)
    (h : parseContent data = .ok (items, iters)) : iters ≤ data.length :=
  P1ParseRT.parseContent_cost data items iters h

end Amshan.C11
