import Amshan.Props.C19Hdlc
import Amshan.Props.C19P1
import Amshan.Props.C14P1
/-
  C19 — non-vacuity witnesses: reachable readers after the stream patterns the property names
  (1 000 flags × 100 calls — the input of defect D5 —, a frame that never ends, an identification line
  followed by data lines without an end line, a start character never followed by a line end), then one more
  `read()` call.
-/
namespace Amshan.C19.Witness
set_option linter.defProp false
open Amshan.Gen Amshan.Hdlc

/-! ### `hdlc_bounded`, `hdlc_reachable_bounded` : `Reachable cfg r` -/

/-- 100 calls with 1 000 flag octets each (defect D5: 100 000 octets used to be retained) -/
def flagFill : List (List Nat) := List.replicate 100 (List.replicate 1000 0x7E)
/-- a frame that never ends: opening flag, the real header A0 27 01 02 01 10 5A 87, then 100 × 500 octets 0x55 -/
def endless : List (List Nat) := [[0x7E, 0xA0, 0x27, 0x01, 0x02, 0x01, 0x10, 0x5A, 0x87]] ++ List.replicate 100 (List.replicate 500 0x55)

example (cfg : Cfg) : let r := (readAll cfg Reader.init (flagFill ++ endless)).1
    Reachable cfg r ∧ r.size ≤ 3 * maxFrameLen + 1 ∧ (read cfg r (List.replicate 65536 0x7D)).1.size ≤ 3 * maxFrameLen + 1 := by
  intro r
  have hr : Reachable cfg r := ⟨_, rfl⟩
  exact ⟨hr, hdlc_reachable_bounded cfg r hr, hdlc_bounded cfg r hr _⟩

example : 3 * maxFrameLen + 1 = 6142 := by decide

/-! ### `p1_bounded`, `p1_pending_bounded` : `Reachable r`, `read r chunk = .ok (r', outs)` -/

def s (x : String) : List Nat := x.toList.map Char.toNat

/-- an identification line and 3 000 data lines without end line (≈ 84 KiB), then '/' and 20 000 octets without LF -/
def p1History : List (List Nat) :=
  [s "/LGF5E360\r\n"] ++ List.replicate 3000 (s "1-0:1.8.0(00000896.020*kWh)\r\n") ++ [[0x2F]] ++
    List.replicate 20 (List.replicate 1000 0x61)

example : ∃ r, P1.Reachable r ∧ ∃ r' outs, P1.read r (s "1-0:1.7.0(0000.000*kW)\r\n") = .ok (r', outs) ∧
    r'.size ≤ 2 * p1Guard + 2 * 24 ∧ r'.buf.inp.length + r'.raw.length ≤ p1Guard + 24 := by
  obtain ⟨r, outs0, h0⟩ := C14.p1_readAll_total p1History
  have hr : P1.Reachable r := ⟨p1History, outs0, h0⟩
  obtain ⟨r', outs, h⟩ := C14.p1_read_total r hr (s "1-0:1.7.0(0000.000*kW)\r\n")
  have hl : (s "1-0:1.7.0(0000.000*kW)\r\n").length = 24 := by decide
  have h1 := p1_bounded r hr _ r' outs h
  have h2 := p1_pending_bounded r hr _ r' outs h
  rw [hl] at h1 h2
  exact ⟨r, hr, r', outs, h, h1, h2⟩

end Amshan.C19.Witness
