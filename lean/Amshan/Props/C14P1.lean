import Amshan.Lemmas.P1Total
/-
  C14 (P1 part) — read() of the P1 reader never raises, for every byte sequence and chunking, and
  every readout it returns answers is_valid / payload / as_bytes without raising.
  The model uses partial primitives (`decodeAscii`, `intBase16`, `line[0]`, `DataReadout(...)`)
  that do fail on some inputs; the theorems show every call site is guarded.
-/
namespace Amshan.C14
open Amshan.Gen Amshan.P1 Amshan.Py

/-- the primitives are genuinely partial -/
example : decodeAscii [47, 200] = .error .unicodeError := by decide
example : intBase16 [122, 122] = .error .valueError := by decide
example : Readout.make [65] = .error .valueError := by decide

/-- **C14 (P1 reader).** From a new reader, no sequence of chunks makes `read()` raise. -/
theorem p1_readAll_total (chunks : List (List Nat)) :
    ∃ r outs, readAll Reader.init chunks = .ok (r, outs) := by
  obtain ⟨r, outs, h, _⟩ := readAll_ok chunks Reader.init inv_init
  exact ⟨r, outs, h⟩

theorem p1_read_total (r : Reader) (hr : Reachable r) (chunk : List Nat) :
    ∃ r' outs, read r chunk = .ok (r', outs) := by
  obtain ⟨r', outs, h, _⟩ := read_ok r chunk (reachable_inv hr)
  exact ⟨r', outs, h⟩

/-- every readout answers `is_valid` without raising -/
theorem p1_isValid_total (r : Readout) : ∃ b, r.isValid = .ok b :=
  isValid_ok r

end Amshan.C14
