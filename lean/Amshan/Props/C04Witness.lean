import Amshan.Props.C04
/-
  C04 — non-vacuity witnesses on a REAL readout: tests/test_dlde.py EXAMPLE_DATA_C (Ellevio / Aidon,
  identification line `/ELL5\253833635_A` with one escape sequence, 28 data lines, 712 octets, transmitted
  checksum `80FF`), re-expressed as a `ReadoutDesc`; the Spec encoder computes the same checksum.
  Corrupted variants (on a short Landis+Gyr readout, to keep kernel evaluation cheap): last checksum digit
  changed, lower case + LF, `0000`, one payload octet changed.  A second, short readout without checksum (`!` CR LF) in the style of EXAMPLE_DATA_B.
-/
namespace Amshan.C04.Witness
set_option linter.defProp false
set_option maxRecDepth 100000
open Amshan.Gen Amshan.P1 Amshan.P1Spec Amshan.Py

def s (x : String) : List Nat := x.toList.map Char.toNat

def linesC : List (List Nat) := [
  s "", s "0-0:1.0.0(201020085222W)", s "1-0:1.8.0(00001605.055*kWh)", s "1-0:2.8.0(00000000.131*kWh)",
  s "1-0:3.8.0(00000003.642*kvarh)", s "1-0:4.8.0(00000185.707*kvarh)", s "1-0:1.7.0(0006.000*kW)",
  s "1-0:2.7.0(0000.000*kW)", s "1-0:3.7.0(0000.200*kvar)", s "1-0:4.7.0(0000.470*kvar)",
  s "1-0:21.7.0(0003.172*kW)", s "1-0:41.7.0(0000.441*kW)", s "1-0:61.7.0(0002.386*kW)",
  s "1-0:22.7.0(0000.000*kW)", s "1-0:42.7.0(0000.000*kW)", s "1-0:62.7.0(0000.000*kW)",
  s "1-0:23.7.0(0000.000*kvar)", s "1-0:43.7.0(0000.200*kvar)", s "1-0:63.7.0(0000.000*kvar)",
  s "1-0:24.7.0(0000.222*kvar)", s "1-0:44.7.0(0000.000*kvar)", s "1-0:64.7.0(0000.247*kvar)",
  s "1-0:32.7.0(234.4*V)", s "1-0:52.7.0(233.3*V)", s "1-0:72.7.0(235.1*V)", s "1-0:31.7.0(013.6*A)",
  s "1-0:51.7.0(002.0*A)", s "1-0:71.7.0(010.2*A)"]

/-- EXAMPLE_DATA_C -/
def dC : ReadoutDesc :=
  { man := s "ELL", baud := 53, escs := s "2", ident := s "53833635_A", lines := linesC, checksum := some false }

/-- the encoder reproduces the captured text: identification line, and the end line `!80FF` CR LF -/
example : dC.identLine = s "/ELL5\\253833635_A\r\n" ∧ dC.encode.length = 712 ∧
    dC.encode.drop 705 = s "!80FF\r\n" ∧ crc16Arc dC.body = 0x80FF := by
  decide +kernel

def rC : Readout := expectedReadout dC

/-! ### `ident_wellformed` : hypothesis `identMatch s = some m` -/

def identC : identMatch (s "/ELL5\\253833635_A") = some ⟨s "ELL", some (s "53833635_A")⟩ := by decide +kernel

example : ∃ (a b c d : Nat) (escs ident tail : List Nat),
    s "/ELL5\\253833635_A" = [47, a, b, c, d] ++ escs.flatMap (fun w => [92, w]) ++ ident ++ tail ∧
    Py.isUpper a = true ∧ Py.isUpper b = true ∧ Py.isAlpha c = true ∧ Py.isDigit d = true ∧
    escs.all Py.isWord = true ∧ ident.all Py.isPrintable = true ∧ ident.length ≤ 16 ∧
    (tail = [] ∨ tail = [10] ∨ tail = [13, 10] ∨ tail = [13, 10, 10]) ∧
    s "ELL" = [a, b, c] ∧ some (s "53833635_A") = (if ident.isEmpty then none else some ident) :=
  ident_wellformed _ _ identC

/-! ### `valid_sound` : hypotheses `Readout.make raw = .ok r`, `r.isValid = .ok true` -/

def makeC : Readout.make dC.encode = .ok rC := by decide +kernel
def validC : rC.isValid = .ok true := by decide +kernel

/-- the text after '!' IS a checksum text in the sense of the specification, with value 0x80FF -/
def textC : IsChecksumText rC.afterBang 0x80FF :=
  ⟨56, 48, 70, 70, 8, 0, 15, 15, [13, 10], by decide +kernel, by decide, by decide, by decide, by decide, by decide,
    Or.inr (Or.inr rfl)⟩

/-- all hypotheses hold, and the conclusion is not empty: the identification line matched and the
    transmitted checksum equals the CRC-16/ARC of the 706 octets from '/' through '!' -/
example : (∃ m, rC.identLine = .ok m) ∧ 0x80FF = crc16Arc (rC.bytes.take (rC.endPos + 1)) ∧ rC.endPos + 1 = 706 := by
  obtain ⟨h1, h2⟩ := valid_sound dC.encode rC makeC validC
  exact ⟨h1, h2 _ textC, by decide +kernel⟩

/-! ### `mismatch_invalid` : `make raw = .ok r`, `IsChecksumText r.afterBang v`, `v ≠ crc` -/

/-- a short readout with checksum (first lines of EXAMPLE_DATA_A, Landis+Gyr E360); the Spec encoder gives `!1AE9` -/
def dS : ReadoutDesc :=
  { man := s "LGF", baud := 53, escs := [], ident := s "E360",
    lines := [s "", s "0-0:1.0.0(210222161900W)", s "1-0:1.8.0(00000896.020*kWh)", s "1-0:1.7.0(0000.000*kW)",
              s "1-0:32.7.0(230.1*V)", s "1-0:31.7.0(000.6*A)"],
    checksum := some false }

example : dS.WF ∧ crc16Arc dS.body = 0x1AE9 ∧ dS.encode.drop 134 = s "!1AE9\r\n" := by decide +kernel

/-- that readout with another end line -/
def withEnd (e : String) : List Nat := dS.body ++ s e

/-- last digit wrong, upper case -/
example : ∃ r, Readout.make (withEnd "1AE8\r\n") = .ok r ∧ IsChecksumText r.afterBang 0x1AE8 ∧
    0x1AE8 ≠ crc16Arc (r.bytes.take (r.endPos + 1)) ∧ r.isValid = .ok false := by
  have hm : Readout.make (withEnd "1AE8\r\n") = .ok ⟨withEnd "1AE8\r\n", 134, 11⟩ := by decide +kernel
  have ht : IsChecksumText (Readout.afterBang ⟨withEnd "1AE8\r\n", 134, 11⟩) 0x1AE8 :=
    ⟨49, 65, 69, 56, 1, 10, 14, 8, [13, 10], by decide +kernel, by decide, by decide, by decide, by decide, by decide,
      Or.inr (Or.inr rfl)⟩
  have hne : 0x1AE8 ≠ crc16Arc ((Readout.mk (withEnd "1AE8\r\n") 134 11).bytes.take (134 + 1)) := by decide +kernel
  exact ⟨_, hm, ht, hne, mismatch_invalid _ _ hm _ ht hne⟩

/-- lower case, LF only, first digit wrong -/
example : ∃ r, Readout.make (withEnd "9ae9\n") = .ok r ∧ r.isValid = .ok false := by
  have hm : Readout.make (withEnd "9ae9\n") = .ok ⟨withEnd "9ae9\n", 134, 11⟩ := by decide +kernel
  refine ⟨_, hm, mismatch_invalid _ _ hm 0x9AE9
    ⟨57, 97, 101, 57, 9, 10, 14, 9, [10], by decide +kernel, by decide, by decide, by decide, by decide, by decide,
      Or.inr (Or.inl rfl)⟩ (by decide +kernel)⟩

/-- the checksum field 0000 on a readout whose CRC is not zero (defect D2 of DESIGN.md): not valid -/
example : ∃ r, Readout.make (withEnd "0000\r\n") = .ok r ∧ r.isValid = .ok false := by
  have hm : Readout.make (withEnd "0000\r\n") = .ok ⟨withEnd "0000\r\n", 134, 11⟩ := by decide +kernel
  refine ⟨_, hm, mismatch_invalid _ _ hm 0
    ⟨48, 48, 48, 48, 0, 0, 0, 0, [13, 10], by decide +kernel, by decide, by decide, by decide, by decide, by decide,
      Or.inr (Or.inr rfl)⟩ (by decide +kernel)⟩

/-- one payload octet changed (896.020 → 897.020 kWh), checksum field untouched: not valid -/
example : ∃ r, Readout.make (dS.encode.set 56 55) = .ok r ∧ r.isValid = .ok false := by
  have hm : Readout.make (dS.encode.set 56 55) = .ok ⟨dS.encode.set 56 55, 134, 11⟩ := by decide +kernel
  refine ⟨_, hm, mismatch_invalid _ _ hm 0x1AE9
    ⟨49, 65, 69, 57, 1, 10, 14, 9, [13, 10], by decide +kernel, by decide, by decide, by decide, by decide, by decide,
      Or.inr (Or.inr rfl)⟩ (by decide +kernel)⟩

/-! ### `valid_complete` : hypothesis `d.WF` -/

def wfC : dC.WF := by decide +kernel

example : Readout.make dC.encode = .ok rC ∧ rC.isValid = .ok true ∧ rC.payload = dC.payload ∧
    rC.identLine = .ok { manid := s "ELL", ident := some (s "53833635_A") } := by
  obtain ⟨h1, h2, h3, h4⟩ := valid_complete dC wfC
  exact ⟨h1, h2, h3, h4⟩

/-- a readout without checksum (EXAMPLE_DATA_B style: `!` CR LF), no identification escape, 16-character id -/
def dB : ReadoutDesc :=
  { man := s "XMX", baud := 53, escs := [], ident := s "LGBBFFB231314239",
    lines := [s "", s "1-3:0.2.8(42)", s "0-0:1.0.0(180924132132S)", s "1-0:1.8.1(011522.839*kWh)",
              s "0-0:96.13.1()", s "0-1:24.2.1(180924130000S)(04890.857*m3)"],
    checksum := none }

example : dB.WF ∧ dB.encode.drop (dB.encode.length - 3) = s "!\r\n" ∧
    (expectedReadout dB).isValid = .ok true :=
  ⟨by decide +kernel, by decide +kernel, (valid_complete dB (by decide +kernel)).2.1⟩

/-! ### `payload_exact` : `make raw = .ok r`, the decomposition, no LF in `a`, no '!' before the end
    (on the short readout; `a` = identification line without its LF, `z` = checksum and line end) -/

example : ∃ r, Readout.make dS.encode = .ok r ∧
    r.bytes = s "/LGF5E360\r" ++ [10] ++ dS.payload ++ [33] ++ s "1AE9\r\n" ∧
    10 ∉ s "/LGF5E360\r" ∧ 33 ∉ s "/LGF5E360\r" ++ [10] ++ dS.payload ∧
    r.payload = dS.payload ∧ dS.payload.length = 123 := by
  have hm : Readout.make dS.encode = .ok (expectedReadout dS) := by decide +kernel
  have hb : (expectedReadout dS).bytes = s "/LGF5E360\r" ++ [10] ++ dS.payload ++ [33] ++ s "1AE9\r\n" := by
    decide +kernel
  have ha : 10 ∉ s "/LGF5E360\r" := by decide +kernel
  have hp : 33 ∉ s "/LGF5E360\r" ++ [10] ++ dS.payload := by decide +kernel
  exact ⟨_, hm, hb, ha, hp, payload_exact dS.encode _ hm _ _ _ hb ha hp, by decide +kernel⟩

/-! ### `crc_lt` : `Octets bs` -/
example : Octets dS.body ∧ crc16Arc dS.body < 65536 := ⟨by decide +kernel, crc_lt _ (by decide +kernel)⟩

end Amshan.C04.Witness
