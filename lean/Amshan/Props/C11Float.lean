import Amshan.Lemmas.FloatBound
/-
  Floating-point facts used by C08, C09 and C11, proved about the exact binary64 model
  (Model/Float.lean): rounding error of `ofRat`, `round(v·10^-s, s)` is the correctly rounded
  quotient, and the one-sided truncation bound of `int(float(x) * 1000)`.
-/
namespace Amshan.C11
open Amshan.Flt

/-- **(Kaifa/Kamstrup scaling).** For every 32-bit register v and s ∈ {1,2,3}:
    `round(v * 10**-s, s)` is the double nearest to v / 10^s. -/
theorem scaled_correct (v s : Nat) (hv : v < 4294967296) (hs : s = 1 ∨ s = 2 ∨ s = 3) :
    roundDigits (mul (ofInt v) (tenPowNeg s)) s = ofRat false v (10 ^ s) :=
  scaled_correct_gen v s hv (by omega)

/-- **C11 (kilo units).** For a decimal value with up to three fractional digits, E = value × 1000
    (an integer below 2^50): `int(float(value) * 1000)` is E or E − 1 — within one unit below the
    exact decimal product and never above it. `k` is the number of fractional digits, `m` the digits
    read as an integer (so the value is m / 10^k). -/
theorem kilo_unit_bound (m k : Nat) (hk : k ≤ 3) (hE : m * 10 ^ (3 - k) < 2 ^ 50) :
    toInt (mul (ofRat false m (10 ^ k)) (ofNat 1000)) = .ok ((m * 10 ^ (3 - k) : Nat) : Int) ∨
    toInt (mul (ofRat false m (10 ^ k)) (ofNat 1000)) = .ok (((m * 10 ^ (3 - k) : Nat) : Int) - 1) :=
  kilo_unit_bound_gen m k hk hE

/-- the truncation really happens for some values (the bound is tight): 1.001 kW → 1000 W -/
example : toInt (mul (ofRat false 1001 1000) (ofNat 1000)) = .ok 1000 := by decide +kernel


end Amshan.C11
