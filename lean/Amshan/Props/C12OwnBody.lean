import Amshan.Lemmas.DecOwnBody
import Amshan.Props.C12Own
import Amshan.Props.C08
import Amshan.Props.C09
/-
  C12 (concrete part, bare notification bodies) — a genuine Aidon / Kaifa / Kamstrup notification
  body WITHOUT LLC/APDU header given to a fresh AutoDecoder is decoded by that meter's
  `…_notification_body` decoder (index 4 / 5 / 6): the three frame decoders, the P1 text decoder and
  the earlier body decoders all raise.

  The P1 text decoder needs NO hypothesis: `decode_p1_readout_content` refuses content with an octet
  below 0x20 other than CR and LF before parsing it, and every notification body starts with the
  array tag 1 or the structure tag 2 (`p1_decoder_rejects_control`, `p1_decoder_rejects_aidon_body`,
  `…_kaifa_values`, `…_kaifa_obis`, `…_kamstrup`).  (Before that guard existed a body that happened to be
  7-bit ASCII with '(' and ')', e.g. the Kaifa list 02 01 06 28 29 28 29, was decoded by the P1 decoder
  with an EMPTY dictionary; the lists that used to witness this are now positive examples below.)

  What is left is NOT unconditional.  The hypothesis is a decidable predicate on the octets of the body,
      noApduStart p   octets 9… of `p` do not look like an APDU date-time followed by the start of a
                      notification body (otherwise a FRAME decoder takes the body for a frame),
  plus, for Kamstrup, a length octet ≥ 2 (otherwise the Kaifa body decoder accepts the list) and a
  first OBIS code with an octet ≥ 0x80 (under which the Kaifa body decoder is proved to reject the
  list; sufficient, not shown to be necessary).  `noApduStart` and the length octet come with
  machine-checked counterexamples (a well-formed list that violates only that hypothesis and is
  decoded by another decoder) and with realistic lists that satisfy all of them.  The
  counterexamples were also run through the real library (same decoder, same dictionary).
-/
namespace Amshan.C12
open Amshan.Gen Amshan.Cosem Amshan.Dec Amshan.ListSpec Amshan.DecOwnBody

/-! ### the general principle -/

/-- **fresh_k.** With nothing remembered, if decoders `0 … k-1` of the table raise exceptions that the
    `except` clause catches and decoder `k` returns `v`, then `decode_message_payload` returns `v` and
    decoder `k` is remembered. -/
theorem fresh_k (p : List Nat) (k : Nat) (d : Auto.Decoder (List Nat) Dict) (v : Dict)
    (hk : decoders[k]? = some d) (hv : d p = .ok v)
    (hrej : ∀ j, j < k → ∀ d', decoders[j]? = some d' → ∃ e, d' p = .error e ∧ caught e = true) :
    stepPayload none p = .ok (some k, some v) :=
  step_fresh_k decoders caught p k d v hk hv hrej

/-- the same for ANY decoder table and `except` clause -/
theorem fresh_k_generic {α β : Type} (decs : List (Auto.Decoder α β)) (caught : PyExc → Bool)
    (p : α) (k : Nat) (d : Auto.Decoder α β) (v : β) (hk : decs[k]? = some d) (hv : d p = .ok v)
    (hrej : ∀ j, j < k → ∀ d', decs[j]? = some d' → ∃ e, d' p = .error e ∧ caught e = true) :
    Auto.step decs caught none p = .ok (some k, some v) :=
  step_fresh_k decs caught p k d v hk hv hrej

/-! ### rejection by the four decoders tried first, for any payload -/

/-- Aidon_frame, Kaifa_frame and Kamstrup_frame (decoders 0, 1, 2) raise on every payload whose
    octets 9… are not an APDU date-time followed by the start of a notification body -/
theorem frame_decoders_reject (p : List Nat) (h : noApduStart p = true) :
    ∀ j, j < 3 → ∀ d, decoders[j]? = some d → ∃ e, d p = .error e ∧ caught e = true :=
  decoders_lt p 3 (by omega) (fun _ => aidon_frame_rej p h) (fun _ => kaifa_frame_rej p h)
    (fun _ => kamstrup_frame_rej p h) (fun h => absurd h (by omega)) (fun h => absurd h (by omega))
    (fun h => absurd h (by omega))

/-- the P1 decoder (decoder 3) raises on every payload with an octet ≥ 0x80, or without '(' or
    without ')' -/
theorem p1_decoder_rejects (p : List Nat) (h : p1Safe p = true) :
    ∀ d, decoders[3]? = some d → ∃ e, d p = .error e ∧ caught e = true := by
  intro d hd
  rw [DecTotal.decoders_eq] at hd
  simp only [List.getElem?_cons_succ, List.getElem?_cons_zero, Option.some.injEq] at hd
  subst hd
  obtain ⟨e, he⟩ := p1_reject p h
  exact ⟨e, he, DecTotal.caught_all e⟩

/-- **the P1 decoder (decoder 3) raises on every payload with an octet below 0x20 other than CR and
    LF** ("Content is not printable characters."), whatever the parser would make of the text -/
theorem p1_decoder_rejects_control (p : List Nat) (h : ∃ c ∈ p, c < 32 ∧ c ≠ 13 ∧ c ≠ 10) :
    ∀ d, decoders[3]? = some d → ∃ e, d p = .error e ∧ caught e = true := by
  intro d hd
  rw [DecTotal.decoders_eq] at hd
  simp only [List.getElem?_cons_succ, List.getElem?_cons_zero, Option.some.injEq] at hd
  subst hd
  obtain ⟨e, he⟩ := p1_reject_control p h
  exact ⟨e, he, DecTotal.caught_all e⟩

/-- in particular on every payload that starts with the array tag or the structure tag -/
theorem p1_decoder_rejects_tag (t : Nat) (rest : List Nat) (ht : t = 1 ∨ t = 2) :
    ∀ d, decoders[3]? = some d → ∃ e, d (t :: rest) = .error e ∧ caught e = true :=
  p1_decoder_rejects_control _ ⟨t, List.mem_cons_self, by omega, by omega, by omega⟩

/-- every Aidon notification body (array tag first), unconditionally -/
theorem p1_decoder_rejects_aidon_body (es : List AidonElem) :
    ∀ d, decoders[3]? = some d → ∃ e, d (encAidonBody es) = .error e ∧ caught e = true := by
  obtain ⟨rest, hr⟩ := encAidonBody_head es
  rw [hr]
  exact p1_decoder_rejects_tag 1 rest (Or.inl rfl)

/-- every Kaifa positional list (structure tag first), unconditionally -/
theorem p1_decoder_rejects_kaifa_values (vs : List KVal) :
    ∀ d, decoders[3]? = some d → ∃ e, d (encKaifaValues vs) = .error e ∧ caught e = true := by
  obtain ⟨rest, hr⟩ := encKaifaValues_head vs
  rw [hr]
  exact p1_decoder_rejects_tag 2 rest (Or.inr rfl)

/-- every Kaifa OBIS-tagged list, unconditionally -/
theorem p1_decoder_rejects_kaifa_obis (es : List (List Nat × KVal)) :
    ∀ d, decoders[3]? = some d → ∃ e, d (encKaifaObis es) = .error e ∧ caught e = true := by
  obtain ⟨rest, hr⟩ := encKaifaObis_head es
  rw [hr]
  exact p1_decoder_rejects_tag 2 rest (Or.inr rfl)

/-- every Kamstrup list, unconditionally -/
theorem p1_decoder_rejects_kamstrup (l : KamList) :
    ∀ d, decoders[3]? = some d → ∃ e, d (encKamList l) = .error e ∧ caught e = true := by
  obtain ⟨rest, hr⟩ := encKamList_head l
  rw [hr]
  exact p1_decoder_rejects_tag 2 rest (Or.inr rfl)

/-- the decoder returns a dictionary -/
def isDict (o : Out) : Bool :=
  match o with
  | .dict _ => true
  | _ => false

/-- which decoder produced the result -/
def picked (r : Except PyExc (Option Nat × Option Dict)) : Option Nat :=
  match r with
  | .ok (i, some _) => i
  | _ => none

/-! ### Aidon -/

/-- any payload the Aidon body decoder accepts, on a fresh AutoDecoder (such a payload starts with
    the array tag, so the P1 decoder refuses it) -/
theorem own_aidon_payload_fresh (p : List Nat) (hapdu : noApduStart p = true)
    (d : Dict) (hdec : Aidon.decodeBody p = .dict d) : stepPayload none p = .ok (some 4, some d) := by
  obtain ⟨rest, rfl⟩ := aidon_body_dict_head p d hdec
  exact fresh4 _ d (aidon_frame_rej _ hapdu) (kaifa_frame_rej _ hapdu) (kamstrup_frame_rej _ hapdu)
    (p1_reject_tag 1 rest (Or.inl rfl)) hdec

/-- **C12 (Aidon bare body).** a genuine Aidon notification body on a fresh AutoDecoder is decoded by
    Aidon_notification_body, with the dictionary of C07 -/
theorem own_aidon_body_fresh (es : List AidonElem) (h : ∀ e ∈ es, e.WF) (hl : es.length ≤ 255)
    (hapdu : noApduStart (encAidonBody es) = true) :
    stepPayload none (encAidonBody es) = .ok (some 4, some (aidonExpected es)) := by
  refine own_aidon_payload_fresh _ hapdu _ ?_
  have := C07.aidon_roundtrip_body es h hl []
  rwa [List.append_nil] at this

/-- the same with the hypotheses spelled out on the first OBIS code A.B.C.D.E.F of the list:
    F ≥ 128 (every real code has F = 255), C = 9 ⇒ D ≠ 12, C = 0 ⇒ (E ≠ 0 or D ∉ {1, 2}).
    (The Norwegian lists 2 and 3 start with 1.1.0.2.129.255: C = 0, D = 2, E = 129.) -/
theorem own_aidon_body_fresh_obis (e : AidonElem) (rest : List AidonElem) (h : ∀ x ∈ e :: rest, x.WF)
    (hl : (e :: rest).length ≤ 255) (a b c d g f : Nat) (ho : aidonObis e = [a, b, c, d, g, f])
    (hf : 128 ≤ f) (h9 : c = 9 → d ≠ 12) (h0 : c = 0 → g ≠ 0 ∨ (d ≠ 1 ∧ d ≠ 2)) :
    stepPayload none (encAidonBody (e :: rest)) = .ok (some 4, some (aidonExpected (e :: rest))) := by
  refine own_aidon_body_fresh _ h hl ?_
  refine aidon_noApduStart e rest a b c d g f ho h9 (fun _ => Or.inr (by omega)) ?_
  intro hc
  rcases h0 hc with hg | hd
  · exact Or.inr ⟨hg, by omega, by omega⟩
  · exact Or.inl hd

/-- the empty list needs no hypothesis -/
theorem own_aidon_body_empty : stepPayload none (encAidonBody []) = .ok (some 4, some (aidonExpected [])) :=
  own_aidon_body_fresh [] (fun _ h => nomatch h) (by decide) (by decide)

/-- `noApduStart` is needed (1): a well-formed list whose first OBIS code is 1.0.0.1.0.255 (C = 0,
    D = 1, E = 0): after eight octets Aidon_frame sees a null date-time and an empty array and
    returns a dictionary with the manufacturer only -/
example : (∀ e ∈ [AidonElem.text [1, 0, 0, 1, 0, 255] [65]], e.WF) ∧
    noApduStart (encAidonBody [.text [1, 0, 0, 1, 0, 255] [65]]) = false ∧
    stepPayload none (encAidonBody [.text [1, 0, 0, 1, 0, 255] [65]]) =
      .ok (some 0, some [("meter_manufacturer", .str [65, 105, 100, 111, 110])]) := by
  refine ⟨?_, by decide, DecOwn.fresh0 _ _ (by decide)⟩
  intro e he; simp only [List.mem_singleton] at he; subst he; unfold AidonElem.WF; decide

/-- `noApduStart` is needed (2): first OBIS code 1.0.0.2.0.255 (C = 0, D = 2, E = 0): Kaifa_frame sees
    a null date-time and an empty OBIS-tagged structure -/
example : (∀ e ∈ [AidonElem.text [1, 0, 0, 2, 0, 255] [65]], e.WF) ∧
    noApduStart (encAidonBody [.text [1, 0, 0, 2, 0, 255] [65]]) = false ∧
    stepPayload none (encAidonBody [.text [1, 0, 0, 2, 0, 255] [65]]) =
      .ok (some 1, some [("meter_manufacturer", .str [75, 97, 105, 102, 97])]) := by
  refine ⟨?_, by decide, DecOwn.fresh1 _ _ (by decide) (by decide)⟩
  intro e he; simp only [List.mem_singleton] at he; subst he; unfold AidonElem.WF; decide

/-- no hypothesis about the text is needed any more: an all-ASCII list (F = 127) whose last text is
    "()()".  The visible-string tag 0x0A is a line feed, so the P1 PARSER sees the line "\x04()()" - one
    data set with two values - and before the guard existed the P1 decoder returned the EMPTY
    dictionary for this list (`p1Safe` is false for it).  Now the P1 decoder refuses the control
    octets and the list is decoded by Aidon_notification_body. -/
example : (∀ e ∈ [AidonElem.text [1, 1, 0, 2, 1, 127] [40, 41, 40, 41]], e.WF) ∧
    noApduStart (encAidonBody [.text [1, 1, 0, 2, 1, 127] [40, 41, 40, 41]]) = true ∧
    p1Safe (encAidonBody [.text [1, 1, 0, 2, 1, 127] [40, 41, 40, 41]]) = false ∧
    stepPayload none (encAidonBody [.text [1, 1, 0, 2, 1, 127] [40, 41, 40, 41]]) =
      .ok (some 4, some [("meter_manufacturer", .str [65, 105, 100, 111, 110]), ("0.2.1", .str [40, 41, 40, 41])]) := by
  refine ⟨?_, by decide, by decide, own_aidon_payload_fresh _ (by decide) _ (by decide)⟩
  intro e he; simp only [List.mem_singleton] at he; subst he; unfold AidonElem.WF; decide

/-- non-vacuity: the first OBIS codes of the real Aidon lists (list 1: 1.0.1.7.0.255; lists 2 and 3:
    1.1.0.2.129.255; Swedish list: 0.0.1.0.0.255) satisfy the hypotheses of `own_aidon_body_fresh_obis` -/
example : ∀ o ∈ [[1, 0, 1, 7, 0, 255], [1, 1, 0, 2, 129, 255], [0, 0, 1, 0, 0, 255]],
    ∃ a b c d g f, o = [a, b, c, d, g, f] ∧ 128 ≤ f ∧ (c = 9 → d ≠ 12) ∧ (c = 0 → g ≠ 0 ∨ (d ≠ 1 ∧ d ≠ 2)) := by
  intro o ho
  simp only [List.mem_cons, List.not_mem_nil, or_false] at ho
  rcases ho with rfl | rfl | rfl <;> exact ⟨_, _, _, _, _, _, rfl, by decide, by decide, by decide⟩

/-- non-vacuity, concretely: list 1 (active power 280 W) and the start of list 2 -/
example : noApduStart (encAidonBody [.reg [1, 0, 1, 7, 0, 255] .u32 280 0 27]) = true ∧
    noApduStart (encAidonBody [.text [1, 1, 0, 2, 129, 255] [65, 73, 68, 79, 78, 95, 86, 48, 48, 48, 49],
      .reg [1, 0, 1, 7, 0, 255] .u32 280 0 27]) = true := by
  decide

/-! ### Kaifa -/

/-- any payload starting with the structure tag that the Kaifa body decoder accepts, on a fresh
    AutoDecoder (decoder 4, Aidon_notification_body, wants the array tag) -/
theorem own_kaifa_payload_fresh (rest : List Nat) (hapdu : noApduStart (2 :: rest) = true)
    (d : Dict) (hdec : Kaifa.decodeBody (2 :: rest) = .dict d) :
    stepPayload none (2 :: rest) = .ok (some 5, some d) :=
  fresh5 _ d (aidon_frame_rej _ hapdu) (kaifa_frame_rej _ hapdu) (kamstrup_frame_rej _ hapdu)
    (p1_reject_tag 2 rest (Or.inr rfl)) (aidon_body_rej_structure rest) hdec

/-- **C12 (Kaifa positional bare body).** -/
theorem own_kaifa_body_fresh (vs : List KVal) (hapdu : noApduStart (encKaifaValues vs) = true)
    (d : Dict) (hdec : Kaifa.decodeBody (encKaifaValues vs) = .dict d) :
    stepPayload none (encKaifaValues vs) = .ok (some 5, some d) :=
  own_kaifa_payload_fresh _ hapdu d hdec

/-- **C12 (Kaifa positional bare body, documented lists).** with the dictionary of C08 (`hF`: the
    scaled values are correctly rounded, discharged in Props/C08Final).  No hypothesis about the ninth
    octet is needed: a documented list is one register (seven octets) or starts with three printable
    texts and a register, and wherever the ninth octet falls there it is no APDU date-time start
    (`kaifa_values_wf_noApduStart`).  And none about the P1 decoder: the structure tag is a control
    octet.  So this one is unconditional for the documented lists. -/
theorem own_kaifa_body_fresh_wf (hF : C08.ScaledCorrect) (vs : List KVal) (h : KaifaValuesWF vs) :
    stepPayload none (encKaifaValues vs) = .ok (some 5, some (kaifaValuesExpected none vs)) := by
  refine own_kaifa_body_fresh vs (kaifa_values_wf_noApduStart vs h) _ ?_
  have := C08.kaifa_values_body hF vs h []
  rwa [List.append_nil] at this

/-- list 1 (one 32-bit register) -/
theorem own_kaifa_list1_fresh (hF : C08.ScaledCorrect) (v : Nat) (hv : v < 4294967296) :
    stepPayload none (encKaifaValues [.u32 v]) = .ok (some 5, some (kaifaValuesExpected none [.u32 v])) := by
  refine own_kaifa_body_fresh_wf hF _ ?_
  refine ⟨["active_power_import"], (by decide : kaifaLayout 1 = some ["active_power_import"]), ?_, ?_⟩
  · intro x hx; simp only [List.mem_singleton] at hx; subst hx; exact hv
  · intro i hi
    have : i = 0 := by simp only [List.length_cons, List.length_nil] at hi; omega
    subst this
    simp only [List.getElem_cons_zero, kaifaPosOk]
    decide

/-- **C12 (Kaifa OBIS-tagged bare body).** -/
theorem own_kaifa_obis_body_fresh (es : List (List Nat × KVal))
    (hapdu : noApduStart (encKaifaObis es) = true) (d : Dict)
    (hdec : Kaifa.decodeBody (encKaifaObis es) = .dict d) :
    stepPayload none (encKaifaObis es) = .ok (some 5, some d) :=
  own_kaifa_payload_fresh _ hapdu d hdec

theorem own_kaifa_obis_body_fresh_wf (hF : C08.ScaledCorrect) (es : List (List Nat × KVal))
    (h : ∀ p ∈ es, Obis6 p.1 ∧ p.2.WF) (hs : C08.ScaledAreRegisters es) (hl : es.length ≤ 127)
    (hapdu : noApduStart (encKaifaObis es) = true) :
    stepPayload none (encKaifaObis es) = .ok (some 5, some (kaifaObisExpected es)) :=
  own_kaifa_obis_body_fresh es hapdu _ (C08.kaifa_obis_body hF es h hs hl)

/-- the list that motivated the guard: Kaifa list 1 with the (unrealistic, but 32-bit) register
    0x28292829 is the text "\x02\x01\x06()()" (02 01 06 28 29 28 29).  `p1Safe` is false for it and the P1
    decoder used to return the EMPTY dictionary; now it is decoded by Kaifa_notification_body. -/
example : KaifaValuesWF [.u32 0x28292829] ∧ encKaifaValues [.u32 0x28292829] = [2, 1, 6, 40, 41, 40, 41] ∧
    p1Safe [2, 1, 6, 40, 41, 40, 41] = false ∧
    stepPayload none [2, 1, 6, 40, 41, 40, 41] =
      .ok (some 5, some [("meter_manufacturer", .str [75, 97, 105, 102, 97]), ("active_power_import", .int 673785897)]) := by
  refine ⟨⟨["active_power_import"], by decide, ?_, ?_⟩, by decide, by decide,
    own_kaifa_payload_fresh _ (by decide) _ (by decide)⟩
  · intro x hx; simp only [List.mem_singleton] at hx; subst hx; unfold KVal.WF; decide
  · intro i hi
    have : i = 0 := by simp only [List.length_cons, List.length_nil] at hi; omega
    subst this
    simp only [List.getElem_cons_zero, kaifaPosOk]
    decide

/-- `noApduStart` is needed in `own_kaifa_body_fresh`: nine registers the Kaifa body decoder accepts
    (`hdec` holds), the second one 65536 = 00 01 00 00: Aidon_frame sees a null date-time and an empty
    array.  (A documented list cannot do this: `own_kaifa_body_fresh_wf` has no such hypothesis.) -/
example :
    noApduStart (encKaifaValues [.u32 0, .u32 65536, .u32 0, .u32 0, .u32 0, .u32 0, .u32 0, .u32 0, .u32 0]) = false ∧
    isDict (Kaifa.decodeBody (encKaifaValues [.u32 0, .u32 65536, .u32 0, .u32 0, .u32 0, .u32 0, .u32 0, .u32 0, .u32 0])) = true ∧
    picked (stepPayload none (encKaifaValues [.u32 0, .u32 65536, .u32 0, .u32 0, .u32 0, .u32 0, .u32 0, .u32 0, .u32 0])) = some 0 := by
  refine ⟨by decide, by decide, ?_⟩
  · rw [DecOwn.fresh0 _ [("meter_manufacturer", .str [65, 105, 100, 111, 110])] (by decide)]
    rfl

/-- `noApduStart` is needed in `own_kaifa_obis_body_fresh`: a well-formed OBIS-tagged list whose first
    code has E = 9, F = 12: the frame decoders read "09 0C 06 00 01 01 00 09 06 00 00 00 00 00" as a
    tagged date-time (1536-01-01 09:06) and Kamstrup_frame accepts what follows -/
example : (∀ p ∈ [([1, 0, 1, 7, 9, 12], KVal.u32 0x00010100), ([0, 0, 0, 0, 0, 2], KVal.u32 0),
      ([1, 1, 1, 7, 0, 255], KVal.u32 5)], Obis6 p.1 ∧ p.2.WF) ∧
    noApduStart (encKaifaObis [([1, 0, 1, 7, 9, 12], .u32 0x00010100), ([0, 0, 0, 0, 0, 2], .u32 0),
      ([1, 1, 1, 7, 0, 255], .u32 5)]) = false ∧
    picked (stepPayload none (encKaifaObis [([1, 0, 1, 7, 9, 12], .u32 0x00010100), ([0, 0, 0, 0, 0, 2], .u32 0),
      ([1, 1, 1, 7, 0, 255], .u32 5)])) = some 2 := by
  refine ⟨?_, by decide, ?_⟩
  · intro p hp
    simp only [List.mem_cons, List.not_mem_nil, or_false] at hp
    rcases hp with rfl | rfl | rfl <;> exact ⟨by decide, by unfold KVal.WF; decide⟩
  · rw [DecOwn.fresh2 _ [("meter_manufacturer", .str [75, 97, 109, 115, 116, 114, 117, 112]),
        ("list_ver_id", .obj "NullData"), ("active_power_import", .int 5),
        ("meter_datetime", .dt ⟨1536, 1, 1, 9, 6, 0, 0, some 0⟩)] (by decide) (by decide) (by decide)]
    rfl

/-- non-vacuity: the real Kaifa list 1 sample (02 01 06 00 00 16 DC), an all-ASCII list 1 (1290 W =
    00 00 05 0A) and the start of list 2 ("KFM_001") satisfy the hypothesis -/
example : noApduStart (encKaifaValues [.u32 0x16DC]) = true ∧
    noApduStart (encKaifaValues [.u32 1290]) = true ∧
    noApduStart (encKaifaValues [.text [75, 70, 77, 95, 48, 48, 49], .text [54, 57], .u32 1290]) = true := by
  decide

/-- non-vacuity: the first code of the real OBIS-tagged Kaifa list (1.0.0.2.129.255) -/
example : noApduStart (encKaifaObis [([1, 0, 0, 2, 129, 255], .text [75, 70, 77, 95, 48, 48, 49])]) = true := by
  decide

/-! ### Kamstrup -/

/-- **C12 (Kamstrup bare body).** a genuine Kamstrup list on a fresh AutoDecoder is decoded by
    Kamstrup_notification_body: besides the frame decoders and P1 (the structure tag is a control
    octet), Aidon_notification_body rejects the structure tag and Kaifa_notification_body rejects
    because the list has at least two fields and its first OBIS code contains an octet ≥ 0x80
    (group F = 255) -/
theorem own_kamstrup_body_fresh (l : KamList) (h : l.WF) (hlen : 2 ≤ l.lenOctet)
    (hfirst : ∃ e rest, l.elems = e :: rest ∧ ∃ b ∈ e.obis, 128 ≤ b)
    (hapdu : noApduStart (encKamList l) = true)
    (d : Dict) (hdec : Kamstrup.decodeBody (encKamList l) = .dict d) :
    stepPayload none (encKamList l) = .ok (some 6, some d) := by
  obtain ⟨rest, hr⟩ := encKamList_head l
  refine fresh6 _ d (aidon_frame_rej _ hapdu) (kaifa_frame_rej _ hapdu) (kamstrup_frame_rej _ hapdu)
    ?_ ?_ (kaifa_body_rej_kam l h hlen hfirst) hdec
  · rw [hr]
    exact p1_reject_tag 2 rest (Or.inr rfl)
  · rw [hr]
    exact aidon_body_rej_structure rest

/-- with the dictionary of C09 -/
theorem own_kamstrup_body_fresh_wf (hF : C09.ScaledCorrect) (l : KamList) (h : l.WF) (hlen : 2 ≤ l.lenOctet)
    (hfirst : ∃ e rest, l.elems = e :: rest ∧ ∃ b ∈ e.obis, 128 ≤ b)
    (hapdu : noApduStart (encKamList l) = true) :
    stepPayload none (encKamList l) = .ok (some 6, some (kamExpected l)) :=
  own_kamstrup_body_fresh l h hlen hfirst hapdu _ (C09.kamstrup_body hF l h)

/-- a list-version string of five or more characters ("Kamstrup_V0001") gives `noApduStart` -/
theorem own_kamstrup_body_fresh_version (hF : C09.ScaledCorrect) (l : KamList) (h : l.WF) (hlen : 2 ≤ l.lenOctet)
    (hfirst : ∃ e rest, l.elems = e :: rest ∧ ∃ b ∈ e.obis, 128 ≤ b) (hver : 5 ≤ l.version.length) :
    stepPayload none (encKamList l) = .ok (some 6, some (kamExpected l)) :=
  own_kamstrup_body_fresh_wf hF l h hlen hfirst (kamstrup_noApduStart l h.2.1 hver)

/-- `2 ≤ lenOctet` is needed: with length octet 0 the Kaifa body decoder takes the list for an empty
    structure, with length octet 1 for Kaifa list 1 (the "active power" is the version string) -/
example : (KamList.mk 0 [75, 97, 109, 115, 116, 114, 117, 112, 95, 86, 48, 48, 48, 49] 0
      [⟨[1, 1, 0, 0, 5, 255], .text [65], 0⟩]).WF ∧
    noApduStart (encKamList ⟨0, [75, 97, 109, 115, 116, 114, 117, 112, 95, 86, 48, 48, 48, 49], 0,
      [⟨[1, 1, 0, 0, 5, 255], .text [65], 0⟩]⟩) = true ∧
    stepPayload none (encKamList ⟨0, [75, 97, 109, 115, 116, 114, 117, 112, 95, 86, 48, 48, 48, 49], 0,
      [⟨[1, 1, 0, 0, 5, 255], .text [65], 0⟩]⟩) =
      .ok (some 5, some [("meter_manufacturer", .str [75, 97, 105, 102, 97])]) ∧
    stepPayload none (encKamList ⟨1, [75, 97, 109, 115, 116, 114, 117, 112, 95, 86, 48, 48, 48, 49], 0,
      [⟨[1, 1, 0, 0, 5, 255], .text [65], 0⟩]⟩) =
      .ok (some 5, some [("meter_manufacturer", .str [75, 97, 105, 102, 97]),
        ("active_power_import", .str [75, 97, 109, 115, 116, 114, 117, 112, 95, 86, 48, 48, 48, 49])]) := by
  refine ⟨⟨by decide, by decide, by decide, ?_⟩, by decide,
    fresh5 _ _ (aidon_frame_rej _ (by decide)) (kaifa_frame_rej _ (by decide)) (kamstrup_frame_rej _ (by decide))
      (p1_reject_tag 2 _ (Or.inr rfl)) (aidon_body_rej_structure _) (by decide),
    fresh5 _ _ (aidon_frame_rej _ (by decide)) (kaifa_frame_rej _ (by decide)) (kamstrup_frame_rej _ (by decide))
      (p1_reject_tag 2 _ (Or.inr rfl)) (aidon_body_rej_structure _) (by decide)⟩
  intro e he; simp only [List.mem_singleton] at he; subst he
  exact ⟨⟨rfl, by decide⟩, ⟨by decide, by decide⟩, by decide, by decide⟩

/-- an all-ASCII Kamstrup list (F = 127, so `hfirst` fails) whose last text is "()()" used to be decoded
    by the P1 decoder, with the EMPTY dictionary.  Now the P1 decoder refuses it, the Kaifa body decoder
    happens to refuse it as well (no field list of length 3), and Kamstrup_notification_body decodes
    it: `hfirst` is sufficient for the Kaifa body decoder to reject, not necessary. -/
example : (KamList.mk 3 [75, 97, 109, 115, 116, 114, 117, 112, 95, 86, 48, 48, 48, 49] 0
      [⟨[1, 1, 0, 0, 5, 127], .text [40, 41, 40, 41], 0⟩]).WF ∧
    noApduStart (encKamList ⟨3, [75, 97, 109, 115, 116, 114, 117, 112, 95, 86, 48, 48, 48, 49], 0,
      [⟨[1, 1, 0, 0, 5, 127], .text [40, 41, 40, 41], 0⟩]⟩) = true ∧
    stepPayload none (encKamList ⟨3, [75, 97, 109, 115, 116, 114, 117, 112, 95, 86, 48, 48, 48, 49], 0,
      [⟨[1, 1, 0, 0, 5, 127], .text [40, 41, 40, 41], 0⟩]⟩) =
      .ok (some 6, some [("meter_manufacturer", .str [75, 97, 109, 115, 116, 114, 117, 112]),
        ("list_ver_id", .str [75, 97, 109, 115, 116, 114, 117, 112, 95, 86, 48, 48, 48, 49]),
        ("meter_id", .str [40, 41, 40, 41])]) := by
  refine ⟨⟨by decide, by decide, by decide, ?_⟩, by decide,
    fresh6 _ _ (aidon_frame_rej _ (by decide)) (kaifa_frame_rej _ (by decide)) (kamstrup_frame_rej _ (by decide))
      (p1_reject_tag 2 _ (Or.inr rfl)) (aidon_body_rej_structure _) ⟨_, (by decide : ofOut _ = .error .indexError)⟩
      (by decide)⟩
  intro e he; simp only [List.mem_singleton] at he; subst he
  exact ⟨⟨rfl, by decide⟩, ⟨by decide, by decide⟩, by decide, by decide⟩

/-- `noApduStart` is needed: version string "V1" and first OBIS code 0.1.0.0.5.255: octets 9… are
    00 01 00 and Aidon_frame sees a null date-time and an empty array -/
example : (KamList.mk 3 [86, 49] 0 [⟨[0, 1, 0, 0, 5, 255], .text [65], 0⟩]).WF ∧
    noApduStart (encKamList ⟨3, [86, 49], 0, [⟨[0, 1, 0, 0, 5, 255], .text [65], 0⟩]⟩) = false ∧
    stepPayload none (encKamList ⟨3, [86, 49], 0, [⟨[0, 1, 0, 0, 5, 255], .text [65], 0⟩]⟩) =
      .ok (some 0, some [("meter_manufacturer", .str [65, 105, 100, 111, 110])]) := by
  refine ⟨⟨by decide, by decide, by decide, ?_⟩, by decide, DecOwn.fresh0 _ _ (by decide)⟩
  intro e he; simp only [List.mem_singleton] at he; subst he
  exact ⟨⟨rfl, by decide⟩, ⟨by decide, by decide⟩, by decide, by decide⟩

/-- non-vacuity: the start of the real Kamstrup lists (length octet 0x19, "Kamstrup_V0001",
    1.1.0.0.5.255 meter id, 1.1.1.7.0.255 active power) satisfies every hypothesis of
    `own_kamstrup_body_fresh_version` -/
example : let l : KamList := ⟨0x19, [75, 97, 109, 115, 116, 114, 117, 112, 95, 86, 48, 48, 48, 49], 0,
      [⟨[1, 1, 0, 0, 5, 255], .text [53, 55, 48, 54, 53, 54, 55, 48], 0⟩, ⟨[1, 1, 1, 7, 0, 255], .u32 1234, 0⟩]⟩
    l.WF ∧ 2 ≤ l.lenOctet ∧ (∃ e rest, l.elems = e :: rest ∧ ∃ b ∈ e.obis, 128 ≤ b) ∧ 5 ≤ l.version.length := by
  refine ⟨⟨by decide, by decide, by decide, ?_⟩, by decide, ⟨_, _, rfl, 255, by decide, by decide⟩, by decide⟩
  intro e he
  simp only [List.mem_cons, List.not_mem_nil, or_false] at he
  rcases he with rfl | rfl
  · exact ⟨⟨rfl, by decide⟩, ⟨by decide, by decide⟩, by decide, by decide⟩
  · exact ⟨⟨rfl, by decide⟩, by unfold KamVal.WF; decide, by decide, by decide⟩

end Amshan.C12
