import Amshan.Lemmas.CosemDT
/-
  C10 — COSEM date-time fields decode to the same instant the meter sent, in each syntactic position
  where the decoders accept a date-time.  (Positions inside the three list grammars are also covered
  by the round-trip theorems of C07, C08, C09, which use `expectedDT` for their clock elements.)
-/
namespace Amshan.C10
open Amshan.Gen Amshan.Cosem Amshan.ListSpec

/-- the enum table read from the source is the Blue Book's -/
theorem tag_pins : tNull = 0 ∧ tArray = 1 ∧ tStructure = 2 ∧ tU32 = 6 ∧ tOctet = 9 ∧ tVisible = 10 ∧
    tInt8 = 15 ∧ tInt16 = 16 ∧ tU16 = 18 ∧ tEnum = 22 := by decide

/-- **C10.** Every valid COSEM date-time (all calendar dates 1..9999, all times of day, hundredths
    0..99 or unspecified, deviation −720..720 or unspecified, any status octet, any day of week)
    decodes to exactly those civil fields, microseconds = hundredths × 10000 and UTC offset =
    −deviation (none when unspecified); the 13 octets are consumed, whatever follows. -/
theorem datetime_exact (d : DateTimeDesc) (h : d.Valid) (rest : List Nat) :
    dateTime (encDateTime d ++ rest) = .ok (expectedDT d) rest :=
  CosemDT.datetime_exact d h rest

/-- position: generic field / Kaifa list element (octet-string tag, `Select(DateTime, text)`) -/
theorem datetime_in_field (d : DateTimeDesc) (h : d.Valid) (rest : List Nat) :
    field ([9] ++ encDateTime d ++ rest) = .ok (.dt (expectedDT d)) rest :=
  CosemDT.datetime_in_field d h rest

/-- position: Kamstrup element / tagged APDU date-time (`DateTimeField`) -/
theorem datetime_in_dateTimeField (d : DateTimeDesc) (h : d.Valid) (rest : List Nat) :
    dateTimeField ([9] ++ encDateTime d ++ rest) = .ok (expectedDT d) rest :=
  CosemDT.datetime_in_dateTimeField d h rest

/-- what the APDU header yields as clock -/
def clockOf : ApduClock → ApduDT
  | .null => .byte 0
  | .tagged d => .dt (expectedDT d)
  | .untagged d => .dt (expectedDT d)

/-- positions: APDU header with null, tagged or untagged date-time; the notification body parser
    receives exactly the octets after the header -/
theorem apdu_clock {β : Type} (hd : Header) (hh : hd.WF) (body : List Nat → Res β) (rest : List Nat) :
    llc body (encHeader hd ++ rest) = (body rest).bind (fun b r => .ok (clockOf hd.clock, b) r) := by
  have e : clockOf hd.clock = CosemDT.clockOf hd.clock := by cases hd.clock <;> rfl
  rw [e]
  exact CosemDT.llc_clock hd hh body rest

/-- hours, minutes or seconds "not specified" are NOT decodable (TypeError in the source): the
    hypothesis of `datetime_exact` is needed -/
example : dateTime [0x0C, 7, 0xE4, 1, 1, 3, 0xFF, 0, 0, 0xFF, 0x80, 0, 0] = .py .typeError := by rfl

example : (DateTimeDesc.mk 2024 2 29 4 23 59 59 (some 99) (some (-720)) 0x80).Valid := by decide

end Amshan.C10

