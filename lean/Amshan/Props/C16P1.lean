import Amshan.Lemmas.P1Clean
/-
  C16 (P1 part) — after arbitrary bytes the P1 reader delivers every subsequent well-formed
  readout except possibly the first, for every splitting into read() calls.
-/
namespace Amshan.C16
open Amshan.Gen Amshan.P1 Amshan.P1Spec

theorem p1_resync (pre : List Nat) (hpre : Octets pre) (ds : List ReadoutDesc)
    (chunks : List (List Nat))
    (hds : ∀ d ∈ ds, d.WF ∧ d.encode.length ≤ p1Guard)
    (hch : chunks.flatten = pre ++ ds.flatMap ReadoutDesc.encode) :
    ∃ r outs junk, readAll Reader.init chunks = .ok (r, outs) ∧
      outs.flatten = junk ++ ds.tail.map expectedReadout :=
  have _ := hpre   -- not needed: the reader tests `< 128` on arbitrary numbers
  resync pre ds chunks hds hch

end Amshan.C16
