import Amshan.Props.C16Hdlc
import Amshan.Lemmas.HdlcReadLevel
import Amshan.Lemmas.HdlcResyncTight
/-
  C16 (HDLC part) at the entry point, sharpened (audit §1.2 and §1.10).

  * Every statement is about `HdlcFrameReader.read()`: any reader reachable by `read()` calls on byte
    strings (`ReachableOct`), then arbitrary octets `pre`, then the clean stream, split into `read()`
    calls in any way (`chunks`, empty chunks allowed).  `(readAll cfg r chunks).2.flatten` is the
    concatenation of the frame lists returned by the successive calls.
  * Without stuffing the bound is `maxFrameLen + L` (2047 octets plus ONE frame length), as the
    property says, not `maxFrameLen + 2·L`.
  * With abort detection on, the hypothesis "no frame ends in 0x7D" is removed
    (`hdlc_resync_plain_survivors_read`): the conclusion then says exactly which frames come out
    (`HdlcClean.survivors`).  The loss of a clean frame whose last octet is 0x7D is inherent in the
    abort-sequence rule of the source (escape octet directly followed by a flag = abort), it already
    happens on a perfectly clean stream read by a new reader: see `hdlc_plain_clean_survivors`,
    `hdlc_abort_frame_and_successor_lost` and the checked instances at the end.
-/
namespace Amshan.C16
open Amshan.Gen Amshan.Hdlc Amshan.HdlcSpec Amshan.HdlcClean

/-! ### octet stuffing -/

/-- **C16 (octet stuffing), for `read()` from any reachable reader.** After any history of `read()`
    calls and ANY further octets `pre`, a clean stream of stuffed well-formed frames is delivered
    completely except possibly its first frame, however the octets are split into `read()` calls. -/
theorem hdlc_resync_stuffing_read (cfg : Cfg) (hst : cfg.stuffing = true)
    (r : Reader) (hr : ReachableOct cfg r) (pre : List Nat) (hpre : Octets pre)
    (fs : List (FrameDesc × Nat)) (closing : Nat)
    (hfs : ∀ p ∈ fs, p.1.WF ∧ 1 ≤ p.2) (hcl : 1 ≤ closing)
    (chunks : List (List Nat)) (hch : chunks.flatten = pre ++ wire true [] fs closing) :
    ∃ junk, (readAll cfg r chunks).2.flatten = junk ++ fs.tail.map (fun p => expectedFrame p.1) := by
  rw [hr.frames_eq_run chunks, hch]
  exact resync_stuffing_from cfg hst r.core hr.coreInv pre hpre fs closing hfs hcl

/-! ### no stuffing: the sharp bound -/

/-- **C16 (no stuffing), sharp bound, octet machine.** Same hypotheses as `hdlc_resync_plain`; the
    frames lost before delivery resumes occupy (with their fill) at most `maxFrameLen + L` octets of
    the clean stream, `L` = the largest wire length `fill + |frame|` of a frame: a frame that
    starts more than 2047 octets plus one frame length into the clean stream is delivered.

    Why the `+ L` cannot be dropped: a garbage frame in progress swallows flags and whole frames until
    it is longer than 2047 octets; the frame in which that happens is lost with it, and when it
    happens exactly on the closing flag of a frame the reader hunts and also skips the next frame if
    only that one flag separates them — in both cases the lost frames END at most one frame length
    after octet 2047.  On 60 copies of the real 43-octet (with fill) Aidon frame behind a real header
    announcing 39 octets, the model (abort off) loses 48 frames = 2064 octets > 2047 and delivers the
    other 12: `k = 48` is what this theorem allows (48·43 ≤ 2047 + 43 < 49·43), see the instance at
    the end of the file. -/
theorem hdlc_resync_plain_tight (cfg : Cfg) (hst : cfg.stuffing = false) (pre : List Nat)
    (hpre : Octets pre) (fs : List (FrameDesc × Nat)) (closing L : Nat)
    (hfs : ∀ p ∈ fs, p.1.WF ∧ 1 ≤ p.2 ∧ flag ∉ p.1.encode ∧
      (cfg.abort = true → p.1.encode.getLast? ≠ some esc) ∧ p.2 + p.1.encode.length ≤ L)
    (hcl : 1 ≤ closing) :
    ∃ junk k, (run cfg Core.init (pre ++ wire false [] fs closing)).2 =
        junk ++ (fs.drop k).map (fun p => expectedFrame p.1) ∧
      ((fs.take k).map (fun p => p.2 + p.1.encode.length)).sum ≤ maxFrameLen + L :=
  resync_plain_from cfg hst Core.init CoreInv_init pre hpre fs closing L hfs hcl

/-- **C16 (no stuffing), through any splitting into `read()` calls** — the chunked form that was
    missing, with the sharp bound. -/
theorem hdlc_resync_plain_chunked (cfg : Cfg) (hst : cfg.stuffing = false) (pre : List Nat)
    (hpre : Octets pre) (fs : List (FrameDesc × Nat)) (closing L : Nat)
    (hfs : ∀ p ∈ fs, p.1.WF ∧ 1 ≤ p.2 ∧ flag ∉ p.1.encode ∧
      (cfg.abort = true → p.1.encode.getLast? ≠ some esc) ∧ p.2 + p.1.encode.length ≤ L)
    (hcl : 1 ≤ closing)
    (chunks : List (List Nat)) (hch : chunks.flatten = pre ++ wire false [] fs closing) :
    ∃ junk k, (readAll cfg Reader.init chunks).2.flatten =
        junk ++ (fs.drop k).map (fun p => expectedFrame p.1) ∧
      ((fs.take k).map (fun p => p.2 + p.1.encode.length)).sum ≤ maxFrameLen + L := by
  rw [readAll_init, hch]
  exact hdlc_resync_plain_tight cfg hst pre hpre fs closing L hfs hcl

/-- **C16 (no stuffing), for `read()` from any reachable reader**, sharp bound. -/
theorem hdlc_resync_plain_read (cfg : Cfg) (hst : cfg.stuffing = false)
    (r : Reader) (hr : ReachableOct cfg r) (pre : List Nat)
    (hpre : Octets pre) (fs : List (FrameDesc × Nat)) (closing L : Nat)
    (hfs : ∀ p ∈ fs, p.1.WF ∧ 1 ≤ p.2 ∧ flag ∉ p.1.encode ∧
      (cfg.abort = true → p.1.encode.getLast? ≠ some esc) ∧ p.2 + p.1.encode.length ≤ L)
    (hcl : 1 ≤ closing)
    (chunks : List (List Nat)) (hch : chunks.flatten = pre ++ wire false [] fs closing) :
    ∃ junk k, (readAll cfg r chunks).2.flatten =
        junk ++ (fs.drop k).map (fun p => expectedFrame p.1) ∧
      ((fs.take k).map (fun p => p.2 + p.1.encode.length)).sum ≤ maxFrameLen + L := by
  rw [hr.frames_eq_run chunks, hch]
  exact resync_plain_from cfg hst r.core hr.coreInv pre hpre fs closing L hfs hcl

/-! ### no stuffing, abort detection on, frames that end in 0x7D -/

/-- **C16 (no stuffing) without the exception for frames ending in 0x7D.**  For flag-free well-formed
    frames, whatever their last octet and whether abort detection is on or off: there is a point at
    most `maxFrameLen + L` octets into the clean stream from which on the frames delivered are
    exactly `survivors cfg false` of the remaining frames — every frame, except (abort detection on)
    a frame whose last octet is 0x7D, which the reader takes for an abort sequence, and the frame
    directly behind such a frame when a single flag separates them (the reader is then hunting and
    that flag is the one it was waiting for).  See `survivors_all`, `survivors_cons_ok`,
    `survivors_cons_cons_ok`, `survivors_mem` for what `survivors` keeps. -/
theorem hdlc_resync_plain_survivors_read (cfg : Cfg) (hst : cfg.stuffing = false)
    (r : Reader) (hr : ReachableOct cfg r) (pre : List Nat)
    (hpre : Octets pre) (fs : List (FrameDesc × Nat)) (closing L : Nat)
    (hfs : ∀ p ∈ fs, p.1.WF ∧ 1 ≤ p.2 ∧ flag ∉ p.1.encode ∧ p.2 + p.1.encode.length ≤ L)
    (hcl : 1 ≤ closing)
    (chunks : List (List Nat)) (hch : chunks.flatten = pre ++ wire false [] fs closing) :
    ∃ junk k, (readAll cfg r chunks).2.flatten =
        junk ++ (survivors cfg false (fs.drop k)).map expectedFrame ∧
      ((fs.take k).map (fun p => p.2 + p.1.encode.length)).sum ≤ maxFrameLen + L := by
  rw [hr.frames_eq_run chunks, hch]
  exact resync_plain_survivors_from cfg hst r.core hr.coreInv pre hpre fs closing L hfs hcl

/-- when no frame ends like an abort sequence (always the case with abort detection off) the
    survivors are all frames -/
theorem survivors_no_abort (cfg : Cfg) (fs : List (FrameDesc × Nat))
    (h : ∀ p ∈ fs, cfg.abort = true → p.1.encode.getLast? ≠ some esc) :
    survivors cfg false fs = fs.map (·.1) :=
  survivors_all cfg fs (fun p hp ha => h p hp ha.1 ha.2)

/-- **readable consequence**: past the resynchronisation point every frame that does not end in 0x7D
    and whose predecessor in the stream does not end in 0x7D either is among the frames `read()`
    returns (no hypothesis on the other frames). -/
theorem hdlc_resync_plain_abort_delivered (cfg : Cfg) (hst : cfg.stuffing = false)
    (r : Reader) (hr : ReachableOct cfg r) (pre : List Nat)
    (hpre : Octets pre) (fs : List (FrameDesc × Nat)) (closing L : Nat)
    (hfs : ∀ p ∈ fs, p.1.WF ∧ 1 ≤ p.2 ∧ flag ∉ p.1.encode ∧ p.2 + p.1.encode.length ≤ L)
    (hcl : 1 ≤ closing)
    (chunks : List (List Nat)) (hch : chunks.flatten = pre ++ wire false [] fs closing) :
    ∃ k, ((fs.take k).map (fun p => p.2 + p.1.encode.length)).sum ≤ maxFrameLen + L ∧
      ∀ i (hi : i + 1 < fs.length), k ≤ i →
        fs[i].1.encode.getLast? ≠ some esc → fs[i + 1].1.encode.getLast? ≠ some esc →
        expectedFrame fs[i + 1].1 ∈ (readAll cfg r chunks).2.flatten := by
  obtain ⟨junk, k, e, hb⟩ :=
    hdlc_resync_plain_survivors_read cfg hst r hr pre hpre fs closing L hfs hcl chunks hch
  refine ⟨k, hb, ?_⟩
  intro i hi hki h0 h1
  rw [e]
  apply List.mem_append_right
  apply List.mem_map_of_mem
  obtain ⟨j, rfl⟩ : ∃ j, i = k + j := ⟨i - k, by omega⟩
  have hj : j + 1 < (fs.drop k).length := by rw [List.length_drop]; omega
  have e0 : (fs.drop k)[j] = fs[k + j] := by rw [List.getElem_drop]
  have e1 : (fs.drop k)[j + 1] = fs[k + j + 1] := by rw [List.getElem_drop]; rfl
  have := survivors_mem cfg false (fs.drop k) j hj
    (by rw [e0]; exact fun ha => h0 ha.2) (by rw [e1]; exact fun ha => h1 ha.2)
  rwa [e1] at this

/-- **the abort-sequence rule on a clean stream** (no stuffing): a new reader given flag-free noise
    and flag-free well-formed frames separated by flags returns exactly the `survivors`.  With abort
    detection on this is NOT all frames as soon as a frame ends in 0x7D — no resynchronisation is
    involved, the loss is the documented abort rule applied to a clean frame. -/
theorem hdlc_plain_clean_survivors (cfg : Cfg) (hst : cfg.stuffing = false)
    (noise : List Nat) (fs : List (FrameDesc × Nat)) (closing : Nat)
    (hnoise : flag ∉ noise) (hfs : ∀ p ∈ fs, p.1.WF ∧ 1 ≤ p.2 ∧ flag ∉ p.1.encode) (hcl : 1 ≤ closing)
    (chunks : List (List Nat)) (hch : chunks.flatten = wire false noise fs closing) :
    (readAll cfg Reader.init chunks).2.flatten = (survivors cfg false fs).map expectedFrame := by
  rw [readAll_init, hch]
  exact clean_plain_run_survivors cfg hst Core.init rfl noise fs closing hnoise hfs hcl

/-- **inherent loss**: abort detection on, no stuffing, clean stream, new reader — a well-formed
    flag-free frame `d` whose last octet is 0x7D is not delivered, and neither is the frame `d'` behind
    it when one flag separates them; the frames after these two come out as if the stream began there. -/
theorem hdlc_abort_frame_and_successor_lost (cfg : Cfg) (hst : cfg.stuffing = false)
    (hab : cfg.abort = true) (noise : List Nat) (d d' : FrameDesc) (n : Nat)
    (rest : List (FrameDesc × Nat)) (closing : Nat)
    (hesc : d.encode.getLast? = some esc)
    (hnoise : flag ∉ noise)
    (hfs : ∀ p ∈ (d, n) :: (d', 1) :: rest, p.1.WF ∧ 1 ≤ p.2 ∧ flag ∉ p.1.encode) (hcl : 1 ≤ closing)
    (chunks : List (List Nat))
    (hch : chunks.flatten = wire false noise ((d, n) :: (d', 1) :: rest) closing) :
    (readAll cfg Reader.init chunks).2.flatten = (survivors cfg false rest).map expectedFrame := by
  rw [hdlc_plain_clean_survivors cfg hst noise _ closing hnoise hfs hcl chunks hch]
  have ha : abortsAtEnd cfg d := ⟨hab, hesc⟩
  simp [survivors, ha]

/-! ### non-vacuity, on real frames

  `fAidon`: tests/test_hdlc.py FRAME_WITH_ESCAPE_CHARACTER_IN_INFO (42 octets, active power 1661 W =
  `00 00 06 7D`, no flag octet).  `fAidonEsc`: the same push with active power 16442 W (`00 00 40 3A`):
  its FCS is `42 7D`, so the frame ends in the escape octet.  `fKaifa`, `fEmpty` as in Props/C02Read. -/
namespace ReadWitness
set_option linter.defProp false
set_option maxRecDepth 100000

def aidon (a b : Nat) : FrameDesc :=
  { fmt := 10, seg := false, dst := [0x41], src := [0x08, 0x83], ctl := 0x13,
    info := [0xE6, 0xE7, 0x00, 0x0F, 0x40, 0x00, 0x00, 0x00, 0x00, 0x01, 0x01, 0x02, 0x03, 0x09, 0x06, 0x01, 0x00,
             0x01, 0x07, 0x00, 0xFF, 0x06, 0x00, 0x00, a, b, 0x02, 0x02, 0x0F, 0x00, 0x16, 0x1B] }
def fAidon : FrameDesc := aidon 0x06 0x7D
def fAidonEsc : FrameDesc := aidon 0x40 0x3A
def fKaifa : FrameDesc :=
  { fmt := 10, seg := false, dst := [0x01], src := [0x02, 0x01], ctl := 0x10,
    info := [0xE6, 0xE7, 0x00, 0x0F, 0x40, 0x00, 0x00, 0x00, 0x09, 0x0C, 0x07, 0xE4, 0x02, 0x0F, 0x06, 0x01, 0x19,
             0x22, 0xFF, 0x80, 0x00, 0x00, 0x02, 0x01, 0x06, 0x00, 0x00, 0x15, 0x7E] }
def fEmpty : FrameDesc := { fmt := 10, seg := false, dst := [0x01], src := [0x02, 0x01], ctl := 0x10, info := [] }

example : fAidon.encode = [0xA0, 0x2A, 0x41, 0x08, 0x83, 0x13, 0x04, 0x13] ++ fAidon.info ++ [0x1C, 0x05] ∧
    fAidonEsc.encode = [0xA0, 0x2A, 0x41, 0x08, 0x83, 0x13, 0x04, 0x13] ++ fAidonEsc.info ++ [0x42, 0x7D] ∧
    fAidonEsc.WF ∧ flag ∉ fAidonEsc.encode ∧ fAidonEsc.encode.getLast? = some esc := by
  decide +kernel

/-- every octet in a `read()` call of its own -/
def bytewise (w : List Nat) : List (List Nat) := w.map ([·])
def bytewise_flatten (w : List Nat) : (bytewise w).flatten = w := by
  induction w with
  | nil => rfl
  | cons a t ih => simpa [bytewise] using ih

/-- pieces of 64 octets (the last one shorter), then an empty call -/
def chunks64 : Nat → List Nat → List (List Nat)
  | 0, w => [w, []]
  | n + 1, w => w.take 64 :: chunks64 n (w.drop 64)
def chunks64_flatten (n : Nat) (w : List Nat) : (chunks64 n w).flatten = w := by
  induction n generalizing w with
  | zero => simp [chunks64]
  | succ n ih => simp [chunks64, ih]

/-- a reachable reader in the middle of a garbage frame: after noise it was given the real Kaifa
    header (HCS good, announcing 39 octets) and three more octets, in two calls -/
def hist : List (List Nat) := [[0x00, 0xFF, 0x7E, 0xA0, 0x27, 0x01], [0x02, 0x01, 0x10, 0x5A, 0x87, 0xE6, 0x00, 0x11]]
def rd (cfg : Cfg) : Reader := (readAll cfg Reader.init hist).1
def rd_reach (cfg : Cfg) : ReachableOct cfg (rd cfg) := ⟨hist, by decide, rfl⟩

example (cfg : Cfg) : (rd cfg).core.frame.isSome = true := by
  show (readAll cfg Reader.init hist).1.core.frame.isSome = true
  rw [readAll_core cfg Reader.init hist Reader.init_buf]
  obtain ⟨s, a⟩ := cfg
  cases s <;> cases a <;> decide +kernel

/-! #### `hdlc_resync_stuffing_read` -/

def framesS : List (FrameDesc × Nat) := [(fKaifa, 1), (fAidon, 3), (fEmpty, 2)]
/-- more garbage: an aborted frame start and one ending in a lone escape octet -/
def preS : List Nat := [0x7D, 0x7E, 0x7E, 0xA0, 0x27, 0x01, 0x7D]

example (abort : Bool) :
    ∃ junk, (readAll ⟨true, abort⟩ (rd ⟨true, abort⟩) (bytewise (preS ++ wire true [] framesS 2))).2.flatten =
      junk ++ [expectedFrame fAidon, expectedFrame fEmpty] :=
  hdlc_resync_stuffing_read ⟨true, abort⟩ rfl _ (rd_reach _) preS (by decide) framesS 2 (by decide)
    (by decide) _ (bytewise_flatten _)

/-! #### `hdlc_resync_plain_tight`, `_chunked`, `_read`: sixty copies of the real Aidon frame with one
    flag of fill (43 octets each, 2 580 in all) behind the garbage frame in progress -/

def many : List (FrameDesc × Nat) := List.replicate 60 (fAidon, 1)

def sum_rep (n a : Nat) : (List.replicate n a).sum = n * a := by
  induction n with
  | zero => simp
  | succ n ih => rw [List.replicate_succ, List.sum_cons, ih, Nat.succ_mul]; omega

def hfsP (abort : Bool) : ∀ p ∈ many, p.1.WF ∧ 1 ≤ p.2 ∧ flag ∉ p.1.encode ∧
    ((Cfg.mk false abort).abort = true → p.1.encode.getLast? ≠ some esc) ∧ p.2 + p.1.encode.length ≤ 43 := by
  intro p hp
  rw [List.eq_of_mem_replicate hp]
  refine ⟨by decide, by decide, by decide +kernel, fun _ => by decide +kernel, by decide +kernel⟩

/-- from the bound `maxFrameLen + 43`: at most 48 of the 60 frames are lost -/
def atLeast12 (k : Nat)
    (hk : ((many.take k).map (fun p => p.2 + p.1.encode.length)).sum ≤ maxFrameLen + 43) : 12 ≤ 60 - k := by
  have he : (1 + fAidon.encode.length) = 43 := by decide +kernel
  have hs : ((many.take k).map (fun p => p.2 + p.1.encode.length)).sum = min k 60 * 43 := by
    simp only [many, List.take_replicate, List.map_replicate, he]
    exact sum_rep _ _
  rw [hs] at hk
  have : maxFrameLen = 2047 := by decide
  omega

def preP : List Nat := [0x7E, 0xA0, 0x27, 0x01, 0x02, 0x01, 0x10, 0x5A, 0x87, 0xE6, 0x00, 0x11, 0x7D]

/-- octet machine -/
example (abort : Bool) : ∃ junk k, (run ⟨false, abort⟩ Core.init (preP ++ wire false [] many 1)).2 =
      junk ++ (List.replicate (60 - k) (expectedFrame fAidon)) ∧ 12 ≤ 60 - k := by
  obtain ⟨junk, k, h, hk⟩ :=
    hdlc_resync_plain_tight ⟨false, abort⟩ rfl preP (by decide) many 1 43 (hfsP abort) (by decide)
  exact ⟨junk, k, by rw [h]; simp only [many, List.drop_replicate, List.map_replicate], atLeast12 k hk⟩

/-- new reader, 64-octet pieces and an empty call -/
example (abort : Bool) :
    ∃ junk k, (readAll ⟨false, abort⟩ Reader.init (chunks64 50 (preP ++ wire false [] many 1))).2.flatten =
      junk ++ (List.replicate (60 - k) (expectedFrame fAidon)) ∧ 12 ≤ 60 - k := by
  obtain ⟨junk, k, h, hk⟩ :=
    hdlc_resync_plain_chunked ⟨false, abort⟩ rfl preP (by decide) many 1 43 (hfsP abort) (by decide)
      _ (chunks64_flatten _ _)
  exact ⟨junk, k, by rw [h]; simp only [many, List.drop_replicate, List.map_replicate], atLeast12 k hk⟩

/-- the reachable mid-frame reader, then a lone escape octet, then the clean stream, octet by octet -/
example (abort : Bool) :
    ∃ junk k, (readAll ⟨false, abort⟩ (rd ⟨false, abort⟩) (bytewise ([0x7D] ++ wire false [] many 1))).2.flatten =
      junk ++ (List.replicate (60 - k) (expectedFrame fAidon)) ∧ 12 ≤ 60 - k := by
  obtain ⟨junk, k, h, hk⟩ :=
    hdlc_resync_plain_read ⟨false, abort⟩ rfl _ (rd_reach _) [0x7D] (by decide) many 1 43 (hfsP abort)
      (by decide) _ (bytewise_flatten _)
  exact ⟨junk, k, by rw [h]; simp only [many, List.drop_replicate, List.map_replicate], atLeast12 k hk⟩

/-- **the bound is attained** (abort detection off): the model delivers exactly 12 of the 60 frames —
    48 frames = 2064 octets > 2047 are lost, one more than `maxFrameLen` alone would allow and exactly
    what `maxFrameLen + L` allows (49·43 = 2107 > 2090). -/
def delivers12 : (run ⟨false, false⟩ Core.init (preP ++ wire false [] many 1)).2 =
    List.replicate 12 (expectedFrame fAidon) := by
  decide +kernel

/-- hence the statement with `maxFrameLen` in place of `maxFrameLen + L` is FALSE on this instance: the
    frame-length term is needed -/
example : ¬ ∃ junk k, (run ⟨false, false⟩ Core.init (preP ++ wire false [] many 1)).2 =
      junk ++ (many.drop k).map (fun p => expectedFrame p.1) ∧
    ((many.take k).map (fun p => p.2 + p.1.encode.length)).sum ≤ maxFrameLen := by
  rintro ⟨junk, k, h, hk⟩
  rw [delivers12] at h
  have hl := congrArg List.length h
  simp only [many, List.length_replicate, List.length_append, List.length_map, List.length_drop] at hl
  have he : (1 + fAidon.encode.length) = 43 := by decide +kernel
  have hs : ((many.take k).map (fun p => p.2 + p.1.encode.length)).sum = min k 60 * 43 := by
    simp only [many, List.take_replicate, List.map_replicate, he]
    exact sum_rep _ _
  rw [hs] at hk
  have : maxFrameLen = 2047 := by decide
  omega

/-! #### frames ending in 0x7D, abort detection on -/

/-- a clean stream, a new reader, abort detection ON: of three real frames the second ends in 0x7D; only
    the first is delivered — the second is taken for an abort sequence, the third is skipped while
    hunting.  Checked directly on the model, then obtained from the theorems. -/
def three : List (FrameDesc × Nat) := [(fAidon, 1), (fAidonEsc, 1), (fAidon, 1)]

example : (run ⟨false, true⟩ Core.init (wire false [] three 1)).2 = [expectedFrame fAidon] := by
  decide +kernel

/-- with abort detection OFF the same stream is delivered completely -/
example : (run ⟨false, false⟩ Core.init (wire false [] three 1)).2 =
    [expectedFrame fAidon, expectedFrame fAidonEsc, expectedFrame fAidon] := by
  decide +kernel

def hthree : ∀ p ∈ three, p.1.WF ∧ 1 ≤ p.2 ∧ flag ∉ p.1.encode := by decide +kernel

/-- `hdlc_plain_clean_survivors`, octet by octet -/
example : (readAll ⟨false, true⟩ Reader.init (bytewise (wire false [0xC3] three 1))).2.flatten =
    [expectedFrame fAidon] := by
  rw [hdlc_plain_clean_survivors ⟨false, true⟩ rfl [0xC3] three 1 (by decide) hthree (by decide) _
    (bytewise_flatten _)]
  decide +kernel

/-- `hdlc_abort_frame_and_successor_lost`: the frame ending in 0x7D first -/
example : (readAll ⟨false, true⟩ Reader.init
      (bytewise (wire false [] [(fAidonEsc, 2), (fAidon, 1), (fEmpty, 1), (fAidon, 1)] 1))).2.flatten =
    [expectedFrame fEmpty, expectedFrame fAidon] := by
  rw [hdlc_abort_frame_and_successor_lost ⟨false, true⟩ rfl rfl [] fAidonEsc fAidon 2
    [(fEmpty, 1), (fAidon, 1)] 1 (by decide +kernel) (by decide) (by decide +kernel) (by decide) _
    (bytewise_flatten _)]
  decide +kernel

/-- `hdlc_resync_plain_survivors_read` / `hdlc_resync_plain_abort_delivered`: behind the mid-frame reader
    and a lone escape octet, a stream with two frames ending in 0x7D; all hypotheses hold (there is
    none on the last octets) -/
def mixed : List (FrameDesc × Nat) :=
  [(fAidon, 1), (fAidonEsc, 1), (fAidon, 1), (fAidon, 2), (fAidonEsc, 2), (fAidon, 2), (fAidon, 1)]

def hmixed : ∀ p ∈ mixed, p.1.WF ∧ 1 ≤ p.2 ∧ flag ∉ p.1.encode ∧ p.2 + p.1.encode.length ≤ 44 := by
  decide +kernel

example : ∃ junk k, (readAll ⟨false, true⟩ (rd ⟨false, true⟩) (bytewise ([0x7D] ++ wire false [] mixed 1))).2.flatten =
      junk ++ (survivors ⟨false, true⟩ false (mixed.drop k)).map expectedFrame ∧
    ((mixed.take k).map (fun p => p.2 + p.1.encode.length)).sum ≤ maxFrameLen + 44 :=
  hdlc_resync_plain_survivors_read ⟨false, true⟩ rfl _ (rd_reach _) [0x7D] (by decide) mixed 1 44 hmixed
    (by decide) _ (bytewise_flatten _)

/-- what `survivors` is on this stream: the frames ending in 0x7D are dropped, and the one directly behind
    the first of them (one flag); the one behind the second (two flags) is kept -/
example : survivors ⟨false, true⟩ false mixed = [fAidon, fAidon, fAidon, fAidon] ∧
    survivors ⟨false, false⟩ false mixed = mixed.map (·.1) := by
  decide +kernel

/-- the last frame (index 6) follows a frame not ending in 0x7D: if the resynchronisation point is at or
    before index 5 it is returned -/
example : ∃ k, ∀ (_ : k ≤ 5), expectedFrame fAidon ∈
    (readAll ⟨false, true⟩ (rd ⟨false, true⟩) (bytewise ([0x7D] ++ wire false [] mixed 1))).2.flatten := by
  obtain ⟨k, _, h⟩ := hdlc_resync_plain_abort_delivered ⟨false, true⟩ rfl _ (rd_reach _) [0x7D] (by decide)
    mixed 1 44 hmixed (by decide) _ (bytewise_flatten _)
  exact ⟨k, fun hk => h 5 (by decide) hk (by decide +kernel) (by decide +kernel)⟩

/-- `survivors_no_abort` -/
example : survivors ⟨false, true⟩ false many = many.map (·.1) :=
  survivors_no_abort _ many (fun p hp => (hfsP true p hp).2.2.2.1)

end ReadWitness

end Amshan.C16
