import Amshan.Props.C06
/-
  C06 — non-vacuity witnesses.  Stream: line noise, a frame start that is cut off by a new flag (truncated
  frame), then the REAL frame FRAME_WITH_FLAG_SEQUENCE_CHARACTER_IN_INFO of tests/test_hdlc.py and the real
  stuffed frame STUFFED_FRAME_SHORT_INFO (escape octets 7D 5E 7D 5D 7D 23), each between flags.  The reader the
  theorems start from is NOT the initial one: it has already consumed part of the stream and stopped in
  the middle of a frame, right after an escape octet.
-/
namespace Amshan.C06.Witness
set_option linter.defProp false
open Amshan.Gen Amshan.Hdlc

def kaifa : List Nat :=
  [0xA0, 0x27, 0x01, 0x02, 0x01, 0x10, 0x5A, 0x87, 0xE6, 0xE7, 0x00, 0x0F, 0x40, 0x00, 0x00, 0x00, 0x09, 0x0C,
   0x07, 0xE4, 0x02, 0x0F, 0x06, 0x01, 0x19, 0x22, 0xFF, 0x80, 0x00, 0x00, 0x02, 0x01, 0x06, 0x00, 0x00, 0x15, 0x7E,
   0xEA, 0x5E]

def stuffed : List Nat := [0xA0, 0x0D, 0x01, 0x02, 0x01, 0x10, 0x63, 0xAB, 0x7D, 0x5E, 0x7D, 0x5D, 0x7D, 0x23, 0x93, 0x2D]

/-- what the reader has seen before: noise, a truncated frame, and the stuffed frame up to (and including)
    its first escape octet -/
def history : List (List Nat) := [[0xC3, 0x7E, 0xA0, 0x27], [0x01, 0x7E, 0x7E], stuffed.take 9]

/-- the rest of the stream -/
def rest : List Nat := stuffed.drop 9 ++ [0x7E, 0x7E] ++ kaifa ++ [0x7E]

def cfgS : Cfg := ⟨true, true⟩     -- octet stuffing on, abort detection on
def cfgP : Cfg := ⟨false, false⟩   -- both off

def rS : Reader := (readAll cfgS Reader.init history).1
def rP : Reader := (readAll cfgP Reader.init history).1

/-- hypothesis `Reachable cfg r` -/
def reachS : Reachable cfgS rS := ⟨history, rfl⟩
def reachP : Reachable cfgP rP := ⟨history, rfl⟩

/-! ### `reachable_buf_empty`, `read_eq_run`, `readAll_eq_run` : hypothesis `r.buf = Buf.empty` -/

def emptyS : rS.buf = Buf.empty := reachable_buf_empty cfgS rS reachS

/-- the reachable reader really is in the middle of a frame with a pending escape (the state that must
    survive the call boundary) -/
example : rS.core = (run cfgS Core.init history.flatten).1 ∧
    (run cfgS Core.init history.flatten).1.unescapeNext = true ∧
    ((run cfgS Core.init history.flatten).1.frame.map (·.len)) = some 8 := by
  have h := (readAll_eq_run cfgS Reader.init history rfl).2
  refine ⟨?_, by decide +kernel, by decide +kernel⟩
  show (readAll cfgS Reader.init history).1.core = _
  rw [h]; rfl

/-- one more `read()` = the per-octet machine over the chunk -/
example : read cfgS rS rest = ({ core := (run cfgS rS.core rest).1, buf := Buf.empty }, (run cfgS rS.core rest).2) :=
  read_eq_run cfgS rS rest emptyS

/-! ### `chunk_independent` : `Reachable cfg r`, two splittings of the same stream -/

def cut1 : List (List Nat) := [rest]
def cut2 : List (List Nat) := rest.map ([·])
/-- cuts between escape and escaped octet, between the two flags, inside the header, before the last FCS octet -/
def cut3 : List (List Nat) := [rest.take 2, (rest.drop 2).take 6, ((rest.drop 2).drop 6).take 3, [],
  (((rest.drop 2).drop 6).drop 3).take 37, (((rest.drop 2).drop 6).drop 3).drop 37]

def flat2 : cut2.flatten = rest := by decide
def flat3 : cut3.flatten = rest := by decide

example : (readAll cfgS rS cut1).2.flatten = (readAll cfgS rS cut3).2.flatten ∧
    (readAll cfgS rS cut1).1 = (readAll cfgS rS cut3).1 ∧
    (readAll cfgS rS cut2).2.flatten = (readAll cfgS rS cut3).2.flatten :=
  ⟨(chunk_independent cfgS rS reachS cut1 cut3 (by rw [flat3]; rfl)).1,
   (chunk_independent cfgS rS reachS cut1 cut3 (by rw [flat3]; rfl)).2,
   (chunk_independent cfgS rS reachS cut2 cut3 (by rw [flat2, flat3])).1⟩

example : (readAll cfgP rP cut2).2.flatten = (readAll cfgP rP cut3).2.flatten :=
  (chunk_independent cfgP rP reachP cut2 cut3 (by rw [flat2, flat3])).1

/-- and the common result is not the empty list: with stuffing both real frames come out — the stuffed one
    valid with its un-stuffed payload 7E 7D 03, the Kaifa one cut at the flag inside its information field
    (36 of 39 octets) and therefore invalid.  (Without stuffing the 16 raw octets of the stuffed frame
    announce 13: the frame in progress absorbs the flags and everything after it, nothing is returned.) -/
example : ((readAll cfgS rS cut3).2.flatten.map (fun f => (f.isValid, f.payload, f.len))) =
      [(true, some [0x7E, 0x7D, 0x03], 13), (false, some (kaifa.drop 8 |>.take 26), 36)] ∧
    (readAll cfgP rP cut3).2.flatten = [] := by
  rw [(readAll_eq_run cfgS rS cut3 emptyS).1, (readAll_eq_run cfgP rP cut3 (reachable_buf_empty cfgP rP reachP)).1,
    flat3]
  have hS : rS.core = (run cfgS Core.init history.flatten).1 := by
    show (readAll cfgS Reader.init history).1.core = _
    rw [(readAll_eq_run cfgS Reader.init history rfl).2]; rfl
  have hP : rP.core = (run cfgP Core.init history.flatten).1 := by
    show (readAll cfgP Reader.init history).1.core = _
    rw [(readAll_eq_run cfgP Reader.init history rfl).2]; rfl
  rw [hS, hP]
  decide +kernel

end Amshan.C06.Witness
