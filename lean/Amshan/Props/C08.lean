import Amshan.Lemmas.KaifaRT
/-
  C08 — Kaifa lists decode to the transmitted values with the documented scaling.
  `hF` is the floating-point fact `round(v·10^-s, s) = correctly rounded v/10^s` for the model's
  exact binary64 arithmetic (Props/FloatBound.lean proves it; Props/C08Final.lean instantiates).
-/
namespace Amshan.C08
open Amshan.Gen Amshan.Cosem Amshan.ListSpec

/-- `round(v * 10**-s, s)` equals the double nearest to v / 10^s, for 32-bit registers -/
def ScaledCorrect : Prop :=
  ∀ (v : Nat) (s : Nat), v < 4294967296 → (s = 1 ∨ s = 2 ∨ s = 3) →
    Flt.roundDigits (Flt.mul (Flt.ofInt v) (Flt.tenPowNeg s)) s = Flt.ofRat false v (10 ^ s)

/-- the positional tables and the scaling table of the source are the documented ones (re-checked
    against the regenerated tables) -/
theorem tables_documented :
    (∀ n names, kaifaLayout n = some names → kaifaFieldLists.find? (fun l => l.length == n) = some names) ∧
    kaifaScaling = [("current_l1", -3), ("current_l2", -3), ("current_l3", -3),
                    ("voltage_l1", -1), ("voltage_l2", -1), ("voltage_l3", -1)] := by
  exact ⟨KaifaRT.layout_find, by decide⟩

/-- **C08 (positional lists, bare body).** -/
theorem kaifa_values_body (hF : ScaledCorrect) (vs : List KVal) (h : KaifaValuesWF vs) (trail : List Nat) :
    Kaifa.decodeBody (encKaifaValues vs ++ trail) = .dict (kaifaValuesExpected none vs) := by
  exact KaifaRT.decodeBody_values hF vs h trail

/-- **C08 (positional lists, frame).** The meter clock is the APDU date-time unless the list carries
    its own clock element, which then wins (`kaifaValuesExpected` sets the APDU clock first). -/
theorem kaifa_values_frame (hF : ScaledCorrect) (hd : Header) (hh : hd.WF) (hc : hd.clock ≠ .null)
    (vs : List KVal) (h : KaifaValuesWF vs) (trail : List Nat) :
    Kaifa.decodeFrame (encHeader hd ++ encKaifaValues vs ++ trail) =
      .dict (kaifaValuesExpected (some (match hd.clock with
        | .tagged d => expectedDT d | .untagged d => expectedDT d | .null => default)) vs) := by
  exact KaifaRT.decodeFrame_values hF hd hh hc vs h trail

/-- registers (not texts or clocks) stand under the scaled names -/
def ScaledAreRegisters (es : List (List Nat × KVal)) : Prop :=
  ∀ p ∈ es, (kaifaScaling.lookup (obisName p.1)).isSome → ∃ v, p.2 = .u32 v

/-- **C08 (OBIS-tagged list, body and frame).** -/
theorem kaifa_obis_body (hF : ScaledCorrect) (es : List (List Nat × KVal))
    (h : ∀ p ∈ es, Obis6 p.1 ∧ p.2.WF) (hs : ScaledAreRegisters es) (hl : es.length ≤ 127) :
    Kaifa.decodeBody (encKaifaObis es) = .dict (kaifaObisExpected es) := by
  have _ := hl
  exact KaifaRT.decodeBody_obis hF es h hs

theorem kaifa_obis_frame (hF : ScaledCorrect) (hd : Header) (hh : hd.WF) (es : List (List Nat × KVal))
    (h : ∀ p ∈ es, Obis6 p.1 ∧ p.2.WF) (hs : ScaledAreRegisters es) (hl : es.length ≤ 127) :
    Kaifa.decodeFrame (encHeader hd ++ encKaifaObis es) = .dict (kaifaObisExpected es) := by
  have _ := hl
  exact KaifaRT.decodeFrame_obis hF hd hh es h hs

end Amshan.C08
