import Amshan.Lemmas.Proto
/-
  C13 — the protocols forward exactly the selected reader's messages, payloads only if valid.
  Generic in the candidate readers (any state, any `read`): instantiating with the HDLC and P1 reader
  models gives the statement for the real candidate lists.
-/
namespace Amshan.C13
open Amshan.Proto Amshan.ProtoSpec

/-- **C13 (message protocol).** For every chunk sequence and candidate list the queue holds exactly
    the messages (valid or not) of the selected reader from the chunk in which it first produced a
    valid message on, in order; the selected reader is the first candidate (list order) in the
    earliest such chunk. -/
theorem message_queue_exact (cands : List Rd) (chunks : List (List Nat)) :
    (runAll Kind.message (State.init cands) chunks).2 = (forwarded cands chunks).map Item.msg := by
  rw [← flatMap_received_message]
  exact (runAll_unselected Kind.message cands chunks).1

/-- **C13 (payload protocol).** …exactly the non-empty payloads of the messages the selected reader
    reports valid, in order, without loss or duplication; nothing from an invalid message or from a
    non-selected reader. -/
theorem payload_queue_exact (cands : List Rd) (chunks : List (List Nat)) :
    (runAll Kind.payload (State.init cands) chunks).2 =
      ((forwarded cands chunks).filterMap goodPayload).map Item.payload := by
  rw [← flatMap_received_payload]
  exact (runAll_unselected Kind.payload cands chunks).1

/-- which reader ends up selected -/
theorem selected_is_first_valid (k : Kind) (cands : List Rd) (chunks : List (List Nat)) :
    ((runAll k (State.init cands) chunks).1.selected.map (·.1)) = (selection cands chunks).map (·.2) :=
  (runAll_unselected k cands chunks).2

/-- with a single candidate nothing is lost after its first valid message, and nothing before it
    that is valid exists -/
theorem single_candidate (r : Rd) (chunks : List (List Nat))
    (h : ∀ m ∈ (r.feedAll chunks).flatten, m.valid = true) :
    (runAll Kind.payload (State.init [r]) chunks).2 =
      (((r.feedAll chunks).flatten).filterMap goodPayload).map Item.payload := by
  rw [payload_queue_exact, forwarded_single r chunks h]

end Amshan.C13
