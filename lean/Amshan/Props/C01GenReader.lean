import Amshan.Lemmas.GenCodeHdlcReader
/-
  C01 (tie by translation) — the state machine core of `HdlcFrameReader`: `_append_to_frame`, `_start_frame`,
  `_goto_hunt_mode`, `_handle_flag_sequence` and `_read_next` (for the octet popped from the buffer), mechanically
  translated from the source as state-passing functions (Amshan/GeneratedCodeHdlcReader.lean), equal the model's
  `appendToFrame`, `startFrame`, `gotoHunt`, `handleFlag`, `readNext`.

  `self` is the configuration `Cfg` (`_use_octet_stuffing`, `_use_abort_sequence`) and the record `Core` of the
  attributes the methods assign (`_unescape_next`, `_raw_frame_data`, `_frame`).  A translated method answers the
  new `Core`, then — where it can happen — the flag `trimmed` (`self._buffer.trim_buffer_to_flag_or_end()` was
  called: a no-op on `Core`, which the model performs in `loop` on `Act.hunt`) and Python's return value
  `frame_complete`.  Calls between the methods are calls of the generated definitions; the frame object is opaque
  (`HdlcFrame()` is `Frame.empty`; `append`, `len`, `header.header_check_sequence`, `is_expected_length` are the
  model's `Frame.append`, `Frame.len`, `Frame.hcs`, `Frame.isExpectedLength`, whose own translations are tied to
  the model in C01Gen).  `GenLemmas.pyAct trimmed frameComplete` reads what the Python did as the model's `Act`:
  `frame_complete = True` ↦ `complete`, `_goto_hunt_mode()` called ↦ `hunt`, neither ↦ `cont` (both: none).

  All equalities hold for every configuration and every state, reachable or not; `gen_appendToFrame` carries the
  fact that the method asserts (`assert self._frame is not None`).
-/
namespace Amshan.C01
open Amshan.Hdlc Amshan.GenCode

/-- `_append_to_frame(x)`, called with a frame in place (`assert self._frame is not None`) -/
theorem gen_appendToFrame (cfg : Cfg) (c : Core) (f : Frame) (x : Nat) (hf : c.frame = some f) :
    hdlcAppendToFrame cfg c x = appendToFrame cfg c f x := by
  exact GenLemmas.hdlcAppendToFrame_eq cfg c f x hf

/-- `_start_frame()` -/
theorem gen_startFrame (c : Core) : hdlcStartFrame c = startFrame c := by
  exact GenLemmas.hdlcStartFrame_eq c

/-- `_goto_hunt_mode()`: the model's `gotoHunt`, and the input buffer is trimmed to the next flag -/
theorem gen_gotoHunt (c : Core) : hdlcGotoHuntMode c = (gotoHunt c, true) := by
  exact GenLemmas.hdlcGotoHuntMode_eq c

/-- `_handle_flag_sequence()`: the state afterwards is the model's, and what the Python did (returned
    `frame_complete`, called `_goto_hunt_mode`) is the model's `Act` -/
theorem gen_handleFlag (cfg : Cfg) (c : Core) :
    (hdlcHandleFlagSequence cfg c).1 = (handleFlag cfg c).1 ∧
      GenLemmas.pyAct (hdlcHandleFlagSequence cfg c).2.1 (hdlcHandleFlagSequence cfg c).2.2 = some (handleFlag cfg c).2 := by
  rw [GenLemmas.hdlcHandleFlagSequence_eq]
  exact ⟨rfl, GenLemmas.pyAct_actFlags _⟩

/-- `_read_next()`, for the octet `x` that `self._buffer.pop()` answers -/
theorem gen_readNext (cfg : Cfg) (c : Core) (x : Nat) :
    (hdlcReadNext cfg c x).1 = (readNext cfg c x).1 ∧
      GenLemmas.pyAct (hdlcReadNext cfg c x).2.1 (hdlcReadNext cfg c x).2.2 = some (readNext cfg c x).2 := by
  rw [GenLemmas.hdlcReadNext_eq]
  exact ⟨rfl, GenLemmas.pyAct_actFlags _⟩

end Amshan.C01
