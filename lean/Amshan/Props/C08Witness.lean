import Amshan.Props.C08
import Amshan.Props.C08Final
/-
  C08 — non-vacuity witnesses on the REAL Kaifa lists of tests/test_kaifa.py: Norwegian list 1 (one register),
  list 2 (13 positional values, three-phase), list 3 (18 positional values with its own clock element) and the
  Swedish OBIS-tagged list (18 elements, clock with deviation −60 min), re-expressed with the Spec encoders,
  with the real LLC/APDU headers (tagged date-time).  The floating-point hypothesis `ScaledCorrect` is the
  theorem `C08.scaledCorrect`.
-/
namespace Amshan.C08.Witness
set_option linter.defProp false
set_option maxRecDepth 100000
open Amshan.Gen Amshan.Cosem Amshan.ListSpec

def hexVal (c : Char) : Nat :=
  if c.isDigit then c.toNat - 48 else if c.toNat ≥ 97 then c.toNat - 87 else c.toNat - 55

/-- octets of a (short) hex string as written in the test file -/
def unhex (x : String) : List Nat :=
  let rec go : List Char → List Nat
    | a :: b :: r => (hexVal a * 16 + hexVal b) :: go r
    | _ => []
  go (x.toList.filter (· != ' '))

def s (x : String) : List Nat := x.toList.map Char.toNat

instance (v : KVal) : Decidable v.WF := by cases v <;> unfold KVal.WF <;> infer_instance
instance (n : String) (v : KVal) : Decidable (kaifaPosOk n v) := by cases v <;> unfold kaifaPosOk <;> infer_instance
instance (h : Header) : Decidable h.WF := by unfold Header.WF; cases h.clock <;> infer_instance

/-- `KaifaValuesWF` from its three decidable parts -/
def mkWF (vs : List KVal) (names : List String) (h1 : kaifaLayout vs.length = some names)
    (h2 : ∀ v ∈ vs, v.WF) (h3 : ∀ i (h : i < vs.length), kaifaPosOk (names.getD i "") vs[i]) : KaifaValuesWF vs :=
  ⟨names, h1, h2, h3⟩

/-! ### the lists -/

def list1 : List KVal := [.u32 0x16DC]

def list2 : List KVal := [
  .text (s "KFM_001"), .text (s "6970631402614476"), .text (s "MA304H3E"),
  .u32 0x2611, .u32 0, .u32 0, .u32 0x1B3, .u32 0x8415, .u32 0x6DC7, .u32 0x4702, .u32 0x878, .u32 0, .u32 0x88C]

/-- 2020-01-25 (Saturday) 14:00:10, hundredths and deviation not specified -/
def clk3 : DateTimeDesc := ⟨2020, 1, 25, 6, 14, 0, 10, none, none, 0⟩

def list3 : List KVal := [
  .text (s "KFM_001"), .text (s "6970631402614476"), .text (s "MA304H3E"),
  .u32 0x1328, .u32 0, .u32 0, .u32 0x179, .u32 0x38EB, .u32 0x3D1B, .u32 0x2535, .u32 0x891, .u32 0, .u32 0x89D,
  .clock clk3, .u32 0x04BE76E8, .u32 0, .u32 0x000D922D, .u32 0x0030FEB4]

example : encKaifaValues list1 = unhex "0201 06000016dc" ∧
    encKaifaValues list2 = ["020d", "0907 4b464d5f303031", "0910 36393730363331343032363134343736",
      "0908 4d41333034483345", "0600002611", "06 00000000", "06 00000000", "06 000001b3", "06 00008415", "06 00006dc7",
      "06 00004702", "06 00000878", "06 00000000", "06 0000088c"].flatMap unhex ∧
    encKaifaValues list3 = ["0212", "0907 4b464d5f303031", "0910 36393730363331343032363134343736",
      "0908 4d41333034483345", "06 00001328", "06 00000000", "06 00000000", "06 00000179", "06 000038eb", "06 00003d1b",
      "06 00002535", "06 00000891", "06 00000000", "06 0000089d", "090c 07e40119060e000aff800000", "06 04be76e8",
      "06 00000000", "06 000d922d", "06 0030feb4"].flatMap unhex := by
  decide +kernel

/-! ### `kaifa_values_body(_final)` : hypotheses `ScaledCorrect`, `KaifaValuesWF vs` -/

def wf1 : KaifaValuesWF list1 := mkWF _ ((kaifaLayout list1.length).getD []) (by decide +kernel) (by decide +kernel) (by decide +kernel)
def wf2 : KaifaValuesWF list2 := mkWF _ ((kaifaLayout list2.length).getD []) (by decide +kernel) (by decide +kernel) (by decide +kernel)
def wf3 : KaifaValuesWF list3 := mkWF _ ((kaifaLayout list3.length).getD []) (by decide +kernel) (by decide +kernel) (by decide +kernel)

example : Kaifa.decodeBody (encKaifaValues list3) = .dict (kaifaValuesExpected none list3) := by
  have := kaifa_values_body scaledCorrect list3 wf3 []
  rwa [List.append_nil] at this

/-- what the expected dictionary says: currents = register/1000 (0x38EB = 14571 → 14.571 A), voltages =
    register/10 (0x891 = 2193 → 219.3 V), powers and energies unchanged, texts verbatim, the list's clock -/
example : (kaifaValuesExpected none list3).lookup "meter_manufacturer" = some (.str (s "Kaifa")) ∧
    (kaifaValuesExpected none list3).lookup "list_ver_id" = some (.str (s "KFM_001")) ∧
    (kaifaValuesExpected none list3).lookup "meter_type" = some (.str (s "MA304H3E")) ∧
    (kaifaValuesExpected none list3).lookup "active_power_import" = some (.int 4904) ∧
    (kaifaValuesExpected none list3).lookup "current_l1" = some (.flt (Flt.ofRat false 14571 1000)) ∧
    (kaifaValuesExpected none list3).lookup "voltage_l1" = some (.flt (Flt.ofRat false 2193 10)) ∧
    (kaifaValuesExpected none list3).lookup "voltage_l2" = some (.flt (Flt.ofRat false 0 10)) ∧
    (kaifaValuesExpected none list3).lookup "active_power_import_total" = some (.int 79591144) ∧
    (kaifaValuesExpected none list3).lookup "meter_datetime" = some (.dt ⟨2020, 1, 25, 14, 0, 10, 0, none⟩) ∧
    (kaifaValuesExpected none list3).length = 19 := by
  decide +kernel

example : Kaifa.decodeBody (encKaifaValues list1 ++ [0xFF]) = .dict (kaifaValuesExpected none list1) ∧
    kaifaValuesExpected none list1 = [("meter_manufacturer", .str (s "Kaifa")), ("active_power_import", .int 5852)] :=
  ⟨kaifa_values_body_final list1 wf1 [0xFF], by decide +kernel⟩

/-! ### `kaifa_values_frame(_final)` : additionally `hd.WF`, `hd.clock ≠ .null` -/

/-- list 2's header: E6 E7 00 0F 40000000 09 0C 07E4 01 19 06 0D 09 1E FF 8000 00 -/
def clkH2 : DateTimeDesc := ⟨2020, 1, 25, 6, 13, 9, 30, none, none, 0⟩
def hdr2 : Header := ⟨[0xE6, 0xE7, 0x00], 0x0F, [0x40, 0, 0, 0], .tagged clkH2⟩
def hdr3 : Header := ⟨[0xE6, 0xE7, 0x00], 0x0F, [0x40, 0, 0, 0], .tagged clk3⟩

example : encHeader hdr2 = unhex "e6e700 0f 40000000 090c 07e40119060d091eff800000" := by decide +kernel

/-- list 2 has no clock element: the meter clock is the APDU date-time -/
example : hdr2.WF ∧ hdr2.clock ≠ .null ∧
    Kaifa.decodeFrame (encHeader hdr2 ++ encKaifaValues list2) =
      .dict (kaifaValuesExpected (some (expectedDT clkH2)) list2) ∧
    (kaifaValuesExpected (some (expectedDT clkH2)) list2).lookup "meter_datetime" =
      some (.dt ⟨2020, 1, 25, 13, 9, 30, 0, none⟩) ∧
    (kaifaValuesExpected (some (expectedDT clkH2)) list2).lookup "current_l2" = some (.flt (Flt.ofRat false 28103 1000)) := by
  have h := kaifa_values_frame_final hdr2 (by decide) (by decide) list2 wf2 []
  rw [List.append_nil] at h
  exact ⟨by decide, by decide, h, by decide +kernel, by decide +kernel⟩

/-- list 3 carries its own clock: with a DIFFERENT APDU date-time in the header the list's clock wins -/
example : Kaifa.decodeFrame (encHeader hdr2 ++ encKaifaValues list3) =
      .dict (kaifaValuesExpected (some (expectedDT clkH2)) list3) ∧
    (kaifaValuesExpected (some (expectedDT clkH2)) list3).lookup "meter_datetime" =
      some (.dt ⟨2020, 1, 25, 14, 0, 10, 0, none⟩) := by
  have h := kaifa_values_frame scaledCorrect hdr2 (by decide) (by decide) list3 wf3 []
  rw [List.append_nil] at h
  exact ⟨h, by decide +kernel⟩

/-! ### `kaifa_obis_body/_frame(_final)` : `Obis6`, `KVal.WF`, `ScaledAreRegisters`, at most 127 elements -/

/-- 2021-09-22 (Wednesday) 17:35:30, hundredths not specified, deviation −60 min (FFC4), status 0 -/
def clkSE : DateTimeDesc := ⟨2021, 9, 22, 3, 17, 35, 30, none, some (-60), 0⟩

def seList : List (List Nat × KVal) := [
  ([1, 0, 0, 2, 129, 255], .text (s "KFM_001")),
  ([0, 0, 96, 1, 0, 255], .text (s "7340734073407340")),
  ([0, 0, 96, 1, 7, 255], .text (s "MA304H4")),
  ([1, 0, 1, 7, 0, 255], .u32 0xB00), ([1, 0, 2, 7, 0, 255], .u32 0), ([1, 0, 3, 7, 0, 255], .u32 0),
  ([1, 0, 4, 7, 0, 255], .u32 0x42),
  ([1, 0, 31, 7, 0, 255], .u32 0x1A7D), ([1, 0, 51, 7, 0, 255], .u32 0x316), ([1, 0, 71, 7, 0, 255], .u32 0x17ED),
  ([1, 0, 32, 7, 0, 255], .u32 0x912), ([1, 0, 52, 7, 0, 255], .u32 0x8FC), ([1, 0, 72, 7, 0, 255], .u32 0x8F1),
  ([0, 0, 1, 0, 0, 255], .clock clkSE),
  ([1, 0, 1, 8, 0, 255], .u32 0x490B23), ([1, 0, 2, 8, 0, 255], .u32 0), ([1, 0, 3, 8, 0, 255], .u32 0x6674),
  ([1, 0, 4, 8, 0, 255], .u32 0x8D3E0)]

example : encKaifaObis seList = ["0224", "09060100000281ff 09074b464d5f303031",
    "09060000600100ff 091037333430373334303733343037333430", "09060000600107ff 09074d413330344834",
    "09060100010700ff 0600000b00", "09060100020700ff 0600000000", "09060100030700ff 0600000000",
    "09060100040700ff 0600000042", "090601001f0700ff 0600001a7d", "09060100330700ff 0600000316",
    "09060100470700ff 06000017ed", "09060100200700ff 0600000912", "09060100340700ff 06000008fc",
    "09060100480700ff 06000008f1", "09060000010000ff 090c07e509160311231effffc400", "09060100010800ff 0600490b23",
    "09060100020800ff 0600000000", "09060100030800ff 0600006674", "09060100040800ff 060008d3e0"].flatMap unhex := by
  decide +kernel

def hSE : ∀ p ∈ seList, Obis6 p.1 ∧ p.2.WF := by decide +kernel

/-- under the scaled names (currents, voltages) the real list has registers -/
def hsSE : ScaledAreRegisters seList := by
  intro p hp hs
  simp only [seList, List.mem_cons, List.not_mem_nil, or_false] at hp
  rcases hp with rfl | rfl | rfl | rfl | rfl | rfl | rfl | rfl | rfl | rfl | rfl | rfl | rfl | rfl | rfl | rfl | rfl | rfl
  all_goals first
    | exact ⟨_, rfl⟩
    | (exfalso; revert hs; decide +kernel)

def hdrSE : Header := ⟨[0xE6, 0xE7, 0x00], 0x0F, [0x40, 0, 0, 0], .null⟩

example : Kaifa.decodeBody (encKaifaObis seList) = .dict (kaifaObisExpected seList) ∧
    Kaifa.decodeFrame (encHeader hdrSE ++ encKaifaObis seList) = .dict (kaifaObisExpected seList) :=
  ⟨kaifa_obis_body_final seList hSE hsSE (by decide), kaifa_obis_frame_final hdrSE (by decide) seList hSE hsSE (by decide)⟩

example : (kaifaObisExpected seList).lookup "current_l1" = some (.flt (Flt.ofRat false 6781 1000)) ∧
    (kaifaObisExpected seList).lookup "voltage_l3" = some (.flt (Flt.ofRat false 2289 10)) ∧
    (kaifaObisExpected seList).lookup "active_power_import" = some (.int 2816) ∧
    (kaifaObisExpected seList).lookup "meter_type" = some (.str (s "MA304H4")) ∧
    (kaifaObisExpected seList).lookup "meter_datetime" = some (.dt ⟨2021, 9, 22, 17, 35, 30, 0, some 60⟩) := by
  decide +kernel

/-! ### what the hypotheses exclude (each is a well-typed list the meter could in principle send) -/

/-- a six-character version id in a positional list is outside `KaifaValuesWF` (the OBIS-tagged grammar is
    tried first and takes the text for an OBIS code) -/
example : ¬ kaifaPosOk "list_ver_id" (.text (s "KFM_01")) := by decide +kernel

end Amshan.C08.Witness
