import Amshan.Lemmas.ConnMgr
/-
  C17 — ConnectionManager: one connection at a time, and close() really stops it.
  Theorems are over EVERY reachable state of the transition system `ConnMgr.next` (every interleaving
  of task steps with close(), factory outcomes, losses and clock advances), for every configuration.
-/
namespace Amshan.C17
open Amshan.BackOff Amshan.ConnMgr

variable {md th sl : Nat}

/-- the manager never holds more than one live connection, and the live one is `_connection` -/
theorem at_most_one_live (s : S) (h : Reach md th sl s) :
    s.live.length ≤ 1 ∧ ∀ c ∈ s.live, s.conn = some c := by
  sorry

/-- a new attempt starts only after the previous connection has ended -/
theorem attempt_only_after_previous_ended (s s' : S) (l : Label) (h : Reach md th sl s)
    (hs : next s l = some s') (ha : (s.now, Ev.attempt) ∈ s'.log.drop s.log.length) :
    s.live = [] ∧ s.conn = none := by
  sorry

/-- only a bounded number of tasks is pending however many reconnect cycles occur -/
theorem tasks_bounded (s : S) (h : Reach md th sl s) : pendingTasks s ≤ 3 := by
  sorry

/-- after connect_loop has returned: every transport the manager obtained is closed, no waiter is
    left, and the connect task is finished or its cancellation is pending -/
theorem exited_clean (s : S) (h : Reach md th sl s) (he : s.lpc = .exited) :
    s.live = [] ∧ s.conn = none ∧ s.waiters = 0 ∧ (s.t = .none ∨ s.t = .finished ∨ s.cancelReq = true) := by
  sorry

/-- no connection attempt is started while closing is requested, nor after connect_loop returned -/
theorem no_attempt_after_close (s s' : S) (l : Label) (h : Reach md th sl s)
    (hs : next s l = some s') (ha : (s.now, Ev.attempt) ∈ s'.log.drop s.log.length) :
    s.closing = false ∧ s.lpc ≠ .exited := by
  sorry

/-- after close(), connect_loop returns at its very next step — without waiting out a back-off sleep
    or a pending attempt (no clock advance, no factory result is needed) -/
theorem close_never_waits (s : S) (h : Reach md th sl s) (hc : s.closing = true) (hl : s.lpc ≠ .exited) :
    ∃ s', next s .lRun = some s' ∧ s'.lpc = .exited := by
  sorry

/-- connect_loop returns only when close() was called: it keeps reconnecting after every failure and
    every loss -/
theorem exits_only_when_closing (s s' : S) (l : Label) (h : Reach md th sl s)
    (hs : next s l = some s') (h1 : s.lpc ≠ .exited) (h2 : s'.lpc = .exited) : s.closing = true := by
  sorry

/-- …and it never gets stuck: in every reachable state in which connect_loop has not returned, a task
    can run now, or the manager is waiting for a timer, for the connection factory, or for the loss
    of the live connection -/
theorem no_deadlock (s : S) (h : Reach md th sl s) (hl : s.lpc ≠ .exited) :
    (∃ s', next s .lRun = some s') ∨ (∃ s', next s .tRun = some s') ∨ (∃ u, s.t = .sleeping u) ∨
    s.t = .inFactory ∨ (s.lpc = .w2 ∧ ∃ c, s.conn = some c ∧ c ∈ s.live) := by
  sorry

/-- C18 on the event loop: the connect task sleeps exactly `_get_back_off_time()` before it may call
    the factory, and it does not call it before that time -/
theorem sleeps_backoff_time (s s' : S) (hs : next s .tRun = some s') (ht : s.t = .created)
    (hc : s.cancelReq = false) (hp : getBackOffTime s.backoff s.breaker > 0) :
    s'.t = .sleeping (s.now + getBackOffTime s.backoff s.breaker) ∧ s'.log = s.log := by
  sorry

theorem attempt_not_before_wake (s s' : S) (u : Nat) (hs : next s .tRun = some s') (ht : s.t = .sleeping u)
    (ha : (s.now, Ev.attempt) ∈ s'.log.drop s.log.length) : u ≤ s.now := by
  sorry

/-- the back-off sequence restarts on success and doubles on failure (ties the manager to C18) -/
theorem backoff_follows_outcomes (s s' : S) :
    (next s .factoryOk = some s' → s'.backoff = s.backoff.reset) ∧
    (next s .factoryFail = some s' → s'.backoff = s.backoff.failure) := by
  sorry

/-- non-vacuity: a reachable state with a live connection, and a reachable exited state -/
example : ∃ s, Reach 60 5 5 s ∧ s.live = [0] := by
  refine ⟨_, ?_, ?_⟩
  · exact Reach.step _ _ .factoryOk (Reach.step _ _ .tRun (Reach.step _ _ .lRun Reach.init rfl) rfl) rfl
  · rfl

end Amshan.C17
