import Amshan.Lemmas.ConnMgr
/-
  C17 — ConnectionManager: one connection at a time, and close() really stops it.
  Theorems are over EVERY reachable state of the transition system `ConnMgr.next` (every interleaving
  of task steps with close(), factory outcomes, losses and clock advances), for every configuration.
-/
namespace Amshan.C17
open Amshan.BackOff Amshan.ConnMgr

variable {md th sl : Nat}

/-- the manager never holds more than one live connection, and the live one is `_connection` -/
theorem at_most_one_live (s : S) (h : Reach md th sl s) :
    s.live.length ≤ 1 ∧ ∀ c ∈ s.live, s.conn = some c := by
  have hi := reach_inv h
  rcases hi.live1 with h0 | ⟨c, hl, hc⟩
  · simp [h0]
  · simp [hl, hc]

/-- a new attempt starts only after the previous connection has ended -/
theorem attempt_only_after_previous_ended (s s' : S) (l : Label) (h : Reach md th sl s)
    (hs : next s l = some s') (ha : (s.now, Ev.attempt) ∈ s'.log.drop s.log.length) :
    s.live = [] ∧ s.conn = none := by
  have hi := reach_inv h
  obtain ⟨_, _, _, ht⟩ := attempt_emitted s s' l hs ha
  have hc : s.conn = none := by
    cases hcn : s.conn with
    | none => rfl
    | some c =>
      have := (hi.connPh c hcn).1
      rcases ht with ⟨h1, _⟩ | ⟨u, h1, _⟩ <;> simp [h1] at this
  refine ⟨?_, hc⟩
  rcases hi.live1 with h0 | ⟨c, _, hc'⟩
  · exact h0
  · simp [hc] at hc'

/-- only a bounded number of tasks is pending however many reconnect cycles occur -/
theorem tasks_bounded (s : S) (h : Reach md th sl s) : pendingTasks s ≤ 3 := by
  have hi := reach_inv h
  have h1 := hi.pcStart
  have h2 := hi.pcW1
  have h3 := hi.pcW2
  have h4 := hi.pcEx
  unfold pendingTasks
  cases hl : s.lpc <;> simp [hl] at h1 h2 h3 h4 ⊢ <;> cases ht : s.t <;> simp_all

/-- after connect_loop has returned: every transport the manager obtained is closed, no waiter is
    left, and the connect task is finished or its cancellation is pending -/
theorem exited_clean (s : S) (h : Reach md th sl s) (he : s.lpc = .exited) :
    s.live = [] ∧ s.conn = none ∧ s.waiters = 0 ∧ (s.t = .none ∨ s.t = .finished ∨ s.cancelReq = true) := by
  have hi := reach_inv h
  have hc : s.conn = none := by
    cases hcn : s.conn with
    | none => rfl
    | some c =>
      have := (hi.connPh c hcn).2
      simp [he] at this
  have hl : s.live = [] := by
    rcases hi.live1 with h0 | ⟨c, _, hc'⟩
    · exact h0
    · simp [hc] at hc'
  exact ⟨hl, hc, (hi.pcEx he).1, (hi.pcEx he).2⟩

/-- no connection attempt is started while closing is requested, nor after connect_loop returned -/
theorem no_attempt_after_close (s s' : S) (l : Label) (h : Reach md th sl s)
    (hs : next s l = some s') (ha : (s.now, Ev.attempt) ∈ s'.log.drop s.log.length) :
    s.closing = false ∧ s.lpc ≠ .exited := by
  have hi := reach_inv h
  obtain ⟨_, hcr, hcl, ht⟩ := attempt_emitted s s' l hs ha
  refine ⟨hcl, fun he => ?_⟩
  have := (hi.pcEx he).2
  rcases ht with ⟨h1, _⟩ | ⟨u, h1, _⟩ <;> simp [h1, hcr] at this

/-- after close(), connect_loop returns at its very next step — without waiting out a back-off sleep
    or a pending attempt (no clock advance, no factory result is needed) -/
theorem close_never_waits (s : S) (h : Reach md th sl s) (hc : s.closing = true) (hl : s.lpc ≠ .exited) :
    ∃ s', next s .lRun = some s' ∧ s'.lpc = .exited := by
  obtain ⟨now, closing, conn, lpc, t, cancelReq, backoff, breaker, nextId, live, doneSet, waiters, log⟩ := s
  simp only at hc hl
  subst hc
  cases lpc <;> cases conn <;> simp [next, topLogic, S.emit, closeTransport] at hl ⊢

/-- connect_loop returns only when close() was called: it keeps reconnecting after every failure and
    every loss -/
theorem exits_only_when_closing (s s' : S) (l : Label) (h : Reach md th sl s)
    (hs : next s l = some s') (h1 : s.lpc ≠ .exited) (h2 : s'.lpc = .exited) : s.closing = true := by
  obtain ⟨now, closing, conn, lpc, t, cancelReq, backoff, breaker, nextId, live, doneSet, waiters, log⟩ := s
  simp only at h1 ⊢
  cases closing
  · exfalso
    cases l with
    | lRun =>
      cases lpc <;> cases conn <;> simp [next, topLogic] at hs h1
      all_goals first
        | (subst hs; simp at h2)
        | (obtain ⟨_, hs⟩ := hs; subst hs; simp at h2)
    | tRun =>
      cases t <;> cases cancelReq <;> simp [next, afterSleep, S.emit] at hs
      all_goals first
        | (subst hs; exact h1 h2)
        | (obtain ⟨_, hs⟩ := hs; subst hs; exact h1 h2)
        | (split at hs <;> simp at hs <;> subst hs <;> exact h1 h2)
    | factoryOk =>
      simp [next, S.emit] at hs
      obtain ⟨_, hs⟩ := hs; subst hs; exact h1 h2
    | factoryFail =>
      simp [next, S.emit] at hs
      obtain ⟨_, hs⟩ := hs; subst hs; exact h1 h2
    | lose =>
      cases conn <;> simp [next, S.emit] at hs
      obtain ⟨_, hs⟩ := hs; subst hs; exact h1 h2
    | close =>
      cases conn <;> simp [next, S.emit, closeTransport] at hs
      · subst hs; exact h1 h2
      · split at hs <;> subst hs <;> exact h1 h2
    | tick d =>
      simp [next] at hs
      subst hs; exact h1 h2
  · rfl

/-- …and it never gets stuck: in every reachable state in which connect_loop has not returned, a task
    can run now, or the manager is waiting for a timer, for the connection factory, or for the loss
    of the live connection -/
theorem no_deadlock (s : S) (h : Reach md th sl s) (hl : s.lpc ≠ .exited) :
    (∃ s', next s .lRun = some s') ∨ (∃ s', next s .tRun = some s') ∨ (∃ u, s.t = .sleeping u) ∨
    s.t = .inFactory ∨ (s.lpc = .w2 ∧ ∃ c, s.conn = some c ∧ c ∈ s.live) := by
  have hi := reach_inv h
  obtain ⟨h1,h2,h3,h4,h5,h5',h6,h7,h8,h9,h10⟩ := hi
  obtain ⟨now, closing, conn, lpc, t, cancelReq, backoff, breaker, nextId, live, doneSet, waiters, log⟩ := s
  simp only at h1 h2 h3 h4 h5 h5' h6 h7 h8 h9 h10 hl ⊢
  cases lpc
  · left; exact ⟨_, rfl⟩
  · have hcr : cancelReq = false := by cases cancelReq <;> simp_all
    subst hcr
    cases t with
    | none => simp at h7
    | created =>
      right; left
      by_cases hp : getBackOffTime backoff breaker > 0 <;> simp [next, hp]
    | sleeping u => right; right; left; exact ⟨u, rfl⟩
    | inFactory => right; right; right; left; rfl
    | finished =>
      left
      cases conn <;> cases closing <;> simp [next]
  · cases conn with
    | none =>
      left
      have : closing = true := by simp at h8; exact h8.2.2
      subst this
      simp [next]
    | some c =>
      rcases h2 c rfl with hlv | hd
      · right; right; right; right
        exact ⟨rfl, c, rfl, hlv⟩
      · left
        simp [next, hd]
  · exact absurd rfl hl

/-- C18 on the event loop: the connect task sleeps exactly `_get_back_off_time()` before it may call
    the factory, and it does not call it before that time -/
theorem sleeps_backoff_time (s s' : S) (hs : next s .tRun = some s') (ht : s.t = .created)
    (hc : s.cancelReq = false) (hp : getBackOffTime s.backoff s.breaker > 0) :
    s'.t = .sleeping (s.now + getBackOffTime s.backoff s.breaker) ∧ s'.log = s.log := by
  obtain ⟨now, closing, conn, lpc, t, cancelReq, backoff, breaker, nextId, live, doneSet, waiters, log⟩ := s
  simp only at ht hc hp ⊢
  subst ht; subst hc
  simp [next, hp] at hs
  subst hs
  exact ⟨rfl, rfl⟩

theorem attempt_not_before_wake (s s' : S) (u : Nat) (hs : next s .tRun = some s') (ht : s.t = .sleeping u)
    (ha : (s.now, Ev.attempt) ∈ s'.log.drop s.log.length) : u ≤ s.now := by
  obtain ⟨_, _, _, ht'⟩ := attempt_emitted s s' .tRun hs ha
  rcases ht' with ⟨h1, _⟩ | ⟨u', h1, hu⟩
  · simp [ht] at h1
  · rw [ht] at h1
    cases h1
    exact hu

/-- the back-off sequence restarts on success and doubles on failure (ties the manager to C18) -/
theorem backoff_follows_outcomes (s s' : S) :
    (next s .factoryOk = some s' → s'.backoff = s.backoff.reset) ∧
    (next s .factoryFail = some s' → s'.backoff = s.backoff.failure) := by
  constructor
  · intro h
    simp [next, S.emit] at h
    obtain ⟨_, h⟩ := h; subst h; rfl
  · intro h
    simp [next, S.emit] at h
    obtain ⟨_, h⟩ := h; subst h; rfl

/-- non-vacuity: a reachable state with a live connection, and a reachable exited state -/
example : ∃ s, Reach 60 5 5 s ∧ s.live = [0] := by
  have h1 : next (S.init 60 5 5) .lRun = some (topLogic (S.init 60 5 5)) := rfl
  have h2 : next (topLogic (S.init 60 5 5)) .tRun = some (afterSleep (topLogic (S.init 60 5 5))) := rfl
  have h3 : ∃ s, next (afterSleep (topLogic (S.init 60 5 5))) .factoryOk = some s ∧ s.live = [0] := by
    simp [next, afterSleep, topLogic, S.init, S.emit]
  obtain ⟨s, h3, hl⟩ := h3
  exact ⟨s, Reach.step _ _ .factoryOk (Reach.step _ _ .tRun (Reach.step _ _ .lRun Reach.init h1) h2) h3, hl⟩

example : ∃ s, Reach 60 5 5 s ∧ s.lpc = .exited := by
  have h1 : ∃ s, next (S.init 60 5 5) .close = some s ∧ s.closing = true ∧ s.lpc = .start := by
    simp [next, S.init, S.emit]
  obtain ⟨s1, h1, hc, hl⟩ := h1
  obtain ⟨s2, h2, he⟩ := close_never_waits (md := 60) (th := 5) (sl := 5) s1
    (Reach.step _ _ .close Reach.init h1) hc (by simp [hl])
  exact ⟨s2, Reach.step _ _ .lRun (Reach.step _ _ .close Reach.init h1) h2, he⟩

end Amshan.C17
