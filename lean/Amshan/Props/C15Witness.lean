import Amshan.Props.C15
import Amshan.Props.C09Witness
/-
  C15 — non-vacuity witnesses.  Two theorems of Props/C15.lean carry hypotheses:
  `p1_parse_linear` (`parseContent data = .ok (items, iters)`) and `kamstrup_greedy_count`
  (`Kamstrup.greedy (s.length + 1) s = .ok es r`).  The unconditional ones are instantiated on the inputs the
  property names (unbalanced parentheses, trailing garbage, junk bytes, every remembered decoder).
-/
namespace Amshan.C15.Witness
set_option linter.defProp false
set_option maxRecDepth 100000
open Amshan.Gen Amshan.Cosem Amshan.Dec

def s (x : String) : List Nat := x.toList.map Char.toNat

/-! ### `p1_parse_linear` -/

def text : List Nat := s "1-0:1.8.0(00001605.055*kWh)\r\n1-0:99.97.0(5)(0-0:96.7.19)(170520130938S)\r\n0-0:96.13.1()\r\n"

def parsed : List P1Parse.DataSet × Nat :=
  match P1Parse.parseContent text with | .ok x => x | .error _ => ([], 0)

example : P1Parse.parseContent text = .ok parsed ∧ parsed.1.length = 3 ∧ parsed.2 = 8 ∧
    parsed.2 ≤ 2 * text.length + 2 := by
  have h : P1Parse.parseContent text = .ok (parsed.1, parsed.2) := by decide +kernel
  exact ⟨h, by decide +kernel, by decide +kernel, p1_parse_linear text parsed.1 parsed.2 h⟩

/-- the inputs of defect D7 (unbalanced parenthesis, trailing garbage): the parser ends with ValueError — the
    theorem `p1_parse_terminates` (no hypothesis) excludes only the fuel error -/
example : P1Parse.parseContent (s "1.7.0(123") = .error .valueError ∧
    P1Parse.parseContent (s "1-0:1.7.0(0006.000*kW)garbage\r\n") = .error .valueError ∧
    P1Parse.parseContent (s "1.7.0(1)(((\r\n") = .error .valueError := by
  decide +kernel

/-! ### `kamstrup_greedy_count` — the elements of the real Kamstrup list (after the two octets `02 23`) -/

def kamElems : List Nat := (encKamList_tail)
where encKamList_tail := (ListSpec.encKamList C09.Witness.real).drop 2

def greedyRes : List Kamstrup.Element × List Nat :=
  match Kamstrup.greedy (kamElems.length + 1) kamElems with | .ok es r => (es, r) | _ => ([], [])

example : Kamstrup.greedy (kamElems.length + 1) kamElems = .ok greedyRes.1 greedyRes.2 ∧
    greedyRes.1.length = 14 ∧ greedyRes.2 = [] ∧ greedyRes.1.length ≤ kamElems.length := by
  have hok : (match Kamstrup.greedy (kamElems.length + 1) kamElems with | .ok _ _ => true | _ => false) = true := by
    decide +kernel
  have h : Kamstrup.greedy (kamElems.length + 1) kamElems = .ok greedyRes.1 greedyRes.2 := by
    unfold greedyRes
    cases hh : Kamstrup.greedy (kamElems.length + 1) kamElems with
    | ok es r => rfl
    | soft => rw [hh] at hok; cases hok
    | explicit => rw [hh] at hok; cases hok
    | py e => rw [hh] at hok; cases hok
  exact ⟨h, by decide +kernel, by decide +kernel, kamstrup_greedy_count kamElems _ _ h⟩

/-! ### the unconditional theorems on the property's inputs: every remembered decoder × junk, truncated and
    mutated genuine messages -/

example : ∀ prev ∈ [none, some 0, some 1, some 2, some 3, some 4, some 5, some 6],
    ∀ p ∈ [[1, 2, 3, 4, 5], (ListSpec.encKamList C09.Witness.real).take 40,
           (ListSpec.encKamList C09.Witness.real).set 3 0x09, s "1.7.0(123"],
    ∃ r, stepPayload prev p = .ok r :=
  fun prev _ p _ => no_escape_payload prev p

end Amshan.C15.Witness
