import Amshan.Lemmas.HdlcRun
/-
  C06 — HDLC reader output does not depend on how the byte stream is chunked.
  Model: Amshan/Model/Hdlc.lean.  `read` is the buffer-level model of HdlcFrameReader.read(),
  `run` the octet-at-a-time machine.
-/
namespace Amshan.C06
open Amshan.Hdlc

/-- One `read()` call equals running the per-octet machine over the chunk, and leaves the input
    buffer empty (nothing unread crosses a call). -/
theorem read_eq_run (cfg : Cfg) (r : Reader) (chunk : List Nat) (hr : r.buf = Buf.empty) :
    read cfg r chunk =
      ({ core := (run cfg r.core chunk).1, buf := Buf.empty }, (run cfg r.core chunk).2) := by
  exact Amshan.Hdlc.read_eq_run cfg r chunk hr

theorem reachable_buf_empty (cfg : Cfg) (r : Reader) (h : Reachable cfg r) : r.buf = Buf.empty := by
  exact Reachable.buf_empty h

/-- Any sequence of `read()` calls equals one run over the concatenated stream. -/
theorem readAll_eq_run (cfg : Cfg) (r : Reader) (chunks : List (List Nat)) (hr : r.buf = Buf.empty) :
    (readAll cfg r chunks).2.flatten = (run cfg r.core chunks.flatten).2 ∧
    (readAll cfg r chunks).1 = { core := (run cfg r.core chunks.flatten).1, buf := Buf.empty } := by
  exact Amshan.Hdlc.readAll_eq_run cfg r chunks hr

/-- **C06.** For every stream, every two splittings of it into `read()` calls, every configuration and
    every reachable reader state: the same frames (all fields) come out and the reader ends in the
    same state. -/
theorem chunk_independent (cfg : Cfg) (r : Reader) (hr : Reachable cfg r)
    (cs₁ cs₂ : List (List Nat)) (h : cs₁.flatten = cs₂.flatten) :
    (readAll cfg r cs₁).2.flatten = (readAll cfg r cs₂).2.flatten ∧
    (readAll cfg r cs₁).1 = (readAll cfg r cs₂).1 := by
  have hb : r.buf = Buf.empty := reachable_buf_empty cfg r hr
  obtain ⟨f1, s1⟩ := readAll_eq_run cfg r cs₁ hb
  obtain ⟨f2, s2⟩ := readAll_eq_run cfg r cs₂ hb
  rw [f1, f2, s1, s2, h]
  exact ⟨rfl, rfl⟩

/-- non-vacuity: two different splittings of a stream with a flag, an escape and a frame start -/
example : ([[0x7E, 0xA0], [0x7D, 0x5E, 0x7E]] : List (List Nat)).flatten =
    ([[0x7E], [0xA0, 0x7D], [0x5E, 0x7E]] : List (List Nat)).flatten := by decide

end Amshan.C06
