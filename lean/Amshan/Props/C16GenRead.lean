import Amshan.Props.C05GenRead
/-
  C16 (tie by translation, buffer level) — the theorems of this property speak about the model's `P1.read` / `P1.loop`.
  This statement re-exports, under this property, that `ModeDReader.read` and its `_ReaderBuffer` as mechanically
  translated from the current source are that model (Props/C05GenRead.lean).
-/
namespace Amshan.C16
open Amshan.P1 Amshan.GenCode Amshan.GenLemmas

/-- the translated `ModeDReader.read` is the model's `read` -/
theorem gen_p1_read (r : P1PyReader) (chunk : List Nat) (hr : P1ReaderInv r) :
    p1AbsAnswer (p1RdRead r chunk) = P1.read (p1AbsReader r) chunk :=
  C05.gen_p1_read r chunk hr

end Amshan.C16
