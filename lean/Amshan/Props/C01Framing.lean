import Amshan.Lemmas.HdlcCarve
/-
  C01 (framing) — the octets of every returned frame occur contiguously in the input between two
  flag octets (after un-stuffing when octet stuffing is on), no input octet is used by two frames,
  and frames come out in stream order.
-/
namespace Amshan.C01
open Amshan.Gen Amshan.Hdlc Amshan.HdlcSpec

/-- the constants of the source are the standard's (re-checked against the regenerated values) -/
theorem pins : flagOctet = flag ∧ escOctet = esc ∧ escXor = 0x20 := by decide

/-- **C01 (framing).** -/
theorem framing (cfg : Cfg) (inp : List Nat) :
    ∃ segs, Carve inp segs ∧
      (run cfg Core.init inp).2.map (·.data) = segs.map (decode cfg.stuffing) :=
  run_carve_hunt cfg Core.init rfl inp

end Amshan.C01
