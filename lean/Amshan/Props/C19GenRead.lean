import Amshan.Props.C06GenRead
import Amshan.Props.C05GenRead
/-
  C19 (tie by translation, buffer level) — the theorems of this property bound what the reader objects retain
  (`Hdlc.Reader.size` over `Hdlc.read` / `Hdlc.readAll`, `P1.Reader.size` over `P1.read`).  These statements re-export,
  under this property, that `HdlcFrameReader.read` / `ModeDReader.read` and their `_ReaderBuffer`s as mechanically
  translated from the current source are the models' `read` (Props/C06GenRead.lean, Props/C05GenRead.lean), and add
  the size actually held by the Python-level state: the WHOLE bytearray (consumed octets included) is what
  `Reader.size` counts.
-/
namespace Amshan.C19
open Amshan.Hdlc Amshan.GenCode Amshan.GenLemmas

/-- the translated `read` is the model's `read` -/
theorem gen_hdlc_read (cfg : Cfg) (r : PyReader) (chunk : List Nat) (hr : ReaderInv r) :
    absReader (hdlcRdRead cfg r chunk).1 = (Hdlc.read cfg (absReader r) chunk).1 ∧
      (hdlcRdRead cfg r chunk).2 = (Hdlc.read cfg (absReader r) chunk).2 ∧ ReaderInv (hdlcRdRead cfg r chunk).1 :=
  ⟨(C06.gen_read cfg r chunk hr).1, (C06.gen_read cfg r chunk hr).2, C06.gen_read_preserves_inv cfg r chunk hr⟩

/-- the model's `Buf.size` is the length of the Python bytearray (under the invariant): nothing that the object
    retains is forgotten by the abstraction -/
theorem gen_hdlc_buf_size (b : PyBuf) (hb : BufInv b) : (absBuf b).size = b.buffer.length := by
  unfold absBuf Buf.size BufInv at *
  simp only [List.length_drop]
  omega

/-- the translated `ModeDReader.read` is the model's `read` -/
theorem gen_p1_read (r : P1PyReader) (chunk : List Nat) (hr : P1ReaderInv r) :
    p1AbsAnswer (p1RdRead r chunk) = P1.read (p1AbsReader r) chunk ∧
      (∀ p, p1RdRead r chunk = .ok p → P1ReaderInv p.1) :=
  ⟨C05.gen_p1_read r chunk hr, C05.gen_p1_read_preserves_inv r chunk hr⟩

/-- the model's `P1.Buf.size` is the length of the Python bytearray (under the invariant) -/
theorem gen_p1_buf_size (b : PyBuf) (hb : P1BufInv b) : (p1AbsBuf b).size = b.buffer.length := by
  unfold p1AbsBuf P1.Buf.size P1BufInv at *
  simp only [List.length_drop]
  omega

end Amshan.C19
