import Amshan.Lemmas.P1Readout
/-
  C04 — a P1 readout is reported valid only if its CRC16 and identification check out.
  Model: Model/P1.lean (DataReadout, Ident, _calculate_crc16), Model/PyStr.lean (CPython built-ins).
  Spec : Spec/P1Wire.lean (CRC-16/ARC, checksum text, well-formed readouts).
-/
namespace Amshan.C04
open Amshan.Gen Amshan.P1 Amshan.P1Spec Amshan.Py

/-- pins: the hand-written matcher and CRC model were written for exactly these source texts/values
    (re-checked against the regenerated constants on every run; the body of _calculate_crc16 is not pinned by
    its literals: it is translated and proved equal to the model in Props/C04Gen.lean) -/
theorem ident_pattern_pin :
    identPatternSrc = "^\\/(?P<MANID>[A-Z][A-Z][a-zA-Z])(?P<BAUDID>\\d)((\\\\\\w)*)(?P<ID>[ -~]{1,16})?(\\r\\n)?$" := by
  decide

theorem constant_pins : crc16Poly = 0xA001 ∧ p1Start = 47 ∧ p1End = 33 ∧ p1Lf = 10 := by decide

/-- the CRC loop of the source is CRC-16/ARC, for every byte string -/
theorem crc_is_arc (bs : List Nat) : crc16 bs = crc16Arc bs :=
  P1L.crc16_eq_arc bs

theorem crc_lt (bs : List Nat) (h : Octets bs) : crc16Arc bs < 65536 :=
  P1L.crc16Arc_lt bs h

/-- what a successful match of the identification pattern means -/
theorem ident_wellformed (s : List Nat) (m : IdentMatch) (h : identMatch s = some m) :
    ∃ (a b c d : Nat) (escs ident tail : List Nat),
      s = [47, a, b, c, d] ++ escs.flatMap (fun w => [92, w]) ++ ident ++ tail ∧
      Py.isUpper a = true ∧ Py.isUpper b = true ∧ Py.isAlpha c = true ∧ Py.isDigit d = true ∧
      escs.all Py.isWord = true ∧ ident.all Py.isPrintable = true ∧ ident.length ≤ 16 ∧
      (tail = [] ∨ tail = [10] ∨ tail = [13, 10] ∨ tail = [13, 10, 10]) ∧
      m.manid = [a, b, c] ∧ m.ident = (if ident.isEmpty then none else some ident) :=
  P1L.identMatch_wellformed s m h

/-- **C04 (soundness).** A readout reported valid has a well-formed identification line and,
    whenever the text after '!' is a checksum, that checksum equals the CRC-16/ARC of every byte
    from '/' through '!' — including the checksum 0000. -/
theorem valid_sound (raw : List Nat) (r : Readout) (hm : Readout.make raw = .ok r)
    (h : r.isValid = .ok true) :
    (∃ m, r.identLine = .ok m) ∧
    (∀ v, IsChecksumText r.afterBang v → v = crc16Arc (r.bytes.take (r.endPos + 1))) := by
  obtain ⟨hid, hck, _⟩ := P1L.isValid_true r h
  refine ⟨hid, ?_⟩
  intro v hv
  have := hck v (P1L.expectedChecksum_of_text raw r hm v hv)
  rw [P1L.make_calcCrc] at this
  exact (Int.ofNat.inj this).symm

/-- **C04.** A readout whose checksum is present and differs from the computed one is never
    reported valid. -/
theorem mismatch_invalid (raw : List Nat) (r : Readout) (hm : Readout.make raw = .ok r) (v : Nat)
    (ht : IsChecksumText r.afterBang v) (hne : v ≠ crc16Arc (r.bytes.take (r.endPos + 1))) :
    r.isValid = .ok false := by
  apply P1L.isValid_mismatch r v (P1L.expectedChecksum_of_text raw r hm v ht)
  rw [P1L.make_calcCrc]
  intro e
  exact hne (Int.ofNat.inj e).symm

/-- `is_valid` never raises (every failure of the partial primitives it uses is a ValueError,
    which it catches) -/
theorem isValid_total (r : Readout) : ∃ b, r.isValid = .ok b :=
  P1L.isValid_total r

/-- **C04 (completeness, payload).** A correctly check-summed (or checksum-less) all-ASCII readout
    with a well-formed identification line is reported valid; its payload is exactly the bytes
    between the identification line and '!', and the identification groups are the transmitted
    ones. -/
theorem valid_complete (d : ReadoutDesc) (h : d.WF) :
    Readout.make d.encode = .ok (expectedReadout d) ∧
    (expectedReadout d).isValid = .ok true ∧
    (expectedReadout d).payload = d.payload ∧
    (expectedReadout d).identLine =
      .ok { manid := d.man, ident := if d.ident.isEmpty then none else some d.ident } :=
  ⟨P1L.make_encode d h, P1L.exp_isValid d h, P1L.exp_payload d, P1L.exp_identLine d h⟩

/-- the payload of any readout is exactly the bytes strictly between the first line end and the
    first '!' -/
theorem payload_exact (raw : List Nat) (r : Readout) (hm : Readout.make raw = .ok r)
    (a p z : List Nat) (hb : r.bytes = a ++ [10] ++ p ++ [33] ++ z) (ha : 10 ∉ a)
    (hp : 33 ∉ a ++ [10] ++ p) : r.payload = p :=
  P1L.payload_exact raw r hm a p z hb ha hp

/-- non-vacuity -/
example : (ReadoutDesc.mk [65, 66, 67] 53 [] [120, 121, 122] [[49, 46, 55, 40, 49, 41]] (some false)).WF := by
  decide

end Amshan.C04
