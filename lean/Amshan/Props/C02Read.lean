import Amshan.Props.C02
import Amshan.Lemmas.HdlcReadLevel
/-
  C02 at the entry point.  `C02.clean_stream_delivered` is already stated on `read()` (through
  `readAll`, any splitting) for a NEW reader.  Added here:
  * `clean_stream_observed` — one statement composing it with `expected_observation`: what the caller
    sees through the accessors of the returned frames is, frame by frame and in order, what was sent;
  * the same delivery for readers that are not new: any reachable reader that is hunting (e.g. after a
    discarded frame), and any reachable reader between two frames (e.g. one that has just returned a
    frame).
-/
namespace Amshan.C02
open Amshan.Gen Amshan.Hdlc Amshan.HdlcSpec Amshan.HdlcClean

/-- what a caller can observe of a returned frame -/
structure Seen where
  valid : Bool
  octets : List Nat
  payload : Option (List Nat)
  dest : Option (List Nat)
  src : Option (List Nat)
  control : Option Nat
  frameLength : Option Nat
  formatType : Option Nat
  segmentation : Option Bool
  deriving DecidableEq, Repr

/-- `is_valid`, `as_bytes`, `payload` and the header accessors of a returned frame -/
def see (f : Frame) : Seen :=
  { valid := f.isValid, octets := f.data, payload := f.payload, dest := f.dest, src := f.src,
    control := f.control, frameLength := f.frameLength, formatType := f.formatType,
    segmentation := f.segmentation }

/-- what was sent: valid, the encoded octets, the information field (None for a header-only frame),
    the addresses, control, announced length, format type, segmentation bit -/
def sent (d : FrameDesc) : Seen :=
  { valid := true, octets := d.encode, payload := if d.info.isEmpty then none else some d.info,
    dest := some d.dst, src := some d.src, control := some d.ctl, frameLength := some d.totalLen,
    formatType := some d.fmt, segmentation := some d.seg }

theorem see_expectedFrame (d : FrameDesc) (h : d.WF) : see (expectedFrame d) = sent d := by
  obtain ⟨h1, h2, h3, h4, h5, h6, h7, h8, h9⟩ := expected_observation d h
  simp only [see, sent, h1, h2, h3, h4, h5, h6, h7, h8, h9]

/-- **C02, as seen by the caller of `read()`.** On a clean stream (flag-free noise, well-formed
    frames of the configuration's domain separated by one or more flags), however it is split into
    `read()` calls, the frames returned show — in order, one per frame sent, nothing else —
    `is_valid = True`, the exact octets, payload and header fields of the frames sent. -/
theorem clean_stream_observed (cfg : Cfg) (noise : List Nat) (fs : List (FrameDesc × Nat))
    (closing : Nat) (chunks : List (List Nat))
    (hnoise : Octets noise ∧ flag ∉ noise)
    (hfs : ∀ p ∈ fs, p.1.WF ∧ 1 ≤ p.2 ∧ InDomain cfg.stuffing cfg.abort p.1)
    (hcl : 1 ≤ closing)
    (hch : chunks.flatten = wire cfg.stuffing noise fs closing) :
    (readAll cfg Reader.init chunks).2.flatten.map see = fs.map (fun p => sent p.1) := by
  rw [clean_stream_delivered cfg noise fs closing chunks hnoise hfs hcl hch, List.map_map]
  apply List.map_congr_left
  intro p hp
  exact see_expectedFrame p.1 (hfs p hp).1

/-- **C02 for a reader that is not new but hunting** (any reachable reader without a frame in
    progress — after noise, after a discarded, aborted or over-long frame): same delivery. -/
theorem clean_stream_delivered_hunting (cfg : Cfg) (r : Reader) (hr : Reachable cfg r)
    (hh : r.core.frame = none)
    (noise : List Nat) (fs : List (FrameDesc × Nat)) (closing : Nat) (chunks : List (List Nat))
    (hnoise : flag ∉ noise)
    (hfs : ∀ p ∈ fs, p.1.WF ∧ 1 ≤ p.2 ∧ InDomain cfg.stuffing cfg.abort p.1)
    (hcl : 1 ≤ closing)
    (hch : chunks.flatten = wire cfg.stuffing noise fs closing) :
    (readAll cfg r chunks).2.flatten = fs.map (fun p => expectedFrame p.1) := by
  rw [hr.frames_eq_run chunks, hch]
  exact clean_run_from cfg r.core noise fs closing (Or.inl hh) hnoise hfs hcl

/-- **C02 for a reader between two frames** (any reachable reader whose frame in progress is empty:
    it has just returned a frame, or has just read a flag): the clean stream without noise is
    delivered completely. -/
theorem clean_stream_delivered_between_frames (cfg : Cfg) (r : Reader) (hr : ReachableOct cfg r)
    (f : Frame) (hf : r.core.frame = some f) (h0 : f.len = 0)
    (fs : List (FrameDesc × Nat)) (closing : Nat) (chunks : List (List Nat))
    (hfs : ∀ p ∈ fs, p.1.WF ∧ 1 ≤ p.2 ∧ InDomain cfg.stuffing cfg.abort p.1)
    (hcl : 1 ≤ closing)
    (hch : chunks.flatten = wire cfg.stuffing [] fs closing) :
    (readAll cfg r chunks).2.flatten = fs.map (fun p => expectedFrame p.1) := by
  rw [hr.frames_eq_run chunks, hch]
  exact clean_run_from cfg r.core [] fs closing
    (Or.inr ⟨rfl, _, _, core_empty_shape r.core hr.coreInv f hf h0⟩) (by simp) hfs hcl

/-! ### non-vacuity, on real frames (tests/test_hdlc.py)

  `fKaifa` FRAME_WITH_FLAG_SEQUENCE_CHARACTER_IN_INFO (flag octet inside the information field),
  `fAidon` FRAME_WITH_ESCAPE_CHARACTER_IN_INFO (escape octet inside the information field),
  `fEmpty` FRAME_EMPTY_INFO (header only). -/
namespace ReadWitness
set_option linter.defProp false

def fKaifa : FrameDesc :=
  { fmt := 10, seg := false, dst := [0x01], src := [0x02, 0x01], ctl := 0x10,
    info := [0xE6, 0xE7, 0x00, 0x0F, 0x40, 0x00, 0x00, 0x00, 0x09, 0x0C, 0x07, 0xE4, 0x02, 0x0F, 0x06, 0x01, 0x19,
             0x22, 0xFF, 0x80, 0x00, 0x00, 0x02, 0x01, 0x06, 0x00, 0x00, 0x15, 0x7E] }

def fAidon : FrameDesc :=
  { fmt := 10, seg := false, dst := [0x41], src := [0x08, 0x83], ctl := 0x13,
    info := [0xE6, 0xE7, 0x00, 0x0F, 0x40, 0x00, 0x00, 0x00, 0x00, 0x01, 0x01, 0x02, 0x03, 0x09, 0x06, 0x01, 0x00,
             0x01, 0x07, 0x00, 0xFF, 0x06, 0x00, 0x00, 0x06, 0x7D, 0x02, 0x02, 0x0F, 0x00, 0x16, 0x1B] }

def fEmpty : FrameDesc := { fmt := 10, seg := false, dst := [0x01], src := [0x02, 0x01], ctl := 0x10, info := [] }

/-- the Spec encoder reproduces the captured octets, check sequences included -/
example : fKaifa.encode = [0xA0, 0x27, 0x01, 0x02, 0x01, 0x10, 0x5A, 0x87] ++ fKaifa.info ++ [0xEA, 0x5E] ∧
    fAidon.encode = [0xA0, 0x2A, 0x41, 0x08, 0x83, 0x13, 0x04, 0x13] ++ fAidon.info ++ [0x1C, 0x05] ∧
    fEmpty.encode = [0xA0, 0x08, 0x01, 0x02, 0x01, 0x10, 0x37, 0x8D] := by
  decide +kernel

def noise : List Nat := [0xC3, 0x00, 0x7D, 0x41]
def frames : List (FrameDesc × Nat) := [(fKaifa, 1), (fAidon, 3), (fEmpty, 2)]

/-- every octet in a `read()` call of its own -/
def bytewise (w : List Nat) : List (List Nat) := w.map ([·])

def bytewise_flatten (w : List Nat) : (bytewise w).flatten = w := by
  induction w with
  | nil => rfl
  | cons a t ih => simpa [bytewise] using ih

def hframes (cfg : Cfg) : ∀ p ∈ frames, p.1.WF ∧ 1 ≤ p.2 ∧ InDomain cfg.stuffing cfg.abort p.1 := by
  obtain ⟨s, a⟩ := cfg
  cases s <;> cases a <;> decide +kernel

/-- `clean_stream_observed`, all four configurations, octet by octet: all hypotheses hold, and the
    conclusion spelt out for the first frame -/
example (cfg : Cfg) :
    (readAll cfg Reader.init (bytewise (wire cfg.stuffing noise frames 2))).2.flatten.map see =
      [sent fKaifa, sent fAidon, sent fEmpty] ∧
    (sent fKaifa).valid = true ∧ (sent fKaifa).payload = some fKaifa.info ∧
    (sent fKaifa).dest = some [0x01] ∧ (sent fKaifa).frameLength = some 39 ∧ (sent fEmpty).payload = none :=
  ⟨clean_stream_observed cfg noise frames 2 _ (by decide) (hframes cfg) (by decide) (bytewise_flatten _),
   rfl, rfl, rfl, by decide, rfl⟩

/-- a reachable reader that is hunting: it was given noise and a frame start that was aborted
    (`A0 27 01 02 01 10 5A 87 E6 7D 7E`, abort detection on, then a second flag-free junk octet) -/
def histHunt : List (List Nat) := [[0x00, 0x7E, 0xA0, 0x27, 0x01], [0x02, 0x01, 0x10, 0x5A, 0x87, 0xE6, 0x7D, 0x7E, 0x11]]

example (s : Bool) :
    let cfg : Cfg := ⟨s, true⟩
    let r := (readAll cfg Reader.init histHunt).1
    r.core.frame = none ∧
    (readAll cfg r (bytewise (wire cfg.stuffing noise frames 1))).2.flatten =
      [expectedFrame fKaifa, expectedFrame fAidon, expectedFrame fEmpty] := by
  intro cfg r
  have hh : r.core.frame = none := by
    show (readAll cfg Reader.init histHunt).1.core.frame = none
    rw [readAll_core cfg Reader.init histHunt Reader.init_buf]
    cases s <;> decide +kernel
  exact ⟨hh, clean_stream_delivered_hunting cfg r ⟨histHunt, rfl⟩ hh noise frames 1 _ (by decide)
    (hframes cfg) (by decide) (bytewise_flatten _)⟩

/-- a reachable reader between two frames: it has just returned the real Kaifa frame -/
def histDone : List (List Nat) := [[0x7E] ++ fKaifa.encode.take 17, fKaifa.encode.drop 17 ++ [0x7E]]

example :
    let cfg : Cfg := ⟨false, true⟩
    let r := (readAll cfg Reader.init histDone).1
    (readAll cfg Reader.init histDone).2.flatten = [expectedFrame fKaifa] ∧
    (∃ f, r.core.frame = some f ∧ f.len = 0) ∧
    (readAll cfg r (bytewise (wire cfg.stuffing [] frames 1))).2.flatten =
      [expectedFrame fKaifa, expectedFrame fAidon, expectedFrame fEmpty] := by
  intro cfg r
  have hc : r.core = (run cfg Core.init histDone.flatten).1 :=
    readAll_core cfg Reader.init histDone Reader.init_buf
  have hf : r.core.frame = some Frame.empty := by rw [hc]; decide +kernel
  refine ⟨?_, ⟨_, hf, rfl⟩, ?_⟩
  · rw [(ReachableOct.init cfg).frames_eq_run]; decide +kernel
  · exact clean_stream_delivered_between_frames cfg r ⟨histDone, by decide +kernel, rfl⟩ _ hf rfl
      frames 1 _ (hframes cfg) (by decide) (bytewise_flatten _)

end ReadWitness

end Amshan.C02
