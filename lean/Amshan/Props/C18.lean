import Amshan.Lemmas.BackOff
/-
  C18 — reconnect pacing follows capped exponential back-off and the loss breaker
  (strategy object, breaker and _get_back_off_time; the timing of attempts on the event loop is
  part of the ConnectionManager model, Props/C17).
-/
namespace Amshan.C18
open Amshan.Gen Amshan.BackOff

/-- number of `failure()` calls since the last `reset()` (or since creation) -/
def failuresSinceReset : List Op → Nat
  | [] => 0
  | ops => (ops.reverse.takeWhile (· == Op.failure)).length

theorem failuresSinceReset_eq (ops : List Op) :
    failuresSinceReset ops = leadingFailures ops.reverse := by
  cases ops <;> rfl

/-- pin: a new strategy object reports delay 0 and has the default maximum (observed through the public API of a
    freshly constructed object; the bodies of failure(), reset(), current_delay_sec and _get_back_off_time are
    translated and proved equal to the model in Props/C18Gen.lean) -/
theorem literal_pins : backoffInitDelay = 0 ∧ backoffInitMax = defaultMaxDelay := by decide

/-- **C18 (strategy object).** For every sequence of failure()/reset() calls and every max_delay the
    strategy reports min(2^(n-1), max_delay) after n ≥ 1 failures since the last reset, and 0 after a
    reset (or initially). -/
theorem backoff_value (ops : List Op) (maxDelay : Nat) :
    ((Strategy.new maxDelay).run ops).current =
      (if failuresSinceReset ops = 0 then min 0 maxDelay
       else min (2 ^ (failuresSinceReset ops - 1)) maxDelay) := by
  rw [failuresSinceReset_eq, current_eq_min, run_maxDelay, run_delay _ rfl]
  show _ = if leadingFailures ops.reverse = 0 then min 0 maxDelay else _
  split <;> rfl

/-- a successful connection (reset) restarts the sequence -/
theorem reset_restarts (ops : List Op) (maxDelay : Nat) :
    ((Strategy.new maxDelay).run (ops ++ [Op.reset])).current = 0 := by
  rw [run_snoc, current_eq_min]
  simp [Strategy.apply, Strategy.reset]

/-- the delay never exceeds max_delay and never decreases under failure() -/
theorem capped_and_monotone (s : Strategy) : s.current ≤ s.maxDelay ∧ s.current ≤ s.failure.current := by
  simp only [current_eq_min, Strategy.failure]
  refine ⟨Nat.min_le_right _ _, ?_⟩
  split <;> omega

/-- **C18.** the sleep before an attempt is the larger of the connect-error delay and the breaker
    sleep -/
theorem sleep_time_eq (s : Strategy) (b : Breaker) :
    getBackOffTime s b = max s.current (if b.sleepFlag then b.sleepSec else 0) := by
  unfold getBackOffTime
  cases hf : b.sleepFlag <;> simp
  omega

/-- **C18 (breaker).** When an established connection is lost twice within the configured
    threshold, the next attempt waits at least the configured sleep; when the two losses are
    further apart it does not add any wait. -/
theorem breaker_sets (b : Breaker) (t1 t2 : Nat) (h12 : t1 ≤ t2)
    (hwithin : t2 - t1 < b.threshold * 1000000) (s : Strategy) :
    b.sleepSec ≤ getBackOffTime s ((b.update t1).update t2) := by
  have _ := h12
  rw [sleep_time_eq]
  have hflag : ((b.update t1).update t2).sleepFlag = true := by
    have ht : ((b.update t1).update t2).sleepFlag =
        (decide (t2 - t1 < b.threshold * 1000000) || decide (t2 < t1)) := by
      unfold Breaker.update; cases b.lastLoss <;> rfl
    rw [ht]; simp [hwithin]
  have hsleep : ((b.update t1).update t2).sleepSec = b.sleepSec := by
    unfold Breaker.update; cases b.lastLoss <;> rfl
  rw [hflag, hsleep]
  simp only [if_true]
  exact Nat.le_max_right _ _

theorem breaker_clears (b : Breaker) (t1 t2 : Nat) (h12 : t1 ≤ t2)
    (hapart : b.threshold * 1000000 ≤ t2 - t1) (s : Strategy) :
    getBackOffTime s ((b.update t1).update t2) = s.current := by
  rw [sleep_time_eq]
  have hflag : ((b.update t1).update t2).sleepFlag = false := by
    have ht : ((b.update t1).update t2).sleepFlag =
        (decide (t2 - t1 < b.threshold * 1000000) || decide (t2 < t1)) := by
      unfold Breaker.update; cases b.lastLoss <;> rfl
    rw [ht]
    have h1 : ¬ (t2 - t1 < b.threshold * 1000000) := by omega
    have h2 : ¬ (t2 < t1) := by omega
    simp [h1, h2]
  rw [hflag]
  simp

example : failuresSinceReset [Op.failure, Op.reset, Op.failure, Op.failure] = 2 := by decide

end Amshan.C18
