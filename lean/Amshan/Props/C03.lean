import Amshan.Lemmas.Fcs
/-
  C03 — FCS-16 implementation equals the RFC 1662 definition for every input.

  Model: Amshan/Model/Fcs.lean (han/fastframecheck.py; table and constants regenerated from source)
  Spec : Amshan/Spec/Rfc1662.lean (bit-serial FCS-16, nothing taken from the repository)
-/
namespace Amshan.C03
open Amshan.Gen Amshan.Rfc1662 Amshan.FcsLemmas

/-- The 256-entry table of the source is the RFC table: entry `i` is the result of shifting octet
    `i` serially into a zero register (re-proved against the regenerated table on every run). -/
theorem table_is_rfc : fcsTable = (List.range 256).map (fun i => stepSerial 0 i) := by
  rw [table_eq]
  apply List.map_congr_left
  intro i hi
  rw [stepSerial_eq 0 i (List.mem_range.mp hi), Nat.zero_xor]

/-- The table-driven step equals the bit-serial step for all 2^16 registers × 2^8 octets. -/
theorem step_eq_serial (r b : Nat) (hr : r < 65536) (hb : b < 256) :
    Fcs.next r b = stepSerial r b := by
  rw [next_eq_iter r b hr hb, stepSerial_eq r b hb]

theorem init_is_rfc : fcsInit = 0xFFFF := by decide

/-- `update()` over any byte string leaves the RFC register. -/
theorem update_eq (bs : List Nat) (h : Octets bs) : Fcs.feed fcsInit bs = register bs := by
  unfold register
  rw [init_is_rfc]
  have : ∀ (r : Nat), r < 65536 → Fcs.feed r bs = bs.foldl stepSerial r := by
    induction bs with
    | nil => intro r _; rfl
    | cons b bs ih =>
      intro r hr
      have hb : b < 256 := h b (by simp)
      simp only [Fcs.feed, List.foldl_cons]
      rw [step_eq_serial r b hr hb]
      have := ih (fun x hx => h x (by simp [hx])) (stepSerial r b)
        (by rw [← step_eq_serial r b hr hb]; exact next_lt r b hr hb)
      simpa [Fcs.feed] using this
  exact this 0xFFFF (by decide)

/-- `.checksum` after any byte string is the RFC FCS-16 (complemented register). -/
theorem checksum_eq (bs : List Nat) (h : Octets bs) :
    Fcs.checksum (Fcs.feed fcsInit bs) = fcs16 bs := by
  unfold Fcs.checksum fcs16
  rw [update_eq bs h]
  rfl

theorem computeLoop_eq (data : List Nat) (n i fcs : Nat) (h : i + n ≤ data.length) :
    Fcs.computeLoop data i n fcs = .ok (Fcs.feed fcs ((data.drop i).take n)) := by
  induction n generalizing i fcs with
  | zero => simp [Fcs.computeLoop, Fcs.feed]
  | succ n ih =>
    have hi : i < data.length := by omega
    simp only [Fcs.computeLoop, List.getElem?_eq_getElem hi]
    rw [ih (i + 1) _ (by omega)]
    have : (data.drop i).take (n + 1) = data[i] :: (data.drop (i + 1)).take n := by
      rw [List.drop_eq_getElem_cons hi, List.take_succ_cons]
    rw [this]
    simp [Fcs.feed, Fcs.next]

/-- `compute_checksum(data, start, length)` is the RFC FCS-16 of the window, for every window
    inside the data. -/
theorem computeChecksum_eq (data : List Nat) (start len : Nat) (h : Octets data)
    (hw : start + len ≤ data.length) :
    Fcs.computeChecksum data start len = .ok (fcs16 ((data.drop start).take len)) := by
  unfold Fcs.computeChecksum
  rw [computeLoop_eq data len start fcsInit hw]
  have hoct : Octets ((data.drop start).take len) := fun x hx =>
    h x (List.mem_of_mem_drop (List.mem_of_mem_take hx))
  simp only
  rw [update_eq _ hoct]
  rfl

/-- …and raises IndexError (as `data[i]` does) when a non-empty window leaves the data. -/
theorem computeChecksum_out_of_range (data : List Nat) (start len : Nat)
    (hl : 0 < len) (hw : start + len > data.length) :
    Fcs.computeChecksum data start len = .error .indexError := by
  unfold Fcs.computeChecksum
  have : ∀ n i fcs, 0 < n → i + n > data.length →
      Fcs.computeLoop data i n fcs = .error .indexError := by
    intro n
    induction n with
    | zero => intro i fcs h; omega
    | succ n ih =>
      intro i fcs _ h
      simp only [Fcs.computeLoop]
      by_cases hi : i < data.length
      · rw [List.getElem?_eq_getElem hi]
        exact ih (i + 1) _ (by omega) (by omega)
      · rw [List.getElem?_eq_none (by omega)]
  rw [this len start fcsInit hl hw]

/-- After a message has been fed, `is_good` is true exactly when the message ends with the FCS of
    the preceding octets, low octet first. -/
theorem residue (m : List Nat) (t0 t1 : Nat) (hm : Octets m) (h0 : t0 < 256) (h1 : t1 < 256) :
    Fcs.isGood (Fcs.feed fcsInit (m ++ [t0, t1])) = true ↔
      (t0 = fcs16 m % 256 ∧ t1 = fcs16 m / 256) := by
  have hr : Fcs.feed fcsInit m < 65536 := feed_lt _ _ (by decide) hm
  rw [feed_append]
  have hstep : Fcs.feed (Fcs.feed fcsInit m) [t0, t1] = Fcs.next (Fcs.next (Fcs.feed fcsInit m) t0) t1 := rfl
  rw [hstep, two_steps _ t0 t1 hr h0 h1]
  unfold Fcs.isGood
  rw [← good_const]
  have ht := trailer_lt t0 t1 h0 h1
  have hx : Fcs.feed fcsInit m ^^^ (t0 ^^^ t1 * 256) < 2 ^ 16 := Nat.xor_lt_two_pow hr ht
  have hfcs : fcs16 m = Fcs.feed fcsInit m ^^^ 0xFFFF := by
    unfold fcs16; rw [update_eq m hm]
  have hfl : fcs16 m < 2 ^ 16 := by rw [hfcs]; exact Nat.xor_lt_two_pow hr (by decide)
  constructor
  · intro h
    have h' : iter 16 65535 = iter 16 (Fcs.feed fcsInit m ^^^ (t0 ^^^ t1 * 256)) := by
      simpa using h
    have heq := iter_inj 16 _ _ (by decide) hx h'
    -- r ^^^ t = 0xFFFF  →  t = r ^^^ 0xFFFF
    have : t0 ^^^ t1 * 256 = fcs16 m := by
      rw [hfcs, heq, ← Nat.xor_assoc, Nat.xor_self, Nat.zero_xor]
    rw [trailer_eq_add t0 t1 h0] at this
    omega
  · rintro ⟨e0, e1⟩
    have : t0 ^^^ t1 * 256 = fcs16 m := by
      rw [trailer_eq_add t0 t1 h0]; omega
    rw [this, hfcs, ← Nat.xor_assoc, Nat.xor_self, Nat.zero_xor]
    simp

/-! Non-vacuity: the hypotheses are met by concrete, non-trivial data. -/
example : Octets [0x7E, 0xA0, 0xFF, 0x00] ∧ (0xA0 : Nat) < 256 := by decide
example : Fcs.isGood (Fcs.feed fcsInit ([1, 2, 3] ++ [fcs16 [1, 2, 3] % 256, fcs16 [1, 2, 3] / 256])) = true := by
  decide +kernel

end Amshan.C03
