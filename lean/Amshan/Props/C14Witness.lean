import Amshan.Props.C14Hdlc
import Amshan.Props.C14P1
import Amshan.Props.C01Witness
/-
  C14 — non-vacuity witnesses.  Only two theorems of Props/C14*.lean carry hypotheses:
  `fcsFieldE_ok` (`FrameInv f`) and `p1_read_total` (`Reachable r`).
-/
namespace Amshan.C14.Witness
set_option linter.defProp false
open Amshan.Gen Amshan.Hdlc

/-! ### `fcsFieldE_ok` : `FrameInv f` — the real frame of Props/C01Witness, its bit-flipped copy, and a frame
    that is still being assembled (five octets: no control position yet) -/

example : C01.Witness.good.fcsFieldE = .ok (some 0xEA5E) := by
  rw [fcsFieldE_ok _ C01.Witness.good_inv]; decide +kernel

example : C01.Witness.flipped.fcsFieldE = .ok C01.Witness.flipped.fcsField :=
  fcsFieldE_ok _ C01.Witness.flipped_inv

example : let f := C01.Witness.frameOf [0xA0, 0x27, 0x01, 0x02, 0x01]
    FrameInv f ∧ f.fcsFieldE = .ok none := by
  intro f
  have h : FrameInv f := ⟨by decide +kernel, by decide +kernel, by decide +kernel⟩
  exact ⟨h, by rw [fcsFieldE_ok f h]; decide +kernel⟩

/-- (the hypothesis looks stronger than necessary: `information_position = control position + 3 ≥ 3`, so the
    guarded branch `len < 2` of the partial model cannot be reached by any frame object; e.g. a frame object
    with an absurd cached control position still answers) -/
example : (Frame.mk [0xA0] fcsInit (some 0)).fcsFieldE = .ok none := by decide +kernel

/-- `readE_ok` has no hypothesis; on line noise with flags, escapes and bytes ≥ 0x80 it says `read()` returns -/
example : ∃ res, readE ⟨true, true⟩ Reader.init [0x7E, 0x7D, 0x7E, 0xFF, 0x2F, 0x21, 0x0A, 0x7D, 0x7E, 0x7E, 0xA0] = .ok res :=
  ⟨_, readE_ok _ _ _⟩

/-! ### `p1_read_total` : `Reachable r` — the reader after line noise containing every structural character
    ('/', '!', LF, CR, bytes ≥ 0x80, '!' inside an identification line, non-hex after '!') -/

def noise : List (List Nat) :=
  [[0x2F, 0xFF, 0xFE, 0x0A], [0x2F, 0x41, 0x42, 0x43, 0x35, 0x21, 0x78, 0x0D, 0x0A], [0x21, 0x7A, 0x7A, 0x0D, 0x0A, 0x2F, 0x4C],
   [0x47, 0x46, 0x35, 0x45, 0x33, 0x36, 0x30, 0x0D, 0x0A, 0x31, 0x2D], [0x7E, 0xA0, 0x0A]]

example : ∃ r, P1.Reachable r ∧ ∃ r' outs, P1.read r [0x21, 0x47, 0x0D, 0x0A, 0x2F] = .ok (r', outs) := by
  obtain ⟨r, outs, h⟩ := p1_readAll_total noise
  exact ⟨r, ⟨noise, outs, h⟩, p1_read_total r ⟨noise, outs, h⟩ _⟩

end Amshan.C14.Witness
