import Amshan.Lemmas.HdlcClean
/-
  C16 (HDLC part) — after arbitrary bytes the reader resynchronises with bounded loss, and an
  aborted, discarded or invalid frame never corrupts the frame that follows it.
-/
namespace Amshan.C16
open Amshan.Gen Amshan.Hdlc Amshan.HdlcSpec Amshan.HdlcClean

/-- **C16 (octet stuffing).** After ANY octets `pre` (noise, look-alike frame starts, a prefix ending
    in an escape octet, truncated frames, abort sequences …) a clean stream of stuffed well-formed
    frames is delivered completely except possibly its first frame: the frames returned end with
    all frames but the first, exact and in order. -/
theorem hdlc_resync_stuffing (cfg : Cfg) (hst : cfg.stuffing = true) (pre : List Nat)
    (hpre : Octets pre) (fs : List (FrameDesc × Nat)) (closing : Nat)
    (hfs : ∀ p ∈ fs, p.1.WF ∧ 1 ≤ p.2) (hcl : 1 ≤ closing) :
    ∃ junk, (run cfg Core.init (pre ++ wire true [] fs closing)).2 =
      junk ++ fs.tail.map (fun p => expectedFrame p.1) := by
  exact resync_stuffing_run cfg hst pre hpre fs closing hfs hcl

/-- the same through any splitting into `read()` calls -/
theorem hdlc_resync_stuffing_chunked (cfg : Cfg) (hst : cfg.stuffing = true) (pre : List Nat)
    (hpre : Octets pre) (fs : List (FrameDesc × Nat)) (closing : Nat)
    (hfs : ∀ p ∈ fs, p.1.WF ∧ 1 ≤ p.2) (hcl : 1 ≤ closing)
    (chunks : List (List Nat)) (hch : chunks.flatten = pre ++ wire true [] fs closing) :
    ∃ junk, (readAll cfg Reader.init chunks).2.flatten =
      junk ++ fs.tail.map (fun p => expectedFrame p.1) := by
  rw [readAll_init, hch]
  exact resync_stuffing_run cfg hst pre hpre fs closing hfs hcl

/-- **C16 (no stuffing).** Frames that contain no flag octet are delivered once the garbage frame in
    progress has died: there is a point at most `maxFrameLen` octets plus one frame (with its fill)
    into the clean stream after which every frame is delivered, exact and in order.
    `L` bounds the wire length `fill + |frame|` of every frame. -/
theorem hdlc_resync_plain (cfg : Cfg) (hst : cfg.stuffing = false) (pre : List Nat)
    (hpre : Octets pre) (fs : List (FrameDesc × Nat)) (closing L : Nat)
    (hfs : ∀ p ∈ fs, p.1.WF ∧ 1 ≤ p.2 ∧ flag ∉ p.1.encode ∧
      (cfg.abort = true → p.1.encode.getLast? ≠ some esc) ∧ p.2 + p.1.encode.length ≤ L)
    (hcl : 1 ≤ closing) :
    ∃ junk k, (run cfg Core.init (pre ++ wire false [] fs closing)).2 =
        junk ++ (fs.drop k).map (fun p => expectedFrame p.1) ∧
      ((fs.take k).map (fun p => p.2 + p.1.encode.length)).sum ≤ maxFrameLen + L + L := by
  exact resync_plain_run cfg hst pre hpre fs closing L hfs hcl

end Amshan.C16
