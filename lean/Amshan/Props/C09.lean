import Amshan.Lemmas.KamstrupRT
/-
  C09 — Kamstrup lists decode to the transmitted values with the documented scaling.
-/
namespace Amshan.C09
open Amshan.Gen Amshan.Cosem Amshan.ListSpec

def ScaledCorrect : Prop :=
  ∀ (v : Nat) (s : Nat), v < 4294967296 → (s = 1 ∨ s = 2 ∨ s = 3) →
    Flt.roundDigits (Flt.mul (Flt.ofInt v) (Flt.tenPowNeg s)) s = Flt.ofRat false v (10 ^ s)

/-- the scaling tables, the meter-type OBIS code and the CT prefix of the source are the documented
    ones -/
theorem tables_documented :
    kamScalingStd = [("1.1.1.8.0.255", 1), ("1.1.2.8.0.255", 1), ("1.1.3.8.0.255", 1), ("1.1.31.7.0.255", -2),
                     ("1.1.4.8.0.255", 1), ("1.1.51.7.0.255", -2), ("1.1.71.7.0.255", -2)] ∧
    kamScalingCt = [("1.1.1.8.0.255", 1), ("1.1.2.8.0.255", 1), ("1.1.3.8.0.255", 1), ("1.1.31.7.0.255", -3),
                    ("1.1.4.8.0.255", 1), ("1.1.51.7.0.255", -3), ("1.1.71.7.0.255", -3)] ∧
    kamNormalizeStrings = ["Kamstrup", "1.1.96.1.1.255", "685"] := by
  decide

/-- **C09 (bare body).** List-version string, OBIS-tagged elements with any amount of null-data
    padding after any element, any meter type number (CT meters begin with 685): currents =
    register/100 (register/1000 for CT meters), energies = register × 10, everything else unchanged,
    text verbatim, manufacturer 'Kamstrup'. -/
theorem kamstrup_body (hF : ScaledCorrect) (l : KamList) (h : l.WF) :
    Kamstrup.decodeBody (encKamList l) = .dict (kamExpected l) := by
  exact KamstrupRT.decodeBody_ok hF l h

/-- **C09 (frame).** The meter clock is the APDU date-time (it overrides a clock element); every
    other field as for the bare body. -/
theorem kamstrup_frame (hF : ScaledCorrect) (hd : Header) (hh : hd.WF) (hc : hd.clock ≠ .null)
    (l : KamList) (h : l.WF) :
    Kamstrup.decodeFrame (encHeader hd ++ encKamList l) =
      .dict ((kamExpected l).set "meter_datetime" (.dt (match hd.clock with
        | .tagged d => expectedDT d | .untagged d => expectedDT d | .null => default))) := by
  exact KamstrupRT.decodeFrame_ok hF hd hh hc l h

end Amshan.C09
