import Amshan.Props.C20
/-
  C20 — "format back losslessly", stated as injectivity: two codes that render to the same text are the
  same code.  Corollaries of the round-trip theorems (the parser is a left inverse of both formatters
  on the round-trip domain), plus the witnesses that show the side condition is needed: outside it
  (an optional group present and 0) the reduced formatter really does merge two different codes.
-/
namespace Amshan.C20
open Amshan.Gen Amshan.Obis Amshan.ObisSpec

/-- the round-trip domain of `roundtrip` / `roundtrip_str`, as one predicate on the six groups -/
def RoundTrippable (g : Groups) : Prop :=
  (optLe g.1 255 ∧ absentOrNonZero g.1) ∧ (optLe g.2.1 255 ∧ absentOrNonZero g.2.1) ∧
  g.2.2.1 ≤ 255 ∧ g.2.2.2.1 ≤ 255 ∧
  (optLe g.2.2.2.2.1 255 ∧ absentOrNonZero g.2.2.2.2.1) ∧
  (optLe g.2.2.2.2.2 255 ∧ absentOrNonZero g.2.2.2.2.2)

theorem roundtrip_of (g : Groups) (h : RoundTrippable g) : parse (toReducedStr g) = .ok g := by
  obtain ⟨a, b, c, d, e, f⟩ := g
  obtain ⟨ha, hb, hc, hd, he, hf⟩ := h
  exact roundtrip a b c d e f ha hb hc hd he hf

theorem roundtrip_str_of (g : Groups) (h : RoundTrippable g) : parse (toStr g) = .ok g := by
  obtain ⟨a, b, c, d, e, f⟩ := g
  obtain ⟨ha, hb, hc, hd, he, hf⟩ := h
  exact roundtrip_str a b c d e f ha hb hc hd he hf

/-- **C20 (lossless, reduced form).** On the round-trip domain the reduced rendering determines the code. -/
theorem toReducedStr_injective (g h : Groups) (hg : RoundTrippable g) (hh : RoundTrippable h)
    (e : toReducedStr g = toReducedStr h) : g = h := by
  have h1 := roundtrip_of g hg
  have h2 := roundtrip_of h hh
  rw [e, h2] at h1
  exact (Except.ok.inj h1).symm

/-- **C20 (lossless, `str`).** On the round-trip domain `str(obis)` determines the code. -/
theorem toStr_injective (g h : Groups) (hg : RoundTrippable g) (hh : RoundTrippable h)
    (e : toStr g = toStr h) : g = h := by
  have h1 := roundtrip_str_of g hg
  have h2 := roundtrip_str_of h hh
  rw [e, h2] at h1
  exact (Except.ok.inj h1).symm

/-- a rendering of a round-trippable code compares equal (`Obis.__eq__` with a string) to exactly that code -/
theorem eq_own_rendering (g h : Groups) (hh : RoundTrippable h) :
    eqStr g (toReducedStr h) = true ↔ g = h := by
  rw [eq_string_parses_first, roundtrip_of h hh]
  constructor
  · intro e; exact (Except.ok.inj e).symm
  · intro e; rw [e]

theorem eq_own_str (g h : Groups) (hh : RoundTrippable h) :
    eqStr g (toStr h) = true ↔ g = h := by
  rw [eq_string_parses_first, roundtrip_str_of h hh]
  constructor
  · intro e; exact (Except.ok.inj e).symm
  · intro e; rw [e]

/-- the side condition is needed: a present-but-zero optional group is dropped by the reduced formatter,
    so two different codes share one rendering (checked counterexample, not a defect: property C20 states
    the round trip for "absent or non-zero" optional groups) -/
theorem zero_group_merges :
    toReducedStr (some 0, none, 1, 8, none, none) = toReducedStr (none, none, 1, 8, none, none) ∧
    ((some 0, none, 1, 8, none, none) : Groups) ≠ (none, none, 1, 8, none, none) := by
  decide

/-- non-vacuity: a full six-group code is in the domain -/
example : RoundTrippable (some 1, some 1, 1, 8, some 2, some 255) := by
  simp [RoundTrippable, optLe, absentOrNonZero]

end Amshan.C20
