import Amshan.Props.C01Witness
import Amshan.Props.C01Detect
/-
  C01Detect — non-vacuity: `one_octet_damage_not_valid` instantiated on the real 39-octet frame of
  C01Witness (`good`) and its copy with octet 35 changed (`flipped`).  Only `example`s.
-/
namespace Amshan.C01.Witness
open Amshan.Gen Amshan.Hdlc Amshan.HdlcSpec

/-- every hypothesis of the theorem holds for (good, flipped); the conclusion is what `decide` computes -/
example : flipped.isValid = false :=
  one_octet_damage_not_valid good flipped good_inv flipped_inv
    (octets.take 35) (octets.drop 36) (octets.getD 35 0) 0x14
    (by decide +kernel) (by decide +kernel) (by decide +kernel) (by decide +kernel)

/-- and the octet-string form -/
example : ¬ Intact ((octets.take 35) ++ 0x14 :: (octets.drop 36)) :=
  intact_one_octet_damage (octets.take 35) (octets.drop 36) (octets.getD 35 0) 0x14
    (by decide +kernel) (by decide +kernel) (by decide +kernel) (by decide +kernel) (by decide +kernel)
    (by
      have h := (valid_iff_intact good good_inv).1 (by decide +kernel)
      have e : good.data = (octets.take 35) ++ (octets.getD 35 0) :: (octets.drop 36) := by decide +kernel
      rwa [e] at h)

/-- the two-octet form on the same frame: octets 35 and 36 replaced -/
example : ¬ Intact ((octets.take 35) ++ 0x14 :: 0x77 :: (octets.drop 37)) :=
  intact_two_adjacent_octets_damage (octets.take 35) (octets.drop 37) (octets.getD 35 0) (octets.getD 36 0)
    0x14 0x77
    (by decide +kernel) (by decide +kernel) (by decide +kernel) (by decide +kernel) (by decide +kernel)
    (by decide +kernel) (by decide +kernel)
    (by
      have h := (valid_iff_intact good good_inv).1 (by decide +kernel)
      have e : good.data = (octets.take 35) ++ (octets.getD 35 0) :: (octets.getD 36 0) :: (octets.drop 37) := by
        decide +kernel
      rwa [e] at h)

end Amshan.C01.Witness
