import Amshan.Props.C09
import Amshan.Props.C09Final
/-
  C09 — non-vacuity witnesses on the REAL Kamstrup hourly list of tests/test_kamstrup.py
  (NOTIFICATION_BODY_NO_LIST_2_SINGLE_PHASE_REAL_SAMPLE: list version "Kamstrup_V0001", 13 OBIS-tagged elements,
  four null-data octets of padding after the current and after the voltage, a clock element, non-zero
  registers) with its real header (untagged APDU date-time), plus the same list from a current-transformer
  meter (type number beginning with 685).  `ScaledCorrect` is the theorem `C09.scaledCorrect`.
-/
namespace Amshan.C09.Witness
set_option linter.defProp false
set_option maxRecDepth 100000
open Amshan.Gen Amshan.Cosem Amshan.ListSpec

def hexVal (c : Char) : Nat :=
  if c.isDigit then c.toNat - 48 else if c.toNat ≥ 97 then c.toNat - 87 else c.toNat - 55

def unhex (x : String) : List Nat :=
  let rec go : List Char → List Nat
    | a :: b :: r => (hexVal a * 16 + hexVal b) :: go r
    | _ => []
  go (x.toList.filter (· != ' '))

def s (x : String) : List Nat := x.toList.map Char.toNat

instance (v : KamVal) : Decidable v.WF := by cases v <;> unfold KamVal.WF <;> infer_instance
instance (e : KamElem) : Decidable e.WF := by
  unfold KamElem.WF; cases e.value <;> infer_instance
instance (l : KamList) : Decidable l.WF := by unfold KamList.WF; infer_instance
instance (h : Header) : Decidable h.WF := by unfold Header.WF; cases h.clock <;> infer_instance

/-- 2021-11-24 (Wednesday) 00:00:25 -/
def clk : DateTimeDesc := ⟨2021, 11, 24, 3, 0, 0, 25, none, none, 0⟩

def elems (meterType : String) : List KamElem := [
  ⟨[1, 1, 0, 0, 5, 255], .text (s "5705705705705702"), 0⟩,
  ⟨[1, 1, 96, 1, 1, 255], .text (s meterType), 0⟩,
  ⟨[1, 1, 1, 7, 0, 255], .u32 0x2742, 0⟩, ⟨[1, 1, 2, 7, 0, 255], .u32 0, 0⟩, ⟨[1, 1, 3, 7, 0, 255], .u32 0, 0⟩,
  ⟨[1, 1, 4, 7, 0, 255], .u32 0x117, 0⟩,
  ⟨[1, 1, 31, 7, 0, 255], .u32 0x11A0, 4⟩,
  ⟨[1, 1, 32, 7, 0, 255], .u16 0xDF, 4⟩,
  ⟨[0, 1, 1, 0, 0, 255], .clock clk, 0⟩,
  ⟨[1, 1, 1, 8, 0, 255], .u32 0x762EE2, 0⟩, ⟨[1, 1, 2, 8, 0, 255], .u32 0, 0⟩, ⟨[1, 1, 3, 8, 0, 255], .u32 0x35A3, 0⟩,
  ⟨[1, 1, 4, 8, 0, 255], .u32 0x116B53, 0⟩]

/-- the captured list (meter type 6861111BN242101040: not a CT meter) -/
def real : KamList := ⟨0x23, s "Kamstrup_V0001", 0, elems "6861111BN242101040"⟩
/-- the same list from a current-transformer meter -/
def ct : KamList := ⟨0x23, s "Kamstrup_V0001", 0, elems "6851121BN243101040"⟩

example : encKamList real = ["0223", "0a0e 4b616d73747275705f5630303031",
    "0906 0101000005ff  0a10 35373035373035373035373035373032",
    "0906 0101600101ff  0a12 36383631313131424e323432313031303430",
    "0906 0101010700ff  06 00002742", "0906 0101020700ff  06 00000000", "0906 0101030700ff  06 00000000",
    "0906 0101040700ff  06 00000117", "0906 01011f0700ff  06 000011a000000000", "0906 0101200700ff  12 00df00000000",
    "0906 0001010000ff  090c 07e50b1803000019ff800000", "0906 0101010800ff  06 00762ee2",
    "0906 0101020800ff  06 00000000", "0906 0101030800ff  06 000035a3", "0906 0101040800ff  06 00116b53"].flatMap unhex := by
  decide +kernel

/-! ### `kamstrup_body(_final)` : `ScaledCorrect`, `l.WF` -/

def wfReal : real.WF := by decide +kernel
def wfCt : ct.WF := by decide +kernel

example : Kamstrup.decodeBody (encKamList real) = .dict (kamExpected real) ∧
    Kamstrup.decodeBody (encKamList ct) = .dict (kamExpected ct) :=
  ⟨kamstrup_body scaledCorrect real wfReal, kamstrup_body_final ct wfCt⟩

/-- current = register/100 (0x11A0 = 4512 → 45.12 A), energy = register × 10, voltage and power unchanged,
    the clock element, texts verbatim -/
example : kamIsCt real = false ∧
    (kamExpected real).lookup "meter_manufacturer" = some (.str (s "Kamstrup")) ∧
    (kamExpected real).lookup "list_ver_id" = some (.str (s "Kamstrup_V0001")) ∧
    (kamExpected real).lookup "meter_type" = some (.str (s "6861111BN242101040")) ∧
    (kamExpected real).lookup "current_l1" = some (.flt (Flt.ofRat false 4512 100)) ∧
    (kamExpected real).lookup "voltage_l1" = some (.int 223) ∧
    (kamExpected real).lookup "active_power_import" = some (.int 10050) ∧
    (kamExpected real).lookup "active_power_import_total" = some (.int 77452500) ∧
    (kamExpected real).lookup "meter_datetime" = some (.dt ⟨2021, 11, 24, 0, 0, 25, 0, none⟩) ∧
    (kamExpected real).length = 15 := by
  decide +kernel

/-- CT meter: current = register/1000 -/
example : kamIsCt ct = true ∧ (kamExpected ct).lookup "current_l1" = some (.flt (Flt.ofRat false 4512 1000)) ∧
    (kamExpected ct).lookup "active_power_import_total" = some (.int 77452500) := by
  decide +kernel

/-! ### `kamstrup_frame(_final)` : additionally `hd.WF`, `hd.clock ≠ .null` -/

/-- E6 E7 00 0F 00000000 0C 07E5 0B 18 03 00 00 19 FF 8000 00 (untagged date-time), here with a clock that
    differs from the list's clock element by 5 s, to see which one wins -/
def clkH : DateTimeDesc := ⟨2021, 11, 24, 3, 0, 0, 30, none, none, 0⟩
def hdr : Header := ⟨[0xE6, 0xE7, 0x00], 0x0F, [0, 0, 0, 0], .untagged clkH⟩

example : encHeader hdr = unhex "e6e700 0f 00000000 0c07e50b180300001eff800000" := by decide +kernel

example : hdr.WF ∧ hdr.clock ≠ .null ∧
    Kamstrup.decodeFrame (encHeader hdr ++ encKamList real) =
      .dict ((kamExpected real).set "meter_datetime" (.dt (expectedDT clkH))) ∧
    ((kamExpected real).set "meter_datetime" (.dt (expectedDT clkH))).lookup "meter_datetime" =
      some (.dt ⟨2021, 11, 24, 0, 0, 30, 0, none⟩) :=
  ⟨by decide, by decide, kamstrup_frame_final hdr (by decide) (by decide) real wfReal, by decide +kernel⟩

/-! ### what `KamList.WF` excludes -/

/-- an element whose C.D.E the name table does not know (here 1.1.99.7.0.255) is outside the theorem
    (the decoder raises KeyError for it) -/
example : ¬ (KamElem.mk [1, 1, 99, 7, 0, 255] (.u32 1) 0).WF := by decide +kernel

end Amshan.C09.Witness
