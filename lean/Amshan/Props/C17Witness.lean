import Amshan.Props.C17
/-
  C17 — non-vacuity witnesses: every hypothesis-carrying theorem of Props/C17.lean is instantiated on states of
  ONE concrete, realistic run of the manager model (max_delay 60 s, loss threshold 5 s, loss sleep 5 s):

    connect_loop starts · first attempt fails · second attempt (after the 1 s back-off) succeeds ·
    the connection is lost · reconnect succeeds · lost again 2 s later (inside the threshold: breaker set) ·
    close() arrives while the connect task sleeps out the 5 s breaker delay · connect_loop returns.

  `exec` runs a list of transition labels; `reach_exec` turns a successful execution into `Reach`.
-/
namespace Amshan.C17.Witness
set_option linter.defProp false
set_option maxRecDepth 100000
open Amshan.BackOff Amshan.ConnMgr

def exec : S → List Label → Option S
  | s, [] => some s
  | s, l :: ls => match next s l with | some s1 => exec s1 ls | none => none

def reach_exec {md th sl : Nat} : ∀ (ls : List Label) (s s' : S), Reach md th sl s → exec s ls = some s' →
    Reach md th sl s'
  | [], s, s', h, e => by simp only [exec, Option.some.injEq] at e; exact e ▸ h
  | l :: ls, s, s', h, e => by
    simp only [exec] at e
    cases hn : next s l with
    | none => rw [hn] at e; cases e
    | some s1 => rw [hn] at e; exact reach_exec ls s1 s' (Reach.step s s1 l h hn) e

def s0 : S := S.init 60 5 5

/-- the run, cut into phases -/
def toFirstFailure : List Label := [.lRun, .tRun, .factoryFail]          -- attempt at t=0 fails
def toSleeping : List Label := toFirstFailure ++ [.lRun, .tRun]           -- new connect task sleeps until t=1
def toSecondAttempt : List Label := toSleeping ++ [.tick 1, .tRun]        -- attempt at t=1
def toConnected : List Label := toSecondAttempt ++ [.factoryOk, .lRun]    -- connected, loop waits in w2
def toLost1 : List Label := toConnected ++ [.tick 100, .lose, .lRun, .tRun, .factoryOk, .lRun]   -- lost at 101, reconnected
def toLost2 : List Label := toLost1 ++ [.tick 2, .lose, .lRun, .tRun]     -- lost again at 103: breaker → sleeps 5 s
def toClosing : List Label := toLost2 ++ [.tick 1, .close]                -- close() during that sleep
def toExit : List Label := toClosing ++ [.lRun]

def st (ls : List Label) : S := (exec s0 ls).getD s0

def reach (ls : List Label) (h : (exec s0 ls).isSome = true) : Reach 60 5 5 (st ls) := by
  cases he : exec s0 ls with
  | none => rw [he] at h; cases h
  | some s' =>
    have : st ls = s' := by simp only [st, he, Option.getD_some]
    rw [this]
    exact reach_exec ls s0 s' Reach.init he

def rSleeping : Reach 60 5 5 (st toSleeping) := reach _ (by decide +kernel)
def rConnected : Reach 60 5 5 (st toConnected) := reach _ (by decide +kernel)
def rLost2 : Reach 60 5 5 (st toLost2) := reach _ (by decide +kernel)
def rClosing : Reach 60 5 5 (st toClosing) := reach _ (by decide +kernel)
def rExit : Reach 60 5 5 (st toExit) := reach _ (by decide +kernel)

/-- the event log of the whole run: (time, event) -/
example : (st toExit).log =
    [(0, .attempt), (0, .failed), (1, .attempt), (1, .obtained 0), (101, .lost 0), (101, .attempt), (101, .obtained 1),
     (103, .lost 1), (104, .closeCalled), (104, .loopDone)] := by
  decide +kernel

/-! ### `at_most_one_live`, `tasks_bounded`, `no_deadlock` : `Reach s` (and `lpc ≠ exited`) -/

example : (st toConnected).live = [0] ∧ (st toConnected).conn = some 0 ∧ (st toConnected).lpc = .w2 ∧
    (st toConnected).live.length ≤ 1 ∧ pendingTasks (st toConnected) ≤ 3 ∧ pendingTasks (st toConnected) = 2 :=
  ⟨by decide +kernel, by decide +kernel, by decide +kernel, (at_most_one_live _ rConnected).1,
   tasks_bounded _ rConnected, by decide +kernel⟩

/-- connected and waiting for the loss of the live connection: the last disjunct of `no_deadlock` is the one
    that holds; while sleeping out the back-off, the third -/
example : (st toConnected).lpc ≠ .exited ∧ next (st toConnected) .lRun = none ∧ next (st toConnected) .tRun = none ∧
    ((st toConnected).lpc = .w2 ∧ ∃ c, (st toConnected).conn = some c ∧ c ∈ (st toConnected).live) ∧
    (st toSleeping).t = .sleeping 1 := by
  refine ⟨by decide +kernel, by decide +kernel, by decide +kernel, ?_, by decide +kernel⟩
  have hl : next (st toConnected) .lRun = none := by decide +kernel
  have ht : next (st toConnected) .tRun = none := by decide +kernel
  have hf : (st toConnected).t = .finished := by decide +kernel
  rcases no_deadlock _ rConnected (by decide +kernel) with ⟨_, h⟩ | ⟨_, h⟩ | ⟨u, h⟩ | h | h
  · rw [hl] at h; cases h
  · rw [ht] at h; cases h
  · rw [hf] at h; cases h
  · rw [hf] at h; cases h
  · exact h

/-! ### `attempt_only_after_previous_ended`, `no_attempt_after_close`, `attempt_not_before_wake` :
    a transition that logs an attempt — the wake-up of the connect task at t = 1 -/

def beforeAttempt : S := st (toSleeping ++ [.tick 1])
def afterAttempt : S := st toSecondAttempt

def hstep : next beforeAttempt .tRun = some afterAttempt := by decide +kernel
def hlog : (beforeAttempt.now, Ev.attempt) ∈ afterAttempt.log.drop beforeAttempt.log.length := by decide +kernel

example : beforeAttempt.t = .sleeping 1 ∧ beforeAttempt.now = 1 ∧
    (beforeAttempt.live = [] ∧ beforeAttempt.conn = none) ∧
    (beforeAttempt.closing = false ∧ beforeAttempt.lpc ≠ .exited) ∧ 1 ≤ beforeAttempt.now := by
  have hr : Reach 60 5 5 beforeAttempt := reach _ (by decide +kernel)
  exact ⟨by decide +kernel, by decide +kernel,
    attempt_only_after_previous_ended _ _ .tRun hr hstep hlog,
    no_attempt_after_close _ _ .tRun hr hstep hlog,
    attempt_not_before_wake _ _ 1 hstep (by decide +kernel) hlog⟩

/-- the same for the reconnect attempt right after the first loss (previous connection 0 has ended) -/
example : let s := st (toConnected ++ [.tick 100, .lose, .lRun])
    ∃ s', next s .tRun = some s' ∧ (s.now, Ev.attempt) ∈ s'.log.drop s.log.length ∧ s.live = [] ∧ s.conn = none ∧
      s.doneSet = [0] := by
  intro s
  have hr : Reach 60 5 5 s := reach _ (by decide +kernel)
  have hs : next s .tRun = some (st toLost1 |> fun _ => (next s .tRun).getD s) := by decide +kernel
  have hl : (s.now, Ev.attempt) ∈ ((next s .tRun).getD s).log.drop s.log.length := by decide +kernel
  have := attempt_only_after_previous_ended s _ .tRun hr hs hl
  exact ⟨_, hs, hl, this.1, this.2, by decide +kernel⟩

/-! ### `sleeps_backoff_time` : `next s .tRun = some s'`, `s.t = .created`, no cancel request, back-off > 0 —
    (a) after one failure: 1 s; (b) after two losses within the threshold: the breaker's 5 s -/

example : let s := st (toFirstFailure ++ [.lRun])
    s.t = .created ∧ s.cancelReq = false ∧ getBackOffTime s.backoff s.breaker = 1 ∧
    ∃ s', next s .tRun = some s' ∧ s'.t = .sleeping (s.now + getBackOffTime s.backoff s.breaker) ∧ s'.log = s.log := by
  intro s
  have hs : next s .tRun = some ((next s .tRun).getD s) := by decide +kernel
  exact ⟨by decide +kernel, by decide +kernel, by decide +kernel, _, hs,
    sleeps_backoff_time s _ hs (by decide +kernel) (by decide +kernel) (by decide +kernel)⟩

example : let s := st (toLost1 ++ [.tick 2, .lose, .lRun])
    s.breaker.sleepFlag = true ∧ s.backoff.current = 0 ∧ getBackOffTime s.backoff s.breaker = 5 ∧ s.now = 103 ∧
    ∃ s', next s .tRun = some s' ∧ s'.t = .sleeping 108 := by
  intro s
  have hs : next s .tRun = some ((next s .tRun).getD s) := by decide +kernel
  have h := sleeps_backoff_time s _ hs (by decide +kernel) (by decide +kernel) (by decide +kernel)
  refine ⟨by decide +kernel, by decide +kernel, by decide +kernel, by decide +kernel, _, hs, ?_⟩
  rw [h.1]; decide +kernel

/-! ### `close_never_waits` : `Reach s`, `closing = true`, `lpc ≠ exited` — close() landed during the 5 s sleep -/

example : (st toClosing).closing = true ∧ (st toClosing).t = .sleeping 108 ∧ (st toClosing).now = 104 ∧
    (st toClosing).lpc = .w1 ∧ ∃ s', next (st toClosing) .lRun = some s' ∧ s'.lpc = .exited :=
  ⟨by decide +kernel, by decide +kernel, by decide +kernel, by decide +kernel,
   close_never_waits _ rClosing (by decide +kernel) (by decide +kernel)⟩

/-! ### `exits_only_when_closing` : the transition into `exited` -/

example : next (st toClosing) .lRun = some (st toExit) ∧ (st toClosing).lpc ≠ .exited ∧ (st toExit).lpc = .exited ∧
    (st toClosing).closing = true := by
  have hs : next (st toClosing) .lRun = some (st toExit) := by decide +kernel
  exact ⟨hs, by decide +kernel, by decide +kernel,
    exits_only_when_closing _ _ .lRun rClosing hs (by decide +kernel) (by decide +kernel)⟩

/-! ### `exited_clean` : `Reach s`, `lpc = exited` — both transports closed or lost, the sleeping connect task has
    a cancellation pending and never reaches the factory -/

example : (st toExit).live = [] ∧ (st toExit).conn = none ∧ (st toExit).waiters = 0 ∧
    ((st toExit).t = .none ∨ (st toExit).t = .finished ∨ (st toExit).cancelReq = true) ∧
    (st toExit).t = .sleeping 108 ∧ (st toExit).cancelReq = true ∧
    (exec (st toExit) [.tick 10, .tRun]).map (·.log.length) = some (st toExit).log.length :=
  ⟨(exited_clean _ rExit (by decide +kernel)).1, (exited_clean _ rExit (by decide +kernel)).2.1,
   (exited_clean _ rExit (by decide +kernel)).2.2.1, (exited_clean _ rExit (by decide +kernel)).2.2.2,
   by decide +kernel, by decide +kernel, by decide +kernel⟩

/-- close() while CONNECTED: the transport is closed at once, and connect_loop exits at its next step -/
example : let s := (next (st toConnected) .close).getD s0
    Reach 60 5 5 s ∧ s.live = [] ∧ s.closing = true ∧ ∃ s', next s .lRun = some s' ∧ s'.lpc = .exited := by
  intro s
  have hr : Reach 60 5 5 s := Reach.step _ _ .close rConnected (by decide +kernel)
  exact ⟨hr, by decide +kernel, by decide +kernel, close_never_waits s hr (by decide +kernel) (by decide +kernel)⟩

end Amshan.C17.Witness
