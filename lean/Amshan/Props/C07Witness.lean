import Amshan.Props.C07
/-
  C07 — non-vacuity witnesses on the REAL Aidon list 3 of tests/test_aidon.py (NOTIFICATION_BODY_NO_LIST_3,
  17 elements: three texts, four powers, two signed 16-bit currents and three unsigned 16-bit voltages
  with scaler −1, a clock element, four energies with scaler +1) re-expressed with the Spec encoder, with the
  real LLC/APDU header E6 E7 00 0F 40000000 00; plus a variant with a NEGATIVE current and boundary registers.
-/
namespace Amshan.C07.Witness
set_option linter.defProp false
set_option maxRecDepth 100000
open Amshan.Gen Amshan.Cosem Amshan.ListSpec

def hexVal (c : Char) : Nat :=
  if c.isDigit then c.toNat - 48 else if c.toNat ≥ 97 then c.toNat - 87 else c.toNat - 55

/-- octets of a hex string (as written in the test files) -/
def unhex (x : String) : List Nat :=
  let rec go : List Char → List Nat
    | a :: b :: r => (hexVal a * 16 + hexVal b) :: go r
    | _ => []
  go (x.toList.filter (· != ' '))

def s (x : String) : List Nat := x.toList.map Char.toNat

instance (e : AidonElem) : Decidable e.WF := by cases e <;> unfold AidonElem.WF <;> infer_instance
instance (h : Header) : Decidable h.WF := by
  unfold Header.WF; cases h.clock <;> infer_instance

/-- 2020-01-21 16:00:00, Tuesday, hundredths not specified, deviation 0, status 0 -/
def clk : DateTimeDesc := ⟨2020, 1, 21, 2, 16, 0, 0, none, some 0, 0⟩

def list3 : List AidonElem := [
  .text [1, 1, 0, 2, 129, 255] (s "AIDON_V0001"),
  .text [0, 0, 96, 1, 0, 255] (s "7359992892587665"),
  .text [0, 0, 96, 1, 7, 255] (s "6525"),
  .reg [1, 0, 1, 7, 0, 255] .u32 280 0 27,
  .reg [1, 0, 2, 7, 0, 255] .u32 0 0 27,
  .reg [1, 0, 3, 7, 0, 255] .u32 0 0 29,
  .reg [1, 0, 4, 7, 0, 255] .u32 128 0 29,
  .reg [1, 0, 31, 7, 0, 255] .s16 13 (-1) 33,
  .reg [1, 0, 71, 7, 0, 255] .s16 9 (-1) 33,
  .reg [1, 0, 32, 7, 0, 255] .u16 2276 (-1) 35,
  .reg [1, 0, 52, 7, 0, 255] .u16 2303 (-1) 35,
  .reg [1, 0, 72, 7, 0, 255] .u16 2309 (-1) 35,
  .clock [0, 0, 1, 0, 0, 255] clk,
  .reg [1, 0, 1, 8, 0, 255] .u32 0x0022AB8A 1 30,
  .reg [1, 0, 2, 8, 0, 255] .u32 0 1 30,
  .reg [1, 0, 3, 8, 0, 255] .u32 0xE383 1 32,
  .reg [1, 0, 4, 8, 0, 255] .u32 0x029B5B 1 32]

/-- the Spec encoder reproduces the captured octets -/
example : encAidonBody list3 = [
    "0111",
    "020209060101000281ff0a0b4149444f4e5f5630303031",
    "020209060000600100ff0a1037333539393932383932353837363635",
    "020209060000600107ff0a0436353235020309060100010700ff0600000118",
    "02020f00161b020309060100020700ff0600000000",
    "02020f00161b020309060100030700ff0600000000",
    "02020f00161d020309060100040700ff0600000080",
    "02020f00161d0203090601001f0700ff10000d",
    "02020fff1621020309060100470700ff100009",
    "02020fff1621020309060100200700ff1208e4",
    "02020fff1623020309060100340700ff1208ff",
    "02020fff1623020309060100480700ff120905",
    "02020fff1623020209060000010000ff090c07e4011502100000ff000000",
    "020309060100010800ff060022ab8a",
    "02020f01161e020309060100020800ff0600000000",
    "02020f01161e020309060100030800ff060000e383",
    "02020f011620020309060100040800ff0600029b5b",
    "02020f011620"].flatMap unhex := by
  decide +kernel

/-! ### `aidon_roundtrip_body` : `∀ e ∈ es, e.WF`, `es.length ≤ 255` -/

def wf3 : ∀ e ∈ list3, e.WF := by decide +kernel

example : Aidon.decodeBody (encAidonBody list3) = .dict (aidonExpected list3) := by
  have := aidon_roundtrip_body list3 wf3 (by decide) []
  rwa [List.append_nil] at this

/-- the expected dictionary is the one the test file asserts: 280 W, 1.3 A, 227.6 V, 22 721 380 Wh … -/
example : (aidonExpected list3).lookup "meter_manufacturer" = some (.str (s "Aidon")) ∧
    (aidonExpected list3).lookup "list_ver_id" = some (.str (s "AIDON_V0001")) ∧
    (aidonExpected list3).lookup "meter_id" = some (.str (s "7359992892587665")) ∧
    (aidonExpected list3).lookup "active_power_import" = some (.int 280) ∧
    (aidonExpected list3).lookup "current_l1" = some (.flt (Flt.ofRat false 13 10)) ∧
    (aidonExpected list3).lookup "voltage_l1" = some (.flt (Flt.ofRat false 2276 10)) ∧
    (aidonExpected list3).lookup "active_power_import_total" = some (.flt (Flt.ofRat false 22721380 1)) ∧
    (aidonExpected list3).lookup "meter_datetime" = some (.dt ⟨2020, 1, 21, 16, 0, 0, 0, some 0⟩) ∧
    (aidonExpected list3).length = 18 := by
  decide +kernel

/-! ### `aidon_roundtrip_frame` : additionally `hd.WF` -/

/-- E6 E7 00 | 0F | 40 00 00 00 | 00 (null date-time) -/
def hdr : Header := ⟨[0xE6, 0xE7, 0x00], 0x0F, [0x40, 0, 0, 0], .null⟩

example : hdr.WF ∧ encHeader hdr = unhex "e6e7000f4000000000" ∧
    Aidon.decodeFrame (encHeader hdr ++ encAidonBody list3) = .dict (aidonExpected list3) := by
  refine ⟨by decide, by decide, ?_⟩
  have := aidon_roundtrip_frame hdr (by decide) list3 wf3 (by decide) []
  rwa [List.append_nil] at this

/-- a header with a tagged date-time, and trailing octets after the list -/
example : let h2 : Header := ⟨[0xE6, 0xE7, 0x00], 0x0F, [0, 0, 0, 0], .tagged clk⟩
    h2.WF ∧ Aidon.decodeFrame (encHeader h2 ++ encAidonBody list3 ++ [0xDE, 0xAD]) = .dict (aidonExpected list3) :=
  ⟨by decide, aidon_roundtrip_frame _ (by decide) list3 wf3 (by decide) [0xDE, 0xAD]⟩

/-! ### registers at the boundaries of their types, negative current, scalers −3 … 3, control characters
    in a text -/

def edge : List AidonElem := [
  .reg [1, 0, 31, 7, 0, 255] .s16 (-57) (-1) 33,          -- −5.7 A (export)
  .reg [1, 0, 51, 7, 0, 255] .s16 (-32768) (-2) 33,
  .reg [1, 0, 71, 7, 0, 255] .s16 32767 (-3) 33,
  .reg [1, 0, 1, 8, 0, 255] .u32 4294967295 3 30,
  .reg [1, 0, 32, 7, 0, 255] .u16 65535 2 35,
  .text [0, 0, 96, 1, 0, 255] [0, 9, 65, 127]]

example : (∀ e ∈ edge, e.WF) ∧ Aidon.decodeBody (encAidonBody edge) = .dict (aidonExpected edge) ∧
    (aidonExpected edge).lookup "current_l1" = some (.flt (Flt.ofRat true 57 10)) ∧
    (aidonExpected edge).lookup "current_l2" = some (.flt (Flt.ofRat true 32768 100)) ∧
    (aidonExpected edge).lookup "active_power_import_total" = some (.flt (Flt.ofRat false 4294967295000 1)) := by
  have h : ∀ e ∈ edge, e.WF := by decide +kernel
  have := aidon_roundtrip_body edge h (by decide) []
  rw [List.append_nil] at this
  exact ⟨h, this, by decide +kernel, by decide +kernel, by decide +kernel⟩

/-- the hypotheses are restrictions that matter: a 256-element list and a register out of range are
    excluded (their encodings would not be what the meter sends) -/
example : ¬ (AidonElem.reg [1, 0, 31, 7, 0, 255] .s16 40000 (-1) 33).WF := by decide

end Amshan.C07.Witness
