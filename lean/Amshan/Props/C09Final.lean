import Amshan.Props.C09
import Amshan.Props.C11Float
/- C09 with the floating-point hypothesis discharged (see Props/C11Float.lean). -/
namespace Amshan.C09
open Amshan.Cosem Amshan.ListSpec

theorem scaledCorrect : ScaledCorrect := fun v s hv hs => Amshan.C11.scaled_correct v s hv hs

theorem kamstrup_body_final (l : KamList) (h : l.WF) :
    Kamstrup.decodeBody (encKamList l) = .dict (kamExpected l) :=
  kamstrup_body scaledCorrect l h

theorem kamstrup_frame_final (hd : Header) (hh : hd.WF) (hc : hd.clock ≠ .null) (l : KamList) (h : l.WF) :
    Kamstrup.decodeFrame (encHeader hd ++ encKamList l) =
      .dict ((kamExpected l).set "meter_datetime" (.dt (match hd.clock with
        | .tagged d => expectedDT d | .untagged d => expectedDT d | .null => default))) :=
  kamstrup_frame scaledCorrect hd hh hc l h

end Amshan.C09
