import Amshan.Lemmas.Auto
/-
  C12 (generic part) — AutoDecoder picks a decoder that accepts the message, across any history.
  Generic in the decoder functions; `hc` = the `except` clause catches every exception class a
  decoder can raise (`all_caught` below, re-proved against the regenerated clause on every run).
-/
namespace Amshan.C12
open Amshan.Gen Amshan.Auto

variable {α β : Type}

def accepts (d : Decoder α β) (p : α) : Bool :=
  match d p with
  | .ok _ => true
  | .error _ => false

/-- the `except` clauses of both methods, as read from the source, catch every exception class -/
theorem accepts_eq (d : Decoder α β) (p : α) : accepts d p = acc d p := rfl

theorem all_caught (e : PyExc) : caughtBy caughtPayload e = true ∧ caughtBy caughtMessage e = true := by
  cases e <;> decide

theorem decoder_order_pin : decoderOrder =
    ["Aidon_frame", "Kaifa_frame", "Kamstrup_frame", "P1", "Aidon_notification_body",
     "Kaifa_notification_body", "Kamstrup_notification_body"] := by decide

/-- no exception escapes and a result is always produced -/
theorem step_total (decs : List (Decoder α β)) (caught : PyExc → Bool) (hc : ∀ e, caught e = true)
    (prev : Option Nat) (p : α) : ∃ r, step decs caught prev p = .ok r := by
  obtain ⟨r, hr⟩ := tryLoop_total decs caught hc (startOf prev) p decs.length 0 (Nat.le_refl _)
  rw [step_eq, hr]
  cases r with
  | none => exact ⟨_, rfl⟩
  | some iv => exact ⟨_, rfl⟩

/-- **C12.** the result is None exactly when no individual decoder accepts the payload -/
theorem none_iff_all_reject (decs : List (Decoder α β)) (caught : PyExc → Bool)
    (hc : ∀ e, caught e = true) (prev : Option Nat) (p : α) :
    (∃ prev', step decs caught prev p = .ok (prev', none)) ↔ ∀ d ∈ decs, accepts d p = false := by
  constructor
  · rintro ⟨prev', h⟩ d hd
    rw [step_none_iff] at h
    obtain ⟨t, ht, hdt⟩ := List.getElem_of_mem hd
    obtain ⟨j, hj, hjt⟩ := cyclic_surj decs.length (startOf prev) t ht
    refine tryLoop_none decs caught (startOf prev) p decs.length 0 h.1 j (Nat.zero_le _) (by omega) d ?_
    rw [hjt, List.getElem?_eq_getElem ht, hdt]
  · intro h
    refine ⟨prev, (step_none_iff ..).2 ⟨?_, rfl⟩⟩
    apply tryLoop_none_of_reject decs caught hc (startOf prev) p decs.length 0 (Nat.le_refl _)
    intro j _ _ d hd
    exact h d (List.mem_of_getElem? hd)

/-- **C12.** otherwise it equals the result of a decoder that accepts it, and the remembered index
    names that decoder -/
theorem result_from_accepting (decs : List (Decoder α β)) (caught : PyExc → Bool)
    (prev : Option Nat) (p : α) (idx : Option Nat) (v : β)
    (h : step decs caught prev p = .ok (idx, some v)) :
    ∃ i d, idx = some i ∧ decs[i]? = some d ∧ d p = .ok v := by
  obtain ⟨i, hi, hidx⟩ := (step_some_iff ..).1 h
  obtain ⟨_, _, _, _, ⟨d, hd, hv⟩, _⟩ := tryLoop_some _ _ _ _ _ _ _ _ hi
  exact ⟨i, d, hidx, hd, hv⟩

/-- **C12.** the most recently successful decoder is used whenever that one accepts the payload -/
theorem prefers_previous (decs : List (Decoder α β)) (caught : PyExc → Bool) (i : Nat)
    (d : Decoder α β) (p : α) (v : β) (hi : decs[i]? = some d) (hv : d p = .ok v) :
    step decs caught (some i) p = .ok (some i, some v) := by
  have hlt : i < decs.length := (List.getElem?_eq_some_iff.1 hi).1
  rw [step_eq]
  have hs : startOf (some i) = i := rfl
  rw [hs]
  obtain ⟨k, hk⟩ : ∃ k, decs.length = k + 1 := ⟨decs.length - 1, by omega⟩
  rw [hk, tryLoop_succ, Nat.zero_add, Nat.mod_eq_of_lt hlt, hi]
  simp only [hv]

/-- the decoder chosen is the first accepting one in cyclic order starting at the remembered index -/
theorem first_in_cyclic_order (decs : List (Decoder α β)) (caught : PyExc → Bool)
    (hc : ∀ e, caught e = true) (prev : Option Nat) (p : α) (i : Nat) (v : β)
    (h : step decs caught prev p = .ok (some i, some v)) :
    ∃ j, j < decs.length ∧ i = (j + prev.getD 0) % decs.length ∧
      ∀ j', j' < j → ∀ d, decs[(j' + prev.getD 0) % decs.length]? = some d → accepts d p = false := by
  have _ := hc
  obtain ⟨i', hi, hidx⟩ := (step_some_iff ..).1 h
  cases hidx
  obtain ⟨j, _, hj2, hj3, _, hj5⟩ := tryLoop_some _ _ _ _ _ _ _ _ hi
  rw [startOf_eq_getD] at hj3 hj5
  exact ⟨j, by omega, hj3, fun j' hj' d hd => hj5 j' (Nat.zero_le _) hj' d hd⟩

/-- **C12.** `previous_success_decoder` is unchanged by payloads nobody accepts -/
theorem previous_unchanged_on_none (decs : List (Decoder α β)) (caught : PyExc → Bool)
    (prev prev' : Option Nat) (p : α) (h : step decs caught prev p = .ok (prev', none)) :
    prev' = prev := ((step_none_iff ..).1 h).2

/-- **C12 (histories).** After any history, the remembered decoder is the one that produced the
    latest non-None result (and the initial value if there was none). -/
theorem previous_names_last_success (decs : List (Decoder α β)) (caught : PyExc → Bool)
    (prev : Option Nat) (ps : List α) (p : α) (prev' : Option Nat) (rs : List (Option β))
    (h : runHistory decs caught prev (ps ++ [p]) = .ok (prev', rs)) :
    ∃ prevMid rsInit rLast, runHistory decs caught prev ps = .ok (prevMid, rsInit) ∧
      step decs caught prevMid p = .ok (prev', rLast) ∧ rs = rsInit ++ [rLast] ∧
      (rLast = none → prev' = prevMid) ∧
      (∀ v, rLast = some v → ∃ i d, prev' = some i ∧ decs[i]? = some d ∧ d p = .ok v) := by
  rw [runHistory_snoc] at h
  cases hps : runHistory decs caught prev ps with
  | error e => rw [hps] at h; cases h
  | ok x =>
    obtain ⟨prevMid, rsInit⟩ := x
    rw [hps] at h
    simp only at h
    cases hst : step decs caught prevMid p with
    | error e => rw [hst] at h; cases h
    | ok y =>
      obtain ⟨prev'', rLast⟩ := y
      rw [hst] at h
      simp only [Except.ok.injEq, Prod.mk.injEq] at h
      obtain ⟨h1, h2⟩ := h
      subst h1
      refine ⟨prevMid, rsInit, rLast, rfl, hst, h2.symm, ?_, ?_⟩
      · intro hn; subst hn
        exact previous_unchanged_on_none decs caught prevMid prev'' p hst
      · intro v hv; subst hv
        exact result_from_accepting decs caught prevMid p prev'' v hst

end Amshan.C12
