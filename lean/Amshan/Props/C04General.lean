import Amshan.Lemmas.P1ReadoutGeneral
import Amshan.Props.C04
/-
  C04 (completeness, general) — `is_valid` on RAW bytes.

  `C04.valid_complete` covers the descriptor family `ReadoutDesc.encode` only.  Here: for EVERY readout
  object the constructor accepts, `is_valid = True` is characterised exactly (`valid_iff`), by three
  independent conditions on the bytes:

    identification  the bytes up to and including the first LF are 7-bit and, stripped, match the
                    identification pattern (`identMatch`, described by `C04.ident_wellformed`);
    data block      no octet of the payload exceeds 0x80   (NOT "is 7-bit": the source tests
                    `char > 0x80`, so the single non-ASCII octet 0x80 passes - checked on the real code);
    end line        the text after '!' is 7-bit and is either all white space or a text
                    `int(text.strip(), 16)` accepts whose value is the CRC-16/ARC of the bytes from '/'
                    through '!'.

  The last condition is spelled out by `IsEndHexInt` (`end_grammar`: `Py.intBase16 ∘ Py.strip` accepts
  exactly that grammar): besides the four hex digits of the standard, the composite accepts surrounding
  white space (also between '!' and the digits), a sign, a `0x` / `0X` prefix, single underscores between
  digits and any number of digits - "!0x92E5", "!+92E5", "!9_2_E_5", "! 92E5", "!00092E5" are all accepted
  when 0x92E5 is the CRC; "-92E5", "92E5 x", "_92E5", "92E5_", "0x" are not.  All of them were run
  through the real `DataReadout.is_valid` (same verdicts).  None of this weakens soundness: whatever
  the form, the VALUE must equal the CRC (`valid_checksum_value`).

  Two white-space sets are involved and they differ.  `int()` ITSELF (`int16_grammar`, `IsPyHexInt`)
  skips only C white space (32, 9..13) on an all-ASCII `str`: `int("\x1f1F", 16)` and `int("1F\x1c", 16)`
  raise ValueError in CPython.  The library however calls `int(end[1:].strip(), base=16)`, and
  `str.strip()` also removes the separators 0x1C..0x1F, so around the number in the end line those ARE
  accepted ("! 92E5 \x1f" is valid): `IsEndHexInt` is `IsPyHexInt` with the `str.strip()` white space
  (`end_grammar`, `isEndHexInt_iff_strip`).

  `valid_complete_general` is the property's sentence ("a correctly check-summed all-ASCII readout with
  a well-formed identification line is reported valid") for arbitrary bytes; `valid_iff_bytes` states
  the equivalence directly on a byte string cut at its first LF and first '!'.
-/
namespace Amshan.C04
open Amshan.Gen Amshan.P1 Amshan.P1Spec Amshan.Py Amshan.P1L

/-- **which texts `int(text, 16)` accepts**: the model of the built-in succeeds with value `v` exactly
    on: C white space (32, 9..13; not 0x1C..0x1F), optional sign, optional `0x`/`0X` (+ one optional
    underscore), hex digits with single underscores strictly between digits, C white space -/
theorem int16_grammar (t : List Nat) (v : Int) : Py.intBase16 t = .ok v ↔ IsPyHexInt t v :=
  intBase16_ok_iff t v

/-- **which texts `int(text.strip(), 16)` accepts** (the composite of `expected_checksum`): the same
    grammar with the white space of `str.strip()` (32, 9..13, 0x1C..0x1F) around the number -/
theorem end_grammar (t : List Nat) (v : Int) : Py.intBase16 (Py.strip t) = .ok v ↔ IsEndHexInt t v :=
  intBase16_strip_ok_iff t v

/-- the composite grammar is `int()`'s own grammar on the stripped text -/
theorem isEndHexInt_iff_strip (t : List Nat) (v : Int) : IsEndHexInt t v ↔ IsPyHexInt (Py.strip t) v := by
  rw [← end_grammar, ← int16_grammar]

/-- `int()` on its own does not skip the separators 0x1C..0x1F (CPython: ValueError), `str.strip()`
    does; C white space is skipped by both -/
example : Py.intBase16 [0x1f, 49, 70] = .error .valueError ∧ Py.intBase16 [49, 70, 0x1c] = .error .valueError ∧
    Py.intBase16 [32, 49, 70] = .ok 31 ∧ Py.intBase16 [0x0b, 49, 70, 0x0c] = .ok 31 ∧
    Py.intBase16 (Py.strip [0x1f, 49, 70, 0x1c]) = .ok 31 := by decide

/-- the four-hex-digit checksum texts of the specification are among them -/
theorem checksumText_is_hexInt (t : List Nat) (v : Nat) (h : IsChecksumText t v) : IsPyHexInt t (v : Int) :=
  isPyHexInt_of_checksumText t v h

/-- `expected_checksum` of any readout, as a function of the text after '!': UnicodeDecodeError on an
    octet ≥ 0x80, None on white space only, otherwise `int(text.strip(), 16)` (ValueError when that fails) -/
theorem expected_checksum_exact (raw : List Nat) (r : Readout) (hm : Readout.make raw = .ok r) :
    r.expectedChecksum =
      if r.afterBang.all (· < 128) then
        (if r.afterBang.all isStrSpace then .ok none
         else match Py.intBase16 (Py.strip r.afterBang) with
           | .ok v => .ok (some v)
           | .error e => .error e)
      else .error .unicodeError :=
  expectedChecksum_general r r.afterBang (make_drop_endPos raw r hm).1

/-- the three conditions -/
def IdentOk (r : Readout) : Prop :=
  (∀ x ∈ r.bytes.take r.dataPos, x < 128) ∧ ∃ m, identMatch (strip (r.bytes.take r.dataPos)) = some m

def DataOk (r : Readout) : Prop := ∀ x ∈ r.payload, x ≤ 0x80

def EndOk (r : Readout) : Prop :=
  (∀ x ∈ r.afterBang, x < 128) ∧
  (r.afterBang.all isStrSpace = true ∨
   IsEndHexInt r.afterBang (crc16Arc (r.bytes.take (r.endPos + 1)) : Nat))

/-- the end-line condition in terms of the model of `int()` -/
theorem endOk_iff_model (r : Readout) : EndOk r ↔
    (∀ x ∈ r.afterBang, x < 128) ∧
    (r.afterBang.all isStrSpace = true ∨
     Py.intBase16 (Py.strip r.afterBang) = .ok ((crc16Arc (r.bytes.take (r.endPos + 1)) : Nat) : Int)) := by
  unfold EndOk
  rw [end_grammar]

theorem checksum_part_iff (raw : List Nat) (r : Readout) (hm : Readout.make raw = .ok r) :
    (∃ expected, r.expectedChecksum = .ok expected ∧ mismatch r expected = false) ↔ EndOk r := by
  rw [endOk_iff_model, expected_checksum_exact raw r hm]
  have hall : (r.afterBang.all (· < 128) = true) ↔ ∀ x ∈ r.afterBang, x < 128 := by
    simp [List.all_eq_true]
  by_cases hasc : r.afterBang.all (· < 128) = true
  · rw [if_pos hasc]
    by_cases hsp : r.afterBang.all isStrSpace = true
    · rw [if_pos hsp]
      exact ⟨fun _ => ⟨hall.1 hasc, Or.inl hsp⟩, fun _ => ⟨none, rfl, rfl⟩⟩
    · rw [if_neg hsp]
      constructor
      · rintro ⟨expected, hexp, hmm⟩
        refine ⟨hall.1 hasc, Or.inr ?_⟩
        cases hi : Py.intBase16 (Py.strip r.afterBang) with
        | error e => rw [hi] at hexp; cases hexp
        | ok v =>
          rw [hi] at hexp
          simp only [Except.ok.injEq] at hexp
          subst hexp
          have : (r.calcCrc : Int) = v := by simpa [mismatch] using hmm
          rw [← this, make_calcCrc]
      · rintro ⟨_, h | h⟩
        · exact absurd h hsp
        · rw [h]
          refine ⟨_, rfl, ?_⟩
          simp [mismatch, make_calcCrc]
  · rw [if_neg hasc]
    constructor
    · rintro ⟨_, h, _⟩; cases h
    · rintro ⟨h, _⟩; exact absurd (hall.2 h) hasc

/-- **C04 (validity, exactly).** For every readout object the constructor accepts:
    `is_valid = True` iff the identification line, the data block and the end line check out. -/
theorem valid_iff (raw : List Nat) (r : Readout) (hm : Readout.make raw = .ok r) :
    r.isValid = .ok true ↔ IdentOk r ∧ DataOk r ∧ EndOk r := by
  rw [isValid_true_iff, checksum_part_iff raw r hm]
  have hid : (∃ m, r.identLine = .ok m) ↔ IdentOk r := by
    unfold IdentOk
    constructor
    · rintro ⟨m, h⟩
      have := (identLine_ok_iff r m).1 h
      exact ⟨this.1, m, this.2⟩
    · rintro ⟨h1, m, h2⟩
      exact ⟨m, (identLine_ok_iff r m).2 ⟨h1, h2⟩⟩
  rw [hid]
  unfold DataOk
  constructor
  · rintro ⟨a, b, c⟩; exact ⟨b, c, a⟩
  · rintro ⟨b, c, a⟩; exact ⟨a, b, c⟩

/-- … and `is_valid = False` in every other case (it never raises) -/
theorem invalid_iff (raw : List Nat) (r : Readout) (hm : Readout.make raw = .ok r) :
    r.isValid = .ok false ↔ ¬ (IdentOk r ∧ DataOk r ∧ EndOk r) := by
  rw [← valid_iff raw r hm]
  obtain ⟨b, hb⟩ := isValid_total r
  rw [hb]
  cases b <;> simp

/-- soundness for EVERY accepted checksum form: in a readout reported valid, whatever text after
    '!' `int(text.strip(), 16)` accepts, its value is the CRC-16/ARC of the bytes from '/' through '!' -/
theorem valid_checksum_value (raw : List Nat) (r : Readout) (hm : Readout.make raw = .ok r)
    (h : r.isValid = .ok true) (v : Int) (hv : IsEndHexInt r.afterBang v) :
    v = (crc16Arc (r.bytes.take (r.endPos + 1)) : Nat) := by
  obtain ⟨_, _, _, hend⟩ := (valid_iff raw r hm).1 h
  have hi := (end_grammar _ _).2 hv
  rcases hend with hsp | hcrc
  · -- white space only is not in the grammar
    obtain ⟨w1, sgn, pre, body, w2, ds, ht, _, _, _, _, hbody, _⟩ := hv
    obtain ⟨c, t, _, hb, hc⟩ := hexDigits_head body ds hbody
    have hmem : c ∈ r.afterBang := by rw [ht, hb]; simp
    have := List.all_eq_true.1 hsp c hmem
    rw [hexVal_not_space c t hc] at this
    cases this
  · have := (end_grammar _ _).2 hcrc
    rw [hi] at this
    exact Except.ok.inj this

/-- **C04 (completeness, general).** The property's sentence for arbitrary bytes: the constructor
    accepts `raw`; the identification line (everything up to the first LF) is 7-bit and matches the
    pattern; no data octet exceeds 0x80 (in particular: the readout is all-ASCII); the text after
    '!' is empty, a bare line end, or exactly four hex digits in either case - optionally followed by
    CR LF or LF - whose value is the CRC-16/ARC of the bytes from '/' through '!'.  Then `is_valid`. -/
theorem valid_complete_general (raw : List Nat) (r : Readout) (hm : Readout.make raw = .ok r)
    (hid7 : ∀ x ∈ r.bytes.take r.dataPos, x < 128)
    (hid : ∃ m, identMatch (strip (r.bytes.take r.dataPos)) = some m)
    (hdata : ∀ x ∈ r.payload, x ≤ 0x80)
    (hend : r.afterBang = [] ∨ r.afterBang = [10] ∨ r.afterBang = [13, 10] ∨
      IsChecksumText r.afterBang (crc16Arc (r.bytes.take (r.endPos + 1)))) :
    r.isValid = .ok true := by
  refine (valid_iff raw r hm).2 ⟨⟨hid7, hid⟩, hdata, ?_⟩
  rcases hend with h | h | h | h
  · rw [EndOk, h]; exact ⟨by simp, Or.inl rfl⟩
  · rw [EndOk, h]; exact ⟨by decide, Or.inl rfl⟩
  · rw [EndOk, h]; exact ⟨by decide, Or.inl rfl⟩
  · refine ⟨?_, Or.inr (isEndHexInt_of_isPyHexInt _ _ (checksumText_is_hexInt _ _ h))⟩
    obtain ⟨a, b, c, d, ta, tb, tc, td, term, hte, ha, hb, hc, hd, _, hterm⟩ := h
    intro x hx
    rw [hte] at hx
    simp only [List.cons_append, List.nil_append, List.mem_cons] at hx
    rcases hx with rfl | rfl | rfl | rfl | hx
    · exact (hexVal_lt _ _ ha).1
    · exact (hexVal_lt _ _ hb).1
    · exact (hexVal_lt _ _ hc).1
    · exact (hexVal_lt _ _ hd).1
    · exact (term_space term hterm).2 x hx

/-- the all-ASCII form -/
theorem valid_complete_ascii (raw : List Nat) (r : Readout) (hm : Readout.make raw = .ok r)
    (hascii : ∀ x ∈ r.bytes, x < 128)
    (hid : ∃ m, identMatch (strip (r.bytes.take r.dataPos)) = some m)
    (hend : r.afterBang = [] ∨ r.afterBang = [10] ∨ r.afterBang = [13, 10] ∨
      IsChecksumText r.afterBang (crc16Arc (r.bytes.take (r.endPos + 1)))) :
    r.isValid = .ok true := by
  refine valid_complete_general raw r hm (fun x hx => hascii x (List.mem_of_mem_take hx)) hid ?_ hend
  intro x hx
  have : x ∈ r.bytes := by
    unfold Readout.payload slice at hx
    exact List.mem_of_mem_take (List.mem_of_mem_drop hx)
  have := hascii x this
  omega

/-- **on the bytes themselves.**  A byte string cut at its first LF and its first '!':
    leading white space `ws`, '/' `line` LF `data` '!' `after` (no LF in `line`, no '!' before the end
    character).  The constructor accepts it, the payload is `data`, and it is valid iff … -/
theorem valid_iff_bytes (ws line data after : List Nat) (hws : ws.all isBytesSpace = true)
    (hl : 10 ∉ line) (hb : 33 ∉ line ++ [10] ++ data) :
    ∃ r, Readout.make (ws ++ (47 :: line ++ [10] ++ data ++ [33] ++ after)) = .ok r ∧
      r.bytes = 47 :: line ++ [10] ++ data ++ [33] ++ after ∧ r.payload = data ∧ r.afterBang = after ∧
      (r.isValid = .ok true ↔
        (∀ x ∈ line, x < 128) ∧ (∃ m, identMatch (strip (47 :: line ++ [10])) = some m) ∧
        (∀ x ∈ data, x ≤ 0x80) ∧ (∀ x ∈ after, x < 128) ∧
        (after.all isStrSpace = true ∨
         IsEndHexInt after (crc16Arc (47 :: line ++ [10] ++ data ++ [33]) : Nat))) := by
  have hstrip : lstripBytes (ws ++ (47 :: line ++ [10] ++ data ++ [33] ++ after)) =
      47 :: (line ++ [10] ++ data ++ [33] ++ after) := by
    unfold lstripBytes
    rw [dropWhile_append_all _ _ _ hws]
    simp [isBytesSpace]
  have h33 : 33 ∉ (47 :: line ++ [10] ++ data) := by
    intro hmem
    simp only [List.cons_append, List.mem_cons] at hmem
    rcases hmem with h | h
    · omega
    · exact hb (by simpa using h)
  have h10 : 10 ∉ (47 :: line) := by
    intro hmem
    rcases List.mem_cons.1 hmem with h | h
    · omega
    · exact hl h
  have hfb : find (47 :: (line ++ [10] ++ data ++ [33] ++ after)) 33 = some (47 :: line ++ [10] ++ data).length := by
    have := find_append_of_not_mem (47 :: line ++ [10] ++ data) after 33 h33
    simpa using this
  have hfl : find (47 :: (line ++ [10] ++ data ++ [33] ++ after)) 10 = some (47 :: line).length := by
    have := find_append_of_not_mem (47 :: line) (data ++ [33] ++ after) 10 h10
    simpa using this
  have hmk := make_of_facts _ _ _ hstrip hfb
  rw [hfl] at hmk
  simp only at hmk
  refine ⟨_, hmk, by simp, ?_, ?_, ?_⟩
  · refine payload_exact _ _ hmk (47 :: line) data after (by simp) h10 ?_
    simpa using h33
  · unfold Readout.afterBang
    have : (47 :: (line ++ [10] ++ data ++ [33] ++ after)) = (47 :: line ++ [10] ++ data ++ [33]) ++ after := by simp
    simp only
    rw [this]
    exact List.drop_left' (by simp <;> omega)
  · rw [valid_iff _ _ hmk]
    have htake : (47 :: (line ++ [10] ++ data ++ [33] ++ after)).take ((47 :: line).length + 1) = 47 :: line ++ [10] := by
      have : (47 :: (line ++ [10] ++ data ++ [33] ++ after)) = (47 :: line ++ [10]) ++ (data ++ [33] ++ after) := by simp
      rw [this, show (47 :: line).length + 1 = (47 :: line ++ [10]).length by simp, List.take_left]
    have htakeE : (47 :: (line ++ [10] ++ data ++ [33] ++ after)).take ((47 :: line ++ [10] ++ data).length + 1) =
        47 :: line ++ [10] ++ data ++ [33] := by
      have : (47 :: (line ++ [10] ++ data ++ [33] ++ after)) = (47 :: line ++ [10] ++ data ++ [33]) ++ after := by simp
      rw [this]
      exact List.take_left' (by simp <;> omega)
    have hpay : (Readout.mk (47 :: (line ++ [10] ++ data ++ [33] ++ after)) (47 :: line ++ [10] ++ data).length
        ((47 :: line).length + 1)).payload = data := by
      refine payload_exact _ _ hmk (47 :: line) data after (by simp) h10 ?_
      simpa using h33
    have hab : (Readout.mk (47 :: (line ++ [10] ++ data ++ [33] ++ after)) (47 :: line ++ [10] ++ data).length
        ((47 :: line).length + 1)).afterBang = after := by
      unfold Readout.afterBang
      have : (47 :: (line ++ [10] ++ data ++ [33] ++ after)) = (47 :: line ++ [10] ++ data ++ [33]) ++ after := by simp
      simp only
      rw [this]
      exact List.drop_left' (by simp <;> omega)
    unfold IdentOk DataOk EndOk
    rw [hpay, hab]
    simp only [htake, htakeE]
    constructor
    · rintro ⟨⟨h1, h2⟩, h3, h4, h5⟩
      exact ⟨fun x hx => h1 x (by simp [hx]), h2, h3, h4, h5⟩
    · rintro ⟨h1, h2, h3, h4, h5⟩
      refine ⟨⟨?_, h2⟩, h3, h4, h5⟩
      intro x hx
      simp only [List.cons_append, List.mem_cons, List.mem_append, List.not_mem_nil, or_false] at hx
      rcases hx with rfl | hx | rfl
      · decide
      · exact h1 x hx
      · decide

/-- without an LF there is no identification line: never valid -/
theorem no_lf_invalid (raw : List Nat) (r : Readout) (hm : Readout.make raw = .ok r) (h : 10 ∉ r.bytes) :
    r.isValid = .ok false := by
  rw [invalid_iff raw r hm]
  rintro ⟨⟨_, m, hid⟩, _⟩
  obtain ⟨_, _, _, hdp⟩ := make_ok raw r hm
  rw [find_none_of_not_mem _ _ h] at hdp
  rw [hdp] at hid
  simp [strip, rstripWith, identMatch] at hid

/-! ### non-vacuity on real readouts (tests/test_dlde.py), neither of which is a `ReadoutDesc.encode` -/

set_option maxRecDepth 100000

def asc (x : String) : List Nat := x.toList.map Char.toNat

/-- EXAMPLE_DATA_A_LANDISGYR_360: 702 octets, ends `!A077` WITHOUT a line end -/
def exampleA : List Nat := List.flatten [
  asc "/LGF5E360\r\n",
  asc "\r\n",
  asc "0-0:1.0.0(210222161900W)\r\n",
  asc "1-0:1.8.0(00000896.020*kWh)\r\n",
  asc "1-0:2.8.0(00000048.792*kWh)\r\n",
  asc "1-0:3.8.0(00000518.309*kVArh)\r\n",
  asc "1-0:4.8.0(00000023.732*kVArh)\r\n",
  asc "1-0:1.7.0(0000.000*kW)\r\n",
  asc "1-0:2.7.0(0000.020*kW)\r\n",
  asc "1-0:3.7.0(0000.000*kVAr)\r\n",
  asc "1-0:4.7.0(0000.308*kVAr)\r\n",
  asc "1-0:21.7.0(0000.000*kW)\r\n",
  asc "1-0:22.7.0(0000.012*kW)\r\n",
  asc "1-0:41.7.0(0000.000*kW)\r\n",
  asc "1-0:42.7.0(0000.071*kW)\r\n",
  asc "1-0:61.7.0(0000.063*kW)\r\n",
  asc "1-0:62.7.0(0000.000*kW)\r\n",
  asc "1-0:23.7.0(0000.000*kVAr)\r\n",
  asc "1-0:24.7.0(0000.146*kVAr)\r\n",
  asc "1-0:43.7.0(0000.000*kVAr)\r\n",
  asc "1-0:44.7.0(0000.135*kVAr)\r\n",
  asc "1-0:63.7.0(0000.000*kVAr)\r\n",
  asc "1-0:64.7.0(0000.026*kVAr)\r\n",
  asc "1-0:32.7.0(230.1*V)\r\n",
  asc "1-0:52.7.0(232.2*V)\r\n",
  asc "1-0:72.7.0(230.4*V)\r\n",
  asc "1-0:31.7.0(000.6*A)\r\n",
  asc "1-0:51.7.0(000.6*A)\r\n",
  asc "1-0:71.7.0(000.3*A)\r\n",
  asc "!A077"]

/-- EXAMPLE_DATA_KAMSTRUP: 702 octets, begins with CR LF before '/', identification `/KAM5` without
    identification field, ends `!92F5` CR LF -/
def exampleKamstrup : List Nat := List.flatten [
  asc "\r\n",
  asc "/KAM5\r\n",
  asc "\r\n",
  asc "0-0:1.0.0(220408135021W)\r\n",
  asc "1-0:1.8.0(00060995.424*kWh)\r\n",
  asc "1-0:2.8.0(00000000.000*kWh)\r\n",
  asc "1-0:3.8.0(00000012.696*kVArh)\r\n",
  asc "1-0:4.8.0(00012541.802*kVArh)\r\n",
  asc "1-0:1.7.0(0002.202*kW)\r\n",
  asc "1-0:2.7.0(0000.000*kW)\r\n",
  asc "1-0:3.7.0(0000.000*kVAr)\r\n",
  asc "1-0:4.7.0(0000.505*kVAr)\r\n",
  asc "1-0:21.7.0(0001.947*kW)\r\n",
  asc "1-0:41.7.0(0000.063*kW)\r\n",
  asc "1-0:61.7.0(0000.192*kW)\r\n",
  asc "1-0:22.7.0(0000.000*kW)\r\n",
  asc "1-0:42.7.0(0000.000*kW)\r\n",
  asc "1-0:62.7.0(0000.000*kW)\r\n",
  asc "1-0:23.7.0(0000.000*kVAr)\r\n",
  asc "1-0:43.7.0(0000.000*kVAr)\r\n",
  asc "1-0:63.7.0(0000.000*kVAr)\r\n",
  asc "1-0:24.7.0(0000.204*kVAr)\r\n",
  asc "1-0:44.7.0(0000.095*kVAr)\r\n",
  asc "1-0:64.7.0(0000.206*kVAr)\r\n",
  asc "1-0:32.7.0(235.5*V)\r\n",
  asc "1-0:52.7.0(239.5*V)\r\n",
  asc "1-0:72.7.0(239.1*V)\r\n",
  asc "1-0:31.7.0(008.3*A)\r\n",
  asc "1-0:51.7.0(000.4*A)\r\n",
  asc "1-0:71.7.0(001.4*A)\r\n",
  asc "!92F5\r\n"]

/-- every hypothesis of `valid_complete_ascii` holds for EXAMPLE_DATA_A; the conclusion is the test
    suite's `assert readout.is_valid` -/
example : ∃ r, Readout.make exampleA = .ok r ∧ r.endPos = 697 ∧ r.dataPos = 11 ∧ r.afterBang = asc "A077" ∧
    r.isValid = .ok true := by
  have hm : Readout.make exampleA = .ok ⟨exampleA, 697, 11⟩ := by decide +kernel
  refine ⟨_, hm, rfl, rfl, by decide +kernel, ?_⟩
  refine valid_complete_ascii _ _ hm (by decide +kernel) ⟨⟨asc "LGF", some (asc "E360")⟩, by decide +kernel⟩ ?_
  exact Or.inr (Or.inr (Or.inr ⟨65, 48, 55, 55, 10, 0, 7, 7, [], by decide +kernel, by decide, by decide, by decide,
    by decide, by decide +kernel, Or.inl rfl⟩))

/-- … and for EXAMPLE_DATA_KAMSTRUP (leading CR LF stripped by the constructor) -/
example : ∃ r, Readout.make exampleKamstrup = .ok r ∧ r.bytes = exampleKamstrup.drop 2 ∧ r.endPos = 693 ∧
    r.dataPos = 7 ∧ r.afterBang = asc "92F5\r\n" ∧ r.isValid = .ok true := by
  have hm : Readout.make exampleKamstrup = .ok ⟨exampleKamstrup.drop 2, 693, 7⟩ := by decide +kernel
  refine ⟨_, hm, rfl, rfl, rfl, by decide +kernel, ?_⟩
  refine valid_complete_ascii _ _ hm (by decide +kernel) ⟨⟨asc "KAM", none⟩, by decide +kernel⟩ ?_
  exact Or.inr (Or.inr (Or.inr ⟨57, 50, 70, 53, 9, 2, 15, 5, [13, 10], by decide +kernel, by decide, by decide,
    by decide, by decide, by decide +kernel, Or.inr (Or.inr rfl)⟩))

/-! ### the conditions that look surprising, on a short readout (all verdicts as on the real code) -/

/-- "/LGF5E360" CR LF, one data line, '!' ; CRC-16/ARC 0x92E5 -/
def shortBody : List Nat := asc "/LGF5E360\r\n0-0:1.0.0(210222161900W)\r\n!"

example : crc16Arc shortBody = 0x92E5 := by decide +kernel

def shortWith (e : String) : Readout := ⟨shortBody ++ asc e, 37, 11⟩

/-- accepted forms of the checksum 0x92E5: lower case, `0x`, `0X_`, `+`, underscores between digits,
    white space around (also before the digits and the separator 0x1F), leading zeros, VT FF as line
    end; and no checksum at all, or only white space -/
example : ∀ e ∈ ["92E5", "92e5", "0x92E5", "0X_92E5", "+92E5", "9_2_E_5", " 92E5 \x1f", "\t92E5", "00092E5",
    "92E5\x0b\x0c", "", " \x1c\r\n"],
    Readout.make (shortBody ++ asc e) = .ok (shortWith e) ∧ EndOk (shortWith e) ∧ (shortWith e).isValid = .ok true := by
  have key : ∀ e, Readout.make (shortBody ++ asc e) = .ok (shortWith e) → (shortWith e).isValid = .ok true →
      Readout.make (shortBody ++ asc e) = .ok (shortWith e) ∧ EndOk (shortWith e) ∧ (shortWith e).isValid = .ok true :=
    fun e hm hv => ⟨hm, ((valid_iff _ _ hm).1 hv).2.2, hv⟩
  intro e he
  simp only [List.mem_cons, List.not_mem_nil, or_false] at he
  rcases he with rfl | rfl | rfl | rfl | rfl | rfl | rfl | rfl | rfl | rfl | rfl | rfl <;>
    exact key _ (by decide +kernel) (by decide +kernel)

/-- rejected: trailing text, a minus sign, three digits (another value), a bare prefix, an underscore
    at either end, a double underscore -/
example : ∀ e ∈ ["92E5 x", "-92E5", "92E", "0x", "_92E5", "92E5_", "9__2E5"],
    Readout.make (shortBody ++ asc e) = .ok (shortWith e) ∧ ¬ EndOk (shortWith e) ∧
    (shortWith e).isValid = .ok false := by
  have key : ∀ e, Readout.make (shortBody ++ asc e) = .ok (shortWith e) → (shortWith e).isValid = .ok false →
      IdentOk (shortWith e) → DataOk (shortWith e) →
      Readout.make (shortBody ++ asc e) = .ok (shortWith e) ∧ ¬ EndOk (shortWith e) ∧ (shortWith e).isValid = .ok false := by
    intro e hm hv hid hd
    refine ⟨hm, ?_, hv⟩
    intro hend
    have := (valid_iff _ _ hm).2 ⟨hid, hd, hend⟩
    rw [hv] at this
    cases this
  intro e he
  simp only [List.mem_cons, List.not_mem_nil, or_false] at he
  rcases he with rfl | rfl | rfl | rfl | rfl | rfl | rfl <;>
    exact key _ (by decide +kernel) (by decide +kernel)
      ⟨by decide +kernel, ⟨asc "LGF", some (asc "E360")⟩, by decide +kernel⟩ (by unfold DataOk; decide +kernel)

/-- `char > 0x80`: the octet 0x80 in the data block passes (0x81 does not), although the readout is
    not ASCII.  (The identification line and the end line ARE required to be 7-bit: they are decoded.) -/
example :
    let b80 : List Nat := asc "/LGF5E360\r\n0-0:1.0.0(2102" ++ [0x80] ++ asc ")\r\n!\r\n"
    let b81 : List Nat := asc "/LGF5E360\r\n0-0:1.0.0(2102" ++ [0x81] ++ asc ")\r\n!\r\n"
    (∃ r, Readout.make b80 = .ok r ∧ 0x80 ∈ r.payload ∧ r.isValid = .ok true) ∧
    (∃ r, Readout.make b81 = .ok r ∧ r.isValid = .ok false) := by
  intro b80 b81
  exact ⟨⟨⟨b80, 29, 11⟩, by decide +kernel, by decide +kernel, by decide +kernel⟩,
    ⟨⟨b81, 29, 11⟩, by decide +kernel, by decide +kernel⟩⟩

/-- the first LF may come AFTER '!': "/ABC5!" LF is valid (identification "/ABC5!" with identification
    field "!", empty payload, no checksum); so is "/ABC5!7409" LF, 0x7409 being the CRC of "/ABC5!".
    Without any LF there is no identification line (`no_lf_invalid`). -/
example : (∃ r, Readout.make (asc "/ABC5!\n") = .ok r ∧ r.payload = [] ∧ r.isValid = .ok true) ∧
    (∃ r, Readout.make (asc "/ABC5!7409\n") = .ok r ∧ r.payload = [] ∧ r.isValid = .ok true) ∧
    (∃ r, Readout.make (asc "/ABC5!") = .ok r ∧ r.isValid = .ok false) := by
  have h3 : Readout.make (asc "/ABC5!") = .ok ⟨asc "/ABC5!", 5, 0⟩ := by decide +kernel
  exact ⟨⟨⟨asc "/ABC5!\n", 5, 7⟩, by decide +kernel, by decide +kernel, by decide +kernel⟩,
    ⟨⟨asc "/ABC5!7409\n", 5, 11⟩, by decide +kernel, by decide +kernel, by decide +kernel⟩,
    ⟨_, h3, no_lf_invalid _ _ h3 (by decide +kernel)⟩⟩

end Amshan.C04
