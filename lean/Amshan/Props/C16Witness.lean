import Amshan.Props.C16Hdlc
import Amshan.Props.C16P1
import Amshan.Props.C02Witness
import Amshan.Props.C05Witness
/-
  C16 — non-vacuity witnesses: noise prefixes of the kinds the property names (a prefix that looks like a
  frame start and ends in an ESCAPE octet, an aborted frame 7D 7E, a truncated REAL frame, a truncated readout)
  followed by the clean streams of Props/C02Witness (REAL frames of tests/test_hdlc.py) and Props/C05Witness.
-/
namespace Amshan.C16.Witness
set_option linter.defProp false
set_option maxRecDepth 100000
open Amshan.Gen Amshan.Hdlc Amshan.HdlcSpec Amshan.P1 Amshan.P1Spec
open C02.Witness (fKaifa fAidon fEmpty frames split split_flatten)

/-- noise; a frame start A0 27 01 02 01 10 5A 87 E6 (the real header, HCS good) that is aborted by 7D 7E; another
    frame start that ends in a lone escape octet -/
def pre : List Nat :=
  [0x00, 0xFF, 0x7E, 0xA0, 0x27, 0x01, 0x02, 0x01, 0x10, 0x5A, 0x87, 0xE6, 0x7D, 0x7E, 0x7E, 0xA0, 0x27, 0x01, 0x7D]

def hpre : Octets pre := by decide

/-! ### `hdlc_resync_stuffing(_chunked)` : stuffing on, `Octets pre`, well-formed frames with fill ≥ 1, closing ≥ 1 -/

def hfsS : ∀ p ∈ frames, p.1.WF ∧ 1 ≤ p.2 := by decide

example (abort : Bool) : ∃ junk, (run ⟨true, abort⟩ Core.init (pre ++ wire true [] frames 2)).2 =
    junk ++ [expectedFrame fAidon, expectedFrame fEmpty] :=
  hdlc_resync_stuffing ⟨true, abort⟩ rfl pre hpre frames 2 hfsS (by decide)

example (abort : Bool) : ∃ junk, (readAll ⟨true, abort⟩ Reader.init (split (pre ++ wire true [] frames 2))).2.flatten =
    junk ++ [expectedFrame fAidon, expectedFrame fEmpty] :=
  hdlc_resync_stuffing_chunked ⟨true, abort⟩ rfl pre hpre frames 2 hfsS (by decide) _ (split_flatten _)

/-- what really happens on this instance (abort detection on): the frame start ending in a lone escape is
    closed by the opening flag of the first clean frame, which is thereby lost; the lone escape does NOT damage
    anything after it (defects D4 / D13 repaired): the second and third frame are delivered, valid -/
example : (run ⟨true, true⟩ Core.init (pre ++ wire true [] frames 2)).2 = [expectedFrame fAidon, expectedFrame fEmpty] := by
  decide +kernel

/-! ### `hdlc_resync_plain` : stuffing off, flag-free frames, (abort on → last octet not an escape), `L` bounds
    fill + length.  Sixty copies of the real Aidon frame (42 octets, an escape octet inside, no flag) with one
    flag of fill: 2 580 octets of clean stream, more than 2047 + 2·43, so the conclusion is not empty. -/

def many : List (FrameDesc × Nat) := List.replicate 60 (fAidon, 1)

def sum_rep (n a : Nat) : (List.replicate n a).sum = n * a := by
  induction n with
  | zero => simp
  | succ n ih => rw [List.replicate_succ, List.sum_cons, ih, Nat.succ_mul]; omega

def hfsP (abort : Bool) : ∀ p ∈ many, p.1.WF ∧ 1 ≤ p.2 ∧ flag ∉ p.1.encode ∧
    ((Cfg.mk false abort).abort = true → p.1.encode.getLast? ≠ some esc) ∧ p.2 + p.1.encode.length ≤ 43 := by
  intro p hp
  rw [List.eq_of_mem_replicate hp]
  refine ⟨by decide, by decide, by decide +kernel, fun _ => by decide +kernel, by decide +kernel⟩

/-- the garbage in progress: the real Kaifa header announcing 39 octets, then noise — the reader is inside a
    frame when the clean stream begins -/
def preP : List Nat := [0x7E, 0xA0, 0x27, 0x01, 0x02, 0x01, 0x10, 0x5A, 0x87, 0xE6, 0x00, 0x11, 0x7D]

example (abort : Bool) : ∃ junk k, (run ⟨false, abort⟩ Core.init (preP ++ wire false [] many 1)).2 =
      junk ++ (List.replicate (60 - k) (expectedFrame fAidon)) ∧ 10 ≤ 60 - k := by
  obtain ⟨junk, k, h, hk⟩ := hdlc_resync_plain ⟨false, abort⟩ rfl preP (by decide) many 1 43 (hfsP abort) (by decide)
  refine ⟨junk, k, ?_, ?_⟩
  · rw [h]; simp only [many, List.drop_replicate, List.map_replicate]
  · -- the first k frames occupy at most 2047 + 86 octets, each 43: k ≤ 49
    have he : (1 + fAidon.encode.length) = 43 := by decide +kernel
    have hs : ((many.take k).map (fun p => p.2 + p.1.encode.length)).sum = min k 60 * 43 := by
      simp only [many, List.take_replicate, List.map_replicate, he]
      exact sum_rep _ _
    rw [hs] at hk
    have : maxFrameLen = 2047 := by decide
    omega

/-- what really happens on this instance: with abort detection the escape octet before the first flag aborts
    the garbage at once and only the first frame is lost.  (Without abort detection the garbage frame —
    announcing 39 octets, never of the right length at a flag — absorbs the clean stream until it exceeds 2047
    octets: `#eval` of the model gives 12 of the 60 frames, i.e. k = 48 of the allowed 49; the bound of the
    theorem is attained, not pessimistic.  Not checked here: ~40 s of kernel time.) -/
example : (run ⟨false, true⟩ Core.init (preP ++ wire false [] (many.take 3) 1)).2 =
    [expectedFrame fAidon, expectedFrame fAidon] := by
  decide +kernel

/-! ### `p1_resync` : `Octets pre`, well-formed readouts within the guard -/

/-- line noise, a complete-looking identification line with a truncated data line (no end line) -/
def preP1 : List Nat := [0xFF, 0x00, 0x21, 0x0A] ++ C05.Witness.s "/LGF5E360\r\n\r\n1-0:1.8.0(0000"

example : Octets preP1 ∧
    ∃ r outs junk, P1.readAll P1.Reader.init (C05.Witness.chunksOf 64 150 (preP1 ++ C05.Witness.ds.flatMap ReadoutDesc.encode)) =
        .ok (r, outs) ∧
      outs.flatten = junk ++ [expectedReadout C05.Witness.dB, expectedReadout C05.Witness.dS, expectedReadout C05.Witness.dLong] :=
  ⟨by decide +kernel,
   p1_resync preP1 (by decide +kernel) C05.Witness.ds _ C05.Witness.hds (C05.Witness.chunksOf_flatten 64 150 _)⟩

end Amshan.C16.Witness
